import TenpyModel.C01.C_Sort2
/-!
C01 part C — `sort_legcharge`, part 3: the outgoing leg of the one-leg pipe `LegPipe([leg], qconj=leg.qconj, sort,
bunch)`: same length, the charge of flat index `k` is the charge of index `perm[k]` of the old leg (`onePipe_qflat`),
it passes `test_sanity`, and is sorted / bunched as requested (`onePipe_flags`).
-/
namespace TenpyModel.C01C.SortLc
open TenpyModel.Core TenpyModel.Core.Pipe

theorem onePipe_indLen (l : Leg) (h : l.Shape) (qconj : Int) (sort bunch : Bool) :
    (init [l] qconj sort bunch).leg.indLen = l.indLen := by
  rw [indLen_prod [l] qconj sort bunch (by intro m hm; rw [List.mem_singleton.1 hm]; exact h)]; simp

theorem czero_cadd (c : Charge) : cadd (czero c.length) c = c := by
  unfold cadd czero
  induction c with
  | nil => rfl
  | cons x c ih => simp [List.replicate_succ, ih]

/-- the fused charge of a single index with `qconj = leg.qconj` is the charge of the index -/
theorem fuseFlat_one (l : Leg) (hw : l.WF) (i : Nat) (hi : i < l.indLen) :
    fuseFlat (gMods [l]) [l] l.qconj [i] = l.toQflat.getD i [] := by
  obtain ⟨q1, q2, q3, _⟩ := l.locateQ_spec hw.shape i hi
  have hc : l.toQflat.getD i [] = l.charges.getD (l.locateQ i).1 [] := hw.shape.toQflat_getD _ i q1 q2 q3
  have hmem : l.charges.getD (l.locateQ i).1 [] ∈ l.charges := getD_mem _ _ _ q1
  have hv := hw.valid _ hmem
  have hlen := checkValid_length hv
  have hqq : l.qconj * l.qconj = 1 := by rcases hw.qconj with e | e <;> rw [e] <;> rfl
  show makeValid l.mods (csum l.mods.length [cscale (l.qconj * l.qconj) (l.toQflat.getD i [])]) = _
  rw [hqq, cscale_one, hc]
  show makeValid l.mods (cadd (czero l.mods.length) _) = _
  rw [← hlen, czero_cadd, makeValid_of_checkValid _ _ hv]

theorem getD_inj_of_nodup (p : List Nat) (hn : p.Nodup) (i j : Nat) (hi : i < p.length) (hj : j < p.length)
    (e : p.getD i 0 = p.getD j 0) : i = j := by
  rw [getD_lt p i 0 hi, getD_lt p j 0 hj] at e
  exact (List.Nodup.getElem_inj_iff hn).1 e

/-- **charges follow the reported permutation**: `new_leg.to_qflat() = leg.to_qflat()[perm]` -/
theorem onePipe_qflat (l : Leg) (hw : l.WF) (sort bunch : Bool) :
    (init [l] l.qconj sort bunch).leg.toQflat
      = (pipePerm l (init [l] l.qconj sort bunch)).map (l.toQflat.getD · []) := by
  have h := hw.shape
  have hsh : ∀ m ∈ [l], m.Shape := by intro m hm; rw [List.mem_singleton.1 hm]; exact h
  have hpp := pipePerm_perm l h l.qconj sort bunch
  have hplen : (pipePerm l (init [l] l.qconj sort bunch)).length = l.indLen := by simpa using hpp.length_eq
  have hnd : (pipePerm l (init [l] l.qconj sort bunch)).Nodup := hpp.nodup_iff.2 List.nodup_range
  have hlen : (init [l] l.qconj sort bunch).leg.toQflat.length = l.indLen := by
    rw [(leg_shape [l] l.qconj sort bunch).toQflat_length, onePipe_indLen l h]
  apply ext_getD _ _ [] (by rw [hlen, List.length_map, hplen])
  intro f hf
  rw [hlen] at hf
  rw [getD_map' _ _ f 0 [] (by rw [hplen]; exact hf)]
  have hi : (pipePerm l (init [l] l.qconj sort bunch)).getD f 0 < l.indLen :=
    perm_range_lt _ _ hpp f (by rw [hplen]; exact hf)
  obtain ⟨f', hf', hflt, hinv⟩ := onePipe_inv l h l.qconj sort bunch _ hi
  have hff : f' = f := getD_inj_of_nodup _ hnd f' f (by rw [hplen]; exact hflt) (by rw [hplen]; exact hf) hinv
  subst hff
  obtain ⟨f2, hf2, _, hc⟩ := mapIncomingFlat_spec [l] l.qconj sort bunch hsh
    [(pipePerm l (init [l] l.qconj sort bunch)).getD f' 0] ⟨hi, trivial⟩
  have e : f2 = f' := by
    have : some f2 = some f' := by rw [← hf2, ← hf']; rfl
    exact Option.some.inj this
  rw [e] at hc
  rw [hc, fuseFlat_one l hw _ hi]

/-- the new leg passes `test_sanity` (class invariant, truthful flags) and carries the requested flags -/
theorem onePipe_flags (l : Leg) (hw : l.WF) (sort bunch : Bool) :
    (init [l] l.qconj sort bunch).leg.WF ∧ (init [l] l.qconj sort bunch).leg.sane = true
    ∧ (sort = true → (init [l] l.qconj sort bunch).leg.sorted = true ∧ (init [l] l.qconj sort bunch).leg.isSorted = true)
    ∧ (bunch = true → (init [l] l.qconj sort bunch).leg.bunched = true
        ∧ (init [l] l.qconj sort bunch).leg.isBunched = true) := by
  obtain ⟨w, s⟩ := leg_WF_sane [l] l.qconj sort bunch (by intro m hm; rw [List.mem_singleton.1 hm]; exact hw)
    (by intro m hm; rw [List.mem_singleton.1 hm]; rfl) hw.qconj
  have hfl := w.sane_iff.1 s
  have hs : sort = true → (init [l] l.qconj sort bunch).leg.sorted = true := by
    intro e
    subst e
    by_cases hs : (gSubq [l]).all (· == 1) = true
    · rw [init_single [l] l.qconj true bunch hs]
    · have hs' : (gSubq [l]).all (· == 1) = false := by simpa using hs
      cases bunch
      · rw [leg_nobunch [l] l.qconj true hs']; rfl
      · rw [leg_bunch [l] l.qconj true hs']; rfl
  have hb : bunch = true → (init [l] l.qconj sort bunch).leg.bunched = true := by
    intro e
    subst e
    by_cases hs : (gSubq [l]).all (· == 1) = true
    · rw [init_single [l] l.qconj sort true hs]
    · have hs' : (gSubq [l]).all (· == 1) = false := by simpa using hs
      rw [leg_bunch [l] l.qconj sort hs']; rfl
  exact ⟨w, s, fun e => ⟨hs e, hfl.1 (hs e)⟩, fun e => ⟨hb e, hfl.2 (hb e)⟩⟩

end TenpyModel.C01C.SortLc
