import TenpyModel.C01.C_Concat7
import TenpyModel.C01.B_Charge
/-!
C01 part C — `concatenate` preserves the charge rule (`Arr.ChargeRule`) and the validity of the legs (`LegsValid`),
so that the result can be fed to the theorems that need them (`getItemInt_spec`, `inner`, `tensordot`, …).

A stored row of the result is a stored row of an operand `a` with the block index on the axis shifted; its block
charge is computed from the legs of the *first* operand off the axis (which only pass `test_equal` with those of
`a`: equal charges **modulo `mod`** after multiplication by `qconj`) and from the concatenated leg on the axis (whose
charge rows are negated when `qconj` differs). Each summand agrees modulo `mod` with the summand of `a`, hence the
sums agree after `make_valid`.
Extra hypothesis: the legs on the axis have `qconj = ±1` (part of `test_sanity`; `LegsValid` does not say it).
-/
namespace TenpyModel.C01C.Cat
open TenpyModel.Core TenpyModel.C01B

variable {α : Type}

theorem mv_cadd_congr (m : List Nat) (a a' b b' : Charge) (ha : makeValid m a = makeValid m a')
    (hb : makeValid m b = makeValid m b') : makeValid m (cadd a b) = makeValid m (cadd a' b') := by
  rw [← makeValid_add m a b, hb, makeValid_add, ← makeValid_add_left m a b', ha, makeValid_add_left]

/-- sums of charge vectors that agree term by term modulo `mod` agree modulo `mod` -/
theorem mv_foldl_congr (m : List Nat) (cs cs' : List Charge) (z z' : Charge) (hl : cs.length = cs'.length)
    (hp : ∀ i, i < cs.length → makeValid m (cs.getD i []) = makeValid m (cs'.getD i []))
    (hz : makeValid m z = makeValid m z') :
    makeValid m (cs.foldl cadd z) = makeValid m (cs'.foldl cadd z') := by
  induction cs generalizing cs' z z' with
  | nil =>
    cases cs' with
    | nil => exact hz
    | cons _ _ => simp at hl
  | cons c cs ih =>
    cases cs' with
    | nil => simp at hl
    | cons c' cs' =>
      simp only [List.foldl_cons]
      apply ih cs' _ _ (by simpa using hl)
      · intro i hi
        simpa using hp (i + 1) (by simpa using hi)
      · exact mv_cadd_congr m _ _ _ _ hz (by simpa using hp 0 (by simp))

/-- legs that pass `test_equal`: charges of a block agree modulo `mod` after multiplication by `qconj` -/
theorem testEqual_getCharge (a b : Leg) (h : a.testEqual b = true) (q : Nat) :
    makeValid a.mods (a.getCharge q) = makeValid a.mods (b.getCharge q) := by
  unfold Leg.testEqual Leg.eq? at h
  split at h
  · simp at h
  · rename_i hm
    simp only [ne_eq, Decidable.not_not] at hm
    simp only [beq_iff_eq, Option.some.injEq, Bool.and_eq_true] at h
    have hk := congrArg (fun l => l.getD q []) h.2
    simp only [Leg.physCharges] at hk
    have hf : ∀ (m : List Nat) (s : Int), (fun c => makeValid m (cscale s c)) [] = [] := by
      intro m s; simp [makeValid, cscale]
    rw [Pipe.getD_map_nil (f := fun c => makeValid a.mods (cscale a.qconj c)) (hf _ _),
      Pipe.getD_map_nil (f := fun c => makeValid b.mods (cscale b.qconj c)) (hf _ _), ← hm] at hk
    exact hk

theorem cscale_cneg (s : Int) (c : Charge) : cscale s (cneg c) = cscale (-s) c := by
  unfold cscale cneg
  rw [List.map_map]
  apply List.map_congr_left
  intro x _
  simp only [Function.comp, Int.mul_neg, Int.neg_mul]

/-- the charge of a block of the concatenated leg agrees modulo `mod` with the charge of the operand's block -/
theorem catLeg_getCharge (mods : List Nat) (qc : Int) (pre post : List Leg) (L : Leg)
    (hqc : qc = 1 ∨ qc = -1) (hqL : L.qconj = 1 ∨ L.qconj = -1) (q : Nat) (hq : q < L.blockNumber) :
    makeValid mods ((catLeg mods qc (pre ++ L :: post)).getCharge ((pre.map Leg.blockNumber).sum + q))
      = makeValid mods (L.getCharge q) := by
  unfold Leg.getCharge
  rw [catLeg_qconj, catLeg_charges_getD mods qc pre post L q hq]
  unfold catCharges
  by_cases he : L.qconj = qc
  · rw [if_pos he, he]
  · rw [if_neg he]
    have hf : (fun c => makeValid mods (cneg c)) [] = [] := by simp [makeValid, cneg]
    rw [Pipe.getD_map_nil (f := fun c => makeValid mods (cneg c)) hf, makeValid_scale, cscale_cneg]
    have : L.qconj = -qc := by omega
    rw [this]

namespace Ctx
variable {first : Arr α} {rest : List (Arr α)} {k : Nat}

/-- block charge of a shifted row of the operand `a` w.r.t. the legs of the result -/
theorem row_charge (c : Ctx first rest k) (pre post : List (Arr α)) (a : Arr α)
    (hd : first :: rest = pre ++ a :: post) (hva : LegsValid a)
    (hq : ∀ b ∈ first :: rest, (b.lc k).qconj = 1 ∨ (b.lc k).qconj = -1)
    (row : List Nat) (hrow : row ∈ a.qdata) :
    blockChargeOf first.mods (catRes first rest k).lcs (shiftRow k (shiftOf k pre) row)
      = blockChargeOf a.mods a.lcs row := by
  have ha : a ∈ first :: rest := by rw [hd]; simp
  have w := W.of (c.wf a ha)
  have hr := c.rank a ha
  have hm : a.mods = first.mods := (c.compat a ha).2.1
  have hrl : row.length = a.rank := w.rowLen _ hrow
  have hk1 : k < a.rank := by rw [hr]; exact c.hk
  unfold blockChargeOf csum
  rw [hm, lcs_res]
  apply mv_foldl_congr
  · simp only [List.length_zipWith, List.length_set, shiftRow_length, Arr.lcs_length, hrl, hr]
  · intro i hi
    simp only [List.length_zipWith, List.length_set, shiftRow_length, Arr.lcs_length, hrl, hr, Nat.min_self] at hi
    rw [getD_zipWith' _ _ _ i default 0 [] (by rw [List.length_set, Arr.lcs_length]; exact hi)
        (by rw [shiftRow_length, hrl, hr]; exact hi),
      getD_zipWith' _ _ _ i default 0 [] (by rw [Arr.lcs_length, hr]; exact hi) (by rw [hrl, hr]; exact hi)]
    by_cases hik : k = i
    · subst hik
      rw [getD_set_eq_pj _ _ _ _ (by rw [Arr.lcs_length]; exact hi), shiftRow_getD_eq _ _ _ (by rw [hrl]; exact hk1),
        Nat.add_comm, Arr.lc_eq a k hk1, hd, List.map_append, List.map_cons]
      exact catLeg_getCharge _ _ _ _ _ (hq first (by simp)) (hq a ha) _ (w.rowLt _ hrow k hk1)
    · rw [getD_set_ne_pj _ _ _ _ _ hik, shiftRow_getD_ne _ _ _ _ hik]
      have ht := (c.compat a ha).testEqual i hi (fun e => hik e.symm)
      have hmi : (a.lcs.getD i default).mods = first.mods := by
        rw [← hm]
        exact (hva _ (getD_mem _ _ _ (by rw [Arr.lcs_length, hr]; exact hi))).1
      have := testEqual_getCharge _ _ ht (row.getD i 0)
      rw [hmi] at this
      exact this.symm
  · rfl

theorem chargeRule_res (c : Ctx first rest k) (hc : ∀ a ∈ first :: rest, a.ChargeRule)
    (hv : ∀ a ∈ first :: rest, LegsValid a)
    (hq : ∀ b ∈ first :: rest, (b.lc k).qconj = 1 ∨ (b.lc k).qconj = -1) : (catRes first rest k).ChargeRule := by
  intro row hrow
  obtain ⟨b, hb⟩ := mem_zip_of_mem_left _ _ c.len_res row hrow
  obtain ⟨pre, a, post, hd, rb, hrb, he⟩ := c.mem_res _ hb
  have ha : a ∈ first :: rest := by rw [hd]; simp
  have hrow' : row = shiftRow k (shiftOf k pre) rb.1 := (Prod.ext_iff.1 he).1
  have m1 := (List.of_mem_zip hrb).1
  show blockChargeOf first.mods _ row = first.qtotal
  rw [hrow', c.row_charge pre post a hd (hv a ha) hq rb.1 m1, hc a ha rb.1 m1]
  exact (c.compat a ha).2.2.1

theorem legsValid_res (c : Ctx first rest k) (hv : ∀ a ∈ first :: rest, LegsValid a) :
    LegsValid (catRes first rest k) := by
  intro l hl
  rw [lcs_res] at hl
  rcases List.mem_or_eq_of_mem_set hl with h | h
  · exact hv first (by simp) l h
  · rw [h]
    refine ⟨rfl, fun ch hch => ?_⟩
    rw [catLeg_charges] at hch
    obtain ⟨L, hL, hch⟩ := List.mem_flatMap.1 hch
    obtain ⟨a, ha, rfl⟩ := List.mem_map.1 hL
    have hm : a.mods = first.mods := (c.compat a ha).2.1
    have hr := c.rank a ha
    have hlen : ∀ x ∈ (a.lc k).charges, x.length = first.mods.length := by
      intro x hx
      rw [← hm]
      refine (hv a ha (a.lc k) ?_).2 x hx
      rw [← Arr.lc_eq a k (by rw [hr]; exact c.hk)]
      exact getD_mem _ _ _ (by rw [Arr.lcs_length, hr]; exact c.hk)
    show ch.length = first.mods.length
    unfold catCharges at hch
    split at hch
    · exact hlen ch hch
    · obtain ⟨x, hx, rfl⟩ := List.mem_map.1 hch
      rw [makeValid_length]
      have : (cneg x).length = first.mods.length := by
        unfold cneg; rw [List.length_map]; exact hlen x hx
      rw [this, Nat.min_self]

end Ctx
end TenpyModel.C01C.Cat

namespace TenpyModel.C01C
open TenpyModel.Core TenpyModel.C01B Cat

variable {α : Type}

/-- **`concatenate` preserves the charge rule and the validity of the legs** -/
theorem concatenate_chargeRule (first : Arr α) (rest : List (Arr α)) (axis : Ax) (r : Arr α)
    (hwf : ∀ a ∈ first :: rest, a.WF) (hc : ∀ a ∈ first :: rest, a.ChargeRule)
    (hv : ∀ a ∈ first :: rest, LegsValid a)
    (h : Arr.concatenate (first :: rest) axis = .ok r)
    (k : Nat) (hk : first.getLegIndex axis = .ok k) (hrank : ∀ a ∈ rest, k < a.rank)
    (hq : ∀ b ∈ first :: rest, (b.lc k).qconj = 1 ∨ (b.lc k).qconj = -1) :
    r.ChargeRule ∧ LegsValid r := by
  obtain ⟨c, rfl⟩ := Cat.ctx_of_ok first rest axis r hwf h k hk hrank
  exact ⟨c.chargeRule_res hc hv hq, c.legsValid_res hv⟩

end TenpyModel.C01C
