import TenpyModel.C01.MergeProofs
/-!
C01 — binary block-wise operations (`ibinary_blockwise`, `iadd_prefactor_other`, `a + b`, `a - b`).

Full statement (open, see notes/C01.md):

  theorem C01_toDense_add (f : α → α → α) (hf : f 0 0 = 0) (a b : Arr α) (ha : a.WF) (hb : b.WF)
      (hl : a.legs = b.legs) (hsa : isLexsorted a.qdata) (hsb : isLexsorted b.qdata) :
      let m := mergeBlocks f a.blockNumbers a.qdata a.data b.qdata b.data
      ({ a with qdata := m.1, data := m.2 } : Arr α).toDense = Dense.zipWith f a.toDense b.toDense

i.e. the `while i < Na or j < Nb` loop over F-stride keys computes the entry-wise `f` whenever both block lists
are lexsorted and duplicate-free (which `isort_qdata` establishes: `C01_isort_qdata`). Proved below: the branch
the code takes when both operands store exactly the same rows (`Na == Nb and np.all(aq == bq)`).
-/
open TenpyModel.Core

/-- identical block structure: the merge is the block-wise, hence entry-wise, application of `f` -/
theorem C01_toDense_add_partial {α : Type} [Zero α] (f : α → α → α) (hf : f 0 0 = 0) (a b : Arr α)
    (ha : a.WF) (hb : b.WF) (hl : a.legs = b.legs) (hq : a.qdata = b.qdata) :
    ({ a with qdata := (Arr.mergeBlocks f a.blockNumbers a.qdata a.data b.qdata b.data).1,
              data := (Arr.mergeBlocks f a.blockNumbers a.qdata a.data b.qdata b.data).2 } : Arr α).toDense
      = Dense.zipWith f a.toDense b.toDense := by
  have hm : Arr.mergeBlocks f a.blockNumbers a.qdata a.data b.qdata b.data
      = (a.qdata, List.zipWith (Dense.zipWith f) a.data b.data) := by
    unfold Arr.mergeBlocks
    simp [hq]
  rw [hm]
  have hshape : b.shape = a.shape := by simp [Arr.shape, Arr.lcs, hl]
  unfold Arr.toDense
  rw [hshape, Dense.zipWith_ofFn]
  refine Dense.ofFn_congr _ _ _ (fun idx => ?_)
  exact Arr.entry_sameStructure f hf a b ha hb hl hq idx

namespace C01MergeExample
def leg : Leg := ⟨[1], [0, 1, 3], [[0], [1]], 1, true, true⟩
def a : Arr Int :=
  { mods := [1], legs := [.plain leg, .plain leg.conj], qtotal := [0], labels := [some "p", some "p*"],
    qdata := [[0, 0], [1, 1]], data := [⟨[1, 1], [2]⟩, ⟨[2, 2], [1, 2, 3, 4]⟩], qdataSorted := true }
def b : Arr Int := { a with data := [⟨[1, 1], [5]⟩, ⟨[2, 2], [1, 0, 0, 1]⟩] }
end C01MergeExample

/-- non-vacuity: the hypotheses hold for two concrete tensors and the conclusion is a non-trivial identity -/
example : C01MergeExample.a.WF ∧ C01MergeExample.b.WF := by decide
example : Dense.zipWith (· + ·) C01MergeExample.a.toDense C01MergeExample.b.toDense
    = ⟨[3, 3], [7, 0, 0, 0, 2, 2, 0, 3, 5]⟩ := by decide
