import TenpyModel.C01.C_ProgSSA
import TenpyModel.C01.C_NodeR
/-!
C01 part C — the `sort_legcharge` and `concatenate` nodes of the program theorem (`NodeSpec`s).
-/
namespace TenpyModel.C01C
open TenpyModel.Core TenpyModel.Core.C01SSA

variable {α : Type}

/-- a placeholder reference object for ill-formed calls (wrong number of operands: the model run fails there) -/
def dfltR : RObj α := ⟨⟨[], []⟩, [], [], []⟩

/-- `cp = a.sort_legcharge(sort, bunch)[1]` -/
def nodeSort [Zero α] (sort bunch : List Bool) : NodeSpec α where
  run := fun xs => match xs with
    | [a] => (match a.sortLegcharge sort bunch with
      | .ok pc => .ok pc.2
      | .error e => .error e)
    | _ => .error .typeError
  ref := fun xs => match xs with
    | [x] => refSort x sort bunch
    | _ => dfltR
  side := fun _ => True
  sound := by
    intro xs r hw _ h
    match xs, hw, h with
    | [a], hw, h =>
      simp only at h
      cases hs : a.sortLegcharge sort bunch with
      | error e => rw [hs] at h; cases h
      | ok pc =>
        rw [hs] at h
        simp only [Except.ok.injEq] at h
        obtain ⟨perms, cp⟩ := pc
        subst h
        obtain ⟨h1, _, h3⟩ := sortLegcharge_specR a (hw a (by simp)) sort bunch perms cp hs
        exact ⟨h1, h3⟩
    | [], _, h => cases h
    | _ :: _ :: _, _, h => cases h

/-- `concatenate(xs, axis)`; side condition: every operand has the axis (automatic unless it is the last one) -/
def nodeConcat [Zero α] (axis : Ax) : NodeSpec α where
  run := fun xs => Arr.concatenate xs axis
  ref := fun xs => match xs with
    | first :: rest => refConcat first rest axis
    | [] => dfltR
  side := fun xs => match xs with
    | first :: rest => ∀ k, first.getLegIndex axis = .ok k → ∀ a ∈ rest, k < a.rank
    | [] => True
  sound := by
    intro xs r hw hs h
    match xs, hw, hs, h with
    | first :: rest, hw, hs, h => exact concatenate_specR first rest axis r hw h hs
    | [], _, _, h => cases h

end TenpyModel.C01C
