import TenpyModel.C06.ListProofs
import TenpyModel.C01.ArrProofs
/-!
C01 part A — generic lemmas about `Dense` (multi-indices, `ofFn` / `get` / `gather`, re-indexing of the value
list when only the shape changes). `Dense.allIdx` is `gridC`, `Dense.flatIdx` is the C-stride dot product, so the
mixed-radix lemmas of `C06/ListProofs` apply.
-/
namespace TenpyModel.Core

theorem InRange.of_getD : ∀ (idx shape : List Nat), idx.length = shape.length →
    (∀ k, k < shape.length → idx.getD k 0 < shape.getD k 0) → InRange idx shape
  | [], [], _, _ => trivial
  | [], _ :: _, hl, _ => by simp at hl
  | _ :: _, [], hl, _ => by simp at hl
  | i :: t, n :: rest, hl, h => by
    refine ⟨by simpa using h 0 (by simp), InRange.of_getD t rest (by simpa using hl) ?_⟩
    intro k hk
    simpa using h (k + 1) (by simpa using hk)

theorem InRange.getD_lt' {qs shape : List Nat} (h : InRange qs shape) (k : Nat) (hk : k < shape.length) :
    qs.getD k 0 < shape.getD k 0 := h.getD_lt k (h.length_eq ▸ hk)

namespace Dense
variable {α : Type}

theorem allIdx_eq_gridC (shape : List Nat) : allIdx shape = gridC shape := by
  induction shape with
  | nil => rfl
  | cons n rest ih => simp only [allIdx, gridC, ih]

theorem strides_eq (shape : List Nat) : strides shape = makeStrideC shape := by
  induction shape with
  | nil => rfl
  | cons n rest ih => simp only [strides, makeStrideC, ih, prod]

theorem flatIdx_eq (shape idx : List Nat) : flatIdx shape idx = dot idx (makeStrideC shape) := by
  unfold flatIdx dot
  rw [strides_eq]

theorem prod_eq (l : List Nat) : prod l = l.prod := by
  unfold prod
  rw [foldl_mul, Nat.one_mul]

theorem inRange_iff (shape idx : List Nat) : inRange shape idx = true ↔ InRange idx shape := by
  induction idx generalizing shape with
  | nil => cases shape <;> simp [inRange, InRange]
  | cons i t ih =>
    cases shape with
    | nil => simp [inRange, InRange]
    | cons n rest =>
      have h := ih rest
      simp only [inRange, InRange, List.length_cons, List.zipWith_cons_cons, List.all_cons, Bool.and_eq_true,
        beq_iff_eq, decide_eq_true_eq, id] at h ⊢
      constructor
      · rintro ⟨h1, h2, h3⟩
        exact ⟨h2, h.1 ⟨by omega, h3⟩⟩
      · rintro ⟨h2, h3⟩
        obtain ⟨h4, h5⟩ := h.2 h3
        exact ⟨by omega, h2, h5⟩

theorem mem_allIdx (idx shape : List Nat) : idx ∈ allIdx shape ↔ InRange idx shape := by
  rw [allIdx_eq_gridC]
  exact mem_gridC _ _

theorem allIdx_length (shape : List Nat) : (allIdx shape).length = prod shape := by
  rw [allIdx_eq_gridC, gridC_length, prod_eq]

/-- reading a function table back -/
theorem get_ofFn (z : α) (shape : List Nat) (g : List Nat → α) (idx : List Nat) (h : InRange idx shape) :
    (ofFn shape g).get z idx = g idx := by
  unfold Dense.get ofFn
  simp only [(inRange_iff shape idx).2 h, if_true]
  rw [flatIdx_eq, allIdx_eq_gridC]
  have hlt := dot_stride_lt idx shape h
  rw [← gridC_length] at hlt
  rw [getD_map' g _ _ [] z hlt, gridC_getD idx shape h]

theorem get_not_inRange (z : α) (d : Dense α) (idx : List Nat) (h : ¬ InRange idx d.shape) : d.get z idx = z := by
  unfold Dense.get
  have : inRange d.shape idx = false := by
    cases hh : inRange d.shape idx
    · rfl
    · exact absurd ((inRange_iff _ _).1 hh) h
  simp [this]

theorem ofFn_congr_mem (shape : List Nat) (g h : List Nat → α)
    (hgh : ∀ idx, InRange idx shape → g idx = h idx) : ofFn shape g = ofFn shape h := by
  unfold ofFn
  congr 1
  apply List.map_congr_left
  intro idx hidx
  exact hgh idx ((mem_allIdx _ _).1 hidx)

theorem gather_eq_ofFn (z : α) (src : Dense α) (shape : List Nat) (f : List Nat → List Nat) :
    gather z src shape f = ofFn shape (fun idx => src.get z (f idx)) := by
  have h : ∀ (l : List α) (i : Nat), l.toArray.getD i z = l.getD i z := by intro l i; simp
  unfold gather ofFn Dense.get
  simp only [h]

theorem get_gather (z : α) (src : Dense α) (shape : List Nat) (f : List Nat → List Nat) (idx : List Nat)
    (h : InRange idx shape) : (gather z src shape f).get z idx = src.get z (f idx) := by
  rw [gather_eq_ofFn, get_ofFn z shape _ idx h]

/-- a tensor with a complete value list is the table of its `get` -/
theorem vals_eq_map_get (z : α) (d : Dense α) (h : d.vals.length = prod d.shape) :
    d.vals = (allIdx d.shape).map (d.get z) := by
  apply List.ext_getElem
  · rw [List.length_map, allIdx_length, h]
  · intro j h1 h2
    rw [List.getElem_map]
    rw [List.length_map, allIdx_eq_gridC] at h2
    have hj := gridC_index d.shape j h2
    rw [getD_lt _ _ _ h2] at hj
    unfold Dense.get
    simp only [allIdx_eq_gridC, (inRange_iff _ _).2 hj.2, if_true]
    rw [flatIdx_eq, hj.1, getD_lt _ _ _ h1]

theorem eq_ofFn_get (z : α) (d : Dense α) (h : d.vals.length = prod d.shape) : d = ofFn d.shape (d.get z) := by
  cases d with
  | mk shape vals =>
    unfold ofFn
    simp only [Dense.mk.injEq, true_and]
    exact vals_eq_map_get z ⟨shape, vals⟩ h

/-- **re-indexing**: if the multi-indices of `S'` are the images under `φ` of those of `S`, in the same order, then
the value table of a function on `S` read with shape `S'` at `φ w` gives the value at `w` -/
theorem get_reindex (z : α) (S S' : List Nat) (φ : List Nat → List Nat) (hφ : allIdx S' = (allIdx S).map φ)
    (g : List Nat → α) (w : List Nat) (hw : InRange w S) :
    (⟨S', (allIdx S).map g⟩ : Dense α).get z (φ w) = g w ∧ InRange (φ w) S' := by
  rw [allIdx_eq_gridC, allIdx_eq_gridC] at hφ
  have hlt := dot_stride_lt w S hw
  rw [← gridC_length] at hlt
  have hlen : (gridC S').length = (gridC S).length := by rw [hφ, List.length_map]
  have hw' : (gridC S').getD (dot w (makeStrideC S)) [] = φ w := by
    rw [hφ, getD_map' φ _ _ [] [] hlt, gridC_getD w S hw]
  have hj := gridC_index S' (dot w (makeStrideC S)) (by rw [hlen]; exact hlt)
  rw [hw'] at hj
  refine ⟨?_, hj.2⟩
  unfold Dense.get
  simp only [(inRange_iff _ _).2 hj.2, if_true]
  rw [flatIdx_eq, hj.1, allIdx_eq_gridC, getD_map' g _ _ [] z hlt, gridC_getD w S hw]

/-! ### inserting a unit axis -/

theorem insertAt_zero {β} (l : List β) (x : β) : insertAt l 0 x = x :: l := by simp [insertAt]

theorem insertAt_succ {β} (y : β) (l : List β) (i : Nat) (x : β) :
    insertAt (y :: l) (i + 1) x = y :: insertAt l i x := by simp [insertAt]

theorem insertAt_length {β} (l : List β) (i : Nat) (x : β) : (insertAt l i x).length = l.length + 1 := by
  simp only [insertAt, List.length_append, List.length_take, List.length_cons, List.length_drop]
  omega

theorem removeAt_insertAt {β} (l : List β) (i : Nat) (x : β) (h : i ≤ l.length) :
    removeAt (insertAt l i x) i = l := by
  induction i generalizing l with
  | zero => simp [insertAt, removeAt]
  | succ i ih =>
    cases l with
    | nil => simp at h
    | cons y l =>
      rw [insertAt_succ]
      have := ih l (by simpa using h)
      simp only [removeAt, List.take_succ_cons, List.drop_succ_cons] at this ⊢
      rw [List.cons_append, this]

theorem allIdx_insertAt (S : List Nat) (pos : Nat) (h : pos ≤ S.length) :
    allIdx (insertAt S pos 1) = (allIdx S).map (fun w => insertAt w pos 0) := by
  induction pos generalizing S with
  | zero =>
    simp only [insertAt_zero, allIdx, List.range_one, List.flatMap_cons, List.flatMap_nil, List.append_nil]
  | succ pos ih =>
    cases S with
    | nil => simp at h
    | cons n rest =>
      rw [insertAt_succ]
      simp only [allIdx, ih rest (by simpa using h), List.map_map, List.map_flatMap]
      congr 1

/-! ### dropping positions: `pick l ((range n).filter p)` as a structural recursion -/

/-- keep the entries at the positions satisfying `p` -/
def filterIdx {β} (p : Nat → Bool) : List β → List β
  | [] => []
  | x :: xs => if p 0 then x :: filterIdx (fun k => p (k + 1)) xs else filterIdx (fun k => p (k + 1)) xs

theorem range_succ_filter_map (n : Nat) (p : Nat → Bool) {β} (f : Nat → β) :
    ((List.range (n + 1)).filter p).map f
      = (if p 0 then [f 0] else []) ++ ((List.range n).filter (fun k => p (k + 1))).map (fun k => f (k + 1)) := by
  rw [List.range_succ_eq_map]
  simp only [List.filter_cons, List.filter_map]
  by_cases h0 : p 0 = true
  · simp [h0, Function.comp_def]
  · simp [h0, Function.comp_def]

theorem pick_filter_eq_filterIdx {β} (l : List β) (p : Nat → Bool) (d : β) :
    pick l ((List.range l.length).filter p) d = filterIdx p l := by
  induction l generalizing p with
  | nil => simp [pick, filterIdx]
  | cons x xs ih =>
    unfold pick
    rw [List.length_cons, range_succ_filter_map]
    have := ih (fun k => p (k + 1))
    unfold pick at this
    simp only [List.getD_cons_succ, List.getD_cons_zero]
    rw [this]
    by_cases h0 : p 0 = true <;> simp [filterIdx, h0]

/-- more generally for any range at least as long as the list, as long as the extra positions are dropped -/
theorem filterIdx_map {β γ} (f : β → γ) (p : Nat → Bool) (l : List β) :
    filterIdx p (l.map f) = (filterIdx p l).map f := by
  induction l generalizing p with
  | nil => rfl
  | cons x xs ih =>
    simp only [List.map_cons, filterIdx]
    split <;> simp [ih]

theorem allIdx_filterIdx (S : List Nat) (p : Nat → Bool)
    (h1 : ∀ k, k < S.length → p k = false → S.getD k 0 = 1) :
    allIdx (filterIdx p S) = (allIdx S).map (filterIdx p) := by
  induction S generalizing p with
  | nil => simp [filterIdx, allIdx]
  | cons n rest ih =>
    have ih' := ih (fun k => p (k + 1)) (fun k hk hp => by
      have := h1 (k + 1) (by simpa using hk) hp
      simpa using this)
    by_cases h0 : p 0 = true
    · simp only [filterIdx, h0, if_true, allIdx, ih', List.map_map, List.map_flatMap]
      congr 1
      funext i
      apply List.map_congr_left
      intro t _
      simp [Function.comp, filterIdx, h0]
    · have h0' : p 0 = false := by simpa using h0
      have hn : n = 1 := by
        have := h1 0 (by simp) h0'
        simpa using this
      subst hn
      simp only [filterIdx, h0', Bool.false_eq_true, if_false, allIdx, ih', List.range_one, List.flatMap_cons,
        List.flatMap_nil, List.append_nil, List.map_map]
      apply List.map_congr_left
      intro t _
      simp [Function.comp, filterIdx, h0']

theorem filterIdx_length_le {β} (p : Nat → Bool) (l : List β) : (filterIdx p l).length ≤ l.length := by
  induction l generalizing p with
  | nil => simp [filterIdx]
  | cons x xs ih =>
    simp only [filterIdx]
    split
    · simp only [List.length_cons]; have := ih (fun k => p (k + 1)); omega
    · simp only [List.length_cons]; have := ih (fun k => p (k + 1)); omega

end Dense
end TenpyModel.Core
