import TenpyModel.C06.ListProofs
import TenpyModel.C01.ArrProofs
/-! `isort_qdata` leaves the dense form unchanged and produces a lexsorted block list (C01). -/
namespace TenpyModel.Core

theorem pick_eq_take? {β} (l : List β) (idx : List Nat) (d : β) : pick l idx d = take? l idx d := rfl

/-- gathering along a permutation of the index range is a permutation of the list -/
theorem take?_perm' {β} (l : List β) (p : List Nat) (d : β) (hp : p.Perm (List.range l.length)) :
    (take? l p d).Perm l := by
  have h := hp.map (fun i => l.getD i d)
  have h2 : (List.range l.length).map (fun i => l.getD i d) = l := take?_range l d
  unfold take?
  rw [h2] at h
  exact h

/-- searching by a predicate satisfied by at most one element does not depend on the order -/
theorem find?_perm_unique {β} (p : β → Bool) {l₁ l₂ : List β} (h : l₁.Perm l₂)
    (hu : ∀ x ∈ l₁, ∀ y ∈ l₁, p x = true → p y = true → x = y) : l₁.find? p = l₂.find? p := by
  induction h with
  | nil => rfl
  | cons x _ ih =>
    simp only [List.find?_cons]
    cases hx : p x
    · exact ih (fun a ha b hb => hu a (by simp [ha]) b (by simp [hb]))
    · rfl
  | swap x y l =>
    simp only [List.find?_cons]
    cases hx : p x <;> cases hy : p y <;> simp
    exact hu y (by simp) x (by simp) hy hx
  | trans h₁ _ ih₁ ih₂ =>
    rw [ih₁ hu]
    exact ih₂ (fun a ha b hb => hu a (h₁.mem_iff.2 ha) b (h₁.mem_iff.2 hb))

theorem zip_fst_inj {β} (q : List (List Nat)) (d : List β) (hnd : q.Nodup) :
    ∀ x ∈ q.zip d, ∀ y ∈ q.zip d, x.1 = y.1 → x = y := by
  induction q generalizing d with
  | nil => intro x hx; simp at hx
  | cons r rs ih =>
    cases d with
    | nil => intro x hx; simp at hx
    | cons b bs =>
      have hr : r ∉ rs := (List.nodup_cons.1 hnd).1
      have hrs : rs.Nodup := (List.nodup_cons.1 hnd).2
      intro x hx y hy hxy
      simp only [List.zip_cons_cons, List.mem_cons] at hx hy
      rcases hx with rfl | hx <;> rcases hy with rfl | hy
      · rfl
      · have h1 := (List.of_mem_zip hy).1
        simp only at hxy
        exact absurd (hxy ▸ h1) hr
      · have h1 := (List.of_mem_zip hx).1
        simp only at hxy
        exact absurd (hxy.symm ▸ h1) hr
      · exact ih bs hrs x hx y hy hxy

theorem getD_zip {β γ} (a : List β) (b : List γ) (da : β) (db : γ) (h : a.length = b.length) (i : Nat) :
    (a.zip b).getD i (da, db) = (a.getD i da, b.getD i db) := by
  simp only [List.getD_eq_getElem?_getD]
  by_cases hi : i < a.length
  · have hi' : i < b.length := h ▸ hi
    have hz : i < (a.zip b).length := by simp only [List.length_zip]; omega
    rw [List.getElem?_eq_getElem hz, List.getElem?_eq_getElem hi, List.getElem?_eq_getElem hi']
    simp [List.getElem_zip]
  · have hi' : ¬ i < b.length := h ▸ hi
    have hz : ¬ i < (a.zip b).length := by simp only [List.length_zip]; omega
    rw [List.getElem?_eq_none (Nat.le_of_not_lt hz), List.getElem?_eq_none (Nat.le_of_not_lt hi),
      List.getElem?_eq_none (Nat.le_of_not_lt hi')]
    rfl

theorem zip_take? {β γ} (a : List β) (b : List γ) (da : β) (db : γ) (h : a.length = b.length) (p : List Nat) :
    (take? a p da).zip (take? b p db) = take? (a.zip b) p (da, db) := by
  unfold take?
  rw [List.zip_map']
  apply List.map_congr_left
  intro i _
  exact (getD_zip a b da db h i).symm

theorem natRows_take? (rows : List (List Nat)) (p : List Nat) :
    natRows (take? rows p []) = take? (natRows rows) p [] := by
  unfold natRows take?
  simp only [List.map_map]
  apply List.map_congr_left
  intro i _
  simp only [Function.comp, List.getD_eq_getElem?_getD, List.getElem?_map]
  cases rows[i]? <;> simp

theorem natRows_length (rows : List (List Nat)) : (natRows rows).length = rows.length := by simp [natRows]

/-- the rows gathered by `np.lexsort` are lexsorted -/
theorem isLexsorted_take?_lexsort (rows : List (List Nat)) :
    isLexsorted (take? rows (lexsortNat rows) []) = true := by
  unfold isLexsorted lexsortNat
  rw [natRows_take?]
  have hs := take?_lexsort_sorted (natRows rows)
  rw [lexsort_of_sorted _ hs]
  simp [take?_length, lexsort_length, natRows_length]

theorem isLexsorted_short (rows : List (List Nat)) (h : rows.length < 2) : isLexsorted rows = true := by
  match rows, h with
  | [], _ => decide
  | [r], _ => simp [isLexsorted, lexsortNat, natRows, lexsort, stableSort, insertLE]

namespace Arr
variable {α : Type}

/-- the entry function only depends on the block list up to permutation (rows pairwise distinct) -/
theorem entry_congr_perm [Zero α] (a b : Arr α) (hl : a.legs = b.legs)
    (hp : (b.qdata.zip b.data).Perm (a.qdata.zip a.data)) (hnd : a.qdata.Nodup) (idx : List Nat) :
    b.entry idx = a.entry idx := by
  unfold Arr.entry
  simp only [Arr.lcs, hl]
  have hperm : (b.qdata.zip b.data).reverse.Perm (a.qdata.zip a.data).reverse :=
    ((List.reverse_perm _).trans hp).trans (List.reverse_perm _).symm
  have hu : ∀ x ∈ (b.qdata.zip b.data).reverse, ∀ y ∈ (b.qdata.zip b.data).reverse,
      ((fun rb : List Nat × Blk α => rb.1 == List.map (fun x => x.1)
        (List.zipWith (fun l i => l.locate i) (List.map ALeg.leg b.legs) idx)) x) = true →
      ((fun rb : List Nat × Blk α => rb.1 == List.map (fun x => x.1)
        (List.zipWith (fun l i => l.locate i) (List.map ALeg.leg b.legs) idx)) y) = true → x = y := by
    intro x hx y hy hpx hpy
    have hx' : x ∈ a.qdata.zip a.data := hp.mem_iff.1 (List.mem_reverse.1 hx)
    have hy' : y ∈ a.qdata.zip a.data := hp.mem_iff.1 (List.mem_reverse.1 hy)
    have e1 := eq_of_beq hpx
    have e2 := eq_of_beq hpy
    exact zip_fst_inj a.qdata a.data hnd x hx' y hy' (e1.trans e2.symm)
  rw [find?_perm_unique _ hperm hu]

end Arr
end TenpyModel.Core
