import TenpyModel.C01.C_Charge15
/-!
C01 part C — `chinfo` (`mods`) is never changed by part A's operations; hence for inputs over a common `chinfo` the
"same `chinfo`" side condition of the binary operations is automatic.
-/
namespace TenpyModel.C01C
open TenpyModel.Core TenpyModel.C01B TenpyModel.C01B2
open TenpyModel.Core.C01ProgA

variable {α : Type}

theorem mods_addTrivialLeg (a r : Arr α) (axis : Int) (label : Label) (qconj : Int)
    (h : a.addTrivialLeg axis label qconj = .ok r) : r.mods = a.mods := by
  unfold Arr.addTrivialLeg at h
  simp only at h
  split at h
  · cases h
  · simp only [Except.ok.injEq] at h
    subst h; rfl

theorem mods_iscaleAxis [Mul α] [Zero α] (a r : Arr α) (s : List α) (axis : Ax) (h : a.iscaleAxis s axis = .ok r) :
    r.mods = a.mods := by
  unfold Arr.iscaleAxis at h
  obtain ⟨k, _, h⟩ := bind_ok h
  simp only [bind, Except.bind, pure, Except.pure] at h
  split at h
  · simp [throw, throwThe, MonadExceptOf.throw] at h
  · simp only [Except.ok.injEq] at h
    subst h; rfl

section zero
variable [Zero α]

theorem mods_takeSlice (a r : Arr α) (indices : List Int) (axes : List Ax) (h : a.takeSlice indices axes = .ok r) :
    r.mods = a.mods := by
  unfold Arr.takeSlice at h
  obtain ⟨ax, _, h⟩ := bind_ok h
  simp only [bind, Except.bind, pure, Except.pure, throw, throwThe, MonadExceptOf.throw] at h
  split at h
  · cases h
  split at h
  · injection h with h; subst h; rfl
  cases hpos : (ax.zip indices).mapM (fun xi => Arr.qindexOf (a.lc xi.1) xi.2) with
  | error e => simp [hpos] at h
  | ok pos =>
    simp only [hpos] at h
    split at h
    · cases h
    injection h with h
    subst h; rfl

theorem mods_squeeze (a r : Arr α) (axes : Option (List Ax)) (h : a.squeeze axes = .ok (.arr r)) :
    r.mods = a.mods := by
  cases hax : a.squeezeAx axes with
  | error e =>
    rw [Arr.squeeze_eq_body, hax] at h
    cases h
  | ok ax =>
    obtain ⟨hr, _⟩ := Arr.squeeze_arr_eq a r axes ax hax h
    rw [hr]; rfl

theorem mods_foldl_proj1 (L : List (List Bool × Nat)) : ∀ (a : Arr α), (L.foldl Arr.proj1 a).mods = a.mods := by
  induction L with
  | nil => intro a; rfl
  | cons mk L ih => intro a; rw [List.foldl_cons, ih]; rfl

theorem mods_iproject (a r : Arr α) (ha : a.WF) (masks : List Arr.Mask) (axes : List Ax) (ax : List Nat)
    (hax : a.getLegIndices axes = .ok ax) (hnd : ax.Nodup) (h : a.iproject masks axes = .ok r) :
    r.mods = a.mods := by
  obtain ⟨ax', hax', hcase⟩ := Arr.iproject_ax a r masks axes h
  rw [hax] at hax'
  cases hax'
  rcases hcase with ⟨_, hr⟩ | ⟨_, bmasks, hbm⟩
  · rw [hr]
  · obtain ⟨_, hcase⟩ := Arr.iproject_ok a r masks axes ax hax bmasks hbm h
    have hfin := (Arr.toDense_iproject_wf0 a r masks axes ha.wf0 ax hax hnd bmasks hbm h).2.2.2.2.2
    rcases hcase with ⟨_, hr⟩ | ⟨_, _⟩
    · rw [hr]
    · rw [hfin, mods_foldl_proj1]

theorem mods_ibinaryBlockwise (f : α → α → α) (a b r b' : Arr α) (h : a.ibinaryBlockwise f b = .ok (r, b')) :
    r.mods = a.mods := by
  rcases hts : b.transposeSameLabels a.labels with ⟨b1, tr⟩
  simp only [Arr.ibinaryBlockwise, hts, bind, Except.bind, pure, Except.pure] at h
  cases hchk : Arr.binaryCheck a b1 with
  | error e => simp [hchk] at h
  | ok u =>
    simp only [hchk, Except.ok.injEq, Prod.mk.injEq] at h
    rw [← h.1]
    exact (Arr.isortQdata_qtotal a).2

end zero

theorem mods_iaddPrefactorOther [Zero α] [Add α] [Mul α] [DecidableEq α] (cy : Bool) (a b r b' : Arr α) (p : α)
    (h : a.iaddPrefactorOther cy p b = .ok (r, b')) : r.mods = a.mods := by
  cases cy with
  | true =>
    rcases hts : b.transposeSameLabels a.labels with ⟨b1, tr⟩
    simp only [Arr.iaddPrefactorOther, hts, bind, Except.bind, pure, Except.pure, if_true] at h
    cases hchk : Arr.binaryCheck a b1 with
    | error e => simp [hchk] at h
    | ok u =>
      simp only [hchk] at h
      by_cases hp0 : p = 0
      · simp only [hp0, if_true, Except.ok.injEq, Prod.mk.injEq] at h
        rw [← h.1]
      · simp only [hp0, if_false, Except.ok.injEq, Prod.mk.injEq] at h
        rw [← h.1]
        exact (Arr.isortQdata_qtotal a).2
  | false =>
    simp only [Arr.iaddPrefactorOther, bind, Except.bind, pure, Except.pure, Bool.false_eq_true, if_false] at h
    cases hbin : Arr.ibinaryBlockwise (fun x y => x + y) a (b.copy.iscalePrefactor p) with
    | error e => simp [hbin] at h
    | ok rr =>
      obtain ⟨r0, b0⟩ := rr
      simp only [hbin, Except.ok.injEq, Prod.mk.injEq] at h
      rw [← h.1]
      exact mods_ibinaryBlockwise _ a _ r0 b0 hbin

/-- **part A's programs never change `chinfo`** -/
theorem progA_mods [CommRing α] [DecidableEq α] (st : α → α) (hst : st 0 = 0) (m : List Nat)
    (env : List (Arr α)) (hwf : ∀ a ∈ env, a.WF) (henv : ∀ a ∈ env, a.mods = m) (p : C01ProgA α) :
    ∀ r, Side st env p → evalArr st env p = .ok r → r.mods = m := by
  have spec := fun (p : C01ProgA α) (r : Arr α) (hs : Side st env p) (h : evalArr st env p = .ok r) =>
    (C01ProgA.evalArr_spec st hst neg_zero mul_zero zero_mul add_zero env hwf p r hs h).2
  induction p with
  | input i =>
    intro r _ h
    simp only [evalArr] at h
    cases hi : env[i]? with
    | none => simp [hi] at h
    | some a =>
      simp only [hi, Except.ok.injEq] at h
      subst h
      exact henv a (List.mem_of_getElem? hi)
  | neg p ih =>
    intro r hs h
    simp only [evalArr] at h
    obtain ⟨a, hp, h⟩ := bind_ok h
    simp only [pure, Except.pure, Except.ok.injEq] at h
    subst h
    exact ih a hs hp
  | scale s p ih =>
    intro r hs h
    simp only [evalArr] at h
    obtain ⟨a, hp, h⟩ := bind_ok h
    simp only [pure, Except.pure, Except.ok.injEq] at h
    subst h
    rw [← ih a hs hp]
    unfold Arr.iscalePrefactor
    split <;> rfl
  | conj p ih =>
    intro r hs h
    simp only [evalArr] at h
    obtain ⟨a, hp, h⟩ := bind_ok h
    simp only [pure, Except.pure, Except.ok.injEq] at h
    subst h
    exact ih a hs hp
  | complexConj p ih =>
    intro r hs h
    simp only [evalArr] at h
    obtain ⟨a, hp, h⟩ := bind_ok h
    simp only [pure, Except.pure, Except.ok.injEq] at h
    subst h
    exact ih a hs hp
  | transpose axes p ih =>
    intro r hs h
    simp only [evalArr] at h
    obtain ⟨a, hp, h⟩ := bind_ok h
    obtain ⟨_, _, _, _, _, _, _, _, hm, _⟩ := Arr.itranspose_spec a r axes (spec p a hs hp) h
    rw [hm]; exact ih a hs hp
  | swapaxes x1 x2 p ih =>
    intro r hs h
    simp only [evalArr] at h
    obtain ⟨a, hp, h⟩ := bind_ok h
    obtain ⟨_, _, _, _, _, _, _, _, _, _, hm, _⟩ := Arr.iswapaxes_spec a r x1 x2 (spec p a hs hp) h
    rw [hm]; exact ih a hs hp
  | addTrivialLeg axis label qconj p ih =>
    intro r hs h
    simp only [evalArr] at h
    obtain ⟨a, hp, h⟩ := bind_ok h
    rw [mods_addTrivialLeg a r axis label qconj h]; exact ih a hs hp
  | takeSlice indices axes p ih =>
    intro r hs h
    simp only [evalArr] at h
    obtain ⟨a, hp, h⟩ := bind_ok h
    rw [mods_takeSlice a r indices axes h]; exact ih a hs.1 hp
  | squeeze axes p ih =>
    intro r hs h
    simp only [evalArr] at h
    obtain ⟨a, hp, h⟩ := bind_ok h
    obtain ⟨w, hv', h⟩ := bind_ok h
    cases w with
    | scalar x => simp [throw, throwThe, MonadExceptOf.throw] at h
    | arr r' =>
      simp only [pure, Except.pure, Except.ok.injEq] at h
      subst h
      rw [mods_squeeze a r' axes hv']; exact ih a hs.1 hp
  | scaleAxis s axis p ih =>
    intro r hs h
    simp only [evalArr] at h
    obtain ⟨a, hp, h⟩ := bind_ok h
    rw [mods_iscaleAxis a r s axis h]; exact ih a hs hp
  | project masks axes p ih =>
    intro r hs h
    simp only [evalArr] at h
    obtain ⟨a, hp, h⟩ := bind_ok h
    obtain ⟨ax, hax, _⟩ := Arr.iproject_ax a r masks axes h
    rw [mods_iproject a r (spec p a hs.1 hp) masks axes ax hax (hs.2 a ax hp hax) h]; exact ih a hs.1 hp
  | permute perm axis p ih =>
    intro r hs h
    simp only [evalArr] at h
    obtain ⟨a, hp, h⟩ := bind_ok h
    obtain ⟨k, hk⟩ := Arr.permute_ax a r perm axis h
    obtain ⟨_, hr⟩ := Arr.permute_ok a r perm axis k hk h
    rw [hr]; exact ih a hs.1 hp
  | binary f p q ihp _ =>
    intro r hs h
    simp only [evalArr] at h
    obtain ⟨a, hp, h⟩ := bind_ok h
    obtain ⟨b, hq, h⟩ := bind_ok h
    obtain ⟨rb, hrb, h⟩ := bind_ok h
    simp only [pure, Except.pure, Except.ok.injEq] at h
    subst h
    rw [mods_ibinaryBlockwise f a b rb.1 rb.2 hrb]; exact ihp a hs.2.1 hp
  | addPrefactor cy c p q ihp _ =>
    intro r hs h
    simp only [evalArr] at h
    obtain ⟨a, hp, h⟩ := bind_ok h
    obtain ⟨b, hq, h⟩ := bind_ok h
    obtain ⟨rb, hrb, h⟩ := bind_ok h
    simp only [pure, Except.pure, Except.ok.injEq] at h
    subst h
    rw [mods_iaddPrefactorOther cy a b rb.1 rb.2 c hrb]; exact ihp a hs.1 hp

/-- only the `squeeze` clause of `SideC` -/
def SideQ [Zero α] [Neg α] [Add α] [Mul α] [DecidableEq α] (st : α → α) (env : List (Arr α)) : C01ProgA α → Prop
  | .input _ => True
  | .neg p => SideQ st env p
  | .scale _ p => SideQ st env p
  | .conj p => SideQ st env p
  | .complexConj p => SideQ st env p
  | .transpose _ p => SideQ st env p
  | .swapaxes _ _ p => SideQ st env p
  | .addTrivialLeg _ _ _ p => SideQ st env p
  | .scaleAxis _ _ p => SideQ st env p
  | .takeSlice _ _ p => SideQ st env p
  | .squeeze axes p => SideQ st env p ∧ ∀ a, evalArr st env p = .ok a → SqueezeQ a axes
  | .project _ _ p => SideQ st env p
  | .permute _ _ p => SideQ st env p
  | .binary _ p q => SideQ st env p ∧ SideQ st env q
  | .addPrefactor _ _ p q => SideQ st env p ∧ SideQ st env q

/-- for inputs over a common `chinfo` the "same `chinfo`" clauses of `SideC` hold -/
theorem sideC_of_sideQ [CommRing α] [DecidableEq α] (st : α → α) (hst : st 0 = 0) (m : List Nat)
    (env : List (Arr α)) (hwf : ∀ a ∈ env, a.WF) (henv : ∀ a ∈ env, a.mods = m) (p : C01ProgA α) :
    Side st env p → SideQ st env p → SideC st env p := by
  induction p with
  | input i => intro _ _; trivial
  | neg p ih => exact ih
  | scale s p ih => exact ih
  | conj p ih => exact ih
  | complexConj p ih => exact ih
  | transpose axes p ih => exact ih
  | swapaxes x1 x2 p ih => exact ih
  | addTrivialLeg axis label qconj p ih => exact ih
  | scaleAxis s axis p ih => exact ih
  | takeSlice indices axes p ih => intro hs hq; exact ih hs.1 hq
  | squeeze axes p ih => intro hs hq; exact ⟨ih hs.1 hq.1, hq.2⟩
  | project masks axes p ih => intro hs hq; exact ih hs.1 hq
  | permute perm axis p ih => intro hs hq; exact ih hs.1 hq
  | binary f p q ihp ihq =>
    intro hs hq
    refine ⟨ihp hs.2.1 hq.1, ihq hs.2.2 hq.2, fun a b ha hb => ?_⟩
    rw [progA_mods st hst m env hwf henv p a hs.2.1 ha, progA_mods st hst m env hwf henv q b hs.2.2 hb]
  | addPrefactor cy c p q ihp ihq =>
    intro hs hq
    refine ⟨ihp hs.1 hq.1, ihq hs.2 hq.2, fun a b ha hb => ?_⟩
    rw [progA_mods st hst m env hwf henv p a hs.1 ha, progA_mods st hst m env hwf henv q b hs.2 hb]

/-- **part-A programs on inputs over a common `chinfo`**: charge rule and leg validity of the result with part A's
`Side` and the `squeeze` clause `SideQ` only -/
theorem progA_chargeRule_mods [CommRing α] [DecidableEq α] (st : α → α) (hst : st 0 = 0) (m : List Nat)
    (env : List (Arr α)) (henv : ∀ a ∈ env, a.WF ∧ a.ChargeRule ∧ LegsValid a) (hm : ∀ a ∈ env, a.mods = m)
    (p : C01ProgA α) (r : Arr α) (hs : Side st env p) (hq : SideQ st env p) (h : evalArr st env p = .ok r) :
    r.ChargeRule ∧ LegsValid r ∧ r.mods = m :=
  have hwf : ∀ a ∈ env, a.WF := fun a ha => (henv a ha).1
  have hc := progA_chargeRule st hst env henv p r hs (sideC_of_sideQ st hst m env hwf hm p hs hq) h
  ⟨hc.1, hc.2, progA_mods st hst m env hwf hm p r hs h⟩

end TenpyModel.C01C
