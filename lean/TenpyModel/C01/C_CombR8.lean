import TenpyModel.C01.C_CombR6
import TenpyModel.C01.C_CombR2
/-!
C01 part C — `split_legs` / `combine_legs` on reference objects, complements:
* `splitIdx_getD`: the index map of `refSplit` axis by axis — a split axis `k` reads `map_incoming_flat` of its pipe on
  the sub-tuple of `idx` at the positions of its incoming legs, any other axis reads the index at its position;
* `combineLegs_pipeLegOK`: the hypothesis `PipeLegOK` of `splitLegs_specR` holds for every pipe leg of the result of the
  public default `combine_legs` (new pipes are genuine by construction, spectator pipes are inherited).
-/
namespace TenpyModel.C01C.CombR
open TenpyModel.Core TenpyModel.C01B TenpyModel.C01B2 TenpyModel.C01B2.Comb

variable {α : Type}

/-- **the index map of `split_legs`, axis by axis** (`w` = number of legs each axis is replaced by, `segOff w k` = position
of the first of them in the split tensor, `segPart w k` = all their positions) -/
theorem splitIdx_getD (x : RObj α) (ax : List Nat) (hasc : ax.Pairwise (· < ·)) (hlt : ∀ k ∈ ax, k < x.rank)
    (hpipe : ∀ k ∈ ax, (x.legs.getD k default).isPipe = true) (idx : List Nat) :
    (splitIdx x ax idx).length = x.rank
    ∧ ∀ k, k < x.rank → (splitIdx x ax idx).getD k 0 =
      if ax.contains k then
        ((Arr.pipeOf (x.legs.getD k default)).mapIncomingFlat
          ((pick idx (segPart (splitWidth x.legs ax) k) 0).map Int.ofNat)).getD 0
      else idx.getD (segOff (splitWidth x.legs ax) k) 0 := by
  have h1 := splitWidth_one x.legs ax x.rank
  have hrank : (cNonComb (splitFrame x.frame ax).rank (splitGroups x.legs ax)).length + (splitGroups x.legs ax).length
      = x.rank := by
    rw [splitFrame_rank]
    exact segs_rank _ _ _ hasc hlt h1
  obtain ⟨hl, hg⟩ := combIdx_getD (splitFrame x.frame ax) (splitGroups x.legs ax) ax
    (ax.map (fun k => x.legs.getD k default)) idx
  rw [hrank] at hl hg
  refine ⟨hl, ?_⟩
  intro k hk
  unfold splitIdx
  rw [hg k hk]
  by_cases hc : ax.contains k = true
  · rw [if_pos hc, if_pos hc]
    have hm : k ∈ ax := by simpa using hc
    have hi := List.idxOf_lt_length_of_mem hm
    have e1 : sP (ax.map (fun k => x.legs.getD k default)) (ax.idxOf k) = Arr.pipeOf (x.legs.getD k default) := by
      have := sP_axes x.frame ax hpipe (ax.idxOf k) hi
      rw [na_getD_idxOf ax k hc] at this
      exact this
    rw [e1]
    unfold splitGroups
    rw [groups_getD _ ax k hc]
  · rw [if_neg hc, if_neg hc]
    have hc' : ax.contains k = false := by simpa using hc
    have hm : k ∈ cNonNew x.rank ax :=
      List.mem_filter.2 ⟨List.mem_range.2 hk, by show (!ax.contains k) = true; rw [hc']; rfl⟩
    have hi := List.idxOf_lt_length_of_mem hm
    have hnc : cNonComb (splitFrame x.frame ax).rank (splitGroups x.legs ax)
        = (cNonNew x.rank ax).map (segOff (splitWidth x.legs ax)) := by
      rw [splitFrame_rank]
      exact segs_nonComb _ _ _ h1
    rw [hnc, getD_map' _ _ _ 0 0 hi, getD_lt _ _ _ hi, List.getElem_idxOf hi]

/-! ### the pipes made by `combine_legs` are genuine -/

theorem init_leg_qconj (legs : List Leg) (qconj : Int) (sort bunch : Bool) :
    (Pipe.init legs qconj sort bunch).leg.qconj = qconj := by
  unfold Pipe.init
  simp only
  split
  · rfl
  · split <;> rfl

theorem pipeLegOK_of_init (subs : List ALeg) (qconj : Int) (sort bunch : Bool) (hs : ∀ s ∈ subs, s.leg.Shape) :
    PipeLegOK (.pipe (Pipe.init (subs.map ALeg.leg) qconj sort bunch) subs) := by
  refine ⟨⟨(sort, bunch), ?_, ?_⟩, hs⟩
  · cases sort <;> cases bunch <;> simp
  · rw [init_leg_qconj]

theorem mem_insertAt {β} (l : List β) (i : Nat) (x y : β) (h : y ∈ Dense.insertAt l i x) : y = x ∨ y ∈ l := by
  unfold Dense.insertAt at h
  rcases List.mem_append.1 h with h | h
  · exact Or.inr (List.mem_of_mem_take h)
  · rcases List.mem_cons.1 h with h | h
    · exact Or.inl h
    · exact Or.inr (List.mem_of_mem_drop h)

theorem mem_insFold {β} (pos : List Nat) : ∀ (items base : List β) (y : β),
    y ∈ insFold base pos items → y ∈ items ∨ y ∈ base := by
  induction pos with
  | nil =>
    intro items base y h
    have : insFold base [] items = base := by simp [insFold]
    rw [this] at h
    exact Or.inr h
  | cons p pos ih =>
    intro items base y h
    cases items with
    | nil =>
      have : insFold base (p :: pos) [] = base := by simp [insFold]
      rw [this] at h
      exact Or.inr h
    | cons it items =>
      have : insFold base (p :: pos) (it :: items)
          = insFold (Dense.insertAt base (Arr.insertPos base.length p) it) pos items := by
        simp [insFold]
      rw [this] at h
      rcases ih items _ y h with h | h
      · exact Or.inl (List.mem_cons_of_mem _ h)
      · rcases mem_insertAt _ _ _ _ h with h | h
        · exact Or.inl (h ▸ List.mem_cons_self)
        · exact Or.inr h

/-- legs of the result of a standard-form `combine_legs` with pipes built over the groups' legs -/
theorem cs_pipeLegOK {t r : Arr α} {cl : List (List Nat)} {na : List Nat} {ps : List ALeg} (c : CS t r cl na ps)
    (hp : ∀ l ∈ t.legs, l.isPipe = true → PipeLegOK l) :
    ∀ l ∈ r.legs, l.isPipe = true → PipeLegOK l := by
  intro l hl hpipe
  rw [c.legs] at hl
  unfold cLegs at hl
  rcases mem_insFold na ps _ l hl with h | h
  · obtain ⟨g, hg, rfl⟩ := List.getElem_of_mem h
    have hgc : g < cl.length := by rw [← c.hl2]; exact hg
    obtain ⟨qconj, sort, bunch, e⟩ := c.pipes g hgc
    rw [getD_lt _ _ _ hg] at e
    rw [e]
    have hc : ∀ x ∈ cl.getD g [], x < t.legs.length := by
      have := (c.pipe_g g (by rw [c.hl1]; exact hgc)).1
      rw [lcs_length] at this
      exact this
    have : pick t.lcs (cl.getD g []) default = (pick t.legs (cl.getD g []) default).map ALeg.leg := by
      unfold Arr.lcs
      exact pick_map ALeg.leg _ _ default default hc
    rw [this]
    apply pipeLegOK_of_init
    intro s hs
    obtain ⟨i, hi, rfl⟩ := List.mem_map.1 hs
    have hi' := hc i hi
    apply c.wa.shapes
    exact List.mem_map.2 ⟨_, by rw [getD_lt _ _ _ hi']; exact List.getElem_mem _, rfl⟩
  · obtain ⟨i, hi, rfl⟩ := List.mem_map.1 h
    have hi' : i < t.legs.length := cNonComb_lt _ _ i hi
    exact hp _ (by rw [getD_lt _ _ _ hi']; exact List.getElem_mem _) hpipe

/-- **the pipe legs of the result of the public default `combine_legs` are genuine pipes** (so `splitLegs_specR`
applies to it), given that the pipe legs of the operand are -/
theorem combineLegs_pipeLegOK [Zero α] (a r : Arr α) (ha : a.WF) (cl : List (List Ax)) (qconj : List (Option Int))
    (hne : ∀ c ∈ cl, c ≠ []) (h : a.combineLegs cl none none qconj = .ok r)
    (hp : ∀ l ∈ a.legs, l.isPipe = true → PipeLegOK l) : ∀ l ∈ r.legs, l.isPipe = true → PipeLegOK l := by
  obtain ⟨ps0, cli0, na0, transp, hps, hcli, hnt, hP2, hN, _⟩ := combineLegs_default_hyps2 a r ha cl qconj hne h
  have hr := reordered_of a.rank cli0 none na0 _ hnt hN
  have hperm : (Arr.argsortInt (na0.map Int.ofNat)).Perm (List.range cli0.length) := by
    rw [← hr.len]; exact argsort_perm na0
  by_cases htr : transp = List.range a.rank
  · subst htr
    obtain ⟨hcall, hstd, _, hl1, hl2, _⟩ :=
      combineLegs_places_id a r ha cl none none qconj ps0 cli0 na0 hps hcli hnt hP2.ok hN h
    exact cs_pipeLegOK (CS.of_combine a r ha _ _ _ _ hl1 hl2 (pipesOK2_pick a cli0 ps0 _ hperm hP2) hstd hcall) hp
  · obtain ⟨hpm, htWF, _, htl, hcall, hstd, _, hl1, hl2, _⟩ :=
      combineLegs_places_tr a r ha cl none none qconj ps0 cli0 na0 transp hps hcli hnt htr hP2.ok hN h
    have hcl0 : ∀ x ∈ cli0.flatten, x < a.rank := by
      intro x hx
      obtain ⟨c, hc, hxc⟩ := List.mem_flatten.1 hx
      obtain ⟨axs, _, hax⟩ := (mapM_except_ok _ _ _ hcli).2 c hc
      exact (Arr.getLegIndices_lt a ha.1 axs c hax).2 x hxc
    have hcl1 : ∀ x ∈ (pick cli0 (Arr.argsortInt (na0.map Int.ofNat)) []).flatten, x < a.rank :=
      fun x hx => hcl0 x ((pick_perm cli0 _ [] hperm).flatten.mem_iff.1 hx)
    have hp2 := pipesOK2_transposed a (cTransposed a transp) _ _ transp hpm hcl1 htl
      (pipesOK2_pick a cli0 ps0 _ hperm hP2)
    apply cs_pipeLegOK (CS.of_combine (cTransposed a transp) r htWF _ _ _ _ hl1 hl2 hp2 hstd hcall)
    intro l hl hpipe
    rw [htl] at hl
    obtain ⟨i, _, rfl⟩ := List.mem_map.1 hl
    by_cases hi : i < a.legs.length
    · exact hp _ (by rw [getD_lt _ _ _ hi]; exact List.getElem_mem _) hpipe
    · rw [getD_ge _ _ _ (by omega)] at hpipe
      cases hpipe

end TenpyModel.C01C.CombR

namespace TenpyModel.C01C
open TenpyModel.Core TenpyModel.C01B TenpyModel.C01B2 TenpyModel.C01B2.Comb

/-- **the composite node** `a.combine_legs(groups, qconj=…).split_legs(axes)` on reference objects (any `axes`: all
pipes, some of the new pipes, spectator pipes of `a`): chain of `combineLegs_specR` and `splitLegs_specR`; the
hypothesis of the latter is provided by `combineLegs_pipeLegOK`. -/
theorem splitCombine_specR {α : Type} [Zero α] (a r a' : Arr α) (ha : a.WF) (cl : List (List Ax))
    (qconj : List (Option Int)) (hne : ∀ c ∈ cl, c ≠ [])
    (hp : ∀ l ∈ a.legs, l.isPipe = true → CombR.PipeLegOK l)
    (h : a.combineLegs cl none none qconj = .ok r) (axes : Option (List Ax)) (hs : r.splitLegs axes = .ok a') :
    a'.toR = refSplit (refCombine a.toR cl qconj) axes ∧ a'.WF := by
  obtain ⟨h1, hwf⟩ := combineLegs_specR a r ha cl qconj hne h
  rw [← h1]
  exact splitLegs_specR r a' hwf axes (CombR.combineLegs_pipeLegOK a r ha cl qconj hne h hp) hs

end TenpyModel.C01C
