import TenpyModel.C01.B_SetBlock
/-!
C01 part B — facts about `Pipe.init` needed for the placement of tensor entries by `combine_legs`:
the sub-slice `[b_j, b_{j+1})` of a `q_map` row has the width of the incoming block combination, and the flat image
of an index tuple under `map_incoming_flat` is located at `(I, b_j + within)` of the outgoing leg.
-/
namespace TenpyModel.C01B
open TenpyModel.Core TenpyModel.Core.Pipe

/-- `q_map[j, 1] - q_map[j, 0]` is the size of the incoming block combination of row `j` -/
theorem pipe_width (legs : List Leg) (qconj : Int) (sort bunch : Bool) (hsh : ∀ l ∈ legs, l.Shape)
    (qis : List Nat) (hq : InRange qis (gSubq legs)) :
    ((init legs qconj sort bunch).qMap.getD ((init legs qconj sort bunch).mapIncomingQind qis) []).getD 1 0
      = ((init legs qconj sort bunch).qMap.getD ((init legs qconj sort bunch).mapIncomingQind qis) []).getD 0 0
        + blockSizeOf legs qis := by
  by_cases hs : (gSubq legs).all (· == 1) = true
  · have hones := single_ones legs hs
    have hJ : (init legs qconj sort bunch).mapIncomingQind qis = 0 := by
      rw [init_single legs qconj sort bunch hs]
      show dot qis (legs.map (fun _ => 0)) = 0
      exact dot_zeros _ _
    have hrow : (init legs qconj sort bunch).qMap.getD 0 [] =
        [0, (legs.map Leg.indLen).prod, 0] ++ legs.map (fun _ => 0) := by
      rw [init_single legs qconj sort bunch hs]
      simp [foldl_mul]
    have hz := inRange_ones qis _ hq hones
    rw [hJ, hrow, hz, ← zeros_eq, blockSizeOf_zeros legs hsh (fun l hl => hones _ (List.mem_map.2 ⟨l, hl, rfl⟩))]
    simp
  · have hs' : (gSubq legs).all (· == 1) = false := by simpa using hs
    obtain ⟨h1, h2⟩ := gJ_spec legs qconj sort qis hq
    have hsz : (gSizes1 legs qconj sort).getD (gJ legs qconj sort qis) 0 = blockSizeOf legs qis := by
      rw [gSizes1_getD legs qconj sort _ h1, gJ_grid1 legs qconj sort qis hq]
    have e0 := gSlices1_getD legs qconj sort (gJ legs qconj sort qis) (Nat.le_of_lt h1)
    have e1 := gSlices1_getD legs qconj sort (gJ legs qconj sort qis + 1) h1
    have e2 := psum_succ (gSizes1 legs qconj sort) (gJ legs qconj sort qis) (by rw [gSizes1_length]; exact h1)
    cases bunch
    · have hJ : (init legs qconj sort false).mapIncomingQind qis = gJ legs qconj sort qis := by
        rw [init_nobunch legs qconj sort hs']; rfl
      rw [hJ, qMap_nobunch_getD legs qconj sort hs' _ h1]
      show (gSlices1 legs qconj sort).getD (gJ legs qconj sort qis + 1) 0
          - (gSlices1 legs qconj sort).getD (gJ legs qconj sort qis) 0 = 0 + _
      omega
    · have hJ : (init legs qconj sort true).mapIncomingQind qis = gJ legs qconj sort qis := by
        rw [init_bunch legs qconj sort hs']; rfl
      obtain ⟨g, hg, g1, g2, hqi⟩ := gQi_group legs qconj sort _ h1
      rw [hJ, qMap_bunch_getD legs qconj sort hs' _ h1]
      show (gSlices1 legs qconj sort).getD (gJ legs qconj sort qis + 1) 0
            - (gPre legs qconj sort).bunchCore.slices.getD ((gQi legs qconj sort).getD _ 0) 0
          = (gSlices1 legs qconj sort).getD (gJ legs qconj sort qis) 0
            - (gPre legs qconj sort).bunchCore.slices.getD ((gQi legs qconj sort).getD _ 0) 0 + _
      rw [hqi, gBunch_slices_getD legs qconj sort g (by omega)]
      have := gSlices1_mono legs qconj sort _ _ g1 (Nat.le_of_lt h1)
      omega

theorem zipWith_eq_map_zip' {β γ δ} (f : β → γ → δ) (l1 : List β) (l2 : List γ) :
    List.zipWith f l1 l2 = (l1.zip l2).map (fun p => f p.1 p.2) := by
  induction l1 generalizing l2 with
  | nil => rfl
  | cons x l1 ih => cases l2 with
    | nil => rfl
    | cons y l2 => simp [ih]

theorem qwOf_fst (legs : List Leg) (xs : List Nat) : (qwOf legs xs).map (·.1) = qOf legs xs := by
  unfold qwOf qOf
  rw [zipWith_eq_map_zip']
  rfl

theorem qwOf_snd (legs : List Leg) (xs : List Nat) : (qwOf legs xs).map (·.2) = wOf legs xs := by
  unfold qwOf wOf
  rw [zipWith_eq_map_zip']
  rfl

theorem sizesOf_eq (legs : List Leg) (q : List Nat) : sizesOf legs q = blockShapeOf legs q := by
  unfold sizesOf blockShapeOf
  rw [zipWith_eq_map_zip']

/-- the `q_map` row of a block combination -/
def pipeRow (p : Pipe) (q : List Nat) : List Nat := p.qMap.getD (p.mapIncomingQind q) []
/-- C-order position of the within-block indices inside the fused block -/
def withinOf (legs : List Leg) (xs : List Nat) : Nat := dot (wOf legs xs) (makeStrideC (blockShapeOf legs (qOf legs xs)))

/-- where `map_incoming_flat` puts an index tuple: outgoing block `I = q_map[j,2]`, position `b_j + within` -/
theorem pipe_place (legs : List Leg) (qconj : Int) (sort bunch : Bool) (hsh : ∀ l ∈ legs, l.Shape)
    (xs : List Nat) (hx : InRange xs (legs.map Leg.indLen)) (p : Pipe) (hp : p = init legs qconj sort bunch) :
    p.mapIncomingFlat (xs.map Int.ofNat)
      = some (p.leg.slices.getD ((pipeRow p (qOf legs xs)).getD 2 0) 0 + (pipeRow p (qOf legs xs)).getD 0 0 + withinOf legs xs)
    ∧ withinOf legs xs < blockSizeOf legs (qOf legs xs)
    ∧ (pipeRow p (qOf legs xs)).getD 2 0 < p.leg.blockNumber
    ∧ (pipeRow p (qOf legs xs)).getD 0 0 + blockSizeOf legs (qOf legs xs)
        ≤ p.leg.blockSizes.getD ((pipeRow p (qOf legs xs)).getD 2 0) 0
    ∧ p.leg.locate (p.leg.slices.getD ((pipeRow p (qOf legs xs)).getD 2 0) 0 + (pipeRow p (qOf legs xs)).getD 0 0
        + withinOf legs xs) = ((pipeRow p (qOf legs xs)).getD 2 0, (pipeRow p (qOf legs xs)).getD 0 0 + withinOf legs xs) := by
  subst hp
  unfold pipeRow withinOf
  obtain ⟨sizes1, L⟩ := located legs qconj sort bunch hsh
  have hl := init_legs legs qconj sort bunch
  obtain ⟨f1, f2, _, _⟩ := qw_facts legs hsh 1 xs hx
  rw [qwOf_fst] at f1
  rw [qwOf_fst, qwOf_snd, sizesOf_eq] at f2
  obtain ⟨l1, l2, l3, l4, l5, l6, l7⟩ := L.loc _ f1
  have hme := mapIncomingFlat_eq (init legs qconj sort bunch) legs hl 1 hsh xs hx
  rw [qwOf_fst, qwOf_snd, sizesOf_eq] at hme
  have hwithin : dot (wOf legs xs) (makeStrideC (blockShapeOf legs (qOf legs xs))) < blockSizeOf legs (qOf legs xs) := by
    rw [blockSizeOf_eq_sizesOf, sizesOf_eq]; exact dot_stride_lt _ _ f2
  have hpsh : (init legs qconj sort bunch).leg.Shape := leg_shape legs qconj sort bunch
  have hsucc := hpsh.slices_succ _ l6
  have hps := psum_succ sizes1 _ l1
  have hfit : ((init legs qconj sort bunch).qMap.getD ((init legs qconj sort bunch).mapIncomingQind (qOf legs xs)) []).getD 0 0
      + blockSizeOf legs (qOf legs xs)
      ≤ (init legs qconj sort bunch).leg.blockSizes.getD
        (((init legs qconj sort bunch).qMap.getD ((init legs qconj sort bunch).mapIncomingQind (qOf legs xs)) []).getD 2 0) 0 := by
    omega
  refine ⟨hme, hwithin, l6, hfit, ?_⟩
  have := (locate_block hpsh _ (((init legs qconj sort bunch).qMap.getD
    ((init legs qconj sort bunch).mapIncomingQind (qOf legs xs)) []).getD 0 0
      + dot (wOf legs xs) (makeStrideC (blockShapeOf legs (qOf legs xs)))) l6 (by omega)).2
  rw [← Nat.add_assoc] at this
  exact this

/-- two block combinations in the same outgoing block whose sub-slices overlap are equal -/
theorem pipe_disjoint (legs : List Leg) (qconj : Int) (sort bunch : Bool) (hsh : ∀ l ∈ legs, l.Shape)
    (q q' : List Nat) (hq : InRange q (gSubq legs)) (hq' : InRange q' (gSubq legs)) (p : Pipe)
    (hp : p = init legs qconj sort bunch) (hI : (pipeRow p q).getD 2 0 = (pipeRow p q').getD 2 0) (x : Nat)
    (h1 : (pipeRow p q).getD 0 0 ≤ x) (h2 : x < (pipeRow p q).getD 0 0 + blockSizeOf legs q)
    (h1' : (pipeRow p q').getD 0 0 ≤ x) (h2' : x < (pipeRow p q').getD 0 0 + blockSizeOf legs q') : q = q' := by
  subst hp
  unfold pipeRow at *
  obtain ⟨sizes1, L⟩ := located legs qconj sort bunch hsh
  obtain ⟨l1, _, _, l4, l5, _, _⟩ := L.loc _ hq
  obtain ⟨l1', _, _, l4', l5', _, _⟩ := L.loc _ hq'
  rw [← hI] at l5'
  apply L.inj _ _ hq hq'
  have := psum_add_inj sizes1 _ (x - ((init legs qconj sort bunch).qMap.getD
      ((init legs qconj sort bunch).mapIncomingQind q) []).getD 0 0) _
    (x - ((init legs qconj sort bunch).qMap.getD ((init legs qconj sort bunch).mapIncomingQind q') []).getD 0 0)
    l1 l1' (by omega) (by omega) (by omega)
  exact this.1

end TenpyModel.C01B
