import TenpyModel.C01.B2_Dot7
/-!
C01 part B2 — `_tensordot_worker` as called by `tensordot`: what it returns; and the `stored_blocks == 1` shortcut of
`tensordot` (a single block pair).
-/
namespace TenpyModel.C01B2
open TenpyModel.Core TenpyModel.C01B

variable {α : Type}

section worker
variable [CommSemiring α]
set_option linter.unusedSectionVars false

/-- the worker's two sorted row lists form a `Ctx` -/
theorem ctx_of (a b : Arr α) (k : Nat) (h : DotHyp a b k) :
    Ctx a b k (sortRows (aRows0 a k (cbn a k))) (bRowsS b k (cbn a k)) where
  h := h
  pa := (aRows_sorted3 a b k h).2
  sa := (aRows_sorted3 a b k h).1
  pb := (bRows_sorted3 a b k h).2
  sb := (bRows_sorted3 a b k h).1

/-- what `_tensordot_worker` returns -/
theorem worker_spec (a b r : Arr α) (k : Nat) (hw : Arr.tensordotWorker a b k = .ok r) :
    r.mods = a.mods ∧ r.legs = a.legs.take (a.rank - k) ++ b.legs.drop k
    ∧ r.qtotal = makeValid a.mods (cadd a.qtotal b.qtotal)
    ∧ r.qdata = (outOf a b k (Arr.groupKeep (sortRows (aRows0 a k (cbn a k))))
        (Arr.groupKeep (bRowsS b k (cbn a k)))).map (·.1)
    ∧ r.data = (outOf a b k (Arr.groupKeep (sortRows (aRows0 a k (cbn a k))))
        (Arr.groupKeep (bRowsS b k (cbn a k)))).map (·.2) := by
  cases hz : (Arr.zeros a.mods (a.legs.take (a.rank - k) ++ b.legs.drop k)
      (some (makeValid a.mods (cadd a.qtotal b.qtotal))) none : Except Err (Arr α)) with
  | error e =>
    unfold Arr.tensordotWorker at hw
    simp only [bind, Except.bind, hz] at hw
    simp at hw
  | ok res =>
    rw [worker_def a b res k hz, rawOut_eq] at hw
    have hres := zeros_ok _ _ _ _ hz
    split at hw
    · rename_i hem
      simp only [Except.ok.injEq] at hw
      have hnil := List.isEmpty_iff.1 hem
      rw [hnil, ← hw, hres]
      simp [makeValid_idem]
    · simp only [Except.ok.injEq] at hw
      rw [← hw, hres]
      simp [makeValid_idem]

/-- shape of the block-level contraction of two stored blocks -/
theorem DotHyp.pair_shape {a b : Arr α} {k : Nat} (h : DotHyp a b k) (qa qb : List Nat) (A B : Blk α)
    (hA : (qa, A) ∈ a.qdata.zip a.data) (hB : (qb, B) ∈ b.qdata.zip b.data) :
    (Dense.tensordot A B k).shape
      = blockShapeOf (a.lcs.take (a.rank - k)) (qa.take (a.rank - k)) ++ blockShapeOf (b.lcs.drop k) (qb.drop k) := by
  rw [tensordot_shape, h.wa.blkShape _ hA, h.wb.blkShape _ hB]
  have hr : A.rank = a.rank := by
    unfold Dense.rank
    rw [h.wa.blkShape _ hA, blockShapeOf_length _ _ (by rw [h.wa.rowLen _ (List.of_mem_zip hA).1, lcs_length]),
      lcs_length]
  rw [hr]
  unfold blockShapeOf
  rw [List.take_zipWith, List.drop_zipWith]

/-! ### the one-block shortcut -/

/-- the block list of the one-block shortcut -/
def oneRows (k cut : Nat) (qa qb : List Nat) (A B : Blk α) : List (List Nat × Blk α) :=
  if qa.drop cut = qb.take k then [(qa.take cut ++ qb.drop k, Dense.tensordot A B k)] else []

theorem one_entry (a b : Arr α) (k : Nat) (h : DotHyp a b k) (qa qb : List Nat) (A B : Blk α)
    (hA : a.qdata.zip a.data = [(qa, A)]) (hB : b.qdata.zip b.data = [(qb, B)])
    (r : Arr α) (hlegs : r.legs = a.legs.take (a.rank - k) ++ b.legs.drop k)
    (hzip : r.qdata.zip r.data = oneRows k (a.rank - k) qa qb A B)
    (i j : List Nat) (hi : InRange i ((a.lcs.take (a.rank - k)).map Leg.indLen))
    (hj : InRange j ((b.lcs.drop k).map Leg.indLen)) :
    r.entry (i ++ j) = (Dense.tensordot a.toDense b.toDense k).get 0 (i ++ j) := by
  have hlcs := lcs_of_legs r (a.rank - k) hlegs
  have hil : i.length = (a.lcs.take (a.rank - k)).length := by rw [hi.length_eq, List.length_map]
  have hqo : qOf r.lcs (i ++ j) = qOf (a.lcs.take (a.rank - k)) i ++ qOf (b.lcs.drop k) j := by
    rw [hlcs, qOf_append _ _ _ _ hil]
  have hwo : wOf r.lcs (i ++ j) = wOf (a.lcs.take (a.rank - k)) i ++ wOf (b.lcs.drop k) j := by
    rw [hlcs, wOf_append _ _ _ _ hil]
  have hqil : (qOf (a.lcs.take (a.rank - k)) i).length = a.rank - k := by
    rw [qOf_length _ _ hil, lcs_take_len a _ (Nat.sub_le _ _)]
  have hqaM : (qa, A) ∈ a.qdata.zip a.data := by rw [hA]; simp
  have hqbM : (qb, B) ∈ b.qdata.zip b.data := by rw [hB]; simp
  obtain ⟨ra1, _, ra3⟩ := h.rowA qa (List.of_mem_zip hqaM).1
  obtain ⟨rb1, _, _⟩ := h.rowB qb (List.of_mem_zip hqbM).1
  have hdl : (qa.drop (a.rank - k)).length = k := by rw [ra3.length_eq, List.length_map, h.lenC]
  rw [dense_side a b k h i j hi hj, hA, entry_def, hzip, hqo, hwo]
  unfold oneRows term
  rw [hB]
  by_cases hc : qa.drop (a.rank - k) = qb.take k
  · rw [if_pos hc]
    by_cases hrow : qa.take (a.rank - k) ++ qb.drop k
        = qOf (a.lcs.take (a.rank - k)) i ++ qOf (b.lcs.drop k) j
    · obtain ⟨e1, e2⟩ := List.append_inj hrow (ra1.trans hqil.symm)
      have hqb : qb = qa.drop (a.rank - k) ++ qOf (b.lcs.drop k) j := by
        rw [hc, ← e2, List.take_append_drop]
      simp [e1, e2, ← hqb]
    · have : ¬ (qa.take (a.rank - k) = qOf (a.lcs.take (a.rank - k)) i
          ∧ qb = qa.drop (a.rank - k) ++ qOf (b.lcs.drop k) j) := by
        rintro ⟨e1, e2⟩
        apply hrow
        rw [e1]
        congr 1
        rw [e2, List.drop_left' hdl]
      by_cases e1 : qa.take (a.rank - k) = qOf (a.lcs.take (a.rank - k)) i
      · have e2 : ¬ qb = qa.drop (a.rank - k) ++ qOf (b.lcs.drop k) j := fun e2 => this ⟨e1, e2⟩
        have e3 : ¬ qb.drop k = qOf (b.lcs.drop k) j := fun e3 => hrow (by rw [e1, e3])
        simp [e1, e2, e3]
      · simp [hrow, e1]
  · rw [if_neg hc]
    by_cases e1 : qa.take (a.rank - k) = qOf (a.lcs.take (a.rank - k)) i
    · have e2 : ¬ qb = qa.drop (a.rank - k) ++ qOf (b.lcs.drop k) j := by
        intro e2
        apply hc
        rw [e2, List.take_left' hdl]
      simp [e1, e2]
    · simp [e1]

theorem one_wf (a b : Arr α) (k : Nat) (h : DotHyp a b k) (qa qb : List Nat) (A B : Blk α)
    (hA : a.qdata.zip a.data = [(qa, A)]) (hB : b.qdata.zip b.data = [(qb, B)])
    (r : Arr α) (hlegs : r.legs = a.legs.take (a.rank - k) ++ b.legs.drop k)
    (hq : r.qdata = (oneRows k (a.rank - k) qa qb A B).map (·.1))
    (hd : r.data = (oneRows k (a.rank - k) qa qb A B).map (·.2))
    (hlab : r.labels.length = r.rank) : r.WF := by
  have hlcs := lcs_of_legs r (a.rank - k) hlegs
  have hzip : r.qdata.zip r.data = oneRows k (a.rank - k) qa qb A B := by rw [hq, hd, zip_map_fst_snd]
  have hqaM : (qa, A) ∈ a.qdata.zip a.data := by rw [hA]; simp
  have hqbM : (qb, B) ∈ b.qdata.zip b.data := by rw [hB]; simp
  obtain ⟨ra1, ra2, _⟩ := h.rowA qa (List.of_mem_zip hqaM).1
  obtain ⟨_, _, rb3⟩ := h.rowB qb (List.of_mem_zip hqbM).1
  have hlen : (oneRows k (a.rank - k) qa qb A B).length < 2 := by
    unfold oneRows; split <;> simp
  have hmem : ∀ e ∈ oneRows k (a.rank - k) qa qb A B,
      e = (qa.take (a.rank - k) ++ qb.drop k, Dense.tensordot A B k) := by
    intro e he
    unfold oneRows at he
    split at he
    · simpa using he
    · simp at he
  apply WF_of_parts r hlab (by rw [hq, hd]; simp)
  · rw [hq]
    unfold oneRows; split <;> simp
  · intro l hl
    rw [hlcs] at hl
    rcases List.mem_append.1 hl with h1 | h1
    · exact h.wa.shapes l (List.mem_of_mem_take h1)
    · exact h.wb.shapes l (List.mem_of_mem_drop h1)
  · intro q hqm
    rw [hq] at hqm
    obtain ⟨e, he, rfl⟩ := List.mem_map.1 hqm
    rw [hmem e he, hlcs, List.map_append]
    exact (InRange_append ra2.length_eq).2 ⟨ra2, rb3⟩
  · intro rb hrb
    rw [hzip] at hrb
    rw [hmem rb hrb]
    refine ⟨?_, tensordot_good _ _ _⟩
    simp only
    rw [h.pair_shape qa qb A B hqaM hqbM, hlcs,
      blockShapeOf_append _ _ _ _ (by rw [ra1, lcs_take_len a _ (Nat.sub_le _ _)])]
  · intro _
    rw [hq]
    exact isLexsorted_short _ (by rw [List.length_map]; exact hlen)

end worker
end TenpyModel.C01B2
