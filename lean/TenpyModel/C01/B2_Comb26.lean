import TenpyModel.C01.B2_Comb25
/-!
C01 part B2 — part 26 (labels): `split_legs ∘ combine_legs` restores the labels: the result carries
`labels.map mkLabel` (the labels `combine_legs` worked with, `'?#'` placeholders turned into `None` again), for
groups whose labels are pieces in the sense of `C01_labels_split_combine`.
-/
namespace TenpyModel.C01B2.Comb
open TenpyModel.Core TenpyModel.C01B

variable {α : Type}

namespace CS
variable {a r : Arr α} {cl : List (List Nat)} {na : List Nat} {ps : List ALeg}

/-- the labels of the combined tensor, axis by axis -/
theorem labels_r [Zero α] (c : CS a r cl na ps) (labels : List String) (hl : labels.length = a.rank)
    (h : a.combineStd cl na ps labels = .ok r) :
    r.labels.length = c.n ∧ ∀ k, k < c.n → r.labels.getD k none =
      if na.contains k then some (Label.combine (pick labels (cl.getD (na.idxOf k) []) ""))
      else mkLabel (labels.getD ((cNonComb a.rank cl).getD ((cNonNew c.n na).idxOf k) 0) "") := by
  have hlab := combineStd_labels a cl na ps labels r h
  have hcl := c.cLabs_eq labels hl
  have hlen : (cLabs cl na ps labels).length = c.n := by rw [hcl]; simp
  have hlegs : (cLegs a cl na ps).length = c.n := (cLegs_getD a cl na ps c.hl1 c.hl2 c.std).1
  rw [hlen, hlegs] at hlab
  refine ⟨by rw [hlab]; simp, ?_⟩
  intro k hk
  rw [hlab, getD_map' _ _ k 0 none (by simpa using hk), getD_range _ _ hk, hcl,
    getD_map' _ _ k 0 "" (by simpa using hk), getD_range _ _ hk]
  by_cases hc : na.contains k = true
  · rw [if_pos hc, if_pos hc]
    have : ¬ (cNonNew c.n na).contains k = true := by
      unfold cNonNew
      simp only [List.contains_eq_mem, List.mem_filter, List.mem_range, Bool.not_eq_eq_eq_not, Bool.not_true,
        decide_eq_false_iff_not, decide_eq_true_eq, not_and, not_not]
      intro _
      simpa using hc
    rw [if_neg (fun h' => this h'.1)]
  · rw [if_neg hc, if_neg hc]
    have : (cNonNew c.n na).contains k = true := by
      unfold cNonNew
      simp only [List.contains_eq_mem, List.mem_filter, List.mem_range, Bool.not_eq_eq_eq_not, Bool.not_true,
        decide_eq_false_iff_not, decide_eq_true_eq]
      exact ⟨hk, by simpa using hc⟩
    unfold mkLabel
    by_cases hq : (labels.getD ((cNonComb a.rank cl).getD ((cNonNew c.n na).idxOf k) 0) "").toList.head? = some '?'
    · rw [if_pos ⟨this, hq⟩, if_pos hq]
    · rw [if_neg (fun h' => hq h'.2), if_neg hq]

/-- number of incoming legs of the leg at a pipe axis of the result -/
theorem subLegs_len (c : CS a r cl na ps) (g : Nat) (hg : g < na.length) :
    (Arr.subLegs (r.legs.getD (na.getD g 0) default)).length = (cl.getD g []).length := by
  rw [c.legs_new g hg]
  obtain ⟨qc, so, bu, e⟩ := c.pipes g (by rw [← c.hl1]; exact hg)
  rw [e]
  show (pick a.legs (cl.getD g []) default).length = _
  rw [pick_length]

/-- the label loop of `split_legs` on the combined tensor -/
theorem split_labels_loop [Zero α] (c : CS a r cl na ps) (labels : List String) (hl : labels.length = a.rank)
    (h : a.combineStd cl na ps labels = .ok r)
    (hpc : ∀ g, g < cl.length → cl.getD g [] ≠ [] ∧ ∀ s ∈ pick labels (cl.getD g []) "", Label.Piece s.toList) :
    na.reverse.foldlM (splitStep (fun k => (Arr.subLegs (r.legs.getD k default)).length)) r.labels
      = .ok (labels.map mkLabel) := by
  obtain ⟨hrl, hrg⟩ := c.labels_r labels hl h
  have := expand_foldlM (fun k => (Arr.subLegs (r.legs.getD k default)).length)
    (fun k => (pick labels (cl.getD (na.idxOf k) []) "").map mkLabel) na r.labels [] c.std.1
    (by rw [hrl]; exact c.std.2.1) (by
      intro k hk
      have hc : na.contains k = true := by simpa using hk
      obtain ⟨hg, hkg⟩ := c.na_idxOf k hc
      have hkn : k < c.n := c.std.2.1 k hk
      rw [hrg k hkn, if_pos hc]
      have hw := c.subLegs_len _ hg
      rw [hkg] at hw
      rw [hw]
      obtain ⟨hne, hp⟩ := hpc _ (by rw [← c.hl1]; exact hg)
      have := splitLabel_combine (pick labels (cl.getD (na.idxOf k) []) "")
        (by intro e; apply hne; have := congrArg List.length e; simpa [pick] using this) hp
      rw [pick_length] at this
      exact this)
  rw [List.append_nil] at this
  rw [this, List.append_nil, hrl]
  congr 1
  have e : (List.range c.n).map (fun k => if na.contains k then (pick labels (cl.getD (na.idxOf k) []) "").map mkLabel
        else [r.labels.getD k none])
      = (List.range c.n).map (fun k => (pick labels (c.partK k) "").map mkLabel) := by
    apply List.map_congr_left
    intro k hk
    have hk' : k < c.n := List.mem_range.1 hk
    by_cases hc : na.contains k = true
    · rw [if_pos hc, c.partK_new k hc]
    · rw [if_neg hc, c.partK_old k hc, hrg k hk', if_neg hc]
      rfl
  rw [e]
  have := c.flatten_partK labels "" hl
  conv_rhs => rw [← this]
  rw [List.map_flatten, List.map_map]
  rfl

/-- the labels `split_legs` assigns -/
theorem split_labels_eq [Zero α] (c : CS a r cl na ps) (hne : cl ≠ []) (a' : Arr α)
    (h : r.splitLegs (some (na.map (fun k => Ax.idx (Int.ofNat k)))) = .ok a') :
    na.reverse.foldlM (splitStep (fun k => (Arr.subLegs (r.legs.getD k default)).length)) r.labels = .ok a'.labels := by
  generalize hxs : na.map (fun k => Ax.idx (Int.ofNat k)) = xs at h
  unfold Arr.splitLegs at h
  simp only [bind, Except.bind, pure, Except.pure, throw, throwThe, MonadExceptOf.throw] at h
  cases hidx : r.getLegIndices xs with
  | error e => simp [hidx] at h
  | ok idx =>
    simp only [hidx] at h
    rw [← hxs] at hidx
    have := getLegIndices_idx r na idx hidx
    subst this
    rw [argsort_of_sorted idx c.std.1] at h
    split at h
    · simp at h
    split at h
    · simp at h
    split at h
    · rename_i hemp
      have : idx = [] := by simpa using hemp
      rw [this] at c
      exact absurd (List.length_eq_zero_iff.1 (c.hl1.symm.trans rfl)) hne
    split at h
    · simp at h
    rename_i v hv
    obtain ⟨ha', _⟩ := isetLegLabels_ok _ a' v h
    subst ha'
    exact hv

end CS

/-- **`split_legs ∘ combine_legs` restores the labels** (standard form): the labels `combine_legs` worked with come
back, the `'?#'` placeholders of anonymous legs as `None`. `hpc`: the groups are non-empty and their labels are
pieces (non-empty, balanced, no top-level '.'; see `C01_labels_split_combine`). -/
theorem split_combine_labels [Zero α] (a r a' : Arr α) (ha : a.WF) (cl : List (List Nat)) (na : List Nat)
    (ps : List ALeg) (labels : List String) (hl1 : na.length = cl.length) (hl2 : ps.length = cl.length)
    (hp : PipesOK2 a cl ps) (hstd : StdForm a.rank cl na) (hne : cl ≠ []) (hl : labels.length = a.rank)
    (hpc : ∀ g, g < cl.length → cl.getD g [] ≠ [] ∧ ∀ s ∈ pick labels (cl.getD g []) "", Label.Piece s.toList)
    (h : a.combineStd cl na ps labels = .ok r)
    (hs : r.splitLegs (some (na.map (fun k => Ax.idx (Int.ofNat k)))) = .ok a') :
    a'.labels = labels.map mkLabel := by
  have c := CS.of_combine a r ha cl na ps labels hl1 hl2 hp hstd h
  have h1 := c.split_labels_loop labels hl h hpc
  have h2 := c.split_labels_eq hne a' hs
  rw [h1] at h2
  exact (Except.ok.inj h2).symm

/-- the labels `combine_legs` works with turn back into the labels of `a` (no label of `a` starts with '?') -/
theorem cLabels_mkLabel (a : Arr α) (hl : a.labels.length = a.rank)
    (hq : ∀ s, some s ∈ a.labels → s.toList.head? ≠ some '?') : (cLabels a).map mkLabel = a.labels := by
  unfold cLabels
  rw [List.map_map, ← hl]
  conv_rhs => rw [← map_getD_range a.labels none]
  apply List.map_congr_left
  intro i hi
  have hi' : i < a.labels.length := List.mem_range.1 hi
  simp only [Function.comp]
  cases hx : a.labels.getD i none with
  | none =>
    simp only [mkLabel]
    have : ("?" ++ toString i).toList.head? = some '?' := by
      simp [String.toList_append]
    rw [if_pos this]
  | some s =>
    simp only [mkLabel]
    have hm : some s ∈ a.labels := by rw [← hx]; exact getD_mem a.labels i none hi'
    rw [if_neg (hq s hm)]

end TenpyModel.C01B2.Comb
