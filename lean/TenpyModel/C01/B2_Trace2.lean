import TenpyModel.C01.B2_Trace1
import TenpyModel.C01.A_Slice4
/-!
C01 part B2 — `trace` of a tensor of rank > 2, step 2: what the model's call returns (`trRes`, `traceAcc`), the
entry-wise meaning of `Dense.trace`, and the index bookkeeping (`Dense.keepAx`, `Dense.fullIdx` of part A's slicing
files: the multi-index of the full tensor built from a multi-index of the remaining axes and the value on the two
traced axes).
-/
namespace TenpyModel.C01B2
open TenpyModel.Core TenpyModel.C01B

variable {α : Type}

/-! ### the remaining axes -/

theorem keep_eq (n ax1 ax2 : Nat) :
    (List.range n).filter (fun k => k ≠ ax1 ∧ k ≠ ax2) = Dense.keepAx n [ax1, ax2] := by
  unfold Dense.keepAx
  apply List.filter_congr
  intro k _
  simp

theorem mem_pair (ax1 ax2 k : Nat) : k ∈ [ax1, ax2] ↔ k = ax1 ∨ k = ax2 := by simp

theorem keep_length (n ax1 ax2 : Nat) (h1 : ax1 < n) (h2 : ax2 < n) (hne : ax1 ≠ ax2) :
    (Dense.keepAx n [ax1, ax2]).length + 2 = n := by
  have hl := List.length_eq_length_filter_add (l := List.range n) (fun k => ![ax1, ax2].contains k)
  have hc : ((List.range n).filter (fun k => !(![ax1, ax2].contains k))).length = 2 := by
    have : (List.range n).filter (fun k => !(![ax1, ax2].contains k)) = (List.range n).filter (fun k => k ∈ [ax1, ax2]) := by
      apply List.filter_congr
      intro k _
      simp
    rw [this]
    have hp : ((List.range n).filter (fun k => k ∈ [ax1, ax2])).Perm [ax1, ax2] := by
      apply (List.perm_ext_iff_of_nodup (List.Nodup.filter _ List.nodup_range) (by simp [hne])).2
      intro k
      simp only [List.mem_filter, List.mem_range, decide_eq_true_eq, mem_pair]
      constructor
      · exact fun h => h.2
      · rintro (rfl | rfl)
        · exact ⟨h1, Or.inl rfl⟩
        · exact ⟨h2, Or.inr rfl⟩
    exact hp.length_eq
  rw [List.length_range] at hl
  unfold Dense.keepAx
  omega

theorem fullIdx_congr_ax (n : Nat) (ax : List Nat) (u u' : Nat → Nat) (idx : List Nat)
    (h : ∀ k ∈ ax, k < n → u k = u' k) : Dense.fullIdx n ax u idx = Dense.fullIdx n ax u' idx := by
  unfold Dense.fullIdx
  apply List.map_congr_left
  intro k hk
  by_cases hm : k ∈ ax
  · rw [if_pos (by simpa using hm), if_pos (by simpa using hm), h k hm (List.mem_range.1 hk)]
  · rw [if_neg (by simpa using hm), if_neg (by simpa using hm)]

/-! ### `Dense.trace`, entry-wise -/

section dense
variable [CommSemiring α]

theorem trace_eq (d : Dense α) (ax1 ax2 : Nat) :
    Dense.trace d ax1 ax2
      = Dense.ofFn ((Dense.keepAx d.rank [ax1, ax2]).map (fun k => d.shape.getD k 0)) (fun idx =>
          Dense.sum ((List.range (min (d.shape.getD ax1 0) (d.shape.getD ax2 0))).map (fun t =>
            d.get 0 (Dense.fullIdx d.rank [ax1, ax2] (fun _ => t) idx)))) := by
  unfold Dense.trace Dense.fullIdx
  simp only [keep_eq]
  congr 1
  funext idx
  congr 2
  funext t
  congr 1
  apply List.map_congr_left
  intro k _
  by_cases hk : k = ax1 ∨ k = ax2
  · rw [if_pos hk, if_pos (by simpa using hk)]
  · rw [if_neg hk, if_neg (by simpa using hk)]

theorem trace_shape (d : Dense α) (ax1 ax2 : Nat) :
    (Dense.trace d ax1 ax2).shape = (Dense.keepAx d.rank [ax1, ax2]).map (fun k => d.shape.getD k 0) := by
  rw [trace_eq]; rfl

theorem trace_good (d : Dense α) (ax1 ax2 : Nat) : Good (Dense.trace d ax1 ax2) := by
  rw [trace_eq]; exact ofFn_good _ _

theorem get_trace (d : Dense α) (ax1 ax2 : Nat) (w : List Nat)
    (hw : InRange w ((Dense.keepAx d.rank [ax1, ax2]).map (fun k => d.shape.getD k 0))) :
    (Dense.trace d ax1 ax2).get 0 w
      = ((List.range (min (d.shape.getD ax1 0) (d.shape.getD ax2 0))).map (fun t =>
            d.get 0 (Dense.fullIdx d.rank [ax1, ax2] (fun _ => t) w))).sum := by
  rw [trace_eq, C01B.get_ofFn 0 _ _ w hw, dsum_eq]

end dense

/-! ### indices of the full tensor -/

/-- `zipWith g` over all legs at a full index = full index of the per-leg values -/
theorem zipWith_fullIdx (a : Arr α) (ax : List Nat) (v : Nat → Nat) (g : Leg → Nat → Nat) (idx : List Nat)
    (hidx : idx.length = (Dense.keepAx a.rank ax).length) :
    List.zipWith g a.lcs (Dense.fullIdx a.rank ax v idx)
      = Dense.fullIdx a.rank ax (fun k => g (a.lc k) (v k))
          (List.zipWith g ((Dense.keepAx a.rank ax).map a.lc) idx) := by
  apply ext_getD _ _ 0
  · rw [List.length_zipWith, Arr.lcs_length, Dense.fullIdx_length, Dense.fullIdx_length, Nat.min_self]
  · intro k hk
    rw [List.length_zipWith, Arr.lcs_length, Dense.fullIdx_length, Nat.min_self] at hk
    rw [getD_zipWith' g _ _ k default 0 0 (by rw [Arr.lcs_length]; exact hk) (by rw [Dense.fullIdx_length]; exact hk),
      Arr.lc_eq a k hk, Dense.fullIdx_getD _ _ _ _ _ hk, Dense.fullIdx_getD _ _ _ _ _ hk]
    by_cases hm : k ∈ ax
    · rw [if_pos (by simpa using hm), if_pos (by simpa using hm)]
    · rw [if_neg (by simpa using hm), if_neg (by simpa using hm)]
      obtain ⟨j1, j2⟩ := Dense.getD_idxOf_mem_sl (Dense.keepAx a.rank ax) k ((Dense.mem_keepAx _ _ _).2 ⟨hk, hm⟩)
      rw [getD_zipWith' g _ _ _ default 0 0 (by simpa using j1) (by rw [hidx]; exact j1),
        getD_map' a.lc _ _ 0 default j1, j2]

theorem qOf_eq_zipWith (ls : List Leg) (idx : List Nat) :
    qOf ls idx = List.zipWith (fun l i => (l.locate i).1) ls idx := by
  unfold qOf; rw [List.map_zipWith]

theorem wOf_eq_zipWith (ls : List Leg) (idx : List Nat) :
    wOf ls idx = List.zipWith (fun l i => (l.locate i).2) ls idx := by
  unfold wOf; rw [List.map_zipWith]

theorem qOf_fullIdx (a : Arr α) (ax : List Nat) (v : Nat → Nat) (idx : List Nat)
    (hidx : idx.length = (Dense.keepAx a.rank ax).length) :
    qOf a.lcs (Dense.fullIdx a.rank ax v idx)
      = Dense.fullIdx a.rank ax (fun k => ((a.lc k).locate (v k)).1) (qOf ((Dense.keepAx a.rank ax).map a.lc) idx) := by
  rw [qOf_eq_zipWith, qOf_eq_zipWith, zipWith_fullIdx a ax v _ idx hidx]

theorem wOf_fullIdx (a : Arr α) (ax : List Nat) (v : Nat → Nat) (idx : List Nat)
    (hidx : idx.length = (Dense.keepAx a.rank ax).length) :
    wOf a.lcs (Dense.fullIdx a.rank ax v idx)
      = Dense.fullIdx a.rank ax (fun k => ((a.lc k).locate (v k)).2) (wOf ((Dense.keepAx a.rank ax).map a.lc) idx) := by
  rw [wOf_eq_zipWith, wOf_eq_zipWith, zipWith_fullIdx a ax v _ idx hidx]

theorem blockShapeOf_pick (a : Arr α) (ax : List Nat) (q : List Nat) (hq : q.length = a.rank) :
    blockShapeOf ((Dense.keepAx a.rank ax).map a.lc) (pick q (Dense.keepAx a.rank ax) 0)
      = (Dense.keepAx a.rank ax).map (fun k => (blockShapeOf a.lcs q).getD k 0) := by
  unfold blockShapeOf pick
  rw [List.zipWith_map_left, List.zipWith_map_right, List.zipWith_self]
  apply List.map_congr_left
  intro k hk
  have hk' := ((Dense.mem_keepAx _ _ _).1 hk).1
  rw [getD_zipWith' _ _ _ k default 0 0 (by rw [Arr.lcs_length]; exact hk') (by rw [hq]; exact hk'),
    Arr.lc_eq a k hk']

/-! ### what `trace` returns for rank ≠ 2 -/

section model
variable [CommSemiring α]

/-- the result record of `trace` for the dictionary `acc` -/
def trRes (a : Arr α) (ax1 ax2 : Nat) (acc : List (List Nat × Blk α)) : Arr α :=
  { mods := a.mods, legs := pick a.legs (Dense.keepAx a.rank [ax1, ax2]) default,
    qtotal := makeValid a.mods a.qtotal, labels := pick a.labels (Dense.keepAx a.rank [ax1, ax2]) none,
    qdata := acc.map (·.1), data := acc.map (·.2), qdataSorted := acc.isEmpty }

/-- the dictionary built by the loop of `trace` -/
def traceAcc (a : Arr α) (ax1 ax2 : Nat) : List (List Nat × Blk α) :=
  (a.qdata.zip a.data).foldl (fun (acc : List (List Nat × Blk α)) rb =>
    if rb.1.getD ax1 0 ≠ rb.1.getD ax2 0 then acc
    else accStep acc (pick rb.1 (Dense.keepAx a.rank [ax1, ax2]) 0, rb.2.trace ax1 ax2)) []

/-- the (new row, partial trace) pairs in the order in which the loop meets them -/
def traceList (a : Arr α) (ax1 ax2 : Nat) : List (List Nat × Blk α) :=
  ((a.qdata.zip a.data).filter (fun rb => rb.1.getD ax1 0 == rb.1.getD ax2 0)).map
    (fun rb => (pick rb.1 (Dense.keepAx a.rank [ax1, ax2]) 0, rb.2.trace ax1 ax2))

theorem foldl_filter_step {β} (p : β → Bool) (f : β → List Nat × Blk α) (L : List β)
    (acc0 : List (List Nat × Blk α)) :
    L.foldl (fun acc rb => if ¬ (p rb = true) then acc else accStep acc (f rb)) acc0
      = ((L.filter p).map f).foldl accStep acc0 := by
  induction L generalizing acc0 with
  | nil => rfl
  | cons x L ih =>
    rw [List.foldl_cons, ih, List.filter_cons]
    by_cases hp : p x = true
    · simp [hp]
    · simp [hp]

theorem traceAcc_eq (a : Arr α) (ax1 ax2 : Nat) :
    traceAcc a ax1 ax2 = (traceList a ax1 ax2).foldl accStep [] := by
  unfold traceAcc traceList
  rw [← foldl_filter_step]
  congr 1
  funext acc rb
  simp only [beq_iff_eq, ne_eq]

omit [CommSemiring α] in
theorem trRes_eq (a : Arr α) (ax1 ax2 : Nat) (acc : List (List Nat × Blk α)) (res : Arr α)
    (hres : res = { mods := a.mods, legs := pick a.legs (Dense.keepAx a.rank [ax1, ax2]) default,
                    qtotal := makeValid a.mods ((some a.qtotal).getD (czero a.mods.length)),
                    labels := (pick a.legs (Dense.keepAx a.rank [ax1, ax2]) default).map (fun _ => none),
                    qdata := [], data := [], qdataSorted := true }) :
    ({ (if acc.isEmpty then res
        else { res with qdata := acc.map (·.1), data := acc.map (·.2), qdataSorted := false }) with
        labels := pick a.labels (Dense.keepAx a.rank [ax1, ax2]) none } : Arr α) = trRes a ax1 ax2 acc := by
  subst hres
  cases acc <;> rfl

theorem trace_unfold (a : Arr α) (l1 l2 : Ax) (v : Val α) (h : a.trace l1 l2 = .ok v) (hr : a.rank ≠ 2) :
    ∃ ax1 ax2, a.getLegIndex l1 = .ok ax1 ∧ a.getLegIndex l2 = .ok ax2 ∧ ax1 ≠ ax2
      ∧ (a.lc ax1).testContractible (a.lc ax2) = true
      ∧ v = .arr (trRes a ax1 ax2 (traceAcc a ax1 ax2)) := by
  unfold Arr.trace at h
  cases h1 : a.getLegIndex l1 with
  | error e => simp [h1, bind, Except.bind] at h
  | ok ax1 =>
    cases h2 : a.getLegIndex l2 with
    | error e => simp [h1, h2, bind, Except.bind] at h
    | ok ax2 =>
      simp only [h1, h2, bind, Except.bind, pure, Except.pure] at h
      split at h
      · simp [throw, throwThe, MonadExceptOf.throw] at h
      · rename_i hne
        split at h
        · simp [throw, throwThe, MonadExceptOf.throw] at h
        · rename_i hc
          rw [keep_eq] at h
          refine ⟨ax1, ax2, rfl, rfl, hne, by simpa using hc, ?_⟩
          cases hz : (Arr.zeros a.mods (pick a.legs (Dense.keepAx a.rank [ax1, ax2]) default) (some a.qtotal) none :
              Except Err (Arr α)) with
          | error e => rw [hz] at h; simp at h
          | ok res =>
            rw [hz] at h
            simp only [Except.ok.injEq] at h
            have hres := zeros_ok _ _ _ _ hz
            rw [← h]
            exact congrArg Val.arr (trRes_eq a ax1 ax2 (traceAcc a ax1 ax2) res hres)

end model
end TenpyModel.C01B2
