import TenpyModel.C01.C_Sort11
import TenpyModel.C01.C_Sort12
/-!
C01 part C — `sort_legcharge`, part 13: the dense form as iterated `np.take` (`sortLegcharge_takeIter`), and for a call
that sorts / bunches exactly one axis `j`: `cp.to_ndarray() = np.take(a.to_ndarray(), perms[j], axis=j)`
(`sortLegcharge_single`) — the reference operation of `C01_toDense_permute`.
-/
namespace TenpyModel.C01C.SortLc
open TenpyModel.Core

variable {α : Type}

theorem ixP_eq_zero (shape : List Nat) (perms : List (List Nat)) (j : Nat)
    (h : ∀ k, k < shape.length → k < j → perms.getD k [] = List.range (shape.getD k 0)) :
    ixP shape perms j = ixP shape perms 0 := by
  apply ext_getD _ _ [] (by rw [ixP_length, ixP_length])
  intro k hk
  rw [ixP_length] at hk
  rw [ixP_getD _ _ _ _ hk, ixP_getD _ _ _ _ hk]
  by_cases hj : k < j
  · rw [if_pos hj, if_neg (Nat.not_lt_zero k)]
    exact h k hk hj
  · rw [if_neg hj, if_neg (Nat.not_lt_zero k)]

theorem ixP_eq_full (shape : List Nat) (perms : List (List Nat)) (hl : perms.length = shape.length) (j : Nat)
    (h : ∀ k, k < shape.length → j < k → perms.getD k [] = List.range (shape.getD k 0)) :
    ixP shape perms (j + 1) = perms := by
  apply ext_getD _ _ [] (by rw [ixP_length, hl])
  intro k hk
  rw [ixP_length] at hk
  rw [ixP_getD _ _ _ _ hk]
  by_cases hj : k < j + 1
  · rw [if_pos hj]
  · rw [if_neg hj]
    exact (h k hk (by omega)).symm

/-- `np.ix_` with the identity on every axis but `j` is `np.take` along `j` -/
theorem ix_single [Zero α] (d : Dense α) (hd : d.vals.length = Dense.prod d.shape) (perms : List (List Nat))
    (hl : perms.length = d.shape.length) (j : Nat) (hj : j < d.shape.length)
    (hother : ∀ k, k < d.shape.length → k ≠ j → perms.getD k [] = List.range (d.shape.getD k 0))
    (hlt : ∀ x ∈ perms.getD j [], x < d.shape.getD j 0) :
    Dense.ix d perms = Dense.takeList d j (perms.getD j []) := by
  have h := ix_step d perms j hj hlt
  rw [ixP_eq_zero d.shape perms j (fun k hk hkj => hother k hk (by omega)), ix_zero d hd,
    ixP_eq_full d.shape perms hl j (fun k hk hkj => hother k hk (by omega))] at h
  exact h.symm

theorem toDense_good [Zero α] (a : Arr α) : a.toDense.vals.length = Dense.prod a.toDense.shape := by
  show ((Dense.allIdx a.shape).map a.entry).length = Dense.prod a.shape
  rw [List.length_map, Dense.allIdx_length]

end TenpyModel.C01C.SortLc

namespace TenpyModel.C01C
open TenpyModel.Core SortLc

variable {α : Type}

/-- `sort_legcharge`: the dense form as iterated `np.take(·, perms[k], axis=k)`, `k = 0, …, rank-1` -/
theorem sortLegcharge_takeIter [Zero α] (a : Arr α) (ha : a.WF) (sort bunch : List Bool) (perms : List (List Nat))
    (cp : Arr α) (h : a.sortLegcharge sort bunch = .ok (perms, cp)) :
    cp.toDense = SortLc.takeIter a.toDense perms a.rank := by
  obtain ⟨_, ⟨hl, hperm, _, _⟩, ⟨_, _, hd⟩, _⟩ := sortLegcharge_spec a ha sort bunch perms cp h
  rw [hd, ix_eq_takeIter a.toDense (toDense_good a) perms (by rw [hl]; exact (Arr.shape_length a).symm)]
  · show takeIter a.toDense perms a.shape.length = _
    rw [Arr.shape_length]
  · intro k hk x hx
    have hk' : k < a.rank := by rw [← Arr.shape_length a]; exact hk
    have := (hperm k hk').mem_iff.1 hx
    exact List.mem_range.1 this

/-- **sorting / bunching exactly one axis `j`** (every other entry of `sort` and `bunch` is `False`):
`cp.to_ndarray() = np.take(a.to_ndarray(), perms[j], axis=j)` with `perms[j]` a permutation of `range(shape[j])` — the
dense operation of `Array.permute(perms[j], j)` (`C01_toDense_permute`) -/
theorem sortLegcharge_single [Zero α] (a : Arr α) (ha : a.WF) (sort bunch : List Bool) (perms : List (List Nat))
    (cp : Arr α) (h : a.sortLegcharge sort bunch = .ok (perms, cp)) (j : Nat) (hj : j < a.rank)
    (hone : ∀ k, k < a.rank → k ≠ j → (sort.getD k false || bunch.getD k false) = false) :
    cp.toDense = Dense.takeList a.toDense j (perms.getD j [])
    ∧ (perms.getD j []).Perm (List.range (a.shape.getD j 0))
    ∧ (∀ k, k < a.rank → k ≠ j → perms.getD k [] = List.range (a.shape.getD k 0)
        ∧ cp.legs.getD k default = a.legs.getD k default) := by
  obtain ⟨_, ⟨hl, hperm, hid, _⟩, ⟨_, _, hd⟩, ⟨_, hleg, _⟩, _⟩ := sortLegcharge_spec a ha sort bunch perms cp h
  refine ⟨?_, hperm j hj, fun k hk hkj => ⟨hid k hk (hone k hk hkj), hleg k hk (hone k hk hkj)⟩⟩
  rw [hd]
  apply ix_single a.toDense (toDense_good a) perms (by rw [hl]; exact (Arr.shape_length a).symm) j
    (by show j < a.shape.length; rw [Arr.shape_length]; exact hj)
  · intro k hk hkj
    have hk' : k < a.rank := by rw [← Arr.shape_length a]; exact hk
    exact hid k hk' (hone k hk' hkj)
  · intro x hx
    exact List.mem_range.1 ((hperm j hj).mem_iff.1 hx)

namespace SortEx
open TenpyModel.C01B2.Comb.Ex

/-- non-vacuity of `sortLegcharge_single`: sort and bunch leg 0 of `t3` only -/
example : (t3.sortLegcharge [true, false, false] [true, false, false]).toOption.map
    (fun pc => (pc.1, decide (pc.2.toDense = Dense.takeList t3.toDense 0 [0, 3, 1, 2]), pc.2.qdata))
    = some ([[0, 3, 1, 2], [0, 1, 2], [0, 1, 2, 3]], true, [[0, 0, 1]]) := by decide
example : Dense.takeList t3.toDense 0 [0, 3, 1, 2] ≠ t3.toDense := by decide
example : ∃ perms cp, t3.sortLegcharge [true, false, false] [true, false, false] = .ok (perms, cp)
    ∧ cp.toDense = Dense.takeList t3.toDense 0 (perms.getD 0 []) := by
  obtain ⟨pc, h⟩ : ∃ pc, t3.sortLegcharge [true, false, false] [true, false, false] = .ok pc := ⟨_, rfl⟩
  obtain ⟨perms, cp⟩ := pc
  exact ⟨perms, cp, h, (sortLegcharge_single t3 (by decide) _ _ perms cp h 0 (by decide) (by decide)).1⟩
/-- non-vacuity of `sortLegcharge_takeIter` (the run of `C_Sort11`) -/
example : (t3.sortLegcharge [true, false, true] [true, false, false]).toOption.map
    (fun pc => decide (pc.2.toDense = takeIter t3.toDense pc.1 3)) = some true := by decide

end SortEx

end TenpyModel.C01C
