import TenpyModel.C01.B2_Comb28
/-!
C01 part B2 — part 29: summary theorems for the public calls. `split_combineLegs`: splitting the pipes made by
`a.combine_legs(…)` gives `np.transpose(a, transp)` (`transp` = the transposition `combine_legs` made; the identity
when the groups are runs of consecutive axes in order) with the legs of `a` permuted accordingly, well-formed;
`split_combineLegs_labels`: and its labels. `combineLegs_default_hyps2`: the side hypotheses hold for the default
call (`new_axes=None`, `pipes=None`).
-/
namespace TenpyModel.C01B2.Comb
open TenpyModel.Core TenpyModel.C01B
open Arr (permuteList)

variable {α : Type} [Zero α]

/-- **C06: combining legs into pipes and splitting them again restores the tensor** (up to the transposition that
`combine_legs` documents): public `combine_legs`, any groups / new axes / pipes over the legs of the groups. -/
theorem split_combineLegs (a r a' : Arr α) (ha : a.WF) (cl : List (List Ax)) (newAxes : Option (List Int))
    (pipes : Option (List (Option ALeg))) (qconj : List (Option Int)) (ps0 : List ALeg) (cli0 : List (List Nat))
    (na0 transp : List Nat) (hps : a.combineMakePipes cl pipes qconj = .ok ps0)
    (hcli : cl.mapM a.getLegIndices = .ok cli0)
    (hnt : Arr.combineNewAxes a.rank cli0 newAxes = .ok (na0, transp))
    (hP : PipesOK2 a cli0 ps0) (hN : na0.Nodup)
    (h : a.combineLegs cl newAxes pipes qconj = .ok r)
    (hs : r.splitLegs (some ((pick na0 (Arr.argsortInt (na0.map Int.ofNat)) 0).map
      (fun k => Ax.idx (Int.ofNat k)))) = .ok a') :
    IsPerm transp a.rank ∧ a'.legs = permuteList a.legs transp default
    ∧ a'.toDense = a.toDense.transpose transp
    ∧ a'.mods = a.mods ∧ a'.qtotal = makeValid a.mods a.qtotal ∧ a'.labels.length = a.rank ∧ a'.WF := by
  have hr := reordered_of a.rank cli0 newAxes na0 _ hnt hN
  have hp : (Arr.argsortInt (na0.map Int.ofNat)).Perm (List.range cli0.length) := by
    rw [← hr.len]; exact argsort_perm na0
  have hclne : cl ≠ [] := (combineLegs_unfold a r cl newAxes pipes qconj h).choose_spec.choose_spec.choose_spec.choose_spec.1
  have hlen0 : cli0.length = cl.length := (mapM_except_ok _ _ _ hcli).1
  by_cases htr : transp = List.range a.rank
  · subst htr
    obtain ⟨h1, h2, _, h4, h5, h6⟩ :=
      split_combineLegs_id a r a' ha cl newAxes pipes qconj ps0 cli0 na0 hps hcli hnt hP hN h hs
    obtain ⟨hcall, hstd, _, hl1, hl2, _⟩ :=
      combineLegs_places_id a r ha cl newAxes pipes qconj ps0 cli0 na0 hps hcli hnt hP.ok hN h
    have hne : pick cli0 (Arr.argsortInt (na0.map Int.ofNat)) [] ≠ [] := by
      intro e
      have h1 := congrArg List.length e
      rw [pick_length, hp.length_eq, List.length_range] at h1
      exact hclne (List.length_eq_zero_iff.1 (by rw [← hlen0]; simpa using h1))
    have hwf := split_combine_WF a r a' ha _ _ _ _ hl1 hl2 (pipesOK2_pick a cli0 ps0 _ hp hP) hstd hne hcall hs
    refine ⟨isPerm_range a.rank, ?_, ?_, h4, h5, h6, hwf⟩
    · rw [h1]
      exact (permuteList_range a.legs default).symm
    · rw [h2]
      exact Arr.toDense_transpose_range a
  · obtain ⟨g1, g2, g3, g4, g5, g6⟩ :=
      split_combineLegs_tr a r a' ha cl newAxes pipes qconj ps0 cli0 na0 transp hps hcli hnt htr hP hN h hs
    obtain ⟨hperm, htWF, _, htl, hcall, hstd, _, hl1, hl2, _⟩ :=
      combineLegs_places_tr a r ha cl newAxes pipes qconj ps0 cli0 na0 transp hps hcli hnt htr hP.ok hN h
    have hcl0 : ∀ x ∈ cli0.flatten, x < a.rank := by
      intro x hx
      obtain ⟨c, hc, hxc⟩ := List.mem_flatten.1 hx
      obtain ⟨axs, _, hax⟩ := (mapM_except_ok _ _ _ hcli).2 c hc
      exact (Arr.getLegIndices_lt a ha.1 axs c hax).2 x hxc
    have hcl1 : ∀ x ∈ (pick cli0 (Arr.argsortInt (na0.map Int.ofNat)) []).flatten, x < a.rank :=
      fun x hx => hcl0 x ((pick_perm cli0 _ [] hp).flatten.mem_iff.1 hx)
    have hne : (pick cli0 (Arr.argsortInt (na0.map Int.ofNat)) []).map
        (fun c => c.map (fun x => (inversePerm transp).getD x 0)) ≠ [] := by
      intro e
      have h1 := congrArg List.length e
      rw [List.length_map, pick_length, hp.length_eq, List.length_range] at h1
      exact hclne (List.length_eq_zero_iff.1 (by rw [← hlen0]; simpa using h1))
    have hp2 := pipesOK2_transposed a (cTransposed a transp) _ _ transp hperm hcl1 htl
      (pipesOK2_pick a cli0 ps0 _ hp hP)
    have hwf := split_combine_WF (cTransposed a transp) r a' htWF _ _ _ _ hl1 hl2 hp2 hstd hne hcall hs
    exact ⟨g1, g2, g3, g4, g5, g6, hwf⟩

/-- … and the labels come back (permuted like the legs): no label of `a` starts with '?', groups non-empty with
labels that are pieces (see `C01_labels_split_combine`) -/
theorem split_combineLegs_labels (a r a' : Arr α) (ha : a.WF) (cl : List (List Ax)) (newAxes : Option (List Int))
    (pipes : Option (List (Option ALeg))) (qconj : List (Option Int)) (ps0 : List ALeg) (cli0 : List (List Nat))
    (na0 transp : List Nat) (hps : a.combineMakePipes cl pipes qconj = .ok ps0)
    (hcli : cl.mapM a.getLegIndices = .ok cli0)
    (hnt : Arr.combineNewAxes a.rank cli0 newAxes = .ok (na0, transp))
    (hP : PipesOK2 a cli0 ps0) (hN : na0.Nodup)
    (hq : ∀ s, some s ∈ a.labels → s.toList.head? ≠ some '?')
    (hpc : ∀ c ∈ cli0, c ≠ [] ∧ ∀ s ∈ pick (cLabels a) c "", Label.Piece s.toList)
    (h : a.combineLegs cl newAxes pipes qconj = .ok r)
    (hs : r.splitLegs (some ((pick na0 (Arr.argsortInt (na0.map Int.ofNat)) 0).map
      (fun k => Ax.idx (Int.ofNat k)))) = .ok a') :
    a'.labels = permuteList a.labels transp none := by
  by_cases htr : transp = List.range a.rank
  · subst htr
    rw [split_combineLegs_id_labels a r a' ha cl newAxes pipes qconj ps0 cli0 na0 hps hcli hnt hP hN hq hpc h hs]
    have := permuteList_range a.labels none
    rw [ha.1] at this
    exact this.symm
  · exact split_combineLegs_tr_labels a r a' ha cl newAxes pipes qconj ps0 cli0 na0 transp hps hcli hnt htr hP hN
      hq hpc h hs

/-- the default call `a.combine_legs(groups, qconj=…)` (`new_axes=None`, `pipes=None`, non-empty groups): the side
hypotheses `hP` (in the strong form `PipesOK2`) and `hN` hold -/
theorem combineLegs_default_hyps2 (a r : Arr α) (ha : a.WF) (cl : List (List Ax))
    (qconj : List (Option Int)) (hne : ∀ c ∈ cl, c ≠ []) (h : a.combineLegs cl none none qconj = .ok r) :
    ∃ ps0 cli0 na0 transp, a.combineMakePipes cl none qconj = .ok ps0 ∧ cl.mapM a.getLegIndices = .ok cli0
      ∧ Arr.combineNewAxes a.rank cli0 none = .ok (na0, transp) ∧ PipesOK2 a cli0 ps0 ∧ na0.Nodup
      ∧ ∀ c ∈ cli0, c ≠ [] := by
  obtain ⟨ps0, cli0, na0, transp, _, hps, hcli, hdup, hnt, _⟩ := combineLegs_unfold a r cl none none qconj h
  have hne0 : ∀ c ∈ cli0, c ≠ [] := by
    intro c hc e
    obtain ⟨axs, haxs, hax⟩ := (mapM_except_ok _ _ _ hcli).2 c hc
    have := (Arr.getLegIndices_lt a ha.1 axs c hax).1
    rw [e] at this
    exact hne axs haxs (List.length_eq_zero_iff.1 this.symm)
  exact ⟨ps0, cli0, na0, transp, hps, hcli, hnt, makePipes_none2 a cl qconj ps0 cli0 hps hcli,
    newAxes_none_nodup a.rank cli0 na0 transp hne0 hdup hnt, hne0⟩

end TenpyModel.C01B2.Comb
