import TenpyModel.C01.B_Inner
/-!
C01 part B — `tensordot(a, b, axes=k)` (the form after `_tensordot_transpose_axes`): argument checks, and the
special-case branches (full contraction → `_inner_worker`, an operand without blocks, `k = 0` → `outer`).
-/
namespace TenpyModel.C01B
open TenpyModel.Core

variable {α : Type}

section dot
variable [CommSemiring α]

/-- `_tensordot_transpose_axes(a, b, k)` for an integer `k`: the checks -/
theorem tensordotTranspose_int (cy : Bool) (a b a' b' : Arr α) (k : Nat) (k' : Nat)
    (h : Arr.tensordotTransposeAxes cy a b (.int (k : Int)) = .ok (a', b', k')) :
    a' = a ∧ b' = b ∧ k' = k ∧ a.mods = b.mods ∧ k ≤ a.rank ∧ k ≤ b.rank
    ∧ (List.zipWith Leg.testContractible (a.lcs.drop (a.rank - k)) (b.lcs.take k)).all id = true := by
  unfold Arr.tensordotTransposeAxes at h
  simp only [bind, Except.bind, pure, Except.pure] at h
  split at h
  · simp [throw, throwThe, MonadExceptOf.throw] at h
  · rename_i hm
    have hk : ¬ ((k : Int) < 0) := by omega
    simp only [hk, if_false, Int.toNat_natCast] at h
    split at h
    · simp [throw, throwThe, MonadExceptOf.throw] at h
    · rename_i hle
      split at h
      · simp [throw, throwThe, MonadExceptOf.throw] at h
      · rename_i hc
        simp only [Except.ok.injEq, Prod.mk.injEq] at h
        obtain ⟨rfl, rfl, rfl⟩ := h
        refine ⟨rfl, rfl, rfl, by simpa using hm, by omega, by omega, by simpa using hc⟩

/-- the contracted legs have equal slices, hence equal lengths -/
theorem contracted_slices (a b : Arr α) (k : Nat) (hka : k ≤ a.rank) (hkb : k ≤ b.rank)
    (hc : (List.zipWith Leg.testContractible (a.lcs.drop (a.rank - k)) (b.lcs.take k)).all id = true) :
    (a.lcs.drop (a.rank - k)).map Leg.slices = (b.lcs.take k).map Leg.slices :=
  slices_of_all _ slices_of_testContractible _ _
    (by rw [List.length_drop, List.length_take, lcs_length, lcs_length]; omega) hc

theorem tensordot_hc (a b : Arr α) (k : Nat) (hka : k ≤ a.rank) (hkb : k ≤ b.rank)
    (hc : (List.zipWith Leg.testContractible (a.lcs.drop (a.rank - k)) (b.lcs.take k)).all id = true) :
    b.toDense.shape.take k = a.toDense.shape.drop (a.toDense.rank - k) := by
  have h5 := (congr_slices _ _ (contracted_slices a b k hka hkb hc)).2.2.2.2
  have hr : a.toDense.rank = a.rank := by simp [Dense.rank, toDense_shape, Arr.shape, lcs_length]
  rw [toDense_shape, toDense_shape, hr, Arr.shape, Arr.shape, ← List.map_take, ← List.map_drop, h5]

/-- `np.tensordot(x, y, k)` when one factor vanishes identically -/
theorem tensordot_zero (x y : Dense α) (k : Nat) (hc : y.shape.take k = x.shape.drop (x.rank - k))
    (hz : (∀ idx, x.get 0 idx = 0) ∨ (∀ idx, y.get 0 idx = 0)) (idx : List Nat)
    (hi : InRange idx (Dense.tensordot x y k).shape) : (Dense.tensordot x y k).get 0 idx = 0 := by
  rw [tensordot_shape] at hi
  obtain ⟨u, v, rfl, hu, hv⟩ := InRange_split hi
  rw [get_tensordot x y k hc u v hu hv]
  apply sum_map_zero
  intro c _
  rcases hz with hz | hz
  · rw [hz, zero_mul]
  · rw [hz, mul_zero]

/-- a tensor without stored blocks is the zero tensor -/
theorem toDense_get_noBlocks (a : Arr α) (h : a.qdata = []) (idx : List Nat) : a.toDense.get 0 idx = 0 := by
  by_cases hi : InRange idx a.shape
  · rw [toDense_get a idx hi, Arr.entry_noBlocks a h]
  · exact get_not_inRange 0 _ _ hi

/-- the argument checks of `tensordot(a, b, k)` -/
theorem tensordot_checks (cy : Bool) (a b : Arr α) (k : Nat) (v : Val α)
    (h : Arr.tensordot cy a b (.int (k : Int)) = .ok v) :
    a.mods = b.mods ∧ k ≤ a.rank ∧ k ≤ b.rank
    ∧ (List.zipWith Leg.testContractible (a.lcs.drop (a.rank - k)) (b.lcs.take k)).all id = true := by
  unfold Arr.tensordot at h
  cases ht : Arr.tensordotTransposeAxes cy a b (.int (k : Int)) with
  | error e => rw [ht] at h; simp [bind, Except.bind] at h
  | ok t =>
    obtain ⟨a', b', k'⟩ := t
    obtain ⟨rfl, rfl, rfl, hm, hka, hkb, hc⟩ := tensordotTranspose_int cy a b a' b' k k' ht
    exact ⟨hm, hka, hkb, hc⟩

/-- the branches of `tensordot(a, b, k)` that do not enter `_tensordot_worker` nor the one-block shortcut -/
theorem tensordot_special (cy : Bool) (a b : Arr α) (ha : W a) (hb : W b) (k : Nat) (v : Val α)
    (h : Arr.tensordot cy a b (.int (k : Int)) = .ok v)
    (hch : k = a.rank ∧ k = b.rank →
      makeValid a.mods (cadd b.qtotal a.qtotal) ≠ czero a.mods.length → ∀ q ∈ a.qdata, q ∉ b.qdata) :
    (k = a.rank ∧ k = b.rank → v = .scalar (Dense.inner a.toDense b.toDense))
    ∧ (¬(k = a.rank ∧ k = b.rank) → (a.storedBlocks = 0 ∨ b.storedBlocks = 0) →
        ∃ r, v = .arr r ∧ r.toDense = Dense.tensordot a.toDense b.toDense k
          ∧ r.legs = a.legs.take (a.rank - k) ++ b.legs.drop k
          ∧ r.qtotal = makeValid a.mods (cadd a.qtotal b.qtotal)
          ∧ r.labels = Label.dropDuplicate (a.labels.take (a.rank - k)) (b.labels.drop k))
    ∧ (¬(k = a.rank ∧ k = b.rank) → ¬(a.storedBlocks = 0 ∨ b.storedBlocks = 0) →
        ¬(a.storedBlocks = 1 ∧ b.storedBlocks = 1) → k = 0 →
        ∃ r, v = .arr r ∧ r.toDense = Dense.tensordot a.toDense b.toDense k
          ∧ r.legs = a.legs ++ b.legs
          ∧ r.qtotal = makeValid a.mods (cadd a.qtotal b.qtotal)
          ∧ r.labels = Label.dropDuplicate a.labels b.labels) := by
  unfold Arr.tensordot at h
  cases ht : Arr.tensordotTransposeAxes cy a b (.int (k : Int)) with
  | error e => rw [ht] at h; simp [bind, Except.bind] at h
  | ok t =>
    obtain ⟨a', b', k'⟩ := t
    obtain ⟨rfl, rfl, rfl, hm, hka, hkb, hc⟩ := tensordotTranspose_int cy a b a' b' k k' ht
    rw [ht] at h
    simp only [bind, Except.bind, pure, Except.pure] at h
    refine ⟨?_, ?_, ?_⟩
    · intro hfull
      rw [if_pos hfull] at h
      simp only [Except.ok.injEq] at h
      rw [← h]
      congr 1
      have hss : a'.lcs.map Leg.slices = b'.lcs.map Leg.slices := by
        have := contracted_slices a' b' k' hka hkb hc
        rw [hfull.1] at this
        simp only [Nat.sub_self, List.drop_zero] at this
        rw [this]
        congr 1
        apply List.take_of_length_le
        rw [lcs_length, ← hfull.2, ← hfull.1]
      have := innerWorker_eq id rfl a' b' ha hb hss false (hch hfull)
      simpa using this
    · intro hnf hnb
      rw [if_neg hnf, if_pos (Or.inl hnb)] at h
      cases hz : (Arr.zeros a'.mods (a'.legs.take (a'.rank - k') ++ b'.legs.drop k')
          (some (cadd a'.qtotal b'.qtotal)) none : Except Err (Arr α)) with
      | error e => rw [hz] at h; simp at h
      | ok res =>
        rw [hz] at h
        have hres := zeros_ok _ _ _ _ hz
        have hone : ¬ (a'.storedBlocks = 1 ∧ b'.storedBlocks = 1) := by
          rcases hnb with h0 | h0 <;> omega
        simp only [hone, false_and, if_false, Except.ok.injEq] at h
        refine ⟨_, h.symm, ?_, by rw [hres], by rw [hres]; rfl, rfl⟩
        have hq : ({ res with labels := Label.dropDuplicate (a'.labels.take (a'.rank - k')) (b'.labels.drop k') }
            : Arr α).qdata = [] := by rw [hres]
        have hshape : ({ res with labels := Label.dropDuplicate (a'.labels.take (a'.rank - k')) (b'.labels.drop k') }
            : Arr α).shape = a'.shape.take (a'.rank - k') ++ b'.shape.drop k' := by
          rw [hres]
          simp [Arr.shape, Arr.lcs, List.map_take, List.map_drop]
        apply toDense_eq_of_get _ _ _ (tensordot_good _ _ _)
        · intro idx hidx
          rw [Arr.entry_noBlocks _ hq]
          apply tensordot_zero _ _ _ (tensordot_hc a' b' k' hka hkb hc)
          · rcases hnb with h0 | h0
            · left
              have hd : a'.data = [] := List.length_eq_zero_iff.1 h0
              have : a'.qdata = [] := List.length_eq_zero_iff.1 (by rw [ha.len, hd]; rfl)
              exact toDense_get_noBlocks a' this
            · right
              have hd : b'.data = [] := List.length_eq_zero_iff.1 h0
              have : b'.qdata = [] := List.length_eq_zero_iff.1 (by rw [hb.len, hd]; rfl)
              exact toDense_get_noBlocks b' this
          · rw [tensordot_shape, toDense_shape, toDense_shape]
            have hr : a'.toDense.rank = a'.rank := by simp [Dense.rank, toDense_shape, Arr.shape, lcs_length]
            rw [hr, ← hshape]
            exact hidx
        · rw [tensordot_shape, toDense_shape, toDense_shape, hshape]
          have hr : a'.toDense.rank = a'.rank := by simp [Dense.rank, toDense_shape, Arr.shape, lcs_length]
          rw [hr]
    · intro hnf hnb hno hk0
      rw [if_neg hnf, if_neg (by rintro (h1 | h1); exact hnb h1; exact hno h1), if_pos hk0] at h
      cases ho : a'.outer b' with
      | error e => rw [ho] at h; simp at h
      | ok r =>
        rw [ho] at h
        simp only [Except.ok.injEq] at h
        obtain ⟨h1, _, h3, h4, _⟩ := outer_ok a' b' r ho
        refine ⟨r, h.symm, ?_, h1, h3, h4⟩
        rw [hk0]
        exact outer_toDense a' b' r ha hb ho

end dot
end TenpyModel.C01B
