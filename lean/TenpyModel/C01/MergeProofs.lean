import TenpyModel.Core.ArrWF
import TenpyModel.C01.ArrProofs
/-! The merge of `ibinary_blockwise`: the branch of identical block structure (C01). -/
namespace TenpyModel.Core

theorem getD_zipWith_same {α} [Zero α] (f : α → α → α) (hf : f 0 0 = 0) (xs ys : List α)
    (h : xs.length = ys.length) (i : Nat) :
    (List.zipWith f xs ys).getD i 0 = f (xs.getD i 0) (ys.getD i 0) := by
  simp only [List.getD_eq_getElem?_getD, List.getElem?_zipWith]
  by_cases hi : i < xs.length
  · have hi' : i < ys.length := h ▸ hi
    simp [List.getElem?_eq_getElem, hi, hi']
  · have hi' : ¬ i < ys.length := h ▸ hi
    simp [List.getElem?_eq_none, Nat.le_of_not_lt hi, Nat.le_of_not_lt hi', hf]

namespace Dense
variable {α : Type}

theorem get_zipWith [Zero α] (f : α → α → α) (hf : f 0 0 = 0) (x y : Dense α) (hs : x.shape = y.shape)
    (hl : x.vals.length = y.vals.length) (w : List Nat) :
    (Dense.zipWith f x y).get 0 w = f (x.get 0 w) (y.get 0 w) := by
  unfold Dense.get Dense.zipWith
  simp only [← hs]
  split
  · exact getD_zipWith_same f hf _ _ hl _
  · exact hf.symm

theorem zipWith_ofFn (f : α → α → α) (shape : List Nat) (g h : List Nat → α) :
    Dense.zipWith f (ofFn shape g) (ofFn shape h) = ofFn shape (fun idx => f (g idx) (h idx)) := by
  simp only [Dense.zipWith, ofFn, Dense.mk.injEq, true_and]
  induction allIdx shape with
  | nil => rfl
  | cons i is ih => simp [ih]

end Dense

namespace Arr
variable {α : Type}

theorem zip3_left {κ β γ} (q : List κ) (X : List β) (Y : List γ) (h : X.length = Y.length) :
    q.zip X = (q.zip (X.zip Y)).map (fun t => (t.1, t.2.1)) := by
  induction q generalizing X Y with
  | nil => simp
  | cons r rs ih =>
    cases X with
    | nil => simp
    | cons x xs =>
      cases Y with
      | nil => simp at h
      | cons y ys =>
        simp only [List.length_cons, Nat.add_right_cancel_iff] at h
        simp [ih xs ys h]

theorem zip3_right {κ β γ} (q : List κ) (X : List β) (Y : List γ) (h : X.length = Y.length) :
    q.zip Y = (q.zip (X.zip Y)).map (fun t => (t.1, t.2.2)) := by
  induction q generalizing X Y with
  | nil => simp
  | cons r rs ih =>
    cases X with
    | nil =>
      cases Y with
      | nil => simp
      | cons y ys => simp at h
    | cons x xs =>
      cases Y with
      | nil => simp
      | cons y ys =>
        simp only [List.length_cons, Nat.add_right_cancel_iff] at h
        simp [ih xs ys h]

theorem zip3_both {κ β γ δ} (g : β → γ → δ) (q : List κ) (X : List β) (Y : List γ) :
    q.zip (List.zipWith g X Y) = (q.zip (X.zip Y)).map (fun t => (t.1, g t.2.1 t.2.2)) := by
  induction q generalizing X Y with
  | nil => simp
  | cons r rs ih =>
    cases X with
    | nil => simp
    | cons x xs =>
      cases Y with
      | nil => simp
      | cons y ys => simp [ih xs ys]

theorem mem_zip3 {κ β γ} (q : List κ) (X : List β) (Y : List γ) (t : κ × β × γ) (ht : t ∈ q.zip (X.zip Y)) :
    (t.1, t.2.1) ∈ q.zip X ∧ (t.1, t.2.2) ∈ q.zip Y := by
  induction q generalizing X Y with
  | nil => simp at ht
  | cons r rs ih =>
    cases X with
    | nil => simp at ht
    | cons x xs =>
      cases Y with
      | nil => simp at ht
      | cons y ys =>
        simp only [List.zip_cons_cons, List.mem_cons] at ht ⊢
        rcases ht with rfl | ht
        · exact ⟨Or.inl rfl, Or.inl rfl⟩
        · exact ⟨Or.inr (ih xs ys ht).1, Or.inr (ih xs ys ht).2⟩

/-- two tensors over the same legs with the same stored rows: block-wise `f` is entry-wise `f` -/
theorem entry_sameStructure [Zero α] (f : α → α → α) (hf : f 0 0 = 0) (a b : Arr α) (ha : a.WF) (hb : b.WF)
    (hl : a.legs = b.legs) (hq : a.qdata = b.qdata) (idx : List Nat) :
    ({ a with data := List.zipWith (Dense.zipWith f) a.data b.data } : Arr α).entry idx
      = f (a.entry idx) (b.entry idx) := by
  obtain ⟨_, halen, _, _, _, hablk, _⟩ := ha
  obtain ⟨_, hblen, _, _, _, hbblk, _⟩ := hb
  have hlen : a.data.length = b.data.length := by rw [← halen, ← hblen, hq]
  unfold Arr.entry
  simp only [Arr.lcs, ← hl, ← hq]
  rw [zip3_both, zip3_left a.qdata a.data b.data hlen, zip3_right a.qdata a.data b.data hlen]
  simp only [← List.map_reverse, List.find?_map]
  have hcomp : ∀ (h : List Nat × Blk α × Blk α → List Nat × Blk α) (hh : ∀ t, (h t).1 = t.1) (key : List Nat),
      ((fun rb : List Nat × Blk α => rb.1 == key) ∘ h) = (fun t : List Nat × Blk α × Blk α => t.1 == key) := by
    intro h hh key; funext t; simp [Function.comp, hh]
  rw [hcomp _ (fun _ => rfl), hcomp _ (fun _ => rfl), hcomp _ (fun _ => rfl)]
  cases hfind : (a.qdata.zip (a.data.zip b.data)).reverse.find? _ with
  | none => simp [hf]
  | some t =>
    simp only [Option.map_some]
    have hmem : t ∈ a.qdata.zip (a.data.zip b.data) := by
      have := List.mem_of_find?_eq_some hfind
      exact List.mem_reverse.1 this
    obtain ⟨h1, h2⟩ := mem_zip3 _ _ _ t hmem
    have s1 := hablk _ h1
    have s2 := hbblk _ (hq ▸ h2)
    simp only [Arr.lcs, ← hl] at s1 s2
    exact Dense.get_zipWith f hf t.2.1 t.2.2 (s1.1.trans s2.1.symm)
      (by rw [s1.2, s2.2, s1.1, s2.1]) _

end Arr
end TenpyModel.Core
