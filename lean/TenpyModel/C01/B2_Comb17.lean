import TenpyModel.C01.B2_Comb16
/-!
C01 part B2 — part 17: the blocks produced by `_split_legs_worker` on the result of `combine_legs`:
* forward (`CS.sElem_fwd`): for a source block index `q` whose target block is stored, the combination of `q_map`
  rows of `q` yields the block with row `q` and data `blk[start : start + shp].reshape(…)`;
* backward (`CS.elem_facts`): every produced row is mapped back to the block it was cut from, and determines the
  combination.
-/
namespace TenpyModel.C01B2.Comb
open TenpyModel.Core TenpyModel.C01B

variable {α : Type}

namespace CS
variable {a r : Arr α} {cl : List (List Nat)} {na : List Nat} {ps : List ALeg}

theorem specs_map_getD (c : CS a r cl na ps) (f : AxS → Nat) (k : Nat) (hk : k < c.n) :
    (c.specs.map f).getD k 0 = f (c.specK k) := by
  rw [c.specs_map, getD_map' _ _ k 0 0 (by simpa using hk), getD_range _ _ hk]

theorem specs_length (c : CS a r cl na ps) : c.specs.length = c.n := by
  rw [c.specs_eq]; simp

/-- the row of the pipe of group `g` for a source block index `q` lies in the row range of its block -/
theorem jrange (c : CS a r cl na ps) (q : List Nat) (hq : InRange q (a.lcs.map Leg.blockNumber)) (g : Nat)
    (hg : g < na.length) :
    (sP ps g).mapIncomingQind (pick q (cl.getD g []) 0) < (sP ps g).qMap.length
    ∧ (pipeRow (sP ps g) (pick q (cl.getD g []) 0)).drop 3 = pick q (cl.getD g []) 0
    ∧ (sP ps g).qMapSlices.getD ((pipeRow (sP ps g) (pick q (cl.getD g []) 0)).getD 2 0) 0
        ≤ (sP ps g).mapIncomingQind (pick q (cl.getD g []) 0)
    ∧ (sP ps g).mapIncomingQind (pick q (cl.getD g []) 0)
        < (sP ps g).qMapSlices.getD ((pipeRow (sP ps g) (pick q (cl.getD g []) 0)).getD 2 0 + 1) 0 := by
  obtain ⟨hc, qconj, sort, bunch, hp⟩ := c.pipe_g g hg
  rw [hp]
  obtain ⟨sizes1, L⟩ := Pipe.located (pick a.lcs (cl.getD g []) default) qconj sort bunch
    (pick_shapes a.lcs c.wa.shapes _ hc)
  obtain ⟨_, l2, l3, _⟩ := L.loc _ (pick_inRange_blk a.lcs q hq _ hc)
  have S := Pipe.slicesOK (pick a.lcs (cl.getD g []) default) qconj sort bunch
  obtain ⟨_, r2, r3⟩ := Pipe.SlicesOK.row_range S _ l2
  exact ⟨l2, l3, r2, r3⟩

theorem row_new (c : CS a r cl na ps) (q : List Nat) (g : Nat) (hg : g < na.length) :
    (c.specs.map (AxS.row q)).getD (na.getD g 0) 0 = (pipeRow (sP ps g) (pick q (cl.getD g []) 0)).getD 2 0 := by
  rw [c.specs_map_getD _ _ (c.na_lt g hg), c.specK_new g hg]
  rfl

/-- the combination of `q_map` rows that reproduces the source block index `q` -/
def comboOf (_ : CS a r cl na ps) (q : List Nat) : List Nat :=
  (List.range na.length).map (fun g =>
    (sP ps g).mapIncomingQind (pick q (cl.getD g []) 0)
      - (sP ps g).qMapSlices.getD ((pipeRow (sP ps g) (pick q (cl.getD g []) 0)).getD 2 0) 0)

theorem sSl_row (c : CS a r cl na ps) (q : List Nat) (g : Nat) (hg : g < na.length) :
    sSl na ps (c.specs.map (AxS.row q)) g
      = (sP ps g).qMapSlices.getD ((pipeRow (sP ps g) (pick q (cl.getD g []) 0)).getD 2 0) 0 := by
  unfold sSl
  rw [c.row_new q g hg]

theorem comboOf_mem (c : CS a r cl na ps) (q : List Nat) (hq : InRange q (a.lcs.map Leg.blockNumber)) :
    c.comboOf q ∈ gridC (sCnts na ps (c.specs.map (AxS.row q))) := by
  rw [mem_gridC]
  unfold comboOf sCnts
  apply InRange_map
  intro g hg
  have hg' : g < na.length := List.mem_range.1 hg
  obtain ⟨_, _, j3, j4⟩ := c.jrange q hq g hg'
  rw [c.sSl_row q g hg', c.row_new q g hg']
  omega

theorem sRowG_comboOf (c : CS a r cl na ps) (q : List Nat) (hq : InRange q (a.lcs.map Leg.blockNumber)) (g : Nat)
    (hg : g < na.length) :
    sRowG na ps (c.specs.map (AxS.row q)) (c.comboOf q) g = pipeRow (sP ps g) (pick q (cl.getD g []) 0) := by
  unfold sRowG
  obtain ⟨_, _, j3, _⟩ := c.jrange q hq g hg
  rw [c.sSl_row q g hg]
  have : (c.comboOf q).getD g 0 = (sP ps g).mapIncomingQind (pick q (cl.getD g []) 0)
      - (sP ps g).qMapSlices.getD ((pipeRow (sP ps g) (pick q (cl.getD g []) 0)).getD 2 0) 0 := by
    unfold comboOf
    rw [getD_map' _ _ g 0 0 (by simpa using hg), getD_range _ _ hg]
  rw [this, Nat.sub_add_cancel j3]
  rfl

theorem row_old (c : CS a r cl na ps) (q : List Nat) (k : Nat) (hk : k < c.n) (hc : ¬ na.contains k = true) :
    c.specK k = .old ((cNonComb a.rank cl).getD ((cNonNew c.n na).idxOf k) 0)
    ∧ (c.specs.map (AxS.row q)).getD k 0 = q.getD ((cNonComb a.rank cl).getD ((cNonNew c.n na).idxOf k) 0) 0 := by
  have e : c.specK k = .old ((cNonComb a.rank cl).getD ((cNonNew c.n na).idxOf k) 0) := by
    unfold specK cSpecK
    rw [if_neg hc]
    rfl
  refine ⟨e, ?_⟩
  rw [c.specs_map_getD _ _ hk, e]
  rfl

/-- the new row, start and extent computed by the worker for the combination of `q` -/
theorem sElem_fwd [Zero α] (c : CS a r cl na ps) (q : List Nat) (hq : InRange q (a.lcs.map Leg.blockNumber))
    (blk : Blk α) (hshape : blk.shape = blockShapeOf r.lcs (c.specs.map (AxS.row q))) :
    sElem a.lcs c.n na ps (c.specs.map (AxS.row q), blk) (c.comboOf q)
      = (q, (blk.getBlock (c.specs.map (AxS.start q)) (c.specs.map (AxS.shp a.lcs q))).reshape
              (blockShapeOf a.lcs q)) := by
  have hql : q.length = a.lcs.length := by rw [hq.length_eq, List.length_map]
  have hnew : ∀ k, na.contains k = true →
      sRowG na ps (c.specs.map (AxS.row q)) (c.comboOf q) (na.idxOf k)
        = pipeRow (sP ps (na.idxOf k)) (pick q (cl.getD (na.idxOf k) []) 0)
      ∧ c.specK k = .new (sP ps (na.idxOf k)) (cl.getD (na.idxOf k) []) := by
    intro k hc
    obtain ⟨hg, _⟩ := c.na_idxOf k hc
    refine ⟨c.sRowG_comboOf q hq _ hg, ?_⟩
    unfold specK cSpecK
    rw [if_pos hc]
  have e1 : sNewrow c.n na ps (c.specs.map (AxS.row q)) (c.comboOf q) = q := by
    unfold sNewrow
    have : (List.range c.n).map (sPiece na ps (c.specs.map (AxS.row q)) (c.comboOf q))
        = c.specs.map (fun s => pick q s.part 0) := by
      rw [c.specs_map (fun s => pick q s.part 0)]
      apply List.map_congr_left
      intro k hk
      have hk' : k < c.n := List.mem_range.1 hk
      unfold sPiece
      by_cases hc : na.contains k = true
      · obtain ⟨h1, h2⟩ := hnew k hc
        rw [if_pos hc, h1, h2]
        exact (c.jrange q hq _ (c.na_idxOf k hc).1).2.1
      · obtain ⟨h1, h2⟩ := c.row_old q k hk' hc
        rw [if_neg hc, h1, h2]
        rfl
    rw [this]
    exact flatten_parts c.specs q 0 (by rw [hql, lcs_length]; exact c.parts)
  have e2 : sBeg c.n na ps (c.specs.map (AxS.row q)) (c.comboOf q) = c.specs.map (AxS.start q) := by
    unfold sBeg
    rw [c.specs_map (AxS.start q)]
    apply List.map_congr_left
    intro k hk
    have hk' : k < c.n := List.mem_range.1 hk
    by_cases hc : na.contains k = true
    · obtain ⟨h1, h2⟩ := hnew k hc
      rw [if_pos hc, h1, h2]
      rfl
    · rw [if_neg hc, (c.row_old q k hk' hc).1]
      rfl
  have e3 : sShp c.n na ps (c.specs.map (AxS.row q)) (c.comboOf q) blk = c.specs.map (AxS.shp a.lcs q) := by
    unfold sShp
    rw [c.specs_map (AxS.shp a.lcs q)]
    apply List.map_congr_left
    intro k hk
    have hk' : k < c.n := List.mem_range.1 hk
    by_cases hc : na.contains k = true
    · obtain ⟨h1, h2⟩ := hnew k hc
      rw [if_pos hc, h1, h2]
      rfl
    · obtain ⟨h1, h2⟩ := c.row_old q k hk' hc
      rw [if_neg hc, h1, hshape]
      have hkl : k < r.lcs.length := by rw [lcs_length, c.rank_r]; exact hk'
      rw [blockShapeOf_getD r.lcs _ k hkl (by rw [List.length_map, c.specs_length, lcs_length, c.rank_r]), h2]
      rw [c.lcs_r, getD_map' _ _ k (AxS.old 0) default (by rw [c.specs_length]; exact hk')]
      have : c.specs.getD k (AxS.old 0) = c.specK k := by
        rw [c.specs_eq, getD_map' _ _ k 0 _ (by simpa using hk'), getD_range _ _ hk']
      rw [this, h1]
      rfl
  unfold sElem
  simp only [e1, e2, e3]

/-- what a block produced by the worker says about the block it was cut from -/
theorem elem_facts (c : CS a r cl na ps) (q' : List Nat) (hq' : q' ∈ r.qdata) (combo : List Nat)
    (hcombo : combo ∈ gridC (sCnts na ps q')) :
    c.specs.map (AxS.row (sNewrow c.n na ps q' combo)) = q'
    ∧ ∀ g, g < na.length →
        (sP ps g).mapIncomingQind (pick (sNewrow c.n na ps q' combo) (cl.getD g []) 0) = combo.getD g 0 + sSl na ps q' g := by
  have hin : InRange combo (sCnts na ps q') := (mem_gridC _ _).1 hcombo
  have hcl : combo.length = na.length := by simpa [sCnts] using hin.length_eq
  have hq'l : q'.length = c.n := by rw [c.wr.rowLen q' hq', c.rank_r]
  -- facts about the chosen row of every pipe
  have hpipe : ∀ g, g < na.length →
      InRange ((sRowG na ps q' combo g).drop 3) (Pipe.gSubq (pick a.lcs (cl.getD g []) default))
      ∧ (sP ps g).mapIncomingQind ((sRowG na ps q' combo g).drop 3) = combo.getD g 0 + sSl na ps q' g
      ∧ (sRowG na ps q' combo g).getD 2 0 = q'.getD (na.getD g 0) 0 := by
    intro g hg
    obtain ⟨hc, qconj, sort, bunch, hp⟩ := c.pipe_g g hg
    have S := Pipe.slicesOK (pick a.lcs (cl.getD g []) default) qconj sort bunch
    rw [← hp] at S
    have hI : q'.getD (na.getD g 0) 0 < (sP ps g).leg.blockNumber := by
      have := c.wr.rowLt q' hq' (na.getD g 0) (by rw [c.rank_r]; exact c.na_lt g hg)
      have e : r.lc (na.getD g 0) = (sP ps g).leg := by
        unfold Arr.lc
        rw [c.legs_new g hg]
        obtain ⟨qc, so, bu, e⟩ := c.pipes g (by rw [← c.hl1]; exact hg)
        rw [← c.pipeOf_new g hg, c.legs_new g hg, e]
        rfl
      rwa [e] at this
    have hcg : combo.getD g 0 < (sP ps g).qMapSlices.getD (q'.getD (na.getD g 0) 0 + 1) 0 - sSl na ps q' g := by
      have := hin.getD_lt g (by rw [hcl]; exact hg)
      unfold sCnts at this
      rwa [getD_map' _ _ g 0 0 (by simpa using hg), getD_range _ _ hg] at this
    have hJ1 : sSl na ps q' g ≤ combo.getD g 0 + sSl na ps q' g := by omega
    have hJ2 : combo.getD g 0 + sSl na ps q' g < (sP ps g).qMapSlices.getD (q'.getD (na.getD g 0) 0 + 1) 0 := by omega
    have hJ3 : combo.getD g 0 + sSl na ps q' g < (sP ps g).qMap.length :=
      Nat.lt_of_lt_of_le hJ2 (Pipe.SlicesOK.mono_last S _ (by omega))
    have hsec := (S.sector _ hI _ hJ1 hJ2).1
    have hinv := qMap_row_inv (pick a.lcs (cl.getD g []) default) qconj sort bunch
      (pick_shapes a.lcs c.wa.shapes _ hc) (combo.getD g 0 + sSl na ps q' g) (by rw [← hp]; exact hJ3)
    rw [← hp] at hinv
    exact ⟨hinv.1, hinv.2, hsec⟩
  -- the pieces of the new row
  have hfl : ((List.range c.n).map (fun k => (c.specK k).part)).flatten = List.range' ([] : List Nat).length a.rank := by
    have := c.parts
    rw [c.specs_map] at this
    rw [this, List.range_eq_range']
    rfl
  have hlen : ∀ k ∈ List.range c.n, (sPiece na ps q' combo k).length = (c.specK k).part.length := by
    intro k _
    unfold sPiece specK cSpecK
    by_cases hc : na.contains k = true
    · rw [if_pos hc, if_pos hc]
      obtain ⟨hg, _⟩ := c.na_idxOf k hc
      have := (hpipe _ hg).1.length_eq
      rw [this]
      simp [Pipe.gSubq, pick, AxS.part]
    · rw [if_neg hc, if_neg hc]
      rfl
  have hpick : ∀ k, k < c.n → pick (sNewrow c.n na ps q' combo) (c.specK k).part 0 = sPiece na ps q' combo k := by
    intro k hk
    have := pick_pieces_aux (fun k => (c.specK k).part) (sPiece na ps q' combo) 0 (List.range c.n) [] a.rank []
      hfl hlen k (List.mem_range.2 hk)
    simpa [sNewrow] using this
  have hpickg : ∀ g, g < na.length → pick (sNewrow c.n na ps q' combo) (cl.getD g []) 0 = (sRowG na ps q' combo g).drop 3 := by
    intro g hg
    have := hpick _ (c.na_lt g hg)
    rw [c.specK_new g hg] at this
    rw [show (AxS.new (sP ps g) (cl.getD g [])).part = cl.getD g [] from rfl] at this
    rw [this]
    unfold sPiece
    rw [if_pos (c.contains_na g hg), c.idxOf_na g hg]
  refine ⟨?_, fun g hg => by rw [hpickg g hg]; exact (hpipe g hg).2.1⟩
  have e : q' = (List.range c.n).map (fun k => q'.getD k 0) := by
    rw [← hq'l]; exact (map_getD_range q' 0).symm
  conv_rhs => rw [e]
  rw [c.specs_map]
  apply List.map_congr_left
  intro k hk
  have hk' : k < c.n := List.mem_range.1 hk
  by_cases hc : na.contains k = true
  · obtain ⟨hg, hkg⟩ := c.na_idxOf k hc
    have hsk : c.specK k = .new (sP ps (na.idxOf k)) (cl.getD (na.idxOf k) []) := by
      unfold specK cSpecK
      rw [if_pos hc]
    rw [hsk]
    show (pipeRow (sP ps (na.idxOf k)) (pick (sNewrow c.n na ps q' combo) (cl.getD (na.idxOf k) []) 0)).getD 2 0 = _
    rw [hpickg _ hg]
    unfold pipeRow
    rw [(hpipe _ hg).2.1]
    have := (hpipe _ hg).2.2
    unfold sRowG at this
    rw [this, hkg]
  · obtain ⟨hsk, _⟩ := c.row_old q' k hk' hc
    have := hpick k hk'
    rw [hsk] at this ⊢
    unfold sPiece at this
    rw [if_neg hc] at this
    show (sNewrow c.n na ps q' combo).getD _ 0 = _
    have h1 : pick (sNewrow c.n na ps q' combo) (AxS.old ((cNonComb a.rank cl).getD ((cNonNew c.n na).idxOf k) 0)).part 0
        = [(sNewrow c.n na ps q' combo).getD ((cNonComb a.rank cl).getD ((cNonNew c.n na).idxOf k) 0) 0] := rfl
    rw [h1] at this
    exact List.head_eq_of_cons_eq this

end CS
end TenpyModel.C01B2.Comb
