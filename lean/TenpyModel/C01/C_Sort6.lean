import TenpyModel.C01.C_Sort5
/-!
C01 part C — `sort_legcharge`, part 6: the result `r` of the `combine_legs` call of `sort_legcharge` is the
standard-form call with groups `[[k] …]`, new axes `axes` and the one-leg pipes (`combine_sel`); its legs axis by
axis (`sel_legs_getD`), and the image of an index tuple (`sel_combIdx_getD`).
-/
namespace TenpyModel.C01C.SortLc
open TenpyModel.Core TenpyModel.C01B TenpyModel.C01B2.Comb

variable {α : Type}

theorem sPipes_length (a : Arr α) (sort bunch : List Bool) :
    (sPipes a sort bunch).length = (sAxes a.rank sort bunch).length := by simp [sPipes]

theorem sPipes_getD (a : Arr α) (sort bunch : List Bool) (g : Nat) (hg : g < (sAxes a.rank sort bunch).length) :
    (sPipes a sort bunch).getD g default = sPipeLeg a sort bunch ((sAxes a.rank sort bunch).getD g 0) := by
  rw [sPipes, getD_map' _ _ g 0 default hg]

theorem pipesOK_sel (a : Arr α) (sort bunch : List Bool) :
    PipesOK a (sGroups (sAxes a.rank sort bunch)) (sPipes a sort bunch) := by
  intro g hg
  rw [sGroups_length] at hg
  have hk : (sAxes a.rank sort bunch).getD g 0 < a.rank := sAxes_lt _ _ _ _ (getD_mem _ g 0 hg)
  refine ⟨(a.lc ((sAxes a.rank sort bunch).getD g 0)).qconj, sort.getD ((sAxes a.rank sort bunch).getD g 0) false,
    bunch.getD ((sAxes a.rank sort bunch).getD g 0) false, [a.legs.getD ((sAxes a.rank sort bunch).getD g 0) default], ?_⟩
  rw [sPipes_getD a sort bunch g hg, sGroups_getD _ g hg]
  have : pick a.lcs [(sAxes a.rank sort bunch).getD g 0] default = [a.lc ((sAxes a.rank sort bunch).getD g 0)] := by
    simp only [pick, List.map_cons, List.map_nil]
    rw [Arr.lc_eq a _ hk]
  rw [this]
  rfl

/-- the `combine_legs` call of `sort_legcharge` is the standard-form call on `a` itself -/
theorem combine_sel [Zero α] (a r : Arr α) (sort bunch : List Bool)
    (h : a.combineLegs (sCl a.rank sort bunch) none (some ((sPipes a sort bunch).map some)) [none] = .ok r) :
    a.combineStd (sGroups (sAxes a.rank sort bunch)) (sAxes a.rank sort bunch) (sPipes a sort bunch) (cLabels a) = .ok r := by
  obtain ⟨ps0, cli0, na0, transp, _, hps, hcli, _, hnt, hcase⟩ := combineLegs_unfold a r _ none _ _ h
  have e1 := makePipes_sel a sort bunch ps0 hps
  have hcli' := getLegIndices_sel a (sAxes a.rank sort bunch) (sAxes_lt _ _ _)
  have e2 : cli0 = sGroups (sAxes a.rank sort bunch) := by
    have : (Except.ok cli0 : Except Err _) = .ok (sGroups (sAxes a.rank sort bunch)) := by
      rw [← hcli, ← hcli']; rfl
    exact Except.ok.inj this
  subst e1 e2
  rw [newAxes_sel a.rank _ (sAxes_asc _ _ _) (sAxes_lt _ _ _)] at hnt
  simp only [Except.ok.injEq, Prod.mk.injEq] at hnt
  obtain ⟨e3, e4⟩ := hnt
  subst e3 e4
  rcases hcase with ⟨_, hstd⟩ | ⟨hne, _⟩
  · rw [argsort_sel _ (sAxes_asc _ _ _)] at hstd
    have p1 := pick_range (sGroups (sAxes a.rank sort bunch)) ([] : List Nat)
    rw [sGroups_length] at p1
    have p2 := pick_range (sPipes a sort bunch) (default : ALeg)
    rw [sPipes_length] at p2
    rw [p1, p2, pick_range] at hstd
    exact hstd
  · exact absurd rfl hne

section facts
variable (a : Arr α) (sort bunch : List Bool)

theorem sel_n : (cNonComb a.rank (sGroups (sAxes a.rank sort bunch))).length + (sGroups (sAxes a.rank sort bunch)).length
    = a.rank := by
  rw [cNonComb_sel, sGroups_length]
  exact nonNew_length_add a.rank _ (sAxes_asc _ _ _) (sAxes_lt _ _ _)

/-- the legs of `r`, axis by axis -/
theorem sel_legs_getD (k : Nat) (hk : k < a.rank) :
    (cLegs a (sGroups (sAxes a.rank sort bunch)) (sAxes a.rank sort bunch) (sPipes a sort bunch)).getD k default
      = if (sAxes a.rank sort bunch).contains k then sPipeLeg a sort bunch k else a.legs.getD k default := by
  have hstd := stdForm_sel a.rank _ (sAxes_asc a.rank sort bunch) (sAxes_lt _ _ _)
  obtain ⟨_, hget⟩ := cLegs_getD a (sGroups (sAxes a.rank sort bunch)) (sAxes a.rank sort bunch) (sPipes a sort bunch)
    (sGroups_length _).symm (by rw [sPipes_length, sGroups_length]) hstd
  rw [hget k (by rw [sel_n]; exact hk), sel_n, cNonComb_sel]
  by_cases hc : (sAxes a.rank sort bunch).contains k = true
  · rw [if_pos hc, if_pos hc]
    have hm : k ∈ sAxes a.rank sort bunch := by simpa using hc
    have hg := List.idxOf_lt_length_of_mem hm
    rw [sPipes_getD a sort bunch _ hg, getD_lt _ _ 0 hg, List.getElem_idxOf hg]
  · rw [if_neg hc, if_neg hc]
    have hm : k ∈ cNonNew a.rank (sAxes a.rank sort bunch) := by
      unfold cNonNew
      exact List.mem_filter.2 ⟨List.mem_range.2 hk, by simpa using hc⟩
    have hg := List.idxOf_lt_length_of_mem hm
    rw [getD_lt _ _ 0 hg, List.getElem_idxOf hg]

/-- the image of an index tuple under the placement map of the call, axis by axis -/
theorem sel_combIdx_getD (idx : List Nat) (k : Nat) (hk : k < a.rank) :
    (combIdx a (sGroups (sAxes a.rank sort bunch)) (sAxes a.rank sort bunch) (sPipes a sort bunch) idx).getD k 0
      = if (sAxes a.rank sort bunch).contains k then
          ((sPipe a sort bunch k).mapIncomingFlat [(idx.getD k 0 : Int)]).getD 0
        else idx.getD k 0 := by
  obtain ⟨_, hget⟩ := combIdx_getD a (sGroups (sAxes a.rank sort bunch)) (sAxes a.rank sort bunch)
    (sPipes a sort bunch) idx
  rw [hget k (by rw [sel_n]; exact hk), sel_n, cNonComb_sel]
  by_cases hc : (sAxes a.rank sort bunch).contains k = true
  · rw [if_pos hc, if_pos hc]
    have hm : k ∈ sAxes a.rank sort bunch := by simpa using hc
    have hg := List.idxOf_lt_length_of_mem hm
    have e1 : sP (sPipes a sort bunch) (List.idxOf k (sAxes a.rank sort bunch)) = sPipe a sort bunch k := by
      unfold sP
      rw [cPs_eq _ ((pipesOK_sel a sort bunch).isPipe (by rw [sPipes_length, sGroups_length])),
        getD_map' _ _ _ default dPipe (by rw [sPipes_length]; exact hg), sPipes_getD a sort bunch _ hg,
        getD_lt _ _ 0 hg, List.getElem_idxOf hg]
      rfl
    rw [e1, sGroups_getD _ _ hg, getD_lt _ _ 0 hg, List.getElem_idxOf hg]
    rfl
  · rw [if_neg hc, if_neg hc]
    have hm : k ∈ cNonNew a.rank (sAxes a.rank sort bunch) := by
      unfold cNonNew
      exact List.mem_filter.2 ⟨List.mem_range.2 hk, by simpa using hc⟩
    have hg := List.idxOf_lt_length_of_mem hm
    rw [getD_lt _ _ 0 hg, List.getElem_idxOf hg]

end facts

end TenpyModel.C01C.SortLc
