import TenpyModel.C01.B2_Comb27
/-!
C01 part B2 — part 28: the tensor returned by `split_legs ∘ combine_legs` is well-formed (`Arr.WF`): every block the
worker produces is the canonical block of its (in-range) row, distinct rows, blocks of the right shape and size.
-/
namespace TenpyModel.C01B2.Comb
open TenpyModel.Core TenpyModel.C01B

variable {α : Type}

namespace CS
variable {a r : Arr α} {cl : List (List Nat)} {na : List Nat} {ps : List ALeg}

/-- the chosen `q_map` row of a pipe axis for a combination of the worker -/
theorem elem_pipe (c : CS a r cl na ps) (q' : List Nat) (hq' : q' ∈ r.qdata) (combo : List Nat)
    (hcombo : combo ∈ gridC (sCnts na ps q')) (g : Nat) (hg : g < na.length) :
    InRange ((sRowG na ps q' combo g).drop 3) (Pipe.gSubq (pick a.lcs (cl.getD g []) default))
    ∧ (sRowG na ps q' combo g).getD 2 0 = q'.getD (na.getD g 0) 0 := by
  have hin : InRange combo (sCnts na ps q') := (mem_gridC _ _).1 hcombo
  have hcl : combo.length = na.length := c.combo_length _ _ hcombo
  obtain ⟨hc, qconj, sort, bunch, hp⟩ := c.pipe_g g hg
  have S := Pipe.slicesOK (pick a.lcs (cl.getD g []) default) qconj sort bunch
  rw [← hp] at S
  have hI : q'.getD (na.getD g 0) 0 < (sP ps g).leg.blockNumber := by
    have := c.wr.rowLt q' hq' (na.getD g 0) (by rw [c.rank_r]; exact c.na_lt g hg)
    rwa [c.lc_new g hg] at this
  have hcg : combo.getD g 0 < (sP ps g).qMapSlices.getD (q'.getD (na.getD g 0) 0 + 1) 0 - sSl na ps q' g := by
    have := hin.getD_lt g (by rw [hcl]; exact hg)
    unfold sCnts at this
    rwa [getD_map' _ _ g 0 0 (by simpa using hg), getD_range _ _ hg] at this
  have hJ1 : sSl na ps q' g ≤ combo.getD g 0 + sSl na ps q' g := by omega
  have hJ2 : combo.getD g 0 + sSl na ps q' g < (sP ps g).qMapSlices.getD (q'.getD (na.getD g 0) 0 + 1) 0 := by omega
  have hJ3 : combo.getD g 0 + sSl na ps q' g < (sP ps g).qMap.length :=
    Nat.lt_of_lt_of_le hJ2 (Pipe.SlicesOK.mono_last S _ (by omega))
  have hsec := (S.sector _ hI _ hJ1 hJ2).1
  have hinv := qMap_row_inv (pick a.lcs (cl.getD g []) default) qconj sort bunch
    (pick_shapes a.lcs c.wa.shapes _ hc) (combo.getD g 0 + sSl na ps q' g) (by rw [← hp]; exact hJ3)
  rw [← hp] at hinv
  exact ⟨hinv.1, hsec⟩

/-- the rows produced by the worker are in range -/
theorem newrow_inRange (c : CS a r cl na ps) (q' : List Nat) (hq' : q' ∈ r.qdata) (combo : List Nat)
    (hcombo : combo ∈ gridC (sCnts na ps q')) :
    InRange (sNewrow c.n na ps q' combo) (a.lcs.map Leg.blockNumber) := by
  have htarget := c.flatten_partK (a.lcs.map Leg.blockNumber) 0 (by rw [List.length_map, lcs_length])
  rw [← htarget]
  unfold sNewrow
  apply InRange_flatten
  intro k hk
  have hk' : k < c.n := List.mem_range.1 hk
  unfold sPiece
  by_cases hc : na.contains k = true
  · obtain ⟨hg, hkg⟩ := c.na_idxOf k hc
    rw [if_pos hc, c.partK_new k hc]
    have := (c.elem_pipe q' hq' combo hcombo _ hg).1
    unfold Pipe.gSubq at this
    rwa [← pick_map Leg.blockNumber a.lcs _ default 0 (c.pipe_g _ hg).1] at this
  · rw [if_neg hc, c.partK_old k hc]
    have hlt := c.wr.rowLt q' hq' k (by rw [c.rank_r]; exact hk')
    have hsk := (c.row_old q' k hk' hc).1
    have hlc : r.lc k = a.lcs.getD ((cNonComb a.rank cl).getD ((cNonNew c.n na).idxOf k) 0) default := by
      have h1 : r.lc k = r.lcs.getD k default := by
        unfold Arr.lc Arr.lcs
        rw [getD_map_leg]
      rw [h1, c.lcs_r, getD_map' _ _ k (AxS.old 0) default (by rw [c.specs_length]; exact hk')]
      have : c.specs.getD k (AxS.old 0) = c.specK k := by
        rw [c.specs_eq, getD_map' _ _ k 0 _ (by simpa using hk'), getD_range _ _ hk']
      rw [this, hsk]
      rfl
    rw [hlc] at hlt
    have hx : (cNonComb a.rank cl).getD ((cNonNew c.n na).idxOf k) 0 < a.lcs.length := by
      have := c.valid _ (c.specK_mem k hk')
      rw [hsk] at this
      exact this
    show InRange [q'.getD k 0] (pick (a.lcs.map Leg.blockNumber) [_] 0)
    simp only [pick, List.map_cons, List.map_nil]
    rw [getD_map' Leg.blockNumber a.lcs _ default 0 hx]
    exact ⟨hlt, trivial⟩

/-- the combination is the combination of the produced row -/
theorem combo_eq (c : CS a r cl na ps) (q' : List Nat) (hq' : q' ∈ r.qdata) (combo : List Nat)
    (hcombo : combo ∈ gridC (sCnts na ps q')) : combo = c.comboOf (sNewrow c.n na ps q' combo) := by
  obtain ⟨f1, g1⟩ := c.elem_facts q' hq' combo hcombo
  apply ext_getD _ _ 0 (by rw [c.combo_length _ _ hcombo]; simp [comboOf])
  intro g hg
  rw [c.combo_length _ _ hcombo] at hg
  have h1 := g1 g hg
  have h2 := c.sSl_row (sNewrow c.n na ps q' combo) g hg
  rw [f1] at h2
  unfold comboOf
  rw [getD_map' _ _ g 0 0 (by simpa using hg), getD_range _ _ hg, h1, ← h2]
  omega

/-- every block of the worker is the canonical block of its row -/
theorem sElem_canon [Zero α] (c : CS a r cl na ps) (rb : List Nat × Blk α) (hrb : rb ∈ r.qdata.zip r.data)
    (combo : List Nat) (hcombo : combo ∈ gridC (sCnts na ps rb.1)) :
    sElem a.lcs c.n na ps rb combo
      = (sNewrow c.n na ps rb.1 combo,
         (rb.2.getBlock (c.specs.map (AxS.start (sNewrow c.n na ps rb.1 combo)))
            (c.specs.map (AxS.shp a.lcs (sNewrow c.n na ps rb.1 combo)))).reshape
           (blockShapeOf a.lcs (sNewrow c.n na ps rb.1 combo))) := by
  have hq' := (List.of_mem_zip hrb).1
  obtain ⟨f1, _⟩ := c.elem_facts rb.1 hq' combo hcombo
  have hin := c.newrow_inRange rb.1 hq' combo hcombo
  have hce := c.combo_eq rb.1 hq' combo hcombo
  have hshape : rb.2.shape = blockShapeOf r.lcs (c.specs.map (AxS.row (sNewrow c.n na ps rb.1 combo))) := by
    rw [f1]; exact c.wr.blkShape _ hrb
  have := c.sElem_fwd (sNewrow c.n na ps rb.1 combo) hin rb.2 hshape
  rw [f1, ← hce] at this
  exact this

/-- the rows of the worker are pairwise distinct -/
theorem newrows_nodup [Zero α] (c : CS a r cl na ps) :
    ((r.qdata.zip r.data).flatMap (fun rb => (gridC (sCnts na ps rb.1)).map
      (sElem a.lcs c.n na ps rb))).map (·.1) |>.Nodup := by
  rw [List.map_flatMap]
  simp only [List.map_map]
  rw [List.nodup_flatMap]
  constructor
  · intro rb hrb
    have hq' := (List.of_mem_zip hrb).1
    apply List.Nodup.map_on _ (Pipe.gridC_nodup _)
    intro c1 hc1 c2 hc2 e
    have e' : sNewrow c.n na ps rb.1 c1 = sNewrow c.n na ps rb.1 c2 := e
    rw [c.combo_eq rb.1 hq' c1 hc1, c.combo_eq rb.1 hq' c2 hc2, e']
  · have hnd : (r.qdata.zip r.data).Nodup := by
      have := c.wr.nodup
      rw [← List.map_fst_zip (l₁ := r.qdata) (l₂ := r.data) (by rw [c.wr.len])] at this
      exact List.Nodup.of_map _ this
    refine hnd.imp_of_mem ?_
    intro rb1 rb2 h1 h2 hne x hx1 hx2
    simp only [Function.comp, List.mem_map] at hx1 hx2
    obtain ⟨c1, hc1, rfl⟩ := hx1
    obtain ⟨c2, hc2, e⟩ := hx2
    have e' : sNewrow c.n na ps rb2.1 c2 = sNewrow c.n na ps rb1.1 c1 := e
    obtain ⟨f1, _⟩ := c.elem_facts rb1.1 (List.of_mem_zip h1).1 c1 hc1
    obtain ⟨f2, _⟩ := c.elem_facts rb2.1 (List.of_mem_zip h2).1 c2 hc2
    have : rb1.1 = rb2.1 := by rw [← f1, ← f2, e']
    exact hne (zip_fst_inj _ _ c.wr.nodup rb1 h1 rb2 h2 this)

/-- a tensor with the legs of `a` whose blocks are those the worker produces is well-formed -/
theorem wf_of_zip [Zero α] (c : CS a r cl na ps) (a' : Arr α) (hlegs : a'.legs = a.legs)
    (hlab : a'.labels.length = a.rank) (hlen : a'.qdata.length = a'.data.length)
    (hzip : a'.qdata.zip a'.data = (r.qdata.zip r.data).flatMap (fun rb => (gridC (sCnts na ps rb.1)).map
      (sElem a.lcs c.n na ps rb)))
    (hsorted : a'.qdataSorted = true → isLexsorted a'.qdata = true) : a'.WF := by
  have hlcs : a'.lcs = a.lcs := by unfold Arr.lcs; rw [hlegs]
  have hrank : a'.rank = a.rank := by unfold Arr.rank; rw [hlegs]
  have hqd : a'.qdata = (a'.qdata.zip a'.data).map (·.1) := (List.map_fst_zip (by rw [hlen])).symm
  refine ⟨by rw [hlab, hrank], hlen, ?_, ?_, ?_, ?_, hsorted⟩
  · rw [hqd, hzip]; exact c.newrows_nodup
  · rw [hlcs]
    intro l hl
    have := c.wa.shapes l hl
    exact ⟨this.len, this.head, this.mono⟩
  · intro row hrow
    rw [hqd, hzip] at hrow
    obtain ⟨e, he, rfl⟩ := List.mem_map.1 hrow
    obtain ⟨rb, hrb, he'⟩ := List.mem_flatMap.1 he
    obtain ⟨combo, hcombo, rfl⟩ := List.mem_map.1 he'
    have hin := c.newrow_inRange rb.1 (List.of_mem_zip hrb).1 combo hcombo
    have hl : (sNewrow c.n na ps rb.1 combo).length = a.rank := by
      rw [hin.length_eq, List.length_map, lcs_length]
    refine ⟨by rw [hrank]; exact hl, ?_⟩
    intro k hk
    rw [hrank] at hk
    have := hin.getD_lt k (by rw [hl]; exact hk)
    rw [getD_map' Leg.blockNumber a.lcs k default 0 (by rw [lcs_length]; exact hk)] at this
    have hlc : a'.lc k = a.lcs.getD k default := by
      unfold Arr.lc
      rw [hlegs]
      unfold Arr.lcs
      rw [getD_map_leg]
    rw [hlc]
    exact this
  · intro e he
    rw [hzip] at he
    obtain ⟨rb, hrb, he'⟩ := List.mem_flatMap.1 he
    obtain ⟨combo, hcombo, rfl⟩ := List.mem_map.1 he'
    rw [c.sElem_canon rb hrb combo hcombo, hlcs]
    refine ⟨rfl, ?_⟩
    have hin := c.newrow_inRange rb.1 (List.of_mem_zip hrb).1 combo hcombo
    show (Dense.gather 0 rb.2 _ _).vals.length = _
    simp only [Dense.gather, List.length_map, Dense.reshape]
    rw [allIdx_length, prod_eq]
    have hS : c.specs.map (AxS.shp a.lcs (sNewrow c.n na ps rb.1 combo)) = c.specs.map (fun s =>
        (pick (blockShapeOf a.lcs (sNewrow c.n na ps rb.1 combo)) s.part 0).prod) :=
      List.map_congr_left (fun s hs' => AxS.shp_eq a.lcs c.wa.shapes _ hin s (c.valid s hs'))
    rw [hS, ← prod_flatten_map c.specs (fun s => pick (blockShapeOf a.lcs (sNewrow c.n na ps rb.1 combo)) s.part 0)]
    have hbl : (blockShapeOf a.lcs (sNewrow c.n na ps rb.1 combo)).length = a.lcs.length := by
      simp [blockShapeOf, hin.length_eq]
    rw [flatten_parts c.specs _ 0 (by rw [hbl, lcs_length]; exact c.parts)]

theorem isLexsorted_single (row : List Nat) : isLexsorted [row] = true := by
  unfold isLexsorted lexsortNat
  rw [lexsort_of_sorted _ (by simp [natRows])]
  simp [natRows]

/-- **the tensor returned by `split_legs` (on the new axes of a combined tensor) is well-formed** -/
theorem split_WF [Zero α] (c : CS a r cl na ps) (hne : cl ≠ []) (a' : Arr α)
    (h : r.splitLegs (some (na.map (fun k => Ax.idx (Int.ofNat k)))) = .ok a') : a'.WF := by
  generalize hxs : na.map (fun k => Ax.idx (Int.ofNat k)) = xs at h
  unfold Arr.splitLegs at h
  simp only [bind, Except.bind, pure, Except.pure, throw, throwThe, MonadExceptOf.throw] at h
  cases hidx : r.getLegIndices xs with
  | error e => simp [hidx] at h
  | ok idx =>
    simp only [hidx] at h
    rw [← hxs] at hidx
    have := getLegIndices_idx r na idx hidx
    subst this
    rw [argsort_of_sorted idx c.std.1] at h
    split at h
    · simp at h
    split at h
    · simp at h
    split at h
    · rename_i hemp
      have : idx = [] := by simpa using hemp
      rw [this] at c
      exact absurd (List.length_eq_zero_iff.1 (c.hl1.symm.trans rfl)) hne
    split at h
    · simp at h
    rename_i v _
    obtain ⟨ha', hvl⟩ := isetLegLabels_ok _ a' v h
    subst ha'
    by_cases h0 : r.storedBlocks = 0
    · simp only [h0, if_true] at hvl ⊢
      have hd : r.data = [] := List.length_eq_zero_iff.1 h0
      have hq : r.qdata = [] := by
        have hl := c.wr.len
        rw [hd] at hl
        exact List.length_eq_zero_iff.1 hl
      apply c.wf_of_zip _ c.splitLegList_eq
      · rw [hvl]
        show (Arr.splitLegList r.legs idx).length = a.rank
        rw [c.splitLegList_eq]; rfl
      · show r.qdata.length = r.data.length
        exact c.wr.len
      · show r.qdata.zip r.data = _
        rw [hq, hd]; rfl
      · intro _
        show isLexsorted r.qdata = true
        rw [hq]; decide
    · simp only [h0, if_false] at hvl ⊢
      split at hvl
      · rename_i h1
        rw [if_pos h1]
        apply c.wf_of_zip _ c.splitLegList_eq
        · rw [hvl]
          show (Arr.splitLegList r.legs idx).length = a.rank
          rw [c.splitLegList_eq]; rfl
        · rfl
        · have := c.oneblock_zip h1.1 h1.2
          rw [← this, c.splitLegList_lcs]
          rfl
        · intro _
          exact isLexsorted_single _
      · rename_i h1
        rw [if_neg h1]
        obtain ⟨wl, _⟩ := c.worker_spec h0
        obtain ⟨_, hzip⟩ := splitWorker_zip r idx ps c.pipeOf_new h0
        rw [c.splitLegList_lcs, c.rank_r] at hzip
        refine c.wf_of_zip _ ?_ ?_ ?_ ?_ ?_
        · exact wl
        · rw [hvl]
          show (r.splitWorker idx).legs.length = a.rank
          rw [wl]; rfl
        · show (r.splitWorker idx).qdata.length = (r.splitWorker idx).data.length
          unfold Arr.splitWorker
          rw [if_neg h0]
          simp
        · exact hzip
        · intro hs
          exfalso
          have : (r.splitWorker idx).qdataSorted = false := by
            unfold Arr.splitWorker
            rw [if_neg h0]
          rw [this] at hs
          exact Bool.false_ne_true hs

end CS

/-- `split_combine`, with well-formedness of the result -/
theorem split_combine_WF [Zero α] (a r a' : Arr α) (ha : a.WF) (cl : List (List Nat)) (na : List Nat) (ps : List ALeg)
    (labels : List String) (hl1 : na.length = cl.length) (hl2 : ps.length = cl.length) (hp : PipesOK2 a cl ps)
    (hstd : StdForm a.rank cl na) (hne : cl ≠ []) (h : a.combineStd cl na ps labels = .ok r)
    (hs : r.splitLegs (some (na.map (fun k => Ax.idx (Int.ofNat k)))) = .ok a') : a'.WF :=
  (CS.of_combine a r ha cl na ps labels hl1 hl2 hp hstd h).split_WF hne a' hs

end TenpyModel.C01B2.Comb
