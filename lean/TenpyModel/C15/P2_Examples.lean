import TenpyModel.C15.P2_QrEig
import Mathlib.LinearAlgebra.Matrix.Notation
/-!
# C15 (part 2) — concrete rational instances used for the non-vacuity examples of `Props2.lean`

Spectrum `(9, 8, 12)`: `9² + 8² + 12² = 17²` and, with `chi_max = 2`, the kept part `9² + 12² = 15²`, so all
norms are rational; the mask `[T, F, T]` is not a prefix/suffix (the spectrum is unsorted).
-/
open Matrix

namespace TenpyModel.C15.Ex2

/-- `chi_max = 2`, everything else off -/
def opts : Options := ⟨some 2, none, none, none, none⟩

def tiny : Rat := 1 / 1000

/-- a rotation: orthogonal 3×3 -/
def U : Matrix (Fin 3) (Fin 3) Rat := !![3/5, -4/5, 0; 4/5, 3/5, 0; 0, 0, 1]

/-- a permutation matrix -/
def V : Matrix (Fin 3) (Fin 3) Rat := !![0, 1, 0; 0, 0, 1; 1, 0, 0]

def s : Fin 3 → Rat := ![9, 8, 12]

/-- `truncate(s / ‖s‖)` of `svd_theta` -/
def svdR : Result := truncate tiny opts ((List.ofFn s).map (· / 17))

def svdKeep : Fin 3 → Bool := fun i => svdR.mask.getD i.val false

/-- the returned `S = S[piv] / new_norm` (`‖s‖ = 17`, `new_norm = 15/17`) -/
def svdS' : Fin (keptIdx svdKeep).length → Rat := fun j => s (keptEmb svdKeep j) / 17 / (15 / 17)

/-! `eigh_rho`: eigenvalues `81, 64, 144` and a slightly negative one (clipped to 0); trace `289`;
square roots of the normalised eigenvalues `9/17, 8/17, 12/17, 0`. -/

def w0 : Fin 4 → Rat := ![81, 64, 144, -1 / 1000000000000000000]

def σ : Fin 4 → Rat := ![9/17, 8/17, 12/17, 0]

/-- orthogonal 4×4 eigenvector matrix -/
def W : Matrix (Fin 4) (Fin 4) Rat := !![3/5, -4/5, 0, 0; 4/5, 3/5, 0, 0; 0, 0, 0, 1; 0, 0, 1, 0]

/-- `truncate(np.sqrt(W))` of `eigh_rho` -/
def eighR : Result := truncate tiny opts (List.ofFn σ)

def eighKeep : Fin 4 → Bool := fun i => eighR.mask.getD i.val false

/-- the returned eigenvalues `W[piv] / new_norm**2 * renormalization` -/
def eighW' : Fin (keptIdx eighKeep).length → Rat :=
  fun j => clipSmall f1em14 (w0 (keptEmb eighKeep j)) / 289 / eighR.norm2 * 289

/-! QR-based decomposition: `A` 4×3 isometry, `B` 3×3 orthogonal, bond matrix `Ξ = U diag(s) V`,
`θ = A Ξ B + E` with a part `E` outside the range of `A` (`‖E‖ = 144`, `17² + 144² = 145²`). -/

def A : Matrix (Fin 4) (Fin 3) Rat := !![1, 0, 0; 0, 1, 0; 0, 0, 1; 0, 0, 0]

def B : Matrix (Fin 3) (Fin 3) Rat := !![0, 0, 1; 1, 0, 0; 0, 1, 0]

def Xi : Matrix (Fin 3) (Fin 3) Rat := U * diagonal s * V

def E : Matrix (Fin 4) (Fin 3) Rat := !![0, 0, 0; 0, 0, 0; 0, 0, 0; 144, 0, 0]

def θ : Matrix (Fin 4) (Fin 3) Rat := A * Xi * B + E

/-- `T_Lc = A_L U[:, mask]` -/
def TL : Matrix (Fin 4) (Fin (keptIdx svdKeep).length) Rat := A * U.submatrix id (keptEmb svdKeep)

/-- `T_Rc = VH[mask, :] B_R` -/
def TR : Matrix (Fin (keptIdx svdKeep).length) (Fin 3) Rat := V.submatrix (keptEmb svdKeep) id * B

/-- `theta_approx = T_Lc.scale_axis(S) T_Rc` -/
def θa : Matrix (Fin 4) (Fin 3) Rat := TL * diagonal svdS' * TR

/-- `theta / N_theta - theta_approx * renormalization / N_theta` with `N_theta = 145`, `renormalization = 15` -/
def M : Matrix (Fin 4) (Fin 3) Rat := (1 / 145 : Rat) • θ - (1 / 145 : Rat) • ((17 * (15 / 17) : Rat) • θa)

/-! eig-based variant: `Ξ Ξᵀ = U diag(81, 64, 144) Uᵀ`, `S = (9, 8, 12)` truncated *unnormalised*
(`renormalize = 15`), `‖U'ᵀ Ξ B‖ = 15`. -/

def L : Fin 3 → Rat := ![81, 64, 144]

def eigU' : Matrix (Fin 3) (Fin (keptIdx (truncMask tiny opts s)).length) Rat :=
  U.submatrix id (keptEmb (truncMask tiny opts s))

/-- `T_Rc = U'ᴴ Ξ B_R / ‖·‖` -/
def eigTR : Matrix (Fin (keptIdx (truncMask tiny opts s)).length) (Fin 3) Rat :=
  (1 / 15 : Rat) • (eigU'ᵀ * (Xi * B))

def eigθa : Matrix (Fin 4) (Fin 3) Rat := A * eigU' * eigTR

def eigM : Matrix (Fin 4) (Fin 3) Rat := (1 / 145 : Rat) • θ - (1 / 145 : Rat) • ((15 : Rat) • eigθa)

end TenpyModel.C15.Ex2
