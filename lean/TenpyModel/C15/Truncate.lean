/-
Executable, exact model of `tenpy/linalg/truncation.py` (import-free, over `Rat`):
`truncate`, `_combine_constraints`, `TruncationError.{from_S, from_norm, __add__}`.

How the float code is made exact
* every float *is* a dyadic rational; the harness sends the spectrum and the thresholds `svd_min`,
  `trunc_cut` as those exact rationals.
* the code works with `logS = log(choose(S <= 0, [S, 1e-100]))`.  `log` is strictly monotone, so
  every test on logs is a test on `key x := if x ≤ 0 then tiny else x` (`tiny` = the replacement
  value, a parameter):
    `argsort(logS)`                      sort ascending by `key`
    `logS[i] - logS[i-1] >= deg_tol`     `r * key s[i-1] ≤ key s[i]`  with  `r = exp(deg_tol)`
    `logS >= log(svd_min)`               `svd_min ≤ key s[i]`   (`svd_min < 0`: `log` gives nan,
                                          every comparison is False; `svd_min = 0`: `-inf`)
  `r` is a parameter of the model (`Options.degR`); the harness picks `deg_tol` so that no ratio of
  two spectrum values lies between `r` and `exp(deg_tol)`.
* `cumsum(S[piv]**2) > trunc_cut*trunc_cut` uses the *raw* values (not `key`), as coded.

Masks are arrays indexed by the cut position `cut ∈ [0, n)`: keep `piv[cut:]`.
-/
namespace TenpyModel.C15

/-- `np.choose(S <= 0., [S, 1.e-100])` -/
def key (tiny x : Rat) : Rat := if x ≤ 0 then tiny else x

def sq (x : Rat) : Rat := x * x

/-- `np.sum(np.square(l))` -/
def sumSq (l : List Rat) : Rat := (l.map sq).sum

/-! ### TruncationError -/

structure TruncErr where
  eps : Rat
  ov  : Rat
deriving Repr, DecidableEq

/-- `TruncationError()` : "no truncation" -/
def TruncErr.zero : TruncErr := ⟨0, 1⟩

/-- `TruncationError.from_S(S_discarded, norm_old)`; `if norm_old:` is Python truthiness
(`None` and `0.0` are false). -/
def TruncErr.fromS (disc : List Rat) (normOld : Option Rat) : TruncErr :=
  let eps := sumSq disc
  let eps := match normOld with
    | some no => if no = 0 then eps else eps / (no * no)
    | none => eps
  ⟨eps, 1 - 2 * eps⟩

/-- `TruncationError.from_norm(norm_new, norm_old)` -/
def TruncErr.fromNorm (normNew : Rat) (normOld : Rat := 1) : TruncErr :=
  let eps := 1 - (normNew * normNew) / (normOld * normOld)
  ⟨eps, 1 - 2 * eps⟩

/-- `TruncationError.__add__` -/
def TruncErr.add (a b : TruncErr) : TruncErr := ⟨a.eps + b.eps, a.ov * b.ov⟩

/-- `ov_err` -/
def TruncErr.ovErr (a : TruncErr) : Rat := 1 - a.ov

/-! ### options -/

structure Options where
  chiMax   : Option Nat
  chiMin   : Option Nat
  /-- `exp(degeneracy_tol)`; `none` when `degeneracy_tol` is `None` or `0` (`if deg_tol:`) -/
  degR     : Option Rat
  svdMin   : Option Rat
  truncCut : Option Rat
deriving Repr

/-- the double written `1.0e-14` in the source: `6338253001141147 / 2^99` -/
def f1em14 : Rat := 6338253001141147 / 633825300114114700748351602688

/-- the double written `1.0e-10` in the source: `7737125245533627 / 2^86` -/
def f1em10 : Rat := 7737125245533627 / 77371252455336267181195264

/-- the defaults of `options.get(..)` in `truncate` (used for keys that are absent) -/
def Options.default : Options :=
  { chiMax := some 100, chiMin := none, degR := none, svdMin := some f1em14, truncCut := some f1em14 }

/-! ### sorting (`piv = np.argsort(logS)`) -/

/-- insertion into a list sorted ascending by `key`; `x` goes in front of the first element whose
key is not smaller (stable when `x` precedes the list in the original order). -/
def insertAsc (tiny : Rat) (x : Rat × Nat) : List (Rat × Nat) → List (Rat × Nat)
  | [] => [x]
  | y :: ys => if key tiny x.1 ≤ key tiny y.1 then x :: y :: ys else y :: insertAsc tiny x ys

def sortAsc (tiny : Rat) : List (Rat × Nat) → List (Rat × Nat)
  | [] => []
  | x :: xs => insertAsc tiny x (sortAsc tiny xs)

/-- `[(S[piv[0]], piv[0]), (S[piv[1]], piv[1]), …]` -/
def sortIdx (tiny : Rat) (S : List Rat) : List (Rat × Nat) := sortAsc tiny S.zipIdx

/-! ### the `good` masks -/

/-- a bool array of length `n` given entry-wise -/
def maskOf (n : Nat) (f : Nat → Bool) : List Bool := (List.range n).map f

/-- `_combine_constraints(good1, good2, warn)`: the Bool is "the warning was issued" -/
def combine (g1 g2 : List Bool) : List Bool × Bool :=
  let r := List.zipWith (fun a b => a && b) g1 g2
  if r.any id then (r, false) else (g1, true)

/-- state threaded through `truncate`: the current `good` and the names warned about -/
abbrev GState := List Bool × List String

def applyC (st : GState) (name : String) (g2 : List Bool) : GState :=
  let r := combine st.1 g2
  (r.1, if r.2 then st.2 ++ [name] else st.2)

/-- `good2 = zeros; good2[-chi_max:] = True`.  Python slice: `-0` is `0` (everything), and a start
before the beginning is clipped to 0. -/
def maskChiMax (n c : Nat) : List Bool :=
  maskOf n (fun i => decide ((if c = 0 then 0 else n - c) ≤ i))

/-- `good2 = ones; good2[-chi_min+1:] = False` (only reached for `chi_min > 1`) -/
def maskChiMin (n m : Nat) : List Bool :=
  maskOf n (fun i => decide (i < n - (m - 1)))

/-- `good2[0] = True; good2[1:] = (logS[1:] - logS[:-1] >= deg_tol)` -/
def maskDeg (tiny r : Rat) (ss : List Rat) : List Bool :=
  maskOf ss.length (fun i =>
    if i = 0 then true else decide (r * key tiny (ss.getD (i - 1) 0) ≤ key tiny (ss.getD i 0)))

/-- `good2 = (logS >= log(svd_min))` -/
def maskSvdMin (tiny m : Rat) (ss : List Rat) : List Bool :=
  maskOf ss.length (fun i => if m < 0 then false else decide (m ≤ key tiny (ss.getD i 0)))

/-- `good2 = cumsum(S[piv]**2) > trunc_cut*trunc_cut` -/
def maskTruncCut (t : Rat) (ss : List Rat) : List Bool :=
  maskOf ss.length (fun i => decide (t * t < sumSq (ss.take (i + 1))))

def stepChiMax (o : Options) (n : Nat) (st : GState) : GState :=
  match o.chiMax with
  | none => st
  | some c => applyC st "chi_max" (maskChiMax n c)

def stepChiMin (o : Options) (n : Nat) (st : GState) : GState :=
  match o.chiMin with
  | none => st
  | some m => if 1 < m then applyC st "chi_min" (maskChiMin n m) else st

def stepDeg (tiny : Rat) (o : Options) (ss : List Rat) (st : GState) : GState :=
  match o.degR with
  | none => st
  | some r => applyC st "degeneracy_tol" (maskDeg tiny r ss)

def stepSvdMin (tiny : Rat) (o : Options) (ss : List Rat) (st : GState) : GState :=
  match o.svdMin with
  | none => st
  | some m => applyC st "svd_min" (maskSvdMin tiny m ss)

def stepTruncCut (o : Options) (ss : List Rat) (st : GState) : GState :=
  match o.truncCut with
  | none => st
  | some t => applyC st "trunc_cut" (maskTruncCut t ss)

/-- the body of `truncate` between `good = ones` and `cut = …`, on the sorted values `ss` -/
def goodMask (tiny : Rat) (o : Options) (ss : List Rat) : GState :=
  let n := ss.length
  let st : GState := (List.replicate n true, [])
  let st := stepChiMax o n st
  let st := stepChiMin o n st
  let st := stepDeg tiny o ss st
  let st := stepSvdMin tiny o ss st
  stepTruncCut o ss st

/-- `cut = np.nonzero(good)[0][0]` -/
def cutOf (tiny : Rat) (o : Options) (ss : List Rat) : Nat := (goodMask tiny o ss).1.findIdx id

/-! ### `truncate` -/

structure Result where
  cut       : Nat
  /-- `mask`, over the original indices -/
  mask      : List Bool
  /-- `S[mask]` (original order) -/
  kept      : List Rat
  /-- `S[logical_not(mask)]` -/
  discarded : List Rat
  /-- `norm_new ** 2` -/
  norm2     : Rat
  err       : TruncErr
  /-- constraints for which "can't satisfy constraint" was warned, in order -/
  dropped   : List String
  /-- `warnings.warn('no Schmidt value above 1.e-10')` -/
  warnSmall : Bool
  /-- `warnings.warn('negative Schmidt values!')` -/
  warnNeg   : Bool
deriving Repr

def truncate (tiny : Rat) (o : Options) (S : List Rat) : Result :=
  let piv := sortIdx tiny S
  let ss := piv.map (·.1)
  let st := goodMask tiny o ss
  let cut := st.1.findIdx id
  let keepIdx := (piv.drop cut).map (·.2)
  let inMask : Nat → Bool := fun i => keepIdx.contains i
  let kept := (S.zipIdx.filter (fun p => inMask p.2)).map (·.1)
  let disc := (S.zipIdx.filter (fun p => !inMask p.2)).map (·.1)
  { cut := cut
    mask := (List.range S.length).map inMask
    kept := kept
    discarded := disc
    norm2 := sumSq kept
    err := TruncErr.fromS disc none
    dropped := st.2
    warnSmall := !(S.any (fun x => decide (f1em10 < x)))
    warnNeg := S.any (fun x => decide (x < -f1em10)) }

/-- `truncate` with its two ways of raising: `ValueError('trunc_cut >=1.')`, and the `IndexError` of
`np.nonzero(good)[0][0]` on an empty spectrum. -/
def truncateChecked (tiny : Rat) (o : Options) (S : List Rat) : Except String Result :=
  match o.truncCut with
  | some t => if 1 ≤ t then .error "ValueError" else
      if S.isEmpty then .error "IndexError" else .ok (truncate tiny o S)
  | none => if S.isEmpty then .error "IndexError" else .ok (truncate tiny o S)

end TenpyModel.C15
