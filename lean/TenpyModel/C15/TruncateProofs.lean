import TenpyModel.C15.Spec
import Mathlib.Algebra.Order.Field.Rat
import Mathlib.Tactic.Linarith
import Mathlib.Tactic.Ring
import Mathlib.Tactic.FieldSimp
import Mathlib.Algebra.BigOperators.Group.List.Basic
/-! Helper lemmas for the `truncate` model: bool arrays represent predicates on cuts, the
`_combine_constraints` step is the priority rule `refine`, sorting, masks, sums of squares. -/
namespace TenpyModel.C15

/-! ### bool arrays as predicates -/

/-- `g` is the bool array (indexed by the cut) of the predicate `A` on `[0, n)` -/
def Rep (n : Nat) (g : List Bool) (A : Nat → Prop) : Prop :=
  g.length = n ∧ ∀ i, g[i]? = some true ↔ A i

theorem Rep.lt {n : Nat} {g : List Bool} {A : Nat → Prop} (h : Rep n g A) {i : Nat} (hi : A i) :
    i < n := by
  have h1 := (h.2 i).2 hi
  have h2 : i < g.length := by
    by_contra hc
    rw [List.getElem?_eq_none (by omega)] at h1
    cases h1
  have := h.1
  omega

theorem maskOf_length (n : Nat) (f : Nat → Bool) : (maskOf n f).length = n := by
  simp [maskOf]

theorem maskOf_getElem? (n : Nat) (f : Nat → Bool) (i : Nat) :
    (maskOf n f)[i]? = if i < n then some (f i) else none := by
  unfold maskOf
  rw [List.getElem?_map]
  by_cases h : i < n
  · simp [h]
  · rw [List.getElem?_eq_none (by simpa using Nat.le_of_not_lt h)]
    simp [h]

theorem zipAnd_getElem? (g1 g2 : List Bool) (i : Nat) :
    (List.zipWith (fun a b => a && b) g1 g2)[i]? = some true ↔
      g1[i]? = some true ∧ g2[i]? = some true := by
  rw [List.getElem?_zipWith]
  cases h1 : g1[i]? with
  | none => simp
  | some a =>
    cases h2 : g2[i]? with
    | none => simp
    | some b => cases a <;> cases b <;> simp

theorem any_id_iff (g : List Bool) : g.any id = true ↔ ∃ i : Nat, g[i]? = some true := by
  rw [List.any_eq_true]
  constructor
  · rintro ⟨x, hx, hid⟩
    obtain ⟨i, hi⟩ := List.mem_iff_getElem?.1 hx
    refine ⟨i, ?_⟩
    rw [hi]
    simpa using hid
  · rintro ⟨i, hi⟩
    exact ⟨true, List.mem_iff_getElem?.2 ⟨i, hi⟩, rfl⟩

theorem refine_sub {A C : Nat → Prop} {i : Nat} (h : refine A C i) : A i := h.1

theorem refine_nonempty {A C : Nat → Prop} (h : ∃ i, A i) : ∃ i, refine A C i := by
  by_cases hc : ∃ j, A j ∧ C j
  · obtain ⟨j, hj⟩ := hc
    exact ⟨j, hj.1, fun _ => hj.2⟩
  · obtain ⟨i, hi⟩ := h
    exact ⟨i, hi, fun h' => absurd h' hc⟩

/-- two constraints that agree on the admissible cuts refine alike -/
theorem refine_congr {A C C' : Nat → Prop} (h : ∀ j, A j → (C j ↔ C' j)) (i : Nat) :
    refine A C i ↔ refine A C' i := by
  unfold refine
  constructor
  · rintro ⟨ha, hc⟩
    refine ⟨ha, fun ⟨j, hj, hcj⟩ => (h i ha).1 (hc ⟨j, hj, (h j hj).2 hcj⟩)⟩
  · rintro ⟨ha, hc⟩
    refine ⟨ha, fun ⟨j, hj, hcj⟩ => (h i ha).2 (hc ⟨j, hj, (h j hj).1 hcj⟩)⟩

/-- a constraint met by every admissible cut changes nothing -/
theorem refine_of_forall {A C : Nat → Prop} (h : ∀ j, A j → C j) (i : Nat) : refine A C i ↔ A i :=
  ⟨fun hr => hr.1, fun ha => ⟨ha, fun _ => h i ha⟩⟩

/-- a constraint met by no admissible cut is ignored -/
theorem refine_of_unsat {A C : Nat → Prop} (h : ∀ j, A j → ¬ C j) (i : Nat) : refine A C i ↔ A i :=
  ⟨fun hr => hr.1, fun ha => ⟨ha, fun ⟨j, hj, hc⟩ => absurd hc (h j hj)⟩⟩

/-- **`_combine_constraints` is the priority rule.** -/
theorem combine_rep {n : Nat} {g : List Bool} {A C : Nat → Prop} {f : Nat → Bool}
    (hg : Rep n g A) (hf : ∀ i, i < n → (f i = true ↔ C i)) :
    Rep n (combine g (maskOf n f)).1 (refine A C) := by
  have hk : ∀ i, (List.zipWith (fun a b => a && b) g (maskOf n f))[i]? = some true ↔ A i ∧ C i := by
    intro i
    rw [zipAnd_getElem?, hg.2 i, maskOf_getElem?]
    constructor
    · rintro ⟨ha, hm⟩
      have hi := hg.lt ha
      rw [if_pos hi] at hm
      exact ⟨ha, (hf i hi).1 (by simpa using hm)⟩
    · rintro ⟨ha, hc⟩
      have hi := hg.lt ha
      rw [if_pos hi]
      exact ⟨ha, by simpa using (hf i hi).2 hc⟩
  unfold combine
  by_cases hany : (List.zipWith (fun a b => a && b) g (maskOf n f)).any id = true
  · rw [if_pos hany]
    have hex : ∃ j, A j ∧ C j := by
      obtain ⟨j, hj⟩ := (any_id_iff _).1 hany
      exact ⟨j, (hk j).1 hj⟩
    refine ⟨by simp [List.length_zipWith, hg.1, maskOf_length], fun i => ?_⟩
    rw [hk i]
    exact ⟨fun ⟨ha, hc⟩ => ⟨ha, fun _ => hc⟩, fun ⟨ha, hc⟩ => ⟨ha, hc hex⟩⟩
  · rw [if_neg hany]
    have hno : ¬ ∃ j, A j ∧ C j := by
      rintro ⟨j, hj⟩
      exact hany ((any_id_iff _).2 ⟨j, (hk j).2 hj⟩)
    refine ⟨hg.1, fun i => ?_⟩
    rw [hg.2 i]
    exact ⟨fun ha => ⟨ha, fun h => absurd h hno⟩, fun h => h.1⟩

theorem applyC_rep {n : Nat} {st : GState} {A C : Nat → Prop} {f : Nat → Bool} (name : String)
    (hg : Rep n st.1 A) (hf : ∀ i, i < n → (f i = true ↔ C i)) :
    Rep n (applyC st name (maskOf n f)).1 (refine A C) := by
  unfold applyC
  exact combine_rep hg hf

theorem Rep.congr {n : Nat} {g : List Bool} {A B : Nat → Prop} (h : Rep n g A) (hab : ∀ i, A i ↔ B i) :
    Rep n g B := ⟨h.1, fun i => (h.2 i).trans (hab i)⟩

theorem rep_init (n : Nat) : Rep n (List.replicate n true) (fun i => i < n) := by
  refine ⟨by simp, fun i => ?_⟩
  rw [List.getElem?_replicate]
  by_cases h : i < n <;> simp [h]

/-! ### the five constraint steps -/

theorem stepChiMax_rep {o : Options} {n : Nat} {st : GState} {A : Nat → Prop} (hg : Rep n st.1 A) :
    Rep n (stepChiMax o n st).1 (refine A (optC o.chiMax (KeepAtMost n))) := by
  unfold stepChiMax
  generalize o.chiMax = x
  cases x with
  | none => exact hg.congr (fun i => (refine_of_forall (fun _ _ => trivial) i).symm)
  | some c =>
    unfold maskChiMax
    have h := applyC_rep (C := fun i => (if c = 0 then 0 else n - c) ≤ i)
      (f := fun i => decide ((if c = 0 then 0 else n - c) ≤ i)) "chi_max" hg
      (fun i _ => by simp only [decide_eq_true_eq])
    refine h.congr (fun i => ?_)
    by_cases hc : c = 0
    · subst hc
      rw [refine_of_forall (fun j _ => by simp) i]
      exact (refine_of_unsat (fun j hj => by
        have := hg.lt hj
        simp only [optC, KeepAtMost]; omega) i).symm
    · exact refine_congr (fun j hj => by
        have := hg.lt hj
        simp only [optC, KeepAtMost, if_neg hc]; omega) i

theorem stepChiMin_rep {o : Options} {n : Nat} {st : GState} {A : Nat → Prop} (hg : Rep n st.1 A) :
    Rep n (stepChiMin o n st).1 (refine A (optC o.chiMin (KeepAtLeast n))) := by
  unfold stepChiMin
  generalize o.chiMin = x
  cases x with
  | none => exact hg.congr (fun i => (refine_of_forall (fun _ _ => trivial) i).symm)
  | some m =>
    by_cases hm : 1 < m
    · simp only [if_pos hm]
      unfold maskChiMin
      have h := applyC_rep (C := fun i => i < n - (m - 1)) (f := fun i => decide (i < n - (m - 1)))
        "chi_min" hg (fun i _ => by simp only [decide_eq_true_eq])
      refine h.congr (fun i => refine_congr (fun j hj => ?_) i)
      have := hg.lt hj
      simp only [optC, KeepAtLeast]; omega
    · simp only [if_neg hm]
      refine hg.congr (fun i => (refine_of_forall (fun j hj => ?_) i).symm)
      have := hg.lt hj
      simp only [optC, KeepAtLeast]; omega

theorem stepDeg_rep {tiny : Rat} {o : Options} {ss : List Rat} {st : GState} {A : Nat → Prop}
    (hg : Rep ss.length st.1 A) :
    Rep ss.length (stepDeg tiny o ss st).1 (refine A (optC o.degR (fun r => NoSplit tiny r ss))) := by
  unfold stepDeg
  generalize o.degR = x
  cases x with
  | none => exact hg.congr (fun i => (refine_of_forall (fun _ _ => trivial) i).symm)
  | some r =>
    unfold maskDeg
    refine applyC_rep (C := optC (some r) (fun r => NoSplit tiny r ss)) "degeneracy_tol" hg (fun i _ => ?_)
    simp only [optC, NoSplit]
    by_cases hi : i = 0
    · simp [hi]
    · simp [hi]

theorem key_pos {tiny : Rat} (h0 : 0 < tiny) (x : Rat) : 0 < key tiny x := by
  unfold key
  split
  · exact h0
  · next h => exact lt_of_not_ge h

/-- in an ascending list, "the value at the cut is ≥ m" is "every kept value is ≥ m" -/
theorem aboveMin_iff {tiny m : Rat} {ss : List Rat} (hs : SortedByKey tiny ss) {i : Nat}
    (hi : i < ss.length) : m ≤ key tiny (ss.getD i 0) ↔ AboveMin tiny m ss i := by
  have hd : ss.drop i = ss[i] :: ss.drop (i + 1) := List.drop_eq_getElem_cons hi
  have hgd : ss.getD i 0 = ss[i] := by simp [List.getD, hi]
  unfold AboveMin
  rw [hgd]
  constructor
  · intro hm x hx
    rw [hd] at hx
    rcases List.mem_cons.1 hx with rfl | hx'
    · exact hm
    · have hp : (ss.drop i).Pairwise (fun a b => key tiny a ≤ key tiny b) :=
        hs.sublist (List.drop_sublist i ss)
      rw [hd, List.pairwise_cons] at hp
      exact le_trans hm (hp.1 x hx')
  · intro h
    exact h _ (by rw [hd]; exact List.mem_cons_self)

theorem stepSvdMin_rep {tiny : Rat} {o : Options} {ss : List Rat} {st : GState} {A : Nat → Prop}
    (h0 : 0 < tiny) (hs : SortedByKey tiny ss) (hg : Rep ss.length st.1 A) :
    Rep ss.length (stepSvdMin tiny o ss st).1
      (refine A (optC o.svdMin (fun m => AboveMin tiny m ss))) := by
  unfold stepSvdMin
  generalize o.svdMin = x
  cases x with
  | none => exact hg.congr (fun i => (refine_of_forall (fun _ _ => trivial) i).symm)
  | some m =>
    unfold maskSvdMin
    by_cases hm : m < 0
    · -- `log` of a negative number is nan: the comparison is False everywhere, the constraint is dropped;
      -- and every value is above a negative minimum
      have h := applyC_rep (C := fun _ => False) "svd_min" hg (f := fun i =>
        if m < 0 then false else decide (m ≤ key tiny (ss.getD i 0))) (fun i _ => by simp [hm])
      refine h.congr (fun i => ?_)
      rw [refine_of_unsat (fun _ _ => id) i]
      refine (refine_of_forall (fun j _ => ?_) i).symm
      simp only [optC, AboveMin]
      intro x _
      exact le_of_lt (lt_trans hm (key_pos h0 x))
    · refine applyC_rep (C := optC (some m) (fun m => AboveMin tiny m ss)) "svd_min" hg (fun i hi => ?_)
      simp only [optC, if_neg hm, decide_eq_true_eq]
      exact aboveMin_iff hs hi

theorem stepTruncCut_rep {o : Options} {ss : List Rat} {st : GState} {A : Nat → Prop}
    (hg : Rep ss.length st.1 A) :
    Rep ss.length (stepTruncCut o ss st).1 (refine A (optC o.truncCut (fun t => BudgetUsed t ss))) := by
  unfold stepTruncCut
  generalize o.truncCut = x
  cases x with
  | none => exact hg.congr (fun i => (refine_of_forall (fun _ _ => trivial) i).symm)
  | some t =>
    unfold maskTruncCut
    refine applyC_rep (C := optC (some t) (fun t => BudgetUsed t ss)) "trunc_cut" hg (fun i _ => ?_)
    simp only [optC, BudgetUsed, decide_eq_true_eq]

/-- **the `good` array computed by `truncate` is exactly the documented admissible set** -/
theorem goodMask_rep {tiny : Rat} (o : Options) {ss : List Rat} (h0 : 0 < tiny)
    (hs : SortedByKey tiny ss) : Rep ss.length (goodMask tiny o ss).1 (adm tiny o ss) := by
  unfold goodMask adm adm4 adm3 adm2 adm1 adm0
  exact stepTruncCut_rep (stepSvdMin_rep h0 hs (stepDeg_rep (stepChiMin_rep (stepChiMax_rep
    (rep_init ss.length)))))

theorem adm_nonempty (tiny : Rat) (o : Options) {ss : List Rat} (hne : ss ≠ []) :
    ∃ i, adm tiny o ss i := by
  unfold adm adm4 adm3 adm2 adm1
  refine refine_nonempty (refine_nonempty (refine_nonempty (refine_nonempty (refine_nonempty ?_))))
  exact ⟨0, List.length_pos_iff.2 hne⟩

/-- first `true` of a bool array that represents `A`: the least element of `A` -/
theorem findIdx_least {n : Nat} {g : List Bool} {A : Nat → Prop} (hg : Rep n g A) (hne : ∃ i, A i) :
    A (g.findIdx id) ∧ ∀ j, A j → g.findIdx id ≤ j := by
  obtain ⟨i0, hi0⟩ := hne
  have hex : ∃ x ∈ g, id x = true :=
    ⟨true, List.mem_iff_getElem?.2 ⟨i0, (hg.2 i0).2 hi0⟩, rfl⟩
  have hlt : g.findIdx id < g.length := List.findIdx_lt_length_of_exists hex
  refine ⟨?_, fun j hj => ?_⟩
  · apply (hg.2 _).1
    rw [List.getElem?_eq_getElem hlt]
    have := List.findIdx_getElem (w := hlt)
    simpa using this
  · by_contra hc
    have hjl : j < g.findIdx id := Nat.lt_of_not_le hc
    have hf := List.not_of_lt_findIdx hjl
    have hjt := (hg.2 j).2 hj
    rw [List.getElem?_eq_getElem (by omega)] at hjt
    simp at hf hjt
    rw [hjt] at hf
    cases hf

/-! ### sorting -/

theorem insertAsc_perm (tiny : Rat) (x : Rat × Nat) (l : List (Rat × Nat)) :
    (insertAsc tiny x l).Perm (x :: l) := by
  induction l with
  | nil => exact List.Perm.refl _
  | cons y ys ih =>
    unfold insertAsc
    split
    · exact List.Perm.refl _
    · exact (List.Perm.cons y ih).trans (List.Perm.swap x y ys)

theorem sortAsc_perm (tiny : Rat) (l : List (Rat × Nat)) : (sortAsc tiny l).Perm l := by
  induction l with
  | nil => exact List.Perm.refl _
  | cons x xs ih => exact (insertAsc_perm tiny x _).trans (List.Perm.cons x ih)

theorem insertAsc_sorted (tiny : Rat) (x : Rat × Nat) (l : List (Rat × Nat))
    (hl : l.Pairwise (fun a b => key tiny a.1 ≤ key tiny b.1)) :
    (insertAsc tiny x l).Pairwise (fun a b => key tiny a.1 ≤ key tiny b.1) := by
  induction l with
  | nil => simp [insertAsc]
  | cons y ys ih =>
    rw [List.pairwise_cons] at hl
    unfold insertAsc
    split
    next hle =>
      refine List.pairwise_cons.2 ⟨?_, List.pairwise_cons.2 hl⟩
      intro z hz
      rcases List.mem_cons.1 hz with rfl | hz'
      · exact hle
      · exact le_trans hle (hl.1 z hz')
    next hnle =>
      refine List.pairwise_cons.2 ⟨?_, ih hl.2⟩
      intro w hw
      rcases List.mem_cons.1 ((insertAsc_perm tiny x ys).mem_iff.1 hw) with rfl | hw'
      · exact le_of_lt (lt_of_not_ge hnle)
      · exact hl.1 w hw'

theorem sortAsc_sorted (tiny : Rat) (l : List (Rat × Nat)) :
    (sortAsc tiny l).Pairwise (fun a b => key tiny a.1 ≤ key tiny b.1) := by
  induction l with
  | nil => simp [sortAsc]
  | cons x xs ih => exact insertAsc_sorted tiny x _ ih

/-- the sorted values `S[piv]` -/
def sortedVals (tiny : Rat) (S : List Rat) : List Rat := (sortIdx tiny S).map (·.1)

theorem sortedVals_sorted (tiny : Rat) (S : List Rat) : SortedByKey tiny (sortedVals tiny S) := by
  unfold SortedByKey sortedVals sortIdx
  rw [List.pairwise_map]
  exact sortAsc_sorted tiny _

theorem sortedVals_perm (tiny : Rat) (S : List Rat) : (sortedVals tiny S).Perm S := by
  unfold sortedVals sortIdx
  have h := (sortAsc_perm tiny S.zipIdx).map (·.1)
  have h2 : List.map (fun x : Rat × Nat => x.1) S.zipIdx = S := List.zipIdx_map_fst 0 S
  rw [h2] at h
  exact h

theorem sortedVals_length (tiny : Rat) (S : List Rat) : (sortedVals tiny S).length = S.length :=
  (sortedVals_perm tiny S).length_eq

theorem sortIdx_nodup (tiny : Rat) (S : List Rat) : ((sortIdx tiny S).map (·.2)).Nodup := by
  unfold sortIdx
  have h := (sortAsc_perm tiny S.zipIdx).map (·.2)
  rw [h.nodup_iff]
  have h2 : List.map (fun x : Rat × Nat => x.2) S.zipIdx = List.range' 0 S.length :=
    List.zipIdx_map_snd 0 S
  rw [h2]
  exact List.nodup_range' 1

/-! ### the mask selects exactly `piv[cut:]` -/

theorem mask_split (E piv : List (Rat × Nat)) (hp : piv.Perm E) (hn : (piv.map (·.2)).Nodup)
    (cut : Nat) :
    let keepIdx := (piv.drop cut).map (·.2)
    (E.filter (fun p => keepIdx.contains p.2)).Perm (piv.drop cut) ∧
    (E.filter (fun p => !keepIdx.contains p.2)).Perm (piv.take cut) := by
  intro keepIdx
  have hsplit : piv = piv.take cut ++ piv.drop cut := (List.take_append_drop cut piv).symm
  have hn' : ((piv.take cut).map (·.2) ++ (piv.drop cut).map (·.2)).Nodup := by
    rw [← List.map_append, ← hsplit]; exact hn
  rw [List.nodup_append] at hn'
  have hin : ∀ p ∈ piv.drop cut, keepIdx.contains p.2 = true := by
    intro p hp'
    simp only [List.contains_iff_mem]
    exact List.mem_map.2 ⟨p, hp', rfl⟩
  have hout : ∀ p ∈ piv.take cut, keepIdx.contains p.2 = false := by
    intro p hp'
    rw [Bool.eq_false_iff]
    intro hc
    simp only [List.contains_iff_mem] at hc
    exact hn'.2.2 p.2 (List.mem_map.2 ⟨p, hp', rfl⟩) p.2 hc rfl
  constructor
  · have h1 := (hp.symm.filter (fun p => keepIdx.contains p.2))
    refine h1.trans ?_
    rw [hsplit, List.filter_append]
    have ha : (piv.take cut).filter (fun p => keepIdx.contains p.2) = [] :=
      List.filter_eq_nil_iff.2 (fun p hp' => by rw [hout p hp']; exact Bool.false_ne_true)
    have hb : (piv.drop cut).filter (fun p => keepIdx.contains p.2) = piv.drop cut :=
      List.filter_eq_self.2 hin
    rw [List.take_append_drop] at *
    rw [ha, hb]
    simp
  · have h1 := (hp.symm.filter (fun p => !keepIdx.contains p.2))
    refine h1.trans ?_
    rw [hsplit, List.filter_append]
    have ha : (piv.take cut).filter (fun p => !keepIdx.contains p.2) = piv.take cut :=
      List.filter_eq_self.2 (fun p hp' => by rw [hout p hp']; rfl)
    have hb : (piv.drop cut).filter (fun p => !keepIdx.contains p.2) = [] :=
      List.filter_eq_nil_iff.2 (fun p hp' => by rw [hin p hp']; exact Bool.false_ne_true)
    rw [List.take_append_drop] at *
    rw [ha, hb]
    simp

/-! ### sums of squares -/

theorem sumSq_nil : sumSq [] = 0 := rfl

theorem sumSq_cons (x : Rat) (l : List Rat) : sumSq (x :: l) = x * x + sumSq l := by
  simp [sumSq, sq]

theorem sumSq_append (l1 l2 : List Rat) : sumSq (l1 ++ l2) = sumSq l1 + sumSq l2 := by
  induction l1 with
  | nil => simp [sumSq_nil]
  | cons x xs ih => rw [List.cons_append, sumSq_cons, sumSq_cons, ih]; ring

theorem sumSq_perm {l1 l2 : List Rat} (h : l1.Perm l2) : sumSq l1 = sumSq l2 := by
  unfold sumSq
  exact (h.map sq).sum_eq

theorem sumSq_nonneg (l : List Rat) : 0 ≤ sumSq l := by
  induction l with
  | nil => simp [sumSq_nil]
  | cons x xs ih => rw [sumSq_cons]; nlinarith [mul_self_nonneg x]

theorem sumSq_filter_add {α : Type} (l : List α) (f : α → Rat) (p : α → Bool) :
    sumSq ((l.filter p).map f) + sumSq ((l.filter (fun x => !p x)).map f) = sumSq (l.map f) := by
  induction l with
  | nil => simp [sumSq_nil]
  | cons x xs ih =>
    cases hp : p x
    · simp only [List.filter_cons, hp, Bool.not_false, if_true, List.map_cons, sumSq_cons]
      simp only [Bool.false_eq_true, if_false]
      linarith
    · simp only [List.filter_cons, hp, Bool.not_true, if_true, List.map_cons, sumSq_cons]
      simp only [Bool.false_eq_true, if_false]
      linarith

/-! ### what `truncate` returns -/

theorem truncate_cut (tiny : Rat) (o : Options) (S : List Rat) :
    (truncate tiny o S).cut = cutOf tiny o (sortedVals tiny S) := rfl

theorem truncate_kept_perm (tiny : Rat) (o : Options) (S : List Rat) :
    (truncate tiny o S).kept.Perm ((sortedVals tiny S).drop (truncate tiny o S).cut) := by
  have h := (mask_split S.zipIdx (sortIdx tiny S) (sortAsc_perm tiny _) (sortIdx_nodup tiny S)
    (truncate tiny o S).cut).1
  have h2 := h.map (·.1)
  have e : ((sortIdx tiny S).drop (truncate tiny o S).cut).map (·.1)
      = (sortedVals tiny S).drop (truncate tiny o S).cut := List.map_drop
  rw [← e]
  exact h2

theorem truncate_disc_perm (tiny : Rat) (o : Options) (S : List Rat) :
    (truncate tiny o S).discarded.Perm ((sortedVals tiny S).take (truncate tiny o S).cut) := by
  have h := (mask_split S.zipIdx (sortIdx tiny S) (sortAsc_perm tiny _) (sortIdx_nodup tiny S)
    (truncate tiny o S).cut).2
  have h2 := h.map (·.1)
  have e : ((sortIdx tiny S).take (truncate tiny o S).cut).map (·.1)
      = (sortedVals tiny S).take (truncate tiny o S).cut := List.map_take
  rw [← e]
  exact h2

theorem truncate_norm2 (tiny : Rat) (o : Options) (S : List Rat) :
    (truncate tiny o S).norm2 = sumSq (truncate tiny o S).kept := rfl

theorem truncate_eps (tiny : Rat) (o : Options) (S : List Rat) :
    (truncate tiny o S).err.eps = sumSq (truncate tiny o S).discarded := rfl

theorem truncate_ov (tiny : Rat) (o : Options) (S : List Rat) :
    (truncate tiny o S).err.ov = 1 - 2 * (truncate tiny o S).err.eps := rfl

theorem truncate_mask_length (tiny : Rat) (o : Options) (S : List Rat) :
    (truncate tiny o S).mask.length = S.length := by
  simp [truncate]

/-- `S[mask]` for a bool array `mask` -/
def select (S : List Rat) (mask : List Bool) : List Rat :=
  ((S.zip mask).filter (·.2)).map (·.1)

theorem select_zipIdx (S : List Rat) (f : Nat → Bool) (k : Nat) :
    select S ((List.range' k S.length).map f) = ((S.zipIdx k).filter (fun p => f p.2)).map (·.1) := by
  induction S generalizing k with
  | nil => simp [select]
  | cons x xs ih =>
    have h := ih (k + 1)
    simp only [select, List.length_cons, List.range'_succ, List.map_cons, List.zip_cons_cons,
      List.zipIdx_cons, List.filter_cons] at h ⊢
    cases hf : f k
    · simpa using h
    · simpa using h

theorem truncate_kept_select (tiny : Rat) (o : Options) (S : List Rat) :
    (truncate tiny o S).kept = select S (truncate tiny o S).mask := by
  have h := select_zipIdx S
    (fun i => (((sortIdx tiny S).drop (truncate tiny o S).cut).map (·.2)).contains i) 0
  rw [← List.range_eq_range'] at h
  exact h.symm

theorem truncate_disc_select (tiny : Rat) (o : Options) (S : List Rat) :
    (truncate tiny o S).discarded = select S ((truncate tiny o S).mask.map (fun b => !b)) := by
  have h := select_zipIdx S
    (fun i => !(((sortIdx tiny S).drop (truncate tiny o S).cut).map (·.2)).contains i) 0
  rw [← List.range_eq_range'] at h
  rw [show (truncate tiny o S).mask.map (fun b => !b) = (List.range S.length).map
    (fun i => !(((sortIdx tiny S).drop (truncate tiny o S).cut).map (·.2)).contains i) from by
      simp [truncate, List.map_map, Function.comp_def]]
  exact h.symm

end TenpyModel.C15
