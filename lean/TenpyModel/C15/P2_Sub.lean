import TenpyModel.C15.PropsMatrix
import Mathlib.Data.List.Sort
import Mathlib.Data.List.FinRange
import Mathlib.Data.List.Nodup
import Mathlib.Data.List.OfFn
/-!
# C15 (part 2) — the compressed factors `U[:, mask]`, `VH[mask, :]`

`U.iproject(piv, axes=1)` keeps the columns whose mask entry is `True`, in increasing order of the
index (`np.nonzero(mask)[0]`).  `keptIdx keep` is that list of indices, `keptEmb keep` the map
"`j`-th kept index" `Fin #kept → Fin k`; the projected factors are
`U.submatrix id (keptEmb keep)` and `V.submatrix (keptEmb keep) id`, matrices of size `m × #kept` and
`#kept × n`.
-/
open Matrix

namespace TenpyModel.C15

/-- `np.nonzero(mask)[0]`: the kept indices in increasing order -/
def keptIdx {k : Nat} (keep : Fin k → Bool) : List (Fin k) := (List.finRange k).filter keep

/-- the `j`-th kept index; `U[:, mask] = U.submatrix id (keptEmb mask)` -/
def keptEmb {k : Nat} (keep : Fin k → Bool) : Fin (keptIdx keep).length → Fin k := (keptIdx keep).get

theorem mem_keptIdx {k : Nat} (keep : Fin k → Bool) (i : Fin k) : i ∈ keptIdx keep ↔ keep i = true := by
  unfold keptIdx
  rw [List.mem_filter]
  exact ⟨fun h => h.2, fun h => ⟨List.mem_finRange i, h⟩⟩

theorem keptIdx_sorted {k : Nat} (keep : Fin k → Bool) : (keptIdx keep).Pairwise (· < ·) :=
  (List.sortedLT_finRange k).pairwise.sublist List.filter_sublist

/-- the kept indices are enumerated in increasing order (the order of `iproject` with a bool mask) -/
theorem keptEmb_strictMono {k : Nat} (keep : Fin k → Bool) : StrictMono (keptEmb keep) :=
  (keptIdx_sorted keep).sortedLT.strictMono_get

theorem keptEmb_injective {k : Nat} (keep : Fin k → Bool) : Function.Injective (keptEmb keep) :=
  (keptEmb_strictMono keep).injective

/-- the enumeration hits exactly the indices with `mask[i] = True` -/
theorem keptEmb_range {k : Nat} (keep : Fin k → Bool) (i : Fin k) :
    keep i = true ↔ ∃ j, keptEmb keep j = i := by
  rw [← mem_keptIdx, List.mem_iff_get]
  rfl

theorem keep_keptEmb {k : Nat} (keep : Fin k → Bool) (j : Fin (keptIdx keep).length) :
    keep (keptEmb keep j) = true :=
  (keptEmb_range keep _).2 ⟨j, rfl⟩

/-- a sum over the compressed index set is the masked sum over all indices -/
theorem sum_enum_eq_sum_mask {c k M : Type*} [Fintype c] [Fintype k] [DecidableEq k] [AddCommMonoid M]
    (keep : k → Bool) (e : c → k) (he : Function.Injective e)
    (hr : ∀ i, keep i = true ↔ ∃ j, e j = i) (g : k → M) :
    ∑ j, g (e j) = ∑ i, if keep i = true then g i else 0 := by
  rw [← Finset.sum_filter, ← Finset.sum_image (s := Finset.univ) (g := e) (f := g) (fun a _ b _ h => he h)]
  apply Finset.sum_congr _ (fun _ _ => rfl)
  ext i
  simp only [Finset.mem_image, Finset.mem_univ, true_and, Finset.mem_filter]
  exact (hr i).symm

theorem sum_keptEmb {k : Nat} {M : Type*} [AddCommMonoid M] (keep : Fin k → Bool) (g : Fin k → M) :
    ∑ j, g (keptEmb keep j) = ∑ i, if keep i = true then g i else 0 :=
  sum_enum_eq_sum_mask keep (keptEmb keep) (keptEmb_injective keep) (keptEmb_range keep) g

/-- **Sub-matrix identity, generic form.**  For any enumeration `e` of the kept indices (injective,
range = the mask), over any semiring: zeroing the discarded diagonal entries is the same as
compressing all three factors to the kept indices. -/
theorem mul_diag_mask_mul {m k n c R : Type*} [Fintype k] [Fintype c] [DecidableEq k] [DecidableEq c]
    [Semiring R] (U : Matrix m k R) (V : Matrix k n R) (s : k → R) (keep : k → Bool) (e : c → k)
    (he : Function.Injective e) (hr : ∀ i, keep i = true ↔ ∃ j, e j = i) :
    U * diagonal (fun i => if keep i = true then s i else 0) * V
      = U.submatrix id e * diagonal (fun j => s (e j)) * V.submatrix e id := by
  ext a b
  rw [Matrix.mul_apply, Matrix.mul_apply]
  simp only [Matrix.mul_diagonal, submatrix_apply, id_eq]
  rw [sum_enum_eq_sum_mask keep e he hr (fun i => U a i * s i * V i b)]
  apply Finset.sum_congr rfl
  intro i _
  by_cases h : keep i = true
  · rw [if_pos h, if_pos h]
  · rw [if_neg h, if_neg h, mul_zero, zero_mul]

/-- the same with the factor taken out of the diagonal: `renorm • (U' diag(S') V')` where
`S' * renorm` are the kept values (`C15_svd_theta_renorm`). -/
theorem mul_diag_mask_mul_smul {m k n c R : Type*} [Fintype k] [Fintype c] [DecidableEq k]
    [DecidableEq c] [CommSemiring R] (U : Matrix m k R) (V : Matrix k n R) (s : k → R) (keep : k → Bool)
    (e : c → k) (he : Function.Injective e) (hr : ∀ i, keep i = true ↔ ∃ j, e j = i)
    (S' : c → R) (ren : R) (hS : ∀ j, S' j * ren = s (e j)) :
    U * diagonal (fun i => if keep i = true then s i else 0) * V
      = ren • (U.submatrix id e * diagonal S' * V.submatrix e id) := by
  rw [mul_diag_mask_mul U V s keep e he hr, ← Matrix.smul_mul, ← Matrix.mul_smul]
  congr 2
  ext i j
  by_cases h : i = j
  · subst h
    simp only [smul_apply, diagonal_apply_eq, smul_eq_mul]
    rw [mul_comm]; exact (hS i).symm
  · simp [diagonal_apply_ne _ h]

/-! ### the compressed spectrum is the model's `kept` list -/

theorem mask_eq_map_finRange {k : Nat} (mask : List Bool) (hl : mask.length = k) :
    mask = (List.finRange k).map (fun i : Fin k => mask.getD i.val false) := by
  apply List.ext_getElem
  · simp [hl]
  · intro i h1 h2
    simp [List.getD, h1]

/-- `S[mask]` of the model is the list of values at the kept indices, in increasing index order -/
theorem select_ofFn {k : Nat} (f : Fin k → Rat) (mask : List Bool) (hl : mask.length = k) :
    select (List.ofFn f) mask = (keptIdx (fun i : Fin k => mask.getD i.val false)).map f := by
  unfold select keptIdx
  conv_lhs => rw [mask_eq_map_finRange mask hl, List.ofFn_eq_map, List.zip_map', List.filter_map,
    List.map_map]
  rfl

theorem ofFn_keptEmb {k : Nat} {α : Type*} (keep : Fin k → Bool) (f : Fin k → α) :
    List.ofFn (fun j => f (keptEmb keep j)) = (keptIdx keep).map f :=
  List.ofFn_getElem_eq_map (keptIdx keep) f

/-! ### `eps`, `norm_new²` as sums over `Fin k` -/

theorem sum_mul_self_eq_sumSq {k : Nat} (f : Fin k → Rat) : (∑ i, f i * f i) = sumSq (List.ofFn f) := by
  rw [← List.sum_ofFn]
  unfold sumSq TenpyModel.C15.sq
  congr 1
  apply List.ext_getElem <;> simp

/-- the reported `eps` is the masked sum of squares over the original indices -/
theorem truncate_eps_fin {k : Nat} (tiny : Rat) (o : Options) (σ : Fin k → Rat) :
    (truncate tiny o (List.ofFn σ)).err.eps
      = ∑ i : Fin k, if (truncate tiny o (List.ofFn σ)).mask.getD i false = true then 0 else σ i * σ i := by
  have hmask : (truncate tiny o (List.ofFn σ)).mask.length = k := by
    rw [truncate_mask_length]; simp
  rw [sum_fin_eq_zipWith σ _ hmask, ← sumSq_select_not (List.ofFn σ) _ (by simp [hmask]),
    truncate_eps, truncate_disc_select]

/-- `norm_new²` is the sum of squares over the kept original indices -/
theorem truncate_norm2_fin {k : Nat} (tiny : Rat) (o : Options) (σ : Fin k → Rat) :
    (truncate tiny o (List.ofFn σ)).norm2
      = ∑ i : Fin k, if (truncate tiny o (List.ofFn σ)).mask.getD i false = true then σ i * σ i else 0 := by
  have h := (C15_error_exact tiny o (List.ofFn σ)).2.2.2.2.1
  rw [truncate_eps_fin, ← sum_mul_self_eq_sumSq] at h
  have hs : (∑ i : Fin k, σ i * σ i)
      = (∑ i : Fin k, if (truncate tiny o (List.ofFn σ)).mask.getD i false = true then 0 else σ i * σ i)
        + ∑ i : Fin k, if (truncate tiny o (List.ofFn σ)).mask.getD i false = true then σ i * σ i else 0 := by
    rw [← Finset.sum_add_distrib]
    apply Finset.sum_congr rfl
    intro i _
    by_cases hk : (truncate tiny o (List.ofFn σ)).mask.getD i false = true
    · rw [if_pos hk, if_pos hk, zero_add]
    · rw [if_neg hk, if_neg hk, add_zero]
  linarith

/-- the model's `kept` list is the spectrum at the kept indices, in increasing index order -/
theorem truncate_kept_keptIdx {k : Nat} (tiny : Rat) (o : Options) (σ : Fin k → Rat) :
    (truncate tiny o (List.ofFn σ)).kept
      = (keptIdx (fun i : Fin k => (truncate tiny o (List.ofFn σ)).mask.getD i.val false)).map σ := by
  rw [truncate_kept_select]
  exact select_ofFn σ _ (by rw [truncate_mask_length]; simp)

theorem keptIdx_length_eq {k : Nat} (tiny : Rat) (o : Options) (σ : Fin k → Rat) :
    (keptIdx (fun i : Fin k => (truncate tiny o (List.ofFn σ)).mask.getD i.val false)).length
      = k - (truncate tiny o (List.ofFn σ)).cut := by
  have h := truncate_kept_length (tiny := tiny) o (List.ofFn σ)
  rw [truncate_kept_keptIdx, List.length_map, List.length_ofFn] at h
  exact h

end TenpyModel.C15
