import TenpyModel.C15.P2_Trace
/-!
# C15 (part 2) — `eigh_rho`: model of the post-processing of the eigenvalues

```
W, V = npc.eigh(rho)              # rho = V diag(W) Vᴴ, Vᴴ V = 1
W[W < 1.e-14] = 0                 # clipSmall
renormalization = np.sum(W)       # T
W = W / renormalization
piv, new_norm, err = truncate(np.sqrt(W), trunc_par)      # σ_i = √(W_i / T)
W = W[piv] / new_norm**2 * renormalization
V.iproject(piv, axes=1)
```
-/
open Matrix

namespace TenpyModel.C15

/-- `W[W < c] = 0` (entry-wise), `c = 1.e-14` in the code -/
def clipSmall (c w : Rat) : Rat := if w < c then 0 else w

theorem clipSmall_nonneg {c : Rat} (hc : 0 ≤ c) (w : Rat) : 0 ≤ clipSmall c w := by
  unfold clipSmall
  split
  · exact le_refl 0
  · next h => exact le_trans hc (not_lt.1 h)

/-- masked sums split the total -/
theorem sum_mask_add_sum_not {k : Nat} (keep : Fin k → Bool) (g : Fin k → Rat) :
    (∑ i, if keep i = true then g i else 0) + (∑ i, if keep i = true then 0 else g i) = ∑ i, g i := by
  rw [← Finset.sum_add_distrib]
  apply Finset.sum_congr rfl
  intro i _
  by_cases h : keep i = true
  · rw [if_pos h, if_pos h, add_zero]
  · rw [if_neg h, if_neg h, zero_add]

/-- `V diag(w) X - V diag(w restricted to the mask) X = V diag(w restricted to the complement) X` -/
theorem VdX_sub_masked {m k n R : Type*} [Fintype k] [DecidableEq k] [Ring R]
    (V : Matrix m k R) (X : Matrix k n R) (w : k → R) (keep : k → Bool) :
    V * diagonal w * X - V * diagonal (fun i => if keep i = true then w i else 0) * X
      = V * diagonal (fun i => if keep i = true then 0 else w i) * X := by
  rw [← Matrix.sub_mul, ← Matrix.mul_sub, diagonal_sub]
  congr 3
  funext i
  by_cases h : keep i = true <;> simp [h]

/-! ### `norm_new > 0` -/

theorem mul_self_le_sumSq {x : Rat} {l : List Rat} (hx : x ∈ l) : x * x ≤ sumSq l := by
  induction l with
  | nil => cases hx
  | cons y ys ih =>
    rw [sumSq_cons]
    rcases List.mem_cons.1 hx with rfl | h
    · linarith [sumSq_nonneg ys]
    · linarith [ih h, mul_self_nonneg y]

/-- every entry of the spectrum is kept or discarded -/
theorem mem_kept_or_discarded (tiny : Rat) (o : Options) (S : List Rat) {x : Rat} (hx : x ∈ S) :
    x ∈ (truncate tiny o S).kept ∨ x ∈ (truncate tiny o S).discarded := by
  have h1 : x ∈ sortedVals tiny S := (sortedVals_perm tiny S).mem_iff.2 hx
  rw [← List.take_append_drop (truncate tiny o S).cut (sortedVals tiny S), List.mem_append] at h1
  rcases h1 with h | h
  · exact Or.inr ((truncate_disc_perm tiny o S).mem_iff.2 h)
  · exact Or.inl ((truncate_kept_perm tiny o S).mem_iff.2 h)

end TenpyModel.C15
