import TenpyModel.C15.P2_Eigh
/-!
# C15 (part 2) — `decompose_theta_qr_based` with `use_eig_based_svd = True` (`_eig_based_svd`)

`L, U = eigh(Ξ Ξᴴ)`, `S = sqrt(abs(L))`, `piv, renormalize, _ = truncate(S)` (the *unnormalised* `S`),
`U = U[:, piv]`, `T_Lc = A_L U`, `T_Rc = Uᴴ Ξ B_R / ‖Uᴴ Ξ B_R‖`, `theta_approx = T_Lc T_Rc`.
Real case (`ᵀ`).
-/
open Matrix

namespace TenpyModel.C15

/-- the mask returned by `truncate(S)` as a function on `Fin k` -/
def truncMask {k : Nat} (tiny : Rat) (o : Options) (S : Fin k → Rat) : Fin k → Bool :=
  fun i => (truncate tiny o (List.ofFn S)).mask.getD i.val false

section
variable {a b c : Type*} [Fintype a] [Fintype b] [Fintype c] [DecidableEq a] [DecidableEq c]

/-- from `Ξ Ξᵀ = U diag(L) Uᵀ` with `Uᵀ U = 1`: `Uᵀ (Ξ Ξᵀ) U = diag(L)` -/
theorem eig_conj (Xi : Matrix a b Rat) (Ue : Matrix a a Rat) (L : a → Rat) (hUe : Ueᵀ * Ue = 1)
    (heig : Xi * Xiᵀ = Ue * diagonal L * Ueᵀ) : Ueᵀ * (Xi * Xiᵀ) * Ue = diagonal L := by
  rw [heig]
  calc Ueᵀ * (Ue * diagonal L * Ueᵀ) * Ue = (Ueᵀ * Ue) * diagonal L * (Ueᵀ * Ue) := by
        simp only [Matrix.mul_assoc]
    _ = diagonal L := by rw [hUe, Matrix.one_mul, Matrix.mul_one]

/-- eigenvalues of `Ξ Ξᵀ` are non-negative (so `abs` in `sqrt(abs(L))` is the identity in exact arithmetic) -/
theorem eig_nonneg (Xi : Matrix a b Rat) (Ue : Matrix a a Rat) (L : a → Rat) (hUe : Ueᵀ * Ue = 1)
    (heig : Xi * Xiᵀ = Ue * diagonal L * Ueᵀ) (i : a) : 0 ≤ L i := by
  have h := congrFun (congrFun (eig_conj Xi Ue L hUe heig) i) i
  rw [diagonal_apply_eq] at h
  rw [← h, show Ueᵀ * (Xi * Xiᵀ) * Ue = (Xiᵀ * Ue)ᵀ * (Xiᵀ * Ue) by
    rw [transpose_mul, transpose_transpose]; simp only [Matrix.mul_assoc]]
  rw [Matrix.mul_apply]
  apply Finset.sum_nonneg
  intro j _
  rw [transpose_apply]
  exact mul_self_nonneg _

omit [DecidableEq c] in
/-- the kept eigenvectors diagonalise the kept block: `trace (U'ᵀ (Ξ Ξᵀ) U') = Σ_j L (e j)` -/
theorem trace_sub_eig (Xi : Matrix a b Rat) (Ue : Matrix a a Rat) (L : a → Rat) (hUe : Ueᵀ * Ue = 1)
    (heig : Xi * Xiᵀ = Ue * diagonal L * Ueᵀ) (e : c → a) :
    trace ((Ue.submatrix id e)ᵀ * (Xi * Xiᵀ) * Ue.submatrix id e) = ∑ j, L (e j) := by
  have h : (Ue.submatrix id e)ᵀ * (Xi * Xiᵀ) * Ue.submatrix id e
      = (Ueᵀ * (Xi * Xiᵀ) * Ue).submatrix e e := by
    ext i j
    simp only [Matrix.mul_apply, submatrix_apply, transpose_apply, id_eq]
  rw [h, eig_conj Xi Ue L hUe heig]
  unfold trace
  apply Finset.sum_congr rfl
  intro j _
  simp
end

/-- core of the eig-based path: for `Ξ = Aᵀ θ Bᵀ` and kept eigenvectors `U'` (`U'ᵀ U' = 1`),
`‖θ - A (U' U'ᵀ Ξ) B‖² = ‖θ‖² - trace (U'ᵀ Ξ Ξᵀ U')`. -/
theorem frob_sub_A_proj_B {m n a b c : Type*} [Fintype m] [Fintype n] [Fintype a] [Fintype b] [Fintype c]
    [DecidableEq a] [DecidableEq b] [DecidableEq c]
    (θ : Matrix m n Rat) (A : Matrix m a Rat) (B : Matrix b n Rat) (U' : Matrix a c Rat)
    (hA : Aᵀ * A = 1) (hB : B * Bᵀ = 1) (hU' : U'ᵀ * U' = 1) :
    let Xi := Aᵀ * θ * Bᵀ
    trace ((θ - A * (U' * (U'ᵀ * Xi)) * B)ᵀ * (θ - A * (U' * (U'ᵀ * Xi)) * B))
      = trace (θᵀ * θ) - trace (U'ᵀ * (Xi * Xiᵀ) * U') := by
  intro Xi
  have hA' : Aᴴ * A = 1 := by simpa [conjTranspose_eq_transpose_of_trivial] using hA
  have hB' : B * Bᴴ = 1 := by simpa [conjTranspose_eq_transpose_of_trivial] using hB
  have h := frob_sub_AYB θ A B (U' * (U'ᵀ * Xi)) hA' hB'
  simp only [conjTranspose_eq_transpose_of_trivial] at h
  rw [h]
  have k1 : trace (Xiᵀ * (U' * (U'ᵀ * Xi))) = trace (U'ᵀ * (Xi * Xiᵀ) * U') := by
    rw [show Xiᵀ * (U' * (U'ᵀ * Xi)) = (Xiᵀ * U') * (U'ᵀ * Xi) by simp only [Matrix.mul_assoc],
      Matrix.trace_mul_comm]
    simp only [Matrix.mul_assoc]
  have k2 : trace ((U' * (U'ᵀ * Xi))ᵀ * Xi) = trace (U'ᵀ * (Xi * Xiᵀ) * U') := by
    rw [transpose_mul, transpose_mul, transpose_transpose, ← k1]
    simp only [Matrix.mul_assoc]
  have k3 : trace ((U' * (U'ᵀ * Xi))ᵀ * (U' * (U'ᵀ * Xi))) = trace (U'ᵀ * (Xi * Xiᵀ) * U') := by
    rw [transpose_mul, transpose_mul, transpose_transpose, ← k1]
    rw [show Xiᵀ * U' * U'ᵀ * (U' * (U'ᵀ * Xi)) = Xiᵀ * U' * (U'ᵀ * U') * (U'ᵀ * Xi) by
      simp only [Matrix.mul_assoc], hU', Matrix.mul_one]
    simp only [Matrix.mul_assoc]
  show trace (θᵀ * θ) - trace (Xiᵀ * (U' * (U'ᵀ * Xi))) - trace ((U' * (U'ᵀ * Xi))ᵀ * Xi)
    + trace ((U' * (U'ᵀ * Xi))ᵀ * (U' * (U'ᵀ * Xi))) = _
  rw [k1, k2, k3]
  ring

end TenpyModel.C15
