import TenpyModel.C15.P2_Examples
/-!
# C15 (part 2) — truncated decompositions at the level of the compressed factors

`svd_theta`, `eigh_rho`, `decompose_theta_qr_based` of `tenpy/linalg/truncation.py`, about the executable model
`truncate` (`Truncate.lean`).  `keptEmb keep : Fin #kept → Fin k` enumerates the kept indices in increasing order
(`P2_Sub.lean`), so `U.submatrix id (keptEmb keep)` is `U[:, mask]` (after `U.iproject(piv, axes=1)`) and
`V.submatrix (keptEmb keep) id` is `VH[mask, :]`.  Square roots of the code (`‖s‖`, `new_norm`, `N_theta`, `sqrt(W)`)
are numbers `N`, `nn`, `Nθ`, `σ` characterised by their squares, as in `C15_svd_theta_renorm`.
The concrete instance `Ex2` of the examples is in `P2_Examples.lean`.
-/
open Matrix TenpyModel.C15

/-! ## `svd_theta` -/

/-- **Sub-matrix identity of `svd_theta`.**  `θ = U diag(s) V` (any sizes, any `U`, `V`, `s`, any
options), `N` the first value of `renormalization` (`‖s‖` in the code; any non-zero number works),
`r = truncate(s / N)`, `nn` = `new_norm` (`√r.norm2` in the code; any non-zero number works),
`S' = (s / N)[mask] / nn`, `renormalization = N * nn`.  Then
* `U[:, mask]`, `S'`, `VH[mask, :]` have size `#kept = r.kept.length = k - r.cut`, the kept indices are
  enumerated in increasing order and are exactly the `True` entries of the model's mask,
* `S'` is the model's list `r.kept` divided by `nn`, and `S' * renormalization` are the kept original
  values (`C15_svd_theta_renorm`, here per index),
* `U diag(s restricted to mask) V = renormalization • (U[:, mask] diag(S') VH[mask, :])`
  — the matrix `θ'` of `C15_svd_theta_error` *is* the returned compressed product. -/
theorem C15_svd_theta_submatrix {m k n : Nat} (U : Matrix (Fin m) (Fin k) Rat)
    (V : Matrix (Fin k) (Fin n) Rat) (s : Fin k → Rat) (tiny : Rat) (o : Options) (N nn : Rat)
    (hN0 : N ≠ 0) (hnn0 : nn ≠ 0) :
    let r := truncate tiny o ((List.ofFn s).map (· / N))
    let keep : Fin k → Bool := fun i => r.mask.getD i.val false
    let e := keptEmb keep
    let S' : Fin (keptIdx keep).length → Rat := fun j => s (e j) / N / nn
    let renorm := N * nn
    (keptIdx keep).length = r.kept.length ∧ (keptIdx keep).length = k - r.cut ∧
    StrictMono e ∧ (∀ i, keep i = true ↔ ∃ j, e j = i) ∧
    List.ofFn S' = r.kept.map (· / nn) ∧ (∀ j, S' j * renorm = s (e j)) ∧
    U * diagonal (fun i => if keep i = true then s i else 0) * V
      = renorm • (U.submatrix id e * diagonal S' * V.submatrix e id) := by
  rw [show (List.ofFn s).map (· / N) = List.ofFn (fun i => s i / N) from List.map_ofFn]
  intro r keep e S' renorm
  have hsel : r.kept = (keptIdx keep).map (fun i => s i / N) := truncate_kept_keptIdx tiny o _
  have hS : ∀ j, S' j * renorm = s (e j) := fun j => by
    simp only [S', renorm]; field_simp
  refine ⟨?_, keptIdx_length_eq tiny o _, keptEmb_strictMono keep, keptEmb_range keep, ?_, hS, ?_⟩
  · rw [hsel, List.length_map]
  · rw [hsel, List.map_map]
    exact ofFn_keptEmb keep (fun i => s i / N / nn)
  · exact mul_diag_mask_mul_smul U V s keep e (keptEmb_injective keep) (keptEmb_range keep) S' renorm hS

/-- non-vacuity / concrete run: `U` a rotation, `V` a permutation, `s = (9, 8, 12)`, `‖s‖ = 17`, `chi_max = 2`:
the mask is `[T, F, T]`, `new_norm = 15/17`, the kept indices are `0, 2`, `S' = (3/5, 4/5)`,
`renormalization = 15`; both sides of the identity evaluated, and the truncation is not trivial. -/
example :
    Ex2.svdR.mask = [true, false, true] ∧ Ex2.svdR.norm2 = 15 / 17 * (15 / 17) ∧
    sumSq (List.ofFn Ex2.s) = 17 * 17 ∧ keptIdx Ex2.svdKeep = [0, 2] ∧ List.ofFn Ex2.svdS' = [3 / 5, 4 / 5] ∧
    Ex2.U * diagonal (fun i => if Ex2.svdKeep i = true then Ex2.s i else 0) * Ex2.V
      = (17 * (15 / 17) : Rat) • ((Ex2.U).submatrix id (keptEmb Ex2.svdKeep) * diagonal Ex2.svdS' *
          (Ex2.V).submatrix (keptEmb Ex2.svdKeep) id) ∧
    Ex2.U * diagonal (fun i => if Ex2.svdKeep i = true then Ex2.s i else 0) * Ex2.V
      ≠ Ex2.U * diagonal Ex2.s * Ex2.V := by
  decide +kernel

/-- the same instance through the theorem (the definitions of `Ex2` unfold to its `let`s) -/
example : Ex2.U * diagonal (fun i => if Ex2.svdKeep i = true then Ex2.s i else 0) * Ex2.V
      = (17 * (15 / 17) : Rat) • ((Ex2.U).submatrix id (keptEmb Ex2.svdKeep) * diagonal Ex2.svdS' *
          (Ex2.V).submatrix (keptEmb Ex2.svdKeep) id) :=
  (C15_svd_theta_submatrix Ex2.U Ex2.V Ex2.s Ex2.tiny Ex2.opts 17 (15 / 17) (by decide +kernel)
    (by decide +kernel)).2.2.2.2.2.2

/-- **`svd_theta`: the returned factors reproduce `θ` with squared relative error `eps`.**
`θ = U diag(s) V` with `Uᵀ U = 1`, `V Vᵀ = 1`; `N = ‖s‖`, `nn = new_norm` (the two square roots, as in
`C15_svd_theta_renorm`).  For the returned `U' = U[:, mask]`, `S'`, `V' = VH[mask, :]`,
`renormalization = N * nn`: `U'`, `V'` are again isometries, `‖S'‖ = 1`, and
`‖θ - renormalization • U' diag(S') V'‖² = eps · ‖θ‖²`. -/
theorem C15_svd_theta_submatrix_error {m k n : Nat} (U : Matrix (Fin m) (Fin k) Rat)
    (V : Matrix (Fin k) (Fin n) Rat) (s : Fin k → Rat) (hU : Uᵀ * U = 1) (hV : V * Vᵀ = 1)
    (tiny : Rat) (o : Options) (N nn : Rat) (hN : N * N = sumSq (List.ofFn s)) (hN0 : N ≠ 0)
    (hnn : nn * nn = (truncate tiny o ((List.ofFn s).map (· / N))).norm2) (hnn0 : nn ≠ 0) :
    let r := truncate tiny o ((List.ofFn s).map (· / N))
    let keep : Fin k → Bool := fun i => r.mask.getD i.val false
    let e := keptEmb keep
    let S' : Fin (keptIdx keep).length → Rat := fun j => s (e j) / N / nn
    let U' := U.submatrix id e
    let V' := V.submatrix e id
    let θ := U * diagonal s * V
    let θ' := (N * nn) • (U' * diagonal S' * V')
    U'ᵀ * U' = 1 ∧ V' * V'ᵀ = 1 ∧ (∑ j, S' j * S' j) = 1 ∧
    trace ((θ - θ')ᵀ * (θ - θ')) = r.err.eps * trace (θᵀ * θ) := by
  intro r keep e S' U' V' θ θ'
  have hsub := C15_svd_theta_submatrix U V s tiny o N nn hN0 hnn0
  have hU' : Uᴴ * U = 1 := by simpa [conjTranspose_eq_transpose_of_trivial] using hU
  have hV' : V * Vᴴ = 1 := by simpa [conjTranspose_eq_transpose_of_trivial] using hV
  have h1 := submatrix_cols_orthonormal U e (keptEmb_injective keep) hU'
  have h2 := submatrix_rows_orthonormal V e (keptEmb_injective keep) hV'
  simp only [conjTranspose_eq_transpose_of_trivial] at h1 h2
  refine ⟨h1, h2, ?_, ?_⟩
  · rw [sum_mul_self_eq_sumSq, hsub.2.2.2.2.1, sumSq_map_div _ _ hnn0, ← truncate_norm2, ← hnn]
    exact div_self (mul_ne_zero hnn0 hnn0)
  · have h := C15_svd_theta_error U V s hU hV tiny o N hN hN0
    rw [show θ' = U * diagonal (fun i => if keep i = true then s i else 0) * V from hsub.2.2.2.2.2.2.symm]
    exact h

/-- non-vacuity of `C15_svd_theta_submatrix_error`: the instance `Ex2` meets all hypotheses, `eps = 64/289`. -/
example : (Ex2.U)ᵀ * Ex2.U = 1 ∧ Ex2.V * (Ex2.V)ᵀ = 1 ∧ (17 : Rat) * 17 = sumSq (List.ofFn Ex2.s) ∧
    (15 / 17 : Rat) * (15 / 17) = (truncate Ex2.tiny Ex2.opts ((List.ofFn Ex2.s).map (· / 17))).norm2 ∧
    Ex2.svdR.err.eps = 64 / 289 := by
  decide +kernel

/-! ## `eigh_rho` -/

/-- **`eigh_rho` reports the discarded weight of the density matrix exactly.**
`rho = V diag(w0) Vᵀ` with orthonormal eigenvectors (`Vᵀ V = 1`; `V` may be rectangular), any eigenvalues `w0`.
The code clips `w = clipSmall c w0` (`c = 1e-14`), normalises by `T = Σ w` and truncates the **square roots**
`σ_i = √(w_i / T)` (`σ` stands for them: `σ_i² = w_i / T`).  With `ρ = V diag(w) Vᵀ` the clipped density matrix,
`W' = (w/T)[mask] / new_norm² * T`, `V' = V[:, mask]` the returned values and `ρ' = V' diag(W') V'ᵀ`:
* `eps · T = Σ_{discarded} w_i` and `new_norm² · T = Σ_{kept} w_i`, `eps + new_norm² = 1`: `eps` is the discarded
  weight relative to the trace (of the eigenvalues themselves, not their squares);
* `W'` is the model's `kept` list squared, divided by `new_norm²`, times `T`; `V'` has orthonormal columns;
* `ρ - (1 - eps) • ρ' = D := V diag(w restricted to the discarded indices) Vᵀ`: the reconstruction error
  operator; `trace ρ' = trace ρ = T` (trace preserved), `trace D = eps · trace ρ`, and `D` is positive
  semi-definite (for `c ≥ 0`), so `eps = ‖ρ - (1 - eps) ρ'‖₁ / ‖ρ‖₁` in the trace norm. -/
theorem C15_eigh_rho_error {m k : Nat} (V : Matrix (Fin m) (Fin k) Rat) (w0 : Fin k → Rat) (c : Rat)
    (hV : Vᵀ * V = 1) (tiny : Rat) (o : Options) (σ : Fin k → Rat)
    (hT : (∑ i, clipSmall c (w0 i)) ≠ 0)
    (hσ : ∀ i, σ i * σ i = clipSmall c (w0 i) / ∑ i, clipSmall c (w0 i))
    (hn : (truncate tiny o (List.ofFn σ)).norm2 ≠ 0) :
    let w : Fin k → Rat := fun i => clipSmall c (w0 i)
    let T := ∑ i, w i
    let r := truncate tiny o (List.ofFn σ)
    let keep : Fin k → Bool := fun i => r.mask.getD i.val false
    let e := keptEmb keep
    let W' : Fin (keptIdx keep).length → Rat := fun j => w (e j) / T / r.norm2 * T
    let V' := V.submatrix id e
    let ρ := V * diagonal w * Vᵀ
    let ρ' := V' * diagonal W' * V'ᵀ
    let D := V * diagonal (fun i => if keep i = true then 0 else w i) * Vᵀ
    r.err.eps * T = (∑ i, if keep i = true then 0 else w i) ∧
    r.norm2 * T = (∑ i, if keep i = true then w i else 0) ∧
    r.err.eps + r.norm2 = 1 ∧
    List.ofFn W' = r.kept.map (fun x => x * x / r.norm2 * T) ∧
    V'ᵀ * V' = 1 ∧
    ρ - (1 - r.err.eps) • ρ' = D ∧
    trace ρ = T ∧ trace ρ' = T ∧ trace D = r.err.eps * trace ρ ∧
    (0 ≤ c → ∀ x : Fin m → Rat, 0 ≤ x ⬝ᵥ D *ᵥ x) := by
  intro w T r keep e W' V' ρ ρ' D
  have hσT : ∀ i, σ i * σ i * T = w i := fun i => by
    rw [hσ i]; exact div_mul_cancel₀ _ hT
  -- the reported numbers as masked sums of eigenvalues
  have h_eps : r.err.eps * T = ∑ i, if keep i = true then 0 else w i := by
    rw [show r.err.eps = _ from truncate_eps_fin tiny o σ, Finset.sum_mul]
    apply Finset.sum_congr rfl
    intro i _
    show (if keep i = true then 0 else σ i * σ i) * T = _
    by_cases h : keep i = true
    · rw [if_pos h, if_pos h, zero_mul]
    · rw [if_neg h, if_neg h, hσT]
  have h_n2 : r.norm2 * T = ∑ i, if keep i = true then w i else 0 := by
    rw [show r.norm2 = _ from truncate_norm2_fin tiny o σ, Finset.sum_mul]
    apply Finset.sum_congr rfl
    intro i _
    show (if keep i = true then σ i * σ i else 0) * T = _
    by_cases h : keep i = true
    · rw [if_pos h, if_pos h, hσT]
    · rw [if_neg h, if_neg h, zero_mul]
  have h_one : r.err.eps + r.norm2 = 1 := by
    have h := sum_mask_add_sum_not keep w
    rw [← h_eps, ← h_n2] at h
    have h2 : (r.err.eps + r.norm2) * T = 1 * T := by rw [one_mul]; show _ = ∑ i, w i; linarith
    exact mul_right_cancel₀ hT h2
  have hW : ∀ j, W' j * r.norm2 = w (e j) := fun j => by
    have hT' : T ≠ 0 := hT
    have hn' : r.norm2 ≠ 0 := hn
    show w (e j) / T / r.norm2 * T * r.norm2 = w (e j)
    field_simp
  have hV' : Vᴴ * V = 1 := by simpa [conjTranspose_eq_transpose_of_trivial] using hV
  have hVe := submatrix_cols_orthonormal V e (keptEmb_injective keep) hV'
  simp only [conjTranspose_eq_transpose_of_trivial] at hVe
  have h_trρ : trace ρ = T := by
    show trace (V * diagonal w * Vᵀ) = T
    rw [Matrix.trace_mul_comm, ← Matrix.mul_assoc, hV, Matrix.one_mul, trace_diagonal]
  have h_trD : trace D = r.err.eps * T := by
    show trace (V * diagonal _ * Vᵀ) = _
    rw [Matrix.trace_mul_comm, ← Matrix.mul_assoc, hV, Matrix.one_mul, trace_diagonal, h_eps]
  refine ⟨h_eps, h_n2, h_one, ?_, hVe, ?_, h_trρ, ?_, by rw [h_trD, h_trρ], ?_⟩
  · -- the returned eigenvalues
    rw [show r.kept = _ from truncate_kept_keptIdx tiny o σ, List.map_map]
    rw [show List.ofFn W' = (keptIdx keep).map (fun i => w i / T / r.norm2 * T) from
      ofFn_keptEmb keep (fun i => w i / T / r.norm2 * T)]
    apply List.map_congr_left
    intro i _
    show w i / T / r.norm2 * T = σ i * σ i / r.norm2 * T
    rw [hσ i]
  · -- reconstruction
    have hsub := mul_diag_mask_mul_smul V Vᵀ w keep e (keptEmb_injective keep) (keptEmb_range keep) W'
      r.norm2 hW
    have h1 : (1 - r.err.eps) = r.norm2 := by linarith
    show ρ - (1 - r.err.eps) • (V' * diagonal W' * V'ᵀ) = D
    rw [h1, show V'ᵀ = Vᵀ.submatrix e id from rfl, ← hsub]
    exact VdX_sub_masked V Vᵀ w keep
  · -- trace of the returned approximation
    show trace (V' * diagonal W' * V'ᵀ) = T
    rw [Matrix.trace_mul_comm, ← Matrix.mul_assoc, hVe, Matrix.one_mul, trace_diagonal]
    have h2 : (∑ j, W' j) * r.norm2 = T * r.norm2 := by
      rw [Finset.sum_mul, Finset.sum_congr rfl (fun j _ => hW j), sum_keptEmb keep w, ← h_n2, mul_comm]
    exact mul_right_cancel₀ hn h2
  · -- the discarded part is positive semi-definite
    intro hc x
    show 0 ≤ x ⬝ᵥ (V * diagonal _ * Vᵀ) *ᵥ x
    rw [quadform_VDVt]
    apply Finset.sum_nonneg
    intro i _
    apply mul_nonneg _ (mul_self_nonneg _)
    by_cases h : keep i = true
    · rw [if_pos h]
    · rw [if_neg h]; exact clipSmall_nonneg hc _

/-- non-vacuity / concrete run: eigenvalues `(81, 64, 144, -1e-18)` (the last one clipped), trace `289`,
`σ = (9/17, 8/17, 12/17, 0)`, `chi_max = 2`: all hypotheses hold, mask `[T, F, T, F]`, `eps = 64/289` (the discarded
eigenvalue `64` relative to the trace, not `64²`), returned eigenvalues `(81, 144) · 289/225` of sum `289`. -/
example : (Ex2.W)ᵀ * Ex2.W = 1 ∧ (∑ i, clipSmall f1em14 (Ex2.w0 i)) = 289 ∧
    (∀ i, Ex2.σ i * Ex2.σ i = clipSmall f1em14 (Ex2.w0 i) / ∑ i, clipSmall f1em14 (Ex2.w0 i)) ∧
    Ex2.eighR.norm2 = 225 / 289 ∧ Ex2.eighR.mask = [true, false, true, false] ∧ Ex2.eighR.err.eps = 64 / 289 ∧
    List.ofFn Ex2.eighW' = [2601 / 25, 4624 / 25] ∧
    trace ((Ex2.W).submatrix id (keptEmb Ex2.eighKeep) * diagonal Ex2.eighW' *
      ((Ex2.W).submatrix id (keptEmb Ex2.eighKeep))ᵀ) = 289 := by
  decide +kernel

/-! ## `decompose_theta_qr_based` (`use_eig_based_svd = False`, `compute_err = True`) -/

/-- **QR-based decomposition: the reported `eps` is the squared relative reconstruction error, and equals
`1 - renormalization² / ‖θ‖²`.**
Post-conditions taken from the code: `A = A_L` with `Aᵀ A = 1`, `B = B_R` with `B Bᵀ = 1` (the `Q` factors),
the bond matrix `Ξ` is the `R` factor of the last QR — `θ Bᵀ = A Ξ` (`move_right`) or `Aᵀ θ = Ξ B` (else) —,
`Ξ = U diag(s) V` its SVD inside `svd_theta` (`Uᵀ U = 1`, `V Vᵀ = 1`), `N = ‖s‖`, `r = truncate(s / N)`,
`nn = new_norm`, `S' = (s/N)[mask] / nn`, `renormalization = N nn`, `T_Lc = A U[:, mask]`, `T_Rc = V[mask, :] B`,
`theta_approx = T_Lc diag(S') T_Rc`, `N_theta = ‖θ‖` and, as coded,
`eps = ‖theta / N_theta - theta_approx * renormalization / N_theta‖²`.  Then
* `T_Lc`, `T_Rc` are isometries (forms `'A'`, `'B'`);
* `eps · ‖θ‖² = ‖θ - renormalization • theta_approx‖²`;
* `eps = 1 - renormalization² / ‖θ‖²` `= TruncationError.from_norm(renormalization, N_theta).eps`;
* `eps · ‖θ‖² = (‖θ‖² - ‖Ξ‖²) + eps_svd · ‖Ξ‖²`: the weight of `θ` outside the subspaces chosen by the QR steps
  plus the weight discarded by `truncate` (`eps_svd = r.err.eps`, which the code throws away). -/
theorem C15_qr_theta_error {m n a b k : Nat} (θ : Matrix (Fin m) (Fin n) Rat)
    (A : Matrix (Fin m) (Fin a) Rat) (B : Matrix (Fin b) (Fin n) Rat) (Xi : Matrix (Fin a) (Fin b) Rat)
    (U : Matrix (Fin a) (Fin k) Rat) (V : Matrix (Fin k) (Fin b) Rat) (s : Fin k → Rat)
    (hA : Aᵀ * A = 1) (hB : B * Bᵀ = 1) (hQR : θ * Bᵀ = A * Xi ∨ Aᵀ * θ = Xi * B)
    (hsvd : Xi = U * diagonal s * V) (hU : Uᵀ * U = 1) (hV : V * Vᵀ = 1)
    (tiny : Rat) (o : Options) (N nn Nθ : Rat)
    (hN : N * N = sumSq (List.ofFn s)) (hN0 : N ≠ 0)
    (hnn : nn * nn = (truncate tiny o ((List.ofFn s).map (· / N))).norm2) (hnn0 : nn ≠ 0)
    (hNθ : Nθ * Nθ = trace (θᵀ * θ)) (hNθ0 : Nθ ≠ 0) :
    let r := truncate tiny o ((List.ofFn s).map (· / N))
    let keep : Fin k → Bool := fun i => r.mask.getD i.val false
    let e := keptEmb keep
    let S' : Fin (keptIdx keep).length → Rat := fun j => s (e j) / N / nn
    let renorm := N * nn
    let TL := A * U.submatrix id e
    let TR := V.submatrix e id * B
    let θa := TL * diagonal S' * TR
    let M := (1 / Nθ) • θ - (1 / Nθ) • (renorm • θa)
    let eps := trace (Mᵀ * M)
    TLᵀ * TL = 1 ∧ TR * TRᵀ = 1 ∧
    eps * trace (θᵀ * θ) = trace ((θ - renorm • θa)ᵀ * (θ - renorm • θa)) ∧
    eps = (TruncErr.fromNorm renorm Nθ).eps ∧
    eps * trace (θᵀ * θ) = (trace (θᵀ * θ) - trace (Xiᵀ * Xi)) + r.err.eps * trace (Xiᵀ * Xi) := by
  intro r keep e S' renorm TL TR θa M eps
  have hU' : Uᴴ * U = 1 := by simpa [conjTranspose_eq_transpose_of_trivial] using hU
  have hV' : V * Vᴴ = 1 := by simpa [conjTranspose_eq_transpose_of_trivial] using hV
  have hA' : Aᴴ * A = 1 := by simpa [conjTranspose_eq_transpose_of_trivial] using hA
  have hB' : B * Bᴴ = 1 := by simpa [conjTranspose_eq_transpose_of_trivial] using hB
  -- the bond matrix is the compression of `θ`
  have hXi : Aᵀ * θ * Bᵀ = Xi := by
    rcases hQR with h | h
    · rw [Matrix.mul_assoc, h, ← Matrix.mul_assoc, hA, Matrix.one_mul]
    · rw [h, Matrix.mul_assoc, hB, Matrix.mul_one]
  -- isometries
  have hUe := submatrix_cols_orthonormal U e (keptEmb_injective keep) hU'
  have hVe := submatrix_rows_orthonormal V e (keptEmb_injective keep) hV'
  simp only [conjTranspose_eq_transpose_of_trivial] at hUe hVe
  have hTL : TLᵀ * TL = 1 := by
    show (A * U.submatrix id e)ᵀ * (A * U.submatrix id e) = 1
    rw [transpose_mul, Matrix.mul_assoc, ← Matrix.mul_assoc Aᵀ, hA, Matrix.one_mul, hUe]
  have hTR : TR * TRᵀ = 1 := by
    show (V.submatrix e id * B) * (V.submatrix e id * B)ᵀ = 1
    rw [transpose_mul, Matrix.mul_assoc, ← Matrix.mul_assoc B, hB, Matrix.one_mul, hVe]
  -- the scaled approximation is `A (U diag(s restricted to mask) V) B`
  have hsub : U * diagonal (fun i => if keep i = true then s i else 0) * V
      = renorm • (U.submatrix id e * diagonal S' * V.submatrix e id) :=
    (C15_svd_theta_submatrix U V s tiny o N nn hN0 hnn0).2.2.2.2.2.2
  have hθa : renorm • θa = A * (U * diagonal (fun i => if keep i = true then s i else 0) * V) * B := by
    rw [hsub]
    show renorm • (A * U.submatrix id e * diagonal S' * (V.submatrix e id * B)) = _
    simp only [Matrix.mul_assoc, Matrix.mul_smul, Matrix.smul_mul]
  -- `‖θ - θ'‖² = ‖θ‖² - Σ_kept s²`
  have hfrob := frob_sub_A_masked_B θ A B U V s keep hA' hB' hU' hV'
    (by simp only [conjTranspose_eq_transpose_of_trivial]; rw [hXi, hsvd])
  simp only [conjTranspose_eq_transpose_of_trivial, star_trivial] at hfrob
  rw [← hθa] at hfrob
  -- `Σ_kept s² = renormalization²`
  have hl : (List.ofFn s).map (· / N) = List.ofFn (fun i => s i / N) := List.map_ofFn
  have hkept : (∑ i, if keep i = true then s i * s i else 0) = renorm * renorm := by
    have h := truncate_norm2_fin tiny o (fun i => s i / N)
    rw [← hl] at h
    have h2 : (∑ i, if keep i = true then s i * s i else 0) = N * N * r.norm2 := by
      rw [show r.norm2 = _ from h, Finset.mul_sum]
      apply Finset.sum_congr rfl
      intro i _
      show _ = N * N * (if keep i = true then s i / N * (s i / N) else 0)
      by_cases hk : keep i = true
      · rw [if_pos hk, if_pos hk]; field_simp
      · rw [if_neg hk, if_neg hk, mul_zero]
    rw [h2, ← hnn]
    show N * N * (nn * nn) = N * nn * (N * nn)
    ring
  -- the reported number
  have hM : M = (1 / Nθ) • (θ - renorm • θa) := (smul_sub _ _ _).symm
  have heps : eps = (1 / Nθ) * (1 / Nθ) * trace ((θ - renorm • θa)ᵀ * (θ - renorm • θa)) := by
    show trace (Mᵀ * M) = _
    rw [hM, transpose_smul, Matrix.smul_mul, Matrix.mul_smul, trace_smul, trace_smul, smul_eq_mul,
      smul_eq_mul, mul_assoc]
  have hNN : Nθ * Nθ ≠ 0 := mul_ne_zero hNθ0 hNθ0
  have hrec : eps * trace (θᵀ * θ) = trace ((θ - renorm • θa)ᵀ * (θ - renorm • θa)) := by
    rw [heps, ← hNθ]; field_simp
  have hXiN : trace (Xiᵀ * Xi) = N * N := by
    have h := trace_UDV_UEV U (diagonal s) (diagonal s) V hU' hV'
    rw [trace_diag_diag] at h
    simp only [conjTranspose_eq_transpose_of_trivial, star_trivial] at h
    rw [hsvd, h, sum_mul_self_eq_sumSq, hN]
  have hone := (C15_svd_theta_renorm tiny o (List.ofFn s) N nn hN hN0 hnn hnn0).2
  refine ⟨hTL, hTR, hrec, ?_, ?_⟩
  · show eps = 1 - renorm * renorm / (Nθ * Nθ)
    rw [heps, hfrob, hkept, ← hNθ]; field_simp
  · rw [hrec, hfrob, hkept, hXiN]
    have : r.err.eps = 1 - nn * nn := by
      show (truncate tiny o ((List.ofFn s).map (· / N))).err.eps = _
      linarith
    rw [this]
    show _ = _
    simp only [renorm]
    ring

/-- non-vacuity / concrete run: `A` 4×3, `B` a permutation, `Ξ = U diag(9, 8, 12) V`, `θ = A Ξ B + E` with `E` outside
the range of `A` (so `Aᵀ θ = Ξ B` but `θ Bᵀ ≠ A Ξ`), `‖θ‖ = 145`, `chi_max = 2`: all hypotheses hold, and the
reported `eps` evaluates to `1 - 15²/145² = 832/841` `= (145² - 17²)/145² + 64/289 · 17²/145²`. -/
example : (Ex2.A)ᵀ * Ex2.A = 1 ∧ Ex2.B * (Ex2.B)ᵀ = 1 ∧ (Ex2.A)ᵀ * Ex2.θ = Ex2.Xi * Ex2.B ∧
    Ex2.θ * (Ex2.B)ᵀ ≠ Ex2.A * Ex2.Xi ∧ Ex2.Xi = Ex2.U * diagonal Ex2.s * Ex2.V ∧
    (145 : Rat) * 145 = trace ((Ex2.θ)ᵀ * Ex2.θ) ∧ trace ((Ex2.Xi)ᵀ * Ex2.Xi) = 17 * 17 ∧
    trace ((Ex2.M)ᵀ * Ex2.M) = 832 / 841 ∧
    (832 / 841 : Rat) = (TruncErr.fromNorm (17 * (15 / 17)) 145).eps ∧
    (832 / 841 : Rat) * (145 * 145) = (145 * 145 - 17 * 17) + Ex2.svdR.err.eps * (17 * 17) := by
  decide +kernel

/-- the same instance through the theorem -/
example : trace ((Ex2.M)ᵀ * Ex2.M) = (TruncErr.fromNorm (17 * (15 / 17)) 145).eps :=
  (C15_qr_theta_error Ex2.θ Ex2.A Ex2.B Ex2.Xi Ex2.U Ex2.V Ex2.s (by decide +kernel) (by decide +kernel)
    (Or.inr (by decide +kernel)) rfl (by decide +kernel) (by decide +kernel) Ex2.tiny Ex2.opts 17 (15 / 17) 145
    (by decide +kernel) (by decide +kernel) (by decide +kernel) (by decide +kernel) (by decide +kernel)
    (by decide +kernel)).2.2.2.1

/-- **The reported `eps` of `decompose_theta_qr_based` is the squared relative reconstruction error**, for both SVD
variants and whatever the factors are (any commutative `*`-field; `N_theta` real, i.e. `star N_theta = N_theta`):
`eps = ‖theta / N_theta - theta_approx * renormalization / N_theta‖²` and `N_theta = ‖θ‖` give
`eps · ‖θ‖² = ‖θ - renormalization • theta_approx‖²`. -/
theorem C15_qr_eps_is_reconstruction_error {m n R : Type*} [Fintype m] [Fintype n] [Field R] [StarRing R]
    (θ θa : Matrix m n R) (ren Nθ : R) (hstar : star Nθ = Nθ) (hNθ : Nθ * Nθ = trace (θᴴ * θ))
    (hNθ0 : Nθ ≠ 0) :
    let M := (1 / Nθ) • θ - (1 / Nθ) • (ren • θa)
    trace (Mᴴ * M) * trace (θᴴ * θ) = trace ((θ - ren • θa)ᴴ * (θ - ren • θa)) := by
  intro M
  have hM : M = (1 / Nθ) • (θ - ren • θa) := (smul_sub _ _ _).symm
  have hs : star (1 / Nθ) = 1 / Nθ := by rw [star_div₀, star_one, hstar]
  rw [hM, conjTranspose_smul, Matrix.smul_mul, Matrix.mul_smul, trace_smul, trace_smul, smul_eq_mul,
    smul_eq_mul, hs, ← hNθ]
  field_simp

/-- non-vacuity: `Ex2` (over `ℚ`, trivial star): `‖θ‖ = 145` -/
example : star (145 : Rat) = 145 ∧ (145 : Rat) * 145 = trace ((Ex2.θ)ᴴ * Ex2.θ) ∧
    trace ((Ex2.M)ᴴ * Ex2.M) * trace ((Ex2.θ)ᴴ * Ex2.θ) = 832 / 841 * (145 * 145) := by
  decide +kernel

/-- **QR-based decomposition with `use_eig_based_svd = True`, `move_right = True`** (`_eig_based_svd`).
`A`, `B`, `Ξ` as in `C15_qr_theta_error`; `L, Ue = eigh(Ξ Ξᵀ)` (`Ueᵀ Ue = 1`, `Ξ Ξᵀ = Ue diag(L) Ueᵀ`),
`S = sqrt(abs(L))` (`S_i² = |L_i|`), `piv, renormalize, _ = truncate(S)` on the *unnormalised* `S`, `nn = renormalize`,
`U' = Ue[:, piv]`, `T_Lc = A U'`, `T_Rc = U'ᵀ Ξ B / ‖U'ᵀ Ξ B‖` (`nrm` = that norm), `theta_approx = T_Lc T_Rc`.  Then
`L ≥ 0` (the `abs` is harmless), `T_Lc` is an isometry, `‖T_Rc‖ = 1`, the norm `nrm` *is* the reported
`renormalization`, and the reported `eps` again satisfies `eps · ‖θ‖² = ‖θ - renormalization • theta_approx‖²` and
`eps = 1 - renormalization² / ‖θ‖²`. -/
theorem C15_qr_eig_based_error {m n a b : Nat} (θ : Matrix (Fin m) (Fin n) Rat)
    (A : Matrix (Fin m) (Fin a) Rat) (B : Matrix (Fin b) (Fin n) Rat) (Xi : Matrix (Fin a) (Fin b) Rat)
    (Ue : Matrix (Fin a) (Fin a) Rat) (L S : Fin a → Rat)
    (hA : Aᵀ * A = 1) (hB : B * Bᵀ = 1) (hQR : θ * Bᵀ = A * Xi ∨ Aᵀ * θ = Xi * B)
    (hUe : Ueᵀ * Ue = 1) (heig : Xi * Xiᵀ = Ue * diagonal L * Ueᵀ) (hS : ∀ i, S i * S i = |L i|)
    (tiny : Rat) (o : Options) (nn nrm Nθ : Rat)
    (hnn : nn * nn = (truncate tiny o (List.ofFn S)).norm2) (hnn0 : 0 < nn)
    (hnrm : nrm * nrm = trace (((Ue.submatrix id (keptEmb (truncMask tiny o S)))ᵀ * (Xi * B))ᵀ *
      ((Ue.submatrix id (keptEmb (truncMask tiny o S)))ᵀ * (Xi * B)))) (hnrm0 : 0 < nrm)
    (hNθ : Nθ * Nθ = trace (θᵀ * θ)) (hNθ0 : Nθ ≠ 0) :
    let U' := Ue.submatrix id (keptEmb (truncMask tiny o S))
    let TL := A * U'
    let TR := (1 / nrm) • (U'ᵀ * (Xi * B))
    let θa := TL * TR
    let M := (1 / Nθ) • θ - (1 / Nθ) • (nn • θa)
    let eps := trace (Mᵀ * M)
    (∀ i, 0 ≤ L i) ∧ TLᵀ * TL = 1 ∧ trace (TRᵀ * TR) = 1 ∧ nrm = nn ∧
    eps * trace (θᵀ * θ) = trace ((θ - nn • θa)ᵀ * (θ - nn • θa)) ∧
    eps = (TruncErr.fromNorm nn Nθ).eps := by
  intro U' TL TR θa M eps
  have hL := eig_nonneg Xi Ue L hUe heig
  have hXi : Aᵀ * θ * Bᵀ = Xi := by
    rcases hQR with h | h
    · rw [Matrix.mul_assoc, h, ← Matrix.mul_assoc, hA, Matrix.one_mul]
    · rw [h, Matrix.mul_assoc, hB, Matrix.mul_one]
  have hUe' : Ueᴴ * Ue = 1 := by simpa [conjTranspose_eq_transpose_of_trivial] using hUe
  have hU' : U'ᵀ * U' = 1 := by
    have h := submatrix_cols_orthonormal Ue (keptEmb (truncMask tiny o S)) (keptEmb_injective _) hUe'
    simpa only [conjTranspose_eq_transpose_of_trivial] using h
  -- the kept weight
  have hK : trace (U'ᵀ * (Xi * Xiᵀ) * U') = nn * nn := by
    rw [trace_sub_eig Xi Ue L hUe heig, sum_keptEmb (truncMask tiny o S) L, hnn,
      show (truncate tiny o (List.ofFn S)).norm2 = _ from truncate_norm2_fin tiny o S]
    apply Finset.sum_congr rfl
    intro i _
    show (if truncMask tiny o S i = true then L i else 0) = if truncMask tiny o S i = true then S i * S i else 0
    rw [hS i, abs_of_nonneg (hL i)]
  have hnrm2 : nrm * nrm = nn * nn := by
    rw [hnrm, ← hK, Matrix.trace_mul_comm]
    congr 1
    rw [transpose_mul, transpose_mul, transpose_transpose]
    rw [show U'ᵀ * (Xi * B) * (Bᵀ * Xiᵀ * U') = U'ᵀ * (Xi * (B * Bᵀ) * Xiᵀ) * U' by
      simp only [Matrix.mul_assoc], hB, Matrix.mul_one]
  have hnn_eq : nrm = nn := by
    rcases mul_self_eq_mul_self_iff.1 hnrm2 with h | h
    · exact h
    · linarith
  have hnrm_ne : nrm ≠ 0 := ne_of_gt hnrm0
  have hTL : TLᵀ * TL = 1 := by
    show (A * U')ᵀ * (A * U') = 1
    rw [transpose_mul, Matrix.mul_assoc, ← Matrix.mul_assoc Aᵀ, hA, Matrix.one_mul, hU']
  have hTR : trace (TRᵀ * TR) = 1 := by
    show trace (((1 / nrm) • (U'ᵀ * (Xi * B)))ᵀ * ((1 / nrm) • (U'ᵀ * (Xi * B)))) = 1
    rw [transpose_smul, Matrix.smul_mul, Matrix.mul_smul, trace_smul, trace_smul, smul_eq_mul, smul_eq_mul,
      ← hnrm]
    field_simp
  have hθa : nn • θa = A * (U' * (U'ᵀ * (Aᵀ * θ * Bᵀ))) * B := by
    show nn • (A * U' * ((1 / nrm) • (U'ᵀ * (Xi * B)))) = _
    rw [hXi, Matrix.mul_smul, smul_smul, ← hnn_eq, mul_one_div_cancel hnrm_ne, one_smul]
    simp only [Matrix.mul_assoc]
  have hfrob := frob_sub_A_proj_B θ A B U' hA hB hU'
  simp only [] at hfrob
  rw [← hθa, hXi, hK] at hfrob
  have hM : M = (1 / Nθ) • (θ - nn • θa) := (smul_sub _ _ _).symm
  have heps : eps = (1 / Nθ) * (1 / Nθ) * trace ((θ - nn • θa)ᵀ * (θ - nn • θa)) := by
    show trace (Mᵀ * M) = _
    rw [hM, transpose_smul, Matrix.smul_mul, Matrix.mul_smul, trace_smul, trace_smul, smul_eq_mul,
      smul_eq_mul, mul_assoc]
  refine ⟨hL, hTL, hTR, hnn_eq, ?_, ?_⟩
  · rw [heps, ← hNθ]; field_simp
  · show eps = 1 - nn * nn / (Nθ * Nθ)
    rw [heps, hfrob, ← hNθ]; field_simp

/-- non-vacuity / concrete run: `Ξ Ξᵀ = U diag(81, 64, 144) Uᵀ`, `S = (9, 8, 12)`, `chi_max = 2`: hypotheses hold with
`renormalize = ‖U'ᵀ Ξ B‖ = 15`, and the reported `eps` evaluates to `832/841 = 1 - 15²/145²`. -/
example : (Ex2.U)ᵀ * Ex2.U = 1 ∧ Ex2.Xi * (Ex2.Xi)ᵀ = Ex2.U * diagonal Ex2.L * (Ex2.U)ᵀ ∧
    (∀ i, Ex2.s i * Ex2.s i = |Ex2.L i|) ∧ (15 : Rat) * 15 = (truncate Ex2.tiny Ex2.opts (List.ofFn Ex2.s)).norm2 ∧
    (15 : Rat) * 15 = trace (((Ex2.eigU')ᵀ * (Ex2.Xi * Ex2.B))ᵀ * ((Ex2.eigU')ᵀ * (Ex2.Xi * Ex2.B))) ∧
    (truncate Ex2.tiny Ex2.opts (List.ofFn Ex2.s)).mask = [true, false, true] ∧
    trace ((Ex2.eigM)ᵀ * Ex2.eigM) = 832 / 841 := by
  decide +kernel

/-! ## general scalars (complex case) and the divisions by `new_norm` -/

/-- **Sub-matrix identity over any commutative semiring** (complex matrices): for any mask and any spectrum `S'`,
factor `ren` with `S' · ren = s[mask]`, zeroing the discarded diagonal entries equals `ren` times the product of
the compressed factors `U[:, mask] diag(S') V[mask, :]`. -/
theorem C15_submatrix_reconstruction {m n R : Type*} {k : Nat} [CommSemiring R]
    (U : Matrix m (Fin k) R) (V : Matrix (Fin k) n R) (s : Fin k → R) (keep : Fin k → Bool)
    (S' : Fin (keptIdx keep).length → R) (ren : R) (hS : ∀ j, S' j * ren = s (keptEmb keep j)) :
    U * diagonal (fun i => if keep i = true then s i else 0) * V
      = ren • (U.submatrix id (keptEmb keep) * diagonal S' * V.submatrix (keptEmb keep) id) :=
  mul_diag_mask_mul_smul U V s keep (keptEmb keep) (keptEmb_injective keep) (keptEmb_range keep) S' ren hS

/-- non-vacuity: mask `[T, F, T]`, `s = (9, 8, 12)`, `S' = (3/5, 4/5)`, `ren = 15` -/
example : ∀ j, Ex2.svdS' j * 15 = Ex2.s (keptEmb Ex2.svdKeep j) := by decide +kernel

/-- **QR-based decomposition over any commutative `*`-ring** (complex case): `A`, `Bᴴ`, `U`, `Vᴴ` isometries,
bond matrix `Aᴴ θ Bᴴ = U diag(s) V`, any mask: the squared Frobenius distance between `θ` and
`θ' = A (U diag(s restricted to mask) V) B` is `‖θ‖² - Σ_{kept} |s_i|²`. -/
theorem C15_qr_masked_reconstruction_error {m a b n k R : Type*} [Fintype m] [Fintype a] [Fintype b]
    [Fintype n] [Fintype k] [DecidableEq a] [DecidableEq b] [DecidableEq k] [CommRing R] [StarRing R]
    (θ : Matrix m n R) (A : Matrix m a R) (B : Matrix b n R) (U : Matrix a k R) (V : Matrix k b R)
    (s : k → R) (keep : k → Bool) (hA : Aᴴ * A = 1) (hB : B * Bᴴ = 1) (hU : Uᴴ * U = 1) (hV : V * Vᴴ = 1)
    (hXi : Aᴴ * θ * Bᴴ = U * diagonal s * V) :
    let θ' := A * (U * diagonal (fun i => if keep i = true then s i else 0) * V) * B
    trace ((θ - θ')ᴴ * (θ - θ')) = trace (θᴴ * θ) - ∑ i, if keep i = true then star (s i) * s i else 0 :=
  frob_sub_A_masked_B θ A B U V s keep hA hB hU hV hXi

/-- non-vacuity: the instance `Ex2` (over `ℚ` with the trivial star) meets the hypotheses; `145² - (9² + 12²)`. -/
example : (Ex2.A)ᴴ * Ex2.A = 1 ∧ Ex2.B * (Ex2.B)ᴴ = 1 ∧ (Ex2.U)ᴴ * Ex2.U = 1 ∧ Ex2.V * (Ex2.V)ᴴ = 1 ∧
    (Ex2.A)ᴴ * Ex2.θ * (Ex2.B)ᴴ = Ex2.U * diagonal Ex2.s * Ex2.V ∧
    trace ((Ex2.θ)ᴴ * Ex2.θ) - (∑ i, if Ex2.svdKeep i = true then star (Ex2.s i) * Ex2.s i else 0)
      = 145 * 145 - 225 := by
  decide +kernel

/-- **Truncated eigen-decomposition over any commutative `*`-ring**: `ρ = V diag(w) Vᴴ` with `Vᴴ V = 1`, any mask.
The part removed by the mask is `D = V diag(w restricted to the discarded indices) Vᴴ`, and the traces of `ρ`, of the
kept part and of `D` are the total, kept and discarded sums of eigenvalues. -/
theorem C15_eigh_masked_reconstruction {m k R : Type*} [Fintype m] [Fintype k] [DecidableEq k] [CommRing R]
    [StarRing R] (V : Matrix m k R) (w : k → R) (keep : k → Bool) (hV : Vᴴ * V = 1) :
    let ρ := V * diagonal w * Vᴴ
    let ρk := V * diagonal (fun i => if keep i = true then w i else 0) * Vᴴ
    let D := V * diagonal (fun i => if keep i = true then 0 else w i) * Vᴴ
    ρ - ρk = D ∧ trace ρ = ∑ i, w i ∧ trace ρk = (∑ i, if keep i = true then w i else 0) ∧
    trace D = ∑ i, if keep i = true then 0 else w i := by
  intro ρ ρk D
  exact ⟨VdX_sub_masked V Vᴴ w keep, by rw [trace_VDVh V _ hV, trace_diagonal],
    by rw [trace_VDVh V _ hV, trace_diagonal], by rw [trace_VDVh V _ hV, trace_diagonal]⟩

/-- non-vacuity: the eigenvector matrix of `Ex2` -/
example : (Ex2.W)ᴴ * Ex2.W = 1 := by decide +kernel

/-- **`new_norm > 0`**, so the divisions `S[piv] / new_norm` (`svd_theta`) and `W[piv] / new_norm**2` (`eigh_rho`)
are defined: for a spectrum whose entries are `0` or `> tiny` (`tiny = 1e-100` in the code; same hypothesis as
`C15_monotone_values_partial`) with at least one non-zero entry, whatever the options. -/
theorem C15_norm_new_pos (tiny : Rat) (o : Options) (S : List Rat) (h0 : 0 < tiny)
    (hS : ∀ x ∈ S, x = 0 ∨ tiny < x) (hne : ∃ x ∈ S, x ≠ 0) : 0 < (truncate tiny o S).norm2 := by
  obtain ⟨x, hxS, hx0⟩ := hne
  have hxpos : 0 < x := by
    rcases hS x hxS with h | h
    · exact absurd h hx0
    · exact lt_trans h0 h
  have hSne : S ≠ [] := fun h => by rw [h] at hxS; cases hxS
  rw [truncate_norm2]
  rcases mem_kept_or_discarded tiny o S hxS with hk | hd
  · exact lt_of_lt_of_le (mul_pos hxpos hxpos) (mul_self_le_sumSq hk)
  · have hlen := (C15_nonempty tiny o S h0 hSne).1
    obtain ⟨y, hy⟩ := List.exists_mem_of_length_pos (Nat.lt_of_lt_of_le Nat.zero_lt_one hlen)
    have hxy := C15_monotone_values_partial tiny o S h0 hS x hd y hy
    have hypos : 0 < y := lt_of_lt_of_le hxpos hxy
    exact lt_of_lt_of_le (mul_pos hypos hypos) (mul_self_le_sumSq hy)

/-- non-vacuity: the normalised spectrum of `Ex2` meets the hypotheses; `new_norm² = 225/289`. -/
example : (0 : Rat) < Ex2.tiny ∧ (∀ x ∈ List.ofFn Ex2.σ, x = 0 ∨ Ex2.tiny < x) ∧ (∃ x ∈ List.ofFn Ex2.σ, x ≠ 0) ∧
    Ex2.eighR.norm2 = 225 / 289 := by
  decide +kernel
