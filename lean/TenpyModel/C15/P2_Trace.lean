import TenpyModel.C15.P2_Sub
import Mathlib.Data.Matrix.Mul
import Mathlib.LinearAlgebra.Matrix.Trace
/-!
# C15 (part 2) — Frobenius inner products of products with isometries

Generic (`*`-ring) matrix lemmas behind `C15_eigh_rho_error` and `C15_qr_theta_error`:
`⟨X, Y⟩ = trace (Xᴴ Y)`, `‖X‖² = ⟨X, X⟩`.
-/
open Matrix

namespace TenpyModel.C15

section generic
variable {m a b n k R : Type*} [Fintype m] [Fintype a] [Fintype b] [Fintype n] [Fintype k]
  [DecidableEq a] [DecidableEq b] [DecidableEq k] [CommRing R] [StarRing R]

/-- `⟨U D V, U E V⟩ = ⟨D, E⟩` for `Uᴴ U = 1`, `V Vᴴ = 1` (rectangular `D`, `E`). -/
theorem trace_UDV_UEV (U : Matrix m a R) (D E : Matrix a b R) (V : Matrix b n R)
    (hU : Uᴴ * U = 1) (hV : V * Vᴴ = 1) :
    trace ((U * D * V)ᴴ * (U * E * V)) = trace (Dᴴ * E) := by
  have h1 : (U * D * V)ᴴ * (U * E * V) = Vᴴ * (Dᴴ * E) * V := by
    rw [conjTranspose_mul, conjTranspose_mul]
    calc Vᴴ * (Dᴴ * Uᴴ) * (U * E * V) = Vᴴ * (Dᴴ * (Uᴴ * U) * E) * V := by
          simp only [Matrix.mul_assoc]
      _ = Vᴴ * (Dᴴ * E) * V := by rw [hU, Matrix.mul_one]
  rw [h1, Matrix.trace_mul_comm, ← Matrix.mul_assoc, hV, Matrix.one_mul]

theorem trace_diag_diag (d d' : k → R) :
    trace ((diagonal d)ᴴ * diagonal d') = ∑ i, star (d i) * d' i := by
  rw [diagonal_conjTranspose, diagonal_mul_diagonal, trace_diagonal]
  rfl

/-- `‖θ - A Y B‖² = ‖θ‖² - ⟨Ξ, Y⟩ - ⟨Y, Ξ⟩ + ‖Y‖²` with `Ξ = Aᴴ θ Bᴴ`, for isometries `A`, `Bᴴ`. -/
theorem frob_sub_AYB (θ : Matrix m n R) (A : Matrix m a R) (B : Matrix b n R) (Y : Matrix a b R)
    (hA : Aᴴ * A = 1) (hB : B * Bᴴ = 1) :
    trace ((θ - A * Y * B)ᴴ * (θ - A * Y * B))
      = trace (θᴴ * θ) - trace ((Aᴴ * θ * Bᴴ)ᴴ * Y) - trace (Yᴴ * (Aᴴ * θ * Bᴴ)) + trace (Yᴴ * Y) := by
  have e1 : trace (θᴴ * (A * Y * B)) = trace ((Aᴴ * θ * Bᴴ)ᴴ * Y) := by
    rw [conjTranspose_mul, conjTranspose_mul, conjTranspose_conjTranspose, conjTranspose_conjTranspose]
    rw [show θᴴ * (A * Y * B) = (θᴴ * A * Y) * B by simp only [Matrix.mul_assoc]]
    rw [Matrix.trace_mul_comm]
    simp only [Matrix.mul_assoc]
  have e2 : trace ((A * Y * B)ᴴ * θ) = trace (Yᴴ * (Aᴴ * θ * Bᴴ)) := by
    rw [conjTranspose_mul, conjTranspose_mul]
    rw [show Bᴴ * (Yᴴ * Aᴴ) * θ = Bᴴ * (Yᴴ * Aᴴ * θ) by simp only [Matrix.mul_assoc]]
    rw [Matrix.trace_mul_comm]
    simp only [Matrix.mul_assoc]
  have e3 := trace_UDV_UEV A Y Y B hA hB
  rw [conjTranspose_sub, Matrix.sub_mul, Matrix.mul_sub, Matrix.mul_sub, trace_sub, trace_sub, trace_sub,
    e1, e2, e3]
  ring

/-- **QR-based decomposition, core identity.**  `A`, `Bᴴ` isometries, bond matrix
`Ξ = Aᴴ θ Bᴴ = U diag(s) V` with `Uᴴ U = 1`, `V Vᴴ = 1`; the approximation
`θ' = A (U diag(s restricted to the mask) V) B` satisfies `‖θ - θ'‖² = ‖θ‖² - Σ_{kept} |s_i|²`. -/
theorem frob_sub_A_masked_B (θ : Matrix m n R) (A : Matrix m a R) (B : Matrix b n R)
    (U : Matrix a k R) (V : Matrix k b R) (s : k → R) (keep : k → Bool)
    (hA : Aᴴ * A = 1) (hB : B * Bᴴ = 1) (hU : Uᴴ * U = 1) (hV : V * Vᴴ = 1)
    (hXi : Aᴴ * θ * Bᴴ = U * diagonal s * V) :
    trace ((θ - A * (U * diagonal (fun i => if keep i = true then s i else 0) * V) * B)ᴴ *
        (θ - A * (U * diagonal (fun i => if keep i = true then s i else 0) * V) * B))
      = trace (θᴴ * θ) - ∑ i, if keep i = true then star (s i) * s i else 0 := by
  rw [frob_sub_AYB θ A B _ hA hB, hXi, trace_UDV_UEV U _ _ V hU hV, trace_UDV_UEV U _ _ V hU hV,
    trace_UDV_UEV U _ _ V hU hV, trace_diag_diag, trace_diag_diag, trace_diag_diag]
  have h1 : (∑ i, star (s i) * (if keep i = true then s i else 0))
      = ∑ i, if keep i = true then star (s i) * s i else 0 :=
    Finset.sum_congr rfl (fun i _ => by by_cases h : keep i = true <;> simp [h])
  have h2 : (∑ i, star (if keep i = true then s i else 0) * s i)
      = ∑ i, if keep i = true then star (s i) * s i else 0 :=
    Finset.sum_congr rfl (fun i _ => by by_cases h : keep i = true <;> simp [h])
  have h3 : (∑ i, star (if keep i = true then s i else 0) * (if keep i = true then s i else 0))
      = ∑ i, if keep i = true then star (s i) * s i else 0 :=
    Finset.sum_congr rfl (fun i _ => by by_cases h : keep i = true <;> simp [h])
  rw [h1, h2, h3]
  ring

/-- `trace (V D Vᴴ) = trace D` when the columns of `V` are orthonormal -/
theorem trace_VDVh (V : Matrix m a R) (D : Matrix a a R) (hV : Vᴴ * V = 1) :
    trace (V * D * Vᴴ) = trace D := by
  rw [Matrix.trace_mul_comm, ← Matrix.mul_assoc, hV, Matrix.one_mul]

omit [Fintype a] in
/-- a sub-matrix of columns of a matrix with orthonormal columns has orthonormal columns -/
theorem submatrix_cols_orthonormal {c : Type*} [Fintype c] [DecidableEq c] (U : Matrix m a R)
    (e : c → a) (he : Function.Injective e) (hU : Uᴴ * U = 1) :
    (U.submatrix id e)ᴴ * U.submatrix id e = 1 := by
  ext i j
  have h := congrFun (congrFun hU (e i)) (e j)
  rw [Matrix.mul_apply] at h ⊢
  simp only [conjTranspose_apply, submatrix_apply, id_eq] at h ⊢
  rw [h, Matrix.one_apply, Matrix.one_apply]
  by_cases hij : i = j
  · rw [if_pos hij, if_pos (congrArg e hij)]
  · rw [if_neg hij, if_neg (fun hc => hij (he hc))]

omit [Fintype a] in
/-- a sub-matrix of rows of a matrix with orthonormal rows has orthonormal rows -/
theorem submatrix_rows_orthonormal {c : Type*} [Fintype c] [DecidableEq c] (V : Matrix a n R)
    (e : c → a) (he : Function.Injective e) (hV : V * Vᴴ = 1) :
    V.submatrix e id * (V.submatrix e id)ᴴ = 1 := by
  ext i j
  have h := congrFun (congrFun hV (e i)) (e j)
  rw [Matrix.mul_apply] at h ⊢
  simp only [conjTranspose_apply, submatrix_apply, id_eq] at h ⊢
  rw [h, Matrix.one_apply, Matrix.one_apply]
  by_cases hij : i = j
  · rw [if_pos hij, if_pos (congrArg e hij)]
  · rw [if_neg hij, if_neg (fun hc => hij (he hc))]

end generic

/-- quadratic form of `V diag(d) Vᵀ`: `xᵀ (V diag(d) Vᵀ) x = Σ_i d_i (xᵀ V)_i²` -/
theorem quadform_VDVt {m k R : Type*} [Fintype m] [Fintype k] [DecidableEq k] [CommRing R]
    (V : Matrix m k R) (d : k → R) (x : m → R) :
    x ⬝ᵥ (V * diagonal d * Vᵀ) *ᵥ x = ∑ i, d i * ((x ᵥ* V) i * (x ᵥ* V) i) := by
  rw [Matrix.dotProduct_mulVec, ← Matrix.vecMul_vecMul, ← Matrix.vecMul_vecMul,
    ← Matrix.dotProduct_mulVec, Matrix.mulVec_transpose]
  unfold dotProduct
  apply Finset.sum_congr rfl
  intro i _
  rw [Matrix.vecMul_diagonal]
  ring

end TenpyModel.C15
