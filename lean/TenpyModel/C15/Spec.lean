import TenpyModel.C15.Truncate
/-!
Specification of `truncate` in the words of its documentation (no arrays, no masks).

`ss` is the spectrum in ascending order, a *cut* `i` means "discard the `i` smallest values, keep the
other `n - i`".  Each documented constraint is a predicate on cuts; the documented priority rule
("if a constraint can not be fulfilled without violating a previous one, it is ignored") is
`refine`; the answer is the least admissible cut ("keep as many values as allowed").
-/
namespace TenpyModel.C15

/-- "keep at most `c` values" -/
def KeepAtMost (n c i : Nat) : Prop := n - i ≤ c

/-- "keep at least `m` values" -/
def KeepAtLeast (n m i : Nat) : Prop := m ≤ n - i

/-- "don't cut between neighbouring values with `log(S[i]/S[i-1]) < degeneracy_tol`" (`r = exp tol`) -/
def NoSplit (tiny r : Rat) (ss : List Rat) (i : Nat) : Prop :=
  i = 0 ∨ r * key tiny (ss.getD (i - 1) 0) ≤ key tiny (ss.getD i 0)

/-- "discard all values below `svd_min`": every kept value is at least `m` -/
def AboveMin (tiny m : Rat) (ss : List Rat) (i : Nat) : Prop := ∀ x ∈ ss.drop i, m ≤ key tiny x

/-- "discard small values as long as the discarded weight is at most `trunc_cut²`": the budget is
used up, i.e. discarding the next value as well would exceed it -/
def BudgetUsed (t : Rat) (ss : List Rat) (i : Nat) : Prop := t * t < sumSq (ss.take (i + 1))

/-- The priority rule.  `A` = cuts still admissible, `C` = next constraint: if some admissible cut
satisfies `C`, only those stay admissible; otherwise `C` is ignored. -/
def refine (A C : Nat → Prop) (i : Nat) : Prop := A i ∧ ((∃ j, A j ∧ C j) → C i)

/-- a constraint whose option is `None` is no constraint -/
def optC {α : Type} (o : Option α) (C : α → Nat → Prop) (i : Nat) : Prop :=
  match o with
  | none => True
  | some a => C a i

def adm0 (ss : List Rat) : Nat → Prop := fun i => i < ss.length
def adm1 (o : Options) (ss : List Rat) : Nat → Prop :=
  refine (adm0 ss) (optC o.chiMax (KeepAtMost ss.length))
def adm2 (o : Options) (ss : List Rat) : Nat → Prop :=
  refine (adm1 o ss) (optC o.chiMin (KeepAtLeast ss.length))
def adm3 (tiny : Rat) (o : Options) (ss : List Rat) : Nat → Prop :=
  refine (adm2 o ss) (optC o.degR (fun r => NoSplit tiny r ss))
def adm4 (tiny : Rat) (o : Options) (ss : List Rat) : Nat → Prop :=
  refine (adm3 tiny o ss) (optC o.svdMin (fun m => AboveMin tiny m ss))
/-- the cuts admissible after all five constraints, in documented priority
chi_max > chi_min > degeneracy_tol > svd_min > trunc_cut -/
def adm (tiny : Rat) (o : Options) (ss : List Rat) : Nat → Prop :=
  refine (adm4 tiny o ss) (optC o.truncCut (fun t => BudgetUsed t ss))

/-- ascending in the order the code sorts by -/
def SortedByKey (tiny : Rat) (ss : List Rat) : Prop := ss.Pairwise (fun a b => key tiny a ≤ key tiny b)

end TenpyModel.C15
