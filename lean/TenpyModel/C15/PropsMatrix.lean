import TenpyModel.C15.Props
import Mathlib.LinearAlgebra.Matrix.Trace
import Mathlib.Data.Matrix.Mul
import Mathlib.Algebra.Star.BigOperators
import Mathlib.Algebra.BigOperators.Fin
/-!
# C15 — truncated decompositions: reconstruction error = reported error

`svd_theta` returns `U[:, mask]`, `S' = ŝ[mask] / norm_new`, `VH[mask, :]`, `err`, and
`renormalization = ‖s‖ * norm_new`, where `ŝ = s / ‖s‖` are the normalised singular values of
`θ = U diag(s) VH` and `mask, norm_new, err = truncate(ŝ, options)`.
`renormalization * U[:, mask] diag(S') VH[mask, :] = U diag(s restricted to mask) VH`
(`C15_svd_theta_renorm`: `S' * renormalization` are the kept `s`), so the statement
"squared relative reconstruction error = `err.eps`" is `C15_svd_theta_error` below.
-/
open Matrix TenpyModel.C15

namespace TenpyModel.C15

section generic
variable {m k n R : Type*} [Fintype m] [Fintype k] [Fintype n] [DecidableEq k] [CommRing R] [StarRing R]

/-- Frobenius norm² of `U D V` with orthonormal columns of `U` and rows of `V` is that of `D`. -/
theorem frob_UDV (U : Matrix m k R) (D : Matrix k k R) (V : Matrix k n R)
    (hU : Uᴴ * U = 1) (hV : V * Vᴴ = 1) :
    trace ((U * D * V)ᴴ * (U * D * V)) = trace (Dᴴ * D) := by
  have h1 : (U * D * V)ᴴ * (U * D * V) = Vᴴ * (Dᴴ * D) * V := by
    rw [conjTranspose_mul, conjTranspose_mul]
    calc Vᴴ * (Dᴴ * Uᴴ) * (U * D * V) = Vᴴ * (Dᴴ * (Uᴴ * U) * D) * V := by
          simp only [Matrix.mul_assoc]
      _ = Vᴴ * (Dᴴ * D) * V := by rw [hU, Matrix.mul_one]
  rw [h1, Matrix.trace_mul_comm, ← Matrix.mul_assoc, hV, Matrix.one_mul]

theorem trace_diag_sq (d : k → R) : trace ((diagonal d)ᴴ * diagonal d) = ∑ i, star (d i) * d i := by
  rw [diagonal_conjTranspose, diagonal_mul_diagonal, trace_diagonal]
  rfl

end generic

/-! list plumbing: `S[~mask]` and sums over `Fin k` -/

theorem select_map (f : Rat → Rat) (S : List Rat) (mask : List Bool) :
    select (S.map f) mask = (select S mask).map f := by
  induction S generalizing mask with
  | nil => simp [select]
  | cons x xs ih =>
    cases mask with
    | nil => simp [select]
    | cons b bs =>
      have h := ih bs
      simp only [select, List.map_cons, List.zip_cons_cons, List.filter_cons] at h ⊢
      cases b <;> simpa using h

theorem sumSq_select_not (S : List Rat) (mask : List Bool) (hl : S.length = mask.length) :
    sumSq (select S (mask.map (fun b => !b)))
      = (List.zipWith (fun x b => if b = true then 0 else x * x) S mask).sum := by
  induction S generalizing mask with
  | nil => simp [select, sumSq_nil]
  | cons x xs ih =>
    cases mask with
    | nil => simp at hl
    | cons b bs =>
      have h := ih bs (by simpa using hl)
      cases b
      · have e : select (x :: xs) (List.map (fun b => !b) (false :: bs))
            = x :: select xs (List.map (fun b => !b) bs) := by simp [select]
        rw [e, sumSq_cons, h]; simp
      · have e : select (x :: xs) (List.map (fun b => !b) (true :: bs))
            = select xs (List.map (fun b => !b) bs) := by simp [select]
        rw [e, h]; simp

theorem sum_fin_eq_zipWith {k : Nat} (s : Fin k → Rat) (mask : List Bool) (hl : mask.length = k) :
    (∑ i : Fin k, if mask.getD i false = true then 0 else s i * s i)
      = (List.zipWith (fun x b => if b = true then 0 else x * x) (List.ofFn s) mask).sum := by
  rw [← List.sum_ofFn]
  congr 1
  apply List.ext_getElem
  · simp [hl]
  · intro i h1 h2
    simp only [List.getElem_ofFn, List.getElem_zipWith]
    have hi : i < mask.length := by simp at h1; omega
    simp [List.getD, hi]

end TenpyModel.C15

/-- **Reconstruction error of a truncated SVD = reported error** (real case, any sizes, any
orthonormal factors, any singular values `s` — unsorted, with ties and zeros — any options).
With `θ = U diag(s) V`, `N = ‖s‖`, `r = truncate(s / N, options)` and
`θ' = U diag(s restricted to r.mask) V` (which is `renormalization * U[:,mask] diag(S') V[mask,:]`):
`‖θ - θ'‖² = r.err.eps * ‖θ‖²`   (Frobenius norms as traces). -/
theorem C15_svd_theta_error {m k n : Nat} (U : Matrix (Fin m) (Fin k) Rat) (V : Matrix (Fin k) (Fin n) Rat)
    (s : Fin k → Rat) (hU : Uᵀ * U = 1) (hV : V * Vᵀ = 1) (tiny : Rat) (o : Options)
    (N : Rat) (hN : N * N = sumSq (List.ofFn s)) (hN0 : N ≠ 0) :
    let r := truncate tiny o ((List.ofFn s).map (· / N))
    let keep : Fin k → Bool := fun i => r.mask.getD i false
    let θ := U * diagonal s * V
    let θ' := U * diagonal (fun i => if keep i = true then s i else 0) * V
    trace ((θ - θ')ᵀ * (θ - θ')) = r.err.eps * trace (θᵀ * θ) := by
  intro r keep θ θ'
  have hU' : Uᴴ * U = 1 := by simpa [conjTranspose_eq_transpose_of_trivial] using hU
  have hV' : V * Vᴴ = 1 := by simpa [conjTranspose_eq_transpose_of_trivial] using hV
  have hd : θ - θ' = U * diagonal (fun i => if keep i = true then 0 else s i) * V := by
    simp only [θ, θ']
    rw [← Matrix.sub_mul, ← Matrix.mul_sub, diagonal_sub]
    congr 3
    funext i
    by_cases h : keep i = true <;> simp [h]
  have h1 := frob_UDV U (diagonal (fun i => if keep i = true then 0 else s i)) V hU' hV'
  have h2 := frob_UDV U (diagonal s) V hU' hV'
  simp only [conjTranspose_eq_transpose_of_trivial] at h1 h2
  rw [hd, h1, show θ = U * diagonal s * V from rfl, h2]
  have t1 := trace_diag_sq (R := Rat) (fun i => if keep i = true then 0 else s i)
  have t2 := trace_diag_sq (R := Rat) s
  simp only [conjTranspose_eq_transpose_of_trivial, star_trivial] at t1 t2
  rw [t1, t2]
  -- Σ over discarded of s² = eps · N²
  have hmask : r.mask.length = k := by
    rw [truncate_mask_length]; simp
  have e1 : (∑ i : Fin k, (if keep i = true then 0 else s i) * (if keep i = true then 0 else s i))
      = ∑ i : Fin k, if r.mask.getD i false = true then 0 else s i * s i := by
    apply Finset.sum_congr rfl
    intro i _
    show _ = if keep i = true then 0 else s i * s i
    by_cases h : keep i = true
    · rw [if_pos h, if_pos h, mul_zero]
    · rw [if_neg h, if_neg h]
  have e2 : (∑ i : Fin k, s i * s i) = sumSq (List.ofFn s) := by
    rw [← List.sum_ofFn]
    unfold sumSq TenpyModel.C15.sq
    congr 1
    apply List.ext_getElem <;> simp
  rw [e1, e2, sum_fin_eq_zipWith s r.mask hmask,
    ← sumSq_select_not (List.ofFn s) r.mask (by simp [hmask])]
  rw [truncate_eps, truncate_disc_select, select_map, sumSq_map_div _ _ hN0, ← hN]
  field_simp
  rfl

/-- complex / general version of the matrix part: for any `*`-ring, any factors with `Uᴴ U = 1`,
`V Vᴴ = 1`, any diagonal `s` and any mask, the squared Frobenius distance between `U diag(s) V` and
its masked version is the weight of the masked-out entries. -/
theorem C15_masked_reconstruction_error {m k n R : Type*} [Fintype m] [Fintype k] [Fintype n]
    [DecidableEq k] [CommRing R] [StarRing R] (U : Matrix m k R) (V : Matrix k n R) (s : k → R)
    (keep : k → Bool) (hU : Uᴴ * U = 1) (hV : V * Vᴴ = 1) :
    let θ := U * diagonal s * V
    let θ' := U * diagonal (fun i => if keep i = true then s i else 0) * V
    trace ((θ - θ')ᴴ * (θ - θ')) = ∑ i, if keep i = true then 0 else star (s i) * s i := by
  intro θ θ'
  have hd : θ - θ' = U * diagonal (fun i => if keep i = true then 0 else s i) * V := by
    simp only [θ, θ']
    rw [← Matrix.sub_mul, ← Matrix.mul_sub, diagonal_sub]
    congr 3
    funext i
    by_cases h : keep i = true <;> simp [h]
  rw [hd, frob_UDV _ _ _ hU hV, trace_diag_sq]
  apply Finset.sum_congr rfl
  intro i _
  by_cases h : keep i = true <;> simp [h]

/-- non-vacuity: `U = V = 1` (2×2), `s = (3/5, 4/5)`, `chi_max = 1`: the error is `(3/5)² = 9/25` -/
example : (truncate (1 / 1000) ⟨some 1, none, none, none, none⟩ [3 / 5, 4 / 5]).err.eps = 9 / 25 := by
  decide +kernel
