import TenpyModel.C15.TruncateProofs
/-!
# C15 — truncation honours its constraints and reports its error exactly

All theorems are about the executable model `TenpyModel.C15.truncate` (file `Truncate.lean`, tied to
`tenpy/linalg/truncation.py` by the correspondence run of `./check C15`) and hold for **every**
spectrum `S : List Rat` (any length ≥ 1, unsorted, unnormalised, with ties and zeros), every option
record (each option possibly `none`) and every positive replacement value `tiny`.

Vocabulary (`Spec.lean`): a cut `i` discards the `i` smallest values; `adm tiny o ss` is the set of
cuts left after applying the constraints in documented priority, a constraint that no remaining
cut satisfies being ignored (`refine`).
-/
open TenpyModel.C15

namespace TenpyModel.C15

theorem adm_adm4 {tiny : Rat} {o : Options} {ss : List Rat} {i : Nat} (h : adm tiny o ss i) :
    adm4 tiny o ss i := h.1
theorem adm4_adm3 {tiny : Rat} {o : Options} {ss : List Rat} {i : Nat} (h : adm4 tiny o ss i) :
    adm3 tiny o ss i := h.1
theorem adm3_adm2 {tiny : Rat} {o : Options} {ss : List Rat} {i : Nat} (h : adm3 tiny o ss i) :
    adm2 o ss i := h.1
theorem adm2_adm1 {o : Options} {ss : List Rat} {i : Nat} (h : adm2 o ss i) : adm1 o ss i := h.1
theorem adm1_adm0 {o : Options} {ss : List Rat} {i : Nat} (h : adm1 o ss i) : adm0 ss i := h.1

theorem adm_lt {tiny : Rat} {o : Options} {ss : List Rat} {i : Nat} (h : adm tiny o ss i) :
    i < ss.length := adm1_adm0 (adm2_adm1 (adm3_adm2 (adm4_adm3 (adm_adm4 h))))

/-- the cut chosen by `truncate`, on the sorted values -/
theorem cutOf_spec {tiny : Rat} (o : Options) {ss : List Rat} (h0 : 0 < tiny)
    (hs : SortedByKey tiny ss) (hne : ss ≠ []) :
    adm tiny o ss (cutOf tiny o ss) ∧ ∀ j, adm tiny o ss j → cutOf tiny o ss ≤ j :=
  findIdx_least (goodMask_rep o h0 hs) (adm_nonempty tiny o hne)

theorem sortedVals_ne_nil {tiny : Rat} {S : List Rat} (hne : S ≠ []) : sortedVals tiny S ≠ [] := by
  intro h
  have := sortedVals_length tiny S
  rw [h] at this
  exact hne (List.length_eq_zero_iff.1 this.symm)

/-- the facts about the cut of `truncate tiny o S`, packaged -/
theorem truncate_adm {tiny : Rat} (o : Options) {S : List Rat} (h0 : 0 < tiny) (hne : S ≠ []) :
    adm tiny o (sortedVals tiny S) (truncate tiny o S).cut ∧
    ∀ j, adm tiny o (sortedVals tiny S) j → (truncate tiny o S).cut ≤ j := by
  rw [truncate_cut]
  exact cutOf_spec o h0 (sortedVals_sorted tiny S) (sortedVals_ne_nil hne)

theorem truncate_kept_length {tiny : Rat} (o : Options) (S : List Rat) :
    (truncate tiny o S).kept.length = S.length - (truncate tiny o S).cut := by
  rw [(truncate_kept_perm tiny o S).length_eq, List.length_drop, sortedVals_length]

end TenpyModel.C15

/-! ## the cut -/

/-- **Core specification.** `truncate` sorts the spectrum ascending (`sortedVals`, a permutation of `S`
that is ascending in the order the code uses) and discards the `cut` smallest values, where `cut` is
the *least* cut in the set obtained by filtering all cuts through chi_max, chi_min, degeneracy_tol,
svd_min, trunc_cut in this priority, ignoring a constraint that no remaining cut satisfies: it keeps
as many values as the constraints allow, and a dropped constraint never releases an earlier one. -/
theorem C15_cut_spec (tiny : Rat) (o : Options) (S : List Rat) (h0 : 0 < tiny) (hne : S ≠ []) :
    (sortedVals tiny S).Perm S ∧ SortedByKey tiny (sortedVals tiny S) ∧
    adm tiny o (sortedVals tiny S) (truncate tiny o S).cut ∧
    (∀ j, adm tiny o (sortedVals tiny S) j → (truncate tiny o S).cut ≤ j) ∧
    (truncate tiny o S).kept.Perm ((sortedVals tiny S).drop (truncate tiny o S).cut) ∧
    (truncate tiny o S).discarded.Perm ((sortedVals tiny S).take (truncate tiny o S).cut) :=
  ⟨sortedVals_perm tiny S, sortedVals_sorted tiny S, (truncate_adm o h0 hne).1, (truncate_adm o h0 hne).2,
    truncate_kept_perm tiny o S, truncate_disc_perm tiny o S⟩

/-- `_combine_constraints` implements the priority rule: if `g` is the bool array of the admissible
set `A` and `f` decides the constraint `C`, the combined array is the array of `refine A C`
(`A ∩ C` if that is non-empty, else `A`). -/
theorem C15_combine_constraints {n : Nat} {g : List Bool} {A C : Nat → Prop} {f : Nat → Bool}
    (hg : Rep n g A) (hf : ∀ i, i < n → (f i = true ↔ C i)) :
    Rep n (combine g (maskOf n f)).1 (refine A C) ∧
    ((combine g (maskOf n f)).2 = true ↔ ¬ ∃ j, A j ∧ C j) := by
  refine ⟨combine_rep hg hf, ?_⟩
  have hk : ∀ i, (List.zipWith (fun a b => a && b) g (maskOf n f))[i]? = some true ↔ A i ∧ C i := by
    intro i
    rw [zipAnd_getElem?, hg.2 i, maskOf_getElem?]
    constructor
    · rintro ⟨ha, hm⟩
      have hi := hg.lt ha
      rw [if_pos hi] at hm
      exact ⟨ha, (hf i hi).1 (by simpa using hm)⟩
    · rintro ⟨ha, hc⟩
      have hi := hg.lt ha
      rw [if_pos hi]
      exact ⟨ha, by simpa using (hf i hi).2 hc⟩
  unfold combine
  by_cases hany : (List.zipWith (fun a b => a && b) g (maskOf n f)).any id = true
  · rw [if_pos hany]
    obtain ⟨j, hj⟩ := (any_id_iff _).1 hany
    simp only [Bool.false_eq_true, false_iff, not_not]
    exact ⟨j, (hk j).1 hj⟩
  · rw [if_neg hany]
    simp only [true_iff]
    rintro ⟨j, hj⟩
    exact hany ((any_id_iff _).2 ⟨j, (hk j).2 hj⟩)

/-- **At least one value is kept**, whatever the options. -/
theorem C15_nonempty (tiny : Rat) (o : Options) (S : List Rat) (h0 : 0 < tiny) (hne : S ≠ []) :
    1 ≤ (truncate tiny o S).kept.length ∧
    (truncate tiny o S).kept.length = S.length - (truncate tiny o S).cut ∧
    (truncate tiny o S).cut < S.length := by
  have h := adm_lt (truncate_adm o h0 hne).1
  rw [sortedVals_length] at h
  rw [truncate_kept_length]
  omega

/-- **chi_max is always respected** (it has the highest priority): with `chi_max ≥ 1` at most
`chi_max` values are kept, whatever the other options say. -/
theorem C15_chi_max (tiny : Rat) (o : Options) (S : List Rat) (h0 : 0 < tiny) (hne : S ≠ [])
    (c : Nat) (hc : o.chiMax = some c) (h1 : 1 ≤ c) : (truncate tiny o S).kept.length ≤ c := by
  have h := adm2_adm1 (adm3_adm2 (adm4_adm3 (adm_adm4 (truncate_adm o h0 hne).1)))
  have hlen := sortedVals_length tiny S
  have hpos : 0 < S.length := List.length_pos_iff.2 hne
  unfold adm1 refine at h
  rw [hc] at h
  have hk := h.2 ⟨S.length - 1, by unfold adm0; omega, by simp only [optC, KeepAtMost]; omega⟩
  simp only [optC, KeepAtMost] at hk
  rw [truncate_kept_length]
  omega

/-- **chi_min is respected whenever it is compatible with chi_max and the length**: if
`chi_min ≤ n` and (`chi_max` is `None`, or `0` = "no limit" as coded, or `chi_min ≤ chi_max`), at
least `chi_min` values are kept — degeneracy_tol, svd_min and trunc_cut can not override it. -/
theorem C15_chi_min (tiny : Rat) (o : Options) (S : List Rat) (h0 : 0 < tiny) (hne : S ≠ [])
    (m : Nat) (hm : o.chiMin = some m) (hmn : m ≤ S.length)
    (hcm : ∀ c, o.chiMax = some c → c = 0 ∨ m ≤ c) : m ≤ (truncate tiny o S).kept.length := by
  have h := adm3_adm2 (adm4_adm3 (adm_adm4 (truncate_adm o h0 hne).1))
  have hlen := sortedVals_length tiny S
  have hpos : 0 < S.length := List.length_pos_iff.2 hne
  unfold adm2 refine at h
  rw [hm] at h
  have hw : adm1 o (sortedVals tiny S) (S.length - max m 1) := by
    unfold adm1 refine
    refine ⟨by unfold adm0; omega, ?_⟩
    rintro ⟨j, hj0, hjc⟩
    unfold adm0 at hj0
    cases hcx : o.chiMax with
    | none => simp [optC]
    | some c =>
      rw [hcx] at hjc
      simp only [optC, KeepAtMost] at hjc ⊢
      rcases hcm c hcx with h | h <;> omega
  have hk := h.2 ⟨S.length - max m 1, hw, by simp only [optC, KeepAtLeast]; omega⟩
  simp only [optC, KeepAtLeast] at hk
  rw [truncate_kept_length]
  omega

/-- **Monotone**: in the order the code sorts by (`key`: the value, non-positive values counted as
`tiny`), no discarded value exceeds a kept one. -/
theorem C15_monotone (tiny : Rat) (o : Options) (S : List Rat) :
    ∀ d ∈ (truncate tiny o S).discarded, ∀ k ∈ (truncate tiny o S).kept, key tiny d ≤ key tiny k := by
  intro d hd k hk
  have hd' := (truncate_disc_perm tiny o S).mem_iff.1 hd
  have hk' := (truncate_kept_perm tiny o S).mem_iff.1 hk
  have hs := sortedVals_sorted tiny S
  unfold SortedByKey at hs
  rw [← List.take_append_drop (truncate tiny o S).cut (sortedVals tiny S), List.pairwise_append] at hs
  exact hs.2.2 d hd' k hk'

/-
Full statement (for all non-negative spectra):
  ∀ S, (∀ x ∈ S, 0 ≤ x) → ∀ d ∈ discarded, ∀ k ∈ kept, d ≤ k
It is FALSE of the code as written (`C15_monotone_values_counterexample`): a positive value below the
replacement value `1e-100` is sorted *before* an exact zero.  What the proof needs is that no positive
value lies at or below `tiny`:
-/
/-- **Monotone in the values themselves**, for non-negative spectra without positive entries `≤ tiny`
(`tiny = 1e-100` in the code): truncation never discards a value larger than one it keeps. -/
theorem C15_monotone_values_partial (tiny : Rat) (o : Options) (S : List Rat) (h0 : 0 < tiny)
    (hS : ∀ x ∈ S, x = 0 ∨ tiny < x) :
    ∀ d ∈ (truncate tiny o S).discarded, ∀ k ∈ (truncate tiny o S).kept, d ≤ k := by
  intro d hd k hk
  have hkey := C15_monotone tiny o S d hd k hk
  have hdS : d ∈ S := (sortedVals_perm tiny S).mem_iff.1
    (List.mem_of_mem_take ((truncate_disc_perm tiny o S).mem_iff.1 hd))
  have hkS : k ∈ S := (sortedVals_perm tiny S).mem_iff.1
    (List.mem_of_mem_drop ((truncate_kept_perm tiny o S).mem_iff.1 hk))
  unfold key at hkey
  rcases hS d hdS with hd0 | hdt <;> rcases hS k hkS with hk0 | hkt
  · rw [hd0, hk0]
  · rw [hd0]; exact le_of_lt (lt_trans h0 hkt)
  · rw [hk0] at hkey
    rw [if_neg (not_le.2 (lt_trans h0 hdt)), if_pos (le_refl 0)] at hkey
    exact absurd hkey (not_le.2 hdt)
  · rw [if_neg (not_le.2 (lt_trans h0 hdt)), if_neg (not_le.2 (lt_trans h0 hkt))] at hkey
    exact hkey

/-- The hypothesis of `C15_monotone_values_partial` can not be dropped: with replacement value `1/8`,
the non-negative spectrum `[1/16, 0]` and `chi_max = 1`, the positive value `1/16` is discarded and
the zero is kept (the code behaves the same with `1e-200` in place of `1/16`, see known findings). -/
theorem C15_monotone_values_counterexample :
    ¬ (∀ (tiny : Rat) (o : Options) (S : List Rat), 0 < tiny → (∀ x ∈ S, 0 ≤ x) →
        ∀ d ∈ (truncate tiny o S).discarded, ∀ k ∈ (truncate tiny o S).kept, d ≤ k) := by
  intro h
  have := h (1 / 8) ⟨some 1, none, none, none, none⟩ [1 / 16, 0] (by decide +kernel)
    (by decide +kernel) (1 / 16) (by decide +kernel) 0 (by decide +kernel)
  exact absurd this (by decide +kernel)

/-- **No cut inside a degenerate multiplet** when the degeneracy constraint survived, i.e. when some
cut admissible for chi_max/chi_min does not split a multiplet: then the chosen cut is `0` or the
values on its two sides differ by at least the factor `r = exp(degeneracy_tol)`. -/
theorem C15_degeneracy (tiny : Rat) (o : Options) (S : List Rat) (h0 : 0 < tiny) (hne : S ≠ [])
    (r : Rat) (hr : o.degR = some r)
    (hsurv : ∃ j, adm2 o (sortedVals tiny S) j ∧ NoSplit tiny r (sortedVals tiny S) j) :
    NoSplit tiny r (sortedVals tiny S) (truncate tiny o S).cut := by
  have h := adm4_adm3 (adm_adm4 (truncate_adm o h0 hne).1)
  unfold adm3 refine at h
  rw [hr] at h
  exact h.2 hsurv

/-- the degeneracy constraint always survives when chi_max does not force a truncation
(`chi_max` is `None` or `≥ n`): cutting nothing splits nothing. -/
theorem C15_degeneracy_survives (tiny : Rat) (o : Options) (S : List Rat) (hne : S ≠ []) (r : Rat)
    (hcm : ∀ c, o.chiMax = some c → S.length ≤ c) :
    ∃ j, adm2 o (sortedVals tiny S) j ∧ NoSplit tiny r (sortedVals tiny S) j := by
  have hlen := sortedVals_length tiny S
  have hpos : 0 < S.length := List.length_pos_iff.2 hne
  have h1 : adm1 o (sortedVals tiny S) 0 := by
    refine ⟨by unfold adm0; omega, fun _ => ?_⟩
    cases hcx : o.chiMax with
    | none => simp [optC]
    | some c => have := hcm c hcx; simp only [optC, KeepAtMost]; omega
  refine ⟨0, ⟨h1, fun hex => ?_⟩, Or.inl rfl⟩
  -- the constraint is only asserted if some admissible cut satisfies it; cut 0 keeps the most
  obtain ⟨j, _, hj⟩ := hex
  cases hcn : o.chiMin with
  | none => simp [optC]
  | some m =>
    rw [hcn] at hj
    simp only [optC, KeepAtLeast] at hj ⊢
    omega

/-- **Nothing below svd_min is kept** when that constraint survived (some cut admissible for the
earlier constraints keeps only values `≥ svd_min`). -/
theorem C15_svd_min (tiny : Rat) (o : Options) (S : List Rat) (h0 : 0 < tiny) (hne : S ≠ [])
    (m : Rat) (hm : o.svdMin = some m)
    (hsurv : ∃ j, adm3 tiny o (sortedVals tiny S) j ∧ AboveMin tiny m (sortedVals tiny S) j) :
    ∀ k ∈ (truncate tiny o S).kept, m ≤ key tiny k := by
  have h := adm_adm4 (truncate_adm o h0 hne).1
  unfold adm4 refine at h
  rw [hm] at h
  intro k hk
  exact h.2 hsurv k ((truncate_kept_perm tiny o S).mem_iff.1 hk)

/-- **trunc_cut.**  When the constraint survived: (1) the budget is used up — discarding the next
value as well would exceed `trunc_cut²` (all values that fit are discarded); (2) if the earlier
constraints would also have admitted discarding one value less, the discarded weight is within the
budget, `eps ≤ trunc_cut²`.  (When chi_max or svd_min force a deeper cut the discarded weight may
exceed the budget: documented priority.) -/
theorem C15_trunc_cut (tiny : Rat) (o : Options) (S : List Rat) (h0 : 0 < tiny) (hne : S ≠ [])
    (t : Rat) (ht : o.truncCut = some t)
    (hsurv : ∃ j, adm4 tiny o (sortedVals tiny S) j ∧ BudgetUsed t (sortedVals tiny S) j) :
    BudgetUsed t (sortedVals tiny S) (truncate tiny o S).cut ∧
    ((truncate tiny o S).cut = 0 ∨ ¬ adm4 tiny o (sortedVals tiny S) ((truncate tiny o S).cut - 1) ∨
      (truncate tiny o S).err.eps ≤ t * t) := by
  have hadm := truncate_adm o h0 hne
  have h := hadm.1
  unfold adm refine at h
  rw [ht] at h
  refine ⟨h.2 hsurv, ?_⟩
  by_cases hc0 : (truncate tiny o S).cut = 0
  · exact Or.inl hc0
  · right
    by_cases h4 : adm4 tiny o (sortedVals tiny S) ((truncate tiny o S).cut - 1)
    · right
      have hnot : ¬ adm tiny o (sortedVals tiny S) ((truncate tiny o S).cut - 1) := by
        intro ha
        have := hadm.2 _ ha
        omega
      have hnb : ¬ BudgetUsed t (sortedVals tiny S) ((truncate tiny o S).cut - 1) := by
        intro hb
        apply hnot
        unfold adm refine
        rw [ht]
        exact ⟨h4, fun _ => hb⟩
      unfold BudgetUsed at hnb
      rw [Nat.sub_add_cancel (Nat.one_le_iff_ne_zero.2 hc0)] at hnb
      rw [truncate_eps, sumSq_perm (truncate_disc_perm tiny o S)]
      exact not_lt.1 hnb
    · exact Or.inl h4

/-! ## the reported numbers -/

/-- **The error is reported exactly**: `eps` is the sum of the squares of the discarded values (the
`cut` smallest), `norm_new²` the sum of the squares of the kept ones, together they are the weight
of the whole (unsorted, unnormalised) input, and `ov = 1 - 2 eps`. -/
theorem C15_error_exact (tiny : Rat) (o : Options) (S : List Rat) :
    (truncate tiny o S).err.eps = sumSq (truncate tiny o S).discarded ∧
    (truncate tiny o S).err.eps = sumSq ((sortedVals tiny S).take (truncate tiny o S).cut) ∧
    (truncate tiny o S).norm2 = sumSq (truncate tiny o S).kept ∧
    (truncate tiny o S).norm2 = sumSq ((sortedVals tiny S).drop (truncate tiny o S).cut) ∧
    (truncate tiny o S).err.eps + (truncate tiny o S).norm2 = sumSq S ∧
    (truncate tiny o S).err.ov = 1 - 2 * (truncate tiny o S).err.eps := by
  refine ⟨rfl, ?_, rfl, ?_, ?_, rfl⟩
  · rw [truncate_eps, sumSq_perm (truncate_disc_perm tiny o S)]
  · rw [truncate_norm2, sumSq_perm (truncate_kept_perm tiny o S)]
  · rw [truncate_eps, truncate_norm2, sumSq_perm (truncate_disc_perm tiny o S),
      sumSq_perm (truncate_kept_perm tiny o S), ← sumSq_append, List.take_append_drop,
      sumSq_perm (sortedVals_perm tiny S)]

/-- **The mask is valid**: a bool array over the original indices, `kept = S[mask]`,
`discarded = S[~mask]`, and it has exactly `n - cut` true entries. -/
theorem C15_mask_valid (tiny : Rat) (o : Options) (S : List Rat) :
    (truncate tiny o S).mask.length = S.length ∧
    (truncate tiny o S).kept = select S (truncate tiny o S).mask ∧
    (truncate tiny o S).discarded = select S ((truncate tiny o S).mask.map (fun b => !b)) ∧
    (select S (truncate tiny o S).mask).length = S.length - (truncate tiny o S).cut :=
  ⟨truncate_mask_length tiny o S, truncate_kept_select tiny o S, truncate_disc_select tiny o S,
    by rw [← truncate_kept_select]; exact truncate_kept_length o S⟩

/-! ## TruncationError -/

/-- **Addition law** of `TruncationError`: `eps` adds, `ov` multiplies; `TruncationError()` is neutral;
addition is associative and commutative. -/
theorem C15_err_add (a b c : TruncErr) :
    (a.add b).eps = a.eps + b.eps ∧ (a.add b).ov = a.ov * b.ov ∧
    a.add TruncErr.zero = a ∧ TruncErr.zero.add a = a ∧
    (a.add b).add c = a.add (b.add c) ∧ a.add b = b.add a := by
  refine ⟨rfl, rfl, ?_, ?_, ?_, ?_⟩
  · cases a; simp [TruncErr.add, TruncErr.zero]
  · cases a; simp [TruncErr.add, TruncErr.zero]
  · simp only [TruncErr.add, TruncErr.mk.injEq]; exact ⟨by ring, by ring⟩
  · simp only [TruncErr.add, TruncErr.mk.injEq]; exact ⟨by ring, by ring⟩

/-- the accumulated `ov` stays the documented lower bound: if each summand has `ov = 1 - 2 eps` with
`eps ≥ 0` (as produced by `from_S`/`from_norm`), the sum satisfies `1 - 2 eps ≤ ov`. -/
theorem C15_err_add_ov_bound (a b : TruncErr) (ha : 0 ≤ a.eps) (hb : 0 ≤ b.eps)
    (hao : 1 - 2 * a.eps ≤ a.ov) (hbo : b.ov = 1 - 2 * b.eps) (hb1 : b.eps ≤ 1 / 2) :
    1 - 2 * (a.add b).eps ≤ (a.add b).ov := by
  simp only [TruncErr.add]
  rw [hbo]
  have h1 : 0 ≤ 1 - 2 * b.eps := by linarith
  nlinarith [mul_nonneg ha hb, mul_le_mul_of_nonneg_right hao h1]

/-- `from_S` reports the discarded weight (relative to `norm_old²` when given), `from_norm` the same
number from the two norms: they agree whenever `norm_old² = kept + discarded weight`. -/
theorem C15_from_S_from_norm (disc : List Rat) (normNew normOld : Rat) (hno : normOld ≠ 0)
    (hsum : normOld * normOld = normNew * normNew + sumSq disc) :
    (TruncErr.fromS disc none).eps = sumSq disc ∧
    (TruncErr.fromS disc (some normOld)).eps = sumSq disc / (normOld * normOld) ∧
    TruncErr.fromNorm normNew normOld = TruncErr.fromS disc (some normOld) ∧
    (TruncErr.fromS disc (some normOld)).ov = 1 - 2 * (TruncErr.fromS disc (some normOld)).eps := by
  have hnn : normOld * normOld ≠ 0 := mul_ne_zero hno hno
  have he : 1 - normNew * normNew / (normOld * normOld) = sumSq disc / (normOld * normOld) := by
    field_simp
    linarith
  refine ⟨rfl, by simp [TruncErr.fromS, hno], ?_, by simp [TruncErr.fromS, hno]⟩
  simp only [TruncErr.fromNorm, TruncErr.fromS, hno, if_false, TruncErr.mk.injEq]
  exact ⟨he, by rw [he]⟩

theorem TenpyModel.C15.sumSq_map_div (s : List Rat) (N : Rat) (hN0 : N ≠ 0) :
    sumSq (s.map (· / N)) = sumSq s / (N * N) := by
  induction s with
  | nil => simp [sumSq_nil]
  | cons x xs ih =>
    rw [List.map_cons, sumSq_cons, sumSq_cons, ih]
    field_simp

/-- **Renormalisation of `svd_theta`, at the level of the singular values.**  `svd_theta` divides the
singular values `s` by `N = ‖s‖`, truncates, and returns `S' = ŝ_kept / norm_new` together with the
factor `renormalization = N * norm_new`.  Then `S' * renormalization` are the original kept singular
values, and `eps` is the discarded weight relative to `‖s‖²`.  (`N`, `nn` stand for the two square
roots.)  Together with orthonormal factors `U`, `V` this is the statement that the squared relative
reconstruction error equals `eps`. -/
theorem C15_svd_theta_renorm (tiny : Rat) (o : Options) (s : List Rat) (N nn : Rat)
    (hN : N * N = sumSq s) (hN0 : N ≠ 0)
    (hnn : nn * nn = (truncate tiny o (s.map (· / N))).norm2) (hnn0 : nn ≠ 0) :
    (∀ x ∈ (truncate tiny o (s.map (· / N))).kept, x / nn * (N * nn) = x * N) ∧
    (truncate tiny o (s.map (· / N))).err.eps + nn * nn = 1 := by
  refine ⟨fun x _ => by field_simp, ?_⟩
  have h := (C15_error_exact tiny o (s.map (· / N))).2.2.2.2.1
  rw [hnn, h]
  have hsq := sumSq_map_div s N hN0
  rw [hsq, ← hN]
  field_simp

/-! ## non-vacuity: concrete runs of the model (kernel-evaluated) -/

/-- chi_max binds; the tie `1/4, 1/4` is cut through because degeneracy_tol is off -/
example : let r := truncate (1 / 1000) ⟨some 2, none, none, none, none⟩ [1 / 4, 1 / 2, 1 / 8, 1 / 4]
    (r.cut, r.mask, r.norm2, r.err.eps, r.dropped) = (2, [false, true, false, true], 5 / 16, 5 / 64, []) := by
  decide +kernel

/-- same spectrum with degeneracy_tol (`r = 3/2`): the multiplet is not split, one value is kept -/
example : let r := truncate (1 / 1000) ⟨some 2, none, some (3 / 2), none, none⟩ [1 / 4, 1 / 2, 1 / 8, 1 / 4]
    (r.cut, r.mask, r.err.eps, r.dropped) = (3, [false, true, false, false], 9 / 64, []) := by
  decide +kernel

/-- chi_min = 2 contradicts "do not split" under chi_max = 2: degeneracy_tol is ignored (warning),
chi_max and chi_min still hold -/
example : let r := truncate (1 / 1000) ⟨some 2, some 2, some (3 / 2), none, none⟩ [1 / 4, 1 / 2, 1 / 8, 1 / 4]
    (r.cut, r.kept.length, r.dropped) = (2, 2, ["degeneracy_tol"]) := by
  decide +kernel

/-- svd_min can not be met (ignored), trunc_cut exactly on a partial sum: `(3/128)² + (4/128)² =
(5/128)²` is within the budget, so both are discarded -/
example : let r := truncate (1 / 1000) ⟨none, none, none, some 2, some (5 / 128)⟩ [3 / 128, 1 / 2, 4 / 128]
    (r.cut, r.mask, r.err.eps, r.dropped) = (2, [false, true, false], 25 / 16384, ["svd_min"]) := by
  decide +kernel

/-- the hypotheses of `C15_degeneracy`, `C15_svd_min`, `C15_trunc_cut` are satisfiable together -/
example : ∃ j, adm4 (1 / 1000) ⟨some 3, some 1, some (3 / 2), some (1 / 8), some (1 / 8)⟩
      (sortedVals (1 / 1000) [1 / 4, 1 / 2, 1 / 16, 1 / 4]) j ∧
    BudgetUsed (1 / 8) (sortedVals (1 / 1000) [1 / 4, 1 / 2, 1 / 16, 1 / 4]) j := by
  refine ⟨1, ⟨⟨⟨⟨by unfold adm0; decide +kernel, fun _ => by simp only [optC, KeepAtMost]; decide +kernel⟩,
    fun _ => by simp only [optC, KeepAtLeast]; decide +kernel⟩,
    fun _ => Or.inr (by decide +kernel)⟩, fun _ => ?_⟩, by unfold BudgetUsed; decide +kernel⟩
  intro x hx
  have : x ∈ [(1 / 4 : Rat), 1 / 4, 1 / 2] := by
    have e : (sortedVals (1 / 1000) [1 / 4, 1 / 2, 1 / 16, 1 / 4]).drop 1 = [(1 / 4 : Rat), 1 / 4, 1 / 2] := by
      decide +kernel
    rw [e] at hx; exact hx
  simp only [List.mem_cons, List.not_mem_nil, or_false] at this
  rcases this with rfl | rfl | rfl <;> decide +kernel

/-- TruncationError arithmetic on a concrete instance -/
example : (TruncErr.fromS [1 / 2, 1 / 4] (some 2)).add (TruncErr.fromNorm (3 / 4) 1)
    = ⟨5 / 64 + 7 / 16, (1 - 5 / 32) * (1 - 7 / 8)⟩ := by
  decide +kernel
