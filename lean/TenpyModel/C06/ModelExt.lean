import TenpyModel.Core.Pipe
/-
C06 coverage round: executable models of the `LegCharge` / `LegPipe` / `ChargeInfo` functions of
`tenpy/linalg/charges.py` that the first rounds did not drive (constructors and conversions).
Import-free apart from the core model; NOTHING in `Core/*.lean` is changed (the 29 `C06_*` theorems and
the other properties' models depend on those definitions).  These definitions are tied to the real
code by the exact structural diff of `harness/C06.py` (kind `conv` / `pipe`); they carry no theorems.

Where the code has a defect with a pending repair (`from_qdict` sets `sorted = True` unconditionally,
`charge_sectors` calls `np.lexsort` on zero key columns) the REPAIRED behaviour is modelled
(BUILDING.md, "Genuine defects").
-/
namespace TenpyModel.Core

/-- `ChargeInfo.add`: concatenate the `mod` vectors -/
def chinfoAdd (ms : List (List Nat)) : List Nat := ms.flatten

/-- `ChargeInfo.drop(chinfo, charge)`; `none` charge = drop all -/
def chinfoDrop (mods : List Nat) : Option Nat → List Nat
  | none => []
  | some c => mods.eraseIdx c

/-- `ChargeInfo.change(chinfo, charge, new_qmod)` -/
def chinfoChange (mods : List Nat) (c newMod : Nat) : List Nat := mods.set c newMod

/-- `DipolarChargeInfo.shift_charges(charges, dx)` on one row; `cd` = `zip(charge_idcs, dipole_idcs,
dipole_dims)`; `none` = NotImplementedError (`dx[-1] != 0`) -/
def shiftCharges (mods : List Nat) (cd : List (Nat × Nat × Nat)) (dx : List Int) (q : Charge) : Option Charge :=
  if dx.getLastD 0 ≠ 0 then none
  else some (makeValid mods
    (cd.foldl (fun (q : Charge) (t : Nat × Nat × Nat) =>
      q.set t.2.1 (q.getD t.2.1 0 + dx.getD t.2.2 0 * q.getD t.1 0)) q))

namespace Leg

/-- `to_qdict`: `(charge, start, stop)` per block in block (= dict insertion) order;
`none` = ValueError (two blocks with the same charge) -/
def toQdict (l : Leg) : Option (List (Charge × Nat × Nat)) :=
  if l.charges.eraseDups.length < l.blockNumber then none
  else some (l.charges.zip (l.slices.zip l.slices.tail))

/-- `from_qdict` for the entries in dict order: sort by slice start, check contiguity.
Flags as REPAIRED (`sorted := is_sorted()`; the code sets `sorted = True`). `none` = an exception. -/
def fromQdict (mods : List Nat) (entries : List (Charge × Nat × Nat)) (qconj : Int) : Option Leg :=
  let es := stableSort (fun a b => decide (a.2.1 ≤ b.2.1)) entries
  let contiguous := (es.zip es.tail).all (fun ab => ab.1.2.2 == ab.2.2.1)
  match es.getLast? with
  | none => none
  | some last =>
    if !contiguous then none
    else some (fromQind mods (es.map (·.2.1) ++ [last.2.2]) (es.map (·.1)) qconj)

def addChargeRow (legs : List Leg) (qis : List Nat) : Charge :=
  (legs.zip qis).flatMap (fun lq => lq.1.charges.getD lq.2 [])

/-- the `while min(next_inds) < ind_len` loop of `from_add_charge` -/
def addChargeLoop (legs : List Leg) (indLen : Nat) :
    Nat → List Nat → List Nat → List Charge → List Nat × List Charge
  | 0, _, slices, charges => (slices, charges)
  | fuel + 1, qis, slices, charges =>
    let nextInds := (legs.zip qis).map (fun lq => lq.1.slices.getD (lq.2 + 1) 0)
    let m := nextInds.foldl min (nextInds.headD 0)
    if m < indLen then
      let qis' := (qis.zip nextInds).map (fun qn => if qn.2 = m then qn.1 + 1 else qn.1)
      addChargeLoop legs indLen fuel qis' (slices ++ [m]) (charges ++ [addChargeRow legs qis'])
    else (slices, charges)

/-- `from_add_charge(legs)`; `none` = an exception (no leg, different length / qconj, a leg without block) -/
def fromAddCharge (legs : List Leg) : Option Leg :=
  match legs with
  | [] => none
  | l0 :: _ =>
    if legs.any (fun l => l.indLen ≠ l0.indLen) then none
    else if legs.any (fun l => l.qconj ≠ l0.qconj) then none
    else if legs.any (fun l => l.blockNumber = 0) then none
    else
      let z := legs.map (fun _ => 0)
      let fuel := (legs.map Leg.blockNumber).foldl (· + ·) 1
      let r := addChargeLoop legs l0.indLen fuel z [0] [addChargeRow legs z]
      some (fromQind (chinfoAdd (legs.map Leg.mods)) (r.1 ++ [l0.indLen]) r.2 l0.qconj)

/-- `from_drop_charge(leg, charge)` (charge by index; a name resolves to its index in `leg.chinfo`) -/
def fromDropCharge (l : Leg) : Option Nat → Option Leg
  | none => some (fromTrivial l.indLen [] l.qconj)
  | some c =>
    if c ≥ l.qnumber then none
    else some (fromQind (chinfoDrop l.mods (some c)) l.slices (l.charges.map (·.eraseIdx c)) l.qconj)

/-- `from_change_charge(leg, charge, new_qmod)` -/
def fromChangeCharge (l : Leg) (c newMod : Nat) : Option Leg :=
  if c ≥ l.qnumber then none
  else
    let mods' := chinfoChange l.mods c newMod
    some (fromQind mods' l.slices (l.charges.map (makeValid mods')) l.qconj)

/-- `apply_charge_mapping(map_func)` for a row-wise map -/
def applyChargeMapping (l : Leg) (f : Charge → Charge) : Leg :=
  { l with charges := l.charges.map f, sorted := false, bunched := false }

/-- `apply_charge_mapping(chinfo.shift_charges, dx=dx)`; `cd = none` for a plain `ChargeInfo`
(trivial shift: charges unchanged, flags still reset) -/
def shift (l : Leg) (cd : Option (List (Nat × Nat × Nat))) (dx : List Int) : Option Leg :=
  match cd with
  | none => some (l.applyChargeMapping id)
  | some cd =>
    if dx.getLastD 0 ≠ 0 then none
    else some (l.applyChargeMapping (fun q => (shiftCharges l.mods cd dx q).getD q))

/-- `charge_sectors()` (REPAIRED for `qnumber == 0`: `tools.misc.lexsort` instead of `np.lexsort`) -/
def chargeSectors (l : Leg) : List Charge :=
  let cs := if l.sorted then l.charges else take? l.charges (lexsort l.charges) []
  take? cs (findRowDifferences l.qnumber cs).dropLast []

/-- `get_qindex_of_charges(charges)`; `none` = ValueError (not found / not unique) -/
def getQindexOfCharges (l : Leg) (c : Charge) : Option Nat :=
  let t := makeValid l.mods (cscale l.qconj c)
  match (List.range l.blockNumber).filter (fun i => l.charges.getD i [] == t) with
  | [i] => some i
  | _ => none

/-- `extend(extra)` with `extra` an int -/
def extendInt (l : Leg) (n : Nat) : Leg := l.extend (fromTrivial n l.mods l.qconj)

/-- `get_slice(qindex)` -/
def getSlice (l : Leg) (qi : Nat) : Nat × Nat := (l.slices.getD qi 0, l.slices.getD (qi + 1) 0)

/-- does `LegCharge(chinfo, slices, charges, qconj)` pass the `test_sanity` of its constructor? -/
def ctorOk (mods : List Nat) (slices : List Nat) (charges : List Charge) (qconj : Int) : Bool :=
  (mk' mods slices charges qconj).sane

end Leg

namespace Pipe

/-- `LegPipe.apply_charge_mapping`: outgoing charges and every incoming leg mapped, maps untouched -/
def applyChargeMapping (p : Pipe) (f : Charge → Charge) : Pipe :=
  { p with leg := p.leg.applyChargeMapping f, legs := p.legs.map (·.applyChargeMapping f) }

def shift (p : Pipe) (cd : Option (List (Nat × Nat × Nat))) (dx : List Int) : Option Pipe :=
  match cd with
  | none => some (p.applyChargeMapping id)
  | some cd =>
    if dx.getLastD 0 ≠ 0 then none
    else some (p.applyChargeMapping (fun q => (shiftCharges p.leg.mods cd dx q).getD q))

end Pipe
end TenpyModel.Core
