import TenpyModel.Core.Charge
/-!
# C06 — helper lemmas: charge arithmetic (`make_valid`, `check_valid`, sums, scaling)
-/
namespace TenpyModel.Core

theorem mv1_idem (m : Nat) (x : Int) : mv1 m (mv1 m x) = mv1 m x := by
  unfold mv1; split
  · rfl
  · exact Int.emod_emod_of_dvd x (Int.dvd_refl _)

theorem mv1_add (m : Nat) (x y : Int) : mv1 m (x + mv1 m y) = mv1 m (x + y) := by
  unfold mv1; split
  · rfl
  · exact Int.add_emod_emod ..

theorem mv1_mul (m : Nat) (s x : Int) : mv1 m (s * mv1 m x) = mv1 m (s * x) := by
  unfold mv1; split
  · rfl
  · rw [Int.mul_emod, Int.emod_emod_of_dvd x (Int.dvd_refl _), ← Int.mul_emod]

theorem mv1_neg (m : Nat) (x : Int) : mv1 m (-(mv1 m x)) = mv1 m (-x) := by
  have := mv1_mul m (-1) x
  simpa [Int.neg_mul] using this

theorem cv1_mv1 (m : Nat) (hm : 1 ≤ m) (x : Int) : cv1 m (mv1 m x) = true := by
  unfold cv1 mv1
  by_cases h : m = 1
  · simp [h]
  · have hpos : (0 : Int) < (m : Int) := by omega
    simp [h, Int.emod_nonneg x (Int.ne_of_gt hpos), Int.emod_lt_of_pos x hpos]

theorem mv1_of_cv1 (m : Nat) (x : Int) (h : cv1 m x = true) : mv1 m x = x := by
  unfold cv1 at h; unfold mv1
  by_cases h1 : m = 1
  · simp [h1]
  · simp [h1] at h ⊢
    exact Int.emod_eq_of_lt h.1 h.2

theorem makeValid_length (m : List Nat) (q : Charge) :
    (makeValid m q).length = min m.length q.length := by
  simp [makeValid]

theorem makeValid_idem (m : List Nat) (q : Charge) : makeValid m (makeValid m q) = makeValid m q := by
  unfold makeValid
  induction m generalizing q with
  | nil => simp
  | cons a m ih =>
    cases q with
    | nil => simp
    | cons x q => simp [mv1_idem, ih]

theorem makeValid_add (m : List Nat) (a b : Charge) :
    makeValid m (cadd a (makeValid m b)) = makeValid m (cadd a b) := by
  unfold makeValid cadd
  induction m generalizing a b with
  | nil => simp
  | cons k m ih =>
    cases a with
    | nil => simp
    | cons x a =>
      cases b with
      | nil => simp
      | cons y b => simp [mv1_add, ih]

theorem cadd_comm (a b : Charge) : cadd a b = cadd b a := by
  unfold cadd
  induction a generalizing b with
  | nil => simp
  | cons x a ih =>
    cases b with
    | nil => simp
    | cons y b => simp [Int.add_comm, ih]

theorem makeValid_add_left (m : List Nat) (a b : Charge) :
    makeValid m (cadd (makeValid m a) b) = makeValid m (cadd a b) := by
  rw [cadd_comm, makeValid_add, cadd_comm]

theorem makeValid_scale (m : List Nat) (s : Int) (a : Charge) :
    makeValid m (cscale s (makeValid m a)) = makeValid m (cscale s a) := by
  unfold makeValid cscale
  induction m generalizing a with
  | nil => simp
  | cons k m ih =>
    cases a with
    | nil => simp
    | cons x a => simp only [List.zipWith_cons_cons, List.map_cons, mv1_mul, ih]

theorem cneg_eq_cscale (a : Charge) : cneg a = cscale (-1) a := by
  simp [cneg, cscale]

theorem makeValid_neg (m : List Nat) (a : Charge) :
    makeValid m (cneg (makeValid m a)) = makeValid m (cneg a) := by
  simp only [cneg_eq_cscale, makeValid_scale]

theorem checkValid_makeValid (m : List Nat) (hm : ∀ k ∈ m, 1 ≤ k) (q : Charge)
    (hq : q.length = m.length) : checkValid m (makeValid m q) = true := by
  unfold checkValid makeValid
  simp only [List.length_zipWith, hq, Nat.min_self, beq_self_eq_true, Bool.true_and]
  induction m generalizing q with
  | nil => simp
  | cons k m ih =>
    cases q with
    | nil => simp at hq
    | cons x q =>
      simp only [List.zipWith_cons_cons, List.all_cons, id_eq, Bool.and_eq_true]
      refine ⟨cv1_mv1 k (hm k (by simp)) x, ih (fun k hk => hm k (by simp [hk])) q (by simpa using hq)⟩

theorem checkValid_length {m : List Nat} {q : Charge} (h : checkValid m q = true) :
    q.length = m.length := by
  unfold checkValid at h
  simp only [Bool.and_eq_true, beq_iff_eq] at h
  exact h.1

theorem makeValid_of_checkValid (m : List Nat) (q : Charge) (h : checkValid m q = true) :
    makeValid m q = q := by
  unfold checkValid at h
  simp only [Bool.and_eq_true, beq_iff_eq] at h
  obtain ⟨hl, hv⟩ := h
  unfold makeValid
  induction m generalizing q with
  | nil => cases q with
    | nil => rfl
    | cons x q => simp at hl
  | cons k m ih =>
    cases q with
    | nil => simp at hl
    | cons x q =>
      simp only [List.zipWith_cons_cons, List.all_cons, id_eq, Bool.and_eq_true] at hv
      simp only [List.zipWith_cons_cons, mv1_of_cv1 k x hv.1, ih q (by simpa using hl) hv.2]

/-! ### scaling / negation algebra (no validity needed) -/

theorem cscale_cscale (s t : Int) (a : Charge) : cscale s (cscale t a) = cscale (s * t) a := by
  simp [cscale, Int.mul_assoc]

theorem cscale_one (a : Charge) : cscale 1 a = a := by
  simp [cscale]

theorem cscale_cadd (s : Int) (a b : Charge) : cscale s (cadd a b) = cadd (cscale s a) (cscale s b) := by
  unfold cscale cadd
  induction a generalizing b with
  | nil => simp
  | cons x a ih =>
    cases b with
    | nil => simp
    | cons y b => simp [Int.mul_add, ih]

theorem cscale_czero (s : Int) (n : Nat) : cscale s (czero n) = czero n := by
  simp [cscale, czero]

theorem cscale_foldl_cadd (s : Int) (cs : List Charge) (z : Charge) :
    cscale s (cs.foldl cadd z) = (cs.map (cscale s)).foldl cadd (cscale s z) := by
  induction cs generalizing z with
  | nil => rfl
  | cons c cs ih => simp [ih, cscale_cadd]

theorem cscale_csum (s : Int) (n : Nat) (cs : List Charge) :
    cscale s (csum n cs) = csum n (cs.map (cscale s)) := by
  unfold csum
  rw [cscale_foldl_cadd, cscale_czero]

theorem cadd_length (a b : Charge) : (cadd a b).length = min a.length b.length := by
  simp [cadd]

theorem foldl_cadd_length (cs : List Charge) (z : Charge) (n : Nat) (hz : z.length = n)
    (h : ∀ c ∈ cs, c.length = n) : (cs.foldl cadd z).length = n := by
  induction cs generalizing z with
  | nil => exact hz
  | cons c cs ih =>
    simp only [List.foldl_cons]
    apply ih
    · rw [cadd_length, hz, h c (by simp)]; simp
    · intro c' hc'; exact h c' (by simp [hc'])

theorem csum_length (n : Nat) (cs : List Charge) (h : ∀ c ∈ cs, c.length = n) :
    (csum n cs).length = n :=
  foldl_cadd_length cs _ n (by simp [czero]) h

end TenpyModel.Core
