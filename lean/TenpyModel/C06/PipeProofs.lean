import TenpyModel.Core.Pipe
import TenpyModel.C06.LegOpsProofs
/-!
# C06 — helper lemmas about `Pipe.init` and `map_incoming_flat`
-/
namespace TenpyModel.Core
namespace Pipe

/-! ### the pieces of `_init_from_legs` (general branch) -/

def gMods (legs : List Leg) : List Nat := (legs.headD (Leg.fromTrivial 1 [] 1)).mods
def gSubq (legs : List Leg) : List Nat := legs.map Leg.blockNumber
def gGrid (legs : List Leg) : List (List Nat) := gridC (gSubq legs)
def gSizes0 (legs : List Leg) : List Nat := (gGrid legs).map (blockSizeOf legs)
def gCharges0 (legs : List Leg) (qconj : Int) : List Charge :=
  if (gMods legs).length > 0 then (gGrid legs).map (fuse (gMods legs) legs qconj)
  else (gGrid legs).map (fun _ => [])
def gDoSort (legs : List Leg) (sort : Bool) : Bool := sort && decide ((gMods legs).length > 0)
def gPermQ (legs : List Leg) (qconj : Int) (sort : Bool) : List Nat :=
  if gDoSort legs sort then lexsort (gCharges0 legs qconj) else List.range (gGrid legs).length
def gGrid1 (legs : List Leg) (qconj : Int) (sort : Bool) : List (List Nat) :=
  take? (gGrid legs) (gPermQ legs qconj sort) []
def gCharges1 (legs : List Leg) (qconj : Int) (sort : Bool) : List Charge :=
  take? (gCharges0 legs qconj) (gPermQ legs qconj sort) []
def gSizes1 (legs : List Leg) (qconj : Int) (sort : Bool) : List Nat :=
  take? (gSizes0 legs) (gPermQ legs qconj sort) 0
def gSlices1 (legs : List Leg) (qconj : Int) (sort : Bool) : List Nat := slicesOfSizes (gSizes1 legs qconj sort)
def gPerm (legs : List Leg) (qconj : Int) (sort : Bool) : Option (List Nat) :=
  if gDoSort legs sort then some (inversePerm (gPermQ legs qconj sort)) else none
/-- the outgoing leg before bunching -/
def gPre (legs : List Leg) (qconj : Int) (sort : Bool) : Leg :=
  { mods := gMods legs, slices := gSlices1 legs qconj sort, charges := gCharges1 legs qconj sort, qconj,
    sorted := sort || (gMods legs).length == 0, bunched := false }
def gIdx (legs : List Leg) (qconj : Int) (sort : Bool) : List Nat :=
  findRowDifferences (gMods legs).length (gCharges1 legs qconj sort)
def gQi (legs : List Leg) (qconj : Int) (sort : Bool) : List Nat :=
  qiOfIdx (gGrid1 legs qconj sort).length (gIdx legs qconj sort)

theorem init_single (legs : List Leg) (qconj : Int) (sort bunch : Bool)
    (h : (gSubq legs).all (· == 1) = true) :
    init legs qconj sort bunch =
      { leg := { mods := gMods legs, slices := [0, (legs.map Leg.indLen).foldl (· * ·) 1],
                 charges := [fuse (gMods legs) legs qconj (legs.map (fun _ => 0))], qconj,
                 sorted := true, bunched := true },
        legs, qMap := [[0, (legs.map Leg.indLen).foldl (· * ·) 1, 0] ++ legs.map (fun _ => 0)],
        qMapSlices := [0, 1], perm := none, strides := legs.map (fun _ => 0) } := by
  unfold init
  exact if_pos h

theorem init_bunch (legs : List Leg) (qconj : Int) (sort : Bool)
    (h : (gSubq legs).all (· == 1) = false) :
    init legs qconj sort true =
      { leg := (gPre legs qconj sort).bunchCore, legs,
        qMap := (List.range (gGrid1 legs qconj sort).length).map (fun j =>
          [ (gSlices1 legs qconj sort).getD j 0 -
              (gPre legs qconj sort).bunchCore.slices.getD ((gQi legs qconj sort).getD j 0) 0,
            (gSlices1 legs qconj sort).getD (j + 1) 0 -
              (gPre legs qconj sort).bunchCore.slices.getD ((gQi legs qconj sort).getD j 0) 0,
            (gQi legs qconj sort).getD j 0] ++ (gGrid1 legs qconj sort).getD j []),
        qMapSlices := gIdx legs qconj sort, perm := gPerm legs qconj sort,
        strides := makeStrideC (gSubq legs) } := by
  unfold init
  exact (if_neg (fun hc => Bool.false_ne_true (h.symm.trans hc))).trans (if_pos rfl)

theorem init_nobunch (legs : List Leg) (qconj : Int) (sort : Bool)
    (h : (gSubq legs).all (· == 1) = false) :
    init legs qconj sort false =
      { leg := gPre legs qconj sort, legs,
        qMap := (List.range (gGrid1 legs qconj sort).length).map (fun j =>
          [0, (gSlices1 legs qconj sort).getD (j + 1) 0 - (gSlices1 legs qconj sort).getD j 0, j]
            ++ (gGrid1 legs qconj sort).getD j []),
        qMapSlices := List.range ((gGrid1 legs qconj sort).length + 1), perm := gPerm legs qconj sort,
        strides := makeStrideC (gSubq legs) } := by
  unfold init
  exact (if_neg (fun hc => Bool.false_ne_true (h.symm.trans hc))).trans (if_neg Bool.false_ne_true)

/-! ### `q_map_Qi` -/

theorem mem_tail_dropLast (idx : List Nat) (k : Nat) :
    k ∈ idx.tail.dropLast ↔ ∃ t, 0 < t ∧ t + 1 < idx.length ∧ idx.getD t 0 = k := by
  constructor
  · intro hk
    obtain ⟨t, ht, hte⟩ := List.mem_iff_getElem.1 hk
    simp only [List.length_dropLast, List.length_tail] at ht
    refine ⟨t + 1, by omega, by omega, ?_⟩
    rw [getD_lt idx (t + 1) 0 (by omega)]
    simpa [List.getElem_dropLast, List.getElem_tail] using hte
  · rintro ⟨t, ht0, ht1, hte⟩
    apply List.mem_iff_getElem.2
    refine ⟨t - 1, by simp; omega, ?_⟩
    rw [getD_lt idx t 0 (by omega)] at hte
    simp only [List.getElem_dropLast, List.getElem_tail]
    have : t - 1 + 1 = t := by omega
    simp only [this]; exact hte

theorem qiOfIdx_length (n : Nat) (idx : List Nat) : (qiOfIdx n idx).length = n := by
  simp [qiOfIdx, cumsum_length]

theorem qiOfIdx_spec {rows : List (List Int)} {idx : List Nat} (h : IsBunchIdx rows idx)
    (j : Nat) (hj : j < rows.length) (g : Nat) (hg : g + 1 < idx.length)
    (h1 : idx.getD g 0 ≤ j) (h2 : j < idx.getD (g + 1) 0) :
    (qiOfIdx rows.length idx).getD j 0 = g := by
  unfold qiOfIdx
  simp only
  rw [cumsum_getD _ j (by simpa using hj)]
  induction j generalizing g with
  | zero =>
    have hg0 : g = 0 := by
      rcases Nat.eq_zero_or_pos g with h0 | h0
      · exact h0
      · have := smono_getD idx h.sorted 0 g h0 (by omega); omega
    subst hg0
    rw [psum_succ _ 0 (by simpa using hj), psum_zero, getD_map' _ _ 0 0 0 (by simpa using hj),
      getD_range _ _ hj]
    have : ¬ (0 ∈ idx.tail.dropLast) := by
      rw [mem_tail_dropLast]
      rintro ⟨t, ht0, ht1, hte⟩
      have := smono_getD idx h.sorted 0 t ht0 (by omega); omega
    simp [this]
  | succ j ih =>
    rw [psum_succ _ (j + 1) (by simpa using hj), getD_map' _ _ (j + 1) 0 0 (by simpa using hj),
      getD_range _ _ hj]
    by_cases hcase : idx.getD g 0 ≤ j
    · -- same group as `j`, and `j+1` is not a boundary
      rw [ih (by omega) g hg hcase (by omega)]
      have : ¬ (j + 1 ∈ idx.tail.dropLast) := by
        rw [mem_tail_dropLast]
        rintro ⟨t, ht0, ht1, hte⟩
        exact h.not_mem_of_between g (j + 1) hg (by omega) h2 (hte ▸ getD_mem idx t 0 (by omega))
      simp [this]
    · -- `j+1` opens group `g`
      have hge : idx.getD g 0 = j + 1 := by omega
      have hgpos : 0 < g := by
        rcases Nat.eq_zero_or_pos g with h0 | h0
        · rw [h0, h.head] at hge; omega
        · exact h0
      have hprev : idx.getD (g - 1) 0 < idx.getD g 0 := smono_getD idx h.sorted (g - 1) g (by omega) (by omega)
      have e : g - 1 + 1 = g := by omega
      rw [ih (by omega) (g - 1) (by omega) (by omega) (by rw [e]; omega)]
      have : j + 1 ∈ idx.tail.dropLast := by
        rw [mem_tail_dropLast]; exact ⟨g, hgpos, hg, hge⟩
      simp [this]; omega


/-! ### facts about the pieces -/

section facts
variable (legs : List Leg) (qconj : Int) (sort : Bool)

theorem gGrid_length : (gGrid legs).length = (gSubq legs).prod := gridC_length _

theorem fuse_nil (legs : List Leg) (qconj : Int) (t : List Nat) : fuse [] legs qconj t = [] := by
  simp [fuse, makeValid]

theorem gCharges0_eq : gCharges0 legs qconj = (gGrid legs).map (fuse (gMods legs) legs qconj) := by
  unfold gCharges0
  split
  · rfl
  next h =>
    have : gMods legs = [] := by
      cases hm : gMods legs with
      | nil => rfl
      | cons a as => rw [hm] at h; simp at h
    rw [this]
    apply List.map_congr_left
    intro t _
    rw [fuse_nil]

theorem gCharges0_length : (gCharges0 legs qconj).length = (gGrid legs).length := by
  rw [gCharges0_eq, List.length_map]

theorem gPermQ_perm : (gPermQ legs qconj sort).Perm (List.range (gGrid legs).length) := by
  unfold gPermQ
  split
  · have := lexsort_perm (gCharges0 legs qconj)
    rwa [gCharges0_length] at this
  · exact List.Perm.refl _

theorem gPermQ_length : (gPermQ legs qconj sort).length = (gGrid legs).length := by
  simpa using (gPermQ_perm legs qconj sort).length_eq

theorem gPermQ_lt (j : Nat) (hj : j < (gGrid legs).length) :
    (gPermQ legs qconj sort).getD j 0 < (gGrid legs).length :=
  perm_range_lt _ _ (gPermQ_perm legs qconj sort) j (by rw [gPermQ_length]; exact hj)

theorem gGrid1_length : (gGrid1 legs qconj sort).length = (gGrid legs).length := by
  rw [gGrid1, take?_length, gPermQ_length]
theorem gCharges1_length : (gCharges1 legs qconj sort).length = (gGrid legs).length := by
  rw [gCharges1, take?_length, gPermQ_length]
theorem gSizes1_length : (gSizes1 legs qconj sort).length = (gGrid legs).length := by
  rw [gSizes1, take?_length, gPermQ_length]

theorem gGrid1_getD (j : Nat) (hj : j < (gGrid legs).length) :
    (gGrid1 legs qconj sort).getD j [] = (gGrid legs).getD ((gPermQ legs qconj sort).getD j 0) [] :=
  take?_getD _ _ _ _ (by rw [gPermQ_length]; exact hj)

theorem gCharges1_getD (j : Nat) (hj : j < (gGrid legs).length) :
    (gCharges1 legs qconj sort).getD j [] =
      fuse (gMods legs) legs qconj ((gGrid1 legs qconj sort).getD j []) := by
  rw [gCharges1, take?_getD _ _ _ _ (by rw [gPermQ_length]; exact hj), gCharges0_eq,
    getD_map' _ _ _ [] _ (gPermQ_lt legs qconj sort j hj), gGrid1_getD legs qconj sort j hj]

theorem gSizes1_getD (j : Nat) (hj : j < (gGrid legs).length) :
    (gSizes1 legs qconj sort).getD j 0 = blockSizeOf legs ((gGrid1 legs qconj sort).getD j []) := by
  rw [gSizes1, take?_getD _ _ _ _ (by rw [gPermQ_length]; exact hj), gSizes0,
    getD_map' _ _ _ [] _ (gPermQ_lt legs qconj sort j hj), gGrid1_getD legs qconj sort j hj]

theorem gGrid1_perm : (gGrid1 legs qconj sort).Perm (gGrid legs) :=
  take?_perm _ _ _ (gPermQ_perm legs qconj sort)

theorem gPre_shape : (gPre legs qconj sort).Shape :=
  Leg.shape_of_sizes _ _ _ _ _ _ (by rw [gSizes1_length, gCharges1_length])

theorem gPre_blockSizes : (gPre legs qconj sort).blockSizes = gSizes1 legs qconj sort :=
  Leg.blockSizes_of_sizes _ _ _ _ _ _

theorem gPre_blockNumber : (gPre legs qconj sort).blockNumber = (gGrid legs).length :=
  gCharges1_length legs qconj sort

theorem gPre_cl0 : (gPre legs qconj sort).CL0 := by
  intro h0 c hc
  have h0' : (gMods legs).length = 0 := h0
  obtain ⟨q, _, rfl⟩ := List.mem_map.1 (show c ∈ take? (gCharges0 legs qconj) _ [] from hc)
  by_cases hq : q < (gCharges0 legs qconj).length
  · rw [gCharges0_eq] at hq ⊢
    rw [getD_map' _ _ _ [] _ (by simpa using hq)]
    rw [List.length_eq_zero_iff.1 h0', fuse_nil]
  · exact getD_ge _ _ _ (Nat.le_of_not_lt hq)

theorem gSlices1_getD (j : Nat) (hj : j ≤ (gGrid legs).length) :
    (gSlices1 legs qconj sort).getD j 0 = psum (gSizes1 legs qconj sort) j :=
  slicesOfSizes_getD _ _ (by rw [gSizes1_length]; exact hj)

theorem gIdx_spec : IsBunchIdx (gCharges1 legs qconj sort) (gIdx legs qconj sort) :=
  Leg.bunchIdx (l := gPre legs qconj sort) (gPre_cl0 legs qconj sort)

/-- row `j` lies in exactly one group, whose number is `q_map_Qi[j]` -/
theorem gQi_group (j : Nat) (hj : j < (gGrid legs).length) :
    ∃ g, g + 1 < (gIdx legs qconj sort).length ∧ (gIdx legs qconj sort).getD g 0 ≤ j ∧
      j < (gIdx legs qconj sort).getD (g + 1) 0 ∧ (gQi legs qconj sort).getD j 0 = g := by
  have hb := gIdx_spec legs qconj sort
  have hj' : j < (gCharges1 legs qconj sort).length := by rw [gCharges1_length]; exact hj
  obtain ⟨g, hg, h1, h2⟩ := hb.group_exists j hj'
  refine ⟨g, hg, h1, h2, ?_⟩
  have := qiOfIdx_spec hb j hj' g hg h1 h2
  rw [gCharges1_length, ← gGrid1_length legs qconj sort] at this
  exact this

theorem gBunch_blockNumber :
    (gPre legs qconj sort).bunchCore.blockNumber = (gIdx legs qconj sort).length - 1 :=
  Leg.bunchCore_blockNumber

theorem gBunch_slices_getD (g : Nat) (hg : g < (gIdx legs qconj sort).length) :
    (gPre legs qconj sort).bunchCore.slices.getD g 0 =
      (gSlices1 legs qconj sort).getD ((gIdx legs qconj sort).getD g 0) 0 :=
  Leg.bunchCore_slices_getD (l := gPre legs qconj sort) g hg

theorem gBunch_charges_getD (g : Nat) (hg : g + 1 < (gIdx legs qconj sort).length) :
    (gPre legs qconj sort).bunchCore.charges.getD g [] =
      (gCharges1 legs qconj sort).getD ((gIdx legs qconj sort).getD g 0) [] :=
  Leg.bunchCore_charges_getD (l := gPre legs qconj sort) g hg

theorem gSlices1_mono (i j : Nat) (hij : i ≤ j) (hj : j ≤ (gGrid legs).length) :
    (gSlices1 legs qconj sort).getD i 0 ≤ (gSlices1 legs qconj sort).getD j 0 := by
  rw [gSlices1_getD legs qconj sort i (by omega), gSlices1_getD legs qconj sort j hj]
  exact psum_mono _ _ _ hij

end facts

theorem gridC_ones (shape : List Nat) (h : ∀ n ∈ shape, n = 1) : gridC shape = [shape.map (fun _ => 0)] := by
  induction shape with
  | nil => rfl
  | cons n ns ih =>
    rw [gridC, h n (by simp), ih (fun m hm => h m (by simp [hm]))]
    rfl

theorem single_ones (legs : List Leg) (h : (gSubq legs).all (· == 1) = true) : ∀ n ∈ gSubq legs, n = 1 := by
  intro n hn
  have := List.all_eq_true.1 h n hn
  simpa using this

theorem zeros_eq (legs : List Leg) : legs.map (fun _ => 0) = (gSubq legs).map (fun _ => 0) := by
  simp [gSubq, List.map_map]

/-! ### T1: the multi-index columns of `q_map` are a permutation of the grid -/

theorem qmap_perm (legs : List Leg) (qconj : Int) (sort bunch : Bool) :
    ((init legs qconj sort bunch).qMap.map (·.drop 3)).Perm (gridC (gSubq legs)) := by
  by_cases hs : (gSubq legs).all (· == 1) = true
  · rw [init_single legs qconj sort bunch hs, gridC_ones _ (single_ones legs hs), ← zeros_eq]
    exact List.Perm.refl _
  · have hs' : (gSubq legs).all (· == 1) = false := by simpa using hs
    cases bunch
    · rw [init_nobunch legs qconj sort hs']
      simp only [List.map_map]
      have : (List.range (gGrid1 legs qconj sort).length).map
          ((fun r : List Nat => r.drop 3) ∘ fun j =>
            [0, (gSlices1 legs qconj sort).getD (j + 1) 0 - (gSlices1 legs qconj sort).getD j 0, j] ++
              (gGrid1 legs qconj sort).getD j []) = gGrid1 legs qconj sort := by
        conv => rhs; rw [← map_getD_range (gGrid1 legs qconj sort) []]
        apply List.map_congr_left; intro j _; rfl
      rw [this]
      exact gGrid1_perm legs qconj sort
    · rw [init_bunch legs qconj sort hs']
      simp only [List.map_map]
      have : ∀ (a b c : Nat → Nat), (List.range (gGrid1 legs qconj sort).length).map
          ((fun r : List Nat => r.drop 3) ∘ fun j => [a j, b j, c j] ++ (gGrid1 legs qconj sort).getD j []) =
            gGrid1 legs qconj sort := by
        intro a b c
        conv => rhs; rw [← map_getD_range (gGrid1 legs qconj sort) []]
        apply List.map_congr_left; intro j _; rfl
      rw [this]
      exact gGrid1_perm legs qconj sort

/-! ### rows of `q_map` -/

section rows
variable (legs : List Leg) (qconj : Int) (sort : Bool)

/-- the bunch-branch row `j` -/
def rowB (j : Nat) : List Nat :=
  [ (gSlices1 legs qconj sort).getD j 0 -
      (gPre legs qconj sort).bunchCore.slices.getD ((gQi legs qconj sort).getD j 0) 0,
    (gSlices1 legs qconj sort).getD (j + 1) 0 -
      (gPre legs qconj sort).bunchCore.slices.getD ((gQi legs qconj sort).getD j 0) 0,
    (gQi legs qconj sort).getD j 0] ++ (gGrid1 legs qconj sort).getD j []

/-- the no-bunch-branch row `j` -/
def rowN (j : Nat) : List Nat :=
  [0, (gSlices1 legs qconj sort).getD (j + 1) 0 - (gSlices1 legs qconj sort).getD j 0, j]
    ++ (gGrid1 legs qconj sort).getD j []

theorem qMap_bunch (hs : (gSubq legs).all (· == 1) = false) :
    (init legs qconj sort true).qMap = (List.range (gGrid legs).length).map (rowB legs qconj sort) := by
  rw [init_bunch legs qconj sort hs, gGrid1_length]; rfl

theorem qMap_nobunch (hs : (gSubq legs).all (· == 1) = false) :
    (init legs qconj sort false).qMap = (List.range (gGrid legs).length).map (rowN legs qconj sort) := by
  rw [init_nobunch legs qconj sort hs, gGrid1_length]; rfl

theorem qMap_bunch_getD (hs : (gSubq legs).all (· == 1) = false) (j : Nat) (hj : j < (gGrid legs).length) :
    (init legs qconj sort true).qMap.getD j [] = rowB legs qconj sort j := by
  rw [qMap_bunch legs qconj sort hs, getD_map' _ _ j 0 [] (by simpa using hj), getD_range _ _ hj]

theorem qMap_nobunch_getD (hs : (gSubq legs).all (· == 1) = false) (j : Nat) (hj : j < (gGrid legs).length) :
    (init legs qconj sort false).qMap.getD j [] = rowN legs qconj sort j := by
  rw [qMap_nobunch legs qconj sort hs, getD_map' _ _ j 0 [] (by simpa using hj), getD_range _ _ hj]

theorem leg_bunch (hs : (gSubq legs).all (· == 1) = false) :
    (init legs qconj sort true).leg = (gPre legs qconj sort).bunchCore := by
  rw [init_bunch legs qconj sort hs]

theorem leg_nobunch (hs : (gSubq legs).all (· == 1) = false) :
    (init legs qconj sort false).leg = gPre legs qconj sort := by
  rw [init_nobunch legs qconj sort hs]

end rows

/-! ### T2: fusion rule -/

theorem fusion_rule (legs : List Leg) (qconj : Int) (sort bunch : Bool) (j : Nat)
    (hj : j < (init legs qconj sort bunch).qMap.length) :
    (init legs qconj sort bunch).leg.charges.getD (((init legs qconj sort bunch).qMap.getD j []).getD 2 0) [] =
      fuse (gMods legs) legs qconj (((init legs qconj sort bunch).qMap.getD j []).drop 3) := by
  by_cases hs : (gSubq legs).all (· == 1) = true
  · rw [init_single legs qconj sort bunch hs] at hj ⊢
    simp only [List.length_singleton, Nat.lt_one_iff] at hj
    subst hj
    rfl
  · have hs' : (gSubq legs).all (· == 1) = false := by simpa using hs
    cases bunch
    · rw [qMap_nobunch legs qconj sort hs', List.length_map, List.length_range] at hj
      rw [qMap_nobunch_getD legs qconj sort hs' j hj, leg_nobunch legs qconj sort hs']
      exact gCharges1_getD legs qconj sort j hj
    · rw [qMap_bunch legs qconj sort hs', List.length_map, List.length_range] at hj
      rw [qMap_bunch_getD legs qconj sort hs' j hj, leg_bunch legs qconj sort hs']
      obtain ⟨g, hg, h1, h2, hq⟩ := gQi_group legs qconj sort j hj
      show (gPre legs qconj sort).bunchCore.charges.getD ((gQi legs qconj sort).getD j 0) [] =
        fuse (gMods legs) legs qconj ((gGrid1 legs qconj sort).getD j [])
      rw [hq, gBunch_charges_getD legs qconj sort g hg,
        ← (gIdx_spec legs qconj sort).const_on_group g hg j h1 h2]
      exact gCharges1_getD legs qconj sort j hj

theorem init_legs (legs : List Leg) (qconj : Int) (sort bunch : Bool) :
    (init legs qconj sort bunch).legs = legs := by
  by_cases hs : (gSubq legs).all (· == 1) = true
  · rw [init_single legs qconj sort bunch hs]
  · have hs' : (gSubq legs).all (· == 1) = false := by simpa using hs
    cases bunch
    · rw [init_nobunch legs qconj sort hs']
    · rw [init_bunch legs qconj sort hs']

theorem init_mods_qconj (legs : List Leg) (qconj : Int) (sort bunch : Bool) :
    (init legs qconj sort bunch).leg.mods = gMods legs ∧ (init legs qconj sort bunch).leg.qconj = qconj := by
  by_cases hs : (gSubq legs).all (· == 1) = true
  · rw [init_single legs qconj sort bunch hs]; exact ⟨rfl, rfl⟩
  · have hs' : (gSubq legs).all (· == 1) = false := by simpa using hs
    cases bunch
    · rw [init_nobunch legs qconj sort hs']; exact ⟨rfl, rfl⟩
    · rw [init_bunch legs qconj sort hs']; exact ⟨rfl, rfl⟩

/-! ### T3: `q_map_slices` partitions the rows by outgoing block; sub-slices tile each block -/

structure SlicesOK (p : Pipe) : Prop where
  len    : p.qMapSlices.length = p.leg.blockNumber + 1
  first  : p.qMapSlices.getD 0 0 = 0
  last   : p.qMapSlices.getD p.leg.blockNumber 0 = p.qMap.length
  /-- sector `I` is the non-empty row range `[s[I], s[I+1])` -/
  nonempty : ∀ I, I < p.leg.blockNumber → p.qMapSlices.getD I 0 < p.qMapSlices.getD (I + 1) 0
  /-- all its rows point to outgoing block `I` and carry a sub-slice `b ≤ e` -/
  sector : ∀ I, I < p.leg.blockNumber → ∀ j, p.qMapSlices.getD I 0 ≤ j → j < p.qMapSlices.getD (I + 1) 0 →
    (p.qMap.getD j []).getD 2 0 = I ∧ (p.qMap.getD j []).getD 0 0 ≤ (p.qMap.getD j []).getD 1 0
  /-- the first sub-slice starts at 0 -/
  start  : ∀ I, I < p.leg.blockNumber → (p.qMap.getD (p.qMapSlices.getD I 0) []).getD 0 0 = 0
  /-- consecutive sub-slices are adjacent -/
  adj    : ∀ I, I < p.leg.blockNumber → ∀ j, p.qMapSlices.getD I 0 ≤ j → j + 1 < p.qMapSlices.getD (I + 1) 0 →
    (p.qMap.getD j []).getD 1 0 = (p.qMap.getD (j + 1) []).getD 0 0
  /-- the last sub-slice ends at the size of block `I` -/
  stop   : ∀ I, I < p.leg.blockNumber →
    (p.qMap.getD (p.qMapSlices.getD (I + 1) 0 - 1) []).getD 1 0 = p.leg.blockSizes.getD I 0

theorem slicesOK_single (legs : List Leg) (qconj : Int) (sort bunch : Bool)
    (hs : (gSubq legs).all (· == 1) = true) : SlicesOK (init legs qconj sort bunch) := by
  rw [init_single legs qconj sort bunch hs]
  refine ⟨rfl, rfl, rfl, ?_, ?_, ?_, ?_, ?_⟩
  · intro I hI
    have : I = 0 := by simpa [Leg.blockNumber] using hI
    subst this; show (0 : Nat) < 1; omega
  · intro I hI j h1 h2
    have : I = 0 := by simpa [Leg.blockNumber] using hI
    subst this
    have : j = 0 := by simp at h2; omega
    subst this
    exact ⟨rfl, Nat.zero_le _⟩
  · intro I hI
    have : I = 0 := by simpa [Leg.blockNumber] using hI
    subst this; rfl
  · intro I hI j h1 h2
    have : I = 0 := by simpa [Leg.blockNumber] using hI
    subst this
    simp at h2
  · intro I hI
    have : I = 0 := by simpa [Leg.blockNumber] using hI
    subst this
    simp [Leg.blockSizes, sizesOfSlices]

theorem slicesOK_nobunch (legs : List Leg) (qconj : Int) (sort : Bool)
    (hs : (gSubq legs).all (· == 1) = false) : SlicesOK (init legs qconj sort false) := by
  have hbn : (init legs qconj sort false).leg.blockNumber = (gGrid legs).length := by
    rw [leg_nobunch legs qconj sort hs]; exact gPre_blockNumber legs qconj sort
  have hqs : (init legs qconj sort false).qMapSlices = List.range ((gGrid legs).length + 1) := by
    rw [init_nobunch legs qconj sort hs, gGrid1_length]
  have hql : (init legs qconj sort false).qMap.length = (gGrid legs).length := by
    rw [qMap_nobunch legs qconj sort hs]; simp
  have hget : ∀ I, I ≤ (gGrid legs).length → (init legs qconj sort false).qMapSlices.getD I 0 = I := by
    intro I hI; rw [hqs]; exact getD_range _ _ (by omega)
  refine ⟨?_, ?_, ?_, ?_, ?_, ?_, ?_, ?_⟩
  · rw [hqs, hbn]; simp
  · exact hget 0 (Nat.zero_le _)
  · rw [hbn, hql]; exact hget _ (Nat.le_refl _)
  · intro I hI; rw [hbn] at hI; rw [hget I (by omega), hget (I + 1) (by omega)]; omega
  · intro I hI j h1 h2
    rw [hbn] at hI
    rw [hget I (by omega)] at h1
    rw [hget (I + 1) (by omega)] at h2
    have : j = I := by omega
    subst this
    rw [qMap_nobunch_getD legs qconj sort hs j hI]
    exact ⟨rfl, Nat.zero_le _⟩
  · intro I hI
    rw [hbn] at hI
    rw [hget I (by omega), qMap_nobunch_getD legs qconj sort hs I hI]; rfl
  · intro I hI j h1 h2
    rw [hbn] at hI
    rw [hget I (by omega)] at h1
    rw [hget (I + 1) (by omega)] at h2
    omega
  · intro I hI
    rw [hbn] at hI
    rw [hget (I + 1) (by omega), Nat.add_sub_cancel, qMap_nobunch_getD legs qconj sort hs I hI,
      leg_nobunch legs qconj sort hs, gPre_blockSizes]
    show (gSlices1 legs qconj sort).getD (I + 1) 0 - (gSlices1 legs qconj sort).getD I 0 = _
    rw [gSlices1_getD legs qconj sort (I + 1) hI, gSlices1_getD legs qconj sort I (by omega),
      psum_succ _ I (by rw [gSizes1_length]; exact hI)]
    omega

theorem slicesOK_bunch (legs : List Leg) (qconj : Int) (sort : Bool)
    (hs : (gSubq legs).all (· == 1) = false) : SlicesOK (init legs qconj sort true) := by
  have hb := gIdx_spec legs qconj sort
  have hbn : (init legs qconj sort true).leg.blockNumber = (gIdx legs qconj sort).length - 1 := by
    rw [leg_bunch legs qconj sort hs]; exact gBunch_blockNumber legs qconj sort
  have hqs : (init legs qconj sort true).qMapSlices = gIdx legs qconj sort := by
    rw [init_bunch legs qconj sort hs]
  have hql : (init legs qconj sort true).qMap.length = (gGrid legs).length := by
    rw [qMap_bunch legs qconj sort hs]; simp
  have hpos := hb.pos
  have hN : (gCharges1 legs qconj sort).length = (gGrid legs).length := gCharges1_length legs qconj sort
  have hshape := Leg.bunchCore_shape (gPre_shape legs qconj sort) (gPre_cl0 legs qconj sort)
  -- facts about a row `j` in sector `I`
  have hrow : ∀ I, I + 1 < (gIdx legs qconj sort).length → ∀ j, (gIdx legs qconj sort).getD I 0 ≤ j →
      j < (gIdx legs qconj sort).getD (I + 1) 0 →
      j < (gGrid legs).length ∧ (init legs qconj sort true).qMap.getD j [] = rowB legs qconj sort j ∧
      (gQi legs qconj sort).getD j 0 = I := by
    intro I hI j h1 h2
    have hle := hb.le_len (I + 1) hI
    rw [hN] at hle
    have hj : j < (gGrid legs).length := by omega
    refine ⟨hj, qMap_bunch_getD legs qconj sort hs j hj, ?_⟩
    obtain ⟨g, hg, g1, g2, hq⟩ := gQi_group legs qconj sort j hj
    rw [hq]
    exact hb.group_unique j g I hg hI g1 g2 h1 h2
  refine ⟨?_, ?_, ?_, ?_, ?_, ?_, ?_, ?_⟩
  · rw [hqs, hbn]; omega
  · rw [hqs]; exact hb.head
  · rw [hqs, hbn, hb.last, hql, hN]
  · intro I hI; rw [hbn] at hI; rw [hqs]
    exact smono_getD _ hb.sorted I (I + 1) (by omega) (by omega)
  · intro I hI j h1 h2
    rw [hbn] at hI; rw [hqs] at h1 h2
    obtain ⟨hj, hr, hq⟩ := hrow I (by omega) j h1 h2
    rw [hr]
    refine ⟨hq, ?_⟩
    show (gSlices1 legs qconj sort).getD j 0 - _ ≤ (gSlices1 legs qconj sort).getD (j + 1) 0 - _
    have := gSlices1_mono legs qconj sort j (j + 1) (by omega) hj
    omega
  · intro I hI
    rw [hbn] at hI; rw [hqs]
    have h2 := smono_getD _ hb.sorted I (I + 1) (by omega) (by omega)
    obtain ⟨hj, hr, hq⟩ := hrow I (by omega) _ (Nat.le_refl _) h2
    rw [hr]
    show (gSlices1 legs qconj sort).getD _ 0 - (gPre legs qconj sort).bunchCore.slices.getD _ 0 = 0
    rw [hq, gBunch_slices_getD legs qconj sort I (by omega)]
    omega
  · intro I hI j h1 h2
    rw [hbn] at hI; rw [hqs] at h1 h2
    obtain ⟨hj, hr, hq⟩ := hrow I (by omega) j h1 (by omega)
    obtain ⟨hj', hr', hq'⟩ := hrow I (by omega) (j + 1) (by omega) h2
    rw [hr, hr']
    show (gSlices1 legs qconj sort).getD (j + 1) 0 - (gPre legs qconj sort).bunchCore.slices.getD _ 0 =
      (gSlices1 legs qconj sort).getD (j + 1) 0 - (gPre legs qconj sort).bunchCore.slices.getD _ 0
    rw [hq, hq']
  · intro I hI
    rw [hbn] at hI; rw [hqs]
    have h2 := smono_getD _ hb.sorted I (I + 1) (by omega) (by omega)
    obtain ⟨hj, hr, hq⟩ := hrow I (by omega) ((gIdx legs qconj sort).getD (I + 1) 0 - 1) (by omega) (by omega)
    rw [hr, leg_bunch legs qconj sort hs]
    show (gSlices1 legs qconj sort).getD _ 0 - (gPre legs qconj sort).bunchCore.slices.getD _ 0 = _
    have e : (gIdx legs qconj sort).getD (I + 1) 0 - 1 + 1 = (gIdx legs qconj sort).getD (I + 1) 0 := by omega
    rw [hq, e, ← gBunch_slices_getD legs qconj sort (I + 1) (by omega)]
    have := hshape.slices_succ I (by rw [gBunch_blockNumber]; omega)
    omega

theorem slicesOK (legs : List Leg) (qconj : Int) (sort bunch : Bool) :
    SlicesOK (init legs qconj sort bunch) := by
  by_cases hs : (gSubq legs).all (· == 1) = true
  · exact slicesOK_single legs qconj sort bunch hs
  · have hs' : (gSubq legs).all (· == 1) = false := by simpa using hs
    cases bunch
    · exact slicesOK_nobunch legs qconj sort hs'
    · exact slicesOK_bunch legs qconj sort hs'

end Pipe
end TenpyModel.Core
