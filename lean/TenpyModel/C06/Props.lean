import TenpyModel.Core.Pipe
open TenpyModel.Core

theorem C06_mv1_idem (m : Nat) (x : Int) : mv1 m (mv1 m x) = mv1 m x := by
  unfold mv1; split
  · rfl
  · exact Int.emod_emod_of_dvd x (Int.dvd_refl _)
