import TenpyModel.Core.Pipe
import TenpyModel.C06.ChargeProofs
import TenpyModel.C06.ListProofs
import TenpyModel.C06.LegProofs
import TenpyModel.C06.LegOpsProofs
import TenpyModel.C06.PipeProofs
import TenpyModel.C06.PipeMapProofs
/-!
# C06 — "Leg fusion is a lossless, consistently ordered bijection": property theorems

All theorems are about the executable model `TenpyModel.Core.{Charge,Leg,Pipe}` (checked against
`tenpy/linalg/charges.py` by the differential harness `harness/C06.py`) and hold for **all** legs /
pipes satisfying the class invariant `Leg.WF` (shape of `slices`, valid charges, `mod ≥ 1`,
`qconj = ±1`), or only its shape part `Leg.Shape` where that suffices.

The charge attached to flat index `i` of a leg is `l.toQflat[i]`; its physical charge is
`l.physQflat[i] = make_valid(qconj * toQflat[i])`.
-/
open TenpyModel.Core

/-! ## 0. example data (non-vacuity) -/

namespace TenpyModel.C06

/-- two charges (U(1) × Z₃), five blocks, a duplicate sector pair that is adjacent (`[1,0]`, `[1,0]`),
a third copy further right, an empty block, unsorted, unbunched, direction −1 -/
def exLeg : Leg :=
  { mods := [1, 3], slices := [0, 2, 3, 3, 5, 6],
    charges := [[1, 0], [1, 0], [-1, 2], [1, 0], [0, 1]], qconj := -1, sorted := false, bunched := false }

/-- a second, smaller leg with direction +1 (sorted but not bunched) -/
def exLeg2 : Leg :=
  { mods := [1, 3], slices := [0, 1, 3, 4], charges := [[-2, 1], [-2, 1], [0, 2]], qconj := 1,
    sorted := true, bunched := false }

/-- three blocks, the duplicate sector `[1,0]` not adjacent, unsorted, direction −1 -/
def exLeg3 : Leg :=
  { mods := [1, 3], slices := [0, 1, 3, 4], charges := [[1, 0], [0, 2], [1, 0]], qconj := -1,
    sorted := false, bunched := false }

/-- a pipe of two legs (9 block combinations, several with equal fused charge), sorted and bunched -/
def exPipe : Pipe := Pipe.init [exLeg3, exLeg2] 1 true true
/-- the same, outgoing direction −1, neither sorted nor bunched -/
def exPipeN : Pipe := Pipe.init [exLeg3, exLeg2] (-1) false false
/-- single-block legs: the special branch of `LegPipe.__init__` -/
def exPipe1 : Pipe := Pipe.init [Leg.fromTrivial 2 [1, 3] 1, Leg.fromTrivial 3 [1, 3] (-1)] 1 true true

example : exLeg.WF := by decide
example : exLeg3.WF := by decide
example : exLeg.sane = true := by decide
example : exLeg2.WF := by decide
example : exLeg2.sane = true := by decide

end TenpyModel.C06
open TenpyModel.C06

/-! ## 1. charge arithmetic -/

theorem C06_mv1_idem (m : Nat) (x : Int) : mv1 m (mv1 m x) = mv1 m x := mv1_idem m x

/-- `make_valid` is idempotent -/
theorem C06_makeValid_idem (mods : List Nat) (q : Charge) :
    makeValid mods (makeValid mods q) = makeValid mods q := makeValid_idem mods q

/-- reducing a summand first does not change the reduced sum (charges add modulo `mod`) -/
theorem C06_makeValid_add (mods : List Nat) (a b : Charge) :
    makeValid mods (cadd a (makeValid mods b)) = makeValid mods (cadd a b) := makeValid_add mods a b

/-- negation law: negating a reduced charge and reducing = reducing the negation -/
theorem C06_makeValid_neg (mods : List Nat) (a : Charge) :
    makeValid mods (cneg (makeValid mods a)) = makeValid mods (cneg a) := makeValid_neg mods a

/-- the same for multiplication by a direction `±1` (any integer) -/
theorem C06_makeValid_scale (mods : List Nat) (s : Int) (a : Charge) :
    makeValid mods (cscale s (makeValid mods a)) = makeValid mods (cscale s a) := makeValid_scale mods s a

/-- `make_valid` produces valid charges, and valid charges are fixed points -/
theorem C06_checkValid_makeValid (mods : List Nat) (hm : ∀ k ∈ mods, 1 ≤ k) (q : Charge)
    (hq : q.length = mods.length) :
    checkValid mods (makeValid mods q) = true ∧
      (checkValid mods q = true → makeValid mods q = q) :=
  ⟨checkValid_makeValid mods hm q hq, makeValid_of_checkValid mods q⟩

example : makeValid [1, 3] (cadd [5, 2] (makeValid [1, 3] [-7, -4])) = [-2, 1] := by decide
example : checkValid [1, 3] (makeValid [1, 3] [-7, -4]) = true := by decide
example : makeValid [1, 3] (cneg (makeValid [1, 3] [4, 5])) = [-4, 1] := by decide

/-! ## 2. operations on a single leg -/

/-- **bunch** keeps the charge of every flat index; the result is bunched (no two neighbouring
blocks with equal charge), its returned index list is what `_find_row_differences` gives. -/
theorem C06_bunch_qflat (l : Leg) (h : l.WF) (hf : l.sane = true) :
    l.bunch.2.toQflat = l.toQflat ∧ l.bunch.2.isBunched = true ∧ l.bunch.2.indLen = l.indLen := by
  have hfl := (h.sane_iff.1 hf)
  refine ⟨Leg.bunch_toQflat h.shape h.cl0, Leg.bunch_isBunched h.cl0 hfl.2, ?_⟩
  have h' := Leg.bunch_WF h
  rw [← h'.shape.toQflat_length, Leg.bunch_toQflat h.shape h.cl0, h.shape.toQflat_length]

/-- `bunch` preserves the class invariant and keeps the flags truthful (`test_sanity` passes) -/
theorem C06_bunch_sane (l : Leg) (h : l.WF) (hf : l.sane = true) :
    l.bunch.2.WF ∧ l.bunch.2.sane = true :=
  ⟨Leg.bunch_WF h, (Leg.bunch_WF h).sane_iff.2 (Leg.bunch_flags h (h.sane_iff.1 hf))⟩

example : exLeg.bunch.2.toQflat = exLeg.toQflat ∧ exLeg.bunch.2.blockNumber = 4 := by decide

/-- **flip_charges_qconj** leaves the physical charge of every index (and every block) unchanged,
and does not touch the slices. -/
theorem C06_flip_phys (l : Leg) :
    l.flipChargesQconj.physQflat = l.physQflat ∧ l.flipChargesQconj.physCharges = l.physCharges ∧
      l.flipChargesQconj.slices = l.slices ∧ l.flipChargesQconj.qconj = -l.qconj :=
  ⟨Leg.flip_physQflat l, Leg.flip_physCharges l, rfl, rfl⟩

theorem C06_flip_sane (l : Leg) (h : l.WF) (hf : l.sane = true) :
    l.flipChargesQconj.WF ∧ l.flipChargesQconj.sane = true :=
  ⟨Leg.flip_WF h, (Leg.flip_WF h).sane_iff.2 (Leg.flip_flags h (h.sane_iff.1 hf))⟩

example : exLeg.flipChargesQconj.physQflat = exLeg.physQflat ∧
    exLeg.flipChargesQconj.charges ≠ exLeg.charges := by decide

/-- **conj**: a leg is contractible with its conjugate, `conj` is an involution, keeps the charge
entries and negates the direction. -/
theorem C06_conj_contractible (l : Leg) :
    l.testContractible l.conj = true ∧ l.conj.conj = l ∧ l.conj.toQflat = l.toQflat ∧
      l.conj.qconj = -l.qconj :=
  ⟨Leg.testContractible_conj l, Leg.conj_conj l, rfl, rfl⟩

theorem C06_conj_sane (l : Leg) (h : l.WF) (hf : l.sane = true) : l.conj.WF ∧ l.conj.sane = true :=
  ⟨Leg.conj_WF h, (Leg.conj_WF h).sane_iff.2 (Leg.conj_flags (h.sane_iff.1 hf))⟩

example : exLeg.testContractible exLeg.conj = true ∧ exLeg.testContractible exLeg = false := by decide

/-- **sort** keeps the charge of every index: entry `k` of the sorted leg carries the charge of
entry `perm_flat[k]` of the original one, where `perm_flat = perm_flat_from_perm_qind(perm_qind)`
is computed from the *old* slices; `perm_qind` is a permutation of the block numbers; the result
is sorted (and bunched when asked for); the total length is unchanged. -/
theorem C06_sort_qflat (l : Leg) (h : l.WF) (hf : l.sane = true) (b : Bool) :
    (l.sort b).2.toQflat = (l.permFlatFromPermQind (l.sort b).1).map (l.toQflat.getD · []) ∧
      (l.sort b).1.Perm (List.range l.blockNumber) ∧
      (l.sort b).2.isSorted = true ∧ (b = true → (l.sort b).2.isBunched = true) := by
  have hfl := h.sane_iff.1 hf
  exact ⟨Leg.sort_toQflat h.shape h.cl0 b, Leg.sort_perm l b,
    (Leg.sort_isSorted h hfl b).1, (Leg.sort_isSorted h hfl b).2⟩

theorem C06_sort_sane (l : Leg) (h : l.WF) (hf : l.sane = true) (b : Bool) :
    (l.sort b).2.WF ∧ (l.sort b).2.sane = true :=
  ⟨Leg.sort_WF h b, (Leg.sort_WF h b).sane_iff.2 (Leg.sort_flags h (h.sane_iff.1 hf) b)⟩

/-- the flat permutation reported by `sort` is a permutation of all flat indices -/
theorem C06_permFlat_perm (l : Leg) (h : l.Shape) (p : List Nat) (hp : p.Perm (List.range l.blockNumber)) :
    (l.permFlatFromPermQind p).Perm (List.range l.indLen) := Leg.permFlat_perm h p hp

example : (exLeg.sort true).1 = [0, 1, 3, 4, 2] ∧
    (exLeg.sort true).2.toQflat =
      (exLeg.permFlatFromPermQind (exLeg.sort true).1).map (exLeg.toQflat.getD · []) ∧
    (exLeg.sort true).2.blockNumber = 3 := by decide

/-- **project** keeps exactly the indices selected by the mask, with their charges -/
theorem C06_project_qflat (l : Leg) (h : l.WF) (mask : List Bool) (hm : mask.length = l.indLen) :
    (l.project mask).2.2.toQflat = ((l.toQflat.zip mask).filter (·.2)).map (·.1) ∧
      (l.project mask).2.2.indLen = mask.count true := by
  have e := Leg.project_toQflat l mask h.shape hm
  refine ⟨e, ?_⟩
  rw [← (Leg.project_shape l mask).toQflat_length, e, List.length_map]
  have hl : l.toQflat.length = mask.length := by rw [h.shape.toQflat_length, hm]
  exact Leg.length_filter_zip_snd _ _ hl

theorem C06_project_sane (l : Leg) (h : l.WF) (hf : l.sane = true) (mask : List Bool) :
    (l.project mask).2.2.WF ∧ (l.project mask).2.2.sane = true :=
  ⟨Leg.project_WF l mask h, (Leg.project_WF l mask h).sane_iff.2 (Leg.project_flags l mask h (h.sane_iff.1 hf))⟩

example : (exLeg.project [true, false, false, true, true, false]).2.2.toQflat = [[1, 0], [1, 0], [1, 0]] ∧
    (exLeg.project [true, false, false, true, true, false]).1 = [0, -1, -1, 1, -1] := by decide

/-- **extend** keeps the charges of the old indices and appends those of `extra` (negated and
reduced when the directions differ, so that the *physical* charges are simply concatenated) -/
theorem C06_extend_qflat (l e : Leg) (h : l.WF) (he : e.WF) (hm : e.mods = l.mods) :
    (l.extend e).toQflat = l.toQflat ++
        (if l.qconj = e.qconj then e.toQflat else e.toQflat.map (fun c => makeValid l.mods (cneg c))) ∧
      (l.extend e).physQflat = l.physQflat ++ e.physQflat ∧
      (l.extend e).indLen = l.indLen + e.indLen :=
  ⟨Leg.extend_toQflat h.shape he.shape, Leg.extend_physQflat h.shape he.shape hm h.qconj he.qconj,
   Leg.extend_indLen h.shape he.shape⟩

theorem C06_extend_sane (l e : Leg) (h : l.WF) (he : e.WF) (hm : e.mods = l.mods) :
    (l.extend e).WF ∧ (l.extend e).sane = true :=
  ⟨Leg.extend_WF h he hm, (Leg.extend_WF h he hm).sane_iff.2 (Leg.extend_flags h he hm)⟩

example : (exLeg.extend exLeg2).physQflat = exLeg.physQflat ++ exLeg2.physQflat ∧
    (exLeg.extend exLeg2).toQflat ≠ exLeg.toQflat ++ exLeg2.toQflat := by decide

/-! ## 3. pipes -/

/-- **q_map columns**: the incoming-qindex columns `q_map[:, 3:]` are a permutation of the full
C-ordered grid of block combinations — every combination of incoming blocks occurs exactly once.
(Any number of legs, both branches of `__init__`, sort/bunch on or off.) -/
theorem C06_qmap_perm (legs : List Leg) (qconj : Int) (sort bunch : Bool) :
    ((Pipe.init legs qconj sort bunch).qMap.map (·.drop 3)).Perm
      (gridC (Pipe.init legs qconj sort bunch).subqshape) := by
  unfold Pipe.subqshape
  rw [Pipe.init_legs]
  exact Pipe.qmap_perm legs qconj sort bunch

example : exPipe.qMap.length = 9 ∧ exPipe.leg.blockNumber = 4 ∧ exPipe.perm = some [1, 2, 7, 5, 6, 0, 3, 4, 8] := by
  decide

/-- **fusion rule**: for every row `j` of `q_map`, the charge of the outgoing block `I = q_map[j,2]`
is `make_valid(qconj * Σ_l legs[l].qconj * legs[l].charges[q_map[j, 3+l]])`. -/
theorem C06_fusion_rule (legs : List Leg) (qconj : Int) (sort bunch : Bool) :
    let p := Pipe.init legs qconj sort bunch
    p.legs = legs ∧ p.leg.qconj = qconj ∧
    ∀ j, j < p.qMap.length →
      p.leg.charges.getD ((p.qMap.getD j []).getD 2 0) [] =
        Pipe.fuse p.leg.mods legs qconj ((p.qMap.getD j []).drop 3) := by
  intro p
  refine ⟨Pipe.init_legs legs qconj sort bunch, (Pipe.init_mods_qconj legs qconj sort bunch).2, ?_⟩
  intro j hj
  show (Pipe.init legs qconj sort bunch).leg.charges.getD _ [] = Pipe.fuse (Pipe.init legs qconj sort bunch).leg.mods _ _ _
  rw [(Pipe.init_mods_qconj legs qconj sort bunch).1]
  exact Pipe.fusion_rule legs qconj sort bunch j hj

example : exPipe.qMap.getD 6 [] = [2, 6, 2, 1, 1] ∧ exPipe.leg.charges.getD 2 [] = [-2, 2] ∧
    Pipe.fuse [1, 3] [exLeg3, exLeg2] 1 [1, 1] = [-2, 2] := by decide

/-- **q_map_slices** partitions the rows of `q_map` by outgoing block `I` (non-empty, consecutive
row ranges `[s[I], s[I+1])`, all rows in range `I` have `q_map[j,2] = I`), and inside a block the
sub-slices `[q_map[j,0], q_map[j,1])` tile `[0, block size)`: the first starts at 0, consecutive
ones are adjacent, the last ends at the block size. -/
theorem C06_qmap_slices (legs : List Leg) (qconj : Int) (sort bunch : Bool) :
    Pipe.SlicesOK (Pipe.init legs qconj sort bunch) := Pipe.slicesOK legs qconj sort bunch

example : exPipe.qMapSlices = [0, 1, 5, 7, 9] ∧ exPipeN.qMapSlices = List.range 10 ∧
    exPipe1.qMapSlices = [0, 1] := by decide

/-- **ind_len** of a pipe is the product of the incoming `ind_len`s -/
theorem C06_pipe_indlen (legs : List Leg) (hs : ∀ l ∈ legs, l.Shape) (qconj : Int) (sort bunch : Bool) :
    (Pipe.init legs qconj sort bunch).leg.indLen = (legs.map Leg.indLen).prod ∧
      (Pipe.init legs qconj sort bunch).leg.Shape :=
  ⟨Pipe.indLen_prod legs qconj sort bunch hs, Pipe.leg_shape legs qconj sort bunch⟩

example : exPipe.leg.indLen = 16 ∧ exPipeN.leg.indLen = 16 ∧ exPipe1.leg.indLen = 6 := by decide

/-- **outer_conj** keeps the fusion rule with the same incoming legs and the opposite outgoing
direction; `q_map`, `q_map_slices`, `_perm`, `_strides`, the slices — hence the whole index map —
are untouched. -/
theorem C06_outerConj_fusion (legs : List Leg) (qconj : Int) (sort bunch : Bool) :
    let p := Pipe.init legs qconj sort bunch
    p.outerConj.legs = legs ∧ p.outerConj.leg.qconj = -qconj ∧ p.outerConj.qMap = p.qMap ∧
    p.outerConj.leg.slices = p.leg.slices ∧
    (∀ idx, p.outerConj.mapIncomingFlat idx = p.mapIncomingFlat idx) ∧
    ∀ j, j < p.outerConj.qMap.length →
      p.outerConj.leg.charges.getD ((p.outerConj.qMap.getD j []).getD 2 0) [] =
        Pipe.fuse p.outerConj.leg.mods legs (-qconj) ((p.outerConj.qMap.getD j []).drop 3) := by
  intro p
  refine ⟨Pipe.init_legs legs qconj sort bunch, ?_, rfl, rfl, fun _ => rfl, ?_⟩
  · show -(Pipe.init legs qconj sort bunch).leg.qconj = -qconj
    rw [(Pipe.init_mods_qconj legs qconj sort bunch).2]
  · intro j hj
    show _ = Pipe.fuse (Pipe.init legs qconj sort bunch).leg.mods legs (-qconj) _
    rw [(Pipe.init_mods_qconj legs qconj sort bunch).1]
    exact Pipe.outerConj_fusion legs qconj sort bunch j hj

example : exPipe.outerConj.leg.charges = [[0, 0], [3, 2], [2, 1], [1, 1]] ∧
    exPipe.outerConj.leg.charges ≠ exPipe.leg.charges := by decide

/-- **map_incoming_flat is a bijection** between in-range index tuples of the incoming legs and
`[0, ind_len)` of the outgoing leg, and it respects charges.  For all legs of the right shape, any
number of legs, either outgoing direction, sort/bunch on or off:

1. every in-range tuple `xs` is mapped to some `f < ind_len`, and the charge attached to `f` in
   the outgoing leg is the fused charge of the charges attached to the `xs[l]`
   (`make_valid(qconj * Σ_l legs[l].qconj * legs[l].to_qflat()[xs[l]])`);
2. the map is injective on in-range tuples;
3. it is onto: the images of all tuples, listed in C order, are a permutation of `0 … ind_len-1`.

(Negative Python indices are reduced to this case by `C06_getQindex_neg`.) -/
theorem C06_mapIncomingFlat_bijective (legs : List Leg) (hs : ∀ l ∈ legs, l.Shape) (qconj : Int)
    (sort bunch : Bool) :
    let p := Pipe.init legs qconj sort bunch
    (∀ xs, InRange xs p.subshape →
      ∃ f, p.mapIncomingFlat (xs.map Int.ofNat) = some f ∧ f < p.leg.indLen ∧
        p.leg.toQflat.getD f [] = Pipe.fuseFlat p.leg.mods legs qconj xs) ∧
    (∀ xs ys, InRange xs p.subshape → InRange ys p.subshape →
      p.mapIncomingFlat (xs.map Int.ofNat) = p.mapIncomingFlat (ys.map Int.ofNat) → xs = ys) ∧
    ((gridC p.subshape).map (fun xs => (p.mapIncomingFlat (xs.map Int.ofNat)).getD 0)).Perm
      (List.range p.leg.indLen) := by
  intro p
  have hsub : p.subshape = legs.map Leg.indLen := by
    show (Pipe.init legs qconj sort bunch).legs.map Leg.indLen = _
    rw [Pipe.init_legs]
  have hmods : p.leg.mods = Pipe.gMods legs := (Pipe.init_mods_qconj legs qconj sort bunch).1
  rw [hsub, hmods]
  exact ⟨fun xs hx => Pipe.mapIncomingFlat_spec legs qconj sort bunch hs xs hx,
    fun xs ys hx hy e => Pipe.mapIncomingFlat_inj legs qconj sort bunch hs xs ys hx hy e,
    Pipe.mapIncomingFlat_perm legs qconj sort bunch hs⟩

/-- negative flat indices count from the end (`get_qindex`), so the statement above covers them -/
theorem C06_getQindex_neg (l : Leg) (x : Nat) (hx : x < l.indLen) :
    l.getQindex ((x : Int) - l.indLen) = l.getQindex (x : Int) := Leg.getQindex_neg l x hx

example : InRange [3, 1] exPipe.subshape ∧ exPipe.mapIncomingFlat [3, 1] = some 6 ∧
    exPipe.leg.toQflat.getD 6 [] = [-3, 1] ∧ Pipe.fuseFlat [1, 3] [exLeg3, exLeg2] 1 [3, 1] = [-3, 1] ∧
    exPipe.mapIncomingFlat [-1, -3] = some 6 := by decide

example : (gridC exPipe.subshape).map (fun xs => (exPipe.mapIncomingFlat (xs.map Int.ofNat)).getD 0) =
    [2, 3, 4, 14, 8, 10, 11, 0, 9, 12, 13, 1, 5, 6, 7, 15] := by decide

/-- the same in terms of **physical charges** (`make_valid(qconj * charge)`): the physical charge
at `map_incoming_flat(xs)` is the reduced sum of the physical charges of the incoming indices. -/
theorem C06_mapIncomingFlat_phys (legs : List Leg) (hs : ∀ l ∈ legs, l.Shape) (qconj : Int)
    (hq : qconj = 1 ∨ qconj = -1) (sort bunch : Bool) (xs : List Nat) :
    let p := Pipe.init legs qconj sort bunch
    InRange xs p.subshape →
    ∃ f, p.mapIncomingFlat (xs.map Int.ofNat) = some f ∧
      p.leg.physQflat.getD f [] =
        makeValid p.leg.mods (csum p.leg.mods.length
          ((legs.zip xs).map (fun lx => cscale lx.1.qconj (lx.1.toQflat.getD lx.2 [])))) := by
  intro p hx
  obtain ⟨f, hf, hlt, hc⟩ := (C06_mapIncomingFlat_bijective legs hs qconj sort bunch).1 xs hx
  refine ⟨f, hf, ?_⟩
  have hsh : p.leg.Shape := Pipe.leg_shape legs qconj sort bunch
  unfold Leg.physQflat
  rw [getD_map' _ _ f [] [] (by rw [hsh.toQflat_length]; exact hlt), hc,
    (Pipe.init_mods_qconj legs qconj sort bunch).2]
  exact Pipe.fuseFlat_phys _ legs qconj xs hq

/-- **the pipe passes `test_sanity`**: for well-formed incoming legs over the same `chinfo`, the
outgoing leg satisfies the class invariant and its `sorted` / `bunched` flags are truthful. -/
theorem C06_pipe_sane (legs : List Leg) (hw : ∀ l ∈ legs, l.WF)
    (hm : ∀ l ∈ legs, l.mods = (legs.headD (Leg.fromTrivial 1 [] 1)).mods) (qconj : Int)
    (hq : qconj = 1 ∨ qconj = -1) (sort bunch : Bool) :
    (Pipe.init legs qconj sort bunch).leg.WF ∧ (Pipe.init legs qconj sort bunch).leg.sane = true :=
  Pipe.leg_WF_sane legs qconj sort bunch hw hm hq

example : exPipe.leg.sane = true ∧ exPipeN.leg.sane = true ∧ exPipe1.leg.sane = true ∧
    exPipe.outerConj.leg.sane = true := by decide

/-- `outer_conj` acts on the outgoing leg exactly as `flip_charges_qconj`, so `C06_flip_phys` and
`C06_flip_sane` apply to it: physical charges of all outgoing indices are unchanged. -/
theorem C06_outerConj_leg (p : Pipe) : p.outerConj.leg = p.leg.flipChargesQconj := rfl
