import TenpyModel.Core.Leg
import TenpyModel.C06.ChargeProofs
import TenpyModel.C06.ListProofs
/-!
# C06 — helper lemmas about `Leg` (well-formedness, `to_qflat`, row differences / bunching)
-/
namespace TenpyModel.Core

theorem ext_getD {α} (l₁ l₂ : List α) (d : α) (hl : l₁.length = l₂.length)
    (h : ∀ i, i < l₁.length → l₁.getD i d = l₂.getD i d) : l₁ = l₂ := by
  apply List.ext_getElem hl
  intro i h1 h2
  have := h i h1
  rwa [getD_lt _ _ _ h1, getD_lt _ _ _ h2] at this

theorem head?_eq_getD {α} (l : List α) (d : α) (h : 0 < l.length) : l.head? = some (l.getD 0 d) := by
  cases l with
  | nil => simp at h
  | cons x xs => simp

theorem getLastD_eq_getD (l : List Nat) : l.getLastD 0 = l.getD (l.length - 1) 0 := by
  rw [List.getLastD_eq_getLast?, List.getLast?_eq_getElem?, ← List.getD_eq_getElem?_getD]

theorem map_range_const {α} (n : Nat) (f : Nat → α) (c : α) (h : ∀ i, i < n → f i = c) :
    (List.range n).map f = List.replicate n c := by
  apply List.ext_getElem
  · simp
  · intro i h1 h2
    simp only [List.length_map, List.length_range] at h1
    simp [h i h1]

/-- in a list that starts `≤ j` and ends `> j` some consecutive pair encloses `j` -/
theorem exists_interval (s : List Nat) (j : Nat) (h0 : s.getD 0 0 ≤ j) (hl : j < s.getD (s.length - 1) 0) :
    ∃ g, g + 1 < s.length ∧ s.getD g 0 ≤ j ∧ j < s.getD (g + 1) 0 := by
  induction s with
  | nil => simp at hl
  | cons a rest ih =>
    cases rest with
    | nil => simp at h0 hl; omega
    | cons b rest =>
      by_cases hjb : j < b
      · exact ⟨0, by simp, by simpa using h0, by simpa using hjb⟩
      · have := ih (by simpa using Nat.le_of_not_lt hjb) (by simpa using hl)
        obtain ⟨g, hg, h1, h2⟩ := this
        exact ⟨g + 1, by simpa using hg, by simpa using h1, by simpa using h2⟩

/-! ### row differences -/

theorem mem_rowDiffAux (rows : List (List Int)) (hne : rows ≠ []) (i k : Nat) :
    k ∈ rowDiffAux i rows ↔
      i < k ∧ k ≤ i + rows.length ∧
        (k = i + rows.length ∨ rows.getD (k - i - 1) [] ≠ rows.getD (k - i) []) := by
  induction rows generalizing i with
  | nil => exact absurd rfl hne
  | cons a rest ih =>
    cases rest with
    | nil =>
      simp only [rowDiffAux, List.mem_singleton, List.length_singleton]
      constructor
      · rintro rfl; exact ⟨by omega, by omega, Or.inl rfl⟩
      · rintro ⟨h1, h2, _⟩; omega
    | cons b rest =>
      simp only [rowDiffAux, List.mem_append, ih (by simp) (i + 1), List.length_cons]
      constructor
      · rintro (h | ⟨h1, h2, h3⟩)
        · split at h
          next hab =>
            simp only [List.mem_singleton] at h
            subst h
            refine ⟨by omega, by omega, Or.inr ?_⟩
            have e1 : i + 1 - i - 1 = 0 := by omega
            have e2 : i + 1 - i = 1 := by omega
            simpa [e1, e2] using hab
          next hab => simp at h
        · refine ⟨by omega, by omega, ?_⟩
          rcases h3 with h3 | h3
          · left; omega
          · right
            have e1 : k - i - 1 = (k - (i + 1) - 1) + 1 := by omega
            have e2 : k - i = (k - (i + 1)) + 1 := by omega
            rw [e1, e2, List.getD_cons_succ, List.getD_cons_succ]
            exact h3
      · rintro ⟨h1, h2, h3⟩
        by_cases hk : k = i + 1
        · left
          subst hk
          rcases h3 with h3 | h3
          · omega
          · have e1 : i + 1 - i - 1 = 0 := by omega
            have e2 : i + 1 - i = 1 := by omega
            rw [e1, e2] at h3
            simp only [List.getD_cons_zero, List.getD_cons_succ] at h3
            rw [if_pos h3]; simp
        · right
          refine ⟨by omega, by omega, ?_⟩
          rcases h3 with h3 | h3
          · left; omega
          · right
            have e1 : k - i - 1 = (k - (i + 1) - 1) + 1 := by omega
            have e2 : k - i = (k - (i + 1)) + 1 := by omega
            rw [e1, e2, List.getD_cons_succ, List.getD_cons_succ] at h3
            exact h3

theorem rowDiffAux_sorted (rows : List (List Int)) (i : Nat) : (rowDiffAux i rows).Pairwise (· < ·) := by
  induction rows generalizing i with
  | nil => simp [rowDiffAux]
  | cons a rest ih =>
    cases rest with
    | nil => simp [rowDiffAux]
    | cons b rest =>
      simp only [rowDiffAux]
      refine List.pairwise_append.2 ⟨by split <;> simp, ih (i + 1), ?_⟩
      intro x hx y hy
      have hy' := (mem_rowDiffAux (b :: rest) (by simp) (i + 1) y).1 hy
      split at hx
      · simp only [List.mem_singleton] at hx; omega
      · simp at hx

theorem rowDiffAux_ne_nil (rows : List (List Int)) (hne : rows ≠ []) (i : Nat) : rowDiffAux i rows ≠ [] := by
  intro h
  have := (mem_rowDiffAux rows hne i (i + rows.length)).2
    ⟨by have := List.length_pos_iff.2 hne; omega, Nat.le_refl _, Or.inl rfl⟩
  rw [h] at this; simp at this

theorem rowDiffAux_all_eq (rows : List (List Int)) (hne : rows ≠ []) (i : Nat)
    (h : ∀ a ∈ rows, ∀ b ∈ rows, a = b) : rowDiffAux i rows = [i + rows.length] := by
  induction rows generalizing i with
  | nil => exact absurd rfl hne
  | cons a rest ih =>
    cases rest with
    | nil => simp [rowDiffAux]
    | cons b rest =>
      simp only [rowDiffAux]
      have hab : a = b := h a (by simp) b (by simp)
      rw [if_neg (by simpa using hab), ih (by simp) (i + 1) (fun x hx y hy => h x (by simp [hx]) y (by simp [hy]))]
      simp; omega

/-- What `_find_row_differences` computes: the strictly increasing list of group starts, closed by
the number of rows. -/
structure IsBunchIdx (rows : List (List Int)) (idx : List Nat) : Prop where
  sorted : idx.Pairwise (· < ·)
  pos    : 0 < idx.length
  head   : idx.getD 0 0 = 0
  last   : idx.getD (idx.length - 1) 0 = rows.length
  len2   : rows ≠ [] → 2 ≤ idx.length
  mem    : ∀ k, 0 < k → k < rows.length → (k ∈ idx ↔ rows.getD (k - 1) [] ≠ rows.getD k [])

theorem findRowDifferences_eq (qn : Nat) (rows : List (List Int)) (hlen : qn = 0 → ∀ r ∈ rows, r = [])
    (hne : rows ≠ []) : findRowDifferences qn rows = 0 :: rowDiffAux 0 rows := by
  unfold findRowDifferences
  rw [if_neg (by simpa using hne)]
  split
  next hq =>
    subst hq
    rw [rowDiffAux_all_eq rows hne 0]
    · simp
    · intro a ha b hb
      rw [hlen rfl a ha, hlen rfl b hb]
  next => rfl

theorem rowDiffAux_length_of_ne (rows : List (List Int)) (hne : rows ≠ []) (i : Nat)
    (h : ∀ k, k + 1 < rows.length → rows.getD k [] ≠ rows.getD (k + 1) []) :
    (rowDiffAux i rows).length = rows.length := by
  induction rows generalizing i with
  | nil => exact absurd rfl hne
  | cons a rest ih =>
    cases rest with
    | nil => simp [rowDiffAux]
    | cons b rest =>
      simp only [rowDiffAux]
      have hab : a ≠ b := by simpa using h 0 (by simp)
      rw [if_pos hab, List.length_append, ih (by simp) (i + 1)]
      · simp; omega
      · intro k hk
        have := h (k + 1) (by simpa using hk)
        simpa using this

/-- rows without equal neighbours are bunched -/
theorem findRowDifferences_length_of_ne (qn : Nat) (rows : List (List Int))
    (hlen : qn = 0 → ∀ r ∈ rows, r = [])
    (h : ∀ k, k + 1 < rows.length → rows.getD k [] ≠ rows.getD (k + 1) []) :
    (findRowDifferences qn rows).length = rows.length + 1 := by
  by_cases hne : rows = []
  · subst hne; simp [findRowDifferences]
  · rw [findRowDifferences_eq qn rows hlen hne, List.length_cons, rowDiffAux_length_of_ne rows hne 0 h]

theorem findRowDifferences_spec (qn : Nat) (rows : List (List Int)) (hlen : qn = 0 → ∀ r ∈ rows, r = []) :
    IsBunchIdx rows (findRowDifferences qn rows) := by
  by_cases hne : rows = []
  · subst hne
    simp only [findRowDifferences, List.isEmpty_nil, if_true]
    exact ⟨by simp, by simp, by simp, by simp, fun h => absurd rfl h, fun k h1 h2 => by simp at h2⟩
  · have hform := findRowDifferences_eq qn rows hlen hne
    rw [hform]
    have hpos := List.length_pos_iff.2 hne
    have hnn := rowDiffAux_ne_nil rows hne 0
    have hlpos := List.length_pos_iff.2 hnn
    refine ⟨?_, by simp, by simp, ?_, ?_, ?_⟩
    · refine List.pairwise_cons.2 ⟨?_, rowDiffAux_sorted rows 0⟩
      intro k hk
      exact ((mem_rowDiffAux rows hne 0 k).1 hk).1
    · -- last element
      simp only [List.length_cons, Nat.add_sub_cancel]
      obtain ⟨m, hm⟩ : ∃ m, (rowDiffAux 0 rows).length = m + 1 := ⟨_, (Nat.succ_pred_eq_of_pos hlpos).symm⟩
      rw [hm, List.getD_cons_succ]
      have hmem : rows.length ∈ rowDiffAux 0 rows :=
        (mem_rowDiffAux rows hne 0 _).2 ⟨hpos, by omega, Or.inl (by omega)⟩
      obtain ⟨t, ht, hte⟩ := List.mem_iff_getElem.1 hmem
      have hlast := getD_mem (rowDiffAux 0 rows) m 0 (by omega)
      have hle := ((mem_rowDiffAux rows hne 0 _).1 hlast).2.1
      rcases Nat.lt_or_eq_of_le (show t ≤ m by omega) with hlt | heq
      · have := smono_getD _ (rowDiffAux_sorted rows 0) t m hlt (by omega)
        rw [getD_lt _ t 0 ht, hte] at this
        omega
      · subst heq; rw [getD_lt _ t 0 ht, hte]
    · intro _; simp only [List.length_cons]; omega
    · intro k hk1 hk2
      rw [List.mem_cons, mem_rowDiffAux rows hne 0 k]
      constructor
      · rintro (h | ⟨_, _, h | h⟩)
        · omega
        · omega
        · simpa using h
      · intro h
        right
        exact ⟨hk1, by omega, Or.inr (by simpa using h)⟩

namespace IsBunchIdx

variable {rows : List (List Int)} {idx : List Nat}

theorem le_len (h : IsBunchIdx rows idx) (g : Nat) (hg : g < idx.length) : idx.getD g 0 ≤ rows.length := by
  rw [← h.last]
  have hs : idx.Pairwise (· ≤ ·) := h.sorted.imp Nat.le_of_lt
  exact mono_getD idx hs g _ (by omega) (by have := h.pos; omega)

/-- an index strictly inside a group is not a group start -/
theorem not_mem_of_between (h : IsBunchIdx rows idx) (g j : Nat) (hg : g + 1 < idx.length)
    (h1 : idx.getD g 0 < j) (h2 : j < idx.getD (g + 1) 0) : j ∉ idx := by
  intro hj
  obtain ⟨t, ht, hte⟩ := List.mem_iff_getElem.1 hj
  rw [← getD_lt idx t 0 ht] at hte
  rw [← hte] at h1 h2
  have a := (smono_getD_lt_iff idx h.sorted g t (by omega) ht).1 h1
  have b := (smono_getD_lt_iff idx h.sorted t (g + 1) ht hg).1 h2
  omega

/-- rows are constant on a group -/
theorem const_on_group (h : IsBunchIdx rows idx) (g : Nat) (hg : g + 1 < idx.length) (j : Nat)
    (h1 : idx.getD g 0 ≤ j) (h2 : j < idx.getD (g + 1) 0) :
    rows.getD j [] = rows.getD (idx.getD g 0) [] := by
  induction j with
  | zero => have : idx.getD g 0 = 0 := by omega
            rw [this]
  | succ j ih =>
    rcases Nat.lt_or_eq_of_le h1 with hlt | heq
    · have hnm := h.not_mem_of_between g (j + 1) hg hlt h2
      have hle := h.le_len (g + 1) hg
      have this : ¬ (rows.getD (j + 1 - 1) [] ≠ rows.getD (j + 1) []) :=
        fun hne => hnm ((h.mem (j + 1) (by omega) (by omega)).2 hne)
      simp only [Nat.add_sub_cancel, ne_eq, Decidable.not_not] at this
      rw [← this]
      exact ih (by omega) (by omega)
    · rw [heq]

/-- consecutive groups carry different rows -/
theorem boundary_ne (h : IsBunchIdx rows idx) (g : Nat) (hg : g + 2 < idx.length) :
    rows.getD (idx.getD (g + 1) 0 - 1) [] ≠ rows.getD (idx.getD (g + 1) 0) [] := by
  have hm : idx.getD (g + 1) 0 ∈ idx := getD_mem idx _ 0 (by omega)
  have h0 : idx.getD 0 0 < idx.getD (g + 1) 0 := smono_getD idx h.sorted 0 (g + 1) (by omega) (by omega)
  have hl : idx.getD (g + 1) 0 < idx.getD (idx.length - 1) 0 :=
    smono_getD idx h.sorted (g + 1) _ (by omega) (by omega)
  rw [h.last] at hl
  exact (h.mem _ (by omega) hl).1 hm

theorem group_exists (h : IsBunchIdx rows idx) (j : Nat) (hj : j < rows.length) :
    ∃ g, g + 1 < idx.length ∧ idx.getD g 0 ≤ j ∧ j < idx.getD (g + 1) 0 :=
  exists_interval idx j (by rw [h.head]; omega) (by rw [h.last]; exact hj)

theorem group_unique (h : IsBunchIdx rows idx) (j g g' : Nat) (hg : g + 1 < idx.length)
    (hg' : g' + 1 < idx.length) (h1 : idx.getD g 0 ≤ j) (h2 : j < idx.getD (g + 1) 0)
    (h1' : idx.getD g' 0 ≤ j) (h2' : j < idx.getD (g' + 1) 0) : g = g' := by
  have a := (smono_getD_lt_iff idx h.sorted g (g' + 1) (by omega) hg').1 (by omega)
  have b := (smono_getD_lt_iff idx h.sorted g' (g + 1) (by omega) hg).1 (by omega)
  omega

end IsBunchIdx

/-! ### sub-lists picked by strictly increasing indices -/

theorem take?_sublist {α} (l : List α) (d : α) (is : List Nat) (hs : is.Pairwise (· < ·))
    (hr : ∀ i ∈ is, i < l.length) : (take? l is d).Sublist l := by
  induction l generalizing is with
  | nil =>
    cases is with
    | nil => simp [take?]
    | cons i is => have := hr i (by simp); simp at this
  | cons x xs ih =>
    cases is with
    | nil => simp [take?]
    | cons i is =>
      have hgt : ∀ k ∈ is, i < k := (List.pairwise_cons.1 hs).1
      have hs' := (List.pairwise_cons.1 hs).2
      -- the tail indices are all ≥ 1
      have htail : take? (x :: xs) is d = take? xs (is.map (· - 1)) d := by
        unfold take?
        rw [List.map_map]
        apply List.map_congr_left
        intro k hk
        have := hgt k hk
        obtain ⟨k', rfl⟩ : ∃ k', k = k' + 1 := ⟨k - 1, by omega⟩
        simp
      have hs'' : (is.map (· - 1)).Pairwise (· < ·) := by
        rw [List.pairwise_map]
        refine hs'.imp_of_mem ?_
        intro a b ha hb hab
        have := hgt a ha; have := hgt b hb; omega
      have hr'' : ∀ k ∈ is.map (· - 1), k < xs.length := by
        intro k hk
        obtain ⟨k0, hk0, rfl⟩ := List.mem_map.1 hk
        have := hr k0 (by simp [hk0]); have := hgt k0 hk0
        simp only [List.length_cons] at *; omega
      cases i with
      | zero =>
        have : take? (x :: xs) (0 :: is) d = x :: take? (x :: xs) is d := by simp [take?]
        rw [this, htail]
        exact List.Sublist.cons_cons x (ih _ hs'' hr'')
      | succ i =>
        have : take? (x :: xs) ((i + 1) :: is) d = take? xs (i :: is.map (· - 1)) d := by
          have h2 := htail
          simp only [take?, List.map_cons, List.getD_cons_succ] at h2 ⊢
          rw [h2]
        rw [this]
        refine List.Sublist.cons x (ih _ ?_ ?_)
        · refine List.pairwise_cons.2 ⟨?_, hs''⟩
          intro k hk
          obtain ⟨k0, hk0, rfl⟩ := List.mem_map.1 hk
          have := hgt k0 hk0; omega
        · intro k hk
          rcases List.mem_cons.1 hk with rfl | hk
          · have := hr (k + 1) (by simp); simpa using this
          · exact hr'' k hk

namespace Leg

/-! ### well-formedness -/

/-- shape part of the class invariant: `slices` has `block_number + 1` entries, starts at 0 and is
non-decreasing -/
structure Shape (l : Leg) : Prop where
  len  : l.slices.length = l.charges.length + 1
  head : l.slices.head? = some 0
  mono : l.slices.Pairwise (· ≤ ·)

/-- the class invariant of `LegCharge` that generated legs satisfy -/
structure WF (l : Leg) : Prop where
  shape : l.Shape
  valid : ∀ c ∈ l.charges, checkValid l.mods c = true
  mods  : ∀ m ∈ l.mods, 1 ≤ m
  qconj : l.qconj = 1 ∨ l.qconj = -1

instance (l : Leg) : Decidable l.Shape :=
  decidable_of_iff (l.slices.length = l.charges.length + 1 ∧ l.slices.head? = some 0 ∧
      l.slices.Pairwise (· ≤ ·))
    ⟨fun ⟨a, b, c⟩ => ⟨a, b, c⟩, fun ⟨a, b, c⟩ => ⟨a, b, c⟩⟩

instance (l : Leg) : Decidable l.WF :=
  decidable_of_iff (l.Shape ∧ (∀ c ∈ l.charges, checkValid l.mods c = true) ∧ (∀ m ∈ l.mods, 1 ≤ m) ∧
      (l.qconj = 1 ∨ l.qconj = -1))
    ⟨fun ⟨a, b, c, d⟩ => ⟨a, b, c, d⟩, fun ⟨a, b, c, d⟩ => ⟨a, b, c, d⟩⟩

theorem WF.charge_len {l : Leg} (h : l.WF) : ∀ c ∈ l.charges, c.length = l.qnumber :=
  fun c hc => checkValid_length (h.valid c hc)

/-- with no charges (`qnumber = 0`) every charge row is empty — all that `_find_row_differences`
needs to know about row lengths -/
def CL0 (l : Leg) : Prop := l.qnumber = 0 → ∀ c ∈ l.charges, c = []

theorem WF.cl0 {l : Leg} (h : l.WF) : l.CL0 :=
  fun h0 c hc => List.length_eq_zero_iff.1 (by rw [h.charge_len c hc, h0])

namespace Shape
variable {l : Leg}

theorem sizes_len (h : l.Shape) : l.blockSizes.length = l.blockNumber := by
  unfold blockSizes blockNumber; rw [sizesOfSlices_length, h.len]; omega

theorem canon (h : l.Shape) : l.slices = slicesOfSizes l.blockSizes :=
  (slicesOfSizes_sizesOfSlices l.slices h.head h.mono).symm

theorem slices_getD (h : l.Shape) (q : Nat) (hq : q ≤ l.blockNumber) :
    l.slices.getD q 0 = psum l.blockSizes q := by
  conv => lhs; rw [h.canon]
  exact slicesOfSizes_getD _ _ (by rw [h.sizes_len]; exact hq)

theorem slices_zero (h : l.Shape) : l.slices.getD 0 0 = 0 := by
  rw [h.slices_getD 0 (Nat.zero_le _)]; simp

theorem slices_succ (h : l.Shape) (q : Nat) (hq : q < l.blockNumber) :
    l.slices.getD (q + 1) 0 = l.slices.getD q 0 + l.blockSizes.getD q 0 := by
  rw [h.slices_getD (q + 1) hq, h.slices_getD q (Nat.le_of_lt hq),
    psum_succ _ q (by rw [h.sizes_len]; exact hq)]

theorem indLen_eq (h : l.Shape) : l.indLen = l.blockSizes.sum := by
  unfold indLen
  conv => lhs; rw [h.canon]
  exact slicesOfSizes_getLastD _

theorem indLen_eq_getD (h : l.Shape) : l.indLen = l.slices.getD l.blockNumber 0 := by
  rw [h.indLen_eq, h.slices_getD _ (Nat.le_refl _), ← h.sizes_len, psum_length]

theorem toQflat_eq (l : Leg) : l.toQflat = expand l.blockSizes l.charges := rfl

theorem toQflat_length (h : l.Shape) : l.toQflat.length = l.indLen := by
  rw [toQflat_eq, expand_length _ _ h.sizes_len, h.indLen_eq]

/-- the charge attached to flat index `x` is the charge of the block that contains `x` -/
theorem toQflat_getD (h : l.Shape) (q x : Nat) (hq : q < l.blockNumber) (h1 : l.slices.getD q 0 ≤ x)
    (h2 : x < l.slices.getD (q + 1) 0) : l.toQflat.getD x [] = l.charges.getD q [] := by
  have e := h.slices_succ q hq
  have hx : x = psum l.blockSizes q + (x - l.slices.getD q 0) := by
    rw [← h.slices_getD q (Nat.le_of_lt hq)]; omega
  rw [hx, toQflat_eq]
  exact expand_getD _ _ [] h.sizes_len q _ (by rw [h.sizes_len]; exact hq) (by omega)

/-- every flat index lies in a block -/
theorem block_exists (h : l.Shape) (x : Nat) (hx : x < l.indLen) :
    ∃ q, q < l.blockNumber ∧ l.slices.getD q 0 ≤ x ∧ x < l.slices.getD (q + 1) 0 := by
  have := exists_interval l.slices x (by rw [h.slices_zero]; omega)
    (by rw [h.len, Nat.add_sub_cancel, ← blockNumber, ← h.indLen_eq_getD]; exact hx)
  obtain ⟨q, hq, h1, h2⟩ := this
  exact ⟨q, by rw [h.len] at hq; unfold blockNumber; omega, h1, h2⟩

end Shape

/-- a leg assembled from block sizes has the right shape -/
theorem shape_of_sizes (mods : List Nat) (sizes : List Nat) (charges : List Charge) (qc : Int) (s b : Bool)
    (hl : sizes.length = charges.length) :
    Shape { mods, slices := slicesOfSizes sizes, charges, qconj := qc, sorted := s, bunched := b } :=
  ⟨by simp [slicesOfSizes_length, hl], slicesOfSizes_head _, slicesOfSizes_pairwise _⟩

theorem blockSizes_of_sizes (mods : List Nat) (sizes : List Nat) (charges : List Charge) (qc : Int) (s b : Bool) :
    blockSizes { mods, slices := slicesOfSizes sizes, charges, qconj := qc, sorted := s, bunched := b } = sizes :=
  sizesOfSlices_slicesOfSizes sizes

/-! ### bunch -/

/-- the un-flagged result of `bunch` -/
def bunchCore (l : Leg) : Leg :=
  let idx := findRowDifferences l.qnumber l.charges
  { l with charges := take? l.charges idx.dropLast [], slices := take? l.slices idx 0, bunched := true }

theorem bunch_eq (l : Leg) : l.bunch =
    if l.bunched then (List.range (l.blockNumber + 1), l)
    else (findRowDifferences l.qnumber l.charges, l.bunchCore) := rfl

section bunchCore
variable {l : Leg}

theorem bunchIdx (hc : l.CL0) : IsBunchIdx l.charges (findRowDifferences l.qnumber l.charges) :=
  findRowDifferences_spec _ _ hc

theorem bunchCore_blockNumber :
    l.bunchCore.blockNumber = (findRowDifferences l.qnumber l.charges).length - 1 := by
  simp [bunchCore, blockNumber, take?]

theorem bunchCore_slices_getD (g : Nat) (hg : g < (findRowDifferences l.qnumber l.charges).length) :
    l.bunchCore.slices.getD g 0 = l.slices.getD ((findRowDifferences l.qnumber l.charges).getD g 0) 0 :=
  take?_getD _ _ 0 g hg

theorem bunchCore_charges_getD (g : Nat) (hg : g + 1 < (findRowDifferences l.qnumber l.charges).length) :
    l.bunchCore.charges.getD g [] = l.charges.getD ((findRowDifferences l.qnumber l.charges).getD g 0) [] := by
  have : g < (findRowDifferences l.qnumber l.charges).dropLast.length := by simp; omega
  show (take? _ _ _).getD g [] = _
  rw [take?_getD _ _ [] g this]
  congr 1
  rw [getD_lt _ g 0 this, getD_lt _ g 0 (by omega), List.getElem_dropLast]

theorem bunchCore_shape (h : l.Shape) (hc : l.CL0) : l.bunchCore.Shape := by
  have hb := bunchIdx hc
  have hpos := hb.pos
  refine ⟨?_, ?_, ?_⟩
  · simp [bunchCore, take?]; omega
  · rw [head?_eq_getD _ 0 (by simp [bunchCore, take?]; omega), bunchCore_slices_getD 0 hpos, hb.head,
      h.slices_zero]
  · rw [List.pairwise_iff_getElem]
    intro i j hi hj hij
    rw [← getD_lt _ i 0 hi, ← getD_lt _ j 0 hj]
    have hlen : l.bunchCore.slices.length = (findRowDifferences l.qnumber l.charges).length := by
      simp [bunchCore, take?]
    rw [hlen] at hi hj
    rw [bunchCore_slices_getD i hi, bunchCore_slices_getD j hj]
    have := smono_getD _ hb.sorted i j hij hj
    have hle := hb.le_len j hj
    exact mono_getD l.slices h.mono _ _ (by omega) (by rw [h.len]; omega)

/-- **bunch preserves the charge of every index** -/
theorem bunchCore_toQflat (h : l.Shape) (hc : l.CL0) : l.bunchCore.toQflat = l.toQflat := by
  have hb := bunchIdx hc
  have hs' := bunchCore_shape h hc
  have hpos := hb.pos
  have hbn := bunchCore_blockNumber (l := l)
  have hind : l.bunchCore.indLen = l.indLen := by
    rw [hs'.indLen_eq_getD, h.indLen_eq_getD, hbn, bunchCore_slices_getD _ (by omega), hb.last]
    rfl
  apply ext_getD _ _ []
  · rw [hs'.toQflat_length, h.toQflat_length, hind]
  · intro x hx
    rw [hs'.toQflat_length, hind] at hx
    obtain ⟨j, hj, hj1, hj2⟩ := h.block_exists x hx
    obtain ⟨g, hg, hg1, hg2⟩ := hb.group_exists j hj
    have hle := hb.le_len (g + 1) hg
    rw [h.toQflat_getD j x hj hj1 hj2]
    rw [hs'.toQflat_getD g x (by rw [hbn]; omega)
      (by rw [bunchCore_slices_getD g (by omega)]
          exact Nat.le_trans (mono_getD l.slices h.mono _ _ hg1 (by rw [h.len]; unfold blockNumber at hj; omega)) hj1)
      (by rw [bunchCore_slices_getD (g + 1) hg]
          exact Nat.lt_of_lt_of_le hj2 (mono_getD l.slices h.mono _ _ (by omega) (by rw [h.len]; omega)))]
    rw [bunchCore_charges_getD g hg, hb.const_on_group g hg j hg1 hg2]

theorem bunchCore_indLen (h : l.Shape) (hc : l.CL0) : l.bunchCore.indLen = l.indLen := by
  rw [← (bunchCore_shape h hc).toQflat_length, bunchCore_toQflat h hc, h.toQflat_length]

/-- the result of bunch has no two equal neighbouring rows -/
theorem bunchCore_isBunched (hc : l.CL0) : l.bunchCore.isBunched = true := by
  have hb := bunchIdx hc
  have hc' : l.bunchCore.CL0 := by
    intro h0 c hcm
    obtain ⟨k, hk, rfl⟩ := List.mem_map.1 hcm
    have hk' : k < l.charges.length := by
      obtain ⟨t, ht, hte⟩ := List.mem_iff_getElem.1 hk
      simp only [List.length_dropLast] at ht
      rw [List.getElem_dropLast] at hte
      have := smono_getD _ hb.sorted t ((findRowDifferences l.qnumber l.charges).length - 1) (by omega) (by omega)
      rw [hb.last, getD_lt _ t 0 (by omega), hte] at this
      exact this
    exact hc h0 _ (getD_mem _ _ _ hk')
  unfold isBunched
  rw [beq_iff_eq]
  apply findRowDifferences_length_of_ne _ _ hc'
  intro k hk
  have hkn : k + 2 < (findRowDifferences l.qnumber l.charges).length := by
    have : l.bunchCore.charges.length = (findRowDifferences l.qnumber l.charges).length - 1 := by
      simp [bunchCore, take?]
    omega
  rw [bunchCore_charges_getD k (by omega), bunchCore_charges_getD (k + 1) hkn]
  have hlt := smono_getD _ hb.sorted k (k + 1) (by omega) (by omega)
  rw [← hb.const_on_group k (by omega) ((findRowDifferences l.qnumber l.charges).getD (k + 1) 0 - 1)
    (by omega) (by omega)]
  exact hb.boundary_ne k hkn


theorem bunchCore_charges_sublist (hc : l.CL0) :
    l.bunchCore.charges.Sublist l.charges := by
  have hb := bunchIdx hc
  apply take?_sublist
  · exact hb.sorted.sublist (List.dropLast_sublist _)
  · intro k hk
    obtain ⟨t, ht, hte⟩ := List.mem_iff_getElem.1 hk
    simp only [List.length_dropLast] at ht
    rw [List.getElem_dropLast] at hte
    have := smono_getD _ hb.sorted t ((findRowDifferences l.qnumber l.charges).length - 1) (by omega) (by omega)
    rw [hb.last, getD_lt _ t 0 (by omega), hte] at this
    exact this

end bunchCore

/-! ### flags -/

/-- no two neighbouring rows are equal -/
def NoEqNbr (rows : List Charge) : Prop := ∀ k, k + 1 < rows.length → rows.getD k [] ≠ rows.getD (k + 1) []

theorem rowDiffAux_length_le (rows : List (List Int)) (i : Nat) : (rowDiffAux i rows).length ≤ rows.length := by
  induction rows generalizing i with
  | nil => simp [rowDiffAux]
  | cons a rest ih =>
    cases rest with
    | nil => simp [rowDiffAux]
    | cons b rest =>
      simp only [rowDiffAux, List.length_append]
      have := ih (i + 1)
      split <;> simp at * <;> omega

theorem noEqNbr_of_rowDiffAux_length (rows : List (List Int)) (i : Nat)
    (h : (rowDiffAux i rows).length = rows.length) : NoEqNbr rows := by
  induction rows generalizing i with
  | nil => intro k hk; simp at hk
  | cons a rest ih =>
    cases rest with
    | nil => intro k hk; simp at hk
    | cons b rest =>
      simp only [rowDiffAux, List.length_append] at h
      have hle := rowDiffAux_length_le (b :: rest) (i + 1)
      by_cases hab : a = b
      · rw [if_neg (by simpa using hab)] at h; simp at h hle; omega
      · rw [if_pos hab] at h
        have := ih (i + 1) (by simp at h ⊢; omega)
        intro k hk
        cases k with
        | zero => simpa using hab
        | succ k => simpa using this k (by simpa using hk)

theorem isBunched_iff (l : Leg) (hc : l.CL0) :
    l.isBunched = true ↔ NoEqNbr l.charges := by
  unfold isBunched
  rw [beq_iff_eq]
  constructor
  · intro h
    by_cases hne : l.charges = []
    · rw [hne]; intro k hk; simp at hk
    · rw [findRowDifferences_eq _ _ hc hne] at h
      exact noEqNbr_of_rowDiffAux_length _ 0 (by simpa [blockNumber] using h)
  · exact findRowDifferences_length_of_ne _ _ hc

theorem isSorted_iff (l : Leg) :
    l.isSorted = true ↔ l.qnumber = 0 ∨ l.charges.Pairwise (fun a b => lexLE a b = true) := by
  unfold isSorted isSortedRows
  rw [Bool.or_eq_true, beq_iff_eq, beq_iff_eq]
  constructor
  · rintro (h | h)
    · exact Or.inl h
    · exact Or.inr (sorted_of_lexsort _ h)
  · rintro (h | h)
    · exact Or.inl h
    · exact Or.inr (lexsort_of_sorted _ h)

theorem noEqNbr_sublist_of_sorted (a b : List Charge) (hs : a.Sublist b)
    (hb : b.Pairwise (fun x y => lexLE x y = true)) (hn : NoEqNbr b) : NoEqNbr a := by
  -- sorted + no equal neighbours = strictly sorted, which passes to sub-lists
  have hstrict : b.Pairwise (fun x y => lexLE x y = true ∧ x ≠ y) := by
    rw [List.pairwise_iff_getElem] at hb ⊢
    intro i j hi hj hij
    refine ⟨hb i j hi hj hij, ?_⟩
    intro heq
    -- b[i] ≤ b[i+1] ≤ b[j] = b[i]  ⇒  b[i] = b[i+1]
    have h1 := hb i (i + 1) hi (by omega) (by omega)
    have h2 : lexLE b[i + 1] b[i] = true := by
      rcases Nat.lt_or_eq_of_le (show i + 1 ≤ j by omega) with hlt | he
      · rw [heq]; exact hb (i + 1) j (by omega) hj hlt
      · subst he; rw [← heq]; exact lexLE_refl _
    have := hn i (by omega)
    rw [getD_lt b i [] hi, getD_lt b (i + 1) [] (by omega)] at this
    exact this (lexLE_antisymm _ _ h1 h2)
  have ha := hstrict.sublist hs
  rw [List.pairwise_iff_getElem] at ha
  intro k hk
  rw [getD_lt a k [] (by omega), getD_lt a (k + 1) [] hk]
  exact (ha k (k + 1) (by omega) hk (by omega)).2

/-- flags that are set are true -/
def FlagsOK (l : Leg) : Prop := (l.sorted = true → l.isSorted = true) ∧ (l.bunched = true → l.isBunched = true)

theorem sane_iff (l : Leg) : l.sane = true ↔
    (l.slices.length = l.blockNumber + 1 ∧ l.slices.head? = some 0 ∧
     (∀ c ∈ l.charges, checkValid l.mods c = true) ∧ (l.qconj = 1 ∨ l.qconj = -1)) ∧ l.FlagsOK := by
  unfold sane FlagsOK
  simp only [Bool.and_eq_true, Bool.or_eq_true, beq_iff_eq, List.all_eq_true, Bool.not_eq_true']
  constructor
  · rintro ⟨⟨⟨⟨⟨a, b⟩, c⟩, d⟩, e⟩, f⟩
    refine ⟨⟨a, b, c, d⟩, ?_, ?_⟩
    · intro hs; rcases e with e | e
      · rw [hs] at e; cases e
      · exact e
    · intro hs; rcases f with f | f
      · rw [hs] at f; cases f
      · exact f
  · rintro ⟨⟨a, b, c, d⟩, e, f⟩
    refine ⟨⟨⟨⟨⟨a, b⟩, c⟩, d⟩, ?_⟩, ?_⟩
    · cases hs : l.sorted
      · exact Or.inl rfl
      · exact Or.inr (e hs)
    · cases hs : l.bunched
      · exact Or.inl rfl
      · exact Or.inr (f hs)

theorem WF.sane_iff {l : Leg} (h : l.WF) : l.sane = true ↔ l.FlagsOK := by
  rw [Leg.sane_iff]
  exact ⟨fun x => x.2, fun x => ⟨⟨h.shape.len, h.shape.head, h.valid, h.qconj⟩, x⟩⟩

/-! ### bunch: invariant -/

theorem bunchCore_WF {l : Leg} (h : l.WF) : l.bunchCore.WF :=
  ⟨bunchCore_shape h.shape h.cl0,
   fun c hc => h.valid c ((bunchCore_charges_sublist h.cl0).subset hc), h.mods, h.qconj⟩

theorem bunchCore_flags {l : Leg} (h : l.WF) (hf : l.sorted = true → l.isSorted = true) :
    l.bunchCore.FlagsOK := by
  refine ⟨?_, fun _ => bunchCore_isBunched h.cl0⟩
  intro hs
  have := (isSorted_iff l).1 (hf hs)
  rw [isSorted_iff]
  rcases this with h0 | hp
  · exact Or.inl h0
  · exact Or.inr (hp.sublist (bunchCore_charges_sublist h.cl0))

theorem bunch_WF {l : Leg} (h : l.WF) : l.bunch.2.WF := by
  rw [bunch_eq]; split
  · exact h
  · exact bunchCore_WF h

theorem bunch_flags {l : Leg} (h : l.WF) (hf : l.FlagsOK) : l.bunch.2.FlagsOK := by
  rw [bunch_eq]; split
  · exact hf
  · exact bunchCore_flags h hf.1

theorem bunch_toQflat {l : Leg} (h : l.Shape) (hc : l.CL0) :
    l.bunch.2.toQflat = l.toQflat := by
  rw [bunch_eq]; split
  · rfl
  · exact bunchCore_toQflat h hc

theorem bunch_isBunched {l : Leg} (hc : l.CL0)
    (hf : l.bunched = true → l.isBunched = true) : l.bunch.2.isBunched = true := by
  rw [bunch_eq]; split
  next hb => exact hf hb
  · exact bunchCore_isBunched hc

/-! ### physical charges, flip, conj -/

/-- the physical charge of every flat index: `make_valid(qconj * charge)` -/
def physQflat (l : Leg) : List Charge := l.toQflat.map (fun c => makeValid l.mods (cscale l.qconj c))

theorem flip_phys_charge (mods : List Nat) (q : Int) (c : Charge) :
    makeValid mods (cscale (-q) (makeValid mods (cneg c))) = makeValid mods (cscale q c) := by
  rw [makeValid_scale, cneg_eq_cscale, cscale_cscale]
  congr 2; omega

theorem flip_toQflat (l : Leg) :
    l.flipChargesQconj.toQflat = l.toQflat.map (fun c => makeValid l.mods (cneg c)) := by
  show expand (sizesOfSlices l.slices) (l.charges.map _) = _
  rw [expand_map]; rfl

theorem flip_physQflat (l : Leg) : l.flipChargesQconj.physQflat = l.physQflat := by
  unfold physQflat
  rw [flip_toQflat, List.map_map]
  apply List.map_congr_left
  intro c _
  exact flip_phys_charge l.mods l.qconj c

theorem flip_physCharges (l : Leg) : l.flipChargesQconj.physCharges = l.physCharges := by
  unfold physCharges flipChargesQconj
  simp only [List.map_map]
  apply List.map_congr_left
  intro c _
  exact flip_phys_charge l.mods l.qconj c

theorem cneg_length (c : Charge) : (cneg c).length = c.length := by simp [cneg]

theorem flip_WF {l : Leg} (h : l.WF) : l.flipChargesQconj.WF := by
  refine ⟨⟨by simpa [flipChargesQconj] using h.shape.len, h.shape.head, h.shape.mono⟩, ?_, h.mods, ?_⟩
  · intro c hc
    obtain ⟨c0, hc0, rfl⟩ := List.mem_map.1 hc
    exact checkValid_makeValid _ h.mods _ (by rw [cneg_length]; exact h.charge_len c0 hc0)
  · rcases h.qconj with hq | hq <;> simp [flipChargesQconj, hq]

theorem cneg_cneg (c : Charge) : cneg (cneg c) = c := by
  induction c with
  | nil => rfl
  | cons x c ih => simp only [cneg, List.map_cons, Int.neg_neg] at ih ⊢; rw [ih]

theorem flip_charge_inj (mods : List Nat) (a b : Charge) (ha : checkValid mods a = true)
    (hb : checkValid mods b = true) (e : makeValid mods (cneg a) = makeValid mods (cneg b)) : a = b := by
  have := congrArg (fun c => makeValid mods (cneg c)) e
  simp only [makeValid_neg, cneg_cneg, makeValid_of_checkValid _ _ ha, makeValid_of_checkValid _ _ hb] at this
  exact this

theorem flip_flags {l : Leg} (h : l.WF) (hf : l.FlagsOK) : l.flipChargesQconj.FlagsOK := by
  refine ⟨fun hs => by simp [flipChargesQconj] at hs, ?_⟩
  intro hb
  have hb0 : l.isBunched = true := hf.2 hb
  rw [isBunched_iff _ h.cl0] at hb0
  rw [isBunched_iff _ (flip_WF h).cl0]
  intro k hk
  have hk' : k + 1 < l.charges.length := by simpa [flipChargesQconj] using hk
  show (l.charges.map _).getD k [] ≠ (l.charges.map _).getD (k + 1) []
  rw [getD_map' _ _ k [] [] (by omega), getD_map' _ _ (k + 1) [] [] hk']
  intro e
  exact hb0 k hk' (flip_charge_inj l.mods _ _ (h.valid _ (getD_mem _ _ _ (by omega)))
    (h.valid _ (getD_mem _ _ _ hk')) e)

theorem conj_conj (l : Leg) : l.conj.conj = l := by
  cases l; simp [conj]

theorem testContractible_conj (l : Leg) : l.testContractible l.conj = true := by
  unfold testContractible testEqual
  rw [conj_conj]
  simp [eq?]

theorem conj_WF {l : Leg} (h : l.WF) : l.conj.WF :=
  ⟨⟨h.shape.len, h.shape.head, h.shape.mono⟩, h.valid, h.mods, by
    rcases h.qconj with hq | hq <;> simp [conj, hq]⟩

theorem conj_flags {l : Leg} (hf : l.FlagsOK) : l.conj.FlagsOK := hf

theorem conj_toQflat (l : Leg) : l.conj.toQflat = l.toQflat := rfl

end Leg
end TenpyModel.Core
