import TenpyModel.C06.PipeProofs
/-!
# C06 — helper lemmas: `ind_len` of a pipe, `outer_conj`, `get_qindex`, `map_incoming_flat`
-/
namespace TenpyModel.Core

/-! ### get_qindex -/

theorem takeWhile_le_spec (s : List Nat) (x : Nat) :
    (∀ i, i < (s.takeWhile (fun v => v ≤ x)).length → s.getD i 0 ≤ x) ∧
      ((s.takeWhile (fun v => v ≤ x)).length < s.length →
        x < s.getD (s.takeWhile (fun v => v ≤ x)).length 0) ∧
      (s.takeWhile (fun v => v ≤ x)).length ≤ s.length := by
  induction s with
  | nil => simp
  | cons a s ih =>
    by_cases ha : a ≤ x
    · rw [List.takeWhile_cons_of_pos (by simpa using ha)]
      refine ⟨?_, ?_, ?_⟩
      · intro i hi
        cases i with
        | zero => simpa using ha
        | succ i => simpa using ih.1 i (by simpa using hi)
      · intro h; simpa using ih.2.1 (by simpa using h)
      · simpa using ih.2.2
    · rw [List.takeWhile_cons_of_neg (by simpa using ha)]
      refine ⟨by intro i hi; simp at hi, fun _ => by simpa using Nat.lt_of_not_le ha, by simp⟩

namespace Leg

/-- `(qindex, index within the block)` of flat index `x` -/
def locateQ (l : Leg) (x : Nat) : Nat × Nat :=
  (bisectRight l.slices x - 1, x - l.slices.getD (bisectRight l.slices x - 1) 0)

theorem getQindex_nat (l : Leg) (x : Nat) (hx : x < l.indLen) : l.getQindex (x : Int) = some (l.locateQ x) := by
  unfold getQindex locateQ
  have h1 : ¬ ((x : Int) < 0) := by omega
  have h2 : ¬ ((x : Int) ≥ (l.indLen : Int)) := by omega
  simp only [h1, if_false, h2, Int.toNat_natCast]

/-- negative indices count from the end, as in Python -/
theorem getQindex_neg (l : Leg) (x : Nat) (hx : x < l.indLen) :
    l.getQindex ((x : Int) - l.indLen) = l.getQindex (x : Int) := by
  unfold getQindex
  have h1 : ¬ ((x : Int) < 0) := by omega
  have h2 : ((x : Int) - (l.indLen : Int) < 0) := by omega
  have h3 : (x : Int) - (l.indLen : Int) + (l.indLen : Int) = x := by omega
  simp only [h1, h2, if_true, if_false, h3]

theorem locateQ_spec {l : Leg} (h : l.Shape) (x : Nat) (hx : x < l.indLen) :
    (l.locateQ x).1 < l.blockNumber ∧ l.slices.getD (l.locateQ x).1 0 ≤ x ∧
      x < l.slices.getD ((l.locateQ x).1 + 1) 0 ∧ l.slices.getD (l.locateQ x).1 0 + (l.locateQ x).2 = x := by
  obtain ⟨t1, t2, t3⟩ := takeWhile_le_spec l.slices x
  have ht : bisectRight l.slices x = (l.slices.takeWhile (fun v => v ≤ x)).length := by
    unfold bisectRight; simp
  have hpos : 1 ≤ bisectRight l.slices x := by
    rcases Nat.eq_zero_or_pos (bisectRight l.slices x) with h0 | h0
    · have := t2 (by rw [← ht, h0, h.len]; omega)
      rw [← ht, h0, h.slices_zero] at this
      omega
    · exact h0
  have hle : bisectRight l.slices x ≤ l.blockNumber := by
    rcases Nat.lt_or_ge l.blockNumber (bisectRight l.slices x) with hgt | hle
    · have := t1 l.blockNumber (by rw [← ht]; exact hgt)
      rw [← h.indLen_eq_getD] at this
      omega
    · exact hle
  have e : bisectRight l.slices x - 1 + 1 = bisectRight l.slices x := by omega
  have a1 := t1 (bisectRight l.slices x - 1) (by rw [← ht]; omega)
  have a2 := t2 (by rw [← ht, h.len]; unfold blockNumber at hle; omega)
  rw [← ht] at a2
  unfold locateQ
  simp only
  rw [e]
  exact ⟨by omega, a1, a2, by omega⟩

end Leg

/-! ### option mapM -/

theorem mapM_some {α β} (f : α → Option β) (g : α → β) (L : List α) (h : ∀ a ∈ L, f a = some (g a)) :
    L.mapM f = some (L.map g) := by
  induction L with
  | nil => simp
  | cons a L ih =>
    rw [List.mapM_cons, h a (by simp), ih (fun b hb => h b (by simp [hb]))]
    rfl

namespace Pipe

/-! ### block sizes, T4: `ind_len` of the pipe -/

theorem blockSizeOf_eq (legs : List Leg) (qis : List Nat) :
    blockSizeOf legs qis = ((legs.zip qis).map (fun lq => lq.1.blockSizes.getD lq.2 0)).prod := by
  unfold blockSizeOf; rw [foldl_mul]; omega

theorem blockSizeOf_cons (l : Leg) (legs : List Leg) (q : Nat) (t : List Nat) :
    blockSizeOf (l :: legs) (q :: t) = l.blockSizes.getD q 0 * blockSizeOf legs t := by
  simp [blockSizeOf_eq]

theorem sum_grid (legs : List Leg) (hs : ∀ l ∈ legs, l.blockSizes.length = l.blockNumber) :
    ((gridC (legs.map Leg.blockNumber)).map (blockSizeOf legs)).sum =
      (legs.map (fun l => l.blockSizes.sum)).prod := by
  induction legs with
  | nil => simp [gridC, blockSizeOf]
  | cons l legs ih =>
    have ih' := ih (fun m hm => hs m (by simp [hm]))
    simp only [List.map_cons, gridC, List.prod_cons]
    rw [List.map_flatMap, sum_flatMap]
    have : ∀ i, (((gridC (legs.map Leg.blockNumber)).map (fun t => i :: t)).map (blockSizeOf (l :: legs))).sum =
        l.blockSizes.getD i 0 * (legs.map (fun l => l.blockSizes.sum)).prod := by
      intro i
      rw [List.map_map, ← ih', ← sum_map_mul_left]
      congr 1
      apply List.map_congr_left
      intro t _
      exact blockSizeOf_cons l legs i t
    simp only [this]
    rw [sum_map_mul_right, ← hs l (by simp), map_getD_range]

theorem indLen_prod (legs : List Leg) (qconj : Int) (sort bunch : Bool) (hs : ∀ l ∈ legs, l.Shape) :
    (init legs qconj sort bunch).leg.indLen = (legs.map Leg.indLen).prod := by
  by_cases h1 : (gSubq legs).all (· == 1) = true
  · rw [init_single legs qconj sort bunch h1]
    show ([0, _] : List Nat).getLastD 0 = _
    simp [foldl_mul]
  · have h1' : (gSubq legs).all (· == 1) = false := by simpa using h1
    have hpre : (gPre legs qconj sort).indLen = (legs.map Leg.indLen).prod := by
      rw [(gPre_shape legs qconj sort).indLen_eq, gPre_blockSizes, gSizes1,
        (take?_perm _ 0 _ (by rw [gSizes0, List.length_map]; exact gPermQ_perm legs qconj sort)).sum_nat,
        gSizes0, gGrid, gSubq, sum_grid legs (fun l hl => (hs l hl).sizes_len)]
      congr 1
      apply List.map_congr_left
      intro l hl
      exact ((hs l hl).indLen_eq).symm
    cases bunch
    · rw [leg_nobunch legs qconj sort h1']; exact hpre
    · rw [leg_bunch legs qconj sort h1',
        Leg.bunchCore_indLen (gPre_shape legs qconj sort) (gPre_cl0 legs qconj sort)]
      exact hpre

/-! ### T5: outer_conj -/

theorem fuseRaw_neg (qn : Nat) (legs : List Leg) (qconj : Int) (t : List Nat) :
    fuseRaw qn legs (-qconj) t = cneg (fuseRaw qn legs qconj t) := by
  unfold fuseRaw
  rw [cneg_eq_cscale, cscale_csum, List.map_map]
  congr 1
  apply List.map_congr_left
  intro lq _
  simp only [Function.comp, cscale_cscale]
  congr 1
  rw [Int.neg_mul, Int.neg_mul, Int.one_mul]

theorem fuse_neg (mods : List Nat) (legs : List Leg) (qconj : Int) (t : List Nat) :
    fuse mods legs (-qconj) t = makeValid mods (cneg (fuse mods legs qconj t)) := by
  unfold fuse
  rw [fuseRaw_neg, makeValid_neg]

theorem getD_map_nil {f : Charge → Charge} (hf : f [] = []) (cs : List Charge) (i : Nat) :
    (cs.map f).getD i [] = f (cs.getD i []) := by
  by_cases hi : i < cs.length
  · exact getD_map' _ _ _ [] _ hi
  · rw [getD_ge _ _ _ (by simpa using hi), getD_ge _ _ _ (by simpa using hi), hf]

theorem outerConj_fusion (legs : List Leg) (qconj : Int) (sort bunch : Bool) (j : Nat)
    (hj : j < (init legs qconj sort bunch).qMap.length) :
    (init legs qconj sort bunch).outerConj.leg.charges.getD
        (((init legs qconj sort bunch).qMap.getD j []).getD 2 0) [] =
      fuse (gMods legs) legs (-qconj) (((init legs qconj sort bunch).qMap.getD j []).drop 3) := by
  show (List.map _ (init legs qconj sort bunch).leg.charges).getD _ [] = _
  rw [getD_map_nil (by simp [cneg, makeValid]), fusion_rule legs qconj sort bunch j hj, fuse_neg,
    (init_mods_qconj legs qconj sort bunch).1]

/-! ### per-leg split of an index tuple -/

/-- `(qindex, within)` of every entry of an index tuple -/
def qwOf (legs : List Leg) (xs : List Nat) : List (Nat × Nat) := (legs.zip xs).map (fun lx => lx.1.locateQ lx.2)
/-- sizes of the blocks `qis` -/
def sizesOf (legs : List Leg) (qis : List Nat) : List Nat :=
  (legs.zip qis).map (fun lq => lq.1.blockSizes.getD lq.2 0)

theorem blockSizeOf_eq_sizesOf (legs : List Leg) (qis : List Nat) :
    blockSizeOf legs qis = (sizesOf legs qis).prod := blockSizeOf_eq legs qis

theorem qw_facts (legs : List Leg) (hs : ∀ l ∈ legs, l.Shape) (qconj : Int) (xs : List Nat)
    (hx : InRange xs (legs.map Leg.indLen)) :
    InRange ((qwOf legs xs).map (·.1)) (gSubq legs) ∧
    InRange ((qwOf legs xs).map (·.2)) (sizesOf legs ((qwOf legs xs).map (·.1))) ∧
    (legs.zip xs).map (fun lx => cscale (qconj * lx.1.qconj) (lx.1.toQflat.getD lx.2 [])) =
      (legs.zip ((qwOf legs xs).map (·.1))).map (fun lq => cscale (qconj * lq.1.qconj) (lq.1.charges.getD lq.2 [])) ∧
    (∀ lx ∈ legs.zip xs, lx.2 < lx.1.indLen) := by
  induction legs generalizing xs with
  | nil =>
    cases xs with
    | nil => simp [qwOf, gSubq, sizesOf, InRange]
    | cons x xs => exact hx.elim
  | cons l legs ih =>
    cases xs with
    | nil => exact hx.elim
    | cons x xs =>
      obtain ⟨hx0, hx'⟩ := hx
      have hl := hs l (by simp)
      obtain ⟨a1, a2, a3, a4⟩ := l.locateQ_spec hl x hx0
      obtain ⟨i1, i2, i3, i4⟩ := ih (fun m hm => hs m (by simp [hm])) xs hx'
      have hsucc := hl.slices_succ _ a1
      refine ⟨⟨a1, i1⟩, ⟨(by show (l.locateQ x).2 < l.blockSizes.getD (l.locateQ x).1 0; omega), i2⟩, ?_, ?_⟩
      · simp only [qwOf, List.zip_cons_cons, List.map_cons] at i3 ⊢
        rw [i3, hl.toQflat_getD _ x a1 a2 a3]
      · intro lx hlx
        rcases List.mem_cons.1 hlx with rfl | hlx
        · exact hx0
        · exact i4 lx hlx

theorem qwOf_inj (legs : List Leg) (hs : ∀ l ∈ legs, l.Shape) (xs ys : List Nat)
    (hx : InRange xs (legs.map Leg.indLen)) (hy : InRange ys (legs.map Leg.indLen))
    (e : qwOf legs xs = qwOf legs ys) : xs = ys := by
  induction legs generalizing xs ys with
  | nil =>
    cases xs with
    | nil => cases ys with
      | nil => rfl
      | cons _ _ => exact hy.elim
    | cons _ _ => exact hx.elim
  | cons l legs ih =>
    cases xs with
    | nil => exact hx.elim
    | cons x xs =>
      cases ys with
      | nil => exact hy.elim
      | cons y ys =>
        simp only [qwOf, List.zip_cons_cons, List.map_cons, List.cons.injEq] at e
        have hl := hs l (by simp)
        have a := (l.locateQ_spec hl x hx.1).2.2.2
        have b := (l.locateQ_spec hl y hy.1).2.2.2
        rw [e.1] at a
        have hxy : x = y := by omega
        rw [hxy, ih (fun m hm => hs m (by simp [hm])) xs ys hx.2 hy.2 e.2]

theorem eq_of_map_fst_snd {α β} (a b : List (α × β)) (h1 : a.map (·.1) = b.map (·.1))
    (h2 : a.map (·.2) = b.map (·.2)) : a = b := by
  induction a generalizing b with
  | nil => cases b with
    | nil => rfl
    | cons _ _ => simp at h1
  | cons x a ih =>
    cases b with
    | nil => simp at h1
    | cons y b =>
      simp only [List.map_cons, List.cons.injEq] at h1 h2
      rw [Prod.ext h1.1 h2.1, ih b h1.2 h2.2]

/-- what `map_incoming_flat` computes for an in-range index tuple -/
theorem mapIncomingFlat_eq (p : Pipe) (legs : List Leg) (hl : p.legs = legs) (qconj : Int)
    (hs : ∀ l ∈ legs, l.Shape) (xs : List Nat) (hx : InRange xs (legs.map Leg.indLen)) :
    p.mapIncomingFlat (xs.map Int.ofNat) = some (
      p.leg.slices.getD ((p.qMap.getD (p.mapIncomingQind ((qwOf legs xs).map (·.1))) []).getD 2 0) 0 +
      (p.qMap.getD (p.mapIncomingQind ((qwOf legs xs).map (·.1))) []).getD 0 0 +
      dot ((qwOf legs xs).map (·.2)) (makeStrideC (sizesOf legs ((qwOf legs xs).map (·.1))))) := by
  have hlen : (xs.map Int.ofNat).length = p.nlegs := by
    have := hx.length_eq
    simp only [List.length_map] at this ⊢
    rw [nlegs, hl, this]
  have hm : (p.legs.zip (xs.map Int.ofNat)).mapM (fun li => li.1.getQindex li.2) = some (qwOf legs xs) := by
    rw [hl, mapM_some _ (fun li : Leg × Int => li.1.locateQ li.2.toNat)]
    · rw [List.zip_map_right, List.map_map]; rfl
    · intro li hli
      rw [List.zip_map_right] at hli
      obtain ⟨lx, hlx, rfl⟩ := List.mem_map.1 hli
      exact Leg.getQindex_nat lx.1 lx.2 ((qw_facts legs hs qconj xs hx).2.2.2 lx hlx)
  unfold mapIncomingFlat
  rw [if_neg (by rw [hlen]; simp), hm, hl]
  rfl

/-! ### the row of an index tuple -/

structure Located (legs : List Leg) (p : Pipe) (sizes1 : List Nat) : Prop where
  total : p.leg.indLen = sizes1.sum
  loc : ∀ qis, InRange qis (gSubq legs) →
    p.mapIncomingQind qis < sizes1.length ∧
    p.mapIncomingQind qis < p.qMap.length ∧
    (p.qMap.getD (p.mapIncomingQind qis) []).drop 3 = qis ∧
    sizes1.getD (p.mapIncomingQind qis) 0 = blockSizeOf legs qis ∧
    p.leg.slices.getD ((p.qMap.getD (p.mapIncomingQind qis) []).getD 2 0) 0 +
      (p.qMap.getD (p.mapIncomingQind qis) []).getD 0 0 = psum sizes1 (p.mapIncomingQind qis) ∧
    (p.qMap.getD (p.mapIncomingQind qis) []).getD 2 0 < p.leg.blockNumber ∧
    psum sizes1 (p.mapIncomingQind qis + 1) ≤
      p.leg.slices.getD ((p.qMap.getD (p.mapIncomingQind qis) []).getD 2 0 + 1) 0
  inj : ∀ qis qis', InRange qis (gSubq legs) → InRange qis' (gSubq legs) →
    p.mapIncomingQind qis = p.mapIncomingQind qis' → qis = qis'

/-- row index of the block combination `qis` (general branch) -/
def gJ (legs : List Leg) (qconj : Int) (sort : Bool) (qis : List Nat) : Nat :=
  match gPerm legs qconj sort with
  | none => dot qis (makeStrideC (gSubq legs))
  | some pm => pm.getD (dot qis (makeStrideC (gSubq legs))) 0

theorem gJ_spec (legs : List Leg) (qconj : Int) (sort : Bool) (qis : List Nat) (h : InRange qis (gSubq legs)) :
    gJ legs qconj sort qis < (gGrid legs).length ∧
      (gPermQ legs qconj sort).getD (gJ legs qconj sort qis) 0 = dot qis (makeStrideC (gSubq legs)) := by
  have hi : dot qis (makeStrideC (gSubq legs)) < (gGrid legs).length := by
    rw [gGrid_length]; exact dot_stride_lt _ _ h
  unfold gJ gPerm
  by_cases hd : gDoSort legs sort = true
  · rw [if_pos hd]
    simp only
    have hp : (gPermQ legs qconj sort).Perm (List.range (gPermQ legs qconj sort).length) := by
      rw [gPermQ_length]; exact gPermQ_perm legs qconj sort
    have := inversePerm_spec _ hp _ (by rw [gPermQ_length]; exact hi)
    rw [gPermQ_length] at this
    exact this
  · rw [if_neg hd]
    simp only
    have : gPermQ legs qconj sort = List.range (gGrid legs).length := by
      unfold gPermQ; rw [if_neg hd]
    rw [this, getD_range _ _ hi]
    exact ⟨hi, rfl⟩

theorem gJ_grid1 (legs : List Leg) (qconj : Int) (sort : Bool) (qis : List Nat) (h : InRange qis (gSubq legs)) :
    (gGrid1 legs qconj sort).getD (gJ legs qconj sort qis) [] = qis := by
  obtain ⟨h1, h2⟩ := gJ_spec legs qconj sort qis h
  rw [gGrid1_getD legs qconj sort _ h1, h2]
  exact gridC_getD qis _ h

theorem gJ_inj (legs : List Leg) (qconj : Int) (sort : Bool) (qis qis' : List Nat) (h : InRange qis (gSubq legs))
    (h' : InRange qis' (gSubq legs)) (e : gJ legs qconj sort qis = gJ legs qconj sort qis') : qis = qis' := by
  rw [← gJ_grid1 legs qconj sort qis h, ← gJ_grid1 legs qconj sort qis' h', e]

theorem located_nobunch (legs : List Leg) (qconj : Int) (sort : Bool)
    (hs : (gSubq legs).all (· == 1) = false) :
    Located legs (init legs qconj sort false) (gSizes1 legs qconj sort) := by
  have hJ : ∀ qis, (init legs qconj sort false).mapIncomingQind qis = gJ legs qconj sort qis := by
    intro qis; rw [init_nobunch legs qconj sort hs]; rfl
  refine ⟨?_, ?_, ?_⟩
  · rw [leg_nobunch legs qconj sort hs, (gPre_shape legs qconj sort).indLen_eq, gPre_blockSizes]
  · intro qis hq
    obtain ⟨h1, h2⟩ := gJ_spec legs qconj sort qis hq
    rw [hJ, qMap_nobunch_getD legs qconj sort hs _ h1, leg_nobunch legs qconj sort hs]
    refine ⟨by rw [gSizes1_length]; exact h1, by rw [qMap_nobunch legs qconj sort hs]; simpa using h1,
      gJ_grid1 legs qconj sort qis hq, ?_, ?_, ?_, ?_⟩
    · rw [gSizes1_getD legs qconj sort _ h1, gJ_grid1 legs qconj sort qis hq]
    · show (gSlices1 legs qconj sort).getD (gJ legs qconj sort qis) 0 + 0 = _
      rw [gSlices1_getD legs qconj sort _ (by omega)]; rfl
    · show gJ legs qconj sort qis < (gPre legs qconj sort).blockNumber
      rw [gPre_blockNumber]; exact h1
    · show _ ≤ (gSlices1 legs qconj sort).getD (gJ legs qconj sort qis + 1) 0
      rw [gSlices1_getD legs qconj sort _ (by omega)]
      exact Nat.le_refl _
  · intro qis qis' hq hq' e
    rw [hJ, hJ] at e
    exact gJ_inj legs qconj sort qis qis' hq hq' e

theorem located_bunch (legs : List Leg) (qconj : Int) (sort : Bool)
    (hs : (gSubq legs).all (· == 1) = false) :
    Located legs (init legs qconj sort true) (gSizes1 legs qconj sort) := by
  have hJ : ∀ qis, (init legs qconj sort true).mapIncomingQind qis = gJ legs qconj sort qis := by
    intro qis; rw [init_bunch legs qconj sort hs]; rfl
  have hb := gIdx_spec legs qconj sort
  refine ⟨?_, ?_, ?_⟩
  · rw [leg_bunch legs qconj sort hs,
      Leg.bunchCore_indLen (gPre_shape legs qconj sort) (gPre_cl0 legs qconj sort),
      (gPre_shape legs qconj sort).indLen_eq, gPre_blockSizes]
  · intro qis hq
    obtain ⟨h1, h2⟩ := gJ_spec legs qconj sort qis hq
    obtain ⟨g, hg, g1, g2, hqi⟩ := gQi_group legs qconj sort _ h1
    have hle := hb.le_len (g + 1) hg
    rw [gCharges1_length] at hle
    rw [hJ, qMap_bunch_getD legs qconj sort hs _ h1, leg_bunch legs qconj sort hs]
    refine ⟨by rw [gSizes1_length]; exact h1, by rw [qMap_bunch legs qconj sort hs]; simpa using h1,
      gJ_grid1 legs qconj sort qis hq, ?_, ?_, ?_, ?_⟩
    · rw [gSizes1_getD legs qconj sort _ h1, gJ_grid1 legs qconj sort qis hq]
    · show (gPre legs qconj sort).bunchCore.slices.getD ((gQi legs qconj sort).getD _ 0) 0 +
        ((gSlices1 legs qconj sort).getD (gJ legs qconj sort qis) 0 -
          (gPre legs qconj sort).bunchCore.slices.getD ((gQi legs qconj sort).getD _ 0) 0) = _
      rw [hqi, gBunch_slices_getD legs qconj sort g (by omega),
        ← gSlices1_getD legs qconj sort _ (Nat.le_of_lt h1)]
      have := gSlices1_mono legs qconj sort _ _ g1 (Nat.le_of_lt h1)
      omega
    · show (gQi legs qconj sort).getD _ 0 < _
      rw [hqi, gBunch_blockNumber]; omega
    · show _ ≤ (gPre legs qconj sort).bunchCore.slices.getD ((gQi legs qconj sort).getD _ 0 + 1) 0
      rw [hqi, gBunch_slices_getD legs qconj sort (g + 1) hg,
        ← gSlices1_getD legs qconj sort _ (by omega)]
      exact gSlices1_mono legs qconj sort _ _ (by omega) hle
  · intro qis qis' hq hq' e
    rw [hJ, hJ] at e
    exact gJ_inj legs qconj sort qis qis' hq hq' e

/-! single-block branch -/

theorem inRange_ones (qis shape : List Nat) (h : InRange qis shape) (h1 : ∀ n ∈ shape, n = 1) :
    qis = shape.map (fun _ => 0) := by
  induction qis generalizing shape with
  | nil => cases shape with
    | nil => rfl
    | cons _ _ => exact h.elim
  | cons q qs ih => cases shape with
    | nil => exact h.elim
    | cons n ns =>
      have hn := h1 n (by simp)
      have := h.1
      rw [List.map_cons, ← ih ns h.2 (fun m hm => h1 m (by simp [hm]))]
      congr 1; omega

theorem dot_zeros {α} (a : List Nat) (L : List α) : dot a (L.map (fun _ => 0)) = 0 := by
  induction a generalizing L with
  | nil => simp
  | cons x a ih =>
    cases L with
    | nil => simp
    | cons y L => simp [ih]

theorem blockSizeOf_zeros (legs : List Leg) (hs : ∀ l ∈ legs, l.Shape) (h1 : ∀ l ∈ legs, l.blockNumber = 1) :
    blockSizeOf legs (legs.map (fun _ => 0)) = (legs.map Leg.indLen).prod := by
  induction legs with
  | nil => simp [blockSizeOf]
  | cons l legs ih =>
    rw [List.map_cons, blockSizeOf_cons, ih (fun m hm => hs m (by simp [hm])) (fun m hm => h1 m (by simp [hm]))]
    simp only [List.map_cons, List.prod_cons]
    congr 1
    have hl := hs l (by simp)
    have hb := h1 l (by simp)
    have := hl.slices_succ 0 (by omega)
    rw [hl.slices_zero] at this
    simp only [Nat.zero_add] at this
    rw [hl.indLen_eq_getD, hb, this]

theorem located_single (legs : List Leg) (qconj : Int) (sort bunch : Bool)
    (hs : (gSubq legs).all (· == 1) = true) (hsh : ∀ l ∈ legs, l.Shape) :
    Located legs (init legs qconj sort bunch) [(legs.map Leg.indLen).prod] := by
  have hones := single_ones legs hs
  have hJ : ∀ qis, (init legs qconj sort bunch).mapIncomingQind qis = 0 := by
    intro qis; rw [init_single legs qconj sort bunch hs]
    show dot qis (legs.map (fun _ => 0)) = 0
    exact dot_zeros _ _
  have hrow : (init legs qconj sort bunch).qMap.getD 0 [] =
      [0, (legs.map Leg.indLen).prod, 0] ++ legs.map (fun _ => 0) := by
    rw [init_single legs qconj sort bunch hs]
    simp [foldl_mul]
  have hleg : (init legs qconj sort bunch).leg.slices = [0, (legs.map Leg.indLen).prod] := by
    rw [init_single legs qconj sort bunch hs]
    simp [foldl_mul]
  refine ⟨?_, ?_, ?_⟩
  · rw [indLen_prod legs qconj sort bunch hsh]; simp
  · intro qis hq
    have hz := inRange_ones qis _ hq hones
    rw [hJ, hrow, hleg]
    refine ⟨by simp, by rw [init_single legs qconj sort bunch hs]; simp, ?_, ?_, by simp, ?_, by simp⟩
    · rw [hz, ← zeros_eq]; rfl
    · rw [hz, ← zeros_eq, blockSizeOf_zeros legs hsh (fun l hl => hones _ (List.mem_map.2 ⟨l, hl, rfl⟩))]
      rfl
    · rw [init_single legs qconj sort bunch hs]; simp [Leg.blockNumber]
  · intro qis qis' hq hq' _
    rw [inRange_ones qis _ hq hones, inRange_ones qis' _ hq' hones]

theorem located (legs : List Leg) (qconj : Int) (sort bunch : Bool) (hsh : ∀ l ∈ legs, l.Shape) :
    ∃ sizes1, Located legs (init legs qconj sort bunch) sizes1 := by
  by_cases hs : (gSubq legs).all (· == 1) = true
  · exact ⟨_, located_single legs qconj sort bunch hs hsh⟩
  · have hs' : (gSubq legs).all (· == 1) = false := by simpa using hs
    cases bunch
    · exact ⟨_, located_nobunch legs qconj sort hs'⟩
    · exact ⟨_, located_bunch legs qconj sort hs'⟩

theorem leg_shape (legs : List Leg) (qconj : Int) (sort bunch : Bool) :
    (init legs qconj sort bunch).leg.Shape := by
  by_cases hs : (gSubq legs).all (· == 1) = true
  · rw [init_single legs qconj sort bunch hs]
    exact ⟨rfl, rfl, by simp⟩
  · have hs' : (gSubq legs).all (· == 1) = false := by simpa using hs
    cases bunch
    · rw [leg_nobunch legs qconj sort hs']; exact gPre_shape legs qconj sort
    · rw [leg_bunch legs qconj sort hs']
      exact Leg.bunchCore_shape (gPre_shape legs qconj sort) (gPre_cl0 legs qconj sort)

/-! ### T6: `map_incoming_flat` -/

/-- fused charge of an index tuple, computed from the charges attached to the individual indices:
`make_valid(qconj * Σ_l legs[l].qconj * legs[l].to_qflat()[x_l])` -/
def fuseFlat (mods : List Nat) (legs : List Leg) (qconj : Int) (xs : List Nat) : Charge :=
  makeValid mods (csum mods.length
    ((legs.zip xs).map (fun lx => cscale (qconj * lx.1.qconj) (lx.1.toQflat.getD lx.2 []))))

theorem fuseFlat_eq (mods : List Nat) (legs : List Leg) (qconj : Int) (hs : ∀ l ∈ legs, l.Shape) (xs : List Nat)
    (hx : InRange xs (legs.map Leg.indLen)) :
    fuseFlat mods legs qconj xs = fuse mods legs qconj ((qwOf legs xs).map (·.1)) := by
  unfold fuseFlat fuse fuseRaw
  rw [(qw_facts legs hs qconj xs hx).2.2.1]

theorem flat_decomp {legs : List Leg} {p : Pipe} {sizes1 : List Nat} (L : Located legs p sizes1)
    (hl : p.legs = legs) (hs : ∀ l ∈ legs, l.Shape) (xs : List Nat) (hx : InRange xs (legs.map Leg.indLen)) :
    p.mapIncomingFlat (xs.map Int.ofNat) =
      some (psum sizes1 (p.mapIncomingQind ((qwOf legs xs).map (·.1))) +
        dot ((qwOf legs xs).map (·.2)) (makeStrideC (sizesOf legs ((qwOf legs xs).map (·.1))))) ∧
    dot ((qwOf legs xs).map (·.2)) (makeStrideC (sizesOf legs ((qwOf legs xs).map (·.1)))) <
      sizes1.getD (p.mapIncomingQind ((qwOf legs xs).map (·.1))) 0 := by
  obtain ⟨f1, f2, _, _⟩ := qw_facts legs hs 1 xs hx
  obtain ⟨_, _, _, l4, l5, _, _⟩ := L.loc _ f1
  refine ⟨?_, ?_⟩
  · rw [mapIncomingFlat_eq p legs hl 1 hs xs hx, l5]
  · rw [l4, blockSizeOf_eq_sizesOf]
    exact dot_stride_lt _ _ f2

theorem mapIncomingFlat_spec (legs : List Leg) (qconj : Int) (sort bunch : Bool) (hs : ∀ l ∈ legs, l.Shape)
    (xs : List Nat) (hx : InRange xs (legs.map Leg.indLen)) :
    ∃ f, (init legs qconj sort bunch).mapIncomingFlat (xs.map Int.ofNat) = some f ∧
      f < (init legs qconj sort bunch).leg.indLen ∧
      (init legs qconj sort bunch).leg.toQflat.getD f [] = fuseFlat (gMods legs) legs qconj xs := by
  obtain ⟨sizes1, L⟩ := located legs qconj sort bunch hs
  have hl := init_legs legs qconj sort bunch
  obtain ⟨e, hw⟩ := flat_decomp L hl hs xs hx
  obtain ⟨f1, f2, _, _⟩ := qw_facts legs hs 1 xs hx
  obtain ⟨l1, l2, l3, l4, l5, l6, l7⟩ := L.loc _ f1
  refine ⟨_, e, ?_, ?_⟩
  · rw [L.total]; exact psum_add_lt _ _ _ l1 hw
  · have hsucc := psum_succ sizes1 _ l1
    rw [(leg_shape legs qconj sort bunch).toQflat_getD _ _ l6 (by omega) (by omega),
      fusion_rule legs qconj sort bunch _ l2, l3, fuseFlat_eq _ legs qconj hs xs hx]

theorem mapIncomingFlat_inj (legs : List Leg) (qconj : Int) (sort bunch : Bool) (hs : ∀ l ∈ legs, l.Shape)
    (xs ys : List Nat) (hx : InRange xs (legs.map Leg.indLen)) (hy : InRange ys (legs.map Leg.indLen))
    (e : (init legs qconj sort bunch).mapIncomingFlat (xs.map Int.ofNat) =
      (init legs qconj sort bunch).mapIncomingFlat (ys.map Int.ofNat)) : xs = ys := by
  obtain ⟨sizes1, L⟩ := located legs qconj sort bunch hs
  have hl := init_legs legs qconj sort bunch
  obtain ⟨ex, hwx⟩ := flat_decomp L hl hs xs hx
  obtain ⟨ey, hwy⟩ := flat_decomp L hl hs ys hy
  obtain ⟨fx1, fx2, _, _⟩ := qw_facts legs hs 1 xs hx
  obtain ⟨fy1, fy2, _, _⟩ := qw_facts legs hs 1 ys hy
  rw [ex, ey, Option.some.injEq] at e
  obtain ⟨ej, ew⟩ := psum_add_inj sizes1 _ _ _ _ (L.loc _ fx1).1 (L.loc _ fy1).1 hwx hwy e
  have eq := L.inj _ _ fx1 fy1 ej
  rw [← eq] at ew fy2
  have ews := dot_stride_inj _ _ _ fx2 fy2 ew
  exact qwOf_inj legs hs xs ys hx hy (eq_of_map_fst_snd _ _ eq ews)

/-- `outer_conj` changes nothing that `map_incoming_flat` looks at -/
theorem outerConj_mapIncomingFlat (p : Pipe) (idx : List Int) :
    p.outerConj.mapIncomingFlat idx = p.mapIncomingFlat idx := rfl

/-! ### counting: an injective map into `[0, n)` from `n` tuples is onto -/

theorem perm_range_of_nodup (l : List Nat) (n : Nat) (hn : l.Nodup) (hlt : ∀ x ∈ l, x < n)
    (hlen : l.length = n) : l.Perm (List.range n) := by
  induction n generalizing l with
  | zero => rw [List.length_eq_zero_iff.1 hlen]; exact List.Perm.refl _
  | succ n ih =>
    by_cases hmem : n ∈ l
    · have hp : l.Perm (n :: l.erase n) := List.perm_cons_erase hmem
      have hlen' : (l.erase n).length = n := by rw [List.length_erase_of_mem hmem, hlen]; rfl
      have ih' := ih (l.erase n) (hn.erase n)
        (fun x hx => by
          have h1 := hlt x (List.mem_of_mem_erase hx)
          have h2 := (hn.mem_erase_iff.1 hx).1
          omega) hlen'
      rw [List.range_succ]
      exact hp.trans (((List.perm_cons n).2 ih').trans (List.perm_append_comm (l₁ := [n])))
    · exfalso
      cases l with
      | nil => simp at hlen
      | cons a t =>
        have hn' := List.nodup_cons.1 hn
        have ht := ih t hn'.2
          (fun x hx => by
            have h1 := hlt x (by simp [hx])
            have : x ≠ n := fun e => hmem (by simp [← e, hx])
            omega) (by simpa using hlen)
        have ha : a < n := by
          have h1 := hlt a (by simp)
          have : a ≠ n := fun e => hmem (by simp [e])
          omega
        exact hn'.1 (ht.mem_iff.2 (by simpa using ha))

theorem gridC_nodup (shape : List Nat) : (gridC shape).Nodup := by
  rw [List.Nodup, List.pairwise_iff_getElem]
  intro i j hi hj hij heq
  have a := (gridC_index shape i hi).1
  have b := (gridC_index shape j hj).1
  rw [getD_lt _ i [] hi] at a
  rw [getD_lt _ j [] hj] at b
  rw [heq] at a
  omega

/-- **surjectivity by counting**: the images of all index tuples (in C order) are a permutation of
`0 … ind_len-1` -/
theorem mapIncomingFlat_perm (legs : List Leg) (qconj : Int) (sort bunch : Bool) (hs : ∀ l ∈ legs, l.Shape) :
    ((gridC (legs.map Leg.indLen)).map
        (fun xs => ((init legs qconj sort bunch).mapIncomingFlat (xs.map Int.ofNat)).getD 0)).Perm
      (List.range (init legs qconj sort bunch).leg.indLen) := by
  apply perm_range_of_nodup
  · rw [List.Nodup, List.pairwise_map]
    refine (gridC_nodup _).imp_of_mem ?_
    intro xs ys hxs hys hne heq
    have hx := (mem_gridC _ _).1 hxs
    have hy := (mem_gridC _ _).1 hys
    obtain ⟨fx, ex, _, _⟩ := mapIncomingFlat_spec legs qconj sort bunch hs xs hx
    obtain ⟨fy, ey, _, _⟩ := mapIncomingFlat_spec legs qconj sort bunch hs ys hy
    apply hne
    apply mapIncomingFlat_inj legs qconj sort bunch hs xs ys hx hy
    rw [ex, ey] at heq ⊢
    simpa using heq
  · intro f hf
    obtain ⟨xs, hxs, rfl⟩ := List.mem_map.1 hf
    obtain ⟨fx, ex, hlt, _⟩ := mapIncomingFlat_spec legs qconj sort bunch hs xs ((mem_gridC _ _).1 hxs)
    rw [ex]; exact hlt
  · rw [List.length_map, gridC_length, indLen_prod legs qconj sort bunch hs]

/-! ### the outgoing leg passes `test_sanity` -/

theorem inRange_zip_lt {α} (f : α → Nat) (L : List α) (t : List Nat) (h : InRange t (L.map f)) :
    ∀ lq ∈ L.zip t, lq.2 < f lq.1 := by
  induction L generalizing t with
  | nil => intro lq hlq; simp at hlq
  | cons a L ih =>
    cases t with
    | nil => exact h.elim
    | cons q t =>
      intro lq hlq
      rcases List.mem_cons.1 hlq with rfl | hlq
      · exact h.1
      · exact ih t h.2 lq hlq

theorem fuse_valid (legs : List Leg) (qconj : Int) (hw : ∀ l ∈ legs, l.WF)
    (hm : ∀ l ∈ legs, l.mods = gMods legs) (hmods : ∀ m ∈ gMods legs, 1 ≤ m) (t : List Nat)
    (ht : InRange t (gSubq legs)) : checkValid (gMods legs) (fuse (gMods legs) legs qconj t) = true := by
  unfold fuse
  apply checkValid_makeValid _ hmods
  unfold fuseRaw
  apply csum_length
  intro c hc
  obtain ⟨lq, hlq, rfl⟩ := List.mem_map.1 hc
  have hlt := inRange_zip_lt Leg.blockNumber legs t ht lq hlq
  have hl : lq.1 ∈ legs := (List.of_mem_zip hlq).1
  simp only [cscale, List.length_map]
  rw [(hw _ hl).charge_len _ (getD_mem _ _ _ hlt), Leg.qnumber, hm _ hl]

theorem gMods_ge (legs : List Leg) (hw : ∀ l ∈ legs, l.WF) : ∀ m ∈ gMods legs, 1 ≤ m := by
  cases legs with
  | nil => intro m hm; simp [gMods, Leg.fromTrivial, Leg.mk'] at hm
  | cons l legs => exact (hw l (by simp)).mods

theorem gPre_valid (legs : List Leg) (qconj : Int) (sort : Bool) (hw : ∀ l ∈ legs, l.WF)
    (hm : ∀ l ∈ legs, l.mods = gMods legs) :
    ∀ c ∈ (gPre legs qconj sort).charges, checkValid (gMods legs) c = true := by
  intro c hc
  have hc0 : c ∈ gCharges0 legs qconj := by
    apply take?_subset _ _ _ _ c hc
    intro q hq
    have := (gPermQ_perm legs qconj sort).mem_iff.1 hq
    rw [gCharges0_length]; simpa using this
  rw [gCharges0_eq] at hc0
  obtain ⟨t, ht, rfl⟩ := List.mem_map.1 hc0
  exact fuse_valid legs qconj hw hm (gMods_ge legs hw) t ((mem_gridC _ _).1 ht)

theorem gPre_WF (legs : List Leg) (qconj : Int) (sort : Bool) (hw : ∀ l ∈ legs, l.WF)
    (hm : ∀ l ∈ legs, l.mods = gMods legs) (hq : qconj = 1 ∨ qconj = -1) : (gPre legs qconj sort).WF :=
  ⟨gPre_shape legs qconj sort, gPre_valid legs qconj sort hw hm, gMods_ge legs hw, hq⟩

theorem gPre_sorted (legs : List Leg) (qconj : Int) (sort : Bool) :
    (gPre legs qconj sort).sorted = true → (gPre legs qconj sort).isSorted = true := by
  intro hs
  rw [Leg.isSorted_iff]
  by_cases h0 : (gMods legs).length = 0
  · exact Or.inl h0
  · right
    have hsort : sort = true := by
      have : (sort || (gMods legs).length == 0) = true := hs
      simpa [h0] using this
    have hd : gDoSort legs sort = true := by
      unfold gDoSort; rw [hsort]; simp; omega
    show (take? (gCharges0 legs qconj) (gPermQ legs qconj sort) []).Pairwise _
    have : gPermQ legs qconj sort = lexsort (gCharges0 legs qconj) := by
      unfold gPermQ; rw [if_pos hd]
    rw [this]
    exact take?_lexsort_sorted _

/-- the outgoing leg of a pipe of well-formed legs (same `chinfo`) satisfies the class invariant
and its `sorted`/`bunched` flags are truthful -/
theorem leg_WF_sane (legs : List Leg) (qconj : Int) (sort bunch : Bool) (hw : ∀ l ∈ legs, l.WF)
    (hm : ∀ l ∈ legs, l.mods = gMods legs) (hq : qconj = 1 ∨ qconj = -1) :
    (init legs qconj sort bunch).leg.WF ∧ (init legs qconj sort bunch).leg.sane = true := by
  have key : (init legs qconj sort bunch).leg.WF ∧ (init legs qconj sort bunch).leg.FlagsOK := by
    by_cases hs : (gSubq legs).all (· == 1) = true
    · have hWF : (init legs qconj sort bunch).leg.WF := by
        refine ⟨leg_shape legs qconj sort bunch, ?_, ?_, ?_⟩
        · rw [init_single legs qconj sort bunch hs]
          intro c hc
          simp only [List.mem_singleton] at hc
          subst hc
          apply fuse_valid legs qconj hw hm (gMods_ge legs hw)
          rw [zeros_eq]
          have hones := single_ones legs hs
          generalize gSubq legs = shape at hones
          induction shape with
          | nil => trivial
          | cons n ns ih =>
            exact ⟨by rw [hones n (by simp)]; exact Nat.zero_lt_one, ih (fun m hm => hones m (by simp [hm]))⟩
        · rw [(init_mods_qconj legs qconj sort bunch).1]; exact gMods_ge legs hw
        · rw [(init_mods_qconj legs qconj sort bunch).2]; exact hq
      refine ⟨hWF, ?_⟩
      have h1 : (init legs qconj sort bunch).leg.charges.length ≤ 1 := by
        rw [init_single legs qconj sort bunch hs]; simp
      have := Leg.flags_of_le_one _ hWF.cl0 h1
      exact ⟨fun _ => this.1, fun _ => this.2⟩
    · have hs' : (gSubq legs).all (· == 1) = false := by simpa using hs
      have hpre := gPre_WF legs qconj sort hw hm hq
      cases bunch
      · rw [leg_nobunch legs qconj sort hs']
        exact ⟨hpre, gPre_sorted legs qconj sort, fun hb => by simp [gPre] at hb⟩
      · rw [leg_bunch legs qconj sort hs']
        exact ⟨Leg.bunchCore_WF hpre, Leg.bunchCore_flags hpre (gPre_sorted legs qconj sort)⟩
  exact ⟨key.1, key.1.sane_iff.2 key.2⟩

/-- in terms of physical charges (`make_valid(qconj * charge)`): outgoing = sum of incoming -/
theorem fuseFlat_phys (mods : List Nat) (legs : List Leg) (qconj : Int) (xs : List Nat)
    (hq : qconj = 1 ∨ qconj = -1) :
    makeValid mods (cscale qconj (fuseFlat mods legs qconj xs)) =
      makeValid mods (csum mods.length
        ((legs.zip xs).map (fun lx => cscale lx.1.qconj (lx.1.toQflat.getD lx.2 [])))) := by
  unfold fuseFlat
  rw [makeValid_scale, cscale_csum, List.map_map]
  congr 3
  funext lx
  simp only [Function.comp, cscale_cscale]
  congr 1
  rcases hq with h | h <;> rw [h] <;> omega

end Pipe
end TenpyModel.Core
