import TenpyModel.Core.Charge
/-!
# C06 — generic list lemmas

`getD`/`take?`, prefix sums (`slicesOfSizes`, `sizesOfSlices`), the three generic lemmas of
DESIGN section 14: (i) a stable sort is a permutation, (ii) `(block, within) ↦ prefix + within` is
a bijection, (iii) mixed-radix C-order encoding is a bijection, and `gridC`.
-/
namespace TenpyModel.Core

/-! ### getD / take? -/

theorem getD_lt {α} (l : List α) (i : Nat) (d : α) (h : i < l.length) : l.getD i d = l[i] := by
  simp [List.getD_eq_getElem?_getD, h]

theorem getD_ge {α} (l : List α) (i : Nat) (d : α) (h : l.length ≤ i) : l.getD i d = d := by
  simp [List.getD_eq_getElem?_getD, h]

theorem getD_mem {α} (l : List α) (i : Nat) (d : α) (h : i < l.length) : l.getD i d ∈ l := by
  rw [getD_lt l i d h]; exact List.getElem_mem h

theorem getD_map' {α β} (f : α → β) (l : List α) (i : Nat) (d : α) (e : β) (h : i < l.length) :
    (l.map f).getD i e = f (l.getD i d) := by
  simp [List.getD_eq_getElem?_getD, h]

theorem getD_append_left' {α} (a b : List α) (i : Nat) (d : α) (h : i < a.length) :
    (a ++ b).getD i d = a.getD i d := by
  simp [List.getD_eq_getElem?_getD, List.getElem?_append_left h]

theorem getD_append_right' {α} (a b : List α) (i : Nat) (d : α) :
    (a ++ b).getD (a.length + i) d = b.getD i d := by
  simp [List.getD_eq_getElem?_getD, List.getElem?_append_right]

theorem getD_range (n i : Nat) (h : i < n) : (List.range n).getD i 0 = i := by
  simp [List.getD_eq_getElem?_getD, h]

theorem getD_replicate' {α} (n i : Nat) (c d : α) (h : i < n) : (List.replicate n c).getD i d = c := by
  simp [List.getD_eq_getElem?_getD, h]

theorem take?_length {α} (a : List α) (idx : List Nat) (d : α) : (take? a idx d).length = idx.length := by
  simp [take?]

theorem take?_getD {α} (a : List α) (idx : List Nat) (d : α) (j : Nat) (hj : j < idx.length) :
    (take? a idx d).getD j d = a.getD (idx.getD j 0) d := by
  unfold take?
  rw [getD_map' _ idx j 0 d hj]

theorem take?_range {α} (a : List α) (d : α) : take? a (List.range a.length) d = a := by
  apply List.ext_getElem
  · simp [take?]
  · intro i h1 h2
    simp [take?, List.getD_eq_getElem?_getD, h2]

theorem map_getD_range {α} (a : List α) (d : α) : (List.range a.length).map (a.getD · d) = a :=
  take?_range a d

/-! ### sums and products -/

theorem foldl_add (l : List Nat) (a : Nat) : l.foldl (· + ·) a = a + l.sum := by
  induction l generalizing a with
  | nil => simp
  | cons x l ih => simp [ih, Nat.add_assoc]

theorem foldl_mul (l : List Nat) (a : Nat) : l.foldl (· * ·) a = a * l.prod := by
  induction l generalizing a with
  | nil => simp
  | cons x l ih => simp [ih, Nat.mul_assoc]

theorem sum_flatMap {α} (L : List α) (f : α → List Nat) :
    (L.flatMap f).sum = (L.map (fun x => (f x).sum)).sum := by
  induction L with
  | nil => rfl
  | cons x L ih => simp [List.flatMap_cons, List.sum_append, ih]

theorem sum_map_mul_left {α} (L : List α) (f : α → Nat) (k : Nat) :
    (L.map (fun x => k * f x)).sum = k * (L.map f).sum := by
  induction L with
  | nil => rfl
  | cons x L ih => simp [ih, Nat.mul_add]

theorem sum_map_mul_right {α} (L : List α) (f : α → Nat) (k : Nat) :
    (L.map (fun x => f x * k)).sum = (L.map f).sum * k := by
  induction L with
  | nil => simp
  | cons x L ih => simp [ih, Nat.add_mul]

/-! ### prefix sums -/

/-- `psum s j` = sum of the first `j` entries. -/
def psum (s : List Nat) (j : Nat) : Nat := (s.take j).sum

@[simp] theorem psum_zero (s : List Nat) : psum s 0 = 0 := by simp [psum]
@[simp] theorem psum_nil (j : Nat) : psum [] j = 0 := by simp [psum]
@[simp] theorem psum_cons_succ (x : Nat) (s : List Nat) (j : Nat) : psum (x :: s) (j + 1) = x + psum s j := by
  simp [psum]

theorem psum_succ (s : List Nat) (j : Nat) (h : j < s.length) :
    psum s (j + 1) = psum s j + s.getD j 0 := by
  induction s generalizing j with
  | nil => simp at h
  | cons x s ih =>
    cases j with
    | zero => simp
    | succ j =>
      simp only [psum_cons_succ, List.getD_cons_succ]
      rw [ih j (by simpa using h)]; omega

theorem psum_mono (s : List Nat) (i j : Nat) (h : i ≤ j) : psum s i ≤ psum s j := by
  induction s generalizing i j with
  | nil => simp
  | cons x s ih =>
    cases i with
    | zero => simp
    | succ i =>
      cases j with
      | zero => omega
      | succ j =>
        simp only [psum_cons_succ]
        have := ih i j (by omega); omega

theorem psum_length (s : List Nat) : psum s s.length = s.sum := by simp [psum]

theorem psum_le_sum (s : List Nat) (j : Nat) : psum s j ≤ s.sum := by
  by_cases h : j ≤ s.length
  · rw [← psum_length]; exact psum_mono s j _ h
  · simp [psum, List.take_of_length_le (Nat.le_of_not_le h)]

/-- **(ii)** `(block, within) ↦ prefix + within` lands below the total … -/
theorem psum_add_lt (s : List Nat) (j r : Nat) (hj : j < s.length) (hr : r < s.getD j 0) :
    psum s j + r < s.sum := by
  have h1 := psum_succ s j hj
  have h2 := psum_le_sum s (j + 1)
  omega

/-- … and is injective. -/
theorem psum_add_inj (s : List Nat) (j₁ r₁ j₂ r₂ : Nat) (h₁ : j₁ < s.length) (h₂ : j₂ < s.length)
    (hr₁ : r₁ < s.getD j₁ 0) (hr₂ : r₂ < s.getD j₂ 0) (h : psum s j₁ + r₁ = psum s j₂ + r₂) :
    j₁ = j₂ ∧ r₁ = r₂ := by
  have e₁ := psum_succ s j₁ h₁
  have e₂ := psum_succ s j₂ h₂
  rcases Nat.lt_trichotomy j₁ j₂ with hlt | heq | hgt
  · have := psum_mono s (j₁ + 1) j₂ hlt; omega
  · subst heq; exact ⟨rfl, by omega⟩
  · have := psum_mono s (j₂ + 1) j₁ hgt; omega

/-! ### cumsum, slicesOfSizes, sizesOfSlices -/

theorem cumsum_go_length (acc : Nat) (l : List Nat) : (cumsum.go acc l).length = l.length := by
  induction l generalizing acc with
  | nil => rfl
  | cons x l ih => simp [cumsum.go, ih]

theorem cumsum_go_getD (acc : Nat) (l : List Nat) (j : Nat) (h : j < l.length) :
    (cumsum.go acc l).getD j 0 = acc + psum l (j + 1) := by
  induction l generalizing acc j with
  | nil => simp at h
  | cons x l ih =>
    cases j with
    | zero => simp [cumsum.go]
    | succ j =>
      simp only [cumsum.go, List.getD_cons_succ, psum_cons_succ]
      rw [ih (acc + x) j (by simpa using h)]; omega

theorem cumsum_length (l : List Nat) : (cumsum l).length = l.length := cumsum_go_length 0 l

theorem cumsum_getD (l : List Nat) (j : Nat) (h : j < l.length) :
    (cumsum l).getD j 0 = psum l (j + 1) := by
  unfold cumsum; rw [cumsum_go_getD 0 l j h]; omega

theorem slicesOfSizes_length (s : List Nat) : (slicesOfSizes s).length = s.length + 1 := by
  simp [slicesOfSizes, cumsum_length]

theorem slicesOfSizes_getD (s : List Nat) (j : Nat) (h : j ≤ s.length) :
    (slicesOfSizes s).getD j 0 = psum s j := by
  unfold slicesOfSizes
  cases j with
  | zero => simp
  | succ j => rw [List.getD_cons_succ, cumsum_getD s j (by omega)]

theorem slicesOfSizes_head (s : List Nat) : (slicesOfSizes s).head? = some 0 := rfl

theorem sizesOfSlices_go (acc : Nat) (s : List Nat) :
    List.zipWith (fun e b => e - b) (cumsum.go acc s) (acc :: cumsum.go acc s) = s := by
  induction s generalizing acc with
  | nil => rfl
  | cons x s ih =>
    simp only [cumsum.go, List.zipWith_cons_cons, ih (acc + x)]
    congr 1; omega

theorem sizesOfSlices_slicesOfSizes (s : List Nat) : sizesOfSlices (slicesOfSizes s) = s := by
  unfold sizesOfSlices slicesOfSizes cumsum
  exact sizesOfSlices_go 0 s

theorem slicesOfSizes_go (s0 : Nat) (rest : List Nat) (h : (s0 :: rest).Pairwise (· ≤ ·)) :
    cumsum.go s0 (List.zipWith (fun e b => e - b) rest (s0 :: rest)) = rest := by
  induction rest generalizing s0 with
  | nil => rfl
  | cons s1 r ih =>
    have h01 : s0 ≤ s1 := (List.pairwise_cons.1 h).1 s1 (by simp)
    simp only [List.zipWith_cons_cons, cumsum.go]
    have e : s0 + (s1 - s0) = s1 := by omega
    rw [e, ih s1 (List.pairwise_cons.1 h).2]

/-- canonical form of well-formed slices -/
theorem slicesOfSizes_sizesOfSlices (sl : List Nat) (h0 : sl.head? = some 0)
    (hm : sl.Pairwise (· ≤ ·)) : slicesOfSizes (sizesOfSlices sl) = sl := by
  cases sl with
  | nil => simp at h0
  | cons s0 rest =>
    simp only [List.head?_cons, Option.some.injEq] at h0
    subst h0
    unfold slicesOfSizes sizesOfSlices cumsum
    simp only [List.tail_cons]
    rw [slicesOfSizes_go 0 rest hm]

theorem sizesOfSlices_length (sl : List Nat) : (sizesOfSlices sl).length = sl.length - 1 := by
  unfold sizesOfSlices; simp

theorem slicesOfSizes_pairwise (s : List Nat) : (slicesOfSizes s).Pairwise (· ≤ ·) := by
  rw [List.pairwise_iff_getElem]
  intro i j hi hj hij
  rw [← getD_lt _ i 0 hi, ← getD_lt _ j 0 hj]
  rw [slicesOfSizes_length] at hi hj
  rw [slicesOfSizes_getD s i (by omega), slicesOfSizes_getD s j (by omega)]
  exact psum_mono s i j (by omega)

theorem slicesOfSizes_getLastD (s : List Nat) : (slicesOfSizes s).getLastD 0 = s.sum := by
  rw [List.getLastD_eq_getLast?, List.getLast?_eq_getElem?, ← List.getD_eq_getElem?_getD,
    slicesOfSizes_length, Nat.add_sub_cancel, slicesOfSizes_getD s _ (Nat.le_refl _), psum_length]

theorem mono_getD (s : List Nat) (h : s.Pairwise (· ≤ ·)) (i j : Nat) (hij : i ≤ j) (hj : j < s.length) :
    s.getD i 0 ≤ s.getD j 0 := by
  rw [getD_lt s i 0 (by omega), getD_lt s j 0 hj]
  rcases Nat.lt_or_eq_of_le hij with hlt | heq
  · exact (List.pairwise_iff_getElem.1 h) i j (by omega) hj hlt
  · subst heq; exact Nat.le_refl _

theorem smono_getD (s : List Nat) (h : s.Pairwise (· < ·)) (i j : Nat) (hij : i < j) (hj : j < s.length) :
    s.getD i 0 < s.getD j 0 := by
  rw [getD_lt s i 0 (by omega), getD_lt s j 0 hj]
  exact (List.pairwise_iff_getElem.1 h) i j (by omega) hj hij

/-- for a strictly increasing list, the order of two entries reflects the order of positions -/
theorem smono_getD_lt_iff (s : List Nat) (h : s.Pairwise (· < ·)) (i j : Nat) (hi : i < s.length)
    (hj : j < s.length) : s.getD i 0 < s.getD j 0 ↔ i < j := by
  constructor
  · intro hlt
    rcases Nat.lt_trichotomy i j with h1 | h1 | h1
    · exact h1
    · subst h1; omega
    · have := smono_getD s h j i h1 hi; omega
  · intro hlt; exact smono_getD s h i j hlt hj

/-! ### expansion of blocks (`to_qflat`) -/

/-- `to_qflat` on block sizes and block charges -/
def expand {α} (sizes : List Nat) (cs : List α) : List α :=
  (sizes.zip cs).flatMap (fun sc => List.replicate sc.1 sc.2)

@[simp] theorem expand_nil_left {α} (cs : List α) : expand [] cs = [] := by simp [expand]
@[simp] theorem expand_nil_right {α} (s : List Nat) : expand s ([] : List α) = [] := by simp [expand]
@[simp] theorem expand_cons {α} (s : Nat) (ss : List Nat) (c : α) (cs : List α) :
    expand (s :: ss) (c :: cs) = List.replicate s c ++ expand ss cs := by
  simp [expand, List.flatMap_cons]

theorem expand_length {α} (sizes : List Nat) (cs : List α) (h : sizes.length = cs.length) :
    (expand sizes cs).length = sizes.sum := by
  induction sizes generalizing cs with
  | nil => simp
  | cons s ss ih =>
    cases cs with
    | nil => simp at h
    | cons c cs => simp [ih cs (by simpa using h)]

theorem expand_getD {α} (sizes : List Nat) (cs : List α) (d : α) (h : sizes.length = cs.length)
    (q r : Nat) (hq : q < sizes.length) (hr : r < sizes.getD q 0) :
    (expand sizes cs).getD (psum sizes q + r) d = cs.getD q d := by
  induction sizes generalizing cs q with
  | nil => simp at hq
  | cons s ss ih =>
    cases cs with
    | nil => simp at h
    | cons c cs =>
      cases q with
      | zero =>
        simp only [psum_zero, Nat.zero_add, expand_cons, List.getD_cons_zero] at hr ⊢
        rw [getD_append_left' _ _ _ _ (by simpa using hr), getD_replicate' _ _ _ _ hr]
      | succ q =>
        simp only [psum_cons_succ, expand_cons, List.getD_cons_succ] at hr ⊢
        have e : s + psum ss q + r = (List.replicate s c).length + (psum ss q + r) := by simp; omega
        rw [e, getD_append_right']
        exact ih cs (by simpa using h) q (by simpa using hq) hr

theorem expand_map {α β} (f : α → β) (sizes : List Nat) (cs : List α) :
    expand sizes (cs.map f) = (expand sizes cs).map f := by
  induction sizes generalizing cs with
  | nil => simp
  | cons s ss ih =>
    cases cs with
    | nil => simp
    | cons c cs => simp [ih]

theorem expand_append {α} (s₁ s₂ : List Nat) (c₁ c₂ : List α) (h : s₁.length = c₁.length) :
    expand (s₁ ++ s₂) (c₁ ++ c₂) = expand s₁ c₁ ++ expand s₂ c₂ := by
  unfold expand
  rw [List.zip_append h, List.flatMap_append]

/-- `expand` written over block numbers -/
theorem expand_eq_range {α} (sizes : List Nat) (cs : List α) (d : α) (h : sizes.length = cs.length) :
    expand sizes cs =
      (List.range cs.length).flatMap (fun q => List.replicate (sizes.getD q 0) (cs.getD q d)) := by
  induction sizes generalizing cs with
  | nil =>
    cases cs with
    | nil => simp
    | cons c cs => simp at h
  | cons s ss ih =>
    cases cs with
    | nil => simp at h
    | cons c cs =>
      rw [expand_cons, ih cs (by simpa using h), List.length_cons, List.range_succ_eq_map,
        List.flatMap_cons, List.flatMap_map]
      simp

/-- blocks gathered by an index list -/
theorem expand_take? {α} (sizes : List Nat) (cs : List α) (d : α) (p : List Nat) :
    expand (take? sizes p 0) (take? cs p d) =
      p.flatMap (fun q => List.replicate (sizes.getD q 0) (cs.getD q d)) := by
  induction p with
  | nil => simp [take?]
  | cons q p ih =>
    simp only [take?, List.map_cons, expand_cons, List.flatMap_cons] at ih ⊢
    rw [ih]

/-! ### (i) stable sort -/

theorem insertLE_perm {α} (le : α → α → Bool) (x : α) (l : List α) : (insertLE le x l).Perm (x :: l) := by
  induction l with
  | nil => exact List.Perm.refl _
  | cons y ys ih =>
    simp only [insertLE]
    split
    · exact List.Perm.refl _
    · exact ((List.perm_cons y).2 ih).trans (List.Perm.swap x y ys)

theorem stableSort_perm {α} (le : α → α → Bool) (l : List α) : (stableSort le l).Perm l := by
  induction l with
  | nil => exact List.Perm.refl _
  | cons x xs ih =>
    simp only [stableSort]
    exact (insertLE_perm le x _).trans ((List.perm_cons x).2 ih)

theorem insertLE_sorted {α} (le : α → α → Bool) (htot : ∀ a b, le a b = true ∨ le b a = true)
    (htr : ∀ a b c, le a b = true → le b c = true → le a c = true) (x : α) (l : List α)
    (hl : l.Pairwise (fun a b => le a b = true)) :
    (insertLE le x l).Pairwise (fun a b => le a b = true) := by
  induction l with
  | nil => simp [insertLE]
  | cons y ys ih =>
    simp only [insertLE]
    split
    next hxy =>
      refine List.pairwise_cons.2 ⟨?_, hl⟩
      intro z hz
      rcases List.mem_cons.1 hz with rfl | hz
      · exact hxy
      · exact htr _ _ _ hxy ((List.pairwise_cons.1 hl).1 z hz)
    next hxy =>
      have hyx : le y x = true := by
        rcases htot x y with h | h
        · exact absurd h hxy
        · exact h
      refine List.pairwise_cons.2 ⟨?_, ih (List.pairwise_cons.1 hl).2⟩
      intro z hz
      rcases List.mem_cons.1 ((insertLE_perm le x ys).mem_iff.1 hz) with rfl | hz
      · exact hyx
      · exact (List.pairwise_cons.1 hl).1 z hz

theorem stableSort_sorted {α} (le : α → α → Bool) (htot : ∀ a b, le a b = true ∨ le b a = true)
    (htr : ∀ a b c, le a b = true → le b c = true → le a c = true) (l : List α) :
    (stableSort le l).Pairwise (fun a b => le a b = true) := by
  induction l with
  | nil => simp [stableSort]
  | cons x xs ih => exact insertLE_sorted le htot htr x _ ih

theorem stableSort_of_sorted {α} (le : α → α → Bool) (l : List α)
    (hl : l.Pairwise (fun a b => le a b = true)) : stableSort le l = l := by
  induction l with
  | nil => rfl
  | cons x xs ih =>
    simp only [stableSort, ih (List.pairwise_cons.1 hl).2]
    cases xs with
    | nil => rfl
    | cons y ys =>
      simp only [insertLE]
      rw [if_pos ((List.pairwise_cons.1 hl).1 y (by simp))]

/-! ### lexicographic comparison -/

theorem lexLE_go_total (a b : List Int) : lexLE.go a b = true ∨ lexLE.go b a = true := by
  induction a generalizing b with
  | nil => left; simp [lexLE.go]
  | cons x xs ih =>
    cases b with
    | nil => right; simp [lexLE.go]
    | cons y ys =>
      simp only [lexLE.go]
      rcases Int.lt_trichotomy x y with h | h | h
      · left; simp [h]
      · subst h; simp only [Int.lt_irrefl, if_false]; exact ih ys
      · right; simp [h]

theorem lexLE_go_trans (a b c : List Int) (h1 : lexLE.go a b = true) (h2 : lexLE.go b c = true) :
    lexLE.go a c = true := by
  induction a generalizing b c with
  | nil => simp [lexLE.go]
  | cons x xs ih =>
    cases b with
    | nil => simp [lexLE.go] at h1
    | cons y ys =>
      cases c with
      | nil => simp [lexLE.go] at h2
      | cons z zs =>
        simp only [lexLE.go] at h1 h2 ⊢
        split at h1
        next hxy =>
          split at h2
          next hyz => rw [if_pos (by omega)]
          next hyz =>
            split at h2
            · simp at h2
            · rw [if_pos (by omega)]
        next hxy =>
          split at h1
          · simp at h1
          next hyx =>
            have exy : x = y := by omega
            subst exy
            split at h2
            next hyz => rw [if_pos hyz]
            next hyz =>
              split at h2
              · simp at h2
              next hzy =>
                rw [if_neg hyz, if_neg hzy]
                exact ih ys zs h1 h2

theorem lexLE_go_antisymm (a b : List Int) (h1 : lexLE.go a b = true) (h2 : lexLE.go b a = true) :
    a = b := by
  induction a generalizing b with
  | nil =>
    cases b with
    | nil => rfl
    | cons y ys => simp [lexLE.go] at h2
  | cons x xs ih =>
    cases b with
    | nil => simp [lexLE.go] at h1
    | cons y ys =>
      simp only [lexLE.go] at h1 h2
      by_cases hxy : x < y
      · rw [if_neg (by omega), if_pos hxy] at h2; simp at h2
      · by_cases hyx : y < x
        · rw [if_neg hxy, if_pos hyx] at h1; simp at h1
        · rw [if_neg hxy, if_neg hyx] at h1
          rw [if_neg hyx, if_neg hxy] at h2
          have : x = y := by omega
          rw [this, ih ys h1 h2]

theorem lexLE_total (a b : List Int) : lexLE a b = true ∨ lexLE b a = true := lexLE_go_total _ _
theorem lexLE_trans (a b c : List Int) : lexLE a b = true → lexLE b c = true → lexLE a c = true :=
  lexLE_go_trans _ _ _
theorem lexLE_antisymm (a b : List Int) (h1 : lexLE a b = true) (h2 : lexLE b a = true) : a = b :=
  List.reverse_inj.1 (lexLE_go_antisymm _ _ h1 h2)
theorem lexLE_refl (a : List Int) : lexLE a a = true := by
  rcases lexLE_total a a with h | h <;> exact h

/-! ### lexsort -/

theorem lexsort_perm (rows : List (List Int)) : (lexsort rows).Perm (List.range rows.length) := by
  unfold lexsort
  have h := (stableSort_perm (fun a b : List Int × Nat => lexLE a.1 b.1)
    (rows.zip (List.range rows.length))).map (·.2)
  rwa [List.map_snd_zip (by simp)] at h

theorem lexsort_length (rows : List (List Int)) : (lexsort rows).length = rows.length := by
  simpa using (lexsort_perm rows).length_eq

theorem mem_zip_range {α} (rows : List α) (d : α) (p : α × Nat)
    (hp : p ∈ rows.zip (List.range rows.length)) : rows.getD p.2 d = p.1 ∧ p.2 < rows.length := by
  obtain ⟨i, hi, rfl⟩ := List.mem_iff_getElem.1 hp
  simp only [List.length_zip, List.length_range, Nat.min_self] at hi
  simp [List.getD_eq_getElem?_getD, hi]

/-- the rows gathered by `lexsort` are the sorted rows -/
theorem take?_lexsort (rows : List (List Int)) :
    take? rows (lexsort rows) [] =
      (stableSort (fun a b : List Int × Nat => lexLE a.1 b.1) (rows.zip (List.range rows.length))).map (·.1) := by
  unfold take? lexsort
  rw [List.map_map]
  apply List.map_congr_left
  intro p hp
  exact (mem_zip_range rows [] p ((stableSort_perm _ _).mem_iff.1 hp)).1

theorem take?_lexsort_sorted (rows : List (List Int)) :
    (take? rows (lexsort rows) []).Pairwise (fun a b => lexLE a b = true) := by
  rw [take?_lexsort, List.pairwise_map]
  exact stableSort_sorted _ (fun a b => lexLE_total a.1 b.1)
    (fun a b c => lexLE_trans a.1 b.1 c.1) _

theorem pairwise_zip_range {α} (R : α → α → Prop) (rows : List α) (h : rows.Pairwise R) :
    (rows.zip (List.range rows.length)).Pairwise (fun a b => R a.1 b.1) := by
  rw [List.pairwise_iff_getElem] at h ⊢
  intro i j hi hj hij
  simp only [List.getElem_zip]
  simp only [List.length_zip, List.length_range, Nat.min_self] at hi hj
  exact h i j hi hj hij

theorem lexsort_of_sorted (rows : List (List Int))
    (h : rows.Pairwise (fun a b => lexLE a b = true)) : lexsort rows = List.range rows.length := by
  unfold lexsort
  rw [stableSort_of_sorted _ _ (pairwise_zip_range _ rows h), List.map_snd_zip (by simp)]

theorem sorted_of_lexsort (rows : List (List Int)) (h : lexsort rows = List.range rows.length) :
    rows.Pairwise (fun a b => lexLE a b = true) := by
  have := take?_lexsort_sorted rows
  rwa [h, take?_range] at this

/-! ### permutations of `range n` -/

theorem perm_range_lt (p : List Nat) (n : Nat) (h : p.Perm (List.range n)) (j : Nat) (hj : j < p.length) :
    p.getD j 0 < n := by
  have := h.mem_iff.1 (getD_mem p j 0 hj)
  simpa using this

theorem take?_perm {α} (a : List α) (d : α) (p : List Nat) (h : p.Perm (List.range a.length)) :
    (take? a p d).Perm a := by
  have := h.map (a.getD · d)
  rwa [map_getD_range] at this

/-- `inverse_permutation` really inverts -/
theorem inversePerm_spec (p : List Nat) (h : p.Perm (List.range p.length)) (i : Nat) (hi : i < p.length) :
    (inversePerm p).getD i 0 < p.length ∧ p.getD ((inversePerm p).getD i 0) 0 = i := by
  have hmem : i ∈ p := h.mem_iff.2 (by simpa using hi)
  have hlt : p.idxOf i < p.length := List.idxOf_lt_length_iff.2 hmem
  have e : (inversePerm p).getD i 0 = p.idxOf i := by
    unfold inversePerm
    rw [getD_map' _ _ i 0 0 (by simpa using hi), getD_range _ _ hi]
  rw [e]
  exact ⟨hlt, by rw [getD_lt p _ 0 hlt]; exact List.getElem_idxOf hlt⟩

/-! ### (iii) mixed radix, C order -/

/-- `qs` is a valid multi-index for `shape` -/
def InRange : List Nat → List Nat → Prop
  | [], [] => True
  | q :: qs, n :: ns => q < n ∧ InRange qs ns
  | _, _ => False

instance : (qs shape : List Nat) → Decidable (InRange qs shape)
  | [], [] => isTrue trivial
  | q :: qs, n :: ns =>
    have : Decidable (InRange qs ns) := instDecidableInRange qs ns
    inferInstanceAs (Decidable (q < n ∧ InRange qs ns))
  | [], _ :: _ => isFalse (fun h => h)
  | _ :: _, [] => isFalse (fun h => h)

theorem InRange.length_eq {qs shape : List Nat} (h : InRange qs shape) : qs.length = shape.length := by
  induction qs generalizing shape with
  | nil => cases shape with
    | nil => rfl
    | cons n ns => exact h.elim
  | cons q qs ih => cases shape with
    | nil => exact h.elim
    | cons n ns => simp [ih h.2]

theorem InRange.getD_lt {qs shape : List Nat} (h : InRange qs shape) (k : Nat) (hk : k < qs.length) :
    qs.getD k 0 < shape.getD k 0 := by
  induction qs generalizing shape k with
  | nil => simp at hk
  | cons q qs ih => cases shape with
    | nil => exact h.elim
    | cons n ns =>
      cases k with
      | zero => exact h.1
      | succ k => simpa using ih h.2 k (by simpa using hk)

theorem dot_eq_sum (a b : List Nat) : dot a b = (List.zipWith (· * ·) a b).sum := by
  unfold dot; rw [foldl_add]; omega

@[simp] theorem dot_nil_left (b : List Nat) : dot [] b = 0 := by simp [dot]
@[simp] theorem dot_nil_right (a : List Nat) : dot a [] = 0 := by simp [dot]
@[simp] theorem dot_cons (x y : Nat) (a b : List Nat) : dot (x :: a) (y :: b) = x * y + dot a b := by
  simp [dot_eq_sum]

theorem makeStrideC_cons (n : Nat) (rest : List Nat) :
    makeStrideC (n :: rest) = rest.prod :: makeStrideC rest := by
  simp [makeStrideC, foldl_mul]

theorem makeStrideC_length (shape : List Nat) : (makeStrideC shape).length = shape.length := by
  induction shape with
  | nil => rfl
  | cons n rest ih => simp [makeStrideC, ih]

theorem dot_stride_lt (qs shape : List Nat) (h : InRange qs shape) :
    dot qs (makeStrideC shape) < shape.prod := by
  induction qs generalizing shape with
  | nil => cases shape with
    | nil => simp
    | cons n ns => exact h.elim
  | cons q qs ih => cases shape with
    | nil => exact h.elim
    | cons n ns =>
      rw [makeStrideC_cons, dot_cons, List.prod_cons]
      have h1 := ih ns h.2
      have h2 : (q + 1) * ns.prod ≤ n * ns.prod := Nat.mul_le_mul_right _ h.1
      rw [Nat.add_mul] at h2
      omega

theorem dot_stride_inj (qs qs' shape : List Nat) (h : InRange qs shape) (h' : InRange qs' shape)
    (e : dot qs (makeStrideC shape) = dot qs' (makeStrideC shape)) : qs = qs' := by
  induction qs generalizing shape qs' with
  | nil => cases shape with
    | nil => cases qs' with
      | nil => rfl
      | cons _ _ => exact h'.elim
    | cons n ns => exact h.elim
  | cons q qs ih => cases shape with
    | nil => exact h.elim
    | cons n ns =>
      cases qs' with
      | nil => exact h'.elim
      | cons q' qs' =>
        rw [makeStrideC_cons, dot_cons, dot_cons] at e
        have h1 := dot_stride_lt qs ns h.2
        have h2 := dot_stride_lt qs' ns h'.2
        have hP : 0 < ns.prod := by omega
        have eq1 : (q * ns.prod + dot qs (makeStrideC ns)) / ns.prod = q := by
          rw [Nat.mul_comm, Nat.mul_add_div hP, Nat.div_eq_of_lt h1]; omega
        have eq2 : (q' * ns.prod + dot qs' (makeStrideC ns)) / ns.prod = q' := by
          rw [Nat.mul_comm, Nat.mul_add_div hP, Nat.div_eq_of_lt h2]; omega
        have hq : q = q' := by rw [← eq1, ← eq2, e]
        subst hq
        rw [ih qs' ns h.2 h'.2 (by omega)]

/-! ### gridC -/

theorem gridC_length (shape : List Nat) : (gridC shape).length = shape.prod := by
  induction shape with
  | nil => rfl
  | cons n rest ih =>
    simp only [gridC, List.length_flatMap, List.length_map, ih, List.prod_cons]
    rw [List.map_const', List.sum_replicate_nat]; simp

theorem flatMap_uniform_getD {α β} (L : List β) (f : β → List α) (P : Nat) (d : α)
    (hP : ∀ x ∈ L, (f x).length = P) (q r : Nat) (hq : q < L.length) (hr : r < P) :
    (L.flatMap f).getD (q * P + r) d = (f L[q]).getD r d := by
  induction L generalizing q with
  | nil => simp at hq
  | cons x L ih =>
    rw [List.flatMap_cons]
    cases q with
    | zero =>
      simp only [Nat.zero_mul, Nat.zero_add, List.getElem_cons_zero]
      exact getD_append_left' _ _ _ _ (by rw [hP x (by simp)]; exact hr)
    | succ q =>
      have e : (q + 1) * P + r = (f x).length + (q * P + r) := by
        rw [hP x (by simp), Nat.add_mul]; omega
      rw [e, getD_append_right']
      simp only [List.getElem_cons_succ]
      exact ih (fun y hy => hP y (by simp [hy])) q (by simpa using hq)

theorem gridC_getD (qs shape : List Nat) (h : InRange qs shape) :
    (gridC shape).getD (dot qs (makeStrideC shape)) [] = qs := by
  induction qs generalizing shape with
  | nil => cases shape with
    | nil => simp [gridC]
    | cons n ns => exact h.elim
  | cons q qs ih => cases shape with
    | nil => exact h.elim
    | cons n ns =>
      rw [makeStrideC_cons, dot_cons, gridC]
      have hlt := dot_stride_lt qs ns h.2
      rw [← gridC_length] at hlt ⊢
      rw [flatMap_uniform_getD (List.range n) _ (gridC ns).length [] (by simp) q _ (by simpa using h.1) hlt]
      rw [getD_map' _ _ _ [] _ hlt]
      simp only [List.getElem_range]
      rw [ih ns h.2]

theorem mem_gridC (t shape : List Nat) : t ∈ gridC shape ↔ InRange t shape := by
  induction shape generalizing t with
  | nil =>
    cases t with
    | nil => simp [gridC, InRange]
    | cons _ _ => simp [gridC, InRange]
  | cons n ns ih =>
    simp only [gridC, List.mem_flatMap, List.mem_range, List.mem_map]
    constructor
    · rintro ⟨i, hi, u, hu, rfl⟩
      exact ⟨hi, (ih u).1 hu⟩
    · intro h
      cases t with
      | nil => exact h.elim
      | cons q qs => exact ⟨q, h.1, qs, (ih qs).2 h.2, rfl⟩

/-- every grid row sits at the position given by the C strides -/
theorem gridC_index (shape : List Nat) (j : Nat) (hj : j < (gridC shape).length) :
    dot ((gridC shape).getD j []) (makeStrideC shape) = j ∧ InRange ((gridC shape).getD j []) shape := by
  have hin : InRange ((gridC shape).getD j []) shape := (mem_gridC _ _).1 (getD_mem _ _ _ hj)
  refine ⟨?_, hin⟩
  -- the map `qs ↦ dot qs strides` is injective on the grid and `gridC_getD` is its left inverse:
  -- use a counting-free argument by induction on the shape instead
  induction shape generalizing j with
  | nil =>
    simp [gridC] at hj
    subst hj; simp [gridC]
  | cons n ns ih =>
    have hP : (gridC ns).length = ns.prod := gridC_length ns
    rw [gridC_length, List.prod_cons] at hj
    have hpos : 0 < ns.prod := by
      rcases Nat.eq_zero_or_pos ns.prod with h0 | h0
      · rw [h0] at hj; simp at hj
      · exact h0
    have hq : j / ns.prod < n := by
      rw [Nat.div_lt_iff_lt_mul hpos]; exact hj
    have hr : j % ns.prod < (gridC ns).length := by rw [hP]; exact Nat.mod_lt _ hpos
    have ej : j = (j / ns.prod) * (gridC ns).length + j % ns.prod := by
      rw [hP, Nat.mul_comm]; exact (Nat.div_add_mod j ns.prod).symm
    have hrow : (gridC (n :: ns)).getD j [] = (j / ns.prod) :: (gridC ns).getD (j % ns.prod) [] := by
      rw [gridC]
      conv => lhs; rw [ej]
      rw [flatMap_uniform_getD (List.range n) _ (gridC ns).length [] (by simp) _ _ (by simpa using hq) hr]
      rw [getD_map' _ _ _ [] _ hr]
      simp
    rw [hrow, makeStrideC_cons, dot_cons]
    have := ih (j % ns.prod) hr ((mem_gridC _ _).1 (getD_mem _ _ _ hr))
    rw [this]
    rw [Nat.mul_comm]; exact Nat.div_add_mod j ns.prod

end TenpyModel.Core
