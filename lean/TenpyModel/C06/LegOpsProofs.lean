import TenpyModel.C06.LegProofs
/-!
# C06 — helper lemmas: `sort`, `perm_flat_from_perm_qind`, `project`, `extend`
-/
namespace TenpyModel.Core

theorem flatMap_congr' {α β} (L : List α) (f g : α → List β) (h : ∀ x ∈ L, f x = g x) :
    L.flatMap f = L.flatMap g := by
  induction L with
  | nil => rfl
  | cons x L ih =>
    rw [List.flatMap_cons, List.flatMap_cons, h x (by simp), ih (fun y hy => h y (by simp [hy]))]

theorem filter_flatMap_of_nil {α β} (L : List α) (p : α → Bool) (f : α → List β)
    (h : ∀ x ∈ L, p x = false → f x = []) : (L.filter p).flatMap f = L.flatMap f := by
  induction L with
  | nil => rfl
  | cons x L ih =>
    have ih' := ih (fun y hy => h y (by simp [hy]))
    by_cases hp : p x = true
    · rw [List.filter_cons_of_pos hp, List.flatMap_cons, List.flatMap_cons, ih']
    · rw [List.filter_cons_of_neg hp, List.flatMap_cons, ih', h x (by simp) (by simpa using hp)]
      rfl

theorem take?_subset {α} (a : List α) (d : α) (p : List Nat) (hp : ∀ q ∈ p, q < a.length) :
    ∀ c ∈ take? a p d, c ∈ a := by
  intro c hc
  obtain ⟨q, hq, rfl⟩ := List.mem_map.1 hc
  exact getD_mem a q d (hp q hq)

/-! ### cumsum of an append -/

theorem cumsum_go_append (acc : Nat) (a b : List Nat) :
    cumsum.go acc (a ++ b) = cumsum.go acc a ++ cumsum.go (acc + a.sum) b := by
  induction a generalizing acc with
  | nil => simp [cumsum.go]
  | cons x a ih => simp [cumsum.go, ih, Nat.add_assoc]

theorem cumsum_go_shift (acc : Nat) (b : List Nat) :
    cumsum.go acc b = (cumsum.go 0 b).map (· + acc) := by
  induction b generalizing acc with
  | nil => rfl
  | cons x b ih =>
    simp only [cumsum.go, List.map_cons, Nat.zero_add]
    rw [ih (acc + x), ih x, List.map_map]
    congr 1
    · omega
    · apply List.map_congr_left; intro y _; simp; omega

theorem slicesOfSizes_append (a b : List Nat) :
    slicesOfSizes (a ++ b) = slicesOfSizes a ++ (slicesOfSizes b).tail.map (· + a.sum) := by
  unfold slicesOfSizes cumsum
  rw [cumsum_go_append, List.tail_cons, Nat.zero_add, cumsum_go_shift a.sum b]
  rfl

namespace Leg

/-! ### sort -/

/-- the sorted, not yet bunched copy made by `sort` -/
def sortCore (l : Leg) : Leg :=
  { l with charges := take? l.charges (lexsort l.charges) [],
           slices := slicesOfSizes (take? l.blockSizes (lexsort l.charges) 0),
           sorted := true, bunched := false }

theorem sort_eq (l : Leg) (b : Bool) : l.sort b =
    if l.sorted && (!b || l.bunched) then (List.range l.blockNumber, l)
    else if b then (lexsort l.charges, l.sortCore.bunch.2) else (lexsort l.charges, l.sortCore) := by
  unfold sort
  split
  · rfl
  · split <;> rfl

theorem sort_perm (l : Leg) (b : Bool) : (l.sort b).1.Perm (List.range l.blockNumber) := by
  rw [sort_eq]
  split
  · exact List.Perm.refl _
  · split <;> exact lexsort_perm _

theorem sortCore_blockSizes (l : Leg) : l.sortCore.blockSizes = take? l.blockSizes (lexsort l.charges) 0 :=
  sizesOfSlices_slicesOfSizes _

theorem sortCore_shape (l : Leg) : l.sortCore.Shape :=
  shape_of_sizes _ _ _ _ _ _ (by simp [take?])

theorem lexsort_lt (l : Leg) : ∀ q ∈ lexsort l.charges, q < l.blockNumber := by
  intro q hq
  simpa [blockNumber] using (lexsort_perm l.charges).mem_iff.1 hq

theorem sortCore_charges_mem (l : Leg) : ∀ c ∈ l.sortCore.charges, c ∈ l.charges :=
  take?_subset _ _ _ (lexsort_lt l)

theorem sortCore_toQflat (l : Leg) : l.sortCore.toQflat =
    (lexsort l.charges).flatMap (fun q => List.replicate (l.blockSizes.getD q 0) (l.charges.getD q [])) := by
  rw [Shape.toQflat_eq, sortCore_blockSizes]
  exact expand_take? _ _ _ _

theorem permFlat_map_getD {l : Leg} (h : l.Shape) (p : List Nat) (hp : ∀ q ∈ p, q < l.blockNumber) :
    (l.permFlatFromPermQind p).map (l.toQflat.getD · []) =
      p.flatMap (fun q => List.replicate (l.blockSizes.getD q 0) (l.charges.getD q [])) := by
  unfold permFlatFromPermQind
  rw [List.map_flatMap]
  apply flatMap_congr'
  intro q hq
  have hq' := hp q hq
  have e := h.slices_succ q hq'
  simp only
  rw [List.map_map, e, Nat.add_sub_cancel_left]
  apply map_range_const
  intro i hi
  simp only [Function.comp]
  exact h.toQflat_getD q _ hq' (by omega) (by omega)

theorem toQflat_eq_range {l : Leg} (h : l.Shape) : l.toQflat =
    (List.range l.blockNumber).flatMap (fun q => List.replicate (l.blockSizes.getD q 0) (l.charges.getD q [])) :=
  expand_eq_range _ _ [] h.sizes_len

/-- **sort keeps the charge of every index**, through the flat permutation it reports -/
theorem sort_toQflat {l : Leg} (h : l.Shape) (hc : l.CL0) (b : Bool) :
    (l.sort b).2.toQflat = (l.permFlatFromPermQind (l.sort b).1).map (l.toQflat.getD · []) := by
  rw [sort_eq]
  split
  · simp only
    rw [permFlat_map_getD h _ (by simp), ← toQflat_eq_range h]
  · have hcore : l.sortCore.toQflat =
        (l.permFlatFromPermQind (lexsort l.charges)).map (l.toQflat.getD · []) := by
      rw [permFlat_map_getD h _ (lexsort_lt l), sortCore_toQflat l]
    split
    · simp only
      rw [bunch_toQflat (sortCore_shape l) (fun h0 c hcm => hc h0 c (sortCore_charges_mem l c hcm)), hcore]
    · exact hcore

theorem sortCore_WF {l : Leg} (h : l.WF) : l.sortCore.WF :=
  ⟨sortCore_shape l, fun c hc => h.valid c (sortCore_charges_mem l c hc), h.mods, h.qconj⟩

theorem sortCore_flags (l : Leg) : l.sortCore.FlagsOK := by
  refine ⟨fun _ => ?_, fun hb => by simp [sortCore] at hb⟩
  rw [isSorted_iff]
  exact Or.inr (take?_lexsort_sorted l.charges)

theorem sort_WF {l : Leg} (h : l.WF) (b : Bool) : (l.sort b).2.WF := by
  rw [sort_eq]
  split
  · exact h
  · split
    · exact bunch_WF (sortCore_WF h)
    · exact sortCore_WF h

theorem sort_flags {l : Leg} (h : l.WF) (hf : l.FlagsOK) (b : Bool) : (l.sort b).2.FlagsOK := by
  rw [sort_eq]
  split
  · exact hf
  · split
    · exact bunch_flags (sortCore_WF h) (sortCore_flags l)
    · exact sortCore_flags l

/-- after `sort` the charges are sorted; after `sort(bunch=True)` also bunched -/
theorem sort_isSorted {l : Leg} (h : l.WF) (hf : l.FlagsOK) (b : Bool) :
    (l.sort b).2.isSorted = true ∧ (b = true → (l.sort b).2.isBunched = true) := by
  have hfl := sort_flags h hf b
  rw [sort_eq] at hfl ⊢
  split
  next hcond =>
    simp only [Bool.and_eq_true, Bool.or_eq_true, Bool.not_eq_true'] at hcond
    rw [if_pos (by simpa using hcond)] at hfl
    refine ⟨hf.1 hcond.1, fun hb => hf.2 ?_⟩
    rcases hcond.2 with h2 | h2
    · rw [hb] at h2; cases h2
    · exact h2
  next hcond =>
    rw [if_neg hcond] at hfl
    split
    next hb =>
      rw [if_pos hb] at hfl
      refine ⟨hfl.1 ?_, fun _ => bunch_isBunched (sortCore_WF h).cl0 (fun hx => by simp [sortCore] at hx)⟩
      rw [bunch_eq]
      rfl
    next hb =>
      rw [if_neg hb] at hfl
      exact ⟨hfl.1 rfl, fun hx => absurd hx hb⟩

/-! ### project -/

theorem splitAtSizes_length {α} (sizes : List Nat) (xs : List α) :
    (splitAtSizes sizes xs).length = sizes.length := by
  induction sizes generalizing xs with
  | nil => rfl
  | cons s ss ih => simp [splitAtSizes, ih]

theorem zip_replicate_filter {α} (c : α) (m : List Bool) :
    (((List.replicate m.length c).zip m).filter (·.2)).map (·.1) = List.replicate (m.count true) c := by
  induction m with
  | nil => rfl
  | cons b m ih =>
    cases b
    · simpa [List.replicate_succ] using ih
    · simpa [List.replicate_succ] using ih

/-- masks split per block, counted, and expanded = the flat charges filtered by the mask -/
theorem expand_project {α} (sizes : List Nat) (cs : List α) (mask : List Bool) (hl : sizes.length = cs.length)
    (hm : mask.length = sizes.sum) :
    expand ((splitAtSizes sizes mask).map (fun bm => bm.count true)) cs =
      (((expand sizes cs).zip mask).filter (·.2)).map (·.1) := by
  induction sizes generalizing cs mask with
  | nil => simp [splitAtSizes]
  | cons s ss ih =>
    cases cs with
    | nil => simp at hl
    | cons c cs =>
      simp only [List.sum_cons] at hm
      have hmt : (mask.take s).length = s := by rw [List.length_take]; omega
      have hmd : (mask.drop s).length = ss.sum := by rw [List.length_drop]; omega
      simp only [splitAtSizes, List.map_cons, expand_cons]
      rw [ih cs (mask.drop s) (by simpa using hl) hmd]
      conv => rhs; rw [← List.take_append_drop s mask]
      rw [List.zip_append (by simp [hmt]), List.filter_append, List.map_append]
      congr 1
      have := zip_replicate_filter c (mask.take s)
      rw [hmt] at this
      exact this.symm

/-- the projected leg, as assembled by `project` -/
theorem project_leg (l : Leg) (mask : List Bool) :
    (l.project mask).2.2 =
      (let lens := (splitAtSizes l.blockSizes mask).map (fun bm => bm.count true)
       let keep := (List.range lens.length).filter (fun i => lens.getD i 0 ≠ 0)
       { l with charges := take? l.charges keep [], slices := slicesOfSizes (take? lens keep 0),
                bunched := l.isBlocked }) := rfl

section project
variable (l : Leg) (mask : List Bool)

/-- block lengths after projection -/
def projLens : List Nat := (splitAtSizes l.blockSizes mask).map (fun bm => bm.count true)
/-- blocks kept by the projection -/
def projKeep : List Nat := (List.range (projLens l mask).length).filter (fun i => (projLens l mask).getD i 0 ≠ 0)

theorem projLens_length : (projLens l mask).length = l.blockSizes.length := by
  simp [projLens, splitAtSizes_length]

theorem projKeep_lt (h : l.Shape) : ∀ q ∈ projKeep l mask, q < l.charges.length := by
  intro q hq
  have := (List.mem_filter.1 hq).1
  rw [List.mem_range, projLens_length, h.sizes_len] at this
  exact this

theorem projKeep_sorted : (projKeep l mask).Pairwise (· < ·) :=
  List.Pairwise.filter _ List.pairwise_lt_range

theorem project_shape : (l.project mask).2.2.Shape :=
  shape_of_sizes _ _ _ _ _ _ (by simp [take?])

theorem project_blockSizes : (l.project mask).2.2.blockSizes = take? (projLens l mask) (projKeep l mask) 0 :=
  sizesOfSlices_slicesOfSizes _

theorem project_charges : (l.project mask).2.2.charges = take? l.charges (projKeep l mask) [] := rfl

/-- **project keeps the charge of every surviving index** -/
theorem project_toQflat (h : l.Shape) (hm : mask.length = l.indLen) :
    (l.project mask).2.2.toQflat = ((l.toQflat.zip mask).filter (·.2)).map (·.1) := by
  rw [Shape.toQflat_eq, project_blockSizes, project_charges, expand_take?]
  unfold projKeep
  rw [filter_flatMap_of_nil]
  · rw [projLens_length, h.sizes_len, blockNumber, ← expand_eq_range _ _ _ (by rw [projLens_length, h.sizes_len]; rfl)]
    exact expand_project _ _ _ h.sizes_len (by rw [hm, h.indLen_eq])
  · intro q _ hq
    simp only [ne_eq, decide_not, Bool.not_eq_false', decide_eq_true_eq] at hq
    rw [hq]; rfl

theorem project_charges_sublist (h : l.Shape) : (l.project mask).2.2.charges.Sublist l.charges :=
  take?_sublist _ _ _ (projKeep_sorted l mask) (projKeep_lt l mask h)

theorem project_WF (h : l.WF) : (l.project mask).2.2.WF :=
  ⟨project_shape l mask, fun c hc => h.valid c ((project_charges_sublist l mask h.shape).subset hc),
   h.mods, h.qconj⟩

end project

/-! ### `eraseDups` (used by `is_blocked`) -/

theorem eraseDups_length_le {α} [BEq α] (l : List α) : l.eraseDups.length ≤ l.length := by
  generalize hn : l.length = n
  induction n using Nat.strongRecOn generalizing l with
  | _ n ih =>
    cases l with
    | nil => simp
    | cons a as =>
      rw [List.eraseDups_cons]
      simp only [List.length_cons] at hn ⊢
      have h1 := List.length_filter_le (fun b => !b == a) as
      have := ih (as.filter (fun b => !b == a)).length (by omega) _ rfl
      omega

theorem nodup_of_eraseDups_length {α} [BEq α] [LawfulBEq α] (l : List α)
    (h : l.eraseDups.length = l.length) : l.Nodup := by
  generalize hn : l.length = n
  induction n using Nat.strongRecOn generalizing l with
  | _ n ih =>
    cases l with
    | nil => simp
    | cons a as =>
      rw [List.eraseDups_cons] at h
      simp only [List.length_cons] at hn h
      have h1 := List.length_filter_le (fun b => !b == a) as
      have h2 := eraseDups_length_le (as.filter (fun b => !b == a))
      have hfl : (as.filter (fun b => !b == a)).length = as.length := by omega
      have hfe : as.filter (fun b => !b == a) = as := List.filter_eq_self.2 (by
        have := (List.length_filter_eq_length_iff).1 hfl
        exact this)
      rw [hfe] at h
      refine List.nodup_cons.2 ⟨?_, ih as.length (by omega) as (by omega) rfl⟩
      intro hmem
      have := (List.filter_eq_self.1 hfe) a hmem
      simp at this

theorem noEqNbr_of_nodup (rows : List Charge) (h : rows.Nodup) : NoEqNbr rows := by
  intro k hk
  rw [getD_lt rows k [] (by omega), getD_lt rows (k + 1) [] hk]
  exact (List.pairwise_iff_getElem.1 h) k (k + 1) (by omega) hk (by omega)

theorem project_flags (l : Leg) (mask : List Bool) (h : l.WF) (hf : l.FlagsOK) : (l.project mask).2.2.FlagsOK := by
  have hsub := project_charges_sublist l mask h.shape
  have hWF := project_WF l mask h
  constructor
  · intro hs
    have hs0 : l.sorted = true := hs
    have := (isSorted_iff l).1 (hf.1 hs0)
    rw [isSorted_iff]
    rcases this with h0 | hp
    · exact Or.inl h0
    · exact Or.inr (hp.sublist hsub)
  · intro hb
    have hb0 : l.isBlocked = true := hb
    rw [isBunched_iff _ hWF.cl0]
    unfold isBlocked at hb0
    rw [Bool.or_eq_true, Bool.and_eq_true, beq_iff_eq] at hb0
    rcases hb0 with ⟨hs, hbu⟩ | hnd
    · have hsort := (isSorted_iff l).1 (hf.1 hs)
      have hbun := (isBunched_iff l h.cl0).1 (hf.2 hbu)
      rcases hsort with h0 | hp
      · -- no charges at all: all rows are `[]`, so there is at most one block
        have hle : l.charges.length ≤ 1 := by
          rcases Nat.lt_or_ge 1 l.charges.length with hgt | hle
          · exfalso
            apply hbun 0 (by omega)
            have e0 := h.charge_len _ (getD_mem l.charges 0 [] (by omega))
            have e1 := h.charge_len _ (getD_mem l.charges 1 [] (by omega))
            rw [h0] at e0 e1
            rw [List.length_eq_zero_iff.1 e0, List.length_eq_zero_iff.1 e1]
          · exact hle
        intro k hk
        have := hsub.length_le
        omega
      · exact noEqNbr_sublist_of_sorted _ _ hsub hp hbun
    · exact noEqNbr_of_nodup _ ((nodup_of_eraseDups_length _ hnd).sublist hsub)

/-! ### extend -/

theorem extend_slices {l e : Leg} (h : l.Shape) (he : e.Shape) :
    (l.extend e).slices = slicesOfSizes (l.blockSizes ++ e.blockSizes) := by
  show l.slices ++ e.slices.tail.map (· + l.indLen) = _
  rw [slicesOfSizes_append, ← h.canon, ← he.canon, h.indLen_eq]

theorem extend_shape {l e : Leg} (h : l.Shape) (he : e.Shape) : (l.extend e).Shape := by
  refine ⟨?_, ?_, ?_⟩
  · rw [extend_slices h he, slicesOfSizes_length]
    simp only [extend, mk', List.length_append, h.sizes_len, he.sizes_len, blockNumber]
    split <;> simp
  · rw [extend_slices h he]; rfl
  · rw [extend_slices h he]; exact slicesOfSizes_pairwise _

theorem extend_blockSizes {l e : Leg} (h : l.Shape) (he : e.Shape) :
    (l.extend e).blockSizes = l.blockSizes ++ e.blockSizes := by
  unfold blockSizes
  rw [extend_slices h he, sizesOfSlices_slicesOfSizes]
  rfl

/-- **extend keeps the charges of the old indices and appends those of `extra`** (sign-adjusted
when the directions differ) -/
theorem extend_toQflat {l e : Leg} (h : l.Shape) (he : e.Shape) :
    (l.extend e).toQflat = l.toQflat ++
      (if l.qconj = e.qconj then e.toQflat else e.toQflat.map (fun c => makeValid l.mods (cneg c))) := by
  rw [Shape.toQflat_eq, extend_blockSizes h he]
  show expand _ (l.charges ++ _) = _
  rw [expand_append _ _ _ _ h.sizes_len]
  congr 1
  split
  · rfl
  · rw [expand_map]; rfl

theorem extend_physQflat {l e : Leg} (h : l.Shape) (he : e.Shape) (hm : e.mods = l.mods)
    (hq : l.qconj = 1 ∨ l.qconj = -1) (hqe : e.qconj = 1 ∨ e.qconj = -1) :
    (l.extend e).physQflat = l.physQflat ++ e.physQflat := by
  unfold physQflat
  rw [extend_toQflat h he, List.map_append]
  show _ ++ List.map (fun c => makeValid l.mods (cscale l.qconj c)) _ = _
  congr 1
  split
  next heq => rw [hm, heq]
  next hne =>
    have : l.qconj = -e.qconj := by omega
    rw [List.map_map, hm]
    apply List.map_congr_left
    intro c _
    simp only [Function.comp]
    rw [this]
    exact flip_phys_charge l.mods e.qconj c

theorem extend_indLen {l e : Leg} (h : l.Shape) (he : e.Shape) : (l.extend e).indLen = l.indLen + e.indLen := by
  rw [(extend_shape h he).indLen_eq, extend_blockSizes h he, List.sum_append, h.indLen_eq, he.indLen_eq]

theorem extend_WF {l e : Leg} (h : l.WF) (he : e.WF) (hm : e.mods = l.mods) : (l.extend e).WF := by
  refine ⟨extend_shape h.shape he.shape, ?_, h.mods, h.qconj⟩
  intro c hc
  have hc' : c ∈ l.charges ++
      (if l.qconj = e.qconj then e.charges else e.charges.map (fun c => makeValid l.mods (cneg c))) := hc
  rcases List.mem_append.1 hc' with hcl | hce
  · exact h.valid c hcl
  · show checkValid l.mods c = true
    split at hce
    · rw [← hm]; exact he.valid c hce
    · obtain ⟨c0, hc0, rfl⟩ := List.mem_map.1 hce
      exact checkValid_makeValid _ h.mods _ (by rw [cneg_length, ← hm]; exact he.charge_len c0 hc0)

theorem flags_of_le_one (l : Leg) (hc : l.CL0) (h1 : l.charges.length ≤ 1) :
    l.isSorted = true ∧ l.isBunched = true := by
  constructor
  · rw [isSorted_iff]
    right
    rw [List.pairwise_iff_getElem]
    intro i j hi hj hij; omega
  · rw [isBunched_iff _ hc]
    intro k hk; omega

theorem extend_flags {l e : Leg} (h : l.WF) (he : e.WF) (hm : e.mods = l.mods) : (l.extend e).FlagsOK := by
  have hW := extend_WF h he hm
  constructor
  · intro hs
    have : (l.extend e).charges.length ≤ 1 := by
      have : decide ((l.extend e).charges.length ≤ 1) = true := hs
      simpa using this
    exact (flags_of_le_one _ hW.cl0 this).1
  · intro hs
    have : (l.extend e).charges.length ≤ 1 := by
      have : decide ((l.extend e).charges.length ≤ 1) = true := hs
      simpa using this
    exact (flags_of_le_one _ hW.cl0 this).2

/-! ### `perm_flat_from_perm_qind` is a permutation of the flat indices -/

theorem blocks_concat (s : List Nat) (n : Nat) (hn : n ≤ s.length) :
    (List.range n).flatMap (fun q => (List.range (s.getD q 0)).map (· + psum s q)) = List.range (psum s n) := by
  induction n with
  | zero => simp
  | succ n ih =>
    rw [List.range_succ, List.flatMap_append, ih (by omega), psum_succ s n (by omega), List.range_add]
    simp only [List.flatMap_cons, List.flatMap_nil, List.append_nil]
    congr 1
    apply List.map_congr_left
    intro x _; omega

theorem permFlat_range {l : Leg} (h : l.Shape) :
    l.permFlatFromPermQind (List.range l.blockNumber) = List.range l.indLen := by
  unfold permFlatFromPermQind
  rw [h.indLen_eq, ← psum_length, h.sizes_len, ← blocks_concat _ _ (by rw [h.sizes_len]; exact Nat.le_refl _)]
  apply flatMap_congr'
  intro q hq
  have hq' : q < l.blockNumber := by simpa using hq
  simp only
  rw [h.slices_succ q hq', Nat.add_sub_cancel_left, h.slices_getD q (Nat.le_of_lt hq')]

theorem perm_flatMap_left {α β} (f : α → List β) {l₁ l₂ : List α} (h : l₁.Perm l₂) :
    (l₁.flatMap f).Perm (l₂.flatMap f) := by
  induction h with
  | nil => exact List.Perm.refl _
  | cons x _ ih => simp only [List.flatMap_cons]; exact List.Perm.append_left _ ih
  | swap x y l =>
    simp only [List.flatMap_cons, ← List.append_assoc]
    exact List.Perm.append_right _ List.perm_append_comm
  | trans _ _ ih1 ih2 => exact ih1.trans ih2

theorem permFlat_perm {l : Leg} (h : l.Shape) (p : List Nat) (hp : p.Perm (List.range l.blockNumber)) :
    (l.permFlatFromPermQind p).Perm (List.range l.indLen) := by
  rw [← permFlat_range h]
  exact perm_flatMap_left _ hp

theorem length_filter_zip_snd {α} (a : List α) (m : List Bool) (h : a.length = m.length) :
    ((a.zip m).filter (·.2)).length = m.count true := by
  induction a generalizing m with
  | nil => cases m with
    | nil => rfl
    | cons _ _ => simp at h
  | cons x a ih =>
    cases m with
    | nil => simp at h
    | cons b m =>
      have := ih m (by simpa using h)
      cases b <;> simp [this]

end Leg
end TenpyModel.Core
