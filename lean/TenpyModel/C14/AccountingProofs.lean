import TenpyModel.C14.Accounting
import Mathlib.Tactic.Ring
import Mathlib.Algebra.Field.Rat
import Mathlib.Data.Rat.Cast.Defs
/-! Helper lemmas for the accounting state machines of C14. -/
namespace TenpyModel.C14

@[ext] theorem TErr.ext' {a b : TErr} (h1 : a.eps = b.eps) (h2 : a.ov = b.ov) : a = b := by
  cases a; cases b; simp_all

theorem TErr.add_assoc (a b c : TErr) : (a.add b).add c = a.add (b.add c) := by
  ext <;> simp only [TErr.add] <;> ring

theorem TErr.none_add (a : TErr) : TErr.none.add a = a := by
  ext <;> simp [TErr.add, TErr.none]

theorem TErr.add_none (a : TErr) : a.add TErr.none = a := by
  ext <;> simp [TErr.add, TErr.none]

theorem TErr.add_comm (a b : TErr) : a.add b = b.add a := by
  ext <;> simp only [TErr.add] <;> ring

theorem sumErr_append (a b : List TErr) : sumErr (a ++ b) = (sumErr a).add (sumErr b) := by
  induction a with
  | nil => simp [sumErr, TErr.none_add]
  | cons x xs ih => simp only [List.cons_append, sumErr, ih, TErr.add_assoc]

@[ext] theorem CTime.ext' {a b : CTime} (h1 : a.re = b.re) (h2 : a.im = b.im) : a = b := by
  cases a; cases b; simp_all

theorem CTime.add_assoc (a b c : CTime) : (a.add b).add c = a.add (b.add c) := by
  ext <;> simp only [CTime.add] <;> ring

theorem CTime.add_zero (a : CTime) : a.add ⟨0, 0⟩ = a := by
  ext <;> simp [CTime.add]

theorem CTime.nsmul_zero (t : CTime) : CTime.nsmul 0 t = ⟨0, 0⟩ := by
  ext <;> simp [CTime.nsmul]

theorem CTime.nsmul_one (t : CTime) : CTime.nsmul 1 t = t := by
  ext <;> simp [CTime.nsmul]

theorem CTime.nsmul_succ (n : Nat) (t : CTime) : CTime.nsmul (n + 1) t = (t.add (CTime.nsmul n t)) := by
  ext <;> simp only [CTime.nsmul, CTime.add] <;> push_cast <;> ring

/-- the inner loop adds the (mapped) first `k` errors of the stream and leaves the rest -/
theorem takeLoop_eq (f : TErr → TErr) (k : Nat) (acc : TErr) (s : List TErr) :
    takeLoop f k acc s = (acc.add (sumErr ((s.take k).map f)), s.drop k) := by
  induction k generalizing acc s with
  | zero => simp [takeLoop, sumErr, TErr.add_none]
  | succ k ih =>
    cases s with
    | nil => simp [takeLoop, sumErr, TErr.add_none]
    | cons e s =>
      simp only [takeLoop, ih, List.take_succ_cons, List.map_cons, sumErr, List.drop_succ_cons,
        TErr.add_assoc]

/-- a loop whose bodies each consume a fixed number of errors consumes the sum of those numbers -/
theorem sumOver_eq {β : Type} (f : TErr → TErr) (cnt : β → Nat) (body : β → List TErr → TErr × List TErr)
    (hb : ∀ x s, body x s = (sumErr ((s.take (cnt x)).map f), s.drop (cnt x)))
    (xs : List β) (acc : TErr) (s : List TErr) :
    sumOver body xs acc s
      = (acc.add (sumErr ((s.take (sumList (xs.map cnt))).map f)), s.drop (sumList (xs.map cnt))) := by
  induction xs generalizing acc s with
  | nil => simp [sumOver, sumList, sumErr, TErr.add_none]
  | cons x xs ih =>
    simp only [sumOver, hb, ih, List.map_cons, sumList]
    rw [List.take_add, List.map_append, sumErr_append, TErr.add_assoc, List.drop_drop]

theorem tdvpLoop_eq (nUpd n : Nat) (acc : TErr) (s : List TErr) :
    tdvpLoop nUpd n acc s
      = (acc.add (sumErr ((s.take (n * nUpd)).map tdvpErr)), s.drop (n * nUpd)) := by
  induction n generalizing acc s with
  | zero => simp [tdvpLoop, sumErr, TErr.add_none]
  | succ n ih =>
    simp only [tdvpLoop, takeLoop_eq, ih]
    rw [show (n + 1) * nUpd = nUpd + n * nUpd by ring, List.take_add, List.map_append, sumErr_append,
      TErr.add_assoc, List.drop_drop]

theorem sumList_replicate (n c : Nat) : sumList ((List.replicate n ()).map (fun _ => c)) = n * c := by
  induction n with
  | zero => simp [sumList]
  | succ n ih => simp only [List.replicate_succ, List.map_cons, sumList, ih]; ring

/-- `evolve` returns the sum of the first `evolveCount k N` errors of the stream -/
theorem evolveErrs_eq (k : Kind) (N : Nat) (s : List TErr) :
    evolveErrs k N s
      = (sumErr ((s.take (evolveCount k N)).map (errMap k)), s.drop (evolveCount k N)) := by
  cases k with
  | expMPO nU =>
    simp only [evolveErrs, evolveCount, errMap]
    rw [sumOver_eq id (fun _ => nU) _ (fun _ s => by simp [mpoStep, takeLoop_eq, TErr.none_add]),
      sumList_replicate, TErr.none_add]
  | tdvp nUpd =>
    simp only [evolveErrs, evolveCount, errMap, tdvpLoop_eq, TErr.none_add]
  | tebd tab L fin =>
    simp only [evolveErrs, evolveCount, errMap]
    rw [sumOver_eq id (fun st => (bondsOf L fin st.2).length) _
      (fun st s => by simp [tebdStep, takeLoop_eq, TErr.none_add]), TErr.none_add]

theorem evolve_time (v : Variant) (k : Kind) (e : Eng) (N : Nat) (dt : CTime) (s : List TErr) :
    (evolve v k e N dt s).1.time = e.time.add (dt.nsmul N) := by
  simp only [evolve, Eng.addErr]; split <;> rfl

theorem evolve_terr (v : Variant) (k : Kind) (e : Eng) (N : Nat) (dt : CTime) (s : List TErr) :
    (evolve v k e N dt s).1.terr
      = if evolveAdds v k then e.terr.add (sumErr ((s.take (evolveCount k N)).map (errMap k))) else e.terr := by
  simp only [evolve, Eng.addErr, evolveErrs_eq]; split <;> rfl

theorem evolve_ret (v : Variant) (k : Kind) (e : Eng) (N : Nat) (dt : CTime) (s : List TErr) :
    (evolve v k e N dt s).2
      = (sumErr ((s.take (evolveCount k N)).map (errMap k)), s.drop (evolveCount k N)) := by
  simp only [evolve, evolveErrs_eq]

/-- invariant of the time-dependent loop after `n` single steps -/
theorem tdLoop_eq (v : Variant) (k : Kind) (dt : CTime) (n : Nat) (e : Eng) (acc : TErr) (s : List TErr) :
    let c := evolveCount k 1
    let tot := sumErr ((s.take (n * c)).map (errMap k))
    (tdLoop v k dt n e acc s).1.time = e.time.add (dt.nsmul n) ∧
    (tdLoop v k dt n e acc s).1.terr = (if evolveAdds v k then e.terr.add tot else e.terr) ∧
    (tdLoop v k dt n e acc s).2 = (acc.add tot, s.drop (n * c)) := by
  induction n generalizing e acc s with
  | zero =>
    simp only [tdLoop, Nat.zero_mul, List.take_zero, List.map_nil, sumErr, TErr.add_none, List.drop_zero,
      CTime.nsmul_zero, CTime.add_zero, ite_self, and_self]
  | succ n ih =>
    have hsplit : (n + 1) * evolveCount k 1 = evolveCount k 1 + n * evolveCount k 1 := by ring
    simp only [tdLoop]
    obtain ⟨h1, h2, h3⟩ := ih (evolve v k e 1 dt s).1 (acc.add (evolve v k e 1 dt s).2.1) (evolve v k e 1 dt s).2.2
    refine ⟨?_, ?_, ?_⟩
    · rw [h1, evolve_time, CTime.nsmul_one, CTime.nsmul_succ, CTime.add_assoc]
    · rw [h2, evolve_terr, evolve_ret, hsplit, List.take_add, List.map_append, sumErr_append]
      split <;> simp [TErr.add_assoc]
    · rw [h3, evolve_ret, hsplit, List.take_add, List.map_append, sumErr_append, List.drop_drop,
        TErr.add_assoc]

theorem run_time (v : Variant) (k : Kind) (td : Bool) (e : Eng) (c : Call) :
    (run v k td e c).1.time = e.time.add (c.dt.nsmul c.N) := by
  unfold run
  split
  · have h := (tdLoop_eq v k c.dt c.N e TErr.none c.errs).1
    simp only [runEvolutionTD, Eng.addErr]
    split <;> simpa using h
  · simp only [runEvolution, Eng.addErr]
    split <;> simp [evolve_time]

/-- one `run()`: when exactly one of the two places on the path accumulates, `self.trunc_err` grows by
the sum of the errors of the truncations of that call -/
theorem run_terr (v : Variant) (k : Kind) (td : Bool) (hv : v.singleCount k td = true) (e : Eng) (c : Call) :
    (run v k td e c).1.terr
      = e.terr.add (sumErr ((c.errs.take (expectedCount k td c.N)).map (errMap k))) := by
  unfold run expectedCount
  cases td with
  | true =>
    obtain ⟨_, h2, h3⟩ := tdLoop_eq v k c.dt c.N e TErr.none c.errs
    simp only [Variant.singleCount, if_true] at hv ⊢
    simp only [runEvolutionTD, Eng.addErr]
    cases ha : evolveAdds v k <;> cases hr : v.tdRunEvolutionAdds <;> simp [ha, hr] at hv
    · simp [h2, h3, ha, TErr.none_add, List.map_take]
    · simp [h2, ha, List.map_take]
  | false =>
    simp only [Variant.singleCount] at hv
    simp only [runEvolution, Eng.addErr, Bool.false_eq_true, if_false]
    cases ha : evolveAdds v k <;> cases hr : v.runEvolutionAdds <;> simp [ha, hr] at hv
    · simp [evolve_terr, evolve_ret, ha]
    · simp [evolve_terr, ha]

end TenpyModel.C14
