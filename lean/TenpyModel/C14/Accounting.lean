import TenpyModel.C14.Trotter
/-
C14 — time and truncation-error bookkeeping of the time-evolution engines as state machines over
`Rat` (import-free model).  The numerical work (SVDs, Lanczos, MPO application) is abstracted to
the *stream of truncation errors it produces*: every function below consumes the errors of the
truncations it performs, in program order, from a `List TErr`, exactly where the Python code
receives them as return values.

Source anchors
  tenpy/linalg/truncation.py   TruncationError.__init__/__add__        TErr.none / TErr.add
  tenpy/algorithms/algorithm.py
      TimeEvolutionAlgorithm.run / run_evolution / evolve               run / runEvolution / evolve
      TimeDependentHAlgorithm.run_evolution                             runEvolutionTD (tdLoop)
  tenpy/algorithms/mpo_evolution.py  ExpMPOEvolution.evolve_step        Kind.expMPO
  tenpy/algorithms/tdvp.py           TDVPEngine.evolve                  Kind.tdvp  (tdvpLoop)
  tenpy/algorithms/tebd.py           TEBDEngine.evolve / evolve_step    Kind.tebd  (tebdStep)

Which of the methods contain the statement `self.trunc_err = self.trunc_err + trunc_err` is *data*
(`Variant`), regenerated from the source by tools/gen_C14.py into `Gen.C14.variant`.
-/
namespace TenpyModel.C14

/-- `TruncationError(eps, ov)` -/
structure TErr where
  eps : Rat
  ov  : Rat
deriving Repr, DecidableEq

/-- `TruncationError()` -/
def TErr.none : TErr := ⟨0, 1⟩

/-- `TruncationError.__add__` -/
def TErr.add (a b : TErr) : TErr := ⟨a.eps + b.eps, a.ov * b.ov⟩

/-- `evolved_time` (complex for imaginary-time steps) -/
structure CTime where
  re : Rat
  im : Rat
deriving Repr, DecidableEq

def CTime.add (a b : CTime) : CTime := ⟨a.re + b.re, a.im + b.im⟩
/-- `N_steps * dt` -/
def CTime.nsmul (n : Nat) (t : CTime) : CTime := ⟨(n : Rat) * t.re, (n : Rat) * t.im⟩

/-- the attributes of an engine that C14 is about -/
structure Eng where
  time : CTime      -- `self.evolved_time`
  terr : TErr       -- `self.trunc_err`
deriving Repr, DecidableEq

/-- which methods add the error they computed to `self.trunc_err` (regenerated from the source) -/
structure Variant where
  baseEvolveAdds     : Bool   -- TimeEvolutionAlgorithm.evolve
  tdvpEvolveAdds     : Bool   -- TDVPEngine.evolve
  tebdEvolveAdds     : Bool   -- TEBDEngine.evolve
  runEvolutionAdds   : Bool   -- TimeEvolutionAlgorithm.run_evolution
  tdRunEvolutionAdds : Bool   -- TimeDependentHAlgorithm.run_evolution
deriving Repr, DecidableEq

inductive Kind where
  /-- `ExpMPOEvolution`: `nU = len(self._U_MPO)` MPO applications per step (1 for order 1, 2 for order 2) -/
  | expMPO (nU : Nat)
  /-- TDVP engines: `nUpd = len(self.trunc_err_list)` after one sweep -/
  | tdvp (nUpd : Nat)
  /-- `TEBDEngine` (also the QR-based one): Trotter table of the order, `L = psi.L`,
  `finite` = "`Us[0] is None`" -/
  | tebd (tab : OrderTable) (L : Nat) (finite : Bool)

/-- `te += f(<next error>)`, `k` times, `te` carried in `acc`.  An exhausted stream ends the loop. -/
def takeLoop (f : TErr → TErr) : Nat → TErr → List TErr → TErr × List TErr
  | 0, acc, s => (acc, s)
  | _ + 1, acc, [] => (acc, [])
  | k + 1, acc, e :: s => takeLoop f k (acc.add (f e)) s

/-- `for x in xs: te += body(x)` where `body` consumes its errors from the stream -/
def sumOver {β : Type} (body : β → List TErr → TErr × List TErr) :
    List β → TErr → List TErr → TErr × List TErr
  | [], acc, s => (acc, s)
  | x :: xs, acc, s => sumOver body xs (acc.add (body x s).1) (body x s).2

/-- `for i_bond in np.arange(int(odd) % 2, L, 2): if Us[i_bond] is None: continue` -/
def bondsOf (L : Nat) (finite : Bool) (odd : Nat) : List Nat :=
  (List.range L).filter (fun i => i % 2 == odd % 2 && !(finite && i == 0))

/-- `TEBDEngine.evolve_step(U_idx_dt, odd)`: one `update_bond` per bond of that parity -/
def tebdStep (L : Nat) (finite : Bool) (st : Step) (s : List TErr) : TErr × List TErr :=
  takeLoop id (bondsOf L finite st.2).length TErr.none s

/-- `ExpMPOEvolution.evolve_step`: `for U_MPO in self._U_MPO: trunc_err += U_MPO.apply(psi, options)` -/
def mpoStep (nU : Nat) (s : List TErr) : TErr × List TErr := takeLoop id nU TErr.none s

/-- TDVP keeps only `err.eps` (`Sweep.post_update_local`) and rebuilds
`TruncationError(eps, 1 - 2 * eps)` in `TDVPEngine.evolve` -/
def tdvpErr (e : TErr) : TErr := ⟨e.eps, 1 - 2 * e.eps⟩

/-- `for _ in range(N_steps): self.sweep(); for eps in self.trunc_err_list: trunc_err += …` -/
def tdvpLoop (nUpd : Nat) : Nat → TErr → List TErr → TErr × List TErr
  | 0, acc, s => (acc, s)
  | n + 1, acc, s => tdvpLoop nUpd n (takeLoop tdvpErr nUpd acc s).1 (takeLoop tdvpErr nUpd acc s).2

/-- the local `trunc_err` that `evolve(N_steps, dt)` returns, and the rest of the stream -/
def evolveErrs : Kind → Nat → List TErr → TErr × List TErr
  | .expMPO nU, N, s => sumOver (fun (_ : Unit) => mpoStep nU) (List.replicate N ()) TErr.none s
  | .tdvp nUpd, N, s => tdvpLoop nUpd N TErr.none s
  | .tebd tab L fin, N, s => sumOver (tebdStep L fin) (decomposition tab N) TErr.none s

def evolveAdds (v : Variant) : Kind → Bool
  | .expMPO _ => v.baseEvolveAdds
  | .tdvp _ => v.tdvpEvolveAdds
  | .tebd _ _ _ => v.tebdEvolveAdds

def Eng.addErr (b : Bool) (e : Eng) (te : TErr) : Eng :=
  if b then { e with terr := e.terr.add te } else e

/-- `evolve(N_steps, dt)` of the engine: returns the new attributes, the returned error, the rest
of the stream.  (`dt` is `self._U_param['tau']` for TEBD, which `prepare_evolve` sets to `dt`.) -/
def evolve (v : Variant) (k : Kind) (e : Eng) (N : Nat) (dt : CTime) (s : List TErr) :
    Eng × TErr × List TErr :=
  let r := evolveErrs k N s
  (Eng.addErr (evolveAdds v k) { e with time := e.time.add (dt.nsmul N) } r.1, r.1, r.2)

/-- `TimeEvolutionAlgorithm.run_evolution` -/
def runEvolution (v : Variant) (k : Kind) (e : Eng) (N : Nat) (dt : CTime) (s : List TErr) :
    Eng × List TErr :=
  let r := evolve v k e N dt s
  (Eng.addErr v.runEvolutionAdds r.1 r.2.1, r.2.2)

/-- the loop of `TimeDependentHAlgorithm.run_evolution`:
`for _ in range(N_steps): prepare_evolve(dt); trunc_err += self.evolve(1, dt); reinit_model()` -/
def tdLoop (v : Variant) (k : Kind) (dt : CTime) : Nat → Eng → TErr → List TErr → Eng × TErr × List TErr
  | 0, e, acc, s => (e, acc, s)
  | n + 1, e, acc, s =>
    tdLoop v k dt n (evolve v k e 1 dt s).1 (acc.add (evolve v k e 1 dt s).2.1) (evolve v k e 1 dt s).2.2

/-- `TimeDependentHAlgorithm.run_evolution` -/
def runEvolutionTD (v : Variant) (k : Kind) (e : Eng) (N : Nat) (dt : CTime) (s : List TErr) :
    Eng × List TErr :=
  let r := tdLoop v k dt N e TErr.none s
  (Eng.addErr v.tdRunEvolutionAdds r.1 r.2.1, r.2.2)

/-- one call of `run()`: the options `N_steps`, `dt` at that moment and the errors of the truncations
performed during the call -/
structure Call where
  N    : Nat
  dt   : CTime
  errs : List TErr
deriving Repr

/-- `TimeEvolutionAlgorithm.run` (the bookkeeping part); `td` = engine derives from
`TimeDependentHAlgorithm` -/
def run (v : Variant) (k : Kind) (td : Bool) (e : Eng) (c : Call) : Eng × List TErr :=
  if td then runEvolutionTD v k e c.N c.dt c.errs else runEvolution v k e c.N c.dt c.errs

def runCalls (v : Variant) (k : Kind) (td : Bool) (e : Eng) (calls : List Call) : Eng :=
  calls.foldl (fun e c => (run v k td e c).1) e

/-- attributes after each call (what the harness compares) -/
def runTrace (v : Variant) (k : Kind) (td : Bool) : Eng → List Call → List (Eng × Nat)
  | _, [] => []
  | e, c :: cs => ((run v k td e c).1, (run v k td e c).2.length) :: runTrace v k td (run v k td e c).1 cs

/-- number of truncations one `evolve(N, dt)` performs -/
def evolveCount : Kind → Nat → Nat
  | .expMPO nU, N => N * nU
  | .tdvp nUpd, N => N * nUpd
  | .tebd tab L fin, N => sumList ((decomposition tab N).map (fun st => (bondsOf L fin st.2).length))

/-- number of truncations one `run()` with `N_steps = N` performs -/
def expectedCount (k : Kind) (td : Bool) (N : Nat) : Nat :=
  if td then N * evolveCount k 1 else evolveCount k N

/-- `(U_idx_dt, i_bond)` of the successive `update_bond` calls of `TEBDEngine.evolve(N, dt)`
(`self._update_index`) -/
def tebdUpdates (tab : OrderTable) (L : Nat) (fin : Bool) (N : Nat) : List (Nat × Nat) :=
  (decomposition tab N).flatMap (fun st => (bondsOf L fin st.2).map (fun i => (st.1, i)))

/-- the five places are consistent for engine kind `k`: on the path of a `run()` exactly one of
"evolve adds" and "run_evolution adds" holds -/
def Variant.singleCount (v : Variant) (k : Kind) (td : Bool) : Bool :=
  xor (evolveAdds v k) (if td then v.tdRunEvolutionAdds else v.runEvolutionAdds)

/-- flat sum of a list of errors -/
def sumErr : List TErr → TErr
  | [] => TErr.none
  | e :: r => e.add (sumErr r)

/-- what the engine does to each error before adding it -/
def errMap : Kind → TErr → TErr
  | .tdvp _ => tdvpErr
  | _ => id

def sumTime : List CTime → CTime
  | [] => ⟨0, 0⟩
  | t :: r => t.add (sumTime r)

end TenpyModel.C14
