import TenpyModel.C14.P2_Dense
/-!
# C14 (Props2) — charge-conserving (block-diagonal, `qtotal = 0`) gates

A charge assignment is any function `q : ι → Q` from basis states to a type of charges.  A matrix is
*charge conserving* when its non-zero entries connect basis states of equal charge (a `npc.Array` with
`qtotal = 0`: every stored block has `q_row = q_col`), a state lies in sector `c` when all its non-zero
amplitudes have charge `c` (`psi.get_total_charge() == c`).
-/
set_option linter.unusedSectionVars false

namespace TenpyModel.C14

open Matrix

variable {ι 𝕜 Q : Type}

/-- `M i j ≠ 0 → q i = q j` -/
def ChargeConserving [Zero 𝕜] (q : ι → Q) (M : Matrix ι ι 𝕜) : Prop := ∀ i j, M i j ≠ 0 → q i = q j

/-- `ψ i ≠ 0 → q i = c` -/
def InSector [Zero 𝕜] (q : ι → Q) (c : Q) (ψ : ι → 𝕜) : Prop := ∀ i, ψ i ≠ 0 → q i = c

theorem chargeConserving_iff [Zero 𝕜] (q : ι → Q) (M : Matrix ι ι 𝕜) :
    ChargeConserving q M ↔ ∀ ij : ι × ι, M ij.1 ij.2 = 0 ∨ q ij.1 = q ij.2 := by
  constructor
  · intro h ij
    by_cases h0 : M ij.1 ij.2 = 0
    · exact Or.inl h0
    · exact Or.inr (h ij.1 ij.2 h0)
  · intro h i j hne
    exact (h (i, j)).resolve_left hne

theorem inSector_iff [Zero 𝕜] (q : ι → Q) (c : Q) (ψ : ι → 𝕜) :
    InSector q c ψ ↔ ∀ i, ψ i = 0 ∨ q i = c := by
  constructor
  · intro h i
    by_cases h0 : ψ i = 0
    · exact Or.inl h0
    · exact Or.inr (h i h0)
  · intro h i hne
    exact (h i).resolve_left hne

instance [Fintype ι] [Zero 𝕜] [DecidableEq 𝕜] [DecidableEq Q] (q : ι → Q) (M : Matrix ι ι 𝕜) :
    Decidable (ChargeConserving q M) := decidable_of_iff _ (chargeConserving_iff q M).symm

instance [Fintype ι] [Zero 𝕜] [DecidableEq 𝕜] [DecidableEq Q] (q : ι → Q) (c : Q) (ψ : ι → 𝕜) :
    Decidable (InSector q c ψ) := decidable_of_iff _ (inSector_iff q c ψ).symm

section
variable [Fintype ι] [NonUnitalNonAssocSemiring 𝕜]

theorem chargeConserving_mul (q : ι → Q) (A B : Matrix ι ι 𝕜) (hA : ChargeConserving q A)
    (hB : ChargeConserving q B) : ChargeConserving q (A * B) := by
  intro i k h
  rw [Matrix.mul_apply] at h
  obtain ⟨j, _, hj⟩ := Finset.exists_ne_zero_of_sum_ne_zero h
  have ha : A i j ≠ 0 := fun h0 => hj (by rw [h0, zero_mul])
  have hb : B j k ≠ 0 := fun h0 => hj (by rw [h0, mul_zero])
  exact (hA i j ha).trans (hB j k hb)

theorem inSector_mulVec (q : ι → Q) (c : Q) (A : Matrix ι ι 𝕜) (hA : ChargeConserving q A) (ψ : ι → 𝕜)
    (hψ : InSector q c ψ) : InSector q c (A *ᵥ ψ) := by
  intro i h
  rw [Matrix.mulVec, dotProduct] at h
  obtain ⟨j, _, hj⟩ := Finset.exists_ne_zero_of_sum_ne_zero h
  have ha : A i j ≠ 0 := fun h0 => hj (by rw [h0, zero_mul])
  have hb : ψ j ≠ 0 := fun h0 => hj (by rw [h0, mul_zero])
  exact (hA i j ha).trans (hψ j hb)

end

theorem chargeConserving_one [DecidableEq ι] [Zero 𝕜] [One 𝕜] (q : ι → Q) :
    ChargeConserving q (1 : Matrix ι ι 𝕜) := by
  intro i j h
  by_cases hij : i = j
  · rw [hij]
  · exact absurd (Matrix.one_apply_ne hij) h

/-- the charge-conserving matrices form a submonoid -/
def chargeSubmonoid [Fintype ι] [DecidableEq ι] [Semiring 𝕜] (q : ι → Q) : Submonoid (Matrix ι ι 𝕜) where
  carrier := {M | ChargeConserving q M}
  mul_mem' := fun hA hB => chargeConserving_mul q _ _ hA hB
  one_mem' := chargeConserving_one q

/-! ### embedding: `1 ⊗ U ⊗ 1` conserves `qL + qU + qR` -/

section embed
open Kronecker
variable {l m r : Type} [DecidableEq l] [DecidableEq r]

/-- total charge of a basis state `((left, gate legs), right)` -/
def qTotal [Add Q] (qL : l → Q) (qU : m → Q) (qR : r → Q) : (l × m) × r → Q :=
  fun x => qL x.1.1 + qU x.1.2 + qR x.2

theorem embedK_chargeConserving [MulZeroOneClass 𝕜] [Add Q] (qL : l → Q) (qU : m → Q) (qR : r → Q)
    (U : Matrix m m 𝕜) (hU : ChargeConserving qU U) :
    ChargeConserving (qTotal qL qU qR) (embedK l r U) := by
  rintro ⟨⟨a, b⟩, c⟩ ⟨⟨a', b'⟩, c'⟩ h
  simp only [embedK, kronecker_apply] at h
  have hc : c = c' := by
    by_contra hne
    exact h (by rw [Matrix.one_apply_ne hne, mul_zero])
  have ha : a = a' := by
    by_contra hne
    exact h (by rw [Matrix.one_apply_ne hne, zero_mul, zero_mul])
  have hb : U b b' ≠ 0 := fun h0 => h (by rw [h0, mul_zero, zero_mul])
  simp only [qTotal, ha, hc, hU b b' hb]

theorem embedGate_chargeConserving [MulZeroOneClass 𝕜] [Add Q] (e : ι ≃ (l × m) × r) (qL : l → Q)
    (qU : m → Q) (qR : r → Q) (U : Matrix m m 𝕜) (hU : ChargeConserving qU U) :
    ChargeConserving (fun i => qTotal qL qU qR (e i)) (embedGate e U) := by
  intro i j h
  exact embedK_chargeConserving qL qU qR U hU (e i) (e j) h

/-- two-site charge: `q(s₁, s₂) = q_site(s₁) + q_site'(s₂)` -/
def qPair {s s' : Type} [Add Q] (qa : s → Q) (qb : s' → Q) : s × s' → Q := fun x => qa x.1 + qb x.2

end embed

end TenpyModel.C14
