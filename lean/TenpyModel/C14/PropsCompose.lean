import TenpyModel.C14.FuseProofs
import TenpyModel.C14.PropsSchedule
/-!
# C14 — the merged Trotter schedule is the `N`-fold composition of the single step

`suzuki_trotter_decomposition(order, N)` is documented as `[a b a] * N = a b [a2 b] * (N-1) a`: the last
half step of one time step and the first half step of the next act on the same (odd) bonds and are merged into
one gate with the summed time.  `fuse` is the canonical form of a product of exponentials under exactly that
rule (`exp(t₁ H_k) exp(t₂ H_k) = exp((t₁+t₂) H_k)` for neighbouring factors of equal parity), so equality of
the fused lists means: **the schedule for `N` steps is, factor by factor, the schedule for one step applied `N`
times** — in particular the operator applied is `U(dt)^N`, whatever the model.
-/
open TenpyModel.C14 TenpyModel.Gen.C14

namespace TenpyModel.C14

def Composes (t : OrderTable) : Prop :=
  ∀ {α : Type} [Field α] [CharZero α] (c : Nat → α) (N : Nat),
    fuse (timed (t.times c) (decomposition t N))
      = fuse (timed (t.times c) (repeatList N (decomposition t 1)))

theorem decomposition_one3 (t : OrderTable) (l1 l2 l3 : List Step)
    (h : t.segs = [⟨l1, .const 1⟩, ⟨l2, .nMinus 1⟩, ⟨l3, .const 1⟩]) : decomposition t 1 = l1 ++ l3 := by
  simp [decomposition, h, expand, Rep.count, repeatList]

end TenpyModel.C14

theorem C14_schedule_composes_order1 : Composes table_1 := by
  intro α _ _ c N
  cases N with
  | zero => rfl
  | succ k => simp [decomposition, table_1, segs_1, expand, Rep.count, repeatList]

theorem C14_schedule_composes_order2 : Composes table_2 := by
  intro α _ _ c N
  cases N with
  | zero => rfl
  | succ k =>
    rw [decomposition_succ, decomposition_one3 table_2 _ _ _ rfl]
    refine fuse_expand3 _ _ _ _ 1 _ _ _ rfl rfl rfl ?_ (by simp) ?_ k
    · simp [table_2, timeSteps_2, OrderTable.times, CExpr.eval]; ring
    · intro x; simp [altP]

theorem C14_schedule_composes_order4 : Composes table_4 := by
  intro α _ _ c N
  cases N with
  | zero => rfl
  | succ k =>
    rw [decomposition_succ, decomposition_one3 table_4 _ _ _ rfl]
    refine fuse_expand3 _ _ _ _ 1 _ _ _ rfl rfl rfl ?_ (by simp) ?_ k
    · simp [table_4, timeSteps_4, OrderTable.times, CExpr.eval]; ring
    · intro x; simp [altP]

theorem C14_schedule_composes_order4opt : Composes table_4opt := by
  intro α _ _ c N
  cases N with
  | zero => rfl
  | succ k =>
    rw [decomposition_succ, decomposition_one3 table_4opt _ _ _ rfl]
    refine fuse_expand3 _ _ _ _ 1 _ _ _ rfl rfl rfl ?_ (by simp) ?_ k
    · simp [table_4opt, timeSteps_4opt, OrderTable.times, CExpr.eval]; ring
    · intro x; simp [altP]

/-- **Every order, every `N_steps`**: after merging neighbouring gates of equal parity (adding their times),
`suzuki_trotter_decomposition(order, N_steps)` and `N_steps` copies of `suzuki_trotter_decomposition(order, 1)`
are the same list of `(time, parity)` factors. -/
theorem C14_schedule_composes : ∀ t ∈ tables, Composes t := by
  intro t ht
  simp only [tables, List.mem_cons, List.not_mem_nil, or_false] at ht
  rcases ht with rfl | rfl | rfl | rfl
  · exact C14_schedule_composes_order1
  · exact C14_schedule_composes_order2
  · exact C14_schedule_composes_order4
  · exact C14_schedule_composes_order4opt

/-- non-vacuity: order 2, three steps, over ℚ: both sides are `[½ odd, 1 even, 1 odd, 1 even, 1 odd, 1 even, ½ odd]` -/
example : fuse (timed (table_2.times (fun _ => (0 : ℚ))) (repeatList 3 (decomposition table_2 1)))
    = [(1/2, 1), (1, 0), (1, 1), (1, 0), (1, 1), (1, 0), (1/2, 1)] := by
  simp [decomposition, table_2, segs_2, timeSteps_2, OrderTable.times, CExpr.eval, expand, Rep.count, repeatList,
    timed, fuse, fuseAux]
  norm_num
