import TenpyModel.C14.Accounting
import Mathlib.LinearAlgebra.UnitaryGroup
import Mathlib.LinearAlgebra.Matrix.Kronecker
import Mathlib.LinearAlgebra.Matrix.ConjTranspose
/-!
# C14 (Props2) — dense model of `TEBDEngine.evolve` and the unitarity / isometry lemmas

`TEBDEngine.evolve(N_steps, dt)` runs over `suzuki_trotter_decomposition(order, N_steps)`; for every step
`(U_idx_dt, odd)` `evolve_step` runs over the bonds `np.arange(odd % 2, L, 2)` (skipping `Us[i_bond] is None`)
and `update_bond(i_bond, self._U[U_idx_dt][i_bond])` contracts the two-site gate into the state.  Without
truncation that is the application of the full-space operator `1 ⊗ U_{j,bond} ⊗ 1` to the state vector.

Here the state is a vector `ψ : ι → 𝕜` over a commutative star ring (ℂ, ℝ, any `RCLike`, ℤ[i], …), the
full-space operator of the gate `self._U[j][b]` is a matrix `G j b : Matrix ι ι 𝕜`, and the schedule and the
bond lists are the *existing* executable models `decomposition` (Trotter.lean) and `bondsOf` (Accounting.lean).
-/
set_option linter.unusedSectionVars false

namespace TenpyModel.C14

open Matrix

variable {ι 𝕜 : Type} [Fintype ι] [DecidableEq ι]

section apply
variable [NonUnitalNonAssocSemiring 𝕜]

/-- successive `update_bond(b, G j b)` for the bonds `bs` (in that order): `evolve_step(j, ·)` -/
def applyBonds (G : Nat → Nat → Matrix ι ι 𝕜) (j : Nat) (bs : List Nat) (ψ : ι → 𝕜) : ι → 𝕜 :=
  bs.foldl (fun φ b => G j b *ᵥ φ) ψ

/-- `for U_idx_dt, odd in steps: evolve_step(U_idx_dt, odd)`; `bonds par` = bonds updated by a step of
parity `par` -/
def applySteps (G : Nat → Nat → Matrix ι ι 𝕜) (bonds : Nat → List Nat) (steps : List Step) (ψ : ι → 𝕜) :
    ι → 𝕜 :=
  steps.foldl (fun φ st => applyBonds G st.1 (bonds st.2) φ) ψ

/-- dense (truncation-free) `TEBDEngine.evolve(N, dt)` for the order with table `t` on `L` sites -/
def evolveDense (G : Nat → Nat → Matrix ι ι 𝕜) (t : OrderTable) (L : Nat) (finite : Bool) (N : Nat)
    (ψ : ι → 𝕜) : ι → 𝕜 :=
  applySteps G (bondsOf L finite) (decomposition t N) ψ

theorem applyBonds_nil (G : Nat → Nat → Matrix ι ι 𝕜) (j : Nat) (ψ : ι → 𝕜) : applyBonds G j [] ψ = ψ := rfl

theorem applyBonds_cons (G : Nat → Nat → Matrix ι ι 𝕜) (j b : Nat) (bs : List Nat) (ψ : ι → 𝕜) :
    applyBonds G j (b :: bs) ψ = applyBonds G j bs (G j b *ᵥ ψ) := rfl

theorem applySteps_nil (G : Nat → Nat → Matrix ι ι 𝕜) (bonds : Nat → List Nat) (ψ : ι → 𝕜) :
    applySteps G bonds [] ψ = ψ := rfl

theorem applySteps_cons (G : Nat → Nat → Matrix ι ι 𝕜) (bonds : Nat → List Nat) (st : Step)
    (steps : List Step) (ψ : ι → 𝕜) :
    applySteps G bonds (st :: steps) ψ = applySteps G bonds steps (applyBonds G st.1 (bonds st.2) ψ) := rfl

theorem applySteps_append (G : Nat → Nat → Matrix ι ι 𝕜) (bonds : Nat → List Nat) (s₁ s₂ : List Step)
    (ψ : ι → 𝕜) : applySteps G bonds (s₁ ++ s₂) ψ = applySteps G bonds s₂ (applySteps G bonds s₁ ψ) := by
  simp [applySteps, List.foldl_append]

/-- the dense evolution is the fold of `G j b *ᵥ ·` over the `(U_idx_dt, i_bond)` sequence of the
`update_bond` calls (`tebdUpdates`, which the harness compares with `self._update_index`) -/
theorem evolveDense_eq_foldl_updates (G : Nat → Nat → Matrix ι ι 𝕜) (t : OrderTable) (L : Nat)
    (finite : Bool) (N : Nat) (ψ : ι → 𝕜) :
    evolveDense G t L finite N ψ = (tebdUpdates t L finite N).foldl (fun φ u => G u.1 u.2 *ᵥ φ) ψ := by
  unfold evolveDense tebdUpdates applySteps
  generalize decomposition t N = steps
  induction steps generalizing ψ with
  | nil => rfl
  | cons st r ih =>
    simp only [List.foldl_cons, List.flatMap_cons, List.foldl_append, ih]
    congr 1
    simp [applyBonds, List.foldl_map]

end apply

/-! ### an invariant of the state that every gate preserves is preserved by every schedule -/

section invariant
variable [NonUnitalNonAssocSemiring 𝕜]

theorem applyBonds_invariant (P : (ι → 𝕜) → Prop) (G : Nat → Nat → Matrix ι ι 𝕜)
    (hG : ∀ j b φ, P φ → P (G j b *ᵥ φ)) (j : Nat) (bs : List Nat) (ψ : ι → 𝕜) (h : P ψ) :
    P (applyBonds G j bs ψ) := by
  induction bs generalizing ψ with
  | nil => exact h
  | cons b r ih => exact ih _ (hG j b ψ h)

theorem applySteps_invariant (P : (ι → 𝕜) → Prop) (G : Nat → Nat → Matrix ι ι 𝕜)
    (hG : ∀ j b φ, P φ → P (G j b *ᵥ φ)) (bonds : Nat → List Nat) (steps : List Step) (ψ : ι → 𝕜)
    (h : P ψ) : P (applySteps G bonds steps ψ) := by
  induction steps generalizing ψ with
  | nil => exact h
  | cons st r ih => exact ih _ (applyBonds_invariant P G hG st.1 _ ψ h)

end invariant

/-! ### the operator of a schedule as one matrix -/

section operator
variable [Semiring 𝕜]

/-- the operator of one `evolve_step`: later bonds multiply from the left -/
def bondsMatrix (G : Nat → Nat → Matrix ι ι 𝕜) (j : Nat) (bs : List Nat) : Matrix ι ι 𝕜 :=
  bs.foldl (fun M b => G j b * M) 1

/-- the operator of a whole schedule -/
def stepsMatrix (G : Nat → Nat → Matrix ι ι 𝕜) (bonds : Nat → List Nat) (steps : List Step) :
    Matrix ι ι 𝕜 :=
  steps.foldl (fun M st => bs_foldl G st.1 (bonds st.2) M) 1
where
  /-- multiply the gates of one step onto an accumulated operator -/
  bs_foldl (G : Nat → Nat → Matrix ι ι 𝕜) (j : Nat) (bs : List Nat) (M : Matrix ι ι 𝕜) : Matrix ι ι 𝕜 :=
    bs.foldl (fun M b => G j b * M) M

theorem applyBonds_eq_mulVec (G : Nat → Nat → Matrix ι ι 𝕜) (j : Nat) (bs : List Nat) (M : Matrix ι ι 𝕜)
    (ψ : ι → 𝕜) : applyBonds G j bs (M *ᵥ ψ) = stepsMatrix.bs_foldl G j bs M *ᵥ ψ := by
  induction bs generalizing M with
  | nil => rfl
  | cons b r ih =>
    show applyBonds G j r (G j b *ᵥ (M *ᵥ ψ)) = stepsMatrix.bs_foldl G j r (G j b * M) *ᵥ ψ
    rw [mulVec_mulVec, ih]

theorem applySteps_eq_mulVec_aux (G : Nat → Nat → Matrix ι ι 𝕜) (bonds : Nat → List Nat)
    (steps : List Step) (M : Matrix ι ι 𝕜) (ψ : ι → 𝕜) :
    applySteps G bonds steps (M *ᵥ ψ)
      = steps.foldl (fun M st => stepsMatrix.bs_foldl G st.1 (bonds st.2) M) M *ᵥ ψ := by
  induction steps generalizing M with
  | nil => rfl
  | cons st r ih =>
    show applySteps G bonds r (applyBonds G st.1 (bonds st.2) (M *ᵥ ψ)) = _
    rw [applyBonds_eq_mulVec, ih]; rfl

/-- running the schedule = multiplying by the schedule's operator -/
theorem applySteps_eq_mulVec (G : Nat → Nat → Matrix ι ι 𝕜) (bonds : Nat → List Nat) (steps : List Step)
    (ψ : ι → 𝕜) : applySteps G bonds steps ψ = stepsMatrix G bonds steps *ᵥ ψ := by
  have := applySteps_eq_mulVec_aux G bonds steps 1 ψ
  rwa [one_mulVec] at this

/-- a multiplicatively closed set of matrices containing all gates contains the schedule's operator -/
theorem stepsMatrix_mem (S : Submonoid (Matrix ι ι 𝕜)) (G : Nat → Nat → Matrix ι ι 𝕜)
    (hG : ∀ j b, G j b ∈ S) (bonds : Nat → List Nat) (steps : List Step) :
    stepsMatrix G bonds steps ∈ S := by
  have hb : ∀ (j : Nat) (bs : List Nat) (M : Matrix ι ι 𝕜), M ∈ S → stepsMatrix.bs_foldl G j bs M ∈ S := by
    intro j bs
    induction bs with
    | nil => intro M hM; exact hM
    | cons b r ih => intro M hM; exact ih _ (S.mul_mem (hG j b) hM)
  have hs : ∀ (steps : List Step) (M : Matrix ι ι 𝕜), M ∈ S →
      steps.foldl (fun M st => stepsMatrix.bs_foldl G st.1 (bonds st.2) M) M ∈ S := by
    intro steps
    induction steps with
    | nil => intro M hM; exact hM
    | cons st r ih => intro M hM; exact ih _ (hb _ _ _ hM)
  exact hs steps 1 S.one_mem

end operator

/-! ### isometry -/

section isometry
variable [CommRing 𝕜] [StarRing 𝕜]

/-- `‖ψ‖²` as an element of the star ring: `Σᵢ star (ψ i) * ψ i` -/
def normSq (ψ : ι → 𝕜) : 𝕜 := star ψ ⬝ᵥ ψ

/-- `Uᴴ U = 1 → ⟨Uφ, Uψ⟩ = ⟨φ, ψ⟩` -/
theorem inner_mulVec_of_isometry (U : Matrix ι ι 𝕜) (hU : star U * U = 1) (φ ψ : ι → 𝕜) :
    star (U *ᵥ φ) ⬝ᵥ (U *ᵥ ψ) = star φ ⬝ᵥ ψ := by
  rw [star_mulVec, dotProduct_mulVec, vecMul_vecMul, ← star_eq_conjTranspose, hU, vecMul_one]

theorem normSq_mulVec_of_isometry (U : Matrix ι ι 𝕜) (hU : star U * U = 1) (ψ : ι → 𝕜) :
    normSq (U *ᵥ ψ) = normSq ψ := inner_mulVec_of_isometry U hU ψ ψ

theorem normSq_mulVec_of_unitary (U : Matrix ι ι 𝕜) (hU : U ∈ Matrix.unitaryGroup ι 𝕜) (ψ : ι → 𝕜) :
    normSq (U *ᵥ ψ) = normSq ψ := normSq_mulVec_of_isometry U (mem_unitaryGroup_iff'.mp hU) ψ

end isometry

/-! ### embedding of a gate: `1 ⊗ U ⊗ 1` -/

section embed
open Kronecker
variable {l m r : Type} [Fintype l] [DecidableEq l] [Fintype m] [DecidableEq m] [Fintype r] [DecidableEq r]

/-- `1 ⊗ U ⊗ 1` on the index set `(l × m) × r` (left spectators, gate legs, right spectators) -/
def embedK [MulZeroOneClass 𝕜] (l r : Type) [DecidableEq l] [DecidableEq r] (U : Matrix m m 𝕜) :
    Matrix ((l × m) × r) ((l × m) × r) 𝕜 :=
  ((1 : Matrix l l 𝕜) ⊗ₖ U) ⊗ₖ (1 : Matrix r r 𝕜)

/-- the same transported to the index set `ι` of the full space along a splitting
`ι ≃ (left × gate) × right` -/
def embedGate [MulZeroOneClass 𝕜] (e : ι ≃ (l × m) × r) (U : Matrix m m 𝕜) : Matrix ι ι 𝕜 :=
  (embedK l r U).submatrix e e

theorem embedK_mul [CommSemiring 𝕜] (A B : Matrix m m 𝕜) :
    embedK l r A * embedK l r B = embedK l r (A * B) := by
  unfold embedK
  rw [← mul_kronecker_mul, ← mul_kronecker_mul, one_mul, one_mul]

theorem embedK_one [CommSemiring 𝕜] : embedK l r (1 : Matrix m m 𝕜) = 1 := by
  unfold embedK
  rw [one_kronecker_one, one_kronecker_one]

theorem star_embedK [CommSemiring 𝕜] [StarRing 𝕜] (U : Matrix m m 𝕜) :
    star (embedK l r U) = embedK l r (star U) := by
  unfold embedK
  rw [star_eq_conjTranspose, conjTranspose_kronecker, conjTranspose_kronecker, conjTranspose_one,
    conjTranspose_one, ← star_eq_conjTranspose]

theorem embedK_unitary [CommRing 𝕜] [StarRing 𝕜] (U : Matrix m m 𝕜) (hU : U ∈ Matrix.unitaryGroup m 𝕜) :
    embedK l r U ∈ Matrix.unitaryGroup ((l × m) × r) 𝕜 := by
  rw [mem_unitaryGroup_iff'] at hU ⊢
  rw [star_embedK, embedK_mul, hU, embedK_one]

theorem embedGate_unitary [CommRing 𝕜] [StarRing 𝕜] (e : ι ≃ (l × m) × r) (U : Matrix m m 𝕜)
    (hU : U ∈ Matrix.unitaryGroup m 𝕜) : embedGate e U ∈ Matrix.unitaryGroup ι 𝕜 := by
  have h := mem_unitaryGroup_iff'.mp (embedK_unitary (l := l) (r := r) U hU)
  rw [mem_unitaryGroup_iff']
  unfold embedGate
  rw [star_eq_conjTranspose, conjTranspose_submatrix, submatrix_mul_equiv, ← star_eq_conjTranspose, h,
    submatrix_one_equiv]

end embed

end TenpyModel.C14
