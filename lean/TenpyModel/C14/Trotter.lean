/-
C14 — Suzuki–Trotter schedule of `tenpy/algorithms/tebd.py :: TEBDEngine` (import-free model).

The *data* (coefficient expressions per order, step lists with their `* (N_steps - 1)` repetition)
is not written here: it is regenerated from the Python AST of
`TEBDEngine.suzuki_trotter_time_steps` / `suzuki_trotter_decomposition` into
`TenpyModel/Gen/C14Trotter.lean` on every run (tools/gen_C14.py).  This file only fixes the shape of
that data and how Python evaluates it:

* `CExpr`      closed arithmetic expression of the source; decimal literals are exact rationals
               `num/den`, an irrational sub-expression such as `4.0 ** (1 / 3.0)` is an opaque
               symbol `sym i`;
* `Seg`        one summand `[s₁, …, sₖ] * count` of the list expression that is returned, with
               `count ∈ {k, N_steps + k, N_steps - k}` (`Rep`); Python's `list * n` is `[]` for
               `n ≤ 0`, which is what truncated subtraction on `Nat` gives;
* `decomposition` the early exit `if N_steps == 0: return []` followed by the concatenation.
-/
namespace TenpyModel.C14

/-- closed coefficient expression (`suzuki_trotter_time_steps`) -/
inductive CExpr where
  | lit (num den : Nat)
  | sym (i : Nat)
  | add (a b : CExpr)
  | sub (a b : CExpr)
  | mul (a b : CExpr)
  | div (a b : CExpr)
  | neg (a : CExpr)
deriving Repr, Inhabited

/-- value of a coefficient expression in any type with field operations; `sym` gives the value of
the opaque symbols.  Used at `α = Rat` by the driver and at an arbitrary field by the theorems. -/
def CExpr.eval {α : Type} [Add α] [Sub α] [Mul α] [Div α] [Neg α] [NatCast α]
    (sym : Nat → α) : CExpr → α
  | .lit n d => (n : α) / (d : α)
  | .sym i => sym i
  | .add a b => a.eval sym + b.eval sym
  | .sub a b => a.eval sym - b.eval sym
  | .mul a b => a.eval sym * b.eval sym
  | .div a b => a.eval sym / b.eval sym
  | .neg a => - a.eval sym

/-- repetition count of a list segment as a function of `N_steps` -/
inductive Rep where
  | const (k : Nat)     -- `[…] * k`, or no multiplier (k = 1)
  | nPlus (k : Nat)     -- `[…] * (N_steps + k)`
  | nMinus (k : Nat)    -- `[…] * (N_steps - k)`  (empty when N_steps ≤ k)
deriving Repr, DecidableEq

def Rep.count : Rep → Nat → Nat
  | .const k, _ => k
  | .nPlus k, N => N + k
  | .nMinus k, N => N - k

/-- a step of the decomposition: `(index into the time steps, parity)`, parity 0 = even, 1 = odd -/
abbrev Step := Nat × Nat

structure Seg where
  steps : List Step
  rep   : Rep
deriving Repr

/-- Python `l * k` for lists -/
def repeatList {β : Type} : Nat → List β → List β
  | 0, _ => []
  | k + 1, l => l ++ repeatList k l

def expand : List Seg → Nat → List Step
  | [], _ => []
  | s :: r, N => repeatList (s.rep.count N) s.steps ++ expand r N

/-- everything the two static methods say about one `order` -/
structure OrderTable where
  name      : String          -- `str(order)`
  timeSteps : List CExpr      -- `suzuki_trotter_time_steps(order)`
  zeroGuard : Bool            -- `if N_steps == 0: return []` present in front of the dispatch
  segs      : List Seg        -- the returned list expression
deriving Repr

/-- `TEBDEngine.suzuki_trotter_decomposition(order, N_steps)` -/
def decomposition (t : OrderTable) (N : Nat) : List Step :=
  if t.zeroGuard && N == 0 then [] else expand t.segs N

/-- indices of the time steps that are applied to the bonds of parity `par`, in order -/
def stepsOf (par : Nat) : List Step → List Nat
  | [] => []
  | (j, k) :: r => if k = par then j :: stepsOf par r else stepsOf par r

/-- sum of a list of coefficients (right fold, so that `simp` can unfold it on literals) -/
def sumList {α : Type} [Add α] [OfNat α 0] : List α → α
  | [] => 0
  | x :: r => x + sumList r

/-- total time (in units of `dt`) by which the bonds of parity `par` are evolved by a schedule -/
def bondTime {α : Type} [Add α] [OfNat α 0] (ts : List α) (par : Nat) (sched : List Step) : α :=
  sumList ((stepsOf par sched).map (fun j => ts.getD j 0))

/-- every step refers to an existing time step and a parity in {0, 1} -/
def stepsValid (nTs : Nat) : List Step → Bool
  | [] => true
  | (j, k) :: r => decide (j < nTs) && decide (k < 2) && stepsValid nTs r

/-- consecutive steps act on different parities (so the product is the documented
`… U_odd U_even U_odd …` chain and nothing could have been merged further) -/
def alternates : List Step → Bool
  | [] => true
  | [_] => true
  | a :: b :: r => decide (a.2 ≠ b.2) && alternates (b :: r)

/-- merge neighbouring steps of equal parity, adding their times: the canonical form of a product
of commuting-within-parity exponentials `exp(t₁ H_k) exp(t₂ H_k) = exp((t₁+t₂) H_k)` -/
def fuseAux {α : Type} [Add α] (cur : α × Nat) : List (α × Nat) → List (α × Nat)
  | [] => [cur]
  | b :: r => if cur.2 = b.2 then fuseAux (cur.1 + b.1, cur.2) r else cur :: fuseAux b r

def fuse {α : Type} [Add α] : List (α × Nat) → List (α × Nat)
  | [] => []
  | a :: r => fuseAux a r

/-- schedule with the time of every step written out -/
def timed {α : Type} [OfNat α 0] (ts : List α) (sched : List Step) : List (α × Nat) :=
  sched.map (fun s => (ts.getD s.1 0, s.2))

end TenpyModel.C14
