import TenpyModel.C14.TrotterProofs
/-!
Helper lemmas for `C14_schedule_composes`: the merged schedule `a m (a₂ m)^k a` has the same canonical
form (`fuse`: neighbouring steps of equal parity merged, times added) as the `k+1`-fold repetition of the
single step `a m a`, provided `t(a) + t(a) = t(a₂)`.
-/
namespace TenpyModel.C14

variable {α : Type}

/-- neighbouring entries have different parity -/
def altP : List (α × Nat) → Prop
  | [] => True
  | [_] => True
  | a :: b :: r => a.2 ≠ b.2 ∧ altP (b :: r)

theorem map_repeatList {β γ : Type} (f : β → γ) (k : Nat) (l : List β) :
    (repeatList k l).map f = repeatList k (l.map f) := by
  induction k with
  | zero => rfl
  | succ k ih => show (l ++ repeatList k l).map f = l.map f ++ repeatList k (l.map f); rw [List.map_append, ih]

theorem timed_append [OfNat α 0] (ts : List α) (a b : List Step) :
    timed ts (a ++ b) = timed ts a ++ timed ts b := List.map_append ..

theorem timed_repeat [OfNat α 0] (ts : List α) (k : Nat) (l : List Step) :
    timed ts (repeatList k l) = repeatList k (timed ts l) := map_repeatList _ k l

/-- `(p ++ q)^(k+1) = p ++ (q ++ p)^k ++ q` -/
theorem repeat_shift {β : Type} (p q : List β) (k : Nat) :
    repeatList (k + 1) (p ++ q) = p ++ (repeatList k (q ++ p) ++ q) := by
  induction k with
  | zero => simp [repeatList]
  | succ k ih =>
    show (p ++ q) ++ repeatList (k + 1) (p ++ q) = p ++ (((q ++ p) ++ repeatList k (q ++ p)) ++ q)
    rw [ih]; simp [List.append_assoc]

/-- running `fuseAux` through an alternating stretch `m` emits everything but the last entry unchanged -/
theorem fuseAux_alt [Add α] (m : List (α × Nat)) (cur : α × Nat) (h : altP (cur :: m)) (tail : List (α × Nat)) :
    fuseAux cur (m ++ tail) = (cur :: m).dropLast ++ fuseAux ((cur :: m).getLastD cur) tail := by
  induction m generalizing cur with
  | nil => simp
  | cons x r ih =>
    obtain ⟨hne, hr⟩ := h
    show fuseAux cur (x :: (r ++ tail)) = _
    rw [fuseAux, if_neg hne, ih x hr]
    simp [List.dropLast, List.getLastD]

theorem altP_prefix (c : α × Nat) (m s : List (α × Nat)) (h : altP (c :: m ++ s)) : altP (c :: m) := by
  induction m generalizing c with
  | nil => trivial
  | cons y r ihr =>
    cases r with
    | nil => exact ⟨h.1, trivial⟩
    | cons z r' => exact ⟨h.1, ihr y h.2⟩

theorem altP_last (c e : α × Nat) (m : List (α × Nat)) (hm : m ≠ []) (h : altP (c :: m ++ [e])) :
    (((c :: m).getLastD c)).2 ≠ e.2 := by
  induction m generalizing c with
  | nil => exact absurd rfl hm
  | cons y r ihr =>
    cases r with
    | nil => simpa [List.getLastD] using h.2.1
    | cons z r' => simpa [List.getLastD] using ihr y (by simp) h.2

/-- the accumulator entering an alternating stretch only shows up in the first emitted entry -/
theorem fuse_merge_core [Add α] (p : Nat) (ta ta2 : α) (hsum : ta + ta = ta2) (m : List (α × Nat))
    (hm : m ≠ []) (halt : ∀ x : α, altP ((x, p) :: m ++ [(ta, p)])) (k : Nat) (x : α) :
    fuseAux (x, p) (m ++ (repeatList k ((ta, p) :: (ta, p) :: m) ++ [(ta, p)]))
      = fuseAux (x, p) (m ++ (repeatList k ((ta2, p) :: m) ++ [(ta, p)])) := by
  induction k generalizing x with
  | zero => rfl
  | succ k ih =>
    have haltm : altP ((x, p) :: m) := altP_prefix _ _ _ (halt x)
    have hlast : (((x, p) :: m).getLastD (x, p)).2 ≠ p := altP_last _ (ta, p) _ hm (halt x)
    have e1 : ∀ (L : α × Nat), L.2 ≠ p → ∀ t : List (α × Nat),
        fuseAux L ((ta, p) :: (ta, p) :: t) = L :: fuseAux (ta + ta, p) t := by
      intro L hL t; simp [fuseAux, hL]
    have e2 : ∀ (L : α × Nat), L.2 ≠ p → ∀ t : List (α × Nat),
        fuseAux L ((ta2, p) :: t) = L :: fuseAux (ta2, p) t := by
      intro L hL t; simp [fuseAux, hL]
    show fuseAux (x, p) (m ++ (((ta, p) :: (ta, p) :: m) ++ repeatList k ((ta, p) :: (ta, p) :: m) ++ [(ta, p)]))
        = fuseAux (x, p) (m ++ ((((ta2, p) :: m) ++ repeatList k ((ta2, p) :: m)) ++ [(ta, p)]))
    simp only [List.cons_append, List.append_assoc]
    rw [fuseAux_alt m (x, p) haltm, fuseAux_alt m (x, p) haltm, e1 _ hlast, e2 _ hlast, hsum, ih ta2]

/-- **merged = repeated**, three-segment shape `[a m] + [a₂ m] * (N-1) + [a]` -/
theorem fuse_expand3 [Add α] [OfNat α 0] (ts : List α) (l1 l2 l3 : List Step) (p : Nat) (ta ta2 : α)
    (m : List (α × Nat)) (h1 : timed ts l1 = (ta, p) :: m) (h2 : timed ts l2 = (ta2, p) :: m)
    (h3 : timed ts l3 = [(ta, p)]) (hsum : ta + ta = ta2) (hm : m ≠ [])
    (halt : ∀ x : α, altP ((x, p) :: m ++ [(ta, p)])) (k : Nat) :
    fuse (timed ts (expand [⟨l1, .const 1⟩, ⟨l2, .nMinus 1⟩, ⟨l3, .const 1⟩] (k + 1)))
      = fuse (timed ts (repeatList (k + 1) (l1 ++ l3))) := by
  have hexp : expand [⟨l1, .const 1⟩, ⟨l2, .nMinus 1⟩, ⟨l3, .const 1⟩] (k + 1)
      = l1 ++ (repeatList k l2 ++ l3) := by
    simp [expand, Rep.count, repeatList]
  rw [hexp, timed_repeat, timed_append, timed_append, timed_append, timed_repeat, h1, h2, h3,
    repeat_shift]
  show fuseAux (ta, p) (m ++ (repeatList k ((ta2, p) :: m) ++ [(ta, p)]))
     = fuseAux (ta, p) (m ++ (repeatList k ([(ta, p)] ++ (ta, p) :: m) ++ [(ta, p)]))
  exact (fuse_merge_core p ta ta2 hsum m hm halt k ta).symm

end TenpyModel.C14
