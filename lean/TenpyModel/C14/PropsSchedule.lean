import TenpyModel.C14.TrotterProofs
import TenpyModel.Gen.C14Trotter
import Mathlib.Tactic.Ring
import Mathlib.Tactic.NormNum
import Mathlib.Algebra.CharZero.Defs
import Mathlib.Data.Real.Basic
/-!
# C14 — the Suzuki–Trotter schedule composes to exactly `N_steps · dt` on every bond

All statements are about the tables **regenerated from the current source**
(`TenpyModel/Gen/C14Trotter.lean`, tools/gen_C14.py) of
`TEBDEngine.suzuki_trotter_time_steps` and `TEBDEngine.suzuki_trotter_decomposition`.

The coefficients are evaluated in an arbitrary field `α` of characteristic zero (ℝ in particular) and
the irrational constant `4.0 ** (1 / 3.0)` is an *arbitrary* element `c 0 : α`: the sums below are
identities of rational functions in that constant, no property of the cube root is used (not even
`4 - c ≠ 0`: with Lean's `x / 0 = 0` the identity `4·t₁ + (1 - 4·t₁) = 1` holds for any `t₁`).
-/
open TenpyModel.C14 TenpyModel.Gen.C14

namespace TenpyModel.C14

/-- time steps of a table in the field `α`, the opaque symbols valued by `c` -/
def OrderTable.times {α : Type} [Field α] (t : OrderTable) (c : Nat → α) : List α :=
  t.timeSteps.map (CExpr.eval c)

/-- the statement of `C14_schedule_time` for one table -/
def ScheduleTime (t : OrderTable) : Prop :=
  ∀ {α : Type} [Field α] [CharZero α] (c : Nat → α) (N : Nat) (par : Nat), par < 2 →
    bondTime (t.times c) par (decomposition t N) = (N : α)

theorem decomposition_succ (t : OrderTable) (M : Nat) : decomposition t (M + 1) = expand t.segs (M + 1) := by
  simp [decomposition]

theorem decomposition_zero_of_guard (t : OrderTable) (h : t.zeroGuard = true) : decomposition t 0 = [] := by
  simp [decomposition, h]

end TenpyModel.C14

section perOrder
variable {α : Type} [Field α] [CharZero α] (c : Nat → α)

/-- order 1: `[a, b] * N_steps` -/
theorem C14_schedule_time_order1 : ScheduleTime table_1 := by
  intro α _ _ c N par hp
  cases N with
  | zero => rw [decomposition_zero_of_guard _ rfl]; simp [bondTime, stepsOf, sumList]
  | succ M =>
    rw [decomposition_succ, bondTime_expand]
    have hpar : par = 0 ∨ par = 1 := by omega
    rcases hpar with rfl | rfl <;>
      simp [table_1, segs_1, timeSteps_1, OrderTable.times, Rep.count, bondTime, stepsOf, sumList, CExpr.eval]

/-- order 2: `[a, b] + [a2, b] * (N_steps - 1) + [a]` -/
theorem C14_schedule_time_order2 : ScheduleTime table_2 := by
  intro α _ _ c N par hp
  cases N with
  | zero => rw [decomposition_zero_of_guard _ rfl]; simp [bondTime, stepsOf, sumList]
  | succ M =>
    rw [decomposition_succ, bondTime_expand]
    have hpar : par = 0 ∨ par = 1 := by omega
    rcases hpar with rfl | rfl <;>
      simp [table_2, segs_2, timeSteps_2, OrderTable.times, Rep.count, bondTime, stepsOf, sumList, CExpr.eval] <;>
      ring

/-- order 4 (Suzuki 1991 / Schollwöck 2011), symbolic in `c 0 = 4^(1/3)` -/
theorem C14_schedule_time_order4 : ScheduleTime table_4 := by
  intro α _ _ c N par hp
  cases N with
  | zero => rw [decomposition_zero_of_guard _ rfl]; simp [bondTime, stepsOf, sumList]
  | succ M =>
    rw [decomposition_succ, bondTime_expand]
    have hpar : par = 0 ∨ par = 1 := by omega
    rcases hpar with rfl | rfl <;>
      simp [table_4, segs_4, timeSteps_4, OrderTable.times, Rep.count, bondTime, stepsOf, sumList, CExpr.eval] <;>
      ring

/-- order '4_opt' (Barthel & Zhang 2020, Eq. (30a)); the four decimal literals are exact rationals -/
theorem C14_schedule_time_order4opt : ScheduleTime table_4opt := by
  intro α _ _ c N par hp
  cases N with
  | zero => rw [decomposition_zero_of_guard _ rfl]; simp [bondTime, stepsOf, sumList]
  | succ M =>
    rw [decomposition_succ, bondTime_expand]
    have hpar : par = 0 ∨ par = 1 := by omega
    rcases hpar with rfl | rfl <;>
      simp [table_4opt, segs_4opt, timeSteps_4opt, OrderTable.times, Rep.count, bondTime, stepsOf, sumList,
        CExpr.eval] <;>
      ring

end perOrder

/-- **Every order the source knows, every `N_steps`, both parities**: the time steps that
`suzuki_trotter_decomposition(order, N_steps)` applies to the even bonds sum to `N_steps` (in units
of `dt`), and so do those applied to the odd bonds.  `tables` is regenerated from the `if order ==`
dispatch: an order added to the source without a theorem here breaks this proof. -/
theorem C14_schedule_time : ∀ t ∈ tables, ScheduleTime t := by
  intro t ht
  simp only [tables, List.mem_cons, List.not_mem_nil, or_false] at ht
  rcases ht with rfl | rfl | rfl | rfl
  · exact C14_schedule_time_order1
  · exact C14_schedule_time_order2
  · exact C14_schedule_time_order4
  · exact C14_schedule_time_order4opt

/-- the same over the reals with the actual irrational constant: any real `c` with `c ^ 3 = 4` -/
theorem C14_schedule_time_real (c : ℝ) (_hc : c ^ 3 = 4) :
    ∀ t ∈ tables, ∀ (N par : Nat), par < 2 →
      bondTime (t.times (fun _ => c)) par (decomposition t N) = (N : ℝ) :=
  fun t ht N par hp => C14_schedule_time t ht (fun _ => c) N par hp

/-- every step of every schedule refers to an existing entry of `suzuki_trotter_time_steps(order)`
(no `IndexError` in `self._U[U_idx_dt]`) and to a parity in `{0, 1}` -/
theorem C14_schedule_indices_valid :
    ∀ t ∈ tables, ∀ N : Nat, stepsValid t.timeSteps.length (decomposition t N) = true := by
  intro t ht N
  simp only [tables, List.mem_cons, List.not_mem_nil, or_false] at ht
  rcases ht with rfl | rfl | rfl | rfl <;> exact stepsValid_decomposition _ (by decide) N

/-- consecutive steps of every schedule act on different parities, for every `N_steps`: the merged
schedule `a b [a2 b]*(N-1) a` is again a strictly alternating odd/even chain (nothing is applied
twice in a row to the same bonds, and nothing more could be merged) -/
theorem C14_schedule_alternates : ∀ t ∈ tables, ∀ N : Nat, alternates (decomposition t N) = true := by
  intro t ht N
  simp only [tables, List.mem_cons, List.not_mem_nil, or_false] at ht
  rcases ht with rfl | rfl | rfl | rfl <;> unfold decomposition <;> split <;> try rfl
  · exact alternates_expand1 _ (by decide) (by decide) N
  · exact alternates_expand3 _ _ _ (by decide) (by decide) (by decide) (by decide) (by decide) (by decide)
      (by decide) (by decide) N
  · exact alternates_expand3 _ _ _ (by decide) (by decide) (by decide) (by decide) (by decide) (by decide)
      (by decide) (by decide) N
  · exact alternates_expand3 _ _ _ (by decide) (by decide) (by decide) (by decide) (by decide) (by decide)
      (by decide) (by decide) N

/-- `N_steps = 0` gives the empty schedule (the early exit is present) -/
theorem C14_schedule_zero_steps : ∀ t ∈ tables, decomposition t 0 = [] := by
  intro t ht
  simp only [tables, List.mem_cons, List.not_mem_nil, or_false] at ht
  rcases ht with rfl | rfl | rfl | rfl <;> rfl

/-- the number of steps: `2N` for order 1, `2N + 1` for order 2, `10N + 1` for the fourth-order ones
(instead of `3N`, `11N` without merging) -/
theorem C14_schedule_length (N : Nat) (hN : 1 ≤ N) :
    (decomposition table_1 N).length = 2 * N ∧ (decomposition table_2 N).length = 2 * N + 1 ∧
    (decomposition table_4 N).length = 10 * N + 1 ∧ (decomposition table_4opt N).length = 10 * N + 1 := by
  obtain ⟨M, rfl⟩ : ∃ M, N = M + 1 := ⟨N - 1, by omega⟩
  have hrep : ∀ (k : Nat) (l : List Step), (repeatList k l).length = k * l.length := by
    intro k l
    induction k with
    | zero => simp [repeatList]
    | succ k ih => show (l ++ repeatList k l).length = _; rw [List.length_append, ih]; ring
  refine ⟨?_, ?_, ?_, ?_⟩ <;> rw [decomposition_succ] <;>
    simp [table_1, segs_1, table_2, segs_2, table_4, segs_4, table_4opt, segs_4opt, expand, Rep.count, hrep] <;> ring

/-! Non-vacuity: concrete instances over ℚ with a rational stand-in for the constant. -/

example : decomposition table_2 3 = [(0, 1), (1, 0), (1, 1), (1, 0), (1, 1), (1, 0), (0, 1)] := by decide

example : bondTime (table_4opt.times (fun _ => (0 : ℚ))) 1 (decomposition table_4opt 3) = 3 := by
  simpa using C14_schedule_time_order4opt (fun _ => (0 : ℚ)) 3 1 (by decide)

example : (decomposition table_4 2).length = 21 := by decide
