import TenpyModel.C14.AccountingProofs
import TenpyModel.Gen.C14Trotter
/-!
# C14 — advertised time and accumulated truncation error, for every history of `run()` calls

The engines are modelled as state machines over `ℚ` (`TenpyModel/C14/Accounting.lean`) whose inputs are
the errors of the truncations they perform.  `Variant` says which methods contain
`self.trunc_err = self.trunc_err + trunc_err`; its value for the tree under test is regenerated from the
source (`Gen.C14.variant`).

* `C14_time_accounting`            `evolved_time = start + Σ N_k · dt_k`, any engine, any variant, any split.
* `C14_trunc_accounting`           under `Variant.singleCount` the reported error is the start value plus the
                                   flat sum of all truncation errors of all calls (`eps` added, `ov` multiplied).
* `C14_accounting_variant_current` the regenerated variant satisfies `singleCount` for every engine kind, time
                                   dependent or not — **this is the theorem that fails to build on a tree where TEBD
                                   counts twice or the time-dependent engines drop the error.**
* `C14_trunc_accounting_current`   the two combined: the statement for the code as it is now.
* `C14_trunc_split_independent`    the result does not depend on how the truncations are distributed over calls.
-/
open TenpyModel.C14 TenpyModel.Gen.C14

namespace TenpyModel.C14

/-- every call supplies exactly the errors of the truncations it performs -/
def WellFed (k : Kind) (td : Bool) (calls : List Call) : Prop :=
  ∀ c ∈ calls, c.errs.length = expectedCount k td c.N

def allErrs (calls : List Call) : List TErr := calls.flatMap (·.errs)

theorem runCalls_cons (v : Variant) (k : Kind) (td : Bool) (e : Eng) (c : Call) (cs : List Call) :
    runCalls v k td e (c :: cs) = runCalls v k td (run v k td e c).1 cs := rfl

theorem sumErr_eps (k : Kind) (l : List TErr) :
    (sumErr (l.map (errMap k))).eps = sumList (l.map (·.eps)) := by
  induction l with
  | nil => rfl
  | cons x xs ih =>
    simp only [List.map_cons, sumErr, TErr.add, sumList, ih]
    cases k <;> rfl

/-- product of a list of rationals -/
def prodList : List Rat → Rat
  | [] => 1
  | x :: r => x * prodList r

theorem sumErr_ov (k : Kind) (l : List TErr)
    (h : ∀ e ∈ l, (errMap k e).ov = e.ov) :
    (sumErr (l.map (errMap k))).ov = prodList (l.map (·.ov)) := by
  induction l with
  | nil => rfl
  | cons x xs ih =>
    simp only [List.map_cons, sumErr, TErr.add, prodList]
    rw [ih (fun e he => h e (List.mem_cons_of_mem _ he)), h x (List.mem_cons_self ..)]

end TenpyModel.C14

/-- **Advertised time.**  After any list of `run()` calls with options `(N_steps_k, dt_k)` the engine's
`evolved_time` is the start time plus `Σ N_steps_k · dt_k` — for every engine kind, time dependent or
not, whatever the accumulation variant, real or complex steps. -/
theorem C14_time_accounting (v : Variant) (k : Kind) (td : Bool) (e : Eng) (calls : List Call) :
    (runCalls v k td e calls).time = e.time.add (sumTime (calls.map (fun c => c.dt.nsmul c.N))) := by
  induction calls generalizing e with
  | nil => simp [runCalls, sumTime, CTime.add_zero]
  | cons c cs ih =>
    rw [runCalls_cons, ih, run_time, CTime.add_assoc]; rfl

/-- **Accumulated truncation error.**  If on the path of a `run()` exactly one method adds the step
errors to `self.trunc_err` (`singleCount`) and every call supplies the errors of its truncations, then
after any list of calls `self.trunc_err` is the start value plus the flat sum (`eps` added, `ov`
multiplied, `TruncationError.__add__`) of the errors of **all** truncations performed. -/
theorem C14_trunc_accounting (v : Variant) (k : Kind) (td : Bool) (hv : v.singleCount k td = true)
    (e : Eng) (calls : List Call) (hfed : WellFed k td calls) :
    (runCalls v k td e calls).terr = e.terr.add (sumErr ((allErrs calls).map (errMap k))) := by
  induction calls generalizing e with
  | nil => simp [runCalls, allErrs, sumErr, TErr.add_none]
  | cons c cs ih =>
    have hc : c.errs.length = expectedCount k td c.N := hfed c (List.mem_cons_self ..)
    rw [runCalls_cons, ih _ (fun c' hc' => hfed c' (List.mem_cons_of_mem _ hc')), run_terr v k td hv,
      ← hc, List.take_length, TErr.add_assoc]
    simp [allErrs, sumErr_append]

/-- the `eps` component: start + Σ of the `eps` of every truncation (also for TDVP, which only keeps `eps`) -/
theorem C14_trunc_accounting_eps (v : Variant) (k : Kind) (td : Bool) (hv : v.singleCount k td = true)
    (e : Eng) (calls : List Call) (hfed : WellFed k td calls) :
    (runCalls v k td e calls).terr.eps = e.terr.eps + sumList ((allErrs calls).map (·.eps)) := by
  rw [C14_trunc_accounting v k td hv e calls hfed]
  simp only [TErr.add, sumErr_eps]

/-- the `ov` component: start · ∏ of the `ov` of every truncation.  TDVP rebuilds `ov = 1 - 2·eps` from
`eps`, so there the errors must have been made by `TruncationError.from_S` (which sets exactly that). -/
theorem C14_trunc_accounting_ov (v : Variant) (k : Kind) (td : Bool) (hv : v.singleCount k td = true)
    (e : Eng) (calls : List Call) (hfed : WellFed k td calls)
    (hS : ∀ x ∈ allErrs calls, x.ov = 1 - 2 * x.eps) :
    (runCalls v k td e calls).terr.ov = e.terr.ov * prodList ((allErrs calls).map (·.ov)) := by
  rw [C14_trunc_accounting v k td hv e calls hfed]
  simp only [TErr.add]
  rw [sumErr_ov]
  intro x hx
  cases k with
  | tdvp n => simp [errMap, tdvpErr, hS x hx]
  | expMPO n => rfl
  | tebd t L f => rfl

/-- **Independence of the split.**  Two histories (possibly different numbers of calls, different `N_steps`)
during which the same truncation errors occurred report the same accumulated error. -/
theorem C14_trunc_split_independent (v : Variant) (k : Kind) (td : Bool) (hv : v.singleCount k td = true)
    (e : Eng) (calls₁ calls₂ : List Call) (h₁ : WellFed k td calls₁) (h₂ : WellFed k td calls₂)
    (hsame : allErrs calls₁ = allErrs calls₂) :
    (runCalls v k td e calls₁).terr = (runCalls v k td e calls₂).terr := by
  rw [C14_trunc_accounting v k td hv e calls₁ h₁, C14_trunc_accounting v k td hv e calls₂ h₂, hsame]

/-- **The code as it is now counts every truncation exactly once** on every path: for each engine kind
(`ExpMPOEvolution`, TDVP, TEBD) and both `run_evolution`s, exactly one of `evolve` / `run_evolution` adds to
`self.trunc_err`.  `variant` is regenerated from the source on every run.  (On the tree before the repairs
`pending_fixes/C14-*.diff` this is false: TEBD had both, the time-dependent MPO/TDVP engines had none.) -/
theorem C14_accounting_variant_current (k : Kind) (td : Bool) : variant.singleCount k td = true := by
  cases k <;> cases td <;> rfl

/-- `C14_trunc_accounting` for the regenerated variant, no hypothesis left about the code -/
theorem C14_trunc_accounting_current (k : Kind) (td : Bool) (e : Eng) (calls : List Call)
    (hfed : WellFed k td calls) :
    (runCalls variant k td e calls).terr = e.terr.add (sumErr ((allErrs calls).map (errMap k))) :=
  C14_trunc_accounting variant k td (C14_accounting_variant_current k td) e calls hfed

/-- the number of `update_bond` calls of one TEBD `evolve(N, dt)` is the length of the predicted sequence of
`(U_idx_dt, i_bond)` pairs (what the harness compares with `self._update_index`) -/
theorem C14_tebd_update_count (tab : OrderTable) (L : Nat) (fin : Bool) (N : Nat) :
    (tebdUpdates tab L fin N).length = evolveCount (.tebd tab L fin) N := by
  simp only [tebdUpdates, evolveCount]
  induction decomposition tab N with
  | nil => rfl
  | cons st r ih => simp [List.flatMap_cons, sumList, ih]

/-! Non-vacuity: a concrete TEBD history (order 2, L = 4 finite: bonds 1,3 odd and 2 even), two calls
`N_steps = 2` then `1`, dyadic errors; the second half shows what the unrepaired variant reported. -/

section examples

def exErr (n : Nat) : TErr := ⟨(n : Rat) / 64, 1 - 2 * ((n : Rat) / 64)⟩

def exCalls : List Call :=
  [⟨2, ⟨1 / 8, 0⟩, [exErr 1, exErr 0, exErr 2, exErr 1, exErr 1, exErr 3, exErr 0, exErr 1]⟩,
   ⟨1, ⟨1 / 4, 0⟩, [exErr 2, exErr 2, exErr 1, exErr 0, exErr 1]⟩]

def fixedVariant : Variant := ⟨false, false, false, true, true⟩
def oldVariant : Variant := ⟨false, false, true, true, false⟩

example : WellFed (.tebd table_2 4 true) false exCalls := by
  intro c hc
  simp only [exCalls, List.mem_cons, List.not_mem_nil, or_false] at hc
  rcases hc with rfl | rfl <;> decide

example : (runCalls fixedVariant (.tebd table_2 4 true) false ⟨⟨0, 0⟩, TErr.none⟩ exCalls).time = ⟨1 / 2, 0⟩ := by
  decide +kernel

example : (runCalls fixedVariant (.tebd table_2 4 true) false ⟨⟨0, 0⟩, TErr.none⟩ exCalls).terr.eps = 15 / 64 := by
  decide +kernel

/-- what the tree before the repair did on the same history: exactly twice the sum -/
example : (runCalls oldVariant (.tebd table_2 4 true) false ⟨⟨0, 0⟩, TErr.none⟩ exCalls).terr.eps = 30 / 64 := by
  decide +kernel

/-- … and the time-dependent MPO engine before the repair: nothing -/
example : (runCalls oldVariant (.expMPO 2) true ⟨⟨0, 0⟩, TErr.none⟩
    [⟨2, ⟨1 / 8, 0⟩, [exErr 1, exErr 2, exErr 3, exErr 1]⟩]).terr.eps = 0 := by
  decide +kernel

example : (runCalls fixedVariant (.expMPO 2) true ⟨⟨0, 0⟩, TErr.none⟩
    [⟨2, ⟨1 / 8, 0⟩, [exErr 1, exErr 2, exErr 3, exErr 1]⟩]).terr.eps = 7 / 64 := by
  decide +kernel

end examples
