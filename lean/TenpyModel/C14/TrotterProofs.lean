import TenpyModel.C14.Trotter
import Mathlib.Tactic.Ring
import Mathlib.Algebra.Field.Defs
/-! Helper lemmas about list repetition / concatenation for the Trotter schedule (C14). -/
namespace TenpyModel.C14

variable {α : Type}

theorem repeatList_succ' {β : Type} (k : Nat) (l : List β) :
    repeatList (k + 1) l = repeatList k l ++ l := by
  induction k with
  | zero => simp [repeatList]
  | succ k ih =>
    show l ++ repeatList (k + 1) l = (l ++ repeatList k l) ++ l
    rw [ih, List.append_assoc]

theorem stepsOf_append (par : Nat) (a b : List Step) :
    stepsOf par (a ++ b) = stepsOf par a ++ stepsOf par b := by
  induction a with
  | nil => rfl
  | cons x xs ih =>
    obtain ⟨j, k⟩ := x
    simp only [List.cons_append, stepsOf]
    split <;> simp [ih]

theorem sumList_append [Field α] (a b : List α) : sumList (a ++ b) = sumList a + sumList b := by
  induction a with
  | nil => simp [sumList]
  | cons x xs ih => simp only [List.cons_append, sumList, ih]; ring

theorem bondTime_nil [Field α] (ts : List α) (par : Nat) : bondTime ts par [] = 0 := rfl

theorem bondTime_append [Field α] (ts : List α) (par : Nat) (a b : List Step) :
    bondTime ts par (a ++ b) = bondTime ts par a + bondTime ts par b := by
  simp only [bondTime, stepsOf_append, List.map_append, sumList_append]

theorem bondTime_repeat [Field α] (ts : List α) (par : Nat) (k : Nat) (l : List Step) :
    bondTime ts par (repeatList k l) = (k : α) * bondTime ts par l := by
  induction k with
  | zero => simp [repeatList, bondTime_nil]
  | succ k ih =>
    show bondTime ts par (l ++ repeatList k l) = _
    rw [bondTime_append, ih]; push_cast; ring

/-- the time of an expanded schedule is the count-weighted sum over its segments -/
theorem bondTime_expand [Field α] (ts : List α) (par : Nat) (segs : List Seg) (N : Nat) :
    bondTime ts par (expand segs N)
      = sumList (segs.map (fun s => (s.rep.count N : α) * bondTime ts par s.steps)) := by
  induction segs with
  | nil => rfl
  | cons s r ih =>
    show bondTime ts par (repeatList (s.rep.count N) s.steps ++ expand r N) = _
    rw [bondTime_append, bondTime_repeat, ih]; rfl

/-! validity of indices -/

theorem stepsValid_append (n : Nat) (a b : List Step) :
    stepsValid n (a ++ b) = (stepsValid n a && stepsValid n b) := by
  induction a with
  | nil => simp [stepsValid]
  | cons x xs ih => obtain ⟨j, k⟩ := x; simp [stepsValid, ih, Bool.and_assoc]

theorem stepsValid_repeat (n k : Nat) (l : List Step) (h : stepsValid n l = true) :
    stepsValid n (repeatList k l) = true := by
  induction k with
  | zero => rfl
  | succ k ih => show stepsValid n (l ++ repeatList k l) = true; rw [stepsValid_append, h, ih]; rfl

theorem stepsValid_expand (n : Nat) (segs : List Seg) (N : Nat)
    (h : segs.all (fun s => stepsValid n s.steps) = true) : stepsValid n (expand segs N) = true := by
  induction segs with
  | nil => rfl
  | cons s r ih =>
    simp only [List.all_cons, Bool.and_eq_true] at h
    show stepsValid n (repeatList _ s.steps ++ expand r N) = true
    rw [stepsValid_append, stepsValid_repeat _ _ _ h.1, ih h.2]; rfl

theorem stepsValid_decomposition (t : OrderTable)
    (h : t.segs.all (fun s => stepsValid t.timeSteps.length s.steps) = true) (N : Nat) :
    stepsValid t.timeSteps.length (decomposition t N) = true := by
  unfold decomposition
  split
  · rfl
  · exact stepsValid_expand _ _ _ h

/-! alternation of parities -/

/-- parity of the first / last step, `none` for the empty list -/
def headPar : List Step → Option Nat
  | [] => none
  | a :: _ => some a.2

def lastPar : List Step → Option Nat
  | [] => none
  | [a] => some a.2
  | _ :: b :: r => lastPar (b :: r)

/-- the junction between two lists alternates (vacuous if one of them is empty) -/
def joinOk (a b : List Step) : Bool :=
  match lastPar a, headPar b with
  | some x, some y => decide (x ≠ y)
  | _, _ => true

theorem alternates_append (a b : List Step) :
    alternates (a ++ b) = (alternates a && alternates b && joinOk a b) := by
  induction a with
  | nil => simp [alternates, joinOk, lastPar]
  | cons x xs ih =>
    cases xs with
    | nil =>
      cases b with
      | nil => simp [alternates, joinOk, lastPar, headPar]
      | cons y ys => simp [alternates, joinOk, lastPar, headPar, Bool.and_comm]
    | cons z zs =>
      have : alternates (x :: z :: zs ++ b) = (decide (x.2 ≠ z.2) && alternates (z :: zs ++ b)) := by
        simp [alternates]
      rw [this, ih]
      simp [alternates, joinOk, lastPar, Bool.and_assoc]

theorem lastPar_append_of_ne (a b : List Step) (hb : b ≠ []) : lastPar (a ++ b) = lastPar b := by
  induction a with
  | nil => rfl
  | cons x xs ih =>
    cases h : xs ++ b with
    | nil => simp at h; exact absurd h.2 hb
    | cons y ys =>
      show lastPar (x :: (xs ++ b)) = _
      rw [h]; show lastPar (y :: ys) = _; rw [← h, ih]

theorem headPar_append_of_ne (a b : List Step) (ha : a ≠ []) : headPar (a ++ b) = headPar a := by
  cases a with
  | nil => exact absurd rfl ha
  | cons x xs => rfl

/-- a non-empty alternating block whose end and start differ can be repeated any number of times -/
theorem alternates_repeat (k : Nat) (l : List Step) (hl : alternates l = true)
    (hj : joinOk l l = true) : alternates (repeatList k l) = true := by
  induction k with
  | zero => rfl
  | succ k ih =>
    show alternates (l ++ repeatList k l) = true
    rw [alternates_append, hl, ih]
    simp only [Bool.true_and]
    cases k with
    | zero => simp [repeatList, joinOk]; cases lastPar l <;> rfl
    | succ k =>
      show joinOk l (l ++ repeatList k l) = true
      cases hne : l with
      | nil => simp [joinOk, lastPar]
      | cons x xs =>
        rw [hne] at hj
        simpa [joinOk, headPar] using hj

theorem lastPar_repeat (k : Nat) (l : List Step) (hk : k ≠ 0) : lastPar (repeatList k l) = lastPar l := by
  cases k with
  | zero => exact absurd rfl hk
  | succ k =>
    rw [repeatList_succ']
    cases l with
    | nil =>
      have : ∀ k, repeatList k ([] : List Step) = [] := by
        intro k; induction k with
        | zero => rfl
        | succ k ih => show [] ++ repeatList k [] = []; simp [ih]
      simp [this]
    | cons x xs => exact lastPar_append_of_ne _ _ (by simp)

theorem headPar_repeat (k : Nat) (l : List Step) (hk : k ≠ 0) : headPar (repeatList k l) = headPar l := by
  cases k with
  | zero => exact absurd rfl hk
  | succ k =>
    show headPar (l ++ repeatList k l) = headPar l
    cases l with
    | nil =>
      have : ∀ k, repeatList k ([] : List Step) = [] := by
        intro k; induction k with
        | zero => rfl
        | succ k ih => show [] ++ repeatList k [] = []; simp [ih]
      simp [this]
    | cons x xs => rfl

end TenpyModel.C14

namespace TenpyModel.C14

theorem joinOk_congr {a a' b b' : List Step} (h1 : lastPar a = lastPar a') (h2 : headPar b = headPar b') :
    joinOk a b = joinOk a' b' := by
  unfold joinOk; rw [h1, h2]

theorem repeatList_ne_nil {β : Type} (k : Nat) (l : List β) (hk : k ≠ 0) (hl : l ≠ []) :
    repeatList k l ≠ [] := by
  cases k with
  | zero => exact absurd rfl hk
  | succ k =>
    show l ++ repeatList k l ≠ []
    simp [hl]

/-- `l₁ ++ l₂ * k ++ l₃` alternates for every `k` as soon as it does for `k = 0` and all junctions that
occur for `k ≥ 1` do -/
theorem alternates_sandwich (l1 l2 l3 : List Step) (hne : l2 ≠ [])
    (h1 : alternates l1 = true) (h2 : alternates l2 = true) (h3 : alternates l3 = true)
    (h22 : joinOk l2 l2 = true) (h12 : joinOk l1 l2 = true) (h23 : joinOk l2 l3 = true)
    (h13 : alternates (l1 ++ l3) = true) (k : Nat) :
    alternates (l1 ++ (repeatList k l2 ++ l3)) = true := by
  by_cases hk : k = 0
  · subst hk; exact h13
  · have hR : repeatList k l2 ≠ [] := repeatList_ne_nil k l2 hk hne
    rw [alternates_append, alternates_append, h1, h3, alternates_repeat k l2 h2 h22]
    rw [joinOk_congr (lastPar_repeat k l2 hk) rfl, h23]
    rw [joinOk_congr rfl ((headPar_append_of_ne _ l3 hR).trans (headPar_repeat k l2 hk)), h12]
    rfl

theorem alternates_expand3 (l1 l2 l3 : List Step) (hne : l2 ≠ [])
    (h1 : alternates l1 = true) (h2 : alternates l2 = true) (h3 : alternates l3 = true)
    (h22 : joinOk l2 l2 = true) (h12 : joinOk l1 l2 = true) (h23 : joinOk l2 l3 = true)
    (h13 : alternates (l1 ++ l3) = true) (N : Nat) :
    alternates (expand [⟨l1, .const 1⟩, ⟨l2, .nMinus 1⟩, ⟨l3, .const 1⟩] N) = true := by
  have := alternates_sandwich l1 l2 l3 hne h1 h2 h3 h22 h12 h23 h13 (N - 1)
  simpa [expand, Rep.count, repeatList] using this

theorem alternates_expand1 (l : List Step) (h : alternates l = true) (hj : joinOk l l = true) (N : Nat) :
    alternates (expand [⟨l, .nPlus 0⟩] N) = true := by
  simpa [expand, Rep.count] using alternates_repeat N l h hj

end TenpyModel.C14
