import TenpyModel.C14.FuseProofs
/-!
# C14 (Props2) — palindromic (time-reversal symmetric) schedules

The merged symmetric decompositions have the shape `[x] ++ X ++ ([y] ++ X) * (N-1) ++ [x]` with a
palindromic core `X`; such a list equals its reverse for every `N`.
-/
namespace TenpyModel.C14

theorem repeatList_nil {β : Type} (k : Nat) : repeatList k ([] : List β) = [] := by
  induction k with
  | zero => rfl
  | succ k ih => show [] ++ repeatList k [] = []; rw [ih]; rfl

theorem reverse_repeatList {β : Type} (k : Nat) (l : List β) :
    (repeatList k l).reverse = repeatList k l.reverse := by
  induction k with
  | zero => rfl
  | succ k ih =>
    show (l ++ repeatList k l).reverse = _
    rw [List.reverse_append, ih, repeatList_succ']

/-- `X ++ (y ++ X)^k = (X ++ y)^k ++ X` -/
theorem repeat_shift' {β : Type} (X y : List β) (k : Nat) :
    X ++ repeatList k (y ++ X) = repeatList k (X ++ y) ++ X := by
  induction k with
  | zero => simp [repeatList]
  | succ k ih =>
    show X ++ ((y ++ X) ++ repeatList k (y ++ X)) = ((X ++ y) ++ repeatList k (X ++ y)) ++ X
    rw [List.append_assoc, List.append_assoc, List.append_assoc, ← ih]

/-- a palindromic core repeated with a one-element separator is a palindrome -/
theorem palindrome_core {β : Type} (X : List β) (y : β) (hX : X.reverse = X) (k : Nat) :
    (X ++ repeatList k (y :: X)).reverse = X ++ repeatList k (y :: X) := by
  rw [List.reverse_append, reverse_repeatList, List.reverse_cons, hX]
  exact (repeat_shift' X [y] k).symm

/-- `x X (y X)^k x` is a palindrome -/
theorem palindrome_sandwich {β : Type} (x y : β) (X : List β) (hX : X.reverse = X) (k : Nat) :
    ((x :: X) ++ (repeatList k (y :: X) ++ [x])).reverse = (x :: X) ++ (repeatList k (y :: X) ++ [x]) := by
  have h := palindrome_core X y hX k
  have e : (x :: X) ++ (repeatList k (y :: X) ++ [x]) = x :: ((X ++ repeatList k (y :: X)) ++ [x]) := by
    simp [List.append_assoc]
  rw [e, List.reverse_cons, List.reverse_append, h]
  rfl

/-- the three-segment shape `[x X] + [y X] * (N-1) + [x]` of the merged symmetric decompositions -/
theorem palindrome_expand3 (x y : Step) (X : List Step) (hX : X.reverse = X) (N : Nat) :
    (expand [⟨x :: X, .const 1⟩, ⟨y :: X, .nMinus 1⟩, ⟨[x], .const 1⟩] N).reverse
      = expand [⟨x :: X, .const 1⟩, ⟨y :: X, .nMinus 1⟩, ⟨[x], .const 1⟩] N := by
  have hexp : expand [⟨x :: X, .const 1⟩, ⟨y :: X, .nMinus 1⟩, ⟨[x], .const 1⟩] N
      = (x :: X) ++ (repeatList (N - 1) (y :: X) ++ [x]) := by
    simp [expand, Rep.count, repeatList]
  rw [hexp]
  exact palindrome_sandwich x y X hX (N - 1)

theorem palindrome_decomposition3 (t : OrderTable) (x y : Step) (X : List Step)
    (hs : t.segs = [⟨x :: X, .const 1⟩, ⟨y :: X, .nMinus 1⟩, ⟨[x], .const 1⟩])
    (hX : X.reverse = X) (N : Nat) : (decomposition t N).reverse = decomposition t N := by
  unfold decomposition
  split
  · rfl
  · rw [hs]
    exact palindrome_expand3 x y X hX N

/-- first and last element of `(a :: b :: r)^(k+1)` -/
theorem repeat_head_last {β : Type} (a b : β) (k : Nat) :
    ∃ mid, repeatList (k + 1) [a, b] = a :: (mid ++ [b]) := by
  induction k with
  | zero => exact ⟨[], rfl⟩
  | succ k ih =>
    obtain ⟨mid, h⟩ := ih
    refine ⟨b :: a :: mid, ?_⟩
    show [a, b] ++ repeatList (k + 1) [a, b] = _
    rw [h]; rfl

/-- `[a, b] * N` with `a ≠ b` is never a palindrome for `N ≥ 1` -/
theorem not_palindrome_repeat2 {β : Type} (a b : β) (hab : a ≠ b) (N : Nat) (hN : N ≠ 0) :
    (repeatList N [a, b]).reverse ≠ repeatList N [a, b] := by
  obtain ⟨k, rfl⟩ : ∃ k, N = k + 1 := ⟨N - 1, by omega⟩
  obtain ⟨mid, h⟩ := repeat_head_last a b k
  rw [h]
  intro hrev
  have : (a :: (mid ++ [b])).reverse = b :: (mid.reverse ++ [a]) := by simp
  rw [this] at hrev
  exact hab (List.cons.inj hrev).1.symm

end TenpyModel.C14
