import TenpyModel.C14.P2_Dense
import TenpyModel.C14.P2_Charge
import TenpyModel.C14.P2_Palindrome
import TenpyModel.C14.PropsSchedule
import TenpyModel.Gen.C14Trotter
import Mathlib.NumberTheory.Zsqrtd.Basic
/-!
# C14 (Props2) — unitary gates keep the norm, `qtotal = 0` gates keep the charge, symmetric schedules

Dense (truncation-free) model of `TEBDEngine.evolve` (`P2_Dense.lean`): the state is a vector `ψ : ι → 𝕜`
over any commutative star ring `𝕜` (ℂ, ℝ, every `RCLike` field, ℤ[i], …; `normSq ψ = star ψ ⬝ᵥ ψ = Σ ψ̄ᵢ ψᵢ`),
`G j b : Matrix ι ι 𝕜` is the full-space operator of the gate `self._U[j][b]`, and

  `evolveDense G t L finite N ψ`
     = fold over `decomposition t N` (the schedule model of Trotter.lean, tables regenerated from the source),
       each step `(j, parity)` applying `G j b *ᵥ ·` for `b ∈ bondsOf L finite parity` in order
     = fold over `tebdUpdates t L finite N` (`evolveDense_eq_foldl_updates`; that list of `(U_idx_dt, i_bond)`
       is what the harness compares with `self._update_index` of the real `update_bond` calls).

All three groups of statements hold for **every** step list; the instances for the actual
`suzuki_trotter_decomposition` are stated for the regenerated `Gen.C14.tables`.
-/
open TenpyModel.C14 TenpyModel.Gen.C14 Matrix

set_option linter.unusedSectionVars false

/-! ## concrete gates for the non-vacuity examples: two qubits over the Gaussian integers ℤ[i] -/
namespace TenpyModel.C14.P2Ex

/-- ℤ[i] (exact complex arithmetic, decidable equality, `star` = complex conjugation) -/
abbrev GI := Zsqrtd (-1)
def Ii : GI := ⟨0, 1⟩

/-- iSWAP: `|00⟩ ↦ |00⟩, |01⟩ ↦ i|10⟩, |10⟩ ↦ i|01⟩, |11⟩ ↦ |11⟩` -/
def iswap : Matrix (Fin 2 × Fin 2) (Fin 2 × Fin 2) GI :=
  fun x y => if x = y ∧ x.1 = x.2 then 1 else if x.1 = y.2 ∧ x.2 = y.1 ∧ x.1 ≠ x.2 then Ii else 0

/-- diagonal phase gate `diag(1, i, -i, -1)` -/
def phase : Matrix (Fin 2 × Fin 2) (Fin 2 × Fin 2) GI :=
  fun x y => if x ≠ y then 0 else if x = (0, 0) then 1 else if x = (0, 1) then Ii else if x = (1, 0) then -Ii else -1

/-- a Hadamard-like gate `[[1, 1], [1, -1]] ⊗ 1`: **not** unitary over ℤ[i] (`Uᴴ U = 2`), not charge conserving -/
def hadamardish : Matrix (Fin 2 × Fin 2) (Fin 2 × Fin 2) GI :=
  fun x y => if x.2 ≠ y.2 then 0 else if x.1 = 1 ∧ y.1 = 1 then -1 else 1

/-- `self._U[j]`: different gates for different time-step indices -/
def gate (j : Nat) : Matrix (Fin 2 × Fin 2) (Fin 2 × Fin 2) GI := if j % 2 = 0 then iswap else phase

/-- occupation number of one qubit as the charge -/
def qs : Fin 2 → Int := fun s => s.val

/-- a two-site state in the one-particle sector: `(1+2i)|01⟩ + 3|10⟩` -/
def psi2 : Fin 2 × Fin 2 → GI := fun x => if x = (0, 1) then ⟨1, 2⟩ else if x = (1, 0) then 3 else 0

/-- three qubits -/
abbrev I3 := Fin 2 × Fin 2 × Fin 2

/-- bond 1 = sites (0, 1): nothing to the left, site 2 to the right -/
def e1 : I3 ≃ (Unit × (Fin 2 × Fin 2)) × Fin 2 where
  toFun x := (((), (x.1, x.2.1)), x.2.2)
  invFun y := (y.1.2.1, y.1.2.2, y.2)
  left_inv _ := rfl
  right_inv _ := rfl

/-- bond 2 = sites (1, 2): site 0 to the left, nothing to the right -/
def e2 : I3 ≃ (Fin 2 × (Fin 2 × Fin 2)) × Unit where
  toFun x := ((x.1, (x.2.1, x.2.2)), ())
  invFun y := (y.1.1, y.1.2.1, y.1.2.2)
  left_inv _ := rfl
  right_inv _ := rfl

/-- full-space gates of a finite 3-site chain (`bondsOf 3 true 1 = [1]`, `bondsOf 3 true 0 = [2]`) -/
def G3 (j b : Nat) : Matrix I3 I3 GI := if b = 1 then embedGate e1 (gate j) else embedGate e2 (gate j)

/-- total occupation of three qubits -/
def q3 : I3 → Int := fun x => qs x.1 + qs x.2.1 + qs x.2.2

/-- `(1+2i)|001⟩ + 3|010⟩ - i|100⟩`: one particle -/
def psi3 : I3 → GI :=
  fun x => if x = (0, 0, 1) then ⟨1, 2⟩ else if x = (0, 1, 0) then 3 else if x = (1, 0, 0) then -Ii else 0

theorem iswap_unitary : iswap ∈ Matrix.unitaryGroup (Fin 2 × Fin 2) GI := by
  rw [mem_unitaryGroup_iff']; decide

theorem phase_unitary : phase ∈ Matrix.unitaryGroup (Fin 2 × Fin 2) GI := by
  rw [mem_unitaryGroup_iff']; decide

theorem gate_unitary (j : Nat) : gate j ∈ Matrix.unitaryGroup (Fin 2 × Fin 2) GI := by
  unfold gate; split
  · exact iswap_unitary
  · exact phase_unitary

theorem gate_charge (j : Nat) : ChargeConserving (qPair qs qs) (gate j) := by
  unfold gate; split <;> decide

end TenpyModel.C14.P2Ex
open TenpyModel.C14.P2Ex

/-! ## 1. unitary gates ⇒ the norm is constant -/

section norm
variable {ι 𝕜 : Type} [Fintype ι] [DecidableEq ι] [CommRing 𝕜] [StarRing 𝕜]

/-- **isometry lemma**: `Uᴴ U = 1 → ‖Uψ‖² = ‖ψ‖²` (and all inner products: `⟨Uφ, Uψ⟩ = ⟨φ, ψ⟩`) -/
theorem C14_isometry_norm (U : Matrix ι ι 𝕜) (hU : star U * U = 1) (φ ψ : ι → 𝕜) :
    star (U *ᵥ φ) ⬝ᵥ (U *ᵥ ψ) = star φ ⬝ᵥ ψ ∧ normSq (U *ᵥ ψ) = normSq ψ :=
  ⟨inner_mulVec_of_isometry U hU φ ψ, normSq_mulVec_of_isometry U hU ψ⟩

example : star iswap * iswap = 1 ∧ normSq (iswap *ᵥ psi2) = normSq psi2 ∧ iswap *ᵥ psi2 ≠ psi2 ∧
    normSq psi2 = 14 := by decide

/-- a non-unitary gate does change the norm (the hypothesis is needed) -/
example : star hadamardish * hadamardish ≠ 1 ∧ normSq (hadamardish *ᵥ psi2) ≠ normSq psi2 := by decide

/-- **embedding of a two-site gate is unitary**: `U` unitary ⇒ `1 ⊗ₖ U ⊗ₖ 1` unitary
(`embedK l r U = (1 ⊗ₖ U) ⊗ₖ 1` on the index set `(l × m) × r`) -/
theorem C14_unitary_embed {l m r : Type} [Fintype l] [DecidableEq l] [Fintype m] [DecidableEq m]
    [Fintype r] [DecidableEq r] (U : Matrix m m 𝕜) (hU : U ∈ Matrix.unitaryGroup m 𝕜) :
    Matrix.kroneckerMap (· * ·) (Matrix.kroneckerMap (· * ·) (1 : Matrix l l 𝕜) U) (1 : Matrix r r 𝕜)
      ∈ Matrix.unitaryGroup ((l × m) × r) 𝕜 :=
  embedK_unitary U hU

/-- the same for the gate transported to the full-space index set along `ι ≃ (left × gate legs) × right` -/
theorem C14_unitary_embed_gate {l m r : Type} [Fintype l] [DecidableEq l] [Fintype m] [DecidableEq m]
    [Fintype r] [DecidableEq r] (e : ι ≃ (l × m) × r) (U : Matrix m m 𝕜)
    (hU : U ∈ Matrix.unitaryGroup m 𝕜) : embedGate e U ∈ Matrix.unitaryGroup ι 𝕜 :=
  embedGate_unitary e U hU

example : star (embedGate e2 iswap) * embedGate e2 iswap = 1 ∧ embedGate e2 iswap ≠ 1 := by decide

theorem TenpyModel.C14.P2Ex.G3_unitary (j b : Nat) : G3 j b ∈ Matrix.unitaryGroup I3 GI := by
  unfold G3; split
  · exact C14_unitary_embed_gate e1 _ (gate_unitary j)
  · exact C14_unitary_embed_gate e2 _ (gate_unitary j)

/-- **any schedule** (any list of steps, any assignment of bonds to parities) of unitary gates keeps `‖ψ‖²` -/
theorem C14_unitary_norm_steps (G : Nat → Nat → Matrix ι ι 𝕜) (hG : ∀ j b, G j b ∈ Matrix.unitaryGroup ι 𝕜)
    (bonds : Nat → List Nat) (steps : List Step) (ψ : ι → 𝕜) :
    normSq (applySteps G bonds steps ψ) = normSq ψ :=
  applySteps_invariant (fun φ => normSq φ = normSq ψ) G
    (fun j b φ h => (normSq_mulVec_of_unitary (G j b) (hG j b) φ).trans h) bonds steps ψ rfl

example : normSq (applySteps G3 (bondsOf 3 true) [(0, 1), (1, 0), (1, 0), (0, 0), (2, 1)] psi3) = normSq psi3 ∧
    applySteps G3 (bondsOf 3 true) [(0, 1), (1, 0), (1, 0), (0, 0), (2, 1)] psi3 ≠ psi3 := by decide +kernel

/-- **`C14_unitary_norm`**: for every order the source knows, every `N_steps`, every chain length and boundary
condition and every family of unitary full-space gates, the truncation-free `TEBDEngine.evolve(N_steps, dt)`
keeps the norm: `star (evolve ψ) ⬝ᵥ (evolve ψ) = star ψ ⬝ᵥ ψ`. -/
theorem C14_unitary_norm (G : Nat → Nat → Matrix ι ι 𝕜) (hG : ∀ j b, G j b ∈ Matrix.unitaryGroup ι 𝕜) :
    ∀ t ∈ tables, ∀ (L : Nat) (finite : Bool) (N : Nat) (ψ : ι → 𝕜),
      star (evolveDense G t L finite N ψ) ⬝ᵥ evolveDense G t L finite N ψ = star ψ ⬝ᵥ ψ :=
  fun t _ L finite N ψ => C14_unitary_norm_steps G hG (bondsOf L finite) (decomposition t N) ψ

/-- order 4_opt, two steps (21 schedule steps, 21 gate applications on the 3-site chain, three different gates
per bond): the norm² stays 15 and the state has moved -/
example : normSq (evolveDense G3 table_4opt 3 true 2 psi3) = normSq psi3 ∧ normSq psi3 = 15 ∧
    evolveDense G3 table_4opt 3 true 2 psi3 ≠ psi3 := by decide +kernel

/-- the whole schedule is one unitary operator: `evolve ψ = M *ᵥ ψ` with `M ∈ U(ι)`, hence all inner
products (overlaps between evolved states) are kept as well -/
theorem C14_unitary_operator (G : Nat → Nat → Matrix ι ι 𝕜) (hG : ∀ j b, G j b ∈ Matrix.unitaryGroup ι 𝕜) :
    ∀ t ∈ tables, ∀ (L : Nat) (finite : Bool) (N : Nat),
      stepsMatrix G (bondsOf L finite) (decomposition t N) ∈ Matrix.unitaryGroup ι 𝕜 ∧
      (∀ ψ, evolveDense G t L finite N ψ = stepsMatrix G (bondsOf L finite) (decomposition t N) *ᵥ ψ) ∧
      (∀ φ ψ, star (evolveDense G t L finite N φ) ⬝ᵥ evolveDense G t L finite N ψ = star φ ⬝ᵥ ψ) := by
  intro t _ L finite N
  have hM := stepsMatrix_mem (Matrix.unitaryGroup ι 𝕜) G hG (bondsOf L finite) (decomposition t N)
  have hE : ∀ ψ, evolveDense G t L finite N ψ = stepsMatrix G (bondsOf L finite) (decomposition t N) *ᵥ ψ :=
    fun ψ => applySteps_eq_mulVec G (bondsOf L finite) (decomposition t N) ψ
  refine ⟨hM, hE, fun φ ψ => ?_⟩
  rw [hE, hE]
  exact inner_mulVec_of_isometry _ (mem_unitaryGroup_iff'.mp hM) φ ψ

/-- two sites, order 4, one step (six gates on the only bond) -/
example : stepsMatrix (fun j _ => gate j) (bondsOf 2 true) (decomposition table_4 1) *ᵥ psi2
      = evolveDense (fun j _ => gate j) table_4 2 true 1 psi2 ∧
    stepsMatrix (fun j _ => gate j) (bondsOf 2 true) (decomposition table_4 1) ≠ 1 := by decide +kernel

/-- the statement for two-site gates: `self._U[j][b]` is a unitary `U j b` on the two sites of bond `b`
(index set `m`, e.g. `σ × σ`), the full space splits at bond `b` as `ι ≃ (left_b × m) × right_b`. -/
theorem C14_unitary_norm_two_site {m : Type} [Fintype m] [DecidableEq m] (l r : Nat → Type)
    [∀ b, Fintype (l b)] [∀ b, DecidableEq (l b)] [∀ b, Fintype (r b)] [∀ b, DecidableEq (r b)]
    (e : ∀ b, ι ≃ (l b × m) × r b) (U : Nat → Nat → Matrix m m 𝕜)
    (hU : ∀ j b, U j b ∈ Matrix.unitaryGroup m 𝕜) :
    ∀ t ∈ tables, ∀ (L : Nat) (finite : Bool) (N : Nat) (ψ : ι → 𝕜),
      normSq (evolveDense (fun j b => embedGate (e b) (U j b)) t L finite N ψ) = normSq ψ :=
  C14_unitary_norm _ (fun j b => embedGate_unitary (e b) (U j b) (hU j b))

/-- two sites, one bond, no spectators -/
example : ∀ t ∈ tables, ∀ (L : Nat) (finite : Bool) (N : Nat) (ψ : (Unit × (Fin 2 × Fin 2)) × Unit → GI),
    normSq (evolveDense (fun j _ => embedGate (Equiv.refl _) (gate j)) t L finite N ψ) = normSq ψ :=
  C14_unitary_norm_two_site (fun _ => Unit) (fun _ => Unit) (fun _ => Equiv.refl _) (fun j _ => gate j)
    (fun j _ => gate_unitary j)

end norm

/-! ## 2. gates with `qtotal = 0` ⇒ the total charge is constant -/

section charge
variable {ι 𝕜 Q : Type} [Fintype ι] [DecidableEq ι]

/-- products (and the identity) of charge-conserving matrices are charge conserving -/
theorem C14_charge_mul [Semiring 𝕜] (q : ι → Q) (A B : Matrix ι ι 𝕜) (hA : ChargeConserving q A)
    (hB : ChargeConserving q B) :
    ChargeConserving q (A * B) ∧ ChargeConserving q (1 : Matrix ι ι 𝕜) :=
  ⟨chargeConserving_mul q A B hA hB, chargeConserving_one q⟩

example : ChargeConserving (qPair qs qs) iswap ∧ ChargeConserving (qPair qs qs) phase ∧
    ChargeConserving (qPair qs qs) (iswap * phase) ∧ iswap * phase ≠ phase * iswap := by decide

/-- one charge-conserving gate keeps a state in its sector -/
theorem C14_charge_gate [Semiring 𝕜] (q : ι → Q) (c : Q) (A : Matrix ι ι 𝕜) (hA : ChargeConserving q A)
    (ψ : ι → 𝕜) (hψ : InSector q c ψ) : InSector q c (A *ᵥ ψ) :=
  inSector_mulVec q c A hA ψ hψ

example : InSector (qPair qs qs) 1 psi2 ∧ InSector (qPair qs qs) 1 (iswap *ᵥ psi2) ∧ psi2 ≠ 0 := by decide

/-- a gate that is not block diagonal leaves the sector (the hypothesis is needed) -/
example : ¬ ChargeConserving (qPair qs qs) hadamardish ∧ ¬ InSector (qPair qs qs) 1 (hadamardish *ᵥ psi2) := by
  decide

/-- **embedding**: a gate conserving `qU` on its own legs, embedded as `1 ⊗ₖ U ⊗ₖ 1`, conserves the total charge
`qL + qU + qR` of the basis states `((left, gate legs), right)` -/
theorem C14_charge_embed [MulZeroOneClass 𝕜] [Add Q] {l m r : Type} [DecidableEq l] [DecidableEq r]
    (qL : l → Q) (qU : m → Q) (qR : r → Q) (U : Matrix m m 𝕜) (hU : ChargeConserving qU U) :
    ChargeConserving (fun x : (l × m) × r => qL x.1.1 + qU x.1.2 + qR x.2)
      (Matrix.kroneckerMap (· * ·) (Matrix.kroneckerMap (· * ·) (1 : Matrix l l 𝕜) U) (1 : Matrix r r 𝕜)) :=
  embedK_chargeConserving qL qU qR U hU

/-- two-site gate conserving `q_site(s₁) + q_site(s₂)`, embedded in a full space `ι ≃ (left × (σ × σ)) × right`:
conserves `q_left + q_site + q_site + q_right` -/
theorem C14_charge_embed_gate [MulZeroOneClass 𝕜] [Add Q] {l σ r : Type} [DecidableEq l] [DecidableEq r]
    (e : ι ≃ (l × (σ × σ)) × r) (qL : l → Q) (qs : σ → Q) (qR : r → Q) (U : Matrix (σ × σ) (σ × σ) 𝕜)
    (hU : ChargeConserving (fun s : σ × σ => qs s.1 + qs s.2) U) :
    ChargeConserving (fun i => qL (e i).1.1 + (qs (e i).1.2.1 + qs (e i).1.2.2) + qR (e i).2) (embedGate e U) :=
  embedGate_chargeConserving e qL (fun s : σ × σ => qs s.1 + qs s.2) qR U hU

example : ChargeConserving q3 (embedGate e2 iswap) ∧ ChargeConserving q3 (embedGate e1 phase) := by decide

theorem TenpyModel.C14.P2Ex.G3_charge (j b : Nat) : ChargeConserving q3 (G3 j b) := by
  have h1 : q3 = fun i => (fun _ : Unit => (0 : Int)) (e1 i).1.1 + (qs (e1 i).1.2.1 + qs (e1 i).1.2.2) + qs (e1 i).2 := by
    funext x; simp [q3, e1]
  have h2 : q3 = fun i => qs (e2 i).1.1 + (qs (e2 i).1.2.1 + qs (e2 i).1.2.2) + (fun _ : Unit => (0 : Int)) (e2 i).2 := by
    funext x; simp [q3, e2, add_assoc]
  unfold G3; split
  · rw [h1]; exact C14_charge_embed_gate e1 (fun _ : Unit => (0 : Int)) qs qs _ (gate_charge j)
  · rw [h2]; exact C14_charge_embed_gate e2 qs qs (fun _ : Unit => (0 : Int)) _ (gate_charge j)

/-- **any schedule** of charge-conserving gates maps sector `c` to sector `c` -/
theorem C14_charge_steps [Semiring 𝕜] (q : ι → Q) (c : Q) (G : Nat → Nat → Matrix ι ι 𝕜)
    (hG : ∀ j b, ChargeConserving q (G j b)) (bonds : Nat → List Nat) (steps : List Step) (ψ : ι → 𝕜)
    (hψ : InSector q c ψ) : InSector q c (applySteps G bonds steps ψ) :=
  applySteps_invariant (InSector q c) G (fun j b φ h => inSector_mulVec q c (G j b) (hG j b) φ h) bonds steps ψ hψ

example : InSector q3 1 psi3 ∧
    InSector q3 1 (applySteps G3 (bondsOf 3 true) [(0, 1), (1, 0), (1, 0), (0, 0), (2, 1)] psi3) := by decide +kernel

/-- **`C14_charge`**: for every order of the source, every `N_steps`, chain length and boundary condition: if all
gates are block diagonal in the charge (`qtotal = 0`), a state of total charge `c` evolves into a state of total
charge `c` (every non-zero amplitude of the evolved vector sits on a basis state of charge `c`), and the operator
of the whole schedule is itself block diagonal. -/
theorem C14_charge [Semiring 𝕜] (q : ι → Q) (G : Nat → Nat → Matrix ι ι 𝕜)
    (hG : ∀ j b, ChargeConserving q (G j b)) :
    ∀ t ∈ tables, ∀ (L : Nat) (finite : Bool) (N : Nat),
      (∀ (c : Q) (ψ : ι → 𝕜), InSector q c ψ → InSector q c (evolveDense G t L finite N ψ)) ∧
      ChargeConserving q (stepsMatrix G (bondsOf L finite) (decomposition t N)) :=
  fun t _ L finite N =>
    ⟨fun c ψ hψ => C14_charge_steps q c G hG (bondsOf L finite) (decomposition t N) ψ hψ,
     stepsMatrix_mem (chargeSubmonoid q) G hG (bondsOf L finite) (decomposition t N)⟩

/-- order 4, two steps on the 3-site chain: the one-particle state stays a one-particle state, it has moved, and
it now has weight on a basis state it did not have before -/
example : InSector q3 1 psi3 ∧ InSector q3 1 (evolveDense G3 table_4 3 true 2 psi3) ∧
    evolveDense G3 table_4 3 true 2 psi3 ≠ psi3 := by decide +kernel

/-- the operator of the order-4 step on two sites is block diagonal and not the identity -/
example : ChargeConserving (qPair qs qs) (stepsMatrix (fun j _ => gate j) (bondsOf 2 true) (decomposition table_4 1)) ∧
    stepsMatrix (fun j _ => gate j) (bondsOf 2 true) (decomposition table_4 1) ≠ 1 := by decide +kernel

/-- the statement for two-site gates conserving `q_site + q_site`, the total charge being additive over the
splitting `ι ≃ (left_b × (σ × σ)) × right_b` at every bond -/
theorem C14_charge_two_site [Semiring 𝕜] [Add Q] {σ : Type} (l r : Nat → Type)
    [∀ b, DecidableEq (l b)] [∀ b, DecidableEq (r b)]
    (e : ∀ b, ι ≃ (l b × (σ × σ)) × r b) (qL : ∀ b, l b → Q) (qs : σ → Q) (qR : ∀ b, r b → Q) (q : ι → Q)
    (hq : ∀ b i, q i = qL b (e b i).1.1 + (qs (e b i).1.2.1 + qs (e b i).1.2.2) + qR b (e b i).2)
    (U : Nat → Nat → Matrix (σ × σ) (σ × σ) 𝕜)
    (hU : ∀ j b, ChargeConserving (fun s : σ × σ => qs s.1 + qs s.2) (U j b)) :
    ∀ t ∈ tables, ∀ (L : Nat) (finite : Bool) (N : Nat) (c : Q) (ψ : ι → 𝕜), InSector q c ψ →
      InSector q c (evolveDense (fun j b => embedGate (e b) (U j b)) t L finite N ψ) := by
  intro t ht L finite N c ψ hψ
  refine (C14_charge q _ ?_ t ht L finite N).1 c ψ hψ
  intro j b
  have h := C14_charge_embed_gate (e b) (qL b) qs (qR b) (U j b) (hU j b)
  have hqb : q = fun i => qL b (e b i).1.1 + (qs (e b i).1.2.1 + qs (e b i).1.2.2) + qR b (e b i).2 :=
    funext (hq b)
  rw [hqb]; exact h

example : ∀ t ∈ tables, ∀ (L : Nat) (finite : Bool) (N : Nat) (c : Int)
    (ψ : (Unit × (Fin 2 × Fin 2)) × Unit → GI),
    InSector (fun i => 0 + (qs i.1.2.1 + qs i.1.2.2) + 0) c ψ →
    InSector (fun i => 0 + (qs i.1.2.1 + qs i.1.2.2) + 0) c
      (evolveDense (fun j _ => embedGate (Equiv.refl _) (gate j)) t L finite N ψ) :=
  C14_charge_two_site (fun _ => Unit) (fun _ => Unit) (fun _ => Equiv.refl _) (fun _ _ => 0) qs (fun _ _ => 0) _
    (fun _ _ => rfl) (fun j _ => gate j) (fun j _ => gate_charge j)

end charge

/-! ## 3. the merged second- and fourth-order schedules are palindromes

Checked on the regenerated tables (`#eval` for `N ≤ 6`, then proved for every `N`): already the list of
`(time-step index, parity)` pairs equals its reverse for the orders 2, 4 and '4_opt' — the doubled first/last
gate (`a2`, `a1_twice`) only occurs in the interior, at mirror-symmetric positions — hence so does the list of
`(coefficient, parity)` pairs for any valuation of the coefficients.  Order 1 (`[a, b] * N`) is not symmetric
for any `N ≥ 1`. -/

/-- order 2: `a b [a2 b]*(N-1) a` read backwards is itself, every `N` -/
theorem C14_schedule_palindrome_order2 (N : Nat) :
    (decomposition table_2 N).reverse = decomposition table_2 N :=
  palindrome_decomposition3 table_2 _ _ _ rfl (by decide) N

/-- order 4 -/
theorem C14_schedule_palindrome_order4 (N : Nat) :
    (decomposition table_4 N).reverse = decomposition table_4 N :=
  palindrome_decomposition3 table_4 _ _ _ rfl (by decide) N

/-- order '4_opt' -/
theorem C14_schedule_palindrome_order4opt (N : Nat) :
    (decomposition table_4opt N).reverse = decomposition table_4opt N :=
  palindrome_decomposition3 table_4opt _ _ _ rfl (by decide) N

/-- **every order of the source except the first, every `N_steps`**: the schedule is a palindrome in
`(index, parity)` -/
theorem C14_schedule_palindrome : ∀ t ∈ tables, t.name ≠ "1" → ∀ N : Nat,
    (decomposition t N).reverse = decomposition t N := by
  intro t ht hname N
  simp only [tables, List.mem_cons, List.not_mem_nil, or_false] at ht
  rcases ht with rfl | rfl | rfl | rfl
  · exact absurd rfl hname
  · exact C14_schedule_palindrome_order2 N
  · exact C14_schedule_palindrome_order4 N
  · exact C14_schedule_palindrome_order4opt N

example : decomposition table_4opt 2 =
    [(0, 1), (1, 0), (2, 1), (3, 0), (4, 1), (5, 0), (4, 1), (3, 0), (2, 1), (1, 0),
     (6, 1), (1, 0), (2, 1), (3, 0), (4, 1), (5, 0), (4, 1), (3, 0), (2, 1), (1, 0), (0, 1)] ∧
    (decomposition table_4opt 2).reverse = decomposition table_4opt 2 := by decide

/-- the same at the level of `(time-step coefficient, parity)`, the coefficients in any field and the irrational
constant any element of it -/
theorem C14_schedule_palindrome_timed {α : Type} [Field α] (c : Nat → α) :
    ∀ t ∈ tables, t.name ≠ "1" → ∀ N : Nat,
      (timed (t.times c) (decomposition t N)).reverse = timed (t.times c) (decomposition t N) := by
  intro t ht hname N
  unfold timed
  rw [← List.map_reverse, C14_schedule_palindrome t ht hname N]

example : timed (table_2.times (fun _ => (0 : ℚ))) (decomposition table_2 2)
    = [(1/2, 1), (1, 0), (1, 1), (1, 0), (1/2, 1)] := by
  simp [decomposition, table_2, segs_2, timeSteps_2, OrderTable.times, CExpr.eval, expand, Rep.count, repeatList,
    timed]

/-- order 1 is **not** a palindrome: `[(0, odd), (0, even)]` for one step -/
theorem C14_schedule_palindrome_counterexample :
    (decomposition table_1 1).reverse ≠ decomposition table_1 1 := by decide

/-- … for no `N_steps ≥ 1` -/
theorem C14_schedule_palindrome_order1_never (N : Nat) (hN : N ≠ 0) :
    (decomposition table_1 N).reverse ≠ decomposition table_1 N := by
  have h : decomposition table_1 N = repeatList N [(0, 1), (0, 0)] := by
    obtain ⟨k, rfl⟩ : ∃ k, N = k + 1 := ⟨N - 1, by omega⟩
    rw [decomposition_succ]
    simp [table_1, segs_1, expand, Rep.count]
  rw [h]
  exact not_palindrome_repeat2 _ _ (by decide) N hN

example : decomposition table_1 2 = [(0, 1), (0, 0), (0, 1), (0, 0)] ∧
    (decomposition table_1 2).reverse = [(0, 0), (0, 1), (0, 0), (0, 1)] := by decide
