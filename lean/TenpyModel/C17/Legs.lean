/-
Executable model of the HDF5 field layouts of `tenpy/linalg/charges.py` (import-free):
`ChargeInfo.save_hdf5/from_hdf5`, `DipolarChargeInfo.save_hdf5/from_hdf5` (with the repaired call of
`__setstate__`), and `LegCharge.save_hdf5/from_hdf5` in the three formats
`"blocks"`, `"compact"`, `"flat"` selected by `Hdf5Saver.format_selection["LegCharge"]`.

Integers are exact (`slices`: `np.intp`, `charges`: `QTYPE = int64`); the `chinfo` sub-object is a
reference handled by the graph model (`Graph.lean`) and only carried along here.
-/
namespace TenpyModel.C17

/-! ### ChargeInfo -/

structure ChargeInfo where
  mod   : List Int
  names : List String
deriving DecidableEq, Repr

/-- what `ChargeInfo.save_hdf5` writes: attr `num_charges`, dataset `U1_ZN`, list `names` -/
structure ChargeInfoFile where
  numCharges : Nat
  u1zn  : List Int
  names : Option (List String)      -- "names" is optional on load
deriving DecidableEq, Repr

def ChargeInfo.encode (c : ChargeInfo) : ChargeInfoFile := ⟨c.mod.length, c.mod, some c.names⟩

/-- `__setstate__((qnumber, qmod, names))`: `_qnumber = mod.shape[0]`, `assert qnumber == _qnumber` -/
def ChargeInfo.setstate (qnumber : Nat) (qmod : List Int) (names : List String) : Option ChargeInfo :=
  if qnumber = qmod.length then some ⟨qmod, names⟩ else none

/-- `from_hdf5`: `qnumber = len(qmod)`; default names `[''] * qnumber` -/
def ChargeInfo.decode (f : ChargeInfoFile) : Option ChargeInfo :=
  ChargeInfo.setstate f.u1zn.length f.u1zn (f.names.getD (List.replicate f.u1zn.length ""))

structure DipolarInfo where
  base : ChargeInfo
  chargeIdcs : List Nat
  dipoleIdcs : List Nat
  dipoleDims : List Nat
deriving DecidableEq, Repr

structure DipolarFile where
  base : ChargeInfoFile
  chargeIdcs : List Nat
  dipoleIdcs : List Nat
  dipoleDims : List Nat
deriving DecidableEq, Repr

def DipolarInfo.encode (d : DipolarInfo) : DipolarFile :=
  ⟨d.base.encode, d.chargeIdcs, d.dipoleIdcs, d.dipoleDims⟩

/-- `DipolarChargeInfo.__setstate__(state)` takes ONE argument, the pair
`(super_state, (charge_idcs, dipole_idcs, dipole_dims))`. -/
def DipolarInfo.setstate (state : (Nat × List Int × List String) × (List Nat × List Nat × List Nat)) :
    Option DipolarInfo :=
  match ChargeInfo.setstate state.1.1 state.1.2.1 state.1.2.2 with
  | none => none
  | some b => some ⟨b, state.2.1, state.2.2.1, state.2.2.2⟩

/-- `DipolarChargeInfo.from_hdf5` (repaired: the two tuples are passed as one pair) -/
def DipolarInfo.decode (f : DipolarFile) : Option DipolarInfo :=
  DipolarInfo.setstate ((f.base.u1zn.length, f.base.u1zn,
      f.base.names.getD (List.replicate f.base.u1zn.length "")),
    (f.chargeIdcs, f.dipoleIdcs, f.dipoleDims))

/-! ### LegCharge -/

structure Leg where
  indLen      : Int
  blockNumber : Nat
  slices      : List Int          -- block_number + 1 entries
  charges     : List (List Int)   -- block_number rows of qnumber entries
  qconj       : Int
  sorted      : Bool
  bunched     : Bool
deriving DecidableEq, Repr

/-- group attributes + datasets written by `LegCharge.save_hdf5` (the `chinfo` link is not shown) -/
inductive LegFile where
  | blocks  (indLen qconj : Int) (blockNumber : Nat) (sorted bunched : Bool)
            (slices : List Int) (charges : List (List Int))
  | compact (indLen qconj : Int) (blockNumber : Nat) (sorted bunched : Bool)
            (blockcharges : List (List Int))
  | flat    (indLen qconj : Int) (charges : List (List Int))
deriving DecidableEq, Repr

/-- rows `[slices[i], slices[i+1]] ++ charges[i]` =
`np.hstack([slices[:-1, None], slices[1:, None], charges])` (zip stops with the shortest column; numpy
raises when the row counts differ, which `Leg.WF` excludes) -/
def hstackRows : List Int → List Int → List (List Int) → List (List Int)
  | a :: as, b :: bs, c :: cs => (a :: b :: c) :: hstackRows as bs cs
  | _, _, _ => []

/-- `to_qflat`: `qflat[start:stop] = ch` for `zip(slices[:-1], slices[1:], charges)` -/
def qflatRows : List Int → List Int → List (List Int) → List (List Int)
  | a :: as, b :: bs, c :: cs => List.replicate (b - a).toNat c ++ qflatRows as bs cs
  | _, _, _ => []

def Leg.toQflat (l : Leg) : List (List Int) := qflatRows l.slices.dropLast l.slices.tail l.charges

def Leg.encode (l : Leg) : String → Option LegFile
  | "blocks" => some (.blocks l.indLen l.qconj l.blockNumber l.sorted l.bunched l.slices l.charges)
  | "compact" => some (.compact l.indLen l.qconj l.blockNumber l.sorted l.bunched
      (hstackRows l.slices.dropLast l.slices.tail l.charges))
  | "flat" => some (.flat l.indLen l.qconj l.toQflat)
  | _ => none    -- `raise ValueError("Unknown format")`

/-- reversed-lexicographic `≤` of charge rows: the key order of `np.lexsort(charges.T)` (last
column is the primary key) -/
def lexLE : List Int → List Int → Bool
  | [], _ => true
  | _ :: _, [] => false
  | a :: as, b :: bs => a < b || (a == b && lexLE as bs)

def revLexLE (a b : List Int) : Bool := lexLE a.reverse b.reverse

def adjacentAll (r : List Int → List Int → Bool) : List (List Int) → Bool
  | a :: b :: rest => r a b && adjacentAll r (b :: rest)
  | _ => true

/-- `is_sorted`: the stable `lexsort` returns `arange` iff adjacent rows are non-decreasing;
`qnumber == 0` returns `True` at once -/
def isSorted (qnumber : Nat) (charges : List (List Int)) : Bool :=
  qnumber == 0 || adjacentAll revLexLE charges

/-- `is_bunched`: `len(_find_row_differences(charges)) == block_number + 1` -/
def isBunched (qnumber : Nat) (charges : List (List Int)) : Bool :=
  match charges with
  | [] => true                                   -- `[0]`: 1 == 0 + 1
  | _ => if qnumber == 0 then charges.length == 1  -- `[0, n]`: 2 == n + 1
         else adjacentAll (fun a b => a != b) charges

/-- `LegCharge.from_hdf5`.  `qnumber` is `chinfo.qnumber` of the loaded `chinfo`.
`compact`: `slices[:-1] = bc[:, 0]` needs `block_number` rows (numpy broadcast error otherwise);
`slices[-1] = ind_len` (repaired: the original read `bc[-1, 1]`, an `IndexError` for a leg without
blocks). -/
def LegFile.decode (qnumber : Nat) : LegFile → Option Leg
  | .blocks il qc bn s b sl ch => some ⟨il, bn, sl, ch, qc, s, b⟩
  | .compact il qc bn s b bc =>
    if bc.length = bn then
      some ⟨il, bn, bc.map (fun r => r.headD 0) ++ [il], bc.map (fun r => r.drop 2), qc, s, b⟩
    else none
  | .flat il qc ch =>
    some ⟨il, il.toNat, (List.range (il.toNat + 1)).map Int.ofNat, ch, qc,
          isSorted qnumber ch, isBunched qnumber ch⟩

/-- the part of `LegCharge.test_sanity` the formats rely on (shapes, `slices[-1] == ind_len`) -/
structure Leg.WF (l : Leg) : Prop where
  nslices  : l.slices.length = l.blockNumber + 1
  ncharges : l.charges.length = l.blockNumber
  last     : l.slices.getLast? = some l.indLen

end TenpyModel.C17
