import TenpyModel.Core.Arr
import TenpyModel.C17.Legs
/-!
# C17 / Props2 — field layouts of `LegPipe` and `Array` (HDF5) and the `__getstate__`/`__setstate__` pairs

Import-free of Mathlib (only the core tensor model `Core.Arr`/`Core.Pipe` and the leg layouts of `Legs.lean`).
Not run by the driver: these definitions are the statements' vocabulary; the byte-level correspondence of the
group trees is the job of the graph model + harness.

Source anchors
* `LegPipe.save_hdf5`  = `LegCharge.save_hdf5` (the pipe seen as a `LegCharge`: `format`, `ind_len`, `qconj`, `chinfo`,
  `block_number`, `sorted`, `bunched`, `slices`, `charges` / `blockcharges`) + `hdf5_saver.save(self.legs, 'legs')`.
* `LegPipe.from_hdf5` reads `sorted`, `bunched`, `qconj`, `legs` and runs `cls(legs, qconj, sorted, bunched)`;
  with the `flat` format the attributes `sorted`/`bunched` do not exist (`KeyError`; documented known finding).
* `Array.save_hdf5` / `Array.from_hdf5`: `chinfo`, `legs`, `dtype`, `total_charge`, `labels`, `blocks`, `block_inds`,
  attributes `block_inds_sorted`, `rank`, `shape` (the last two are written but not read: `_set_shape()`).
* `ChargeInfo.__getstate__/__setstate__`, `LegCharge.…`, `LegPipe.…`, `Array.…` (`__dict__`, then `_set_shape()`),
  `LegCharge.copy`, `LegPipe.copy`, `Array.copy(deep)`.
-/
namespace TenpyModel.C17.P2
open TenpyModel.Core (ALeg Pipe Arr Blk Label Charge Dense)

/-! ### bridge between the core leg model and the field record of `Legs.lean` -/

/-- the attributes of a `LegCharge` object as `save_hdf5` sees them (`ind_len`, `block_number` are attributes) -/
def toFields (l : Core.Leg) : Leg :=
  ⟨(l.indLen : Int), l.blockNumber, l.slices.map Int.ofNat, l.charges, l.qconj, l.sorted, l.bunched⟩

/-- the core leg of a loaded `LegCharge` with charge info `mods` (slices are `np.intp ≥ 0`) -/
def ofFields (mods : List Nat) (f : Leg) : Core.Leg :=
  ⟨mods, f.slices.map Int.toNat, f.charges, f.qconj, f.sorted, f.bunched⟩

/-- the shared `ChargeInfo` object: `mod` of the core model + the names -/
def chinfoOf (mods : List Nat) (names : List String) : ChargeInfo := ⟨mods.map Int.ofNat, names⟩
def modsOf (c : ChargeInfo) : List Nat := c.mod.map Int.toNat

/-! ### legs and pipes in the file (recursively: the incoming legs of a pipe are saved by their own class) -/

/-- one leg object in the file -/
inductive LegNode where
  /-- written by `LegCharge.save_hdf5` -/
  | charge (chinfo : ChargeInfoFile) (f : LegFile)
  /-- written by `LegPipe.save_hdf5`: the `LegCharge` part + the tuple `legs` -/
  | pipe (chinfo : ChargeInfoFile) (f : LegFile) (legs : List LegNode)

mutual
/-- `save_hdf5` of a leg (`LegCharge` or `LegPipe`, dispatch on the class); `none` = `ValueError("Unknown format")` -/
def encLeg (fmt : String) (names : List String) : ALeg → Option LegNode
  | .plain l =>
    match (toFields l).encode fmt with
    | none => none
    | some f => some (.charge (chinfoOf l.mods names).encode f)
  | .pipe p subs =>
    match (toFields p.leg).encode fmt, encLegs fmt names subs with
    | some f, some fs => some (.pipe (chinfoOf p.leg.mods names).encode f fs)
    | _, _ => none
/-- `save_tuple` / `save_list` of legs -/
def encLegs (fmt : String) (names : List String) : List ALeg → Option (List LegNode)
  | [] => some []
  | a :: as =>
    match encLeg fmt names a, encLegs fmt names as with
    | some x, some xs => some (x :: xs)
    | _, _ => none
end

/-- the three attributes `LegPipe.from_hdf5` reads: `(qconj, sorted, bunched)`; `none` = `KeyError` (`flat`) -/
def pipeAttrs : LegFile → Option (Int × Bool × Bool)
  | .blocks _ qc _ s b _ _ => some (qc, s, b)
  | .compact _ qc _ s b _ => some (qc, s, b)
  | .flat _ _ _ => none

mutual
/-- `from_hdf5` of a leg -/
def decLeg : LegNode → Option ALeg
  | .charge ci f =>
    match ChargeInfo.decode ci with
    | none => none
    | some c =>
      match f.decode c.mod.length with
      | none => none
      | some l => some (.plain (ofFields (modsOf c) l))
  | .pipe _ f legs =>
    match pipeAttrs f, decLegs legs with
    | some (qc, s, b), some subs => some (ALeg.mkPipe subs qc s b)   -- `cls(legs, qconj, sorted, bunched)`
    | _, _ => none
def decLegs : List LegNode → Option (List ALeg)
  | [] => some []
  | x :: xs =>
    match decLeg x, decLegs xs with
    | some a, some as => some (a :: as)
    | _, _ => none
end

/-! ### which legs the re-initialisation reproduces -/

/-- the `LegCharge` invariant the `compact` format relies on (`test_sanity`: one more slice than blocks) -/
def LeafOK (l : Core.Leg) : Prop := l.slices.length = l.charges.length + 1

instance (l : Core.Leg) : Decidable (LeafOK l) := by unfold LeafOK; infer_instance

/-- legs made of `LegCharge`s and of pipes *constructed by* `LegPipe(legs, qconj, sort, bunch)` (any nesting) -/
inductive Canon : ALeg → Prop where
  | plain (l : Core.Leg) (h : LeafOK l) : Canon (.plain l)
  | pipe (subs : List ALeg) (qconj : Int) (sort bunch : Bool) (h : ∀ a ∈ subs, Canon a) :
      Canon (ALeg.mkPipe subs qconj sort bunch)

/-! ### `Array` -/

/-- an `Array` object: the core tensor + the attributes the tensor model does not carry -/
structure SArr (α : Type) where
  arr   : Arr α
  dtype : String          -- `np.dtype`, stored by `save_dtype` as its `descr`
  names : List String     -- `chinfo.names`

/-- the group written by `Array.save_hdf5` -/
structure ArrFile (α : Type) where
  chinfo          : ChargeInfoFile
  legs            : List LegNode
  dtype           : String
  totalCharge     : List Int
  labels          : List (Option String)
  blocks          : List (List Nat × List α)     -- list of ndarrays: shape + C-order values
  blockInds       : List (List Int)              -- 2D `np.intp`
  blockIndsSorted : Bool                         -- attribute
  rank            : Nat                          -- attribute, not read back
  shape           : List Nat                     -- attribute, not read back

def SArr.encode {α : Type} (fmt : String) (a : SArr α) : Option (ArrFile α) :=
  match encLegs fmt a.names a.arr.legs with
  | none => none
  | some ls => some
    { chinfo := (chinfoOf a.arr.mods a.names).encode, legs := ls, dtype := a.dtype,
      totalCharge := a.arr.qtotal, labels := a.arr.labels,
      blocks := a.arr.data.map (fun b => (b.shape, b.vals)),
      blockInds := a.arr.qdata.map (fun r => r.map Int.ofNat),
      blockIndsSorted := a.arr.qdataSorted, rank := a.arr.rank, shape := a.arr.shape }

/-- `Array.from_hdf5`: fields, `_set_shape()` (`ValueError` for no legs), `test_sanity()` (as a parameter) -/
def ArrFile.decode {α : Type} (sane : SArr α → Bool) (f : ArrFile α) : Option (SArr α) :=
  match ChargeInfo.decode f.chinfo, decLegs f.legs with
  | some c, some ls =>
    if ls.isEmpty then none      -- `_set_shape`: "We don't allow 0-dimensional arrays"
    else
      let a : SArr α :=
        { arr := { mods := modsOf c, legs := ls, qtotal := f.totalCharge, labels := f.labels,
                   qdata := f.blockInds.map (fun r => r.map Int.toNat),
                   data := f.blocks.map (fun b => ⟨b.1, b.2⟩), qdataSorted := f.blockIndsSorted },
          dtype := f.dtype, names := c.names }
      if sane a then some a else none
  | _, _ => none

/-! ### `__getstate__` / `__setstate__` -/

/-- a `ChargeInfo` object with its derived attributes -/
structure CIObj where
  qnumber   : Nat           -- `_qnumber`
  mod       : List Int      -- `_mod`
  mask      : List Bool     -- `_mask = np.not_equal(mod, 1)`
  modMasked : List Int      -- `_mod_masked = mod[_mask]`
  names     : List String
deriving DecidableEq, Repr

/-- `ChargeInfo.__init__` -/
def CIObj.init (mod : List Int) (names : List String) : CIObj :=
  ⟨mod.length, mod, mod.map (fun m => m != 1), mod.filter (fun m => m != 1), names⟩

def CIObj.getstate (o : CIObj) : Nat × List Int × List String := (o.qnumber, o.mod, o.names)

/-- `__setstate__`: `assert qnumber == mod.shape[0]`, derived attributes recomputed -/
def CIObj.setstate (st : Nat × List Int × List String) : Option CIObj :=
  if st.1 = st.2.1.length then
    some ⟨st.2.1.length, st.2.1, st.2.1.map (fun m => m != 1), st.2.1.filter (fun m => m != 1), st.2.2⟩
  else none

/-- class invariant of `ChargeInfo` (what `__init__` establishes) -/
def CIObj.Inv (o : CIObj) : Prop :=
  o.qnumber = o.mod.length ∧ o.mask = o.mod.map (fun m => m != 1) ∧ o.modMasked = o.mod.filter (fun m => m != 1)

/-- a `DipolarChargeInfo` object -/
structure DCIObj where
  base       : CIObj
  chargeIdcs : List Nat
  dipoleIdcs : List Nat
  dipoleDims : List Nat
deriving DecidableEq, Repr

/-- `(super().__getstate__(), (_charge_idcs, _dipole_idcs, _dipole_dims))` -/
def DCIObj.getstate (o : DCIObj) : (Nat × List Int × List String) × (List Nat × List Nat × List Nat) :=
  (o.base.getstate, (o.chargeIdcs, o.dipoleIdcs, o.dipoleDims))

def DCIObj.setstate (st : (Nat × List Int × List String) × (List Nat × List Nat × List Nat)) : Option DCIObj :=
  match CIObj.setstate st.1 with
  | none => none
  | some b => some ⟨b, st.2.1, st.2.2.1, st.2.2.2⟩

/-- a `LegCharge` object: the record of `Legs.lean` + the reference to its `chinfo` (an object id) -/
structure LCObj where
  fields : Leg
  chinfo : Nat
deriving DecidableEq, Repr

abbrev LCState := Int × Nat × Nat × List Int × List (List Int) × Int × Bool × Bool

/-- `(ind_len, block_number, chinfo, slices, charges, qconj, sorted, bunched)` -/
def LCObj.getstate (o : LCObj) : LCState :=
  (o.fields.indLen, o.fields.blockNumber, o.chinfo, o.fields.slices, o.fields.charges, o.fields.qconj,
   o.fields.sorted, o.fields.bunched)

def LCObj.setstate (s : LCState) : LCObj :=
  match s with
  | (indLen, blockNumber, chinfo, slices, charges, qconj, sorted, bunched) =>
    ⟨⟨indLen, blockNumber, slices, charges, qconj, sorted, bunched⟩, chinfo⟩

/-- `LegCharge.copy`: `res.__setstate__(self.__getstate__())` -/
def LCObj.copy (o : LCObj) : LCObj := LCObj.setstate o.getstate

/-- a `LegPipe` object: `LegCharge` attributes + the pipe attributes (`legs` = object ids of the incoming legs) -/
structure LPObj where
  base       : LCObj
  nlegs      : Nat
  legs       : List Nat
  subshape   : List Nat
  subqshape  : List Nat
  qMap       : List (List Nat)
  qMapSlices : List Nat
  perm       : Option (List Nat)
  strides    : List Nat
deriving DecidableEq, Repr

abbrev LPState := LCState × Nat × List Nat × List Nat × List Nat × List (List Nat) × List Nat
  × Option (List Nat) × List Nat

/-- `(super_state, nlegs, legs, subshape, subqshape, q_map, q_map_slices, _perm, _strides)` -/
def LPObj.getstate (o : LPObj) : LPState :=
  (o.base.getstate, o.nlegs, o.legs, o.subshape, o.subqshape, o.qMap, o.qMapSlices, o.perm, o.strides)

def LPObj.setstate (s : LPState) : LPObj :=
  match s with
  | (sup, nlegs, legs, subshape, subqshape, qMap, qMapSlices, perm, strides) =>
    ⟨LCObj.setstate sup, nlegs, legs, subshape, subqshape, qMap, qMapSlices, perm, strides⟩

def LPObj.copy (o : LPObj) : LPObj := LPObj.setstate o.getstate

/-- the Python view of a core pipe (incoming legs at object ids `ids`, `chinfo` at `ci`) -/
def LPObj.ofPipe (p : Pipe) (ci : Nat) (ids : List Nat) : LPObj :=
  ⟨⟨toFields p.leg, ci⟩, p.nlegs, ids, p.subshape, p.subqshape, p.qMap, p.qMapSlices, p.perm, p.strides⟩

/-- an `Array` object = its `__dict__` (legs, chinfo as object ids; `ind` = `ind_len` of the leg objects) -/
structure ArrObj (α : Type) where
  legs        : List Nat
  chinfo      : Nat
  shape       : List Nat
  rank        : Nat
  dtype       : String
  qtotal      : List Int
  labels      : List (Option String)
  data        : List (List Nat × List α)
  qdata       : List (List Nat)
  qdataSorted : Bool

/-- `__getstate__`: `return self.__dict__` -/
def ArrObj.getstate {α : Type} (o : ArrObj α) : ArrObj α := o

/-- `__setstate__` (dict branch): `self.__dict__.update(state); self._set_shape()`;
`ind : leg id → ind_len`; `none` = `ValueError` of `_set_shape` for an array without legs -/
def ArrObj.setstate {α : Type} (ind : Nat → Nat) (state : ArrObj α) : Option (ArrObj α) :=
  if state.legs.isEmpty then none
  else some { state with shape := state.legs.map ind, rank := state.legs.length }

/-- `Array.copy(deep)`: set state, new `legs` / `_labels` lists (same entries), `_set_shape()`;
deep: blocks, `_qdata`, `qtotal` copied (same values) -/
def ArrObj.copy {α : Type} (ind : Nat → Nat) (o : ArrObj α) (deep : Bool) : Option (ArrObj α) :=
  match ArrObj.setstate ind o.getstate with
  | none => none
  | some cp =>
    let cp1 := { cp with legs := cp.legs.map id, shape := cp.legs.map ind, rank := cp.legs.length,
                         labels := cp.labels.map id }
    some (if deep then { cp1 with data := o.data.map id, qdata := o.qdata.map id, qtotal := o.qtotal.map id }
          else cp1)

/-- what `_set_shape` establishes -/
def ArrObj.Inv {α : Type} (ind : Nat → Nat) (o : ArrObj α) : Prop :=
  o.legs ≠ [] ∧ o.shape = o.legs.map ind ∧ o.rank = o.legs.length

end TenpyModel.C17.P2
