import TenpyModel.C17.LegsProofs
/-!
# C17 — field layouts of charges and legs: `from_hdf5 ∘ save_hdf5 = id`

For every charge-info and every leg (all sizes), in each of the three offered leg formats.
`blocks`, `compact`: the loaded leg is *equal* (all fields, including the `sorted`/`bunched` flags).
`flat`: documented as insufficient to recover the blocks — what is preserved is stated exactly:
`ind_len`, `qconj`, the charge of every index (`to_qflat`), and the flags are recomputed
(`is_sorted`, `is_bunched`) for the unit-block leg.
-/
open TenpyModel.C17

theorem C17_chinfo (c : ChargeInfo) : ChargeInfo.decode c.encode = some c := by
  simp [ChargeInfo.decode, ChargeInfo.encode, ChargeInfo.setstate]

/-- the names are optional in the file: without them the default `[''] * qnumber` is used -/
theorem C17_chinfo_default_names (m : List Int) :
    ChargeInfo.decode ⟨m.length, m, none⟩ = some ⟨m, List.replicate m.length ""⟩ := by
  simp [ChargeInfo.decode, ChargeInfo.setstate]

example : ChargeInfo.decode (ChargeInfo.encode ⟨[1, 2], ["N", "parity"]⟩) = some ⟨[1, 2], ["N", "parity"]⟩ := by
  decide

/-- repaired `DipolarChargeInfo.from_hdf5` (one state argument): every dipolar charge info loads. -/
theorem C17_dipolar (d : DipolarInfo) : DipolarInfo.decode d.encode = some d := by
  simp [DipolarInfo.decode, DipolarInfo.encode, DipolarInfo.setstate, ChargeInfo.encode, ChargeInfo.setstate]

example : DipolarInfo.decode (DipolarInfo.encode ⟨⟨[1, 1], ["N", "P"]⟩, [0], [1], [0]⟩)
    = some ⟨⟨[1, 1], ["N", "P"]⟩, [0], [1], [0]⟩ := by decide

theorem C17_leg_blocks (l : Leg) (qnumber : Nat) :
    (l.encode "blocks").bind (LegFile.decode qnumber) = some l := by
  simp [Leg.encode, LegFile.decode]

theorem C17_leg_compact (l : Leg) (h : l.WF) (qnumber : Nat) :
    (l.encode "compact").bind (LegFile.decode qnumber) = some l := by
  have hd : l.slices.dropLast.length = l.blockNumber := by simp [h.nslices]
  have ht : l.slices.tail.length = l.blockNumber := by simp [h.nslices]
  have hlen := hstackRows_length _ _ _ _ hd ht h.ncharges
  have hhead := hstackRows_head l.slices.dropLast l.slices.tail l.charges (by omega)
    (by rw [hd, h.ncharges])
  have hdrop := hstackRows_drop l.slices.dropLast l.slices.tail l.charges (by omega)
    (by rw [hd, h.ncharges])
  have hlast : l.slices.dropLast ++ [l.indLen] = l.slices :=
    dropLast_append_of_getLast? _ _ h.last
  simp only [Leg.encode, Option.bind_some, LegFile.decode, hlen, if_true, hhead, hdrop, hlast]

/-- non-vacuity: an unsorted leg with a repeated sector and an empty leg (no block) -/
example : Leg.WF ⟨5, 3, [0, 2, 3, 5], [[1, 0], [0, 1], [1, 0]], -1, false, false⟩ := ⟨rfl, rfl, rfl⟩
example : (Leg.encode ⟨5, 3, [0, 2, 3, 5], [[1, 0], [0, 1], [1, 0]], -1, false, false⟩ "compact")
    = some (.compact 5 (-1) 3 false false [[0, 2, 1, 0], [2, 3, 0, 1], [3, 5, 1, 0]]) := by decide
example : Leg.WF ⟨0, 0, [0], [], 1, true, true⟩ := ⟨rfl, rfl, rfl⟩
example : (Leg.encode ⟨0, 0, [0], [], 1, true, true⟩ "compact").bind (LegFile.decode 1)
    = some ⟨0, 0, [0], [], 1, true, true⟩ := by decide

/-- `flat` format: exactly what survives. -/
theorem C17_leg_flat (l : Leg) (qnumber : Nat) (h : Int.ofNat l.toQflat.length = l.indLen) :
    ∃ l', (l.encode "flat").bind (LegFile.decode qnumber) = some l'
      ∧ l'.toQflat = l.toQflat ∧ l'.qconj = l.qconj ∧ l'.indLen = l.indLen
      ∧ l'.blockNumber = l.toQflat.length ∧ l'.charges = l.toQflat
      ∧ l'.sorted = isSorted qnumber l.toQflat ∧ l'.bunched = isBunched qnumber l.toQflat := by
  refine ⟨_, rfl, ?_, rfl, rfl, ?_, rfl, rfl, rfl⟩
  · have hn : l.indLen.toNat = l.toQflat.length := by rw [← h]; rfl
    simp only [Leg.toQflat, hn]
    have := qflatRows_unit (qflatRows l.slices.dropLast l.slices.tail l.charges) 0
    simp only [Leg.toQflat] at hn
    rw [← List.map_dropLast, ← List.map_tail, range_succ_dropLast, range_succ_tail]
    exact this
  · show l.indLen.toNat = _
    rw [← h]; rfl

/-- the block structure is *not* preserved by `flat` (documented): a two-block leg comes back with
five unit blocks, `bunched = false` -/
theorem C17_leg_flat_loses_blocks :
    (Leg.encode ⟨5, 2, [0, 2, 5], [[0], [1]], 1, true, true⟩ "flat").bind (LegFile.decode 1)
      = some ⟨5, 5, [0, 1, 2, 3, 4, 5], [[0], [0], [1], [1], [1]], 1, true, false⟩ := by decide
