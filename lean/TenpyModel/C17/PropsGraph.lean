import TenpyModel.C17.GraphRoundtrip
import TenpyModel.C17.GraphTermination
/-!
# C17 — `Hdf5Loader.load ∘ Hdf5Saver.save` is an isomorphism of rooted labelled object graphs

"Objects shared by reference before saving are shared after loading, and self-referential
containers survive" — for **every** finite object graph (any size, any sharing, cycles through
lists / sets / dicts / early-memoising class instances), under the documented restriction that a
tuple (or any other object the loader can only construct *after* its parts: range, dtype, `LegPipe`,
the `func`/`args` of the pickle fallback) is not part of a reference cycle.

`IsoOn loadP g r h' β` (defined in `GraphProofs.lean`) says: `β` is injective on the objects reachable
from the root, and every reachable object `i` is loaded as `β i` with the same label and with
children `β c` for the children `c` of `i`, under the same names (in the order in which the loader
follows them: `0 … len-1` for list/tuple/set, sorted keys for a simple dict).
-/
open TenpyModel.C17 Relation

namespace TenpyModel.C17

/-- every object reachable from the root exists in the heap -/
def Closed (g : Graph) (r : Nat) : Prop := ∀ i, Reach saveP g r i → i < g.length

theorem save_eq {g : Graph} {r : Nat} {f : Graph} {fr : Nat} (h : save g r = some (f, fr)) :
    ∃ st, copy saveP g (g.length + 1) r initSt = some (fr, st) ∧ st.out = f := by
  unfold save at h
  cases hc : copy saveP g (g.length + 1) r initSt with
  | none => simp [hc] at h
  | some res =>
    obtain ⟨t, st⟩ := res
    simp only [hc, Option.some.injEq, Prod.mk.injEq] at h
    exact ⟨st, by rw [h.2], h.1⟩

theorem load_eq {f : Graph} {r : Nat} {h' : Graph} {r' : Nat} (h : load f r = some (h', r')) :
    ∃ st, copy loadP f ((f.length + 1) * (f.length + 1)) r initSt = some (r', st) ∧ st.out = h' := by
  unfold load at h
  cases hc : copy loadP f ((f.length + 1) * (f.length + 1)) r initSt with
  | none => simp [hc] at h
  | some res =>
    obtain ⟨t, st⟩ := res
    simp only [hc, Option.some.injEq, Prod.mk.injEq] at h
    exact ⟨st, by rw [h.2], h.1⟩

theorem closed_save {g : Graph} {r : Nat} (hc : Closed g r) : ∀ i, Reach saveP g r i → (EK saveP g i).isSome := by
  intro i hi
  have := hc i hi
  rw [EK_save, List.getElem?_eq_getElem this]
  rfl

/-! ### decidable certificates for concrete graphs (used for the examples and tests below) -/

theorem WF_of_wfB {g : Graph} (h : wfB g = true) : WF g := by
  intro i nd hg
  have hmem : nd ∈ g := List.mem_of_getElem? hg
  have := List.all_eq_true.1 h nd hmem
  cases hord : ordLoad nd.label nd.kids with
  | none => simp [hord] at this
  | some ks' =>
    simp only [hord] at this
    exact ⟨ks', rfl, List.isPerm_iff.1 this⟩

/-- `d` is a height certificate: children exist, are not higher than their parent, and are strictly
lower than a parent that memoises late. -/
def certNode (g : Graph) (d : List Nat) (i : Nat) : Bool :=
  match EK loadP g i with
  | none => false
  | some (l, ks) => ks.all (fun nc => decide (nc.2 < g.length) &&
      (if modeLoad l ks.length = .after 0 then decide (d.getD nc.2 0 ≤ d.getD i 0)
       else decide (d.getD nc.2 0 < d.getD i 0)))

def cert (g : Graph) (d : List Nat) : Bool := (List.range g.length).all (certNode g d)

theorem cert_edge {g : Graph} {d : List Nat} (h : cert g d = true) {i c : Nat} (hi : i < g.length)
    (he : Edge loadP g i c) :
    c < g.length ∧ d.getD c 0 ≤ d.getD i 0 ∧ (NotEarly loadP g i → d.getD c 0 < d.getD i 0) := by
  have hn := List.all_eq_true.1 h i (List.mem_range.2 hi)
  obtain ⟨l, ks, n, hek, hmem⟩ := he
  simp only [certNode, hek] at hn
  have := List.all_eq_true.1 hn (n, c) hmem
  simp only [Bool.and_eq_true, decide_eq_true_eq] at this
  refine ⟨this.1, ?_, ?_⟩
  · have h2 := this.2
    split at h2
    · simpa using h2
    · have : d.getD c 0 < d.getD i 0 := by simpa using h2
      omega
  · rintro ⟨l', ks', hek', hm⟩
    rw [hek] at hek'
    cases hek'
    have h2 := this.2
    have hm' : ¬ modeLoad l ks.length = .after 0 := hm
    simpa [hm'] using h2

theorem cert_reach {g : Graph} {d : List Nat} (h : cert g d = true) {i j : Nat} (hi : i < g.length)
    (hr : Reach loadP g i j) : j < g.length ∧ d.getD j 0 ≤ d.getD i 0 := by
  induction hr with
  | refl => exact ⟨hi, Nat.le_refl _⟩
  | tail _ he ih =>
    obtain ⟨h1, h2, _⟩ := cert_edge h ih.1 he
    exact ⟨h1, Nat.le_trans h2 ih.2⟩

theorem lateAcyclic_of_cert {g : Graph} {d : List Nat} (h : cert g d = true) {r : Nat} (hr : r < g.length) :
    LateAcyclic loadP g r := by
  intro i hi hne hcyc
  have hil := (cert_reach h hr hi).1
  obtain ⟨c, he, hci⟩ := TransGen.head'_iff.1 hcyc
  obtain ⟨hc, _, hlt⟩ := cert_edge h hil he
  have := (cert_reach h hc hci).2
  have := hlt hne
  omega

theorem closed_of_cert {g : Graph} {d : List Nat} (hwf : WF g) (h : cert g d = true) {r : Nat} (hr : r < g.length) :
    Closed g r := by
  intro i hi
  have : Reach loadP g r i := by unfold Reach; rw [edge_load_eq_save hwf]; exact hi
  exact (cert_reach h hr this).1

end TenpyModel.C17

/-- **The saver alone.**  The file written by `Hdf5Saver.save` is an isomorphic image of the object
graph: one group/dataset per reachable object (`φ` injective: two paths lead to the same HDF5 object,
i.e. are hard links of each other, iff they led to the same Python object), same labels, same named
children.  Holds for every graph, cyclic or not. -/
theorem C17_graph_save_iso (g : Graph) (r : Nat) (hc : Closed g r) :
    ∃ f fr φ, save g r = some (f, fr) ∧ φ r = fr ∧ IsoOn saveP g r f φ := by
  obtain ⟨⟨t, st⟩, hcopy⟩ := copy_terminates_early (P := saveP) (g := g) (r := r)
    (fun i hne => by obtain ⟨l, ks, _, hm⟩ := hne; exact hm rfl) (closed_save hc) (Nat.le_refl _)
  obtain ⟨h1, h2⟩ := copy_correct (lateAcyclic_save g r) hcopy
  exact ⟨st.out, t, tgt st, by simp [save, hcopy], h1, h2⟩

/-- **Round trip, total correctness.**  For every finite rooted object graph (well-formed: the
loader's child selection finds exactly the saved children; closed: no dangling reference) in which no
late-memoising object (tuple, range, …) lies on a reference cycle, `save` and then `load` both
terminate with the fuel they are given, and the loaded heap is isomorphic to the original one. -/
theorem C17_graph_roundtrip (g : Graph) (r : Nat) (hwf : WF g) (hc : Closed g r) (hT : LateAcyclic loadP g r) :
    ∃ f fr h' r' β, save g r = some (f, fr) ∧ load f fr = some (h', r') ∧ β r = r' ∧ IsoOn loadP g r h' β := by
  obtain ⟨f, fr, φ, hs, hφr, hφ⟩ := C17_graph_save_iso g r hc
  subst hφr
  have hTf := lateAcyclic_image hwf hφ hT
  have hcl : ∀ u, Reach loadP f (φ r) u → (EK loadP f u).isSome := by
    intro u hu
    obtain ⟨j, hj, rfl⟩ := reach_preimage hwf hφ hu
    obtain ⟨nd, hg, hek⟩ := EK_load_image hφ hj
    obtain ⟨ks', hord, _⟩ := hwf _ nd hg
    rw [hek, hord]; rfl
  obtain ⟨⟨t, st⟩, hcopy⟩ := copy_terminates hTf hcl (Nat.le_refl _)
  obtain ⟨h1, h2⟩ := copy_correct hTf hcopy
  refine ⟨f, φ r, st.out, t, tgt st ∘ φ, hs, by simp [load, hcopy], h1, iso_comp hwf hφ h2⟩

/-- Partial-correctness form without the closedness/termination part: *whenever* both passes
return, the result is isomorphic. -/
theorem C17_graph_roundtrip_of_some (g : Graph) (r : Nat) (hwf : WF g) (hT : LateAcyclic loadP g r)
    {f h' : Graph} {fr r' : Nat} (hs : save g r = some (f, fr)) (hl : load f fr = some (h', r')) :
    ∃ β, β r = r' ∧ IsoOn loadP g r h' β := by
  obtain ⟨stS, hcS, rfl⟩ := save_eq hs
  obtain ⟨h1, hφ⟩ := copy_correct (lateAcyclic_save g r) hcS
  subst h1
  obtain ⟨stL, hcL, rfl⟩ := load_eq hl
  obtain ⟨h2, hψ⟩ := copy_correct (lateAcyclic_image hwf hφ hT) hcL
  exact ⟨tgt stL ∘ tgt stS, h2, iso_comp hwf hφ hψ⟩

/-- **Identity.**  Two references (objects reachable from the root) are the same object after
loading iff they were the same object before saving. -/
theorem C17_graph_identity (g : Graph) (r : Nat) {h' : Graph} {β : Nat → Nat} (hiso : IsoOn loadP g r h' β)
    {i j : Nat} (hi : Reach loadP g r i) (hj : Reach loadP g r j) : β i = β j ↔ i = j :=
  ⟨hiso.inj i j hi hj, fun h => h ▸ rfl⟩

/-- **Nothing else is reachable.**  Every object reachable from the loaded root is the image of an
object reachable from the original root: together with `IsoOn` this is an isomorphism of the
reachable parts (temporary lists of `load_tuple` are garbage). -/
theorem C17_graph_roundtrip_onto (g : Graph) (r : Nat) {h' : Graph} {β : Nat → Nat} (hiso : IsoOn loadP g r h' β)
    {u : Nat} (hu : Reach saveP h' (β r) u) : ∃ j, Reach loadP g r j ∧ β j = u := by
  induction hu with
  | refl => exact ⟨r, ReflTransGen.refl, rfl⟩
  | tail _ he ih =>
    obtain ⟨j, hj, rfl⟩ := ih
    obtain ⟨l, ks, hek, hout⟩ := hiso.node j hj
    obtain ⟨l2, ks2, n, hek2, hmem⟩ := he
    rw [EK_save, hout] at hek2
    simp only [Option.map_some, Option.some.injEq, Prod.mk.injEq] at hek2
    obtain ⟨rfl, rfl⟩ := hek2
    obtain ⟨⟨n', c⟩, hc, hcu⟩ := List.mem_map.1 hmem
    simp only [Prod.mk.injEq] at hcu
    obtain ⟨rfl, rfl⟩ := hcu
    exact ⟨c, ReflTransGen.tail hj ⟨l, ks, n', hek, hc⟩, rfl⟩

/-- Version of the round-trip theorem whose hypotheses are decidable certificates. -/
theorem C17_graph_roundtrip_cert (g : Graph) (r : Nat) (d : List Nat) (hwf : wfB g = true) (hcert : cert g d = true)
    (hr : r < g.length) :
    ∃ f fr h' r' β, save g r = some (f, fr) ∧ load f fr = some (h', r') ∧ β r = r' ∧ IsoOn loadP g r h' β :=
  C17_graph_roundtrip g r (WF_of_wfB hwf) (closed_of_cert (WF_of_wfB hwf) hcert hr) (lateAcyclic_of_cert hcert hr)

/-- Shapes of well-formed nodes (what the reflection of Python objects produces): the loader's child
selection succeeds and returns a permutation of the stored children for lists/tuples/sets with entries
named `0 … len-1`, for every simple dict, for a general dict with children "keys", "values", and for every
leaf / instance / reduce / range node. -/
theorem C17_graph_wf_nodes (l : Label) (cs : List Nat) (ks : Kids) (a b : Nat) :
    ((l.kind = .list ∨ l.kind = .tuple ∨ l.kind = .set) → l.len = cs.length →
        ordLoad l (namedFrom 0 cs) = some (namedFrom 0 cs))
    ∧ (l.kind = .dictS → ∃ ks', ordLoad l ks = some ks' ∧ ks'.Perm ks)
    ∧ (l.kind = .dictG → ordLoad l [(.key "keys", a), (.key "values", b)] = some [(.key "keys", a), (.key "values", b)])
    ∧ ((l.kind = .leaf ∨ l.kind = .inst ∨ l.kind = .reduce ∨ l.kind = .other) → ordLoad l ks = some ks) := by
  refine ⟨?_, ?_, ?_, ?_⟩
  · intro hk hlen
    have := idxKids_namedFrom cs 0 [] (by simp)
    rcases hk with hk | hk | hk <;> simp only [ordLoad, hk, hlen] <;> simpa using this
  · intro hk
    exact ⟨sortByName ks, by simp [ordLoad, hk], sortByName_perm ks⟩
  · intro hk
    simp [ordLoad, hk, lookupName]
  · intro hk
    rcases hk with hk | hk | hk | hk <;> simp [ordLoad, hk]

/-! ### non-vacuity and concrete tests (`decide`d runs of the executable model) -/

namespace TenpyModel.C17.Examples

def lab (k : Kind) (n : Nat := 0) (info : String := "") : Label := ⟨k, info, true, n⟩

/-- `a = [a, d, d]`, `d = {"y": a, "x": (1, a_leaf)}` … a list containing itself, a dict shared twice
which points back to the list, a tuple of leaves inside: cycles through list and dict, sharing. -/
def gCyc : Graph :=
  [ ⟨lab .list 3, [(.idx 0, 0), (.idx 1, 1), (.idx 2, 1)]⟩,
    ⟨lab .dictS, [(.key "y", 0), (.key "x", 2)]⟩,
    ⟨lab .tuple 2, [(.idx 0, 3), (.idx 1, 3)]⟩,
    ⟨lab .leaf 0 "int:1", []⟩ ]

/-- the hypotheses of the round-trip theorem hold for `gCyc` (height certificate `[2,2,1,0]`:
the tuple is strictly above its children, list and dict sit on a common cycle) -/
example : wfB gCyc = true ∧ cert gCyc [2, 2, 1, 0] = true := by decide

/-- test: the saved file has 4 objects; `/2` is a hard link to `/1`, `/0` and `/1/y` to `/` -/
example : save gCyc 0 = some (gCyc, 0) := by decide

/-- test: loaded heap; the dict is re-ordered by key, the tuple `2` is the temporary list, `4` the tuple -/
example : roundtrip gCyc 0 = some (
  [ ⟨lab .list 3, [(.idx 0, 0), (.idx 1, 1), (.idx 2, 1)]⟩,
    ⟨lab .dictS, [(.key "x", 4), (.key "y", 0)]⟩,
    ⟨lab .list 2, [(.idx 0, 3), (.idx 1, 3)]⟩,
    ⟨lab .leaf 0 "int:1", []⟩,
    ⟨lab .tuple 2, [(.idx 0, 3), (.idx 1, 3)]⟩ ], 0) := by decide

/-- test: a general dict whose value list contains the dict itself:
`d = {1: d}` → groups "keys" and "values" -/
def gDictG : Graph :=
  [ ⟨lab .dictG, [(.key "keys", 1), (.key "values", 2)]⟩,
    ⟨lab .list 1, [(.idx 0, 3)]⟩,
    ⟨lab .list 1, [(.idx 0, 0)]⟩,
    ⟨lab .leaf 0 "int:1", []⟩ ]
example : wfB gDictG = true ∧ cert gDictG [0, 0, 0, 0] = true := by decide
/-- objects are renumbered in depth-first order (keys list 1, its leaf 2, values list 3) -/
example : roundtrip gDictG 0 = some (
  [ ⟨lab .dictG, [(.key "keys", 1), (.key "values", 3)]⟩,
    ⟨lab .list 1, [(.idx 0, 2)]⟩,
    ⟨lab .leaf 0 "int:1", []⟩,
    ⟨lab .list 1, [(.idx 0, 0)]⟩ ], 0) := by decide

/-- The documented `BUG` of `load_tuple`: `t = ([t],)`, a tuple on a cycle. -/
def gTupCyc : Graph :=
  [ ⟨lab .tuple 1, [(.idx 0, 1)]⟩, ⟨lab .list 1, [(.idx 0, 0)]⟩ ]

end TenpyModel.C17.Examples

open TenpyModel.C17.Examples in
/-- For a tuple on a reference cycle the round trip is **not** an isomorphism (the documented `BUG`
comment in `load_tuple`): the inner list of `t = ([t],)` comes back pointing at the temporary *list*
(object 0) instead of the tuple (object 2); the hypothesis `LateAcyclic` of `C17_graph_roundtrip`
cannot be dropped. -/
theorem C17_graph_tuple_cycle_counterexample :
    roundtrip gTupCyc 0 = some (
      [ ⟨lab .list 1, [(.idx 0, 1)]⟩, ⟨lab .list 1, [(.idx 0, 0)]⟩, ⟨lab .tuple 1, [(.idx 0, 1)]⟩ ], 2)
    ∧ ¬ LateAcyclic loadP gTupCyc 0 := by
  refine ⟨by decide, ?_⟩
  intro h
  have e01 : Edge loadP gTupCyc 0 1 := ⟨lab .tuple 1, [(.idx 0, 1)], .idx 0, by decide, by decide⟩
  have e10 : Edge loadP gTupCyc 1 0 := ⟨lab .list 1, [(.idx 0, 0)], .idx 0, by decide, by decide⟩
  exact h 0 ReflTransGen.refl ⟨lab .tuple 1, [(.idx 0, 1)], by decide, by decide⟩
    (TransGen.tail (TransGen.single e01) e10)
