import TenpyModel.C17.GraphProofs
import Mathlib.Data.List.Perm.Basic
/-!
Composition `load ∘ save`: the file graph written by the saver satisfies the loader's hypotheses, and
the composite of the two memo tables is the isomorphism heap → loaded heap.
-/
namespace TenpyModel.C17

open Relation

/-! ### the loader's child selection only looks at names -/

theorem lookupName_relabel (φ : Nat → Nat) (n : Name) : ∀ ks : Kids,
    lookupName n (relabel φ ks) = (lookupName n ks).map φ
  | [] => rfl
  | (m, c) :: rest => by
    simp only [relabel, List.map_cons, lookupName]
    split
    · rfl
    · exact lookupName_relabel φ n rest

theorem idxKids_relabel (φ : Nat → Nat) (ks : Kids) : ∀ n i,
    idxKids (relabel φ ks) n i = (idxKids ks n i).map (relabel φ)
  | 0, _ => rfl
  | n + 1, i => by
    simp only [idxKids, lookupName_relabel]
    cases lookupName (.idx i) ks with
    | none => rfl
    | some c =>
      simp only [Option.map_some, idxKids_relabel φ ks n (i + 1)]
      cases idxKids ks n (i + 1) <;> rfl

theorem insertByName_relabel (φ : Nat → Nat) (x : Name × Nat) : ∀ ks : Kids,
    insertByName (x.1, φ x.2) (relabel φ ks) = relabel φ (insertByName x ks)
  | [] => rfl
  | y :: ys => by
    simp only [relabel, List.map_cons, insertByName]
    split
    · rfl
    · simp only [List.map_cons]
      congr 1
      exact insertByName_relabel φ x ys

theorem sortByName_relabel (φ : Nat → Nat) : ∀ ks : Kids, sortByName (relabel φ ks) = relabel φ (sortByName ks)
  | [] => rfl
  | x :: xs => by
    simp only [relabel, List.map_cons, sortByName]
    have := sortByName_relabel φ xs
    simp only [relabel] at this
    rw [this]
    exact insertByName_relabel φ x _

theorem ordLoad_relabel (φ : Nat → Nat) (l : Label) (ks : Kids) :
    ordLoad l (relabel φ ks) = (ordLoad l ks).map (relabel φ) := by
  unfold ordLoad
  split
  · exact idxKids_relabel φ ks _ _
  · exact idxKids_relabel φ ks _ _
  · exact idxKids_relabel φ ks _ _
  · simp [sortByName_relabel]
  · simp only [lookupName_relabel]
    cases lookupName (.key "keys") ks <;> cases lookupName (.key "values") ks <;> rfl
  · rfl

theorem lookupName_mem {n : Name} {c : Nat} : ∀ {ks : Kids}, lookupName n ks = some c → (n, c) ∈ ks
  | [], h => by simp [lookupName] at h
  | (m, d) :: rest, h => by
    simp only [lookupName] at h
    split at h
    · rename_i hm
      cases h
      subst hm
      exact List.mem_cons_self ..
    · exact List.mem_cons_of_mem _ (lookupName_mem h)

theorem insertByName_perm (x : Name × Nat) : ∀ ks : Kids, (insertByName x ks).Perm (x :: ks)
  | [] => List.Perm.refl _
  | y :: ys => by
    simp only [insertByName]
    split
    · exact List.Perm.refl _
    · exact ((insertByName_perm x ys).cons y).trans (List.Perm.swap x y ys)

theorem sortByName_perm : ∀ ks : Kids, (sortByName ks).Perm ks
  | [] => List.Perm.refl _
  | x :: xs => (insertByName_perm x _).trans ((sortByName_perm xs).cons x)

/-! ### well-formed heaps -/

/-- The loader follows exactly the links the saver wrote: for every node, the loader's child
selection succeeds and is a permutation of the stored children.  (`wf_node_*` below: true for
lists/tuples/sets whose entries are named `0 … len-1`, for every simple dict, for general dicts with
the two children "keys" and "values", and for every other node.) -/
def WF (g : Graph) : Prop :=
  ∀ (i : Nat) (nd : Node), g[i]? = some nd → ∃ ks', ordLoad nd.label nd.kids = some ks' ∧ ks'.Perm nd.kids

theorem EK_save (g : Graph) (i : Nat) : EK saveP g i = (g[i]?).map (fun nd => (nd.label, nd.kids)) := by
  unfold EK
  cases g[i]? <;> rfl

theorem edge_load_eq_save {g : Graph} (hwf : WF g) : Edge loadP g = Edge saveP g := by
  funext i c
  apply propext
  constructor
  · rintro ⟨l, ks, n, hek, hmem⟩
    unfold EK at hek
    cases hg : g[i]? with
    | none => simp [hg] at hek
    | some nd =>
      obtain ⟨ks', hord, hperm⟩ := hwf i nd hg
      simp only [hg, loadP, hord, Option.map_some, Option.some.injEq, Prod.mk.injEq] at hek
      obtain ⟨rfl, rfl⟩ := hek
      exact ⟨nd.label, nd.kids, n, by simp [EK_save, hg], hperm.mem_iff.1 hmem⟩
  · rintro ⟨l, ks, n, hek, hmem⟩
    rw [EK_save] at hek
    cases hg : g[i]? with
    | none => simp [hg] at hek
    | some nd =>
      simp only [hg, Option.map_some, Option.some.injEq, Prod.mk.injEq] at hek
      obtain ⟨rfl, rfl⟩ := hek
      obtain ⟨ks', hord, hperm⟩ := hwf i nd hg
      exact ⟨nd.label, ks', n, by simp [EK, hg, loadP, hord], hperm.mem_iff.2 hmem⟩

theorem lateAcyclic_save (g : Graph) (r : Nat) : LateAcyclic saveP g r := by
  intro i _ hne
  obtain ⟨l, ks, _, hm⟩ := hne
  exact absurd rfl hm

section
variable {g f : Graph} {r : Nat} {φ : Nat → Nat}

/-- what the loader sees at the image of a heap node -/
theorem EK_load_image (hiso : IsoOn saveP g r f φ) {j : Nat} (hj : Reach saveP g r j) :
    ∃ nd, g[j]? = some nd ∧
      EK loadP f (φ j) = (ordLoad nd.label nd.kids).map (fun ks' => (nd.label, relabel φ ks')) := by
  obtain ⟨l, ks, hek, hout⟩ := hiso.node j hj
  rw [EK_save] at hek
  cases hg : g[j]? with
  | none => simp [hg] at hek
  | some nd =>
    simp only [hg, Option.map_some, Option.some.injEq, Prod.mk.injEq] at hek
    obtain ⟨rfl, rfl⟩ := hek
    refine ⟨nd, rfl, ?_⟩
    simp only [EK, hout, loadP, ordLoad_relabel]
    cases ordLoad nd.label nd.kids <;> rfl

theorem reach_image (hwf : WF g) (hiso : IsoOn saveP g r f φ) {j : Nat} (hj : Reach saveP g r j) :
    Reach loadP f (φ r) (φ j) := by
  induction hj with
  | refl => exact ReflTransGen.refl
  | tail hrj hjc ih =>
    rename_i j c
    refine ReflTransGen.tail ih ?_
    obtain ⟨nd, hg, hek⟩ := EK_load_image hiso hrj
    obtain ⟨ks', hord, hperm⟩ := hwf _ nd hg
    obtain ⟨l, ks, n, heks, hmem⟩ := hjc
    rw [EK_save, hg] at heks
    simp only [Option.map_some, Option.some.injEq, Prod.mk.injEq] at heks
    obtain ⟨rfl, rfl⟩ := heks
    rw [hord] at hek
    refine ⟨nd.label, relabel φ ks', n, hek, ?_⟩
    exact List.mem_map.2 ⟨(n, c), hperm.mem_iff.2 hmem, rfl⟩

/-- an edge of the file out of the image of `j` is the image of an edge of the heap out of `j` -/
theorem edge_preimage (hwf : WF g) (hiso : IsoOn saveP g r f φ) {j u : Nat} (hj : Reach saveP g r j)
    (he : Edge loadP f (φ j) u) : ∃ c, Edge saveP g j c ∧ φ c = u := by
  obtain ⟨nd, hg, hek⟩ := EK_load_image hiso hj
  obtain ⟨ks', hord, hperm⟩ := hwf _ nd hg
  rw [hord] at hek
  obtain ⟨l, ks, n, heks, hmem⟩ := he
  rw [hek] at heks
  simp only [Option.map_some, Option.some.injEq, Prod.mk.injEq] at heks
  obtain ⟨rfl, rfl⟩ := heks
  obtain ⟨⟨n', c⟩, hc, hcu⟩ := List.mem_map.1 hmem
  simp only [Prod.mk.injEq] at hcu
  obtain ⟨rfl, rfl⟩ := hcu
  exact ⟨c, ⟨nd.label, nd.kids, n', by simp [EK_save, hg], hperm.mem_iff.1 hc⟩, rfl⟩

theorem reach_preimage (hwf : WF g) (hiso : IsoOn saveP g r f φ) {u : Nat} (hu : Reach loadP f (φ r) u) :
    ∃ j, Reach saveP g r j ∧ φ j = u := by
  induction hu with
  | refl => exact ⟨r, ReflTransGen.refl, rfl⟩
  | tail _ he ih =>
    obtain ⟨j, hj, rfl⟩ := ih
    obtain ⟨c, hc, rfl⟩ := edge_preimage hwf hiso hj he
    exact ⟨c, ReflTransGen.tail hj hc, rfl⟩

theorem transGen_preimage (hwf : WF g) (hiso : IsoOn saveP g r f φ) {j u : Nat} (hj : Reach saveP g r j)
    (hu : TransGen (Edge loadP f) (φ j) u) : ∃ c, TransGen (Edge saveP g) j c ∧ φ c = u := by
  induction hu with
  | single he =>
    obtain ⟨c, hc, rfl⟩ := edge_preimage hwf hiso hj he
    exact ⟨c, TransGen.single hc, rfl⟩
  | tail _ he ih =>
    obtain ⟨c, hjc, rfl⟩ := ih
    obtain ⟨d, hd, rfl⟩ := edge_preimage hwf hiso (hj.trans hjc.to_reflTransGen) he
    exact ⟨d, TransGen.tail hjc hd, rfl⟩

/-- the file written by the saver satisfies the loader's acyclicity hypothesis -/
theorem lateAcyclic_image (hwf : WF g) (hiso : IsoOn saveP g r f φ) (hT : LateAcyclic loadP g r) :
    LateAcyclic loadP f (φ r) := by
  intro u hu hne hcyc
  obtain ⟨j, hj, rfl⟩ := reach_preimage hwf hiso hu
  obtain ⟨c, hjc, hcj⟩ := transGen_preimage hwf hiso hj hcyc
  have hc : Reach saveP g r c := hj.trans hjc.to_reflTransGen
  have : c = j := hiso.inj c j hc hj hcj
  subst this
  have hE := edge_load_eq_save hwf
  refine hT c (by unfold Reach; rw [hE]; exact hj) ?_ (by unfold Cycle; rw [hE]; exact hjc)
  obtain ⟨nd, hg, hek⟩ := EK_load_image hiso hj
  obtain ⟨ks', hord, _⟩ := hwf _ nd hg
  obtain ⟨l, ks, hek2, hmode⟩ := hne
  rw [hek, hord] at hek2
  simp only [Option.map_some, Option.some.injEq, Prod.mk.injEq] at hek2
  obtain ⟨rfl, rfl⟩ := hek2
  refine ⟨nd.label, ks', by simp [EK, hg, loadP, hord], ?_⟩
  simpa [relabel] using hmode

theorem relabel_relabel (ψ φ : Nat → Nat) (ks : Kids) : relabel ψ (relabel φ ks) = relabel (ψ ∘ φ) ks := by
  simp [relabel]

/-- composition of the two isomorphisms -/
theorem iso_comp (hwf : WF g) {h' : Graph} {ψ : Nat → Nat} (hφ : IsoOn saveP g r f φ)
    (hψ : IsoOn loadP f (φ r) h' ψ) : IsoOn loadP g r h' (ψ ∘ φ) := by
  have hE := edge_load_eq_save hwf
  have hR : ∀ j, Reach loadP g r j → Reach saveP g r j := by
    intro j hj; unfold Reach at hj; rw [hE] at hj; exact hj
  refine ⟨?_, ?_⟩
  · intro i j hi hj hij
    have hi' := hR i hi
    have hj' := hR j hj
    exact hφ.inj i j hi' hj' (hψ.inj _ _ (reach_image hwf hφ hi') (reach_image hwf hφ hj') hij)
  · intro i hi
    have hi' := hR i hi
    obtain ⟨nd, hg, hek⟩ := EK_load_image hφ hi'
    obtain ⟨ks', hord, _⟩ := hwf _ nd hg
    obtain ⟨l2, ks2, hek2, hout⟩ := hψ.node _ (reach_image hwf hφ hi')
    rw [hek, hord] at hek2
    simp only [Option.map_some, Option.some.injEq, Prod.mk.injEq] at hek2
    obtain ⟨rfl, rfl⟩ := hek2
    refine ⟨nd.label, ks', by simp [EK, hg, loadP, hord], ?_⟩
    rw [Function.comp_apply, hout, relabel_relabel]

end
end TenpyModel.C17

namespace TenpyModel.C17
/-- entries of a list/tuple/set: `(str(s), c₀), (str(s+1), c₁), …` -/
def namedFrom : Nat → List Nat → Kids
  | _, [] => []
  | s, c :: cs => (.idx s, c) :: namedFrom (s + 1) cs

theorem lookupName_skip (n : Name) (c : Nat) : ∀ (pre rest : Kids), (∀ x ∈ pre, x.1 ≠ n) →
    lookupName n (pre ++ (n, c) :: rest) = some c
  | [], rest, _ => by simp [lookupName]
  | (m, d) :: pre, rest, h => by
    have hm : m ≠ n := h (m, d) (List.mem_cons_self ..)
    simp only [List.cons_append, lookupName, hm, if_false]
    exact lookupName_skip n c pre rest (fun x hx => h x (List.mem_cons_of_mem _ hx))

theorem idxKids_namedFrom : ∀ (cs : List Nat) (s : Nat) (pre : Kids),
    (∀ x ∈ pre, ∀ j, s ≤ j → x.1 ≠ .idx j) →
    idxKids (pre ++ namedFrom s cs) cs.length s = some (namedFrom s cs)
  | [], _, _, _ => rfl
  | c :: cs, s, pre, h => by
    simp only [namedFrom, List.length_cons, idxKids]
    rw [lookupName_skip (.idx s) c pre _ (fun x hx => h x hx s (Nat.le_refl _))]
    have ih := idxKids_namedFrom cs (s + 1) (pre ++ [(.idx s, c)]) (by
      intro x hx j hj
      rcases List.mem_append.1 hx with hx | hx
      · exact h x hx j (by omega)
      · simp only [List.mem_singleton] at hx
        subst hx
        intro heq
        cases heq
        omega)
    simp only [List.append_assoc, List.singleton_append] at ih
    simp only [ih]
end TenpyModel.C17
