/-
Executable model of `tenpy/tools/hdf5_io.py :: Hdf5Saver / Hdf5Loader` as graph algorithms
(import-free).

Python side ("heap"): a list of nodes; the object identity `id(obj)` is the index in the list.
HDF5 side ("file"): a list of nodes; the h5py object id (what `h5gr.id` hashes/compares: file
number + object address) is the index in the list.  A *hard link* is nothing but a second edge
pointing at an existing index.

Both sides use the same node shape: a label (what `ATTR_TYPE`, `ATTR_LEN`, `ATTR_CLASS`,
`ATTR_MODULE` and, for datasets, the content say) and the list of named out-edges
(`h5gr[name]` / `obj[i]`, `obj[key]`, `obj.field`).

`Hdf5Saver.save` and `Hdf5Loader.load` are the *same* traversal — a depth-first copy of the source
graph into a fresh target graph with a memo table `source id ↦ target id` — and differ in

  * when the memo entry is written (`Mode`):
      - saver: always before descending (`create_group_for_obj` calls `memorize_save` at once);
      - loader: `load_list/load_set/load_*_dict`, `Hdf5Exportable.from_hdf5` memoise the empty
        container *before* descending (`after 0`); `load_tuple` memoises a temporary *list*, descends,
        then builds the tuple and overwrites the memo entry (`temp`); `load_range`, `load_dtype`,
        `LegPipe.from_hdf5`, … construct after loading all parts (`after n`); `load_reduce` loads
        `func` and `args`, constructs and memoises, then loads `state` … (`after 2`);
  * in which order / under which names the out-edges are followed (`ord`):
      - saver: the order of iteration of the Python object;
      - loader: `for i in range(len): load(subpath + str(i))` for list/tuple/set (uses `ATTR_LEN` and
        looks the children up *by name*), `h5gr.keys()` (sorted by name) for a simple dict,
        `h5gr['keys']`, `h5gr['values']` for a general dict, stored order otherwise.

Recursion depth is bounded by explicit fuel (Python: the interpreter's recursion limit); a late
memoising node on a cycle makes the real code recurse for ever and the model run out of fuel.
-/
namespace TenpyModel.C17

/-- Edge names.  `idx i` is the path component `str(i)` used for list/tuple/set entries (Python's
`str : int → str` is injective; that is all the model needs), `key s` any other path component. -/
inductive Name where
  | idx (i : Nat)
  | key (s : String)
deriving DecidableEq, Repr

inductive Kind where
  | leaf     -- anything stored as one HDF5 dataset (ndarray, int, float, str, None, global, …)
  | list | tuple | set
  | dictS    -- `REPR_DICT_SIMPLE`: all keys are valid path components
  | dictG    -- `REPR_DICT_GENERAL`: subgroups "keys" and "values" (two list nodes)
  | inst     -- `REPR_HDF5EXPORTABLE`: class instance with named fields
  | reduce   -- `REPR_REDUCE`: pickle-protocol fallback, fields func, args, state, …
  | other    -- range, dtype: group with fixed fields, object constructed after loading them
deriving DecidableEq, Repr

/-- What is stored about an object apart from its references to other objects. -/
structure Label where
  kind  : Kind
  /-- leaf: type repr + digest of the content; inst: module + class; otherwise free. -/
  info  : String
  /-- inst only: does `cls.from_hdf5` call `memorize_load` before loading the fields? -/
  early : Bool
  /-- `len(obj)` for list/tuple/set = `ATTR_LEN` in the file. -/
  len   : Nat
deriving DecidableEq, Repr

abbrev Kids := List (Name × Nat)

structure Node where
  label : Label
  kids  : Kids
deriving DecidableEq, Repr

abbrev Graph := List Node

/-- State of a traversal: target graph built so far, memo table (first match wins, so consing a
pair overwrites an older entry exactly like `memo[k] = v`). -/
structure St where
  out  : Graph
  memo : List (Nat × Nat)
deriving Repr

inductive Mode where
  /-- descend into the first `k` children, create the object and memoise it, descend into the rest -/
  | after (k : Nat)
  /-- `load_tuple`: memoise a temporary list, descend, create the tuple, overwrite the memo entry -/
  | temp
deriving DecidableEq, Repr

structure Params where
  /-- memo discipline, from the label and the number of children that will be followed -/
  mode : Label → Nat → Mode
  /-- the children actually followed, in order; `none` = `KeyError` -/
  ord  : Label → Kids → Option Kids
  /-- label of the temporary object of `Mode.temp` -/
  tmp  : Label → Label

def relabel (f : Nat → Nat) (ks : Kids) : Kids := ks.map (fun nc => (nc.1, f nc.2))

/-- copy the children left to right with `f`, threading the state -/
def copyKids (f : Nat → St → Option (Nat × St)) : Kids → St → Option (Kids × St)
  | [], st => some ([], st)
  | (n, c) :: rest, st =>
    match f c st with
    | none => none
    | some (t, st1) =>
      match copyKids f rest st1 with
      | none => none
      | some (ts, st2) => some ((n, t) :: ts, st2)

/-- `Hdf5Saver.save(obj, path)` / `Hdf5Loader.load(path)` on node `i`; returns the id of the copy. -/
def copy (P : Params) (g : Graph) : Nat → Nat → St → Option (Nat × St)
  | 0, _, _ => none
  | fuel + 1, i, st =>
    match st.memo.lookup i with
    | some t => some (t, st)               -- memo hit: hard link / the object loaded before
    | none =>
      match g[i]? with
      | none => none
      | some nd =>
        match P.ord nd.label nd.kids with
        | none => none
        | some ks =>
          match P.mode nd.label ks.length with
          | .after k =>
            match copyKids (copy P g fuel) (ks.take k) st with
            | none => none
            | some (ts1, st1) =>
              let t := st1.out.length
              let st2 : St := ⟨st1.out ++ [⟨nd.label, []⟩], (i, t) :: st1.memo⟩
              match copyKids (copy P g fuel) (ks.drop k) st2 with
              | none => none
              | some (ts2, st3) => some (t, ⟨st3.out.set t ⟨nd.label, ts1 ++ ts2⟩, st3.memo⟩)
          | .temp =>
            let t0 := st.out.length
            let st1 : St := ⟨st.out ++ [⟨P.tmp nd.label, []⟩], (i, t0) :: st.memo⟩
            match copyKids (copy P g fuel) ks st1 with
            | none => none
            | some (ts, st2) =>
              let out3 := st2.out.set t0 ⟨P.tmp nd.label, ts⟩
              some (out3.length, ⟨out3 ++ [⟨nd.label, ts⟩], (i, out3.length) :: st2.memo⟩)

/-! ### the saver -/

/-- Every `save_*` method creates the group/dataset and calls `memorize_save` before it saves the
content; the content is saved in iteration order of the Python object. -/
def saveP : Params := ⟨fun _ _ => .after 0, fun _ ks => some ks, id⟩

def initSt : St := ⟨[], []⟩

/-- `Hdf5Saver(file).save(root)`: the file graph and the id of the root group. -/
def save (g : Graph) (r : Nat) : Option (Graph × Nat) :=
  match copy saveP g (g.length + 1) r initSt with
  | none => none
  | some (t, st) => some (st.out, t)

/-! ### the loader -/

def lookupName (n : Name) : Kids → Option Nat
  | [] => none
  | (m, c) :: rest => if m = n then some c else lookupName n rest

/-- `for i in range(len): load(subpath + str(i))` -/
def idxKids (ks : Kids) : Nat → Nat → Option Kids
  | 0, _ => some []
  | n + 1, i =>
    match lookupName (.idx i) ks with
    | none => none
    | some c =>
      match idxKids ks n (i + 1) with
      | none => none
      | some r => some ((.idx i, c) :: r)

/-- order of HDF5 link names (`h5gr.keys()` iterates in increasing name order) -/
def Name.le : Name → Name → Bool
  | .idx i, .idx j => i ≤ j
  | .idx _, .key _ => true
  | .key _, .idx _ => false
  | .key s, .key t => decide (s ≤ t)

def insertByName (x : Name × Nat) : Kids → Kids
  | [] => [x]
  | y :: ys => if Name.le x.1 y.1 then x :: y :: ys else y :: insertByName x ys

def sortByName : Kids → Kids
  | [] => []
  | x :: xs => insertByName x (sortByName xs)

def ordLoad (l : Label) (ks : Kids) : Option Kids :=
  match l.kind with
  | .list | .tuple | .set => idxKids ks l.len 0
  | .dictS => some (sortByName ks)
  | .dictG =>
    match lookupName (.key "keys") ks, lookupName (.key "values") ks with
    | some k, some v => some [(.key "keys", k), (.key "values", v)]
    | _, _ => none
  | _ => some ks

def modeLoad (l : Label) (n : Nat) : Mode :=
  match l.kind with
  | .tuple => .temp
  | .inst => if l.early then .after 0 else .after n
  | .reduce => .after 2
  | .other => .after n
  | _ => .after 0

def loadP : Params := ⟨modeLoad, ordLoad, fun l => { l with kind := .list }⟩

/-- `Hdf5Loader(file).load()` -/
def load (f : Graph) (r : Nat) : Option (Graph × Nat) :=
  match copy loadP f ((f.length + 1) * (f.length + 1)) r initSt with
  | none => none
  | some (t, st) => some (st.out, t)

/-- Well-formedness of a heap as a decidable check: for every node the loader's child selection
succeeds and is a permutation of the stored children (lists/tuples/sets have entries named
`0 … len-1`, a general dict has exactly the children "keys" and "values"). -/
def wfB (g : Graph) : Bool :=
  g.all (fun nd => match ordLoad nd.label nd.kids with
    | none => false
    | some ks' => ks'.isPerm nd.kids)

def roundtrip (g : Graph) (r : Nat) : Option (Graph × Nat) :=
  match save g r with
  | none => none
  | some (f, fr) => load f fr

end TenpyModel.C17
