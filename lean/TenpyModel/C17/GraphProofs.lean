import TenpyModel.C17.Graph
import Mathlib.Logic.Relation
/-!
Partial correctness of the generic memoising depth-first copy `copy` (the common core of
`Hdf5Saver.save` and `Hdf5Loader.load`): whenever it returns, the memo table is an isomorphism from
the part of the source graph reachable from the root onto its image in the target graph.
-/
namespace TenpyModel.C17

open Relation

theorem lookup_cons_self (i t : Nat) (m : List (Nat × Nat)) : List.lookup i ((i, t) :: m) = some t := by
  simp [List.lookup]

theorem lookup_cons_ne {i j : Nat} (t : Nat) (m : List (Nat × Nat)) (h : j ≠ i) :
    List.lookup j ((i, t) :: m) = List.lookup j m := by
  have : (j == i) = false := by simpa using h
  simp [List.lookup, this]

section
variable (P : Params) (g : Graph)

/-- label and the children actually followed from node `i` -/
def EK (i : Nat) : Option (Label × Kids) :=
  match g[i]? with
  | none => none
  | some nd => (P.ord nd.label nd.kids).map (fun ks => (nd.label, ks))

def Edge (i c : Nat) : Prop := ∃ l ks n, EK P g i = some (l, ks) ∧ (n, c) ∈ ks

abbrev Reach : Nat → Nat → Prop := ReflTransGen (Edge P g)
abbrev Cycle (i : Nat) : Prop := TransGen (Edge P g) i i

/-- the node does not memoise before descending (tuple, range, `LegPipe`, reduce, …) -/
def NotEarly (i : Nat) : Prop := ∃ l ks, EK P g i = some (l, ks) ∧ P.mode l ks.length ≠ .after 0

def tgt (st : St) (c : Nat) : Nat := (st.memo.lookup c).getD 0

structure Inv (st : St) (prog : List Nat) : Prop where
  bound : ∀ i t, st.memo.lookup i = some t → t < st.out.length
  inj : ∀ i j t, st.memo.lookup i = some t → st.memo.lookup j = some t → i = j
  fin : ∀ i t, st.memo.lookup i = some t → i ∉ prog →
    ∃ l ks, EK P g i = some (l, ks) ∧ st.out[t]? = some ⟨l, relabel (tgt st) ks⟩ ∧
      ∀ nc ∈ ks, (st.memo.lookup nc.2).isSome

structure Post (c : Nat) (st st' : St) (prog : List Nat) (t : Nat) : Prop where
  inv : Inv P g st' prog
  len : st.out.length ≤ st'.out.length
  keep : ∀ u, u < st.out.length → st'.out[u]? = st.out[u]?
  mono : ∀ j u, st.memo.lookup j = some u → st'.memo.lookup j = some u
  new : ∀ j, st.memo.lookup j = none → st'.memo.lookup j ≠ none → Reach P g c j
  res : st'.memo.lookup c = some t

structure PostKids (ks : Kids) (st st' : St) (prog : List Nat) (ts : Kids) : Prop where
  inv : Inv P g st' prog
  len : st.out.length ≤ st'.out.length
  keep : ∀ u, u < st.out.length → st'.out[u]? = st.out[u]?
  mono : ∀ j u, st.memo.lookup j = some u → st'.memo.lookup j = some u
  new : ∀ j, st.memo.lookup j = none → st'.memo.lookup j ≠ none → ∃ nc ∈ ks, Reach P g nc.2 j
  res : ts = relabel (tgt st') ks
  all : ∀ nc ∈ ks, (st'.memo.lookup nc.2).isSome

theorem relabel_congr {f h : Nat → Nat} {ks : Kids} (H : ∀ nc ∈ ks, f nc.2 = h nc.2) :
    relabel f ks = relabel h ks := by
  unfold relabel
  apply List.map_congr_left
  intro nc hnc
  rw [H nc hnc]

theorem tgt_of_lookup {st : St} {c t : Nat} (h : st.memo.lookup c = some t) : tgt st c = t := by
  simp [tgt, h]

variable {P g}

theorem copyKids_post {r0 : Nat} (f : Nat → St → Option (Nat × St))
    (hf : ∀ c st prog t st', Reach P g r0 c → Inv P g st prog → f c st = some (t, st') → Post P g c st st' prog t) :
    ∀ (ks : Kids) (st : St) (prog : List Nat) (ts : Kids) (st' : St),
      (∀ nc ∈ ks, Reach P g r0 nc.2) → Inv P g st prog → copyKids f ks st = some (ts, st') →
      PostKids P g ks st st' prog ts := by
  intro ks
  induction ks with
  | nil =>
    intro st prog ts st' _ hinv h
    simp only [copyKids, Option.some.injEq, Prod.mk.injEq] at h
    obtain ⟨rfl, rfl⟩ := h
    exact ⟨hinv, Nat.le_refl _, fun _ _ => rfl, fun _ _ h => h, fun j h1 h2 => absurd h1 h2, rfl,
      fun _ h => by simp at h⟩
  | cons nc rest ih =>
    obtain ⟨n, c⟩ := nc
    intro st prog ts st' hr hinv h
    simp only [copyKids] at h
    cases hfc : f c st with
    | none => simp [hfc] at h
    | some r1 =>
      obtain ⟨t, st1⟩ := r1
      simp only [hfc] at h
      cases hrest : copyKids f rest st1 with
      | none => simp [hrest] at h
      | some r2 =>
        obtain ⟨ts2, st2⟩ := r2
        simp only [hrest, Option.some.injEq, Prod.mk.injEq] at h
        obtain ⟨rfl, rfl⟩ := h
        have p1 := hf c st prog t st1 (hr (n, c) (List.mem_cons_self ..)) hinv hfc
        have p2 := ih st1 prog ts2 st2 (fun nc hnc => hr nc (List.mem_cons_of_mem _ hnc)) p1.inv hrest
        refine ⟨p2.inv, Nat.le_trans p1.len p2.len, ?_, fun j u h => p2.mono j u (p1.mono j u h), ?_, ?_, ?_⟩
        · intro u hu
          rw [p2.keep u (Nat.lt_of_lt_of_le hu p1.len), p1.keep u hu]
        · intro j h0 h2
          cases h1 : st1.memo.lookup j with
          | none =>
            obtain ⟨nc, hnc, hreach⟩ := p2.new j h1 h2
            exact ⟨nc, List.mem_cons_of_mem _ hnc, hreach⟩
          | some u =>
            exact ⟨(n, c), List.mem_cons_self .., p1.new j h0 (by simp [h1])⟩
        · have : tgt st2 c = t := tgt_of_lookup (p2.mono c t p1.res)
          simp only [relabel, List.map_cons, this, p2.res]
        · intro nc hnc
          rcases List.mem_cons.1 hnc with rfl | hnc
          · simp [p2.mono c t p1.res]
          · exact p2.all nc hnc

theorem Inv.push {st : St} {prog : List Nat} (hinv : Inv P g st prog) {i : Nat}
    (hi : st.memo.lookup i = none) (nd : Node) :
    Inv P g ⟨st.out ++ [nd], (i, st.out.length) :: st.memo⟩ (i :: prog) := by
  refine ⟨?_, ?_, ?_⟩
  · intro j u hj
    simp only [List.length_append, List.length_cons, List.length_nil]
    by_cases hji : j = i
    · subst hji; rw [lookup_cons_self] at hj; cases hj; omega
    · rw [lookup_cons_ne _ _ hji] at hj
      have := hinv.bound j u hj; omega
  · intro a b u ha hb
    by_cases hai : a = i <;> by_cases hbi : b = i
    · rw [hai, hbi]
    · subst hai
      rw [lookup_cons_self] at ha; cases ha
      rw [lookup_cons_ne _ _ hbi] at hb
      exact absurd (hinv.bound b _ hb) (Nat.lt_irrefl _)
    · subst hbi
      rw [lookup_cons_self] at hb; cases hb
      rw [lookup_cons_ne _ _ hai] at ha
      exact absurd (hinv.bound a _ ha) (Nat.lt_irrefl _)
    · rw [lookup_cons_ne _ _ hai] at ha
      rw [lookup_cons_ne _ _ hbi] at hb
      exact hinv.inj a b u ha hb
  · intro j u hj hjp
    have hji : j ≠ i := fun h => hjp (h ▸ List.mem_cons_self ..)
    rw [lookup_cons_ne _ _ hji] at hj
    obtain ⟨l, ks, hek, hout, hall⟩ := hinv.fin j u hj (fun h => hjp (List.mem_cons_of_mem _ h))
    have hne : ∀ nc ∈ ks, nc.2 ≠ i := by
      intro nc hnc h
      have := hall nc hnc
      rw [h, hi] at this
      simp at this
    refine ⟨l, ks, hek, ?_, ?_⟩
    · rw [List.getElem?_append_left (hinv.bound j u hj), hout]
      congr 2
      apply relabel_congr
      intro nc hnc
      simp only [tgt, lookup_cons_ne _ _ (hne nc hnc)]
    · intro nc hnc
      simp only [lookup_cons_ne _ _ (hne nc hnc)]
      exact hall nc hnc

theorem EK_of {i : Nat} {nd : Node} {ks : Kids} (h1 : g[i]? = some nd) (h2 : P.ord nd.label nd.kids = some ks) :
    EK P g i = some (nd.label, ks) := by
  simp [EK, h1, h2]

theorem edge_of_mem {i : Nat} {l : Label} {ks : Kids} (hek : EK P g i = some (l, ks)) {nc : Name × Nat}
    (h : nc ∈ ks) : Edge P g i nc.2 := ⟨l, ks, nc.1, hek, h⟩

/-- Hypothesis of the correctness theorem: below the root `r0`, a node that does not memoise
before descending is not on a cycle ("tuples acyclic as documented"). -/
def LateAcyclic (P : Params) (g : Graph) (r0 : Nat) : Prop :=
  ∀ i, Reach P g r0 i → NotEarly P g i → ¬ Cycle P g i

theorem copy_post {r0 : Nat} (hT : LateAcyclic P g r0) :
    ∀ (fuel i : Nat) (st : St) (prog : List Nat) (t : Nat) (st' : St),
      Reach P g r0 i → Inv P g st prog → copy P g fuel i st = some (t, st') → Post P g i st st' prog t := by
  intro fuel
  induction fuel with
  | zero => intro i st prog t st' _ _ h; simp [copy] at h
  | succ fuel ih =>
    intro i st prog t st' hri hinv h
    rw [copy] at h
    cases hlk : st.memo.lookup i with
    | some u =>
      simp only [hlk, Option.some.injEq, Prod.mk.injEq] at h
      obtain ⟨rfl, rfl⟩ := h
      exact ⟨hinv, Nat.le_refl _, fun _ _ => rfl, fun _ _ h => h, fun j h1 h2 => absurd h1 h2, hlk⟩
    | none =>
      simp only [hlk] at h
      cases hg : g[i]? with
      | none => simp [hg] at h
      | some nd =>
        simp only [hg] at h
        cases hord : P.ord nd.label nd.kids with
        | none => simp [hord] at h
        | some ks =>
          simp only [hord] at h
          have hek : EK P g i = some (nd.label, ks) := EK_of hg hord
          have hkr : ∀ nc ∈ ks, Reach P g r0 nc.2 := fun nc hnc =>
            ReflTransGen.tail hri (edge_of_mem hek hnc)
          cases hmode : P.mode nd.label ks.length with
          | after k =>
            simp only [hmode] at h
            cases hc1 : copyKids (copy P g fuel) (List.take k ks) st with
            | none => simp [hc1] at h
            | some r1 =>
              obtain ⟨ts1, st1⟩ := r1
              simp only [hc1] at h
              have p1 := copyKids_post (copy P g fuel) ih (List.take k ks) st prog ts1 st1
                (fun nc hnc => hkr nc (List.mem_of_mem_take hnc)) hinv hc1
              -- the node itself was not memoised while its first `k` children were copied
              have hlk1 : st1.memo.lookup i = none := by
                cases hx : st1.memo.lookup i with
                | none => rfl
                | some u =>
                  exfalso
                  obtain ⟨nc, hnc, hreach⟩ := p1.new i hlk (by simp [hx])
                  have hk0 : k ≠ 0 := by
                    rintro rfl
                    simp at hnc
                  have hcyc : Cycle P g i :=
                    TransGen.head' (edge_of_mem hek (List.mem_of_mem_take hnc)) hreach
                  exact hT i hri ⟨nd.label, ks, hek, by rw [hmode]; intro hh; cases hh; exact hk0 rfl⟩ hcyc
              cases hc2 : copyKids (copy P g fuel) (List.drop k ks)
                  ⟨st1.out ++ [⟨nd.label, []⟩], (i, st1.out.length) :: st1.memo⟩ with
              | none => simp [hc2] at h
              | some r2 =>
                obtain ⟨ts2, st3⟩ := r2
                simp only [hc2, Option.some.injEq, Prod.mk.injEq] at h
                obtain ⟨rfl, rfl⟩ := h
                have hinv2 := p1.inv.push hlk1 ⟨nd.label, []⟩
                have p2 := copyKids_post (copy P g fuel) ih (List.drop k ks) _ (i :: prog) ts2 st3
                  (fun nc hnc => hkr nc (List.mem_of_mem_drop hnc)) hinv2 hc2
                have hres3 : st3.memo.lookup i = some st1.out.length :=
                  p2.mono i _ (lookup_cons_self ..)
                have hne1 : ∀ j u, st1.memo.lookup j = some u → j ≠ i := by
                  intro j u hj hji; rw [hji, hlk1] at hj; cases hj
                have hmono13 : ∀ j u, st1.memo.lookup j = some u → st3.memo.lookup j = some u := by
                  intro j u hj
                  apply p2.mono
                  show List.lookup j ((i, st1.out.length) :: st1.memo) = some u
                  rw [lookup_cons_ne _ _ (hne1 j u hj)]; exact hj
                have ht3 : st1.out.length < st3.out.length := p2.inv.bound i _ hres3
                refine ⟨⟨?_, ?_, ?_⟩, ?_, ?_, ?_, ?_, hres3⟩
                · intro j u hj
                  simp only [List.length_set]
                  exact p2.inv.bound j u hj
                · exact p2.inv.inj
                · intro j u hj hjp
                  by_cases hji : j = i
                  · subst hji
                    have hu : u = st1.out.length := by rw [hres3] at hj; cases hj; rfl
                    subst hu
                    refine ⟨nd.label, ks, hek, ?_, ?_⟩
                    · show (st3.out.set st1.out.length _)[st1.out.length]? = _
                      rw [List.getElem?_set_self ht3]
                      congr 2
                      rw [p1.res, p2.res]
                      have : relabel (tgt st1) (List.take k ks) = relabel (tgt st3) (List.take k ks) := by
                        apply relabel_congr
                        intro nc hnc
                        have hs := p1.all nc hnc
                        cases hx : st1.memo.lookup nc.2 with
                        | none => simp [hx] at hs
                        | some u => simp [tgt, hx, hmono13 _ _ hx]
                      rw [this]
                      unfold relabel
                      rw [← List.map_append, List.take_append_drop]
                      rfl
                    · intro nc hnc
                      rw [← List.take_append_drop k ks] at hnc
                      rcases List.mem_append.1 hnc with hnc | hnc
                      · have hs := p1.all nc hnc
                        cases hx : st1.memo.lookup nc.2 with
                        | none => simp [hx] at hs
                        | some u => simp [hmono13 _ _ hx]
                      · exact p2.all nc hnc
                  · obtain ⟨l, ks', hek', hout, hall⟩ := p2.inv.fin j u hj (by
                      intro hm; rcases List.mem_cons.1 hm with h | h
                      · exact hji h
                      · exact hjp h)
                    refine ⟨l, ks', hek', ?_, hall⟩
                    have hut : st1.out.length ≠ u := by
                      intro hut; subst hut
                      exact hji (p2.inv.inj j i _ hj hres3)
                    show (st3.out.set st1.out.length _)[u]? = _
                    rw [List.getElem?_set_ne hut]
                    exact hout
                · simp only [List.length_set]
                  have := p1.len; omega
                · intro u hu
                  have hu1 : u < st1.out.length := Nat.lt_of_lt_of_le hu p1.len
                  show (st3.out.set st1.out.length _)[u]? = _
                  rw [List.getElem?_set_ne (by omega)]
                  rw [p2.keep u (by simp only [List.length_append, List.length_cons, List.length_nil]; omega)]
                  rw [List.getElem?_append_left hu1]
                  exact p1.keep u hu
                · intro j u hj
                  exact hmono13 j u (p1.mono j u hj)
                · intro j hj0 hj3
                  cases hx : st1.memo.lookup j with
                  | some u =>
                    obtain ⟨nc, hnc, hreach⟩ := p1.new j hj0 (by simp [hx])
                    exact ReflTransGen.head (edge_of_mem hek (List.mem_of_mem_take hnc)) hreach
                  | none =>
                    by_cases hji : j = i
                    · subst hji; exact ReflTransGen.refl
                    · obtain ⟨nc, hnc, hreach⟩ := p2.new j (by
                        show List.lookup j ((i, st1.out.length) :: st1.memo) = none
                        rw [lookup_cons_ne _ _ hji]; exact hx) hj3
                      exact ReflTransGen.head (edge_of_mem hek (List.mem_of_mem_drop hnc)) hreach
          | temp =>
            simp only [hmode] at h
            cases hc : copyKids (copy P g fuel) ks
                ⟨st.out ++ [⟨P.tmp nd.label, []⟩], (i, st.out.length) :: st.memo⟩ with
            | none => simp [hc] at h
            | some r1 =>
              obtain ⟨ts, st2⟩ := r1
              simp only [hc, Option.some.injEq, Prod.mk.injEq] at h
              obtain ⟨rfl, rfl⟩ := h
              have hinv1 := hinv.push hlk ⟨P.tmp nd.label, []⟩
              have p := copyKids_post (copy P g fuel) ih ks _ (i :: prog) ts st2 hkr hinv1 hc
              have hnotearly : NotEarly P g i := ⟨nd.label, ks, hek, by rw [hmode]; intro hh; cases hh⟩
              have hres2 : st2.memo.lookup i = some st.out.length := p.mono i _ (lookup_cons_self ..)
              have ht0 : st.out.length < st2.out.length := p.inv.bound i _ hres2
              -- a finished node has no edge to the tuple under construction
              have hkey : ∀ j u, st2.memo.lookup j = some u → j ∉ i :: prog →
                  ∀ l ks', EK P g j = some (l, ks') → ∀ nc ∈ ks', nc.2 ≠ i := by
                intro j u hj hjp l ks' hek' nc hnc hnci
                have hji : j ≠ i := fun h => hjp (h ▸ List.mem_cons_self ..)
                cases hx : st.memo.lookup j with
                | none =>
                  obtain ⟨nc', hnc', hreach⟩ := p.new j (by
                    show List.lookup j ((i, st.out.length) :: st.memo) = none
                    rw [lookup_cons_ne _ _ hji]; exact hx) (by simp [hj])
                  have e1 : Edge P g i nc'.2 := edge_of_mem hek hnc'
                  have e2 : Edge P g j i := hnci ▸ edge_of_mem hek' hnc
                  exact hT i hri hnotearly (TransGen.tail' (ReflTransGen.head e1 hreach) e2)
                | some u' =>
                  obtain ⟨l2, ks2, hek2, _, hall⟩ := hinv.fin j u' hx (fun h => hjp (List.mem_cons_of_mem _ h))
                  rw [hek'] at hek2
                  cases hek2
                  have := hall nc hnc
                  rw [hnci, hlk] at this
                  simp at this
              have hself : ∀ nc ∈ ks, nc.2 ≠ i := by
                intro nc hnc hnci
                exact hT i hri hnotearly (TransGen.single (hnci ▸ edge_of_mem hek hnc))
              have hlen3 : (st2.out.set st.out.length ⟨P.tmp nd.label, ts⟩).length = st2.out.length :=
                List.length_set
              simp only [hlen3]
              refine ⟨⟨?_, ?_, ?_⟩, ?_, ?_, ?_, ?_, lookup_cons_self ..⟩
              · intro j u hj
                simp only [List.length_append, hlen3, List.length_cons, List.length_nil]
                by_cases hji : j = i
                · subst hji; rw [lookup_cons_self] at hj; cases hj; omega
                · rw [lookup_cons_ne _ _ hji] at hj
                  have := p.inv.bound j u hj; omega
              · intro a b u ha hb
                by_cases hai : a = i <;> by_cases hbi : b = i
                · rw [hai, hbi]
                · subst hai
                  rw [lookup_cons_self] at ha; cases ha
                  rw [lookup_cons_ne _ _ hbi] at hb
                  exact absurd (p.inv.bound b _ hb) (Nat.lt_irrefl _)
                · subst hbi
                  rw [lookup_cons_self] at hb; cases hb
                  rw [lookup_cons_ne _ _ hai] at ha
                  exact absurd (p.inv.bound a _ ha) (Nat.lt_irrefl _)
                · rw [lookup_cons_ne _ _ hai] at ha
                  rw [lookup_cons_ne _ _ hbi] at hb
                  exact p.inv.inj a b u ha hb
              · intro j u hj hjp
                by_cases hji : j = i
                · subst hji
                  rw [lookup_cons_self] at hj; cases hj
                  refine ⟨nd.label, ks, hek, ?_, ?_⟩
                  · rw [List.getElem?_append_right (by rw [hlen3]; exact Nat.le_refl _)]
                    simp only [hlen3, Nat.sub_self, List.getElem?_cons_zero]
                    congr 2
                    rw [p.res]
                    apply relabel_congr
                    intro nc hnc
                    simp only [tgt, lookup_cons_ne _ _ (hself nc hnc)]
                  · intro nc hnc
                    simp only [lookup_cons_ne _ _ (hself nc hnc)]
                    exact p.all nc hnc
                · rw [lookup_cons_ne _ _ hji] at hj
                  have hjp' : j ∉ i :: prog := by
                    intro hm; rcases List.mem_cons.1 hm with h | h
                    · exact hji h
                    · exact hjp h
                  obtain ⟨l, ks', hek', hout, hall⟩ := p.inv.fin j u hj hjp'
                  have hne := hkey j u hj hjp' l ks' hek'
                  refine ⟨l, ks', hek', ?_, ?_⟩
                  · have hu : u < st2.out.length := p.inv.bound j u hj
                    have hut : st.out.length ≠ u := by
                      intro hut; subst hut
                      exact hji (p.inv.inj j i _ hj hres2)
                    rw [List.getElem?_append_left (by rw [hlen3]; exact hu), List.getElem?_set_ne hut, hout]
                    congr 2
                    apply relabel_congr
                    intro nc hnc
                    simp only [tgt, lookup_cons_ne _ _ (hne nc hnc)]
                  · intro nc hnc
                    simp only [lookup_cons_ne _ _ (hne nc hnc)]
                    exact hall nc hnc
              · simp only [List.length_append, hlen3, List.length_cons, List.length_nil]
                omega
              · intro u hu
                rw [List.getElem?_append_left (by rw [hlen3]; omega), List.getElem?_set_ne (by omega)]
                rw [p.keep u (by simp only [List.length_append, List.length_cons, List.length_nil]; omega)]
                exact List.getElem?_append_left hu
              · intro j u hj
                have hji : j ≠ i := by intro hji; rw [hji, hlk] at hj; cases hj
                rw [lookup_cons_ne _ _ hji]
                apply p.mono
                show List.lookup j ((i, st.out.length) :: st.memo) = some u
                rw [lookup_cons_ne _ _ hji]; exact hj
              · intro j hj0 hj4
                by_cases hji : j = i
                · subst hji; exact ReflTransGen.refl
                · rw [lookup_cons_ne _ _ hji] at hj4
                  obtain ⟨nc, hnc, hreach⟩ := p.new j (by
                    show List.lookup j ((i, st.out.length) :: st.memo) = none
                    rw [lookup_cons_ne _ _ hji]; exact hj0) hj4
                  exact ReflTransGen.head (edge_of_mem hek hnc) hreach

theorem inv_init : Inv P g initSt [] :=
  ⟨fun i t h => by simp [initSt] at h, fun i j t h => by simp [initSt] at h, fun i t h => by simp [initSt] at h⟩

/-- `β` maps the part of the source graph reachable from `r` isomorphically into `out`:
injective, labels kept, children mapped pointwise (in the order in which they were followed). -/
structure IsoOn (P : Params) (g : Graph) (r : Nat) (out : Graph) (β : Nat → Nat) : Prop where
  inj : ∀ i j, Reach P g r i → Reach P g r j → β i = β j → i = j
  node : ∀ i, Reach P g r i → ∃ l ks, EK P g i = some (l, ks) ∧ out[β i]? = some ⟨l, relabel β ks⟩

/-- Partial correctness of the memoising copy. -/
theorem copy_correct {r : Nat} (hT : LateAcyclic P g r) {fuel t : Nat} {st : St}
    (h : copy P g fuel r initSt = some (t, st)) :
    tgt st r = t ∧ IsoOn P g r st.out (tgt st) := by
  have post := copy_post hT fuel r initSt [] t st ReflTransGen.refl inv_init h
  have hmemo : ∀ i, Reach P g r i → ∃ u, st.memo.lookup i = some u := by
    intro i hi
    induction hi with
    | refl => exact ⟨t, post.res⟩
    | tail _ hjk ih =>
      obtain ⟨u, hu⟩ := ih
      obtain ⟨l, ks, hek, _, hall⟩ := post.inv.fin _ u hu (by simp)
      obtain ⟨l', ks', n, hek', hmem⟩ := hjk
      rw [hek] at hek'
      cases hek'
      have := hall _ hmem
      exact Option.isSome_iff_exists.1 this
  refine ⟨tgt_of_lookup post.res, ⟨?_, ?_⟩⟩
  · intro i j hi hj hij
    obtain ⟨u, hu⟩ := hmemo i hi
    obtain ⟨v, hv⟩ := hmemo j hj
    rw [tgt_of_lookup hu, tgt_of_lookup hv] at hij
    subst hij
    exact post.inv.inj i j u hu hv
  · intro i hi
    obtain ⟨u, hu⟩ := hmemo i hi
    obtain ⟨l, ks, hek, hout, _⟩ := post.inv.fin i u hu (by simp)
    exact ⟨l, ks, hek, by rw [tgt_of_lookup hu]; exact hout⟩

end
end TenpyModel.C17
