import TenpyModel.C17.GraphRoundtrip
/-!
# C17 / Props2 — access paths through an isomorphism of object graphs

`Child g i n c`: object `i` has the attribute / entry / key `n` referring to object `c`.
`HasPath g i ns j`: following the names `ns` from `i` leads to `j` (e.g. `[key "legs", idx 2]` from an `Array`).
Under `IsoOn loadP g r h' β` (the conclusion of `C17_graph_roundtrip`) paths from reachable objects are mapped
by `β`, and every path in the loaded heap that starts at an image is the image of a path.
-/
namespace TenpyModel.C17
open Relation

def Child (g : Graph) (i : Nat) (n : Name) (c : Nat) : Prop := ∃ nd, g[i]? = some nd ∧ (n, c) ∈ nd.kids

def HasPath (g : Graph) : Nat → List Name → Nat → Prop
  | i, [], j => i = j
  | i, n :: ns, j => ∃ c, Child g i n c ∧ HasPath g c ns j

instance (g : Graph) (i : Nat) (n : Name) (c : Nat) : Decidable (Child g i n c) :=
  match h : g[i]? with
  | none => isFalse (by rintro ⟨nd, h1, _⟩; rw [h] at h1; cases h1)
  | some nd =>
    if hm : (n, c) ∈ nd.kids then isTrue ⟨nd, h, hm⟩
    else isFalse (by rintro ⟨nd', h1, h2⟩; rw [h] at h1; cases h1; exact hm h2)

variable {g h' : Graph} {r : Nat} {β : Nat → Nat}

/-- the loader's view of a well-formed node has the same named children as the node -/
theorem EK_load_kids (hwf : WF g) {i : Nat} {l : Label} {ks : Kids} (hek : EK loadP g i = some (l, ks)) :
    ∃ nd, g[i]? = some nd ∧ nd.label = l ∧ ks.Perm nd.kids := by
  unfold EK at hek
  cases hg : g[i]? with
  | none => simp [hg] at hek
  | some nd =>
    simp only [hg] at hek
    obtain ⟨ks', hord, hperm⟩ := hwf i nd hg
    have hord' : ordLoad nd.label nd.kids = some ks' := hord
    have : loadP.ord nd.label nd.kids = some ks' := hord'
    rw [this] at hek
    simp only [Option.map_some, Option.some.injEq, Prod.mk.injEq] at hek
    obtain ⟨h1, h2⟩ := hek
    exact ⟨nd, rfl, h1, h2 ▸ hperm⟩

theorem child_image (hwf : WF g) (hiso : IsoOn loadP g r h' β) {i : Nat} (hi : Reach loadP g r i)
    {n : Name} {c : Nat} (hc : Child g i n c) : Child h' (β i) n (β c) ∧ Reach loadP g r c := by
  obtain ⟨l, ks, hek, hout⟩ := hiso.node i hi
  obtain ⟨nd, hg, _, hperm⟩ := EK_load_kids hwf hek
  obtain ⟨nd', hg', hmem⟩ := hc
  rw [hg] at hg'; cases hg'
  have hmem' : (n, c) ∈ ks := hperm.mem_iff.2 hmem
  refine ⟨⟨_, hout, ?_⟩, ReflTransGen.tail hi ⟨l, ks, n, hek, hmem'⟩⟩
  exact List.mem_map.2 ⟨(n, c), hmem', rfl⟩

theorem child_preimage (hwf : WF g) (hiso : IsoOn loadP g r h' β) {i : Nat} (hi : Reach loadP g r i)
    {n : Name} {u : Nat} (hu : Child h' (β i) n u) : ∃ c, Child g i n c ∧ β c = u := by
  obtain ⟨l, ks, hek, hout⟩ := hiso.node i hi
  obtain ⟨nd, hg, _, hperm⟩ := EK_load_kids hwf hek
  obtain ⟨nd', hg', hmem⟩ := hu
  rw [hout] at hg'; cases hg'
  obtain ⟨⟨n', c⟩, hc, hcu⟩ := List.mem_map.1 hmem
  simp only [Prod.mk.injEq] at hcu
  obtain ⟨rfl, rfl⟩ := hcu
  exact ⟨c, ⟨nd, hg, hperm.mem_iff.1 hc⟩, rfl⟩

theorem path_image (hwf : WF g) (hiso : IsoOn loadP g r h' β) :
    ∀ (ns : List Name) {i j : Nat}, Reach loadP g r i → HasPath g i ns j →
      HasPath h' (β i) ns (β j) ∧ Reach loadP g r j
  | [], i, j, hi, hp => by
    have : i = j := hp
    subst this
    exact ⟨rfl, hi⟩
  | n :: ns, i, j, hi, hp => by
    obtain ⟨c, hc, hrest⟩ := hp
    obtain ⟨hc', hrc⟩ := child_image hwf hiso hi hc
    obtain ⟨hp', hrj⟩ := path_image hwf hiso ns hrc hrest
    exact ⟨⟨β c, hc', hp'⟩, hrj⟩

theorem path_preimage (hwf : WF g) (hiso : IsoOn loadP g r h' β) :
    ∀ (ns : List Name) {i u : Nat}, Reach loadP g r i → HasPath h' (β i) ns u →
      ∃ j, HasPath g i ns j ∧ β j = u
  | [], i, u, _, hp => ⟨i, rfl, hp⟩
  | n :: ns, i, u, hi, hp => by
    obtain ⟨c', hc', hrest⟩ := hp
    obtain ⟨c, hc, rfl⟩ := child_preimage hwf hiso hi hc'
    obtain ⟨j, hj, hju⟩ := path_preimage hwf hiso ns (child_image hwf hiso hi hc).2 hrest
    exact ⟨j, ⟨c, hc, hj⟩, hju⟩

/-- the label (type, class, dataset digest) of a reachable object is kept -/
theorem label_image (hwf : WF g) (hiso : IsoOn loadP g r h' β) {i : Nat} (hi : Reach loadP g r i) :
    (h'[β i]?).map (·.label) = (g[i]?).map (·.label) := by
  obtain ⟨l, ks, hek, hout⟩ := hiso.node i hi
  obtain ⟨nd, hg, hl, _⟩ := EK_load_kids hwf hek
  rw [hout, hg, Option.map_some, Option.map_some, hl]

end TenpyModel.C17
