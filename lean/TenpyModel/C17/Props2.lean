import TenpyModel.C17.P2_Proofs
import TenpyModel.C17.P2_Shared
import TenpyModel.C17.PropsGraph
import TenpyModel.Core.ArrWF
/-!
# C17 (part 2) — `LegPipe` re-initialisation, `Array` field layout, `__getstate__`/`__setstate__`, shared legs

* `C17_pipe_reinit` — what `LegPipe.from_hdf5` does (`cls(legs, qconj, sorted, bunched)` with the *flags of the
  saved outgoing leg*) reproduces every pipe built by `LegPipe(legs, qconj, sort, bunch)`: all of `slices`,
  `charges`, flags, `q_map`, `q_map_slices`, `_perm`, `_strides`.  `C17_pipe_reinit_conj`: also for `pipe.conj()`.
  `C17_pipe_reinit_outer_conj_counterexample`: **not** for `pipe.outer_conj()` (flag `sorted = False` ⇒ the
  loader does not sort ⇒ different blocks) — confirmed on the real code, see notes.
* `C17_pipe_file_roundtrip` — `from_hdf5 ∘ save_hdf5 = id` for legs of any nesting depth (pipes of pipes),
  formats `blocks` and `compact`; `C17_pipe_flat_not_loadable` (documented known finding).
* `C17_array` — field-wise `Array.from_hdf5 ∘ Array.save_hdf5 = id`.
* `C17_getstate_setstate` — the four pickle/copy pairs.
* `C17_shared_paths_preserved`, `C17_shared_legs_preserved` — corollaries of the graph theorem: which leg
  *objects* two tensors share is kept by the round trip.
-/
open TenpyModel.Core (ALeg Pipe Arr Blk)
open TenpyModel.C17 TenpyModel.C17.P2

/-! ### 1. `LegPipe` -/

/-- **Determinism of `_init_from_legs` / re-initialisation.**  Let `p = LegPipe(legs, qconj, sort, bunch)`.
Then `LegPipe(p.legs, p.qconj, p.sorted, p.bunched) = p` (the call made by `LegPipe.from_hdf5`: the saved flags of the
outgoing leg are passed as `sort`, `bunch`), and also `LegPipe(p.legs, p.qconj, sort, bunch) = p`. -/
theorem C17_pipe_reinit (legs : List TenpyModel.Core.Leg) (qconj : Int) (sort bunch : Bool) :
    let p := Pipe.init legs qconj sort bunch
    Pipe.init p.legs p.leg.qconj p.leg.sorted p.leg.bunched = p
    ∧ Pipe.init p.legs p.leg.qconj sort bunch = p := by
  intro p
  refine ⟨Pipe.init_reinit legs qconj sort bunch, ?_⟩
  show Pipe.init (Pipe.init legs qconj sort bunch).legs (Pipe.init legs qconj sort bunch).leg.qconj sort bunch = _
  rw [Pipe.init_legs, (Pipe.init_mods_qconj legs qconj sort bunch).2]

/-- the same for a conjugated pipe (`LegPipe.conj`: all incoming legs and the outgoing direction flipped) -/
theorem C17_pipe_reinit_conj (legs : List TenpyModel.Core.Leg) (qconj : Int) (sort bunch : Bool) :
    let p := (Pipe.init legs qconj sort bunch).conj
    Pipe.init p.legs p.leg.qconj p.leg.sorted p.leg.bunched = p := by
  intro p
  have h : p = Pipe.init (legs.map TenpyModel.Core.Leg.conj) (-qconj) sort bunch :=
    (Pipe.init_conj legs qconj sort bunch).symm
  rw [h]
  exact Pipe.init_reinit _ _ _ _

namespace TenpyModel.C17.P2.Examples
open TenpyModel.Core
def l1 : Core.Leg := Leg.fromQflat [1] [[0], [1], [2]] 1
def l2 : Core.Leg := Leg.fromQflat [1] [[0], [2]] 1
/-- U(1), 3×2 blocks fused to 5 sectors (charge 2 twice): sorted, bunched, non-trivial `_perm` -/
def p12 : Pipe := Pipe.init [l1, l2] 1 true true
/-- Z_2 legs, unsorted and unbunched pipe -/
def pZ2 : Pipe := Pipe.init [Leg.fromQflat [2] [[0], [1]] 1, Leg.fromQflat [2] [[1], [0], [1]] (-1)] (-1) false false
end TenpyModel.C17.P2.Examples

open TenpyModel.C17.P2.Examples in
/-- non-vacuity: the pipe is not trivial (`_perm` is a genuine permutation, two grid cells share a sector) and the
re-initialisation from the saved attributes gives it back (concrete runs of the executable model) -/
example : p12.perm = some [0, 2, 1, 4, 3, 5] ∧ p12.leg.charges = [[0], [1], [2], [3], [4]]
    ∧ p12.leg.slices = [0, 1, 2, 4, 5, 6]
    ∧ Pipe.init p12.legs p12.leg.qconj p12.leg.sorted p12.leg.bunched = p12
    ∧ Pipe.init p12.conj.legs p12.conj.leg.qconj p12.conj.leg.sorted p12.conj.leg.bunched = p12.conj
    ∧ Pipe.init pZ2.legs pZ2.leg.qconj pZ2.leg.sorted pZ2.leg.bunched = pZ2
    ∧ pZ2.leg.bunched = false := by decide

open TenpyModel.C17.P2.Examples in
/-- **`outer_conj()` pipes are not reproduced.**  `q = p.outer_conj()` negates the sorted charges and sets
`sorted = False`; `LegPipe(q.legs, q.qconj, False, q.bunched)` does not sort, so the loaded pipe has 6 blocks
`0,-2,-1,-3,-2,-4` instead of the 5 blocks `0,-1,-2,-3,-4`: even the `LegCharge` view differs. -/
theorem C17_pipe_reinit_outer_conj_counterexample :
    let q := p12.outerConj
    Pipe.init q.legs q.leg.qconj q.leg.sorted q.leg.bunched ≠ q
    ∧ q.leg.charges = [[0], [-1], [-2], [-3], [-4]]
    ∧ (Pipe.init q.legs q.leg.qconj q.leg.sorted q.leg.bunched).leg.charges = [[0], [-2], [-1], [-3], [-2], [-4]] := by
  decide

/-- **File round trip of a leg of any nesting depth** (`LegCharge`s and pipes constructed by `LegPipe(...)`, pipes
of pipes, conjugates), formats `blocks` and `compact`: `from_hdf5 (save_hdf5 leg) = leg`. -/
theorem C17_pipe_file_roundtrip (fmt : String) (hf : fmt = "blocks" ∨ fmt = "compact") (names : List String)
    (a : ALeg) (ha : Canon a) :
    (encLeg fmt names a).bind decLeg = some a ∧ (encLeg fmt names a.conj).bind decLeg = some a.conj := by
  obtain ⟨n, h1, h2⟩ := canon_roundtrip fmt hf names a ha
  obtain ⟨n', h1', h2'⟩ := canon_roundtrip fmt hf names a.conj (canon_conj a ha)
  rw [h1, h1']
  exact ⟨h2, h2'⟩

/-- with the `flat` leg format a pipe cannot be loaded (`sorted`/`bunched` are not written): known finding -/
theorem C17_pipe_flat_not_loadable (names : List String) (p : Pipe) (subs : List ALeg) :
    (encLeg "flat" names (.pipe p subs)).bind decLeg = none := by
  simp only [encLeg]
  cases encLegs "flat" names subs with
  | none => rfl
  | some fs => simp [Leg.encode, decLeg, pipeAttrs]

namespace TenpyModel.C17.P2.Examples
open TenpyModel.Core
/-- a pipe of (a pipe and a leg) -/
def nested : ALeg := ALeg.mkPipe [ALeg.mkPipe [.plain l1, .plain l2] 1 true true, .plain l2.conj] (-1) true false

theorem nested_canon : Canon nested :=
  Canon.pipe _ _ _ _ (fun a ha => by
    simp only [List.mem_cons, List.not_mem_nil, or_false] at ha
    rcases ha with rfl | rfl
    · exact Canon.pipe _ _ _ _ (fun b hb => by
        simp only [List.mem_cons, List.not_mem_nil, or_false] at hb
        rcases hb with rfl | rfl
        · exact Canon.plain _ (by decide)
        · exact Canon.plain _ (by decide))
    · exact Canon.plain _ (by decide))
end TenpyModel.C17.P2.Examples

open TenpyModel.C17.P2.Examples in
/-- non-vacuity: a nested pipe; its file and the loaded outgoing leg spelled out for the `compact` format -/
example : Canon nested
    ∧ ((encLeg "compact" ["N"] nested).bind decLeg).map (fun a => (a.leg.charges, a.leg.slices, a.leg.qconj, a.isPipe))
      = some (nested.leg.charges, nested.leg.slices, -1, true)
    ∧ nested.leg.charges.length = 10 := ⟨nested_canon, by decide, by decide⟩

/-! ### 2. `Array` -/

/-- **Field-wise round trip of a tensor**: `chinfo`, `legs` (any nesting of pipes), `dtype`, `total_charge`, `labels`,
`blocks`, `block_inds`, `block_inds_sorted` written by `Array.save_hdf5` and read by `Array.from_hdf5` (then
`_set_shape()`, `test_sanity()`) give back the same tensor: it loads iff it is sane, and is then equal in every field. -/
theorem C17_array {α : Type} (fmt : String) (hf : fmt = "blocks" ∨ fmt = "compact") (sane : SArr α → Bool)
    (a : SArr α) (hl : a.arr.legs ≠ []) (hc : ∀ l ∈ a.arr.legs, Canon l) :
    (a.encode fmt).bind (ArrFile.decode sane) = if sane a then some a else none := by
  obtain ⟨f, h1, h2⟩ := array_roundtrip fmt hf sane a hl hc
  rw [h1]
  exact h2

namespace TenpyModel.C17.P2.Examples
open TenpyModel.Core
/-- 2-leg tensor `[pipe(l1,l2), l1*]`, two stored blocks, complex dtype tag, one label -/
def arr1 : SArr Int :=
  { arr := { mods := [1], legs := [ALeg.mkPipe [.plain l1, .plain l2] 1 true true, .plain l1.conj],
             qtotal := [0], labels := [some "(a.b)", none],
             qdata := [[0, 0], [2, 2]], data := [⟨[1, 1], [7]⟩, ⟨[2, 1], [3, -4]⟩], qdataSorted := true },
    dtype := "<c16", names := ["N"] }
/-- the storage part of `test_sanity` -/
def sane1 (a : SArr Int) : Bool := decide (a.arr.WF ∧ a.arr.ChargeRule)
end TenpyModel.C17.P2.Examples

open TenpyModel.C17.P2.Examples in
/-- non-vacuity: the hypotheses hold for `arr1`, it is sane, and the decoded file has the expected fields -/
example : arr1.arr.legs ≠ [] ∧ (∀ l ∈ arr1.arr.legs, Canon l) ∧ sane1 arr1 = true
    ∧ ((arr1.encode "compact").bind (ArrFile.decode sane1)).map
        (fun a => (a.arr.lcs, a.arr.qdata, a.arr.data, a.arr.qtotal))
      = some (arr1.arr.lcs, [[0, 0], [2, 2]], [⟨[1, 1], [7]⟩, ⟨[2, 1], [3, -4]⟩], [0])
    ∧ ((arr1.encode "compact").bind (ArrFile.decode sane1)).map
        (fun a => (a.arr.labels, a.arr.qdataSorted, a.dtype, a.names))
      = some ([some "(a.b)", none], true, "<c16", ["N"]) := by
  refine ⟨by decide, ?_, by decide, by decide, by decide⟩
  intro l hl
  simp only [arr1, List.mem_cons, List.not_mem_nil, or_false] at hl
  rcases hl with rfl | rfl
  · exact Canon.pipe _ _ _ _ (fun b hb => by
      simp only [List.mem_cons, List.not_mem_nil, or_false] at hb
      rcases hb with rfl | rfl
      · exact Canon.plain _ (by decide)
      · exact Canon.plain _ (by decide))
  · exact Canon.plain _ (by decide)

/-! ### 3. `__getstate__` / `__setstate__` (pickle and `copy`) -/

/-- **The four state pairs.**
`ChargeInfo`: `(qnumber, mod, names)`, the derived `_mask`, `_mod_masked` are recomputed — identity on every object
satisfying the class invariant (in particular every `ChargeInfo(mod, names)`); the `assert` never fires.
`LegCharge`: 8-tuple copied verbatim; `LegPipe`: 9-tuple with the `LegCharge` state first; `copy()` of both.
`Array`: `__dict__`, then `_set_shape()` — identity on every array with at least one leg whose `shape`/`rank` are
what `_set_shape` computes; `copy(deep)` returns an equal object, both shallow and deep. -/
theorem C17_getstate_setstate :
    (∀ o : CIObj, o.Inv → CIObj.setstate o.getstate = some o)
    ∧ (∀ mod names, CIObj.setstate (CIObj.init mod names).getstate = some (CIObj.init mod names))
    ∧ (∀ o : LCObj, LCObj.setstate o.getstate = o ∧ o.copy = o)
    ∧ (∀ o : LPObj, LPObj.setstate o.getstate = o ∧ o.copy = o)
    ∧ (∀ (α : Type) (ind : Nat → Nat) (o : ArrObj α), o.Inv ind →
        ArrObj.setstate ind o.getstate = some o ∧ ∀ deep, o.copy ind deep = some o) := by
  refine ⟨?_, ?_, ?_, ?_, ?_⟩
  · rintro ⟨q, m, mask, mm, names⟩ ⟨h1, h2, h3⟩
    simp only at h1 h2 h3
    subst h1 h2 h3
    simp [CIObj.setstate, CIObj.getstate]
  · intro mod names
    simp [CIObj.setstate, CIObj.getstate, CIObj.init]
  · rintro ⟨⟨_, _, _, _, _, _, _⟩, _⟩
    exact ⟨rfl, rfl⟩
  · rintro ⟨⟨⟨_, _, _, _, _, _, _⟩, _⟩, _, _, _, _, _, _, _, _⟩
    exact ⟨rfl, rfl⟩
  · rintro α ind ⟨legs, ci, shape, rank, dt, qt, lab, data, qdata, qs⟩ ⟨h1, h2, h3⟩
    simp only at h1 h2 h3
    subst h2 h3
    have he : legs.isEmpty = false := by
      cases legs with
      | nil => exact absurd rfl h1
      | cons _ _ => rfl
    refine ⟨by simp [ArrObj.setstate, ArrObj.getstate, he], fun deep => ?_⟩
    cases deep <;> simp [ArrObj.copy, ArrObj.setstate, ArrObj.getstate, he]

/-- `DipolarChargeInfo`: the pair `(ChargeInfo state, (charge_idcs, dipole_idcs, dipole_dims))` (pickle/copy path;
this is the one-argument `__setstate__` that the unrepaired `from_hdf5` called with two arguments) -/
theorem C17_getstate_setstate_dipolar (o : DCIObj) (h : o.base.Inv) : DCIObj.setstate o.getstate = some o := by
  obtain ⟨b, c, d, e⟩ := o
  have := C17_getstate_setstate.1 b h
  simp only [DCIObj.setstate, DCIObj.getstate, this]

example : DCIObj.setstate (DCIObj.getstate ⟨CIObj.init [1, 1] ["N", "P"], [0], [1], [0]⟩)
    = some ⟨CIObj.init [1, 1] ["N", "P"], [0], [1], [0]⟩ := by decide

/-- a state tuple whose `qnumber` disagrees with `mod` is rejected (the `assert`) — the guard is not vacuous -/
example : CIObj.setstate (3, [1, 2], ["N", "P"]) = none := by decide
example : CIObj.setstate (CIObj.init [1, 2, 1] ["N", "P", "M"]).getstate
    = some ⟨3, [1, 2, 1], [false, true, false], [2], ["N", "P", "M"]⟩ := by decide
open TenpyModel.C17.P2.Examples in
/-- non-vacuity for `LegPipe`: the state of a concrete pipe object (9 components) and its copy -/
example : (LPObj.ofPipe p12 0 [1, 2]).copy = LPObj.ofPipe p12 0 [1, 2]
    ∧ (LPObj.ofPipe p12 0 [1, 2]).getstate.2.2.2.2.1 = [3, 2] := by decide
/-- non-vacuity for `Array`: invariant of a concrete object; an array without legs is rejected by `_set_shape` -/
example : (⟨[4, 5], 0, [6, 3], 2, "<f8", [0], [none, some "p"], [([1, 1], [(1 : Int)])], [[0, 0]], true⟩ : ArrObj Int).Inv
    (fun i => if i = 4 then 6 else 3) := by
  refine ⟨by decide, by decide, by decide⟩
example : ArrObj.setstate (fun _ => 1)
    (⟨[], 0, [], 0, "<f8", [], [], [], [], true⟩ : ArrObj Int) = none := rfl

/-! ### 4. sharing of legs between tensors -/

/-- **Access paths through the round trip.**  If the loaded heap is an isomorphic image (`IsoOn`, the conclusion of
`C17_graph_roundtrip`), then for objects `i₁`, `i₂` reachable from the root and attribute/entry paths `ns₁`, `ns₂`:
the paths exist after loading, lead to the images, two paths lead to the *same object* after loading iff they did before
(`is`-identity), the object has the same label (type/class/content digest), and the loaded heap has no other
object at these paths. -/
theorem C17_shared_paths_preserved (g : Graph) (r : Nat) (hwf : WF g) {h' : Graph} {β : Nat → Nat}
    (hiso : IsoOn loadP g r h' β) {i₁ i₂ j₁ j₂ : Nat} {ns₁ ns₂ : List Name}
    (hi₁ : Reach loadP g r i₁) (hi₂ : Reach loadP g r i₂) (hp₁ : HasPath g i₁ ns₁ j₁) (hp₂ : HasPath g i₂ ns₂ j₂) :
    HasPath h' (β i₁) ns₁ (β j₁) ∧ HasPath h' (β i₂) ns₂ (β j₂)
    ∧ (β j₁ = β j₂ ↔ j₁ = j₂)
    ∧ (h'[β j₁]?).map (·.label) = (g[j₁]?).map (·.label)
    ∧ (∀ u, HasPath h' (β i₁) ns₁ u → ∃ j, HasPath g i₁ ns₁ j ∧ β j = u) := by
  obtain ⟨q1, r1⟩ := path_image hwf hiso ns₁ hi₁ hp₁
  obtain ⟨q2, r2⟩ := path_image hwf hiso ns₂ hi₂ hp₂
  exact ⟨q1, q2, C17_graph_identity g r hiso r1 r2, label_image hwf hiso r1,
    fun u hu => path_preimage hwf hiso ns₁ hi₁ hu⟩

/-- leg number `k` of the tensor object `a`: `a.legs[k]` -/
abbrev TenpyModel.C17.ArrayLeg (g : Graph) (a k ℓ : Nat) : Prop := HasPath g a [.key "legs", .idx k] ℓ

/-- **Legs shared between tensors stay shared, distinct legs stay distinct** — total-correctness form: for every
well-formed closed object graph without a late-memoising object on a cycle, save and load succeed and for any two
tensors `a₁`, `a₂` reachable from the root (e.g. the `B` tensors of an MPS) and leg positions `k₁`, `k₂`:
`loaded(a₁).legs[k₁] is loaded(a₂).legs[k₂]` iff `a₁.legs[k₁] is a₂.legs[k₂]`; the loaded legs are the images of the
saved ones (same label), and `loaded(a₁).legs[k₁]` is nothing else. -/
theorem C17_shared_legs_preserved (g : Graph) (r : Nat) (hwf : WF g) (hc : Closed g r) (hT : LateAcyclic loadP g r) :
    ∃ f fr h' r', ∃ β : Nat → Nat, save g r = some (f, fr) ∧ load f fr = some (h', r') ∧ β r = r' ∧
      ∀ a₁ a₂ k₁ k₂ ℓ₁ ℓ₂, Reach loadP g r a₁ → Reach loadP g r a₂ →
        ArrayLeg g a₁ k₁ ℓ₁ → ArrayLeg g a₂ k₂ ℓ₂ →
        ArrayLeg h' (β a₁) k₁ (β ℓ₁) ∧ ArrayLeg h' (β a₂) k₂ (β ℓ₂)
        ∧ (β ℓ₁ = β ℓ₂ ↔ ℓ₁ = ℓ₂)
        ∧ (h'[β ℓ₁]?).map (·.label) = (g[ℓ₁]?).map (·.label)
        ∧ (∀ u, ArrayLeg h' (β a₁) k₁ u → u = β ℓ₁ ∨ ∃ ℓ, ℓ ≠ ℓ₁ ∧ ArrayLeg g a₁ k₁ ℓ ∧ β ℓ = u) := by
  obtain ⟨f, fr, h', r', β, hs, hl, hr, hiso⟩ := C17_graph_roundtrip g r hwf hc hT
  refine ⟨f, fr, h', r', β, hs, hl, hr, ?_⟩
  intro a₁ a₂ k₁ k₂ ℓ₁ ℓ₂ h1 h2 p1 p2
  obtain ⟨q1, q2, hid, hlab, honto⟩ := C17_shared_paths_preserved g r hwf hiso h1 h2 p1 p2
  refine ⟨q1, q2, hid, hlab, fun u hu => ?_⟩
  obtain ⟨ℓ, hℓ, rfl⟩ := honto u hu
  by_cases h : ℓ = ℓ₁
  · exact Or.inl (h ▸ rfl)
  · exact Or.inr ⟨ℓ, h, hℓ, rfl⟩

namespace TenpyModel.C17.P2.Examples
open TenpyModel.C17.Examples
/-- `[A₁, A₂]`: two tensors with a common `chinfo`; `A₁.legs = [ℓ₆, ℓ₇]`, `A₂.legs = [ℓ₇, ℓ₈]` share the leg object `ℓ₇`;
`ℓ₈` has the same content as `ℓ₆` (equal label) but is a different object. -/
def gMps : Graph :=
  [ ⟨lab .list 2, [(.idx 0, 1), (.idx 1, 2)]⟩,
    ⟨lab .inst 0 "np_conserved.Array", [(.key "chinfo", 3), (.key "legs", 4)]⟩,
    ⟨lab .inst 0 "np_conserved.Array", [(.key "chinfo", 3), (.key "legs", 5)]⟩,
    ⟨lab .inst 0 "charges.ChargeInfo", []⟩,
    ⟨lab .list 2, [(.idx 0, 6), (.idx 1, 7)]⟩,
    ⟨lab .list 2, [(.idx 0, 7), (.idx 1, 8)]⟩,
    ⟨lab .inst 0 "charges.LegCharge:vL", [(.key "chinfo", 3)]⟩,
    ⟨lab .inst 0 "charges.LegCharge:p", [(.key "chinfo", 3)]⟩,
    ⟨lab .inst 0 "charges.LegCharge:vL", [(.key "chinfo", 3)]⟩ ]
end TenpyModel.C17.P2.Examples

open TenpyModel.C17.Examples TenpyModel.C17.P2.Examples in
/-- non-vacuity / concrete run: hypotheses hold (certificates), the loaded heap is spelled out (objects renumbered
in depth-first order): loaded `A₁.legs[1]` and `A₂.legs[0]` are the same object `5`, `A₁.legs[0] = 4` and
`A₂.legs[1] = 8` are different objects although their content is equal. -/
example : wfB gMps = true ∧ cert gMps [3, 2, 2, 0, 1, 1, 0, 0, 0] = true
    ∧ ArrayLeg gMps 1 1 7 ∧ ArrayLeg gMps 2 0 7 ∧ ArrayLeg gMps 1 0 6 ∧ ArrayLeg gMps 2 1 8
    ∧ roundtrip gMps 0 = some (
      [ ⟨lab .list 2, [(.idx 0, 1), (.idx 1, 6)]⟩,
        ⟨lab .inst 0 "np_conserved.Array", [(.key "chinfo", 2), (.key "legs", 3)]⟩,
        ⟨lab .inst 0 "charges.ChargeInfo", []⟩,
        ⟨lab .list 2, [(.idx 0, 4), (.idx 1, 5)]⟩,
        ⟨lab .inst 0 "charges.LegCharge:vL", [(.key "chinfo", 2)]⟩,
        ⟨lab .inst 0 "charges.LegCharge:p", [(.key "chinfo", 2)]⟩,
        ⟨lab .inst 0 "np_conserved.Array", [(.key "chinfo", 2), (.key "legs", 7)]⟩,
        ⟨lab .list 2, [(.idx 0, 5), (.idx 1, 8)]⟩,
        ⟨lab .inst 0 "charges.LegCharge:vL", [(.key "chinfo", 2)]⟩ ], 0) :=
  ⟨by decide, by decide, ⟨4, by decide, 7, by decide, rfl⟩, ⟨5, by decide, 7, by decide, rfl⟩,
    ⟨4, by decide, 6, by decide, rfl⟩, ⟨5, by decide, 8, by decide, rfl⟩, by decide⟩
