import TenpyModel.C17.P2_Model
import TenpyModel.C17.P2_Pipe
import TenpyModel.C17.PropsLegs
/-!
# C17 / Props2 — helper lemmas for the pipe / array layouts
-/
namespace TenpyModel.C17.P2
open TenpyModel.Core (ALeg Pipe Arr Blk Label Charge Dense)

theorem map_toNat_ofNat (l : List Nat) : (l.map Int.ofNat).map Int.toNat = l := by
  induction l with
  | nil => rfl
  | cons a as ih => simp only [List.map_cons, ih]; rfl

theorem ofFields_toFields (l : Core.Leg) : ofFields l.mods (toFields l) = l := by
  cases l
  simp only [ofFields, toFields, map_toNat_ofNat]

theorem modsOf_chinfoOf (mods : List Nat) (names : List String) : modsOf (chinfoOf mods names) = mods :=
  map_toNat_ofNat mods

/-- `LegCharge.test_sanity` shapes ⇒ the hypothesis of `C17_leg_compact` -/
theorem toFields_WF (l : Core.Leg) (h : LeafOK l) : (toFields l).WF := by
  refine ⟨?_, rfl, ?_⟩
  · show (l.slices.map Int.ofNat).length = l.charges.length + 1
    rw [List.length_map]; exact h
  · show (l.slices.map Int.ofNat).getLast? = some ((l.slices.getLastD 0 : Nat) : Int)
    have hne : l.slices ≠ [] := by
      intro h0; rw [LeafOK, h0] at h; simp at h
    rw [List.getLast?_map, List.getLastD_eq_getLast?, List.getLast?_eq_some_getLast hne]
    rfl

/-- a plain leg: `from_hdf5 ∘ save_hdf5 = id` in the two lossless formats -/
theorem leaf_roundtrip (fmt : String) (hf : fmt = "blocks" ∨ fmt = "compact") (names : List String)
    (l : Core.Leg) (h : LeafOK l) :
    ∃ n, encLeg fmt names (.plain l) = some n ∧ decLeg n = some (.plain l) := by
  have hrt : ((toFields l).encode fmt).bind (LegFile.decode l.mods.length) = some (toFields l) := by
    rcases hf with rfl | rfl
    · exact C17_leg_blocks _ _
    · exact C17_leg_compact _ (toFields_WF l h) _
  cases he : (toFields l).encode fmt with
  | none => rw [he] at hrt; cases hrt
  | some f =>
    rw [he] at hrt
    refine ⟨.charge (chinfoOf l.mods names).encode f, by simp only [encLeg, he], ?_⟩
    have hq : (chinfoOf l.mods names).mod.length = l.mods.length := by simp [chinfoOf]
    simp only [decLeg, C17_chinfo, hq]
    simp only [Option.bind_some] at hrt
    rw [hrt, modsOf_chinfoOf]
    simp only [ofFields_toFields]

/-- both lossless formats store the three attributes `LegPipe.from_hdf5` reads -/
theorem pipeAttrs_encode (fmt : String) (hf : fmt = "blocks" ∨ fmt = "compact") (l : Leg) :
    ∃ f, l.encode fmt = some f ∧ pipeAttrs f = some (l.qconj, l.sorted, l.bunched) := by
  rcases hf with rfl | rfl
  · exact ⟨_, rfl, rfl⟩
  · exact ⟨_, rfl, rfl⟩

/-- the `flat` format does not (KeyError in `LegPipe.from_hdf5`) -/
theorem pipeAttrs_flat (l : Leg) : (l.encode "flat").bind pipeAttrs = none := rfl

theorem init_reinit' (legs : List Core.Leg) (qconj : Int) (sort bunch : Bool) :
    Pipe.init legs (Pipe.init legs qconj sort bunch).leg.qconj (Pipe.init legs qconj sort bunch).leg.sorted
      (Pipe.init legs qconj sort bunch).leg.bunched = Pipe.init legs qconj sort bunch := by
  have := Pipe.init_reinit legs qconj sort bunch
  rwa [Pipe.init_legs] at this

/-- list version, from the element-wise statement -/
theorem legs_roundtrip (fmt : String) (names : List String) :
    ∀ (subs : List ALeg), (∀ a ∈ subs, ∃ n, encLeg fmt names a = some n ∧ decLeg n = some a) →
      ∃ ns, encLegs fmt names subs = some ns ∧ decLegs ns = some subs
  | [], _ => ⟨[], rfl, rfl⟩
  | a :: as, h => by
    obtain ⟨n, hn1, hn2⟩ := h a (List.mem_cons_self ..)
    obtain ⟨ns, hs1, hs2⟩ := legs_roundtrip fmt names as (fun b hb => h b (List.mem_cons_of_mem _ hb))
    exact ⟨n :: ns, by simp only [encLegs, hn1, hs1], by simp only [decLegs, hn2, hs2]⟩

/-- **every canonical leg (any nesting of pipes) is reproduced** by `from_hdf5 ∘ save_hdf5` -/
theorem canon_roundtrip (fmt : String) (hf : fmt = "blocks" ∨ fmt = "compact") (names : List String)
    (a : ALeg) (ha : Canon a) : ∃ n, encLeg fmt names a = some n ∧ decLeg n = some a := by
  induction ha with
  | plain l h => exact leaf_roundtrip fmt hf names l h
  | pipe subs qconj sort bunch _ ih =>
    obtain ⟨ns, hs1, hs2⟩ := legs_roundtrip fmt names subs ih
    obtain ⟨f, hf1, hf2⟩ := pipeAttrs_encode fmt hf (toFields (Pipe.init (subs.map ALeg.leg) qconj sort bunch).leg)
    refine ⟨.pipe (chinfoOf (Pipe.init (subs.map ALeg.leg) qconj sort bunch).leg.mods names).encode f ns, ?_, ?_⟩
    · simp only [ALeg.mkPipe, encLeg, hf1, hs1]
    · simp only [decLeg, hf2, hs2, ALeg.mkPipe]
      show some (ALeg.pipe (Pipe.init (subs.map ALeg.leg) _ _ _) subs) = _
      simp only [toFields]
      rw [init_reinit']

/-! ### `conj` keeps a leg canonical -/

theorem leg_conj : ∀ a : ALeg, a.conj.leg = a.leg.conj
  | .plain _ => by simp [ALeg.conj, ALeg.leg]
  | .pipe _ _ => by simp [ALeg.conj, ALeg.leg, Pipe.conj]

theorem mkPipe_conj (subs : List ALeg) (qconj : Int) (sort bunch : Bool) :
    (ALeg.mkPipe subs qconj sort bunch).conj = ALeg.mkPipe (subs.map ALeg.conj) (-qconj) sort bunch := by
  simp only [ALeg.mkPipe, ALeg.conj]
  congr 1
  have : (subs.map ALeg.conj).map ALeg.leg = (subs.map ALeg.leg).map Core.Leg.conj := by
    rw [List.map_map, List.map_map]
    exact List.map_congr_left (fun a _ => leg_conj a)
  rw [this, Pipe.init_conj]

theorem canon_conj (a : ALeg) (ha : Canon a) : Canon a.conj := by
  induction ha with
  | plain l h => simpa [ALeg.conj] using Canon.plain l.conj h
  | pipe subs qconj sort bunch _ ih =>
    rw [mkPipe_conj]
    refine Canon.pipe _ _ _ _ (fun b hb => ?_)
    obtain ⟨a, ha, rfl⟩ := List.mem_map.1 hb
    exact ih a ha

/-! ### arrays -/

theorem rows_toNat_ofNat (rows : List (List Nat)) :
    (rows.map (fun r => r.map Int.ofNat)).map (fun r => r.map Int.toNat) = rows := by
  rw [List.map_map]
  conv => rhs; rw [← List.map_id rows]
  exact List.map_congr_left (fun r _ => map_toNat_ofNat r)

theorem blocks_roundtrip {α : Type} (data : List (Blk α)) :
    (data.map (fun b => (b.shape, b.vals))).map (fun b => (⟨b.1, b.2⟩ : Blk α)) = data := by
  rw [List.map_map]
  conv => rhs; rw [← List.map_id data]
  exact List.map_congr_left (fun b _ => rfl)

theorem array_roundtrip {α : Type} (fmt : String) (hf : fmt = "blocks" ∨ fmt = "compact")
    (sane : SArr α → Bool) (a : SArr α) (hl : a.arr.legs ≠ []) (hc : ∀ l ∈ a.arr.legs, Canon l) :
    ∃ f, a.encode fmt = some f ∧ f.decode sane = if sane a then some a else none := by
  obtain ⟨ns, hs1, hs2⟩ := legs_roundtrip fmt a.names a.arr.legs
    (fun l hl' => canon_roundtrip fmt hf a.names l (hc l hl'))
  have henc : a.encode fmt = some
      { chinfo := (chinfoOf a.arr.mods a.names).encode, legs := ns, dtype := a.dtype,
        totalCharge := a.arr.qtotal, labels := a.arr.labels,
        blocks := a.arr.data.map (fun b => (b.shape, b.vals)),
        blockInds := a.arr.qdata.map (fun r => r.map Int.ofNat),
        blockIndsSorted := a.arr.qdataSorted, rank := a.arr.rank, shape := a.arr.shape } := by
    simp only [SArr.encode, hs1]
  refine ⟨_, henc, ?_⟩
  have he : a.arr.legs.isEmpty = false := by
    cases h : a.arr.legs with
    | nil => exact absurd h hl
    | cons _ _ => rfl
  simp only [ArrFile.decode, C17_chinfo, hs2, he, modsOf_chinfoOf, rows_toNat_ofNat, blocks_roundtrip,
    Bool.false_eq_true, if_false]
  rfl

end TenpyModel.C17.P2
