import TenpyModel.C06.PipeProofs
/-!
# C17 / Props2 — helper lemmas: `LegPipe.__init__` as a function of what `LegPipe.save_hdf5` keeps

`LegPipe.from_hdf5` reads the attributes `sorted`, `bunched`, `qconj` (written by
`LegCharge.save_hdf5` for the pipe seen as a `LegCharge`) and the incoming `legs`, and calls
`cls(legs, qconj, sorted, bunched)`: the *flags of the outgoing leg* are used as the `sort` / `bunch`
arguments.  The lemmas below determine these flags for every pipe produced by `Pipe.init` and show
that `Pipe.init` run on them reproduces the pipe; and that `Pipe.init` commutes with `conj`.
-/
namespace TenpyModel.Core
namespace Pipe

/-- in the single-block branch the arguments `sort`, `bunch` are not looked at -/
theorem init_single_irrel (legs : List Leg) (qconj : Int) (s b s' b' : Bool)
    (hs : (gSubq legs).all (· == 1) = true) : init legs qconj s b = init legs qconj s' b' := by
  rw [init_single legs qconj s b hs, init_single legs qconj s' b' hs]

/-- the general (non-single-block) branch depends on `sort` only through `sort ∨ qnumber = 0` -/
theorem init_sort_norm (legs : List Leg) (qconj : Int) (sort bunch : Bool) :
    init legs qconj (sort || (gMods legs).length == 0) bunch = init legs qconj sort bunch := by
  by_cases hq : (gMods legs).length = 0
  · -- no charges: nothing is sorted either way, the flag `sorted` is `true` either way
    cases sort
    · have hb : ((gMods legs).length == 0) = true := by simpa using hq
      rw [hb, Bool.false_or]
      have hP : gPermQ legs qconj true = gPermQ legs qconj false := by
        simp [gPermQ, gDoSort, hq]
      have hG : gGrid1 legs qconj true = gGrid1 legs qconj false := by simp only [gGrid1, hP]
      have hC : gCharges1 legs qconj true = gCharges1 legs qconj false := by simp only [gCharges1, hP]
      have hS : gSlices1 legs qconj true = gSlices1 legs qconj false := by
        simp only [gSlices1, gSizes1, hP]
      have hPm : gPerm legs qconj true = gPerm legs qconj false := by simp [gPerm, gDoSort, hq]
      have hPre : gPre legs qconj true = gPre legs qconj false := by
        simp only [gPre, hS, hC, hb, Bool.or_true]
      have hI : gIdx legs qconj true = gIdx legs qconj false := by simp only [gIdx, hC]
      have hQ : gQi legs qconj true = gQi legs qconj false := by simp only [gQi, hG, hI]
      by_cases hs : (gSubq legs).all (· == 1) = true
      · exact init_single_irrel legs qconj _ _ _ _ hs
      · have hs' : (gSubq legs).all (· == 1) = false := by simpa using hs
        cases bunch
        · rw [init_nobunch legs qconj true hs', init_nobunch legs qconj false hs', hPre, hG, hS, hPm]
        · rw [init_bunch legs qconj true hs', init_bunch legs qconj false hs', hPre, hG, hS, hPm, hQ, hI]
    · simp
  · have : ((gMods legs).length == 0) = false := by simpa using hq
    rw [this, Bool.or_false]

/-- the `sorted` / `bunched` flags of the outgoing leg -/
theorem init_flags (legs : List Leg) (qconj : Int) (sort bunch : Bool) :
    ((gSubq legs).all (· == 1) = true →
        (init legs qconj sort bunch).leg.sorted = true ∧ (init legs qconj sort bunch).leg.bunched = true)
    ∧ ((gSubq legs).all (· == 1) = false →
        (init legs qconj sort bunch).leg.sorted = (sort || (gMods legs).length == 0)
        ∧ (init legs qconj sort bunch).leg.bunched = bunch) := by
  refine ⟨fun hs => ?_, fun hs => ?_⟩
  · rw [init_single legs qconj sort bunch hs]; exact ⟨rfl, rfl⟩
  · cases bunch
    · rw [init_nobunch legs qconj sort hs]; exact ⟨rfl, rfl⟩
    · rw [init_bunch legs qconj sort hs]; exact ⟨rfl, rfl⟩

/-- **Re-initialisation.**  `LegPipe(p.legs, p.qconj, p.sorted, p.bunched) = p` for `p = LegPipe(legs, qconj, sort, bunch)`. -/
theorem init_reinit (legs : List Leg) (qconj : Int) (sort bunch : Bool) :
    init (init legs qconj sort bunch).legs (init legs qconj sort bunch).leg.qconj
      (init legs qconj sort bunch).leg.sorted (init legs qconj sort bunch).leg.bunched
      = init legs qconj sort bunch := by
  rw [init_legs, (init_mods_qconj legs qconj sort bunch).2]
  by_cases hs : (gSubq legs).all (· == 1) = true
  · exact init_single_irrel legs qconj _ _ _ _ hs
  · have hs' : (gSubq legs).all (· == 1) = false := by simpa using hs
    obtain ⟨h1, h2⟩ := (init_flags legs qconj sort bunch).2 hs'
    rw [h1, h2, init_sort_norm]

/-! ### `conj` -/

theorem map_conj_blockNumber (legs : List Leg) :
    (legs.map Leg.conj).map Leg.blockNumber = legs.map Leg.blockNumber := by
  rw [List.map_map]; rfl

theorem map_conj_indLen (legs : List Leg) : (legs.map Leg.conj).map Leg.indLen = legs.map Leg.indLen := by
  rw [List.map_map]; rfl

theorem map_conj_zeros (legs : List Leg) :
    (legs.map Leg.conj).map (fun _ => 0) = legs.map (fun _ => 0) := by
  rw [List.map_map]; rfl

theorem headD_conj_mods (legs : List Leg) :
    ((legs.map Leg.conj).headD (Leg.fromTrivial 1 [] 1)).mods = (legs.headD (Leg.fromTrivial 1 [] 1)).mods := by
  cases legs <;> rfl

theorem fuseRaw_conj (qn : Nat) (legs : List Leg) (qconj : Int) (qis : List Nat) :
    fuseRaw qn (legs.map Leg.conj) (-qconj) qis = fuseRaw qn legs qconj qis := by
  unfold fuseRaw
  congr 1
  induction legs generalizing qis with
  | nil => rfl
  | cons l ls ih =>
    cases qis with
    | nil => rfl
    | cons q qs =>
      simp only [List.map_cons, List.zip_cons_cons, List.cons.injEq]
      refine ⟨?_, ih qs⟩
      show cscale (-qconj * -l.qconj) _ = cscale (qconj * l.qconj) _
      rw [Int.neg_mul_neg]
      rfl

theorem fuse_conj (mods : List Nat) (legs : List Leg) (qconj : Int) :
    fuse mods (legs.map Leg.conj) (-qconj) = fuse mods legs qconj := by
  funext qis
  unfold fuse
  rw [fuseRaw_conj]

theorem blockSizeOf_conj (legs : List Leg) : blockSizeOf (legs.map Leg.conj) = blockSizeOf legs := by
  funext qis
  unfold blockSizeOf
  congr 1
  induction legs generalizing qis with
  | nil => rfl
  | cons l ls ih =>
    cases qis with
    | nil => rfl
    | cons q qs =>
      simp only [List.map_cons, List.zip_cons_cons, List.cons.injEq]
      exact ⟨rfl, ih qs⟩

/-- **`LegPipe.conj` commutes with construction**: conjugating all incoming legs and the outgoing direction
gives the conjugated pipe (same blocks, same `q_map`). -/
theorem init_conj (legs : List Leg) (qconj : Int) (sort bunch : Bool) :
    init (legs.map Leg.conj) (-qconj) sort bunch = (init legs qconj sort bunch).conj := by
  unfold init
  simp only [map_conj_blockNumber, map_conj_indLen, map_conj_zeros, headD_conj_mods, fuse_conj,
    blockSizeOf_conj]
  split
  · rfl
  · split <;> rfl

end Pipe
end TenpyModel.Core
