import TenpyModel.C17.Legs
/-! Helper lemmas for the leg-format theorems (`PropsLegs.lean`). -/
namespace TenpyModel.C17

theorem hstackRows_length : ∀ (as bs : List Int) (cs : List (List Int)) (n : Nat),
    as.length = n → bs.length = n → cs.length = n → (hstackRows as bs cs).length = n
  | [], [], [], n, h, _, _ => by simpa [hstackRows] using h
  | a :: as, b :: bs, c :: cs, n, h1, h2, h3 => by
    cases n with
    | zero => simp at h1
    | succ n =>
      simp only [List.length_cons, Nat.add_right_cancel_iff] at h1 h2 h3
      simp [hstackRows, hstackRows_length as bs cs n h1 h2 h3]
  | [], _ :: _, _, n, h1, h2, _ => by simp at h1 h2; omega
  | [], [], _ :: _, n, h1, _, h3 => by simp at h1 h3; omega
  | _ :: _, [], _, n, h1, h2, _ => by simp at h1 h2; omega
  | _ :: _, _ :: _, [], n, h1, _, h3 => by simp at h1 h3; omega

theorem hstackRows_head : ∀ (as bs : List Int) (cs : List (List Int)),
    as.length = bs.length → as.length = cs.length →
    (hstackRows as bs cs).map (fun r => r.headD 0) = as
  | [], [], [], _, _ => rfl
  | a :: as, b :: bs, c :: cs, h1, h2 => by
    simp only [List.length_cons, Nat.add_right_cancel_iff] at h1 h2
    have ih := hstackRows_head as bs cs h1 h2
    simp only [hstackRows, List.map_cons, ih]
    rfl
  | [], _ :: _, _, h1, _ => by simp at h1
  | [], [], _ :: _, _, h2 => by simp at h2
  | _ :: _, [], _, h1, _ => by simp at h1
  | _ :: _, _ :: _, [], _, h2 => by simp at h2

theorem hstackRows_drop : ∀ (as bs : List Int) (cs : List (List Int)),
    as.length = bs.length → as.length = cs.length →
    (hstackRows as bs cs).map (fun r => r.drop 2) = cs
  | [], [], [], _, _ => rfl
  | a :: as, b :: bs, c :: cs, h1, h2 => by
    simp only [List.length_cons, Nat.add_right_cancel_iff] at h1 h2
    simp [hstackRows, hstackRows_drop as bs cs h1 h2]
  | [], _ :: _, _, h1, _ => by simp at h1
  | [], [], _ :: _, _, h2 => by simp at h2
  | _ :: _, [], _, h1, _ => by simp at h1
  | _ :: _, _ :: _, [], _, h2 => by simp at h2

/-- unit-width blocks: `to_qflat` of the leg rebuilt by the `flat` format gives back the rows -/
theorem qflatRows_unit : ∀ (cs : List (List Int)) (s : Nat),
    qflatRows ((List.range' s cs.length).map Int.ofNat) ((List.range' (s + 1) cs.length).map Int.ofNat) cs = cs
  | [], _ => by simp [qflatRows]
  | c :: cs, s => by
    have h : (Int.ofNat (s + 1) - Int.ofNat s).toNat = 1 := by
      simp only [Int.ofNat_eq_natCast]; omega
    simp only [List.length_cons, List.range'_succ, List.map_cons, qflatRows, h]
    rw [qflatRows_unit cs (s + 1)]
    rfl

end TenpyModel.C17

namespace TenpyModel.C17

theorem dropLast_append_of_getLast? : ∀ (l : List Int) (a : Int), l.getLast? = some a → l.dropLast ++ [a] = l
  | [], _, h => by simp at h
  | [x], a, h => by simp at h; simp [h]
  | x :: y :: rest, a, h => by
    have h' : (y :: rest).getLast? = some a := by simpa [List.getLast?_cons_cons] using h
    simp [List.dropLast, dropLast_append_of_getLast? (y :: rest) a h']

theorem range_succ_dropLast (n : Nat) : (List.range (n + 1)).dropLast = List.range' 0 n := by
  rw [List.range_eq_range', List.range'_1_concat, List.dropLast_concat]

theorem range_succ_tail (n : Nat) : (List.range (n + 1)).tail = List.range' 1 n := by
  rw [List.range_eq_range', List.range'_succ]; rfl

end TenpyModel.C17
