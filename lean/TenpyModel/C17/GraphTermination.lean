import TenpyModel.C17.GraphProofs
import Mathlib.Data.Finset.Card
/-!
Termination of the memoising copy with the fuel used by `save` / `load`: below the root every node
exists, the child selection succeeds, and no late-memoising node lies on a cycle.
-/
namespace TenpyModel.C17

open Relation Classical

section
variable {P : Params} {g : Graph}

/-- nodes of the source graph that are not yet memoised -/
noncomputable def unmemo (g : Graph) (st : St) : Finset Nat :=
  (Finset.range g.length).filter (fun j => st.memo.lookup j = none)

theorem unmemo_mono {st st' : St} (h : ∀ j u, st.memo.lookup j = some u → st'.memo.lookup j = some u) :
    (unmemo g st').card ≤ (unmemo g st).card := by
  apply Finset.card_le_card
  intro j hj
  simp only [unmemo, Finset.mem_filter, Finset.mem_range] at hj ⊢
  refine ⟨hj.1, ?_⟩
  cases hx : st.memo.lookup j with
  | none => rfl
  | some u => rw [h j u hx] at hj; exact absurd hj.2 (by simp)

theorem unmemo_push {st : St} {i : Nat} (hi : st.memo.lookup i = none) (hlt : i < g.length) (nd : Node) :
    (unmemo g ⟨st.out ++ [nd], (i, st.out.length) :: st.memo⟩).card + 1 ≤ (unmemo g st).card := by
  apply Nat.succ_le_of_lt
  apply Finset.card_lt_card
  constructor
  · intro j hj
    simp only [unmemo, Finset.mem_filter, Finset.mem_range] at hj ⊢
    refine ⟨hj.1, ?_⟩
    by_cases hji : j = i
    · rw [hji]; exact hi
    · rw [lookup_cons_ne _ _ hji] at hj; exact hj.2
  · intro hsub
    have : i ∈ unmemo g ⟨st.out ++ [nd], (i, st.out.length) :: st.memo⟩ :=
      hsub (by simp only [unmemo, Finset.mem_filter, Finset.mem_range]; exact ⟨hlt, hi⟩)
    simp only [unmemo, Finset.mem_filter, Finset.mem_range, lookup_cons_self] at this
    exact absurd this.2 (by simp)

theorem EK_lt {i : Nat} (h : (EK P g i).isSome) : i < g.length := by
  unfold EK at h
  cases hg : g[i]? with
  | none => simp [hg] at h
  | some nd => exact (List.getElem?_eq_some_iff.1 hg).1

theorem copyKids_total {r0 : Nat} (f : Nat → St → Option (Nat × St)) (R F : Nat) (rank : Nat → Nat)
    (hpost : ∀ c st prog t st', Reach P g r0 c → Inv P g st prog → f c st = some (t, st') → Post P g c st st' prog t)
    (htot : ∀ c st prog, Reach P g r0 c → Inv P g st prog → (unmemo g st).card * (R + 1) + rank c + 1 ≤ F →
      ∃ res, f c st = some res) :
    ∀ (ks : Kids) (st : St) (prog : List Nat), (∀ nc ∈ ks, Reach P g r0 nc.2) → Inv P g st prog →
      (∀ nc ∈ ks, (unmemo g st).card * (R + 1) + rank nc.2 + 1 ≤ F) → ∃ res, copyKids f ks st = some res := by
  intro ks
  induction ks with
  | nil => intro st _ _ _ _; exact ⟨_, rfl⟩
  | cons nc rest ih =>
    obtain ⟨n, c⟩ := nc
    intro st prog hr hinv hneed
    obtain ⟨⟨t, st1⟩, h1⟩ := htot c st prog (hr _ (List.mem_cons_self ..)) hinv (hneed _ (List.mem_cons_self ..))
    have p1 := hpost c st prog t st1 (hr _ (List.mem_cons_self ..)) hinv h1
    have hle := unmemo_mono (g := g) p1.mono
    obtain ⟨⟨ts, st2⟩, h2⟩ := ih st1 prog (fun nc hnc => hr nc (List.mem_cons_of_mem _ hnc)) p1.inv (by
      intro nc hnc
      have := hneed nc (List.mem_cons_of_mem _ hnc)
      have := Nat.mul_le_mul_right (R + 1) hle
      omega)
    refine ⟨((n, t) :: ts, st2), ?_⟩
    simp [copyKids, h1, h2]

/-- while the first `k` children of a late node are copied, the node itself is not memoised -/
theorem after_not_memo {r0 : Nat} (hT : LateAcyclic P g r0) {i : Nat} (hri : Reach P g r0 i) {l : Label} {ks : Kids}
    (hek : EK P g i = some (l, ks)) {k : Nat} (hmode : P.mode l ks.length = .after k) {st st1 : St}
    {prog : List Nat} {ts1 : Kids} (p1 : PostKids P g (List.take k ks) st st1 prog ts1)
    (hlk : st.memo.lookup i = none) : st1.memo.lookup i = none := by
  cases hx : st1.memo.lookup i with
  | none => rfl
  | some u =>
    exfalso
    obtain ⟨nc, hnc, hreach⟩ := p1.new i hlk (by simp [hx])
    have hk0 : k ≠ 0 := by
      rintro rfl
      simp at hnc
    have hcyc : Cycle P g i := TransGen.head' (edge_of_mem hek (List.mem_of_mem_take hnc)) hreach
    exact hT i hri ⟨l, ks, hek, by rw [hmode]; intro hh; cases hh; exact hk0 rfl⟩ hcyc

theorem copy_total {r0 : Nat} (hT : LateAcyclic P g r0) (hclosed : ∀ i, Reach P g r0 i → (EK P g i).isSome)
    (rank : Nat → Nat) (R : Nat) (hR : ∀ i, rank i ≤ R)
    (hrank : ∀ i c, Reach P g r0 i → NotEarly P g i → Edge P g i c → rank c < rank i) :
    ∀ (fuel i : Nat) (st : St) (prog : List Nat), Reach P g r0 i → Inv P g st prog →
      (unmemo g st).card * (R + 1) + rank i + 1 ≤ fuel → ∃ res, copy P g fuel i st = some res := by
  intro fuel
  induction fuel with
  | zero => intro i st prog _ _ h; omega
  | succ fuel ih =>
    intro i st prog hri hinv hneed
    rw [copy]
    cases hlk : st.memo.lookup i with
    | some u => exact ⟨_, rfl⟩
    | none =>
      have hsome := hclosed i hri
      have hlt := EK_lt hsome
      obtain ⟨⟨l, ks⟩, hek⟩ := Option.isSome_iff_exists.1 hsome
      have hek0 := hek
      unfold EK at hek
      cases hg : g[i]? with
      | none => simp [hg] at hek
      | some nd =>
        simp only [hg] at hek ⊢
        cases hord : P.ord nd.label nd.kids with
        | none => simp [hord] at hek
        | some ks0 =>
          simp only [hord, Option.map_some, Option.some.injEq, Prod.mk.injEq] at hek ⊢
          obtain ⟨rfl, rfl⟩ := hek
          have hkr : ∀ nc ∈ ks0, Reach P g r0 nc.2 := fun nc hnc =>
            ReflTransGen.tail hri (edge_of_mem hek0 hnc)
          have hpos : 1 ≤ (unmemo g st).card :=
            Finset.card_pos.2 ⟨i, by simp only [unmemo, Finset.mem_filter, Finset.mem_range]; exact ⟨hlt, hlk⟩⟩
          have hpost := copy_post hT fuel
          cases hmode : P.mode nd.label ks0.length with
          | after k =>
            simp only []
            have hneed1 : ∀ nc ∈ List.take k ks0, (unmemo g st).card * (R + 1) + rank nc.2 + 1 ≤ fuel := by
              intro nc hnc
              have hk0 : k ≠ 0 := by rintro rfl; simp at hnc
              have := hrank i nc.2 hri ⟨nd.label, ks0, hek0, by rw [hmode]; intro hh; cases hh; exact hk0 rfl⟩
                (edge_of_mem hek0 (List.mem_of_mem_take hnc))
              omega
            obtain ⟨⟨ts1, st1⟩, h1⟩ := copyKids_total (copy P g fuel) R fuel rank hpost ih (List.take k ks0) st prog
              (fun nc hnc => hkr nc (List.mem_of_mem_take hnc)) hinv hneed1
            have p1 := copyKids_post (copy P g fuel) hpost (List.take k ks0) st prog ts1 st1
              (fun nc hnc => hkr nc (List.mem_of_mem_take hnc)) hinv h1
            have hlk1 := after_not_memo hT hri hek0 hmode p1 hlk
            have hinv2 := p1.inv.push hlk1 ⟨nd.label, []⟩
            have hle1 := unmemo_mono (g := g) p1.mono
            have hpush := unmemo_push (g := g) hlk1 hlt ⟨nd.label, []⟩
            obtain ⟨⟨ts2, st3⟩, h2⟩ := copyKids_total (copy P g fuel) R fuel rank hpost ih (List.drop k ks0) _ (i :: prog)
              (fun nc hnc => hkr nc (List.mem_of_mem_drop hnc)) hinv2 (by
                intro nc _
                have h1 := hR nc.2
                have h2 : ((unmemo g ⟨st1.out ++ [⟨nd.label, []⟩], (i, st1.out.length) :: st1.memo⟩).card + 1) * (R + 1)
                    ≤ (unmemo g st).card * (R + 1) := Nat.mul_le_mul_right _ (by omega)
                rw [Nat.add_mul] at h2
                omega)
            simp only [h1, h2]
            exact ⟨_, rfl⟩
          | temp =>
            simp only []
            have hinv1 := hinv.push hlk ⟨P.tmp nd.label, []⟩
            have hpush := unmemo_push (g := g) hlk hlt ⟨P.tmp nd.label, []⟩
            obtain ⟨⟨ts, st2⟩, h2⟩ := copyKids_total (copy P g fuel) R fuel rank hpost ih ks0 _ (i :: prog) hkr hinv1 (by
                intro nc _
                have h1 := hR nc.2
                have h2 : ((unmemo g ⟨st.out ++ [⟨P.tmp nd.label, []⟩], (i, st.out.length) :: st.memo⟩).card + 1) * (R + 1)
                    ≤ (unmemo g st).card * (R + 1) := Nat.mul_le_mul_right _ (by omega)
                rw [Nat.add_mul] at h2
                omega)
            simp only [h2]
            exact ⟨_, rfl⟩

/-! ### a rank function from acyclicity -/

/-- number of late nodes reachable from `i` -/
noncomputable def lateRank (P : Params) (g : Graph) (i : Nat) : Nat :=
  ((Finset.range g.length).filter (fun l => NotEarly P g l ∧ Reach P g i l)).card

theorem lateRank_le (i : Nat) : lateRank P g i ≤ g.length := by
  unfold lateRank
  exact (Finset.card_filter_le _ _).trans (by simp)

theorem lateRank_lt {r0 : Nat} (hT : LateAcyclic P g r0) {i c : Nat} (hri : Reach P g r0 i) (hne : NotEarly P g i)
    (he : Edge P g i c) : lateRank P g c < lateRank P g i := by
  unfold lateRank
  apply Finset.card_lt_card
  constructor
  · intro l hl
    simp only [Finset.mem_filter, Finset.mem_range] at hl ⊢
    exact ⟨hl.1, hl.2.1, ReflTransGen.head he hl.2.2⟩
  · intro hsub
    have hi : i < g.length := by
      obtain ⟨l, ks, hek, _⟩ := hne
      exact EK_lt (by rw [hek]; rfl)
    have : i ∈ (Finset.range g.length).filter (fun l => NotEarly P g l ∧ Reach P g c l) :=
      hsub (by simp only [Finset.mem_filter, Finset.mem_range]; exact ⟨hi, hne, ReflTransGen.refl⟩)
    simp only [Finset.mem_filter, Finset.mem_range] at this
    exact hT i hri hne (TransGen.head' he this.2.2)

/-- Total correctness of the memoising copy with fuel `(n+1)²`. -/
theorem copy_terminates {r : Nat} (hT : LateAcyclic P g r) (hclosed : ∀ i, Reach P g r i → (EK P g i).isSome)
    {fuel : Nat} (hfuel : (g.length + 1) * (g.length + 1) ≤ fuel) :
    ∃ res, copy P g fuel r initSt = some res := by
  apply copy_total hT hclosed (lateRank P g) g.length lateRank_le
    (fun i c hri hne he => lateRank_lt hT hri hne he) fuel r initSt [] ReflTransGen.refl inv_init
  have h1 : (unmemo g initSt).card ≤ g.length := by
    unfold unmemo
    exact (Finset.card_filter_le _ _).trans (by simp)
  have h2 := lateRank_le (P := P) (g := g) r
  have h3 := Nat.mul_le_mul_right (g.length + 1) h1
  have h4 : (g.length + 1) * (g.length + 1) = g.length * (g.length + 1) + g.length + 1 := by
    rw [Nat.add_mul]; omega
  omega

/-- … and with fuel `n+1` when every node memoises before descending (the saver). -/
theorem copy_terminates_early {r : Nat} (hE : ∀ i, ¬ NotEarly P g i) (hclosed : ∀ i, Reach P g r i → (EK P g i).isSome)
    {fuel : Nat} (hfuel : g.length + 1 ≤ fuel) :
    ∃ res, copy P g fuel r initSt = some res := by
  apply copy_total (fun i _ hne => absurd hne (hE i)) hclosed (fun _ => 0) 0 (fun _ => Nat.le_refl _)
    (fun i c _ hne _ => absurd hne (hE i)) fuel r initSt [] ReflTransGen.refl inv_init
  have h1 : (unmemo g initSt).card ≤ g.length := by
    unfold unmemo
    exact (Finset.card_filter_le _ _).trans (by simp)
  omega

end
end TenpyModel.C17
