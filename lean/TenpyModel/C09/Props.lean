import TenpyModel.MPS.TransformProofs2
import TenpyModel.MPS.CellProofs
import TenpyModel.MPS.InversionProofs
/-!
# C09 — MPS transformations implement the documented map on states

Property theorems over the executable model (`TenpyModel/MPS/{Chain,Basic,Transform}.lean`) of
`MPS.add`, `apply_local_op` / `apply_product_op` (with the Jordan-Wigner string applied through
the charges of the virtual leg), `group_sites` / `group_split`, `spatial_inversion`,
`roll_mps_unit_cell`, `enlarge_mps_unit_cell`, `enlarge_chi`, `swap_sites` / `permute_sites`
(fermionic signs).  All chain lengths and dimensions, every commutative semiring.
-/
open TenpyModel.MPS TenpyModel.MPS.MPSM

universe u
variable {α : Type u} [CommSemiring α]
set_option linter.unusedSectionVars false

/-- **`add`**: the block tensors `[[x·θ_a, y·θ_b]]`, `diag(B_a, B_b)`, …, `[[B_a],[B_b]]` denote
the linear combination `x·ψ_a + y·ψ_b` (the subsequent `canonical_form_finite` is a sequence of
gauge moves, `C07_qr_step`/`C07_gauge_invariance`). -/
theorem C09_add (x y : α) (v : Vec α) (s t : RSite α) (ss ts : List (RSite α)) (σ : List Nat)
    (hne : ss ≠ []) (hl : ss.length = ts.length) (hd : t.dL = s.dL) (hc : ChainOK s.dR ss) :
    contract v (addChain x y (s :: ss) (t :: ts)) σ
      = fun c => x * contract v (s :: ss) σ c + y * contract v (t :: ts) σ c :=
  contract_addChain x y v s t ss ts σ hne hl hd hc

/-- **`apply_local_op`** (one-site operator, `tensordot(op, B, ['p*','p'])`) is dense operator
application on that site: `(O_k ψ)(σ) = Σ_q O(σ_k, q) ψ(σ[k ↦ q])`. -/
theorem C09_apply_local_op (O : Mat α) (ss : List (RSite α)) (k : Nat) (σ : List Nat) (v : Vec α)
    (hk : k < ss.length) (hl : ss.length = σ.length) :
    contract v (applyAt k O ss) σ
      = fun b => sumN ((dims ss).getD k 0) (fun q => O (σ.getD k 0) q * contract v ss (σ.set k q) b) :=
  contract_applyAt O ss k σ v hk hl

/-- **`apply_product_op`**: one operator on every site is the Kronecker product operator. -/
theorem C09_apply_product_op (Os : List (Mat α)) (ss : List (RSite α)) (σ : List Nat) (v : Vec α)
    (h1 : Os.length = ss.length) (h2 : ss.length = σ.length) :
    contract v (applyOps (Os.map some) ss) σ
      = fun b => sumCfg (dims ss) (fun τ => prodOp Os σ τ * contract v ss τ b) :=
  contract_applyOps Os ss σ v h1 h2

/-- **Jordan-Wigner string of `apply_local_op` / `apply_local_term`**: scaling the left virtual
leg of site `k` with the charge-derived signs (`apply_JW_string_left_of_virt_leg`) multiplies
the amplitude by `Π_{i<k} JW_i(σ_i)`, i.e. applies `JW` on all sites to the left — provided the
signs follow the fermion parity through the tensors (`SignFlow`: charge conservation). -/
theorem C09_apply_JW_string (pre post : List (RSite α)) (s : RSite α) (js : List (Nat → α)) (g0 gk : Vec α)
    (σ1 σ2 : List Nat) (q : Nat) (v : Vec α) (h : SignFlow g0 pre js gk) (hl : pre.length = σ1.length) :
    contract v (pre ++ signLeft gk s :: post) (σ1 ++ q :: σ2)
      = fun c => prodJ js σ1 * contract (fun a => v a * g0 a) (pre ++ s :: post) (σ1 ++ q :: σ2) c :=
  contract_signLeft pre post s js g0 gk σ1 σ2 q v h hl

/-- **`group_sites` then `group_split`**: grouping neighbouring sites (physical legs combined in
C order) and, read from right to left, splitting a grouped tensor by any exact factorization,
preserve the state; grouped index `P` ↔ `(P / d₂, P % d₂)`. -/
theorem C09_group_split (ss : List (RSite α)) (n0 : Nat) (v : Vec α) (τ : List Nat) (hc : ChainOK n0 ss)
    (hl : (groupPairs ss).length = τ.length) :
    contract v (groupPairs ss) τ = contract v ss (ungroupCfg ss τ) :=
  contract_groupPairs ss n0 v τ hc hl

/-- **`spatial_inversion`** (tensors reversed and transposed): the amplitude of `σ` in the
inverted chain is the amplitude of `reverse σ` in the original chain, … -/
theorem C09_spatial_inversion (ss : List (RSite α)) (n0 : Nat) (v w : Vec α) (σ : List Nat)
    (hc : ChainOK n0 ss) (hl : ss.length = σ.length) :
    close n0 (contract w (reverseChain ss) σ.reverse) v = close (lastDim n0 ss) (contract v ss σ) w :=
  contract_reverseChain ss n0 v w σ hc hl

/-- … and applied twice it is the identity, on tensors and on the bookkeeping
(`flipSite` swaps the form exponents back, the bond order is restored). -/
theorem C09_spatial_inversion_involutive (ss : List (RSite α)) (M : MPSM α) (hbc : M.bc ≠ BC.infinite) :
    reverseChain (reverseChain ss) = ss ∧
    (∀ j, j < M.L → (M.spatialInversion.spatialInversion).site j = M.site j) ∧
    (∀ j, j ≤ M.L → (M.spatialInversion.spatialInversion).bond j = M.bond j) := by
  refine ⟨reverseChain_involutive ss, ?_, ?_⟩
  · intro j hj
    have e : M.L - 1 - (M.L - 1 - j) = j := by omega
    show flipSite (flipSite (M.site (M.L - 1 - (M.L - 1 - j)))) = M.site j
    rw [e]
    cases hs : M.site j with
    | mk dL d dR B form => cases form <;> rfl
  · intro j hj
    have hfb : M.finiteBC = true := by simp [finiteBC, hbc]
    have hfb' : M.spatialInversion.finiteBC = true := hfb
    have e : M.L - (M.L - j) = j := by omega
    show (if M.spatialInversion.finiteBC then M.spatialInversion.bond (M.L - j) else _) = M.bond j
    rw [hfb']
    show (if M.finiteBC then M.bond (M.L - (M.L - j)) else _) = M.bond j
    rw [hfb, e]; rfl

/-- **`spatial_inversion` on the bookkeeping layer** (finite MPS, any stored forms, any bond
dimensions): tensors transposed and reversed, form exponents swapped, singular values mirrored —
the inverted MPS denotes the state with reversed configuration, with the same `norm`. -/
theorem C09_spatial_inversion_state (M : MPSM α) (hbc : M.bc ≠ BC.infinite) (hL : 0 < M.L)
    (hchain : ChainOK 1 ((List.range' 0 M.L).map M.plainSiteN))
    (hlast : lastDim 1 ((List.range' 0 M.L).map M.plainSiteN) = 1)
    (σ : List Nat) (hσ : σ.length = M.L) :
    M.spatialInversion.toState σ.reverse = M.toState σ ∧ M.spatialInversion.norm = M.norm := by
  refine ⟨?_, rfl⟩
  simp only [toState, toStateN_spatialInversion M hbc hL hchain hlast σ hσ]
  rfl

/-- **`roll_mps_unit_cell(shift)`**: every `get_theta` window of the rolled infinite MPS starting
at `i + shift` is the window of the original one starting at `i` — observables are unchanged up
to the relabelling `i ↦ i + shift` (all `shift ∈ ℤ`, all unit-cell lengths). -/
theorem C09_roll (M : MPSM α) (hbc : M.bc = BC.infinite) (hL : 0 < M.L) (shift i : Int) (aL : Nat)
    (σ : List Nat) (aR : Nat) :
    (M.roll shift).theta (i + shift) aL σ aR = M.theta i aL σ aR := by
  simp only [theta, (roll_shiftRel M hbc hL shift).thetaSites]

/-- **`enlarge_mps_unit_cell(factor)`** leaves every window unchanged. -/
theorem C09_enlarge_unit_cell (M : MPSM α) (hbc : M.bc = BC.infinite) (hL : 0 < M.L) (f : Nat) (hf : 0 < f)
    (i : Int) (aL : Nat) (σ : List Nat) (aR : Nat) :
    (M.enlarge f).theta i aL σ aR = M.theta i aL σ aR := by
  have h := (enlarge_shiftRel M hbc hL f hf).thetaSites 2 σ.length i 2
  simp only [add_zero] at h
  simp only [theta, h]

/-- **`enlarge_chi`** (zero padding): if the enlarged tensors contain the old ones in the
upper-left block and their *new columns vanish*, every amplitude is unchanged, whatever the new
rows are (the code fills them with random orthonormal rows). -/
theorem C09_enlarge_chi (ss ss' : List (RSite α)) (n0 : Nat) (v v' : Vec α) (σ : List Nat)
    (hp : IsPadding ss ss') (hc : ChainOK n0 ss) (hv : ∀ a, a < n0 → v' a = v a)
    (hz : ∀ a, n0 ≤ a → v' a = 0) (hl : ss.length = σ.length) (b : Nat) (hb : b < lastDim n0 ss) :
    contract v' ss' σ b = contract v ss σ b :=
  (contract_padding ss ss' n0 v v' σ hp hc hv hz hl).1 b hb

/-- **Fermionic sign of `permute_sites`**: `swap_sites` multiplies the two-site wave function by
`(-1)^{n_i n_{i+1}}`; along the insertion-sort run of adjacent swaps the accumulated sign times
the inversion sign of the current order is invariant, so when the run ends with the keys sorted
the total sign is the sign `Π_{i<j, key_i > key_j} (-1)^{n_i n_j}` of reordering the fermionic
operators — independent of the order in which the swaps were done. -/
theorem C09_permute_sign (fuel : Nat) (l : List PItem)
    (hsorted : (permuteRun fuel 0 l 1).2.Pairwise (fun a b => a.key ≤ b.key)) :
    (permuteRun fuel 0 l 1).1 = invSign l := by
  have h := permuteRun_invariant fuel 0 l 1
  rw [invSign_sorted _ hsorted] at h
  simpa using h

/-- the sign of one swap is `-1` exactly when both sites carry an odd JW exponent -/
theorem C09_swap_sign (nL nR : Nat → Nat) (x y : Nat) :
    (swapSign nL nR x y : Int) = if nL x % 2 = 1 ∧ nR y % 2 = 1 then -1 else 1 := rfl

/-! ### non-vacuity and the two shipped defects -/
namespace C09Examples

/-- three fermions on four sites: sorting `[2,0,3,1]` -/
def items : List PItem := [⟨2, true⟩, ⟨0, true⟩, ⟨3, false⟩, ⟨1, true⟩]

example : (permuteRun 17 0 items 1).2.map (·.key) = [0, 1, 2, 3] := by decide
example : (permuteRun 17 0 items 1).1 = 1 ∧ invSign items = 1 := by decide
example : (permuteRun 10 0 [⟨1, true⟩, ⟨0, true⟩, ⟨2, true⟩] 1).1 = -1 ∧
    invSign [⟨1, true⟩, ⟨0, true⟩, ⟨2, true⟩] = -1 := by decide

/-- block-diagonal sum of two 2-site chains over ℤ -/
def a0 : RSite Int := { dL := 1, d := 2, dR := 2, M := fun _ p b => (p : Int) + 2 * b + 1 }
def a1 : RSite Int := { dL := 2, d := 2, dR := 1, M := fun a p _ => (a : Int) - p }
def b0 : RSite Int := { dL := 1, d := 2, dR := 1, M := fun _ p _ => 2 * (p : Int) - 1 }
def b1 : RSite Int := { dL := 1, d := 2, dR := 1, M := fun _ p _ => (p : Int) + 3 }

example : contract (fun a => delta a 0) (addChain 2 (-3) [a0, a1] [b0, b1]) [1, 0] 0
    = 2 * contract (fun a => delta a 0) [a0, a1] [1, 0] 0 + (-3) * contract (fun a => delta a 0) [b0, b1] [1, 0] 0 := by
  decide

end C09Examples

/-! ### the shipped `spatial_inversion` of an infinite MPS (known finding, repair pending) -/
namespace C09Examples

/-- a two-site infinite unit cell with bond dimensions 1 (left of site 0) and 2 (left of site 1) -/
def cell : MPSM Int :=
  { L := 2
    site := fun j => if j = 0 then { dL := 1, d := 2, dR := 2, B := fun _ _ _ => 1, form := some (0, 2) }
                     else { dL := 2, d := 2, dR := 1, B := fun _ _ _ => 1, form := some (0, 2) }
    bond := fun j => if j = 0 then { chi := 1, R := fun _ => 1, Rinv := fun _ => 1 }
                     else { chi := 2, R := fun _ => 1, Rinv := fun _ => 1 }
    norm := 1, bc := BC.infinite }

end C09Examples

/-- **Counterexample for the code as shipped** (`self._S = self._S[::-1]` for every bc): on an
infinite MPS the singular values of bond 0 (the mirror-symmetric bond between unit cells) must stay
on bond 0, but the shipped reversal puts those of bond `L-1` there — here a vector of length 2 next
to a tensor whose left leg has dimension 1 (`test_sanity`: "shape of B incompatible with len of
singular values"). -/
theorem C09_spatial_inversion_as_shipped_counterexample :
    (C09Examples.cell.spatialInversionAsShipped.bond 0).chi ≠ (C09Examples.cell.spatialInversionAsShipped.site 0).dL ∧
    (C09Examples.cell.spatialInversion.bond 0).chi = (C09Examples.cell.spatialInversion.site 0).dL ∧
    (C09Examples.cell.spatialInversion.bond 1).chi = (C09Examples.cell.spatialInversion.site 1).dL := by
  decide
