import TenpyModel.MPS.Transform

/-!
# C09 extension: the loop of `MPS.permute_sites` with its schedule of `swap_sites` calls

`tenpy/networks/mps.py::MPS.permute_sites`:

```
perm = list(perm)
i = 0
while i < self.L - 1:
    if perm[i] > perm[i + 1]:
        trunc = self.swap_sites(i, swap_op, trunc_par)
        perm[i + 1], perm[i] = perm[i], perm[i + 1]
        if i > 0: i -= 1
    else:
        i += 1
```

`permLoop` is that loop on the items (key = `perm[i]`, parity of the basis state on the site), recording the
positions passed to `swap_sites` in call order, the accumulated fermionic sign and the final order.  The loop of
the code has no fuel; `permuteSites` supplies `2·(#inversions) + L + 1`, which `ExtPermuteProofs` shows to be
enough (the run ends by the `while` condition, not by exhaustion).  `permuteSitesChecked` adds the glue in
front: `perm` shorter than `L` raises `IndexError` at `perm[i + 1]`, entries beyond `L` are never looked at.
-/

namespace TenpyModel.C09.Ext
open TenpyModel.MPS

/-- number of items in `l` that `x` has to pass -/
def passCount (x : PItem) : List PItem → Nat
  | [] => 0
  | y :: l => (if x.key > y.key then 1 else 0) + passCount x l

/-- number of inversions of `l` (pairs out of key order) -/
def invCount : List PItem → Nat
  | [] => 0
  | x :: l => passCount x l + invCount l

/-- result of the loop: positions of the `swap_sites` calls (in call order), accumulated sign, final order -/
structure PermRun where
  sched : List Nat
  sign : Int
  final : List PItem
deriving DecidableEq, Repr

/-- the `while` loop; `acc` = swap positions so far, newest first -/
def permLoop : Nat → Nat → List PItem → Int → List Nat → PermRun
  | 0, _, l, s, acc => ⟨acc.reverse, s, l⟩
  | fuel + 1, i, l, s, acc =>
    if i + 1 < l.length then
      if (l.getD i ⟨0, false⟩).key > (l.getD (i + 1) ⟨0, false⟩).key then
        permLoop fuel (if i > 0 then i - 1 else i) (swapAt i l) (s * swapAtSign i l) (i :: acc)
      else permLoop fuel (i + 1) l s acc
    else ⟨acc.reverse, s, l⟩

/-- fuel that suffices for the loop started at position 0 -/
def permFuel (l : List PItem) : Nat := 2 * invCount l + l.length + 1

/-- `permute_sites(perm)` on a chain whose `L = l.length` -/
def permuteSites (l : List PItem) : PermRun := permLoop (permFuel l) 0 l 1 []

/-- replay a schedule of adjacent swaps -/
def applySwaps (sched : List Nat) (l : List PItem) : List PItem := sched.foldl (fun m k => swapAt k m) l

/-- with the argument glue: `L` sites, `perm` of any length (`none` = `IndexError`) -/
def permuteSitesChecked (L : Nat) (l : List PItem) : Option PermRun :=
  if L ≥ 2 ∧ l.length < L then none else some (permuteSites (l.take L))

end TenpyModel.C09.Ext
