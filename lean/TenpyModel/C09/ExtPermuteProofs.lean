import TenpyModel.C09.ExtPermute
import TenpyModel.MPS.TransformProofs2
import Mathlib.Tactic.Ring
import Mathlib.Data.List.Perm.Basic

/-! Lemmas about the `permute_sites` loop: termination within `permFuel`, sortedness, schedule. -/

namespace TenpyModel.C09.Ext
open TenpyModel.MPS

theorem length_swapAt : ∀ (k : Nat) (l : List PItem), (swapAt k l).length = l.length := by
  intro k
  induction k with
  | zero =>
    intro l
    match l with
    | [] => rfl
    | [_] => rfl
    | _ :: _ :: _ => rfl
  | succ k ih =>
    intro l
    match l with
    | [] => rfl
    | x :: r => simp only [swapAt, List.length_cons, ih r]

theorem perm_swapAt : ∀ (k : Nat) (l : List PItem), (swapAt k l).Perm l := by
  intro k
  induction k with
  | zero =>
    intro l
    match l with
    | [] => exact List.Perm.refl _
    | [_] => exact List.Perm.refl _
    | x :: y :: r => exact List.Perm.swap x y r
  | succ k ih =>
    intro l
    match l with
    | [] => exact List.Perm.refl _
    | x :: r => exact (ih r).cons x

theorem getD_swapAt_lt (d : PItem) : ∀ (k : Nat) (l : List PItem) (j : Nat), j < k →
    (swapAt k l).getD j d = l.getD j d := by
  intro k
  induction k with
  | zero => intro l j h; omega
  | succ k ih =>
    intro l j h
    match l with
    | [] => rfl
    | x :: r =>
      cases j with
      | zero => rfl
      | succ j =>
        simp only [swapAt, List.getD_cons_succ]
        exact ih r j (by omega)

theorem passCount_swapAt (z : PItem) : ∀ (k : Nat) (l : List PItem), passCount z (swapAt k l) = passCount z l := by
  intro k
  induction k with
  | zero =>
    intro l
    match l with
    | [] => rfl
    | [_] => rfl
    | x :: y :: r => simp only [swapAt, passCount]; omega
  | succ k ih =>
    intro l
    match l with
    | [] => rfl
    | x :: r => simp only [swapAt, passCount, ih r]

/-- swapping an out-of-order neighbouring pair removes exactly one inversion -/
theorem invCount_swapAt : ∀ (k : Nat) (l : List PItem), k + 1 < l.length →
    (l.getD k ⟨0, false⟩).key > (l.getD (k + 1) ⟨0, false⟩).key →
    invCount l = invCount (swapAt k l) + 1 := by
  intro k
  induction k with
  | zero =>
    intro l hl hk
    match l, hl with
    | x :: y :: r, _ =>
      simp only [List.getD_cons_zero, List.getD_cons_succ] at hk
      have h2 : ¬ y.key > x.key := by omega
      simp only [swapAt, invCount, passCount, hk, h2, if_true, if_false]
      omega
  | succ k ih =>
    intro l hl hk
    match l, hl with
    | x :: r, hl =>
      simp only [List.getD_cons_succ] at hk
      simp only [swapAt, invCount, passCount_swapAt]
      rw [ih r (by simpa using hl) hk]
      omega

/-- positions `0..i` of `l` are in ascending key order -/
def PrefixSorted (i : Nat) (l : List PItem) : Prop :=
  ∀ a b, a < b → b ≤ i → b < l.length → (l.getD a ⟨0, false⟩).key ≤ (l.getD b ⟨0, false⟩).key

theorem prefixSorted_zero (l : List PItem) : PrefixSorted 0 l := by
  intro a b hab hb _; omega

theorem prefixSorted_swap (i : Nat) (l : List PItem) (h : PrefixSorted i l) :
    PrefixSorted (if i > 0 then i - 1 else i) (swapAt i l) := by
  intro a b hab hb hlen
  rw [length_swapAt] at hlen
  by_cases hi : i > 0
  · simp only [hi, if_true] at hb
    rw [getD_swapAt_lt _ i l a (by omega), getD_swapAt_lt _ i l b (by omega)]
    exact h a b hab (by omega) hlen
  · simp only [hi, if_false] at hb
    omega

theorem prefixSorted_step (i : Nat) (l : List PItem) (h : PrefixSorted i l)
    (hle : ¬ (l.getD i ⟨0, false⟩).key > (l.getD (i + 1) ⟨0, false⟩).key) : PrefixSorted (i + 1) l := by
  intro a b hab hb hlen
  by_cases hbi : b ≤ i
  · exact h a b hab hbi hlen
  · have hb' : b = i + 1 := by omega
    subst hb'
    by_cases hai : a = i
    · subst hai; omega
    · have := h a i (by omega) (Nat.le_refl _) (by omega)
      omega

theorem prefixSorted_all (i : Nat) (l : List PItem) (h : PrefixSorted i l) (hend : ¬ i + 1 < l.length) :
    l.Pairwise (fun a b => a.key ≤ b.key) := by
  rw [List.pairwise_iff_getElem]
  intro a b ha hb hab
  have := h a b hab (by omega) hb
  simpa [List.getD_eq_getElem?_getD, ha, hb] using this

/-- everything the loop guarantees, by one induction on the fuel -/
theorem permLoop_spec : ∀ (fuel i : Nat) (l : List PItem) (s : Int) (acc : List Nat) (l0 : List PItem),
    PrefixSorted i l → 2 * invCount l + (l.length - i) ≤ fuel → applySwaps acc.reverse l0 = l →
    (permLoop fuel i l s acc).final.Pairwise (fun a b => a.key ≤ b.key) ∧
    (permLoop fuel i l s acc).final.Perm l ∧
    (permLoop fuel i l s acc).sched.length = acc.length + invCount l ∧
    applySwaps (permLoop fuel i l s acc).sched l0 = (permLoop fuel i l s acc).final ∧
    (permLoop fuel i l s acc).sign * invSign (permLoop fuel i l s acc).final = s * invSign l ∧
    ((∀ k ∈ acc, k + 1 < l.length) → ∀ k ∈ (permLoop fuel i l s acc).sched, k + 1 < l.length) := by
  intro fuel
  induction fuel with
  | zero =>
    intro i l s acc l0 hp hf hs
    have hend : ¬ i + 1 < l.length := by omega
    have hinv : invCount l = 0 := by omega
    simp only [permLoop, List.length_reverse, hinv, Nat.add_zero]
    exact ⟨prefixSorted_all i l hp hend, List.Perm.refl _, trivial, hs, trivial,
      fun h k hk => h k (List.mem_reverse.mp hk)⟩
  | succ fuel ih =>
    intro i l s acc l0 hp hf hs
    unfold permLoop
    by_cases hlt : i + 1 < l.length
    · simp only [hlt, if_true]
      by_cases hgt : (l.getD i ⟨0, false⟩).key > (l.getD (i + 1) ⟨0, false⟩).key
      · simp only [hgt, if_true]
        have hc := invCount_swapAt i l hlt hgt
        have hlen := length_swapAt i l
        have hs' : applySwaps (i :: acc).reverse l0 = swapAt i l := by
          simp only [applySwaps, List.reverse_cons, List.foldl_append, List.foldl_cons, List.foldl_nil] at hs ⊢
          rw [hs]
        have hf' : 2 * invCount (swapAt i l) + ((swapAt i l).length - (if i > 0 then i - 1 else i)) ≤ fuel := by
          rw [hlen]; split <;> omega
        obtain ⟨h1, h2, h3, h4, h5, h6⟩ := ih _ (swapAt i l) (s * swapAtSign i l) (i :: acc) l0
          (prefixSorted_swap i l hp) hf' hs'
        refine ⟨h1, h2.trans (perm_swapAt i l), ?_, h4, ?_, ?_⟩
        · rw [h3, List.length_cons]; omega
        · rw [h5, invSign_swapAt i l hlt hgt]; ring
        · intro hacc k hk
          rw [hlen] at h6
          exact h6 (fun k hk => by
            rcases List.mem_cons.mp hk with rfl | hk
            · exact hlt
            · exact hacc k hk) k hk
      · simp only [hgt, if_false]
        exact ih (i + 1) l s acc l0 (prefixSorted_step i l hp hgt) (by omega) hs
    · simp only [hlt, if_false, List.length_reverse]
      have hsorted := prefixSorted_all i l hp hlt
      have hinv : invCount l = 0 := by
        have : ∀ (m : List PItem), m.Pairwise (fun a b => a.key ≤ b.key) → invCount m = 0 := by
          intro m
          induction m with
          | nil => intro _; rfl
          | cons x m ihm =>
            intro hm
            rw [List.pairwise_cons] at hm
            have hpc : ∀ (r : List PItem), (∀ y ∈ r, x.key ≤ y.key) → passCount x r = 0 := by
              intro r
              induction r with
              | nil => intro _; rfl
              | cons y r ihr =>
                intro hr
                have : ¬ x.key > y.key := by have := hr y List.mem_cons_self; omega
                simp only [passCount, this, if_false, Nat.zero_add]
                exact ihr (fun z hz => hr z (List.mem_cons_of_mem _ hz))
            simp only [invCount, hpc m hm.1, ihm hm.2]
        exact this l hsorted
      exact ⟨hsorted, List.Perm.refl _, by omega, hs, trivial, fun h k hk => h k (List.mem_reverse.mp hk)⟩

theorem permuteSites_spec (l : List PItem) :
    (permuteSites l).final.Pairwise (fun a b => a.key ≤ b.key) ∧
    (permuteSites l).final.Perm l ∧
    (permuteSites l).sched.length = invCount l ∧
    applySwaps (permuteSites l).sched l = (permuteSites l).final ∧
    (permuteSites l).sign * invSign (permuteSites l).final = invSign l ∧
    (∀ k ∈ (permuteSites l).sched, k + 1 < l.length) := by
  have h := permLoop_spec (permFuel l) 0 l 1 [] l (prefixSorted_zero l) (by unfold permFuel; omega) rfl
  obtain ⟨h1, h2, h3, h4, h5, h6⟩ := h
  unfold permuteSites
  refine ⟨h1, h2, by simpa using h3, h4, by simpa using h5, h6 (by simp)⟩

end TenpyModel.C09.Ext
