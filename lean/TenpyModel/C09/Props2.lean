import TenpyModel.C09.Props
import TenpyModel.C07.Props
import TenpyModel.C07.Props2
import TenpyModel.MPS.P2_Trunc
import Mathlib.Analysis.Normed.Group.Real
import TenpyModel.MPS.P2_LocalOp
import TenpyModel.MPS.P2_InvInf
/-!
# C09 — second round: truncation error of `compress`, `spatial_inversion` of infinite MPS,
norm tracking of `apply_local_op`

* `C09_compress_error` — discarding Schmidt values at one cut of a canonical state changes it by a
  vector of squared norm `Σ_discarded |S|²` (exact), `C09_compress_error_sweep` — over a sweep the
  norms of the single-step errors add at most linearly.
* `C09_spatial_inversion_infinite` — windows of the inverted infinite MPS = reversed windows.
* `C09_apply_local_op_norm` — a non-unitary one-site operator followed by
  `canonical_form_finite(renormalize)`: (tracked norm factor) × state = dense `O|ψ⟩`.
-/
open TenpyModel.MPS TenpyModel.MPS.MPSM

universe u
variable {α : Type u} [CommSemiring α]
set_option linter.unusedSectionVars false

/-- `Σ_{l,r} Ψ(l,r) conj Ψ(l,r)` -/
def normSq2 (cj : α → α) (nL nR : Nat) (Ψ : Mat α) : α :=
  sumN nL (fun l => sumN nR (fun r => Ψ l r * cj (Ψ l r)))

/-- keep the Schmidt values with `keep a`, zero the others (`svd_theta` / `truncate`) -/
def maskS (keep : Nat → Bool) (s : Vec α) : Vec α := fun a => if keep a then s a else 0

/-- **Truncation error at one bond (exact).**  Canonical state `Ψ = V diag(s) W` at a cut
(`V†V = 1`: left part in `'A'` form, `W W† = 1`: right part in `'B'` form).  Keeping the Schmidt
values in `keep` gives `Ψ' = V diag(s|keep) W`, and `Ψ = Ψ' + Ψ_disc` with
`‖Ψ_disc‖² = Σ_{a ∉ keep} s_a s̄_a` — the `TruncationError.eps` the code reports (`Ψ - Ψ' = Ψ_disc`
in a ring). -/
theorem C09_compress_error {cj : α → α} (hcj : ConjLike cj) (nL nR χ : Nat) (V : Mat α) (s : Vec α) (W : Mat α)
    (hV : ∀ a a', a < χ → a' < χ → sumN nL (fun l => cj (V l a) * V l a') = delta a a')
    (hW : ∀ a a', a < χ → a' < χ → sumN nR (fun r => W a r * cj (W a' r)) = delta a a')
    (keep : Nat → Bool) :
    (∀ l r, schmidtPsi χ V s W l r
      = schmidtPsi χ V (maskS keep s) W l r + schmidtPsi χ V (maskS (fun a => !keep a) s) W l r) ∧
    normSq2 cj nL nR (schmidtPsi χ V (maskS (fun a => !keep a) s) W)
      = sumN χ (fun a => if keep a then 0 else s a * cj (s a)) := by
  constructor
  · intro l r
    simp only [schmidtPsi]
    rw [← sumN_add]
    refine sumN_congr (fun a _ => ?_)
    simp only [maskS]
    by_cases hk : keep a = true <;> simp [hk]
  · have h := (C07_schmidt_certificate hcj nL nR χ V (maskS (fun a => !keep a) s) W hV hW).2
    simp only [normSq2]
    simp only [rhoL] at h
    rw [h]
    refine sumN_congr (fun a _ => ?_)
    simp only [maskS]
    by_cases hk : keep a = true <;> simp [hk, hcj.zero]

/-- **Truncation errors of a sweep.**  If every step of a sweep over several bonds is a truncation
of the CURRENT state `ψ_k ↦ ψ_{k+1}` with squared error `ε_k = ‖ψ_k - ψ_{k+1}‖²`
(`C09_compress_error`: the discarded weight at that bond), then the total error satisfies
`‖ψ_0 - ψ_n‖ ≤ Σ_k √ε_k` and `‖ψ_0 - ψ_n‖² ≤ n · Σ_k ε_k` — the bound the harness checks with the
reported `eps`.  Any (semi)normed space, e.g. `ℂ^(d^L)`. -/
theorem C09_compress_error_sweep {E : Type*} [SeminormedAddCommGroup E] (x : ℕ → E) (ε : ℕ → ℝ) (n : ℕ)
    (h : ∀ k, k < n → ‖x k - x (k + 1)‖ ^ 2 = ε k) :
    ‖x 0 - x n‖ ≤ ∑ k ∈ Finset.range n, Real.sqrt (ε k) ∧
    ‖x 0 - x n‖ ^ 2 ≤ n * ∑ k ∈ Finset.range n, ε k :=
  trunc_sweep_bound x ε n h

/-- **`spatial_inversion` of an infinite MPS** (repaired bond order `_S[:1] + _S[:0:-1]`, commit
418c59d): every window of the inverted MPS is the reversed window of the original,
`get_theta'(i, n)[aL, reverse σ, aR] = get_theta(L - i - n, n)[aR, σ, aL]` — all window positions
`i ∈ ℤ` (also across the unit-cell boundary), all lengths, any stored forms and bond dimensions.
Extends `C09_spatial_inversion_state` (finite bc). -/
theorem C09_spatial_inversion_infinite (M : MPSM α) (hbc : M.bc = BC.infinite) (hL : 0 < M.L)
    (hdim : ∀ j : Int, (M.siteAt j).dR = (M.siteAt (j + 1)).dL) (i : Int) (σ : List Nat) (hne : σ ≠ [])
    (aL aR : Nat)
    (haR : aR < (M.siteAt ((M.L : Int) - i - σ.length)).dL)
    (haL : aL < (M.siteAt ((M.L : Int) - i - 1)).dR) :
    M.spatialInversion.theta i aL σ.reverse aR = M.theta ((M.L : Int) - i - σ.length) aR σ aL :=
  theta_spatialInversion_inf M hbc hL hdim i σ hne aL aR haR haL

/-- **Norm tracking of `apply_local_op` for a non-unitary one-site operator.**  The code sets
`B_k ← op·B_k` and calls `canonical_form(renormalize)`.  With the sweeps of
`C07_canonical_form_finite_state`:
`(factor multiplied into psi.norm) · (factor dropped) · contract(new tensors)
   = Σ_q O(σ_k, q) · contract(old tensors)(σ[k ↦ q])`, the dense `O_k|ψ⟩`.
For `renormalize=False` nothing is dropped when the later `|S|` are 1 (`C07_canonical_form_finite_norm`),
so `psi.norm · toState` is exactly the dense `O|ψ⟩`; for `renormalize=True` the tracked factor is 1
and the whole change of norm is the dropped factor (the state is returned normalized). -/
theorem C09_apply_local_op_norm (renorm : Bool) (nz nzS : RSite α → α × α) (qr : RSite α → RSite α × Mat α)
    (sv : RSite α → Mat α × RSite α) {cj : α → α}
    (hnz : ∀ s, (nz s).1 * (nz s).2 = 1) (hnzS : ∀ s, (nzS s).1 * (nzS s).2 = 1)
    (ss : List (RSite α)) (k : Nat) (O : Mat α) (hk : k < ss.length) (n0 : Nat) (hc : ChainOK n0 ss)
    (hqr : ∀ s ∈ canonCallsL nz qr (applyAt k O ss), QRSpec cj qr s)
    (hsv : ∀ s ∈ canonCallsR renorm nz qr nzS sv (applyAt k O ss), SVSpec cj sv s)
    (v : Vec α) (σ : List Nat) (hσ : σ.length = ss.length) (c : Nat) (hcl : c < lastDim n0 ss) :
    ((canonFinite renorm nz qr nzS sv (applyAt k O ss)).2.1 *
        (canonFinite renorm nz qr nzS sv (applyAt k O ss)).2.2) *
        contract v (canonFinite renorm nz qr nzS sv (applyAt k O ss)).1 σ c
      = sumN ((dims ss).getD k 0) (fun q => O (σ.getD k 0) q * contract v ss (σ.set k q) c) ∧
    (renorm = true → (canonFinite renorm nz qr nzS sv (applyAt k O ss)).2.1 = 1) := by
  refine ⟨applyLocalOp_canon renorm nz nzS qr sv hnz hnzS ss k O hk n0 hc hqr hsv v σ hσ c hcl, ?_⟩
  intro hr
  subst hr
  have hL : ∀ (rest : List (RSite α)) (cur : RSite α) (nl : α × α),
      (sweepL true nz qr cur rest nl).2.2.1 = nl.1 := by
    intro rest
    induction rest with
    | nil => intro cur nl; simp [sweepL, updNorm]
    | cons t rest ih => intro cur nl; simp only [sweepL]; rw [ih]; simp [updNorm]
  have hR : ∀ (revPre : List (RSite α)) (first : Bool) (cur : RSite α) (done : List (RSite α)) (nl : α × α),
      (sweepR true nzS sv first revPre cur done nl).2.1 = nl.1 := by
    intro revPre
    induction revPre with
    | nil => intro first cur done nl; simp [sweepR, updNorm]
    | cons s revPre ih => intro first cur done nl; simp only [sweepR]; rw [ih]; simp [updNorm]
  cases happ : applyAt k O ss with
  | nil => simp [canonFinite]
  | cons s0 rest => simp only [canonFinite]; rw [hR, hL]

/-! ### non-vacuity -/
namespace C09Examples2
open TenpyModel.MPS

/-- `V = W = 1₂`, `s = (2, 3)`, keep only the first Schmidt value: error² = 9 -/
example : normSq2 (fun x : Int => x) 2 2 (schmidtPsi 2 (fun l a => delta l a)
      (maskS (fun a => !(decide (a = 0))) (fun a => if a = 0 then (2 : Int) else 3)) (fun a r => delta a r))
    = sumN 2 (fun a => if decide (a = 0) then 0 else (if a = 0 then (2 : Int) else 3) * (if a = 0 then 2 else 3)) :=
  (C09_compress_error ConjLike.id 2 2 2 _ _ _
    (fun a a' ha ha' => by
      have h1 : a = 0 ∨ a = 1 := by omega
      have h2 : a' = 0 ∨ a' = 1 := by omega
      rcases h1 with rfl | rfl <;> rcases h2 with rfl | rfl <;> decide)
    (fun a a' ha ha' => by
      have h1 : a = 0 ∨ a = 1 := by omega
      have h2 : a' = 0 ∨ a' = 1 := by omega
      rcases h1 with rfl | rfl <;> rcases h2 with rfl | rfl <;> decide)
    (fun a => decide (a = 0))).2

example : sumN 2 (fun a => if decide (a = 0) then 0 else (if a = 0 then (2 : Int) else 3) * (if a = 0 then 2 else 3)) = 9 := by
  decide

/-- three steps of size 1 on the real line: `|x₀ - x₃| ≤ 3`, `|x₀ - x₃|² ≤ 3·3` -/
example : ‖((0 : ℕ) : ℝ) - ((3 : ℕ) : ℝ)‖ ≤ ∑ k ∈ Finset.range 3, Real.sqrt ((fun _ => (1 : ℝ)) k) ∧
    ‖((0 : ℕ) : ℝ) - ((3 : ℕ) : ℝ)‖ ^ 2 ≤ (3 : ℕ) * ∑ k ∈ Finset.range 3, (fun _ => (1 : ℝ)) k :=
  C09_compress_error_sweep (fun k => (k : ℝ)) (fun _ => 1) 3 (by
    intro k _
    show ‖(k : ℝ) - ((k + 1 : ℕ) : ℝ)‖ ^ 2 = 1
    have : ((k : ℝ) - ((k + 1 : ℕ) : ℝ)) = -1 := by push_cast; ring
    rw [this]; simp)

/-- the infinite two-site unit cell of `C09Examples.cell` (bond dimensions 1, 2) with non-trivial
tensors and singular values: the window `[1, 0, 1]` starting at site 1 of the inverted MPS equals
the reversed window of the original starting at `L - 1 - 3 = -2`. -/
def cell2 : MPSM Rat :=
  { L := 2
    site := fun j => if j = 0 then { dL := 1, d := 2, dR := 2, B := fun a p c => (a + 2 * p + 3 * c + 1 : Nat), form := some (0, 2) }
                     else { dL := 2, d := 2, dR := 1, B := fun a p c => (2 * a + p + c + 1 : Nat), form := some (2, 0) }
    bond := fun j => if j = 0 then { chi := 1, R := fun _ => 1/2, Rinv := fun _ => 2 }
                     else { chi := 2, R := fun a => if a = 0 then 1/3 else 3, Rinv := fun a => if a = 0 then 3 else 1/3 }
    norm := 1, bc := BC.infinite }

theorem cell2_dim : ∀ j : Int, (cell2.siteAt j).dR = (cell2.siteAt (j + 1)).dL := by
  intro j
  have e : ∀ x : Int, cell2.siteIdx x = (x % 2).toNat := fun x => siteIdx_inf cell2 rfl (by decide) x
  simp only [MPSM.siteAt, e]
  rcases Int.emod_two_eq_zero_or_one j with h | h
  · have h2 : (j + 1) % 2 = 1 := by omega
    rw [h, h2]; rfl
  · have h2 : (j + 1) % 2 = 0 := by omega
    rw [h, h2]; rfl

example : cell2.spatialInversion.theta 1 1 [1, 0, 1].reverse 0 = cell2.theta ((2 : Nat) - 1 - ([1, 0, 1] : List Nat).length) 0 [1, 0, 1] 1 :=
  C09_spatial_inversion_infinite cell2 rfl (by decide) cell2_dim 1 [1, 0, 1] (by simp) 1 0 (by decide) (by decide)

/-! `apply_local_op(1, diag(2,1))` (non-unitary) on the chain of `C07Examples2`, then
`canonical_form_finite(renormalize=False)` with the same factorization routines -/
open C07Examples2

def opD : Mat Int := fun p q => if p = q then (if p = 0 then 2 else 1) else 0

theorem eo_qr : ∀ s ∈ canonCallsL nzE qrE (applyAt 1 opD [e0, e1]), QRSpec (fun x => x) qrE s := by
  intro s hs
  simp only [applyAt, canonCallsL, sweepLCalls, List.mem_singleton] at hs
  subst hs
  refine ⟨rfl, rfl, ?_, ?_⟩
  · intro a p b ha hb
    have ha0 : a = 0 := by have : a < 1 := ha; omega
    have hb' : b = 0 ∨ b = 1 := by have : b < 2 := hb; omega
    subst ha0
    rcases hb' with rfl | rfl <;> rcases p with _ | _ | p <;>
      simp [qrE, sumN, smulSite, e0, nzE]
  · intro b' b hb' hb
    have h1 : b' = 0 ∨ b' = 1 := by have : b' < 2 := hb'; omega
    have h2 : b = 0 ∨ b = 1 := by have : b < 2 := hb; omega
    rcases h1 with rfl | rfl <;> rcases h2 with rfl | rfl <;> decide

theorem eo_sv : ∀ s ∈ canonCallsR false nzE qrE nzE svE (applyAt 1 opD [e0, e1]), SVSpec (fun x => x) svE s := by
  intro s hs
  simp only [applyAt, canonCallsR, sweepRCalls, sweepL, List.reverse_cons, List.reverse_nil, List.nil_append,
    List.mem_cons, List.not_mem_nil, or_false] at hs
  rcases hs with rfl | rfl
  · refine ⟨rfl, rfl, ?_, ?_⟩
    · intro a p b ha hb
      have ha' : a = 0 ∨ a = 1 := by have : a < 2 := ha; omega
      have hb0 : b = 0 := by have : b < 1 := hb; omega
      subst hb0
      rcases ha' with rfl | rfl <;> rcases p with _ | _ | p <;>
        simp [svE, qrE, sumN, smulSite, mulLeft, opSite, opD, e0, e1, nzE]
    · intro a' a ha' ha
      have h1 : a' = 0 ∨ a' = 1 := by have : a' < 2 := ha'; omega
      have h2 : a = 0 ∨ a = 1 := by have : a < 2 := ha; omega
      rcases h1 with rfl | rfl <;> rcases h2 with rfl | rfl <;> decide
  · refine ⟨rfl, rfl, ?_, ?_⟩
    · intro a p b ha hb
      have ha0 : a = 0 := by have : a < 1 := ha; omega
      have hb' : b = 0 ∨ b = 1 := by have : b < 2 := hb; omega
      subst ha0
      rcases hb' with rfl | rfl <;> rcases p with _ | _ | p <;>
        simp [svE, qrE, sumN, smulSite, smulMat, mulLeft, mulRight, opSite, opD, e0, e1, nzE]
    · intro a' a ha' ha
      have h1 : a' = 0 := by have : a' < 1 := ha'; omega
      have h2 : a = 0 := by have : a < 1 := ha; omega
      subst h1; subst h2; decide

example : ((canonFinite false nzE qrE nzE svE (applyAt 1 opD [e0, e1])).2.1 *
        (canonFinite false nzE qrE nzE svE (applyAt 1 opD [e0, e1])).2.2) *
      contract (fun a => delta a 0) (canonFinite false nzE qrE nzE svE (applyAt 1 opD [e0, e1])).1 [0, 0] 0
    = sumN ((dims [e0, e1]).getD 1 0) (fun q => opD (([0, 0] : List Nat).getD 1 0) q *
        contract (fun a => delta a 0) [e0, e1] (([0, 0] : List Nat).set 1 q) 0) :=
  (C09_apply_local_op_norm false nzE nzE qrE svE (fun _ => rfl) (fun _ => rfl) [e0, e1] 1 opD (by decide) 1
    e_chain eo_qr eo_sv _ [0, 0] rfl 0 (by decide)).1

/-- the dense value: `O_1 (2|00⟩) = 4|00⟩` -/
example : sumN ((dims [e0, e1]).getD 1 0) (fun q => opD (([0, 0] : List Nat).getD 1 0) q *
    contract (fun a => delta a 0) [e0, e1] (([0, 0] : List Nat).set 1 q) 0) = 4 := by decide

end C09Examples2
