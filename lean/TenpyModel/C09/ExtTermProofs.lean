import TenpyModel.C09.ExtTerm
import Mathlib.Tactic.Ring

/-! Lemmas about `_term_to_ops_list`: what lands in every slot, in which order. -/

namespace TenpyModel.C09.Ext

/-- what one entry contributes to the *site* `s` of the chain when every fermionic operator carries its
Jordan-Wigner string on all sites to its left -/
def factorAt (e : FEntry) (s : Int) : List String :=
  if s = e.i then [e.op] else if e.jw && decide (s < e.i) then ["JW"] else []

/-- the one-site factors on site `s` of the product of the term's operators, in the order of the term -/
def siteFactors (term : List FEntry) (s : Int) : List String := term.flatMap (fun e => factorAt e s)

/-- number of fermionic entries -/
def countJW (term : List FEntry) : Nat := (term.filter (·.jw)).length

theorem placeOps_fold (iMin : Int) : ∀ (term : List FEntry) (st : List (List String) × Nat),
    (term.foldl (placeStep iMin) st).1 = st.1.mapIdx (fun k o => o ++ term.flatMap (fun e => expandAt iMin e k)) ∧
    (term.foldl (placeStep iMin) st).2 = st.2 + countJW term := by
  intro term
  induction term with
  | nil =>
    intro st
    refine ⟨?_, by simp [countJW]⟩
    apply List.ext_getElem <;> simp
  | cons e t ih =>
    intro st
    obtain ⟨h1, h2⟩ := ih (placeStep iMin st e)
    rw [List.foldl_cons, h1, h2]
    constructor
    · simp only [placeStep, List.mapIdx_mapIdx, List.flatMap_cons]
      congr 1
      funext k o
      simp [List.append_assoc]
    · simp only [placeStep, countJW, List.filter_cons]
      split <;> simp <;> omega

theorem minIdx_le : ∀ (term : List FEntry) (i0 : Int),
    minIdx i0 term ≤ i0 ∧ ∀ e ∈ term, minIdx i0 term ≤ e.i := by
  intro term
  induction term with
  | nil => intro i0; simp [minIdx]
  | cons e t ih =>
    intro i0
    obtain ⟨h1, h2⟩ := ih (min i0 e.i)
    simp only [minIdx, List.foldl_cons] at h1 h2 ⊢
    refine ⟨by omega, ?_⟩
    intro x hx
    rcases List.mem_cons.mp hx with rfl | hx
    · omega
    · exact h2 x hx

theorem le_maxIdx : ∀ (term : List FEntry) (i0 : Int),
    i0 ≤ maxIdx i0 term ∧ ∀ e ∈ term, e.i ≤ maxIdx i0 term := by
  intro term
  induction term with
  | nil => intro i0; simp [maxIdx]
  | cons e t ih =>
    intro i0
    obtain ⟨h1, h2⟩ := ih (max i0 e.i)
    simp only [maxIdx, List.foldl_cons] at h1 h2 ⊢
    refine ⟨by omega, ?_⟩
    intro x hx
    rcases List.mem_cons.mp hx with rfl | hx
    · omega
    · exact h2 x hx

theorem expandAt_eq_factorAt (iMin : Int) (e : FEntry) (k : Nat) (h : iMin ≤ e.i) :
    expandAt iMin e k = factorAt e (iMin + k) := by
  unfold expandAt factorAt
  have h1 : (k = (e.i - iMin).toNat) ↔ (iMin + (k : Int) = e.i) := by omega
  have h2 : (k < (e.i - iMin).toNat) ↔ (iMin + (k : Int) < e.i) := by omega
  simp only [h1, h2]

theorem flatMap_expand_eq (iMin : Int) (k : Nat) : ∀ (term : List FEntry), (∀ e ∈ term, iMin ≤ e.i) →
    term.flatMap (fun e => expandAt iMin e k) = siteFactors term (iMin + k) := by
  intro term
  induction term with
  | nil => intro _; rfl
  | cons e t ih =>
    intro h
    rw [List.flatMap_cons, expandAt_eq_factorAt iMin e k (h e List.mem_cons_self),
      ih (fun x hx => h x (List.mem_cons_of_mem _ hx))]
    simp only [siteFactors, List.flatMap_cons]

/-- slots of `placeOps`: slot `k` holds exactly the factors on site `i_min + k`, in the order of the term -/
theorem placeOps_slot (iMin : Int) (n : Nat) (term : List FEntry) (hmin : ∀ e ∈ term, iMin ≤ e.i) :
    (placeOps iMin n term).1.length = n ∧
    (∀ k (hk : k < (placeOps iMin n term).1.length), (placeOps iMin n term).1[k] = siteFactors term (iMin + k)) ∧
    (placeOps iMin n term).2 = countJW term := by
  obtain ⟨h1, h2⟩ := placeOps_fold iMin term (List.replicate n [], 0)
  unfold placeOps
  refine ⟨by rw [h1]; simp, ?_, by rw [h2]; simp⟩
  intro k hk
  simp only [h1, List.getElem_mapIdx, List.getElem_replicate, List.nil_append]
  exact flatMap_expand_eq iMin k term hmin

theorem siteFactors_cons (e : FEntry) (t : List FEntry) (s : Int) :
    siteFactors (e :: t) s = factorAt e s ++ siteFactors t s := by
  simp only [siteFactors, List.flatMap_cons]

theorem countJW_cons (e : FEntry) (t : List FEntry) :
    countJW (e :: t) = (if e.jw then 1 else 0) + countJW t := by
  simp only [countJW, List.filter_cons]
  split <;> simp <;> omega

/-- to the left of every entry only Jordan-Wigner factors remain, one per fermionic entry -/
theorem siteFactors_left : ∀ (term : List FEntry) (s : Int), (∀ e ∈ term, s < e.i) →
    siteFactors term s = List.replicate (countJW term) "JW" := by
  intro term
  induction term with
  | nil => intro s _; rfl
  | cons e t ih =>
    intro s h
    have he := h e List.mem_cons_self
    have hne : ¬ s = e.i := by omega
    rw [siteFactors_cons, countJW_cons, ih s (fun x hx => h x (List.mem_cons_of_mem _ hx))]
    unfold factorAt
    cases hj : e.jw
    · simp [hne]
    · simp [hne, he, Nat.add_comm 1, List.replicate_succ]

/-- to the right of every entry nothing acts -/
theorem siteFactors_right : ∀ (term : List FEntry) (s : Int), (∀ e ∈ term, e.i < s) → siteFactors term s = [] := by
  intro term
  induction term with
  | nil => intro s _; rfl
  | cons e t ih =>
    intro s h
    have he := h e List.mem_cons_self
    have hne : ¬ s = e.i := by omega
    have hlt : ¬ s < e.i := by omega
    rw [siteFactors_cons, ih s (fun x hx => h x (List.mem_cons_of_mem _ hx))]
    unfold factorAt
    simp [hne, hlt]

/-- without fermionic entries the factors on a site are the names of the entries on that site -/
theorem siteFactors_plain : ∀ (term : List FEntry) (s : Int), (∀ e ∈ term, e.jw = false) →
    siteFactors term s = (term.filter (fun e => decide (e.i = s))).map (·.op) := by
  intro term
  induction term with
  | nil => intro s _; rfl
  | cons e t ih =>
    intro s h
    have hj := h e List.mem_cons_self
    rw [siteFactors_cons, ih s (fun x hx => h x (List.mem_cons_of_mem _ hx))]
    unfold factorAt
    by_cases hs : s = e.i
    · subst hs; simp
    · have hs' : ¬ e.i = s := fun h => hs h.symm
      simp [hs, hs', hj]

theorem validSite_spec (L : Nat) (inf : Bool) (i : Int) (k : Nat) (h : validSite L inf i = some k) :
    k < L ∧ (k : Int) = i % (L : Int) ∧ (inf = false → -(L : Int) ≤ i ∧ i < L) := by
  unfold validSite at h
  by_cases hL : L = 0
  · simp [hL] at h
  · have hLpos : (0 : Int) < (L : Int) := by omega
    have hnn := Int.emod_nonneg i (by omega : (L : Int) ≠ 0)
    have hlt := Int.emod_lt_of_pos i hLpos
    have hdm := Int.emod_add_mul_ediv i (L : Int)
    simp only [hL, if_false] at h
    cases inf with
    | true =>
      simp only [if_true, Option.some.injEq] at h
      refine ⟨by omega, by omega, by simp⟩
    | false =>
      simp only [Bool.false_eq_true, if_false] at h
      by_cases hq : i / (L : Int) = 0 ∨ i / (L : Int) = -1
      · simp only [hq, if_true, Option.some.injEq] at h
        refine ⟨by omega, by omega, fun _ => ?_⟩
        rcases hq with hq | hq
        · rw [hq] at hdm; simp at hdm; omega
        · rw [hq] at hdm; simp at hdm; omega
      · simp [hq] at h

end TenpyModel.C09.Ext
