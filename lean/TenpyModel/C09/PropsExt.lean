import TenpyModel.C09.ExtPermuteProofs
import TenpyModel.C09.ExtTermProofs

/-!
# C09 — extension round: property-level theorems

Part 1: the loop of `MPS.permute_sites` (model `C09/ExtPermute.lean`).
Part 2: `MPS._term_to_ops_list` / the glue of `MPS.apply_local_term` (model `C09/ExtTerm.lean`).
-/

open TenpyModel.MPS TenpyModel.C09.Ext

/-! ## permute_sites -/

/-- **`permute_sites` terminates with the sites in target order**: for every list of target positions (any
length, repeated keys allowed) the `while` loop ends by its own condition with the keys ascending. -/
theorem C09_permute_sites_sorted (l : List PItem) :
    (permuteSites l).final.Pairwise (fun a b => a.key ≤ b.key) := (permuteSites_spec l).1

/-- the loop only re-orders: the final arrangement is a permutation of the sites it started with -/
theorem C09_permute_sites_perm (l : List PItem) : (permuteSites l).final.Perm l := (permuteSites_spec l).2.1

/-- **site `i` ends at position `perm[i]`**: when the keys are a permutation of `0..L-1`, position `k` of the
result holds the item whose key is `k`. -/
theorem C09_permute_sites_target (l : List PItem) (h : (l.map (·.key)).Perm (List.range l.length)) :
    (permuteSites l).final.map (·.key) = List.range l.length := by
  have hs := C09_permute_sites_sorted l
  have hp := C09_permute_sites_perm l
  have h1 : ((permuteSites l).final.map (·.key)).Pairwise (· ≤ ·) := by
    rw [List.pairwise_map]; exact hs
  have h2 : (List.range l.length).Pairwise (· ≤ ·) :=
    List.pairwise_lt_range.imp (fun h => Nat.le_of_lt h)
  exact List.Perm.eq_of_pairwise (fun a b _ _ hab hba => Nat.le_antisymm hab hba) h1 h2
    ((hp.map _).trans h)

/-- **number of `swap_sites` calls = number of inversions** of `perm` (no superfluous two-site SVDs), every
call is on a bond inside the chain, and replaying the recorded calls as adjacent transpositions on the initial
arrangement gives the final one. -/
theorem C09_permute_sites_schedule (l : List PItem) :
    (permuteSites l).sched.length = invCount l ∧
    (∀ k ∈ (permuteSites l).sched, k + 1 < l.length) ∧
    applySwaps (permuteSites l).sched l = (permuteSites l).final :=
  ⟨(permuteSites_spec l).2.2.1, (permuteSites_spec l).2.2.2.2.2, (permuteSites_spec l).2.2.2.1⟩

/-- **fermionic sign of `permute_sites`, unconditionally**: the signs `(-1)^{n_i n_{i+1}}` of the swaps multiply
to the sign of re-ordering the fermionic operators, `Π_{i<j, key_i>key_j} (-1)^{n_i n_j}` (`C09_permute_sign`
needed sortedness of the end result as a hypothesis). -/
theorem C09_permute_sites_sign (l : List PItem) : (permuteSites l).sign = invSign l := by
  have h := (permuteSites_spec l).2.2.2.2.1
  rw [invSign_sorted _ (C09_permute_sites_sorted l)] at h
  simpa using h

/-- the recording loop is the loop of `MPS/Transform.lean::permuteRun` (same sign, same final order) -/
theorem C09_permute_sites_refines_run : ∀ (fuel i : Nat) (l : List PItem) (s : Int) (acc : List Nat),
    ((permLoop fuel i l s acc).sign, (permLoop fuel i l s acc).final) = permuteRun fuel i l s := by
  intro fuel
  induction fuel with
  | zero => intro i l s acc; rfl
  | succ fuel ih =>
    intro i l s acc
    unfold permLoop permuteRun
    by_cases hlt : i + 1 < l.length
    · simp only [hlt, if_true]
      by_cases hgt : (l.getD i ⟨0, false⟩).key > (l.getD (i + 1) ⟨0, false⟩).key
      · simp only [hgt, if_true]; exact ih _ _ _ _
      · simp only [hgt, if_false]; exact ih _ _ _ _
    · simp only [hlt, if_false]

/-- argument glue: a `perm` shorter than the chain is refused (`IndexError`), entries beyond `L` are ignored -/
theorem C09_permute_sites_checked (L : Nat) (l : List PItem) :
    (permuteSitesChecked L l = none ↔ (2 ≤ L ∧ l.length < L)) ∧
    (∀ r, permuteSitesChecked L l = some r → r = permuteSites (l.take L)) := by
  unfold permuteSitesChecked
  by_cases h : L ≥ 2 ∧ l.length < L
  · simp [h]
  · simp only [h, if_false]
    refine ⟨by simp, fun r hr => by simpa using hr.symm⟩

namespace C09ExtExamples

/-- `[2,0,3,1]` with three fermions: 3 inversions, 3 swaps at bonds 0,1,2 in the order the code takes them -/
def items : List PItem := [⟨2, true⟩, ⟨0, true⟩, ⟨3, false⟩, ⟨1, true⟩]
example : (permuteSites items).sched = [0, 2, 1] ∧ invCount items = 3 := by decide
example : (permuteSites items).final.map (·.key) = [0, 1, 2, 3] ∧ (permuteSites items).sign = 1 := by decide
example : (items.map (·.key)).Perm (List.range items.length) := by decide
example : permuteSitesChecked 4 (items.take 3) = none ∧ (permuteSitesChecked 3 items).isSome := by decide

end C09ExtExamples

/-! ## _term_to_ops_list / apply_local_term -/

/-- **index glue**: an accepted index denotes the site `i mod L`; on finite/segment bc only `-L ≤ i < L` is
accepted. -/
theorem C09_term_valid_site (L : Nat) (inf : Bool) (i : Int) (k : Nat) (h : validSite L inf i = some k) :
    k < L ∧ (k : Int) = i % (L : Int) ∧ (inf = false → -(L : Int) ≤ i ∧ i < L) := validSite_spec L inf i k h

/-- **what `_term_to_ops_list` hands to `multiply_operators`**: slot `k` of the result belongs to site
`i_min + k`, the slots cover exactly `i_min .. i_max`, and slot `k` holds — in the order of the term — the
one-site factors on that site of the product `Π (JW ⊗ … ⊗ JW ⊗ op_i)` in which every fermionic operator carries
its Jordan-Wigner string on all sites to its left (`siteFactors`), followed by one more `'JW'` when a string
comes in from the right. -/
theorem C09_term_ops_factors (term : List FEntry) (jwRight : Option Bool) (ops : List (List String)) (iMin : Int)
    (extra : Bool) (h : termCore term jwRight = some (ops, iMin, extra)) :
    (∀ e ∈ term, iMin ≤ e.i ∧ e.i < iMin + ops.length) ∧
    (∀ k (hk : k < ops.length), ops[k] = siteFactors term (iMin + k) ++
      (if fromRightOf jwRight (countJW term) then ["JW"] else [])) := by
  match term, h with
  | e0 :: t, h =>
    simp only [termCore, Option.some.injEq, Prod.mk.injEq] at h
    obtain ⟨hops, hmin, _⟩ := h
    have hle := minIdx_le (e0 :: t) e0.i
    have hge := le_maxIdx (e0 :: t) e0.i
    have hslot := placeOps_slot (minIdx e0.i (e0 :: t)) ((maxIdx e0.i (e0 :: t) - minIdx e0.i (e0 :: t)).toNat + 1)
      (e0 :: t) hle.2
    obtain ⟨hlen, hget, hcnt⟩ := hslot
    subst hmin
    have hl : ops.length = (maxIdx e0.i (e0 :: t) - minIdx e0.i (e0 :: t)).toNat + 1 := by
      rw [← hops]; split <;> simp [hlen]
    constructor
    · intro e he
      have h1 := hle.2 e he
      have h2 := hge.2 e he
      rw [hl]
      constructor
      · exact h1
      · omega
    · intro k hk
      rw [hcnt] at hops
      by_cases hfr : fromRightOf jwRight (countJW (e0 :: t)) = true
      · simp only [hfr, if_true] at hops ⊢
        subst hops
        simp only [List.getElem_map]
        rw [hget]
      · have hf : fromRightOf jwRight (countJW (e0 :: t)) = false := by simpa using hfr
        rw [hf] at hops ⊢
        simp only [Bool.false_eq_true, if_false] at hops ⊢
        subst hops
        rw [hget, List.append_nil]

/-- **the string left of the term**: on every site left of `i_min` the product acts with one `JW` per fermionic
entry (so `JW^count`), right of `i_max` with nothing — `_term_to_ops_list` does not return those sites; the
left part is what `has_extra_JW` stands for. -/
theorem C09_term_outside (term : List FEntry) (s : Int) :
    ((∀ e ∈ term, s < e.i) → siteFactors term s = List.replicate (countJW term) "JW") ∧
    ((∀ e ∈ term, e.i < s) → siteFactors term s = []) :=
  ⟨siteFactors_left term s, siteFactors_right term s⟩

/-- **`has_extra_JW`**: the returned flag is the parity of the number of fermionic entries, flipped when a
string was announced from the right; with `JW_from_right=None` the string from the right is added exactly when
that number is odd and the flag reports it. -/
theorem C09_term_extra_JW (term : List FEntry) (jwRight : Option Bool) (ops : List (List String)) (iMin : Int)
    (extra : Bool) (h : termCore term jwRight = some (ops, iMin, extra)) :
    extra = Bool.xor (countJW term % 2 == 1) (jwRight == some true) ∧
    (jwRight = none → fromRightOf jwRight (countJW term) = extra) := by
  match term, h with
  | e0 :: t, h =>
    simp only [termCore, Option.some.injEq, Prod.mk.injEq] at h
    obtain ⟨_, _, hex⟩ := h
    have hle := minIdx_le (e0 :: t) e0.i
    have hcnt := (placeOps_slot (minIdx e0.i (e0 :: t)) ((maxIdx e0.i (e0 :: t) - minIdx e0.i (e0 :: t)).toNat + 1)
      (e0 :: t) hle.2).2.2
    rw [hcnt] at hex
    subst hex
    generalize countJW (e0 :: t) = c
    have hc : c % 2 = 0 ∨ c % 2 = 1 := by omega
    match jwRight with
    | none =>
      rcases hc with hc | hc
      · have h2 : (c % 2 == 1) = false := by simp [hc]
        simp [extraOf, fromRightOf, hc]
      · have h2 : (c % 2 == 1) = true := by simp [hc]
        have h3 : (c - 1 + 1) % 2 = 1 := by omega
        simp [extraOf, fromRightOf, h2, h3]
    | some true =>
      rcases hc with hc | hc
      · have h3 : (c + 1) % 2 = 1 := by omega
        simp [extraOf, fromRightOf, hc, h3]
      · have h3 : (c + 1) % 2 = 0 := by omega
        simp [extraOf, fromRightOf, hc, h3]
    | some false => simp [extraOf, fromRightOf]

/-- **`autoJW=False`** (no entry flagged): every slot holds just the names of the entries on its site in the
order of the term, no `'JW'` is inserted and no string leaves to the left. -/
theorem C09_term_no_autoJW (term : List FEntry) (ops : List (List String)) (iMin : Int) (extra : Bool)
    (hplain : ∀ e ∈ term, e.jw = false) (h : termCore term (some false) = some (ops, iMin, extra)) :
    extra = false ∧
    ∀ k (hk : k < ops.length), ops[k] = (term.filter (fun e => decide (e.i = iMin + k))).map (·.op) := by
  have hc : countJW term = 0 := by
    unfold countJW
    rw [List.length_eq_zero_iff, List.filter_eq_nil_iff]
    intro e he; simp [hplain e he]
  constructor
  · have := (C09_term_extra_JW term (some false) ops iMin extra h).1
    rw [this, hc]; rfl
  · intro k hk
    have := (C09_term_ops_factors term (some false) ops iMin extra h).2 k hk
    rw [this, siteFactors_plain term _ hplain]
    simp [fromRightOf]

/-- **`apply_local_term` never applies an open Jordan-Wigner string to an infinite MPS** (it refuses), applies
one on the left leg of the first slot's site exactly when the term has an odd number of fermionic entries, and
then updates one tensor per slot. -/
theorem C09_apply_local_term_plan (sitesJW : List (List String)) (inf : Bool) (canJW : List Bool) (term : List REntry)
    (autoJW : Bool) (off : Int) (p : TermPlan)
    (h : applyLocalTermPlan sitesJW inf canJW term autoJW off = .ok p) :
    ∃ ops iMin extra, termToOps sitesJW inf term autoJW off (some false) = .ok (ops, iMin, extra) ∧
      p.steps.length = ops.length ∧ p.steps.map (·.2) = ops ∧
      (extra = true → inf = false ∧ jwSiteOK canJW sitesJW.length inf iMin = true ∧
        p.jwLeftOf = validSite sitesJW.length inf iMin) ∧
      (extra = false → p.jwLeftOf = none) := by
  unfold applyLocalTermPlan at h
  cases hto : termToOps sitesJW inf term autoJW off (some false) with
  | error x => rw [hto] at h; simp at h
  | ok r =>
    obtain ⟨ops, iMin, extra⟩ := r
    rw [hto] at h
    simp only at h
    refine ⟨ops, iMin, extra, rfl, ?_⟩
    cases extra <;> cases inf <;> cases hc : jwSiteOK canJW sitesJW.length false iMin <;> simp [hc] at h <;>
      subst h <;> simp
    all_goals (apply List.ext_getElem <;> simp)

namespace C09ExtExamples

/-- `Cd_3 C_1 N_2` on a fermion chain: one JW on site 2 (from `Cd_3`), on site 1 the order `JW` (of `Cd_3`) before
`C` matters; even number of fermionic entries, no string to the left -/
def term1 : List FEntry := [⟨"Cd", 3, true⟩, ⟨"C", 1, true⟩, ⟨"N", 2, false⟩]
example : termCore term1 (some false) = some ([["JW", "C"], ["JW", "N"], ["Cd"]], 1, false) := by decide
example : siteFactors term1 0 = ["JW", "JW"] ∧ siteFactors term1 4 = [] := by decide
/-- a single `Cd_2`, `JW_from_right=None`: odd, so a string from the right is added and reported -/
example : termCore [⟨"Cd", 2, true⟩] none = some ([["Cd", "JW"]], 2, true) := by decide
example : validSite 4 false (-1) = some 3 ∧ validSite 4 false 4 = none ∧ validSite 4 true (-5) = some 3 := by decide
example : applyLocalTermPlan [["C", "Cd"], ["C", "Cd"], ["C", "Cd"]] false [true, true, true] [⟨"Cd", ["Cd"], 1⟩] true 1 =
    .ok ⟨some 2, [(2, ["Cd"])]⟩ := by decide
example : applyLocalTermPlan [["C", "Cd"], ["C", "Cd"]] true [true, true] [⟨"Cd", ["Cd"], 1⟩] true 0 =
    .error .valueError := by decide

end C09ExtExamples
