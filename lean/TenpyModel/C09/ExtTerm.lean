/-!
# C09 extension: `MPS._term_to_ops_list` and the glue of `MPS.apply_local_term`

`tenpy/networks/mps.py`:

```
def _term_to_ops_list(self, term, autoJW=True, i_offset=0, JW_from_right=False):
    assert not (JW_from_right and not autoJW)
    term = list(term)
    i_min = min([t[1] for t in term]); i_max = max([t[1] for t in term])
    ops = [[] for i in range(i_max - i_min + 1)]
    count_JW = 0
    for op, i in term:
        j = i - i_min
        ops[j].append(op)
        if autoJW and self.sites[self._to_valid_site_index(i + i_offset)].op_needs_JW(op):
            count_JW += 1
            for k in range(j): ops[k].append('JW')
    if JW_from_right is None:
        JW_from_right = count_JW % 2 == 1
        if JW_from_right: count_JW -= 1
    if JW_from_right:
        count_JW += 1
        for op_i in ops: op_i.append('JW')
    for j in range(len(ops)):
        ops[j] = self.get_site(j + i_min + i_offset).multiply_operators(ops[j])
    return ops, i_min + i_offset, (count_JW % 2 == 1)
```

and `apply_local_term` (JW string on the left virtual leg of site `i_min` when `has_extra_JW`, refused on
infinite bc; then `set_B(i, op·B[i])` site by site).  Operator names are kept symbolic: what `multiply_operators`
receives is the list of names, the product of matrices is `Site.multiply_operators` (C10 territory).
-/

namespace TenpyModel.C09.Ext

/-- `MPSGeometry._to_valid_site_index` (`none` = `ValueError`); `inf = false` covers finite and segment bc. -/
def validSite (L : Nat) (inf : Bool) (i : Int) : Option Nat :=
  if L = 0 then none
  else
    let q := i / (L : Int)
    let r := (i % (L : Int)).toNat
    if inf then some r
    else if q = 0 ∨ q = -1 then some r   -- negative indices -L..-1 only raise a FutureWarning
    else none

/-- `Site.op_needs_JW(name)`: parity of the factors of `name.split()` listed in `need_JW_string` -/
def opNeedsJW (needJW : List String) (parts : List String) : Bool :=
  parts.foldl (fun b n => Bool.xor b (needJW.contains n)) false

/-- an entry `(op, i)` of a term with the answer of `op_needs_JW` (only consulted when `autoJW`) -/
structure FEntry where
  op : String
  i : Int
  jw : Bool
deriving DecidableEq, Repr

/-- what one entry contributes to slot `k` (site `k + i_min`): itself on its own slot, `'JW'` on the slots to
its left when it is fermionic -/
def expandAt (iMin : Int) (e : FEntry) (k : Nat) : List String :=
  if k = (e.i - iMin).toNat then [e.op] else if e.jw && decide (k < (e.i - iMin).toNat) then ["JW"] else []

/-- one pass of the `for op, i in term` loop: `ops[j].append(op)`, `ops[k].append('JW')` for `k < j` -/
def placeStep (iMin : Int) (st : List (List String) × Nat) (e : FEntry) : List (List String) × Nat :=
  (st.1.mapIdx (fun k o => o ++ expandAt iMin e k), if e.jw then st.2 + 1 else st.2)

def placeOps (iMin : Int) (n : Nat) (term : List FEntry) : List (List String) × Nat :=
  term.foldl (placeStep iMin) (List.replicate n [], 0)

def minIdx (i0 : Int) (term : List FEntry) : Int := term.foldl (fun m e => min m e.i) i0
def maxIdx (i0 : Int) (term : List FEntry) : Int := term.foldl (fun m e => max m e.i) i0

/-- the value `JW_from_right` has after the `if JW_from_right is None` block -/
def fromRightOf (jwRight : Option Bool) (cnt : Nat) : Bool :=
  match jwRight with
  | none => cnt % 2 == 1
  | some b => b

/-- `count_JW % 2 == 1` at the `return` -/
def extraOf (jwRight : Option Bool) (cnt : Nat) : Bool :=
  let cnt' : Nat := match jwRight with
    | none => if cnt % 2 == 1 then cnt - 1 else cnt
    | some _ => cnt
  (if fromRightOf jwRight cnt then cnt' + 1 else cnt') % 2 == 1

/-- the pure core of `_term_to_ops_list` after the `op_needs_JW` look-ups: `(ops, i_min, has_extra_JW)`;
`jwRight = none` is `JW_from_right=None`. -/
def termCore (term : List FEntry) (jwRight : Option Bool) : Option (List (List String) × Int × Bool) :=
  match term with
  | [] => none                                 -- min([]) raises ValueError
  | e0 :: _ =>
    let iMin := minIdx e0.i term
    let iMax := maxIdx e0.i term
    let st := placeOps iMin ((iMax - iMin).toNat + 1) term
    some (if fromRightOf jwRight st.2 then st.1.map (· ++ ["JW"]) else st.1, iMin, extraOf jwRight st.2)

/-- a raw entry: name, its `split()` parts, index -/
structure REntry where
  op : String
  parts : List String
  i : Int
deriving Repr

inductive TermErr | assertion | valueError | indexError
deriving DecidableEq, Repr

/-- look-ups of the loop: `self.sites[self._to_valid_site_index(i + i_offset)].op_needs_JW(op)` when `autoJW` -/
def flagEntries (sitesJW : List (List String)) (inf : Bool) (autoJW : Bool) (off : Int) :
    List REntry → Except TermErr (List FEntry)
  | [] => .ok []
  | e :: rest =>
    if autoJW then
      match validSite sitesJW.length inf (e.i + off) with
      | none => .error .valueError
      | some k =>
        if e.parts.isEmpty then .error .indexError      -- ''.split()[0]
        else
          match flagEntries sitesJW inf autoJW off rest with
          | .error x => .error x
          | .ok fs => .ok (⟨e.op, e.i, opNeedsJW (sitesJW.getD k []) e.parts⟩ :: fs)
    else
      match flagEntries sitesJW inf autoJW off rest with
      | .error x => .error x
      | .ok fs => .ok (⟨e.op, e.i, false⟩ :: fs)

/-- all slots `j` must be sites: `self.get_site(j + i_min + i_offset)` -/
def slotsValid (L : Nat) (inf : Bool) (start : Int) (n : Nat) : Bool :=
  (List.range n).all (fun j => (validSite L inf (start + j)).isSome)

/-- `_term_to_ops_list(term, autoJW, i_offset, JW_from_right)`: `(name lists per slot, i_min + i_offset,
has_extra_JW)` -/
def termToOps (sitesJW : List (List String)) (inf : Bool) (term : List REntry) (autoJW : Bool) (off : Int)
    (jwRight : Option Bool) : Except TermErr (List (List String) × Int × Bool) :=
  if jwRight = some true ∧ autoJW = false then .error .assertion
  else if term.isEmpty then .error .valueError
  else
    match flagEntries sitesJW inf autoJW off term with
    | .error x => .error x
    | .ok fs =>
      match termCore fs jwRight with
      | none => .error .valueError
      | some (ops, iMin, extra) =>
        if slotsValid sitesJW.length inf (iMin + off) ops.length then .ok (ops, iMin + off, extra)
        else .error .valueError

/-- what `apply_local_term` does: optional JW string on the left leg of a site, then `set_B` on sites -/
structure TermPlan where
  jwLeftOf : Option Nat
  steps : List (Nat × List String)
deriving DecidableEq, Repr

/-- `charge_to_JW_signs` of the site left of which the string is applied works (`charge_to_JW_parity` defined) -/
def jwSiteOK (canJW : List Bool) (L : Nat) (inf : Bool) (iMin : Int) : Bool :=
  match validSite L inf iMin with
  | some k => canJW.getD k false
  | none => false

def applyLocalTermPlan (sitesJW : List (List String)) (inf : Bool) (canJW : List Bool) (term : List REntry)
    (autoJW : Bool) (off : Int) : Except TermErr TermPlan :=
  match termToOps sitesJW inf term autoJW off (some false) with
  | .error x => .error x
  | .ok (ops, iMin, extra) =>
    if extra && inf then .error .valueError   -- 'open JW string ending in each unit cell ...'
    else if extra && !jwSiteOK canJW sitesJW.length inf iMin then .error .valueError   -- "can't extract JW signs .."
    else
      let L := sitesJW.length
      let jw : Option Nat := if extra then validSite L inf iMin else none
      .ok ⟨jw, ops.mapIdx (fun j o => ((validSite L inf (iMin + j)).getD 0, o))⟩

end TenpyModel.C09.Ext
