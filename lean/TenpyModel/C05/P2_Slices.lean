import TenpyModel.C05.AssembleProofs
import Mathlib.Tactic.Linarith
/-!
C05 / Props2 helpers, part 1: slices ↔ block sizes, `splitAtSizes`, `maskSet`, counting.
-/
namespace TenpyModel.C05.P2
open TenpyModel.Core TenpyModel.C05

/-- offset of block `k`: sum of the first `k` sizes -/
def off (sizes : List Nat) (k : Nat) : Nat := (sizes.take k).sum

@[simp] theorem off_zero (sizes : List Nat) : off sizes 0 = 0 := by simp [off]

theorem off_cons_succ (s : Nat) (ss : List Nat) (k : Nat) : off (s :: ss) (k + 1) = s + off ss k := by
  simp [off]

theorem off_succ (sizes : List Nat) (k : Nat) (hk : k < sizes.length) :
    off sizes (k + 1) = off sizes k + sizes.getD k 0 := by
  induction sizes generalizing k with
  | nil => simp at hk
  | cons s ss ih =>
    cases k with
    | zero => simp [off]
    | succ k =>
      rw [off_cons_succ, off_cons_succ, ih k (by simpa using hk)]
      simp [Nat.add_assoc]

theorem off_mono (sizes : List Nat) {j k : Nat} (h : j ≤ k) : off sizes j ≤ off sizes k := by
  induction sizes generalizing j k with
  | nil => simp [off]
  | cons s ss ih =>
    cases k with
    | zero => have : j = 0 := by omega
              subst this; exact Nat.le_refl _
    | succ k =>
      cases j with
      | zero => simp [off]
      | succ j => rw [off_cons_succ, off_cons_succ]; have := ih (j := j) (k := k) (by omega); omega

theorem off_length (sizes : List Nat) : off sizes sizes.length = sizes.sum := by simp [off]

/-- block `j` ends before block `k` starts, `j < k` -/
theorem off_succ_le (sizes : List Nat) {j k : Nat} (h : j < k) (hj : j < sizes.length) :
    off sizes j + sizes.getD j 0 ≤ off sizes k := by
  rw [← off_succ sizes j hj]; exact off_mono sizes h

theorem cumsum_go_getElem? (acc : Nat) (l : List Nat) (k : Nat) :
    (cumsum.go acc l)[k]? = if k < l.length then some (acc + (l.take (k + 1)).sum) else none := by
  induction l generalizing acc k with
  | nil => simp [cumsum.go]
  | cons x xs ih =>
    cases k with
    | zero => simp [cumsum.go]
    | succ k =>
      simp only [cumsum.go, List.getElem?_cons_succ, ih, List.length_cons, Nat.add_lt_add_iff_right,
        List.take_succ_cons, List.sum_cons]
      split <;> simp [Nat.add_assoc]

theorem cumsum_go_length (acc : Nat) (l : List Nat) : (cumsum.go acc l).length = l.length := by
  induction l generalizing acc with
  | nil => rfl
  | cons x xs ih => simp [cumsum.go, ih]

theorem slicesOfSizes_length (sizes : List Nat) : (slicesOfSizes sizes).length = sizes.length + 1 := by
  simp [slicesOfSizes, cumsum, cumsum_go_length]

theorem slicesOfSizes_getElem? (sizes : List Nat) (k : Nat) :
    (slicesOfSizes sizes)[k]? = if k ≤ sizes.length then some (off sizes k) else none := by
  cases k with
  | zero => simp [slicesOfSizes]
  | succ k =>
    simp only [slicesOfSizes, cumsum, List.getElem?_cons_succ, cumsum_go_getElem?, off, Nat.zero_add]
    by_cases h : k < sizes.length
    · simp [h, Nat.succ_le_of_lt h]
    · have : ¬ (k + 1 ≤ sizes.length) := by omega
      simp [h, this]

theorem slicesOfSizes_getD (sizes : List Nat) (k : Nat) (hk : k ≤ sizes.length) :
    (slicesOfSizes sizes).getD k 0 = off sizes k := by
  simp [List.getD_eq_getElem?_getD, slicesOfSizes_getElem?, hk]

theorem sizesOfSlices_slicesOfSizes (sizes : List Nat) : sizesOfSlices (slicesOfSizes sizes) = sizes := by
  apply List.ext_getElem?
  intro k
  simp only [sizesOfSlices, List.getElem?_zipWith]
  have htail : (slicesOfSizes sizes).tail[k]? = (slicesOfSizes sizes)[k + 1]? := by
    simp [slicesOfSizes]
  rw [htail, slicesOfSizes_getElem?, slicesOfSizes_getElem?]
  by_cases h : k < sizes.length
  · have h1 : k + 1 ≤ sizes.length := h
    have h2 : k ≤ sizes.length := by omega
    simp only [h1, h2, ↓reduceIte, off_succ sizes k h]
    simp [List.getD_eq_getElem?_getD, List.getElem?_eq_getElem h]
  · have h1 : ¬ (k + 1 ≤ sizes.length) := by omega
    simp [h1, List.getElem?_eq_none (by omega : sizes.length ≤ k)]

theorem slicesOfSizes_getLastD (sizes : List Nat) : (slicesOfSizes sizes).getLastD 0 = sizes.sum := by
  have hne : slicesOfSizes sizes ≠ [] := by simp [slicesOfSizes]
  rw [List.getLastD_eq_getLast?, List.getLast?_eq_getElem?, slicesOfSizes_length]
  simp [slicesOfSizes_getElem?, off_length]

/-! ### `splitAtSizes` -/

theorem splitAtSizes_length {β : Type} (sizes : List Nat) (xs : List β) :
    (Leg.splitAtSizes sizes xs).length = sizes.length := by
  induction sizes generalizing xs with
  | nil => rfl
  | cons s ss ih => simp [Leg.splitAtSizes, ih]

theorem splitAtSizes_getElem? {β : Type} (sizes : List Nat) (xs : List β) (k : Nat) (hk : k < sizes.length) :
    (Leg.splitAtSizes sizes xs)[k]? = some ((xs.drop (off sizes k)).take (sizes.getD k 0)) := by
  induction sizes generalizing xs k with
  | nil => simp at hk
  | cons s ss ih =>
    cases k with
    | zero => simp [Leg.splitAtSizes]
    | succ k =>
      simp only [Leg.splitAtSizes, List.getElem?_cons_succ]
      rw [ih (xs.drop s) k (by simpa using hk), off_cons_succ, List.drop_drop]
      simp [List.getD_eq_getElem?_getD]

/-! ### `maskSet` and the fold over the factorized blocks -/

theorem maskSet_length (m : List Bool) (b n : Nat) : (maskSet m b n).length = m.length := by
  simp [maskSet]

theorem maskSet_getElem? (m : List Bool) (b n i : Nat) :
    (maskSet m b n)[i]? = m[i]?.map (fun x => x || (decide (b ≤ i) && decide (i < b + n))) := by
  simp only [maskSet, List.getElem?_map, List.getElem?_zipIdx]
  cases m[i]? <;> simp

theorem foldl_maskSet_length {γ : Type} (l : List γ) (bf nf : γ → Nat) (m : List Bool) :
    (l.foldl (fun m t => maskSet m (bf t) (nf t)) m).length = m.length := by
  induction l generalizing m with
  | nil => rfl
  | cons t l ih => simp [ih, maskSet_length]

theorem foldl_maskSet_getElem? {γ : Type} (l : List γ) (bf nf : γ → Nat) (m : List Bool) (i : Nat) :
    (l.foldl (fun m t => maskSet m (bf t) (nf t)) m)[i]?
      = m[i]?.map (fun x => x || l.any (fun t => decide (bf t ≤ i) && decide (i < bf t + nf t))) := by
  induction l generalizing m with
  | nil => cases h : m[i]? <;> simp [h]
  | cons t l ih =>
    simp only [List.foldl_cons, ih, maskSet_getElem?, List.any_cons]
    cases h : m[i]? <;> simp [Bool.or_assoc]

/-- a list of booleans which is `true` exactly on a prefix of length `w` -/
theorem count_prefix (bm : List Bool) (w : Nat) (hw : w ≤ bm.length)
    (h : ∀ j, j < bm.length → bm[j]? = some (decide (j < w))) : bm.count true = w := by
  have : bm = List.replicate w true ++ List.replicate (bm.length - w) false := by
    apply List.ext_getElem?
    intro j
    by_cases hj : j < bm.length
    · rw [h j hj]
      by_cases hjw : j < w
      · rw [List.getElem?_append_left (by simpa using hjw)]
        simp [hjw]
      · rw [List.getElem?_append_right (by simpa using hjw)]
        simp only [List.length_replicate, hjw, decide_false]
        rw [List.getElem?_replicate]
        have : j - w < bm.length - w := by omega
        simp [this]
    · rw [List.getElem?_eq_none (by omega)]
      rw [List.getElem?_eq_none (by simp; omega)]
  rw [this]
  simp [List.count_append, List.count_replicate]

theorem cumsum_go_sizesOfSlices (x : Nat) (xs : List Nat) (h : (x :: xs).Pairwise (· ≤ ·)) :
    cumsum.go x (sizesOfSlices (x :: xs)) = xs := by
  induction xs generalizing x with
  | nil => simp [sizesOfSlices, cumsum.go]
  | cons y ys ih =>
    have hp := List.pairwise_cons.mp h
    have hxy : x ≤ y := hp.1 y List.mem_cons_self
    have : sizesOfSlices (x :: y :: ys) = (y - x) :: sizesOfSlices (y :: ys) := by
      simp [sizesOfSlices]
    rw [this]
    simp only [cumsum.go]
    have e : x + (y - x) = y := by omega
    rw [e, ih y hp.2]

/-- slices that start at 0 and ascend are the cumulative sums of their block sizes -/
theorem slices_of_ascending (sl : List Nat) (h0 : sl.head? = some 0) (hs : sl.Pairwise (· ≤ ·)) :
    sl = slicesOfSizes (sizesOfSlices sl) := by
  cases sl with
  | nil => simp at h0
  | cons x xs =>
    simp only [List.head?_cons, Option.some.injEq] at h0
    subst h0
    simp only [slicesOfSizes, cumsum]
    rw [cumsum_go_sizesOfSlices 0 xs hs]

end TenpyModel.C05.P2
