import TenpyModel.C05.ChargeProofs
/-!
C05, charge bookkeeping theorems (for ALL charge structures: any number of charges, any moduli, any legs).

The per-block routine `F` and the cutoff predicate are arbitrary: the statements below depend only on WHICH
blocks are kept, never on the numbers.
-/
open TenpyModel.Core TenpyModel.C05

namespace TenpyModel.C05

/-- what `Array.test_sanity` guarantees about charges (see `C05_sane_chargeWF`) -/
structure ChargeWF {α : Type} (a : BMat α) : Prop where
  mods1 : a.leg1.mods = a.leg0.mods
  len0 : ∀ q, (a.leg0.charges.getD q []).length = a.leg0.mods.length ∨ a.leg0.charges.length ≤ q
  len1 : ∀ q, (a.leg1.charges.getD q []).length = a.leg0.mods.length ∨ a.leg1.charges.length ≤ q
  inr0 : ∀ b ∈ a.blocks, b.qi < a.leg0.charges.length
  inr1 : ∀ b ∈ a.blocks, b.qj < a.leg1.charges.length
  rule : ∀ b ∈ a.blocks, a.blockCharge b.qi b.qj = a.qtotal

theorem getCharge_length {α : Type} {a : BMat α} (w : ChargeWF a) {b : Blk α} (hb : b ∈ a.blocks) :
    (a.leg0.getCharge b.qi).length = a.leg0.mods.length ∧ (a.leg1.getCharge b.qj).length = a.leg0.mods.length := by
  constructor
  · rcases w.len0 b.qi with h | h
    · simpa [Leg.getCharge, cscale] using h
    · exact absurd (w.inr0 b hb) (by omega)
  · rcases w.len1 b.qj with h | h
    · simpa [Leg.getCharge, cscale] using h
    · exact absurd (w.inr1 b hb) (by omega)

/-- vector form of `mv1_gauge` -/
theorem vec_gauge (mods : List Nat) (s : Int) (y T : Charge) (hs : s = 1 ∨ s = -1)
    (hy : y.length = mods.length) (hT : T.length = mods.length) :
    makeValid mods (cadd (cscale s (makeValid mods (cscale s (csub T y)))) y) = makeValid mods T := by
  refine makeValid_ext _ _ _ (by simp [hy, hT]) hT (fun i hi => ?_)
  simp only [cadd, cscale, csub, cneg, makeValid, List.getElem_zipWith, List.getElem_map]
  exact mv1_gauge _ _ _ _ hs

/-- vector form of `mv1_gauge_conj` -/
theorem vec_gauge_conj (mods : List Nat) (s : Int) (x y T : Charge) (hs : s = 1 ∨ s = -1)
    (hx : x.length = mods.length) (hy : y.length = mods.length) (hT : T.length = mods.length) :
    makeValid mods (cadd x (cscale (-s) (makeValid mods (cscale s (csub T y)))))
      = makeValid mods (csub (cadd x y) T) := by
  refine makeValid_ext _ _ _ (by simp [hx, hy, hT]) (by simp [hx, hy, hT]) (fun i hi => ?_)
  simp only [cadd, cscale, csub, cneg, makeValid, List.getElem_zipWith, List.getElem_map]
  exact mv1_gauge_conj _ _ _ _ _ hs

/-- `make_valid(make_valid(x) - T) = make_valid(x - T)` -/
theorem vec_sub_valid (mods : List Nat) (x T : Charge) (hx : x.length = mods.length) (hT : T.length = mods.length) :
    makeValid mods (csub (makeValid mods x) T) = makeValid mods (csub x T) := by
  refine makeValid_ext _ _ _ (by simp [hx, hT]) (by simp [hx, hT]) (fun i hi => ?_)
  simp only [cadd, csub, cneg, makeValid, List.getElem_zipWith, List.getElem_map]
  exact mv1_add_left _ _ _

theorem mem_svdKept {α : Type} [Zero α] {a : BMat α} {F : Nat → Blk α → SvdFac α} {c : Bool} {keepP : α → Bool}
    {t : Blk α × Nat × SvdFac α} (h : t ∈ svdKept a F c keepP) : t.1 ∈ a.blocks := by
  simp only [svdKept, List.mem_filter, List.mem_map] at h
  obtain ⟨⟨bi, hbi, rfl⟩, _⟩ := h
  exact List.fst_mem_of_mem_zipIdx hbi

end TenpyModel.C05

/-- **Requested total charges.** Whatever `qtotal_LR` is requested (both `None`, one `None`, or both given and
consistent), the charges `(qL, qR)` that `svd` hands to the worker add up to `a.qtotal`, and an inconsistent request is
rejected. -/
theorem C05_svd_qtotal_LR (mods : List Nat) (qtotal : Charge) (oL oR : Option Charge) (qL qR : Charge)
    (hq : makeValid mods qtotal = qtotal) (hlen : qtotal.length = mods.length)
    (hL : ∀ l, oL = some l → l.length = mods.length) (hR : ∀ r, oR = some r → r.length = mods.length)
    (h : svdQtotalLR mods qtotal oL oR = .ok (qL, qR)) :
    makeValid mods (cadd qL qR) = qtotal ∧ qL.length = mods.length ∧ qR.length = mods.length
      ∧ (∀ l, oL = some l → qL = l) ∧ (∀ r, oR = some r → qR = r) := by
  have key : ∀ (x T : Charge), x.length = mods.length → T.length = mods.length →
      makeValid mods (cadd (makeValid mods (csub x T)) T) = makeValid mods x := by
    intro x T hx hT
    refine makeValid_ext _ _ _ (by simp [hx, hT]) hx (fun i hi => ?_)
    simp only [cadd, csub, cneg, makeValid, List.getElem_zipWith, List.getElem_map]
    rw [mv1_add_left]; congr 1; omega
  cases oL with
  | none =>
    cases oR with
    | none =>
      simp only [svdQtotalLR, Except.ok.injEq, Prod.mk.injEq] at h
      obtain ⟨h1, h2⟩ := h
      subst h2 h1
      refine ⟨?_, by simp [hlen], hlen, by simp, by simp⟩
      rw [key qtotal qtotal hlen hlen, hq]
    | some r =>
      simp only [svdQtotalLR, Except.ok.injEq, Prod.mk.injEq] at h
      obtain ⟨h1, h2⟩ := h
      subst h2 h1
      have hr := hR r rfl
      refine ⟨?_, by simp [hlen, hr], hr, by simp, by simp⟩
      rw [key qtotal r hlen hr, hq]
  | some l =>
    cases oR with
    | none =>
      simp only [svdQtotalLR, Except.ok.injEq, Prod.mk.injEq] at h
      obtain ⟨h1, h2⟩ := h
      subst h1 h2
      have hl := hL l rfl
      refine ⟨?_, hl, by simp [hlen, hl], by simp, by simp⟩
      have : cadd l (makeValid mods (csub qtotal l)) = cadd (makeValid mods (csub qtotal l)) l := by
        simp only [cadd]
        apply List.ext_getElem
        · simp
        · intro i h1 h2; simp [Int.add_comm]
      rw [this, key qtotal l hlen hl, hq]
    | some r =>
      simp only [svdQtotalLR] at h
      split at h
      · cases h
      · rename_i hne
        simp only [Except.ok.injEq, Prod.mk.injEq] at h
        obtain ⟨h1, h2⟩ := h
        subst h1 h2
        refine ⟨?_, hL _ rfl, hR _ rfl, by simp, by simp⟩
        exact (not_not.mp hne).symm

/-- **Charge rule and inner leg of the reduced SVD** (`full_matrices = False`), for every charge structure, every
requested `qtotal_R`, either `inner_qconj`, any cutoff and any per-block routine:
every stored block of `VH` has charge `make_valid(qR)`, every stored block of `U` has charge
`make_valid(a.qtotal - qR)`; `U.legs[1]` is contractible with `VH.legs[0]`, which has direction `inner_qconj`;
the outer legs are those of `a`. -/
theorem C05_svd_charge_rule {α : Type} [Zero α] (a : BMat α) (F : Nat → Blk α → SvdFac α) (keepP : α → Bool)
    (o : SvdOpts) (qL qR : Charge) (r : SvdOut α)
    (w : ChargeWF a) (hfull : o.full = false) (hiq : o.innerQconj = 1 ∨ o.innerQconj = -1)
    (hR : qR.length = a.leg0.mods.length) (hqt : a.qtotal.length = a.leg0.mods.length)
    (h : svdWorker a F keepP o qL qR = .ok r) :
    (∀ b ∈ r.vh.blocks, r.vh.blockCharge b.qi b.qj = makeValid a.leg0.mods qR)
    ∧ (∀ b ∈ r.u.blocks, r.u.blockCharge b.qi b.qj = makeValid a.leg0.mods (csub a.qtotal qR))
    ∧ r.u.qtotal = makeValid a.leg0.mods qL ∧ r.vh.qtotal = makeValid a.leg0.mods qR
    ∧ r.u.leg1.testContractible r.vh.leg0 = true ∧ r.vh.leg0.qconj = o.innerQconj
    ∧ r.u.leg0 = a.leg0 ∧ r.vh.leg1 = a.leg1 := by
  simp only [svdWorker, hfull] at h
  split at h
  · cases h
  · simp only [Bool.false_eq_true, ↓reduceIte, Except.ok.injEq] at h
    subst h
    refine ⟨?_, ?_, rfl, rfl, ?_, rfl, rfl, rfl⟩
    · -- VH
      intro b hb
      simp only [List.mem_map] at hb
      obtain ⟨tk, htk, rfl⟩ := hb
      have hget := List.mem_zipIdx_iff_getElem?.mp htk
      have hmem : tk.1 ∈ svdKept a F o.cutoff keepP := List.fst_mem_of_mem_zipIdx htk
      have hblk := mem_svdKept hmem
      have hl := getCharge_length w hblk
      simp only [BMat.blockCharge, Leg.fromQind, Leg.mk', Leg.getCharge]
      have hc : (List.map (fun t => svdNewCharge a.leg0.mods a.leg1 qR o.innerQconj t.1.qj)
          (svdKept a F o.cutoff keepP)).getD tk.2 [] = svdNewCharge a.leg0.mods a.leg1 qR o.innerQconj tk.1.1.qj := by
        simp [List.getD_eq_getElem?_getD, hget]
      rw [hc]
      exact vec_gauge _ _ _ _ hiq hl.2 hR
    · -- U
      intro b hb
      simp only [List.mem_map] at hb
      obtain ⟨tk, htk, rfl⟩ := hb
      have hget := List.mem_zipIdx_iff_getElem?.mp htk
      have hmem : tk.1 ∈ svdKept a F o.cutoff keepP := List.fst_mem_of_mem_zipIdx htk
      have hblk := mem_svdKept hmem
      have hl := getCharge_length w hblk
      simp only [BMat.blockCharge, Leg.fromQind, Leg.mk', Leg.getCharge, Leg.conj]
      have hc : (List.map (fun t => svdNewCharge a.leg0.mods a.leg1 qR o.innerQconj t.1.qj)
          (svdKept a F o.cutoff keepP)).getD tk.2 [] = svdNewCharge a.leg0.mods a.leg1 qR o.innerQconj tk.1.1.qj := by
        simp [List.getD_eq_getElem?_getD, hget]
      rw [hc]
      have hrule := w.rule _ hblk
      simp only [BMat.blockCharge] at hrule
      have := vec_gauge_conj a.leg0.mods o.innerQconj (a.leg0.getCharge tk.1.1.qi) (a.leg1.getCharge tk.1.1.qj) qR
        hiq hl.1 hl.2 hR
      simp only [svdNewCharge, Leg.getCharge] at this ⊢
      have hl' := hl
      simp only [Leg.getCharge, length_cscale] at hl
      rw [this, ← hrule, vec_sub_valid _ _ _ (by simp only [length_cadd]; omega) hR]
      simp [Leg.getCharge]
    · -- contractible
      simp [Leg.testContractible, Leg.testEqual, Leg.eq?, Leg.conj]

/-- The total charges of the two factors add up to the total charge of `a`: with `C05_svd_qtotal_LR`, the block charge
`make_valid(a.qtotal - qR)` of `U` IS the requested `make_valid(qL)`. -/
theorem C05_svd_qtotal_sum (mods : List Nat) (qtotal qL qR : Charge)
    (hL : qL.length = mods.length) (hR : qR.length = mods.length)
    (hsum : makeValid mods (cadd qL qR) = qtotal) :
    makeValid mods (csub qtotal qR) = makeValid mods qL := by
  subst hsum
  rw [vec_sub_valid _ _ _ (by simp [hL, hR]) hR]
  refine makeValid_ext _ _ _ (by simp [hL, hR]) hL (fun i hi => ?_)
  simp only [cadd, csub, cneg, List.getElem_zipWith, List.getElem_map]
  congr 1; omega

namespace TenpyModel.C05
theorem vec_sub_valid_right (mods : List Nat) (x T : Charge) (hx : x.length = mods.length) (hT : T.length = mods.length) :
    makeValid mods (csub x (makeValid mods T)) = makeValid mods (csub x T) := by
  refine makeValid_ext _ _ _ (by simp [hx, hT]) (by simp [hx, hT]) (fun i hi => ?_)
  simp only [cadd, csub, cneg, makeValid, List.getElem_zipWith, List.getElem_map]
  exact ceq_of_norm (by ceq_strip) (by ceq_strip) rfl
end TenpyModel.C05

/-- **Inner leg of QR/LQ** (`mode` reduced or complete, any `qtotal_Q`, either `inner_qconj`, ANY projection mask, i.e.
any ranks of the blocks and any cutoff): for a sector `qi` of `a.legs[0]` that is mapped to block `k` of the inner leg
(`k = map_qind[qi]`, or `k = qi` in complete mode),
* the block `(qi, k)` of `Q` has charge `make_valid(qtotal_Q)` (`0` if `None`);
* a block `(k, qj)` of `R` has charge `make_valid(charge of the block (qi, qj) of a − qtotal_Q)`, which is
  `R.qtotal = make_valid(a.qtotal − Q.qtotal)` whenever `(qi, qj)` obeys the charge rule of `a`;
* `R.legs[0].qconj = inner_qconj` and `Q.legs[1]` is contractible with `R.legs[0]`. -/
theorem C05_qr_inner_leg (leg0 : Leg) (mask : List Bool) (o : QrOpts) (qi k : Nat)
    (h0 : leg0.qconj = 1 ∨ leg0.qconj = -1) (hiq : o.innerQconj = 1 ∨ o.innerQconj = -1)
    (hqi : qi < leg0.charges.length) (hlen : (leg0.charges.getD qi []).length = leg0.mods.length)
    (hq : ∀ q, o.qtotalQ = some q → q.length = leg0.mods.length)
    (hk : if o.complete then k = qi else (qrInner leg0 mask o).1.getD qi (-1) = (k : Int)) :
    let inner := (qrInner leg0 mask o).2
    let qtotQ := makeValid leg0.mods ((o.qtotalQ.map (makeValid leg0.mods)).getD (czero leg0.mods.length))
    makeValid leg0.mods (cadd (leg0.getCharge qi) (inner.conj.getCharge k)) = qtotQ
    ∧ (∀ x1 : Charge, x1.length = leg0.mods.length →
        makeValid leg0.mods (cadd (inner.getCharge k) x1)
          = makeValid leg0.mods (csub (makeValid leg0.mods (cadd (leg0.getCharge qi) x1)) qtotQ))
    ∧ inner.qconj = o.innerQconj ∧ inner.conj.testContractible inner = true ∧ inner.mods = leg0.mods := by
  intro inner qtotQ
  obtain ⟨hch, hqc, hmods⟩ := qrInner_charge leg0 mask o qi k hqi hk
  have hqc := hqc h0 hiq
  have hq' : ∀ q, o.qtotalQ.map (makeValid leg0.mods) = some q → q.length = leg0.mods.length := by
    intro q hqq
    cases hQ : o.qtotalQ with
    | none => simp [hQ] at hqq
    | some q0 => simp only [hQ, Option.map_some, Option.some.injEq] at hqq; subst hqq; simp [hq q0 hQ]
  have hzl : ((o.qtotalQ.map (makeValid leg0.mods)).getD (czero leg0.mods.length)).length = leg0.mods.length := by
    cases hQ : o.qtotalQ with
    | none => simp [czero]
    | some q0 => simp [hq q0 hQ]
  refine ⟨?_, ?_, hqc, ?_, hmods⟩
  · show makeValid leg0.mods (cadd (leg0.getCharge qi) (inner.conj.getCharge k)) = qtotQ
    simp only [Leg.getCharge, Leg.conj, inner, hch, hqc]
    exact qrGauge_Q _ _ _ _ _ h0 hiq hlen hq'
  · intro x1 hx1
    simp only [Leg.getCharge, inner, hch, hqc, qtotQ]
    have hl2 : (cadd (cscale leg0.qconj (leg0.charges.getD qi [])) x1).length = leg0.mods.length := by
      simp only [length_cadd, length_cscale, hlen, hx1, Nat.min_self]
    rw [qrGauge_R _ _ _ _ _ _ h0 hiq hlen hx1 hq', vec_sub_valid _ _ _ hl2 (by simp [hzl]),
      vec_sub_valid_right _ _ _ hl2 hzl]
  · simp [Leg.testContractible, Leg.testEqual, Leg.eq?, Leg.conj]

/-- **Diagonal blocks on `(leg, leg.conj())`** carry charge 0: this is why `V` of `eigh/eig`, the result of `expm`, and
the factors of the full SVD have (true) total charge 0. -/
theorem C05_diag_block_charge (l : Leg) (k : Nat) (hlen : (l.charges.getD k []).length = l.mods.length) :
    makeValid l.mods (cadd (l.getCharge k) (l.conj.getCharge k)) = makeValid l.mods (czero l.mods.length) := by
  refine makeValid_ext _ _ _ (by simp only [Leg.getCharge, Leg.conj, length_cadd, length_cscale, hlen, Nat.min_self])
    (by simp [czero]) (fun i hi => ?_)
  simp only [Leg.getCharge, Leg.conj, cadd, cscale, czero, List.getElem_zipWith, List.getElem_map,
    List.getElem_replicate]
  congr 1; ring

/-- **Right leg of `orthogonal_columns`**: with `right_charges = make_valid(right_qconj * (a.qtotal - left.get_charge(qi)))`
every block `(qi, k)` of `ortho` has the charge `a.qtotal`. -/
theorem C05_ortho_charge_rule (mods : List Nat) (rq : Int) (x0 qtotal : Charge) (hrq : rq = 1 ∨ rq = -1)
    (hx : x0.length = mods.length) (hq : qtotal.length = mods.length) (hv : makeValid mods qtotal = qtotal) :
    makeValid mods (cadd x0 (cscale rq (makeValid mods (cscale rq (csub qtotal x0))))) = qtotal := by
  have := vec_gauge mods rq x0 qtotal hrq hx hq
  rw [hv] at this
  refine Eq.trans ?_ this
  refine makeValid_ext _ _ _ (by simp [hx, hq]) (by simp [hx, hq]) (fun i hi => ?_)
  simp only [cadd, List.getElem_zipWith]
  rw [Int.add_comm]

/-- `Array.test_sanity` (model: `BMat.sane`) gives the hypotheses `ChargeWF` of the theorems above. -/
theorem C05_sane_chargeWF {α : Type} (a : BMat α) (h : a.sane = true) : ChargeWF a := by
  simp only [BMat.sane, Leg.sane, Bool.and_eq_true, List.all_eq_true, decide_eq_true_eq, beq_iff_eq,
    checkValid, and_assoc] at h
  obtain ⟨_, _, hc0, _, _, _, _, _, hc1, _, _, _, hm, _, _, hb⟩ := h
  have lenOf : ∀ (cs : List Charge) (mods : List Nat),
      (∀ x ∈ cs, x.length = mods.length ∧ ∀ y ∈ List.zipWith cv1 mods x, id y = true) →
      ∀ q, (cs.getD q []).length = mods.length ∨ cs.length ≤ q := by
    intro cs mods hcs q
    by_cases hq : q < cs.length
    · left
      rw [List.getD_eq_getElem?_getD, List.getElem?_eq_getElem hq]
      exact (hcs _ (List.getElem_mem hq)).1
    · right; omega
  refine ⟨hm.symm, lenOf _ _ hc0, ?_, ?_, ?_, ?_⟩
  · have := lenOf _ _ hc1
    rw [← hm] at this; exact this
  · intro b hb'; exact (hb b hb').1
  · intro b hb'; exact (hb b hb').2.1
  · intro b hb'; exact (hb b hb').2.2.2.2

/-! ### `full_matrices = True` -/

/-- **Full SVD, what holds**: the blocks of `U` (`VH`) sit on the diagonal of `(a.legs[0], a.legs[0].conj())`
(`(a.legs[1].conj(), a.legs[1])`) and therefore all carry charge 0 — the charge rule holds for `U` iff the requested
`qtotal_L` is 0, for `VH` iff `qtotal_R` is 0. -/
theorem C05_svd_full_partial {α : Type} [Zero α] (a : BMat α) (F : Nat → Blk α → SvdFac α) (keepP : α → Bool)
    (o : SvdOpts) (qL qR : Charge) (r : SvdOut α) (w : ChargeWF a) (hfull : o.full = true)
    (h : svdWorker a F keepP o qL qR = .ok r) :
    (∀ b ∈ r.u.blocks, r.u.blockCharge b.qi b.qj = makeValid a.leg0.mods (czero a.leg0.mods.length))
    ∧ (∀ b ∈ r.vh.blocks, r.vh.blockCharge b.qi b.qj = makeValid a.leg0.mods (czero a.leg0.mods.length))
    ∧ r.u.qtotal = makeValid a.leg0.mods qL ∧ r.vh.qtotal = makeValid a.leg0.mods qR := by
  simp only [svdWorker, hfull] at h
  split at h
  · cases h
  · simp only [↓reduceIte, Except.ok.injEq] at h
    subst h
    refine ⟨?_, ?_, rfl, rfl⟩
    · intro b hb
      simp only [List.mem_map] at hb
      obtain ⟨t, ht, rfl⟩ := hb
      have hl := getCharge_length w (mem_svdKept ht)
      simp only [BMat.blockCharge]
      simp only [Leg.getCharge, length_cscale] at hl
      exact C05_diag_block_charge a.leg0 t.1.qi hl.1
    · intro b hb
      simp only [List.mem_map] at hb
      obtain ⟨t, ht, rfl⟩ := hb
      have hl := getCharge_length w (mem_svdKept ht)
      simp only [BMat.blockCharge]
      simp only [Leg.getCharge, length_cscale] at hl
      have := C05_diag_block_charge a.leg1 t.1.qj (by rw [w.mods1]; exact hl.2)
      simp only [Leg.conj, Leg.getCharge, w.mods1] at this ⊢
      rw [← this]
      refine makeValid_ext _ _ _ ?_ ?_ (fun i hi => ?_)
      · simp only [length_cadd, length_cscale, hl.2, Nat.min_self]
      · simp only [length_cadd, length_cscale, hl.2, Nat.min_self]
      · simp only [cadd, cscale, List.getElem_zipWith, List.getElem_map]
        congr 1; ring

/-- witness: one U(1) charge, `a` = the `1 × 1` matrix `[[2]]` with total charge `-1`;
per-block factors `U = [[1]]`, `S = [2]`, `VH = [[1]]` -/
def cexChargeA : BMat Int :=
  { leg0 := { mods := [1], slices := [0, 1], charges := [[0]], qconj := 1, sorted := true, bunched := true },
    leg1 := { mods := [1], slices := [0, 1], charges := [[1]], qconj := -1, sorted := true, bunched := true },
    qtotal := [-1], blocks := [⟨0, 0, [[2]]⟩] }

def cexF : Nat → Blk Int → SvdFac Int := fun _ _ => ⟨[[1]], [2], [[1]]⟩

/-- **Full SVD, what fails (charges)**: the real code gives `VH` the requested total charge `qtotal_R = a.qtotal`
although its blocks have charge 0: for `a.qtotal ≠ 0` the charge rule is violated (`test_sanity` fails), while the
reduced SVD of the same matrix is fine. Replayed on the implementation as `corpus` case 1 of `harness/C05.py`. -/
theorem C05_svd_full_charge_counterexample :
    cexChargeA.sane = true ∧
    (match svdWorker cexChargeA cexF (fun _ => true) { full := true } [0] [-1] with
     | .ok r => r.vh.sane | .error _ => true) = false ∧
    (match svdWorker cexChargeA cexF (fun _ => true) { full := false } [0] [-1] with
     | .ok r => r.vh.sane && r.u.sane | .error _ => false) = true := by
  decide

/-- non-vacuity of `C05_svd_charge_rule` / `C05_sane_chargeWF`: a matrix over `Z_3 × U(1)` with two stored blocks, a
sector present on one side only, requested `qtotal_R` not reduced modulo 3, `inner_qconj = -1`: the model's factors
pass the executable sanity check and have the requested total charges. -/
example :
    let a : BMat Int :=
      { leg0 := { mods := [3, 1], slices := [0, 1, 3, 4], charges := [[0, 0], [1, -1], [2, 5]], qconj := 1,
                  sorted := false, bunched := true },
        leg1 := { mods := [3, 1], slices := [0, 2, 3], charges := [[2, 0], [0, -1]], qconj := -1,
                  sorted := false, bunched := true },
        qtotal := [1, 0], blocks := [⟨1, 1, [[1], [2]]⟩, ⟨0, 0, [[3, 4]]⟩] }
    a.sane = true ∧
    (match svdWorker a (fun i _ => if i = 0 then ⟨[[1], [0]], [2], [[1]]⟩ else ⟨[[1]], [5], [[3, 4]]⟩) (fun _ => true)
        { innerQconj := -1 } [2, 7] [5, -7] with
     | .ok r => r.u.sane && r.vh.sane && r.u.qtotal == [2, 7] && r.vh.qtotal == [2, -7]
                && r.u.leg1.testContractible r.vh.leg0
     | .error _ => false) = true := by
  decide

/-- **QR worker, legs and total charges**: `Q.legs = [a.legs[0], inner.conj()]`, `R.legs = [inner, a.legs[1]]` with
`inner` the leg of `C05_qr_inner_leg` for some projection mask; `Q.qtotal = make_valid(qtotal_Q)` (0 for `None`),
`R.qtotal = make_valid(a.qtotal - Q.qtotal)`; hence `Q.legs[1]` is contractible with `R.legs[0]`. -/
theorem C05_qr_worker_legs {α : Type} [Zero α] [One α] [Mul α] (a : BMat α) (F : Nat → Blk α → Mat α × Mat α)
    (phase conj : α → α) (o : QrOpts) :
    let w := qrWorker a F phase conj o
    (∃ mask, w.r.leg0 = (qrInner a.leg0 mask o).2) ∧ w.q.leg1 = w.r.leg0.conj ∧ w.q.leg0 = a.leg0 ∧ w.r.leg1 = a.leg1
    ∧ w.q.qtotal = makeValid a.leg0.mods ((o.qtotalQ.map (makeValid a.leg0.mods)).getD (czero a.leg0.mods.length))
    ∧ w.r.qtotal = makeValid a.leg0.mods (csub a.qtotal w.q.qtotal)
    ∧ w.q.leg1.testContractible w.r.leg0 = true := by
  intro w
  simp only [w, qrWorker]
  split <;> refine ⟨⟨_, rfl⟩, rfl, rfl, rfl, rfl, rfl, ?_⟩ <;>
    simp [Leg.testContractible, Leg.testEqual, Leg.eq?, Leg.conj]

/-- non-vacuity of `C05_qr_inner_leg` / `C05_qr_worker_legs`: `Z_3`, non-zero `a.qtotal`, requested `qtotal_Q` not reduced
modulo 3, `inner_qconj = -1`, a sector without stored block, a wide and a tall block; reduced and complete mode: the
model's `Q`, `R` pass the executable sanity check (charge rule, shapes), are contractible and have the total charges
`make_valid(qtotal_Q)` and `make_valid(a.qtotal - qtotal_Q)`. -/
example :
    let a : BMat Int :=
      { leg0 := { mods := [3], slices := [0, 1, 3, 4], charges := [[0], [1], [2]], qconj := 1,
                  sorted := true, bunched := true },
        leg1 := { mods := [3], slices := [0, 2, 3], charges := [[2], [0]], qconj := -1,
                  sorted := false, bunched := true },
        qtotal := [1], blocks := [⟨1, 1, [[1], [2]]⟩, ⟨0, 0, [[3, 4]]⟩] }
    let Fr : Nat → Blk Int → Mat Int × Mat Int := fun i _ => if i = 0 then ([[1], [0]], [[5]]) else ([[1]], [[3, 4]])
    let Fc : Nat → Blk Int → Mat Int × Mat Int :=
      fun i _ => if i = 0 then ([[1, 0], [0, 1]], [[5], [0]]) else ([[1]], [[3, 4]])
    let wr := qrWorker a Fr id id { qtotalQ := some [5], innerQconj := -1 }
    let wc := qrWorker a Fc id id { complete := true, qtotalQ := some [5], innerQconj := -1 }
    a.sane = true
    ∧ (wr.q.sane && wr.r.sane && wr.q.leg1.testContractible wr.r.leg0 && wr.q.qtotal == [2] && wr.r.qtotal == [2]
        && wr.r.leg0.qconj == -1 && wr.q.qdata == [(1, 1), (0, 0)] && wr.r.leg0.slices == [0, 1, 2]) = true
    ∧ (wc.q.sane && wc.r.sane && wc.q.leg1.testContractible wc.r.leg0 && wc.q.qtotal == [2] && wc.r.qtotal == [2]
        && wc.q.qdata == [(1, 1), (0, 0), (2, 2)] && wc.q.toDense == [[1, 0, 0, 0], [0, 1, 0, 0], [0, 0, 1, 0], [0, 0, 0, 1]])
        = true := by
  decide
