import TenpyModel.C05.P2_Slices
/-!
C05 / Props2 helpers, part 2: `LegCharge.project` with the mask built by `qr` (reduced mode):
which sectors survive, where they go (`map_qind`), how large they are.
-/
namespace TenpyModel.C05.P2
open TenpyModel.Core TenpyModel.C05

/-- number of `True` entries of the mask per block of the leg (`project`: `new_block_lens`) -/
def projLens (l : Leg) (mask : List Bool) : List Nat :=
  (Leg.splitAtSizes l.blockSizes mask).map (fun bm => bm.count true)

/-- `keep = np.nonzero(new_block_lens)[0]` -/
def projKeep (l : Leg) (mask : List Bool) : List Nat :=
  (List.range (projLens l mask).length).filter (fun i => (projLens l mask).getD i 0 ≠ 0)

theorem project_fst (l : Leg) (mask : List Bool) :
    (l.project mask).1 = (List.range l.blockNumber).map (fun i =>
      if (projKeep l mask).contains i then (((projKeep l mask).idxOf i : Nat) : Int) else -1) := rfl

theorem project_slices (l : Leg) (mask : List Bool) :
    (l.project mask).2.2.slices = slicesOfSizes (take? (projLens l mask) (projKeep l mask) 0) := rfl

theorem projLens_length (l : Leg) (mask : List Bool) : (projLens l mask).length = l.blockSizes.length := by
  simp [projLens, splitAtSizes_length]

theorem mem_projKeep (l : Leg) (mask : List Bool) (k : Nat) :
    k ∈ projKeep l mask ↔ k < l.blockSizes.length ∧ (projLens l mask).getD k 0 ≠ 0 := by
  simp [projKeep, projLens_length]

theorem projKeep_nodup (l : Leg) (mask : List Bool) : (projKeep l mask).Nodup :=
  List.Nodup.filter _ List.nodup_range

/-- a sector with `True` entries survives: `map_qind` points to its position in `keep`, and the new block has as
many indices as the mask kept -/
theorem project_kept (l : Leg) (mask : List Bool) (k : Nat) (hk : k < l.blockNumber)
    (hsz : l.blockSizes.length = l.blockNumber) (hne : (projLens l mask).getD k 0 ≠ 0) :
    (l.project mask).1.getD k (-1) = (((projKeep l mask).idxOf k : Nat) : Int)
    ∧ (projKeep l mask).idxOf k < (projKeep l mask).length
    ∧ (l.project mask).2.2.blockSizes.length = (projKeep l mask).length
    ∧ (l.project mask).2.2.blockSizes.getD ((projKeep l mask).idxOf k) 0 = (projLens l mask).getD k 0 := by
  have hmem : k ∈ projKeep l mask := (mem_projKeep l mask k).mpr ⟨by omega, hne⟩
  have hlt := List.idxOf_lt_length_of_mem hmem
  have hbs : (l.project mask).2.2.blockSizes = take? (projLens l mask) (projKeep l mask) 0 := by
    simp only [Leg.blockSizes, project_slices, sizesOfSlices_slicesOfSizes]
  refine ⟨?_, hlt, by simp [hbs, take?], ?_⟩
  · rw [project_fst, List.getD_eq_getElem?_getD, List.getElem?_map, List.getElem?_range hk]
    simp [hmem]
  · rw [hbs, take?, List.getD_eq_getElem?_getD, List.getElem?_map, List.getElem?_eq_getElem hlt]
    simp [List.getElem_idxOf hlt]

/-- a sector without `True` entry is dropped: `map_qind = -1` -/
theorem project_dropped (l : Leg) (mask : List Bool) (k : Nat) (hk : k < l.blockNumber)
    (hz : (projLens l mask).getD k 0 = 0) : (l.project mask).1.getD k (-1) = -1 := by
  have hmem : k ∉ projKeep l mask := fun h => ((mem_projKeep l mask k).mp h).2 hz
  rw [project_fst, List.getD_eq_getElem?_getD, List.getElem?_map, List.getElem?_range hk]
  simp [hmem]

theorem idxOf_inj_of_mem {l : List Nat} {a b : Nat} (ha : a ∈ l) (hb : b ∈ l) (h : l.idxOf a = l.idxOf b) : a = b := by
  have h1 := List.getElem_idxOf (List.idxOf_lt_length_of_mem ha)
  have h2 := List.getElem_idxOf (List.idxOf_lt_length_of_mem hb)
  rw [← h1, ← h2]
  congr 1

/-! ### the mask of `qr`: per sector, a prefix of length `ncols` of the factor of that sector -/

section
variable {γ : Type} (sizes : List Nat) (fs : List γ) (qf nf : γ → Nat)

/-- inside sector `k`, position `j`: the mask is set iff the (unique) element of sector `k` has more than `j` columns -/
theorem any_range_iff (hq : ∀ t ∈ fs, qf t < sizes.length) (hn : ∀ t ∈ fs, nf t ≤ sizes.getD (qf t) 0)
    (k j : Nat) (hk : k < sizes.length) (hj : j < sizes.getD k 0) :
    (fs.any (fun t => decide (off sizes (qf t) ≤ off sizes k + j) && decide (off sizes k + j < off sizes (qf t) + nf t))
      = true) ↔ ∃ t ∈ fs, qf t = k ∧ j < nf t := by
  simp only [List.any_eq_true, Bool.and_eq_true, decide_eq_true_eq]
  constructor
  · rintro ⟨t, ht, h1, h2⟩
    refine ⟨t, ht, ?_, ?_⟩
    · rcases Nat.lt_trichotomy (qf t) k with h | h | h
      · have := off_succ_le sizes h (hq t ht)
        have := hn t ht
        omega
      · exact h
      · have := off_succ_le sizes h hk
        omega
    · rcases Nat.lt_trichotomy (qf t) k with h | h | h
      · have := off_succ_le sizes h (hq t ht)
        have := hn t ht
        omega
      · rw [h] at h2; omega
      · have := off_succ_le sizes h hk
        omega
  · rintro ⟨t, ht, rfl, h2⟩
    exact ⟨t, ht, by omega, by omega⟩

end

/-- The mask written by `qr` over a leg with ascending slices: the number of `True` entries in sector `k`. -/
theorem projLens_of_fold {γ : Type} (l : Leg) (fs : List γ) (qf nf : γ → Nat)
    (hsl : l.slices = slicesOfSizes l.blockSizes)
    (hq : ∀ t ∈ fs, qf t < l.blockSizes.length) (hn : ∀ t ∈ fs, nf t ≤ l.blockSizes.getD (qf t) 0)
    (hinj : fs.Pairwise (fun t t' => qf t ≠ qf t')) (k : Nat) (hk : k < l.blockSizes.length) :
    let mask := fs.foldl (fun m t => maskSet m (l.slices.getD (qf t) 0) (nf t)) (List.replicate l.indLen false)
    (∀ t ∈ fs, qf t = k → (projLens l mask).getD k 0 = nf t)
    ∧ ((∀ t ∈ fs, qf t ≠ k) → (projLens l mask).getD k 0 = 0) := by
  intro mask
  have hind : l.indLen = l.blockSizes.sum := by
    rw [Leg.indLen, hsl, slicesOfSizes_getLastD]
  -- rewrite the offsets
  have hmask : mask = fs.foldl (fun m t => maskSet m (off l.blockSizes (qf t)) (nf t))
      (List.replicate l.blockSizes.sum false) := by
    simp only [mask, hind]
    apply List.foldl_ext
    intro m t ht
    rw [hsl, slicesOfSizes_getD _ _ (Nat.le_of_lt (hq t ht))]
  have hlen : mask.length = l.blockSizes.sum := by
    rw [hmask, foldl_maskSet_length]; simp
  have hget : ∀ i, i < l.blockSizes.sum → mask[i]? = some (fs.any (fun t =>
      decide (off l.blockSizes (qf t) ≤ i) && decide (i < off l.blockSizes (qf t) + nf t))) := by
    intro i hi
    rw [hmask, foldl_maskSet_getElem?]
    simp [hi]
  -- the block mask of sector k
  have hbm : (projLens l mask).getD k 0
      = ((mask.drop (off l.blockSizes k)).take (l.blockSizes.getD k 0)).count true := by
    simp only [projLens, List.getD_eq_getElem?_getD, List.getElem?_map, splitAtSizes_getElem? _ _ _ hk,
      Option.map_some, Option.getD_some]
  have hend : off l.blockSizes k + l.blockSizes.getD k 0 ≤ l.blockSizes.sum := by
    rw [← off_succ _ _ hk, ← off_length]; exact off_mono _ hk
  have hbl : ((mask.drop (off l.blockSizes k)).take (l.blockSizes.getD k 0)).length = l.blockSizes.getD k 0 := by
    simp only [List.length_take, List.length_drop, hlen]; omega
  have hbj : ∀ j, j < l.blockSizes.getD k 0 →
      ((mask.drop (off l.blockSizes k)).take (l.blockSizes.getD k 0))[j]?
        = some (fs.any (fun t => decide (off l.blockSizes (qf t) ≤ off l.blockSizes k + j)
            && decide (off l.blockSizes k + j < off l.blockSizes (qf t) + nf t))) := by
    intro j hj
    rw [List.getElem?_take_of_lt hj, List.getElem?_drop, hget _ (by omega)]
  rw [hbm]
  constructor
  · intro t ht hqt
    apply count_prefix _ _ (by rw [hbl, ← hqt]; exact hn t ht)
    intro j hj
    rw [hbl] at hj
    rw [hbj j hj]
    congr 1
    rw [Bool.eq_iff_iff, any_range_iff l.blockSizes fs qf nf hq hn k j hk hj]
    simp only [decide_eq_true_eq]
    constructor
    · rintro ⟨t', ht', hq', hj'⟩
      have : t' = t := pairwise_eq_of_mem hinj ht' ht (hq'.trans hqt.symm)
      rw [← this]; exact hj'
    · intro hj'; exact ⟨t, ht, hqt, hj'⟩
  · intro hnone
    apply count_prefix _ _ (Nat.zero_le _)
    intro j hj
    rw [hbl] at hj
    rw [hbj j hj]
    congr 1
    rw [Bool.eq_iff_iff, any_range_iff l.blockSizes fs qf nf hq hn k j hk hj]
    simp only [Nat.not_lt_zero, decide_false, Bool.false_eq_true, iff_false, not_exists, not_and]
    intro t ht hqt
    exact absurd hqt (hnone t ht)

end TenpyModel.C05.P2
