import TenpyModel.C05.PropsAssemble
import TenpyModel.C05.P2_Slices
/-!
C05 / Props2 helpers, part 5: `pinvBlocked`, `polarBlocked` as block products of the factors of `svdWorker`.
-/
namespace TenpyModel.C05.P2
open TenpyModel.Core TenpyModel.C05 Finset

variable {α : Type} [CommRing α]

theorem list_sum_range (k : Nat) (f : Nat → α) : ((List.range k).map f).sum = ∑ x ∈ range k, f x := by
  induction k with
  | zero => simp
  | succ k ih => rw [List.range_succ, List.map_append, List.sum_append, ih, Finset.sum_range_succ]; simp

theorem entry_eq_zero_of_row (A : Mat α) (i x : Nat) (hi : A.length ≤ i) : A.entry i x = 0 := by
  simp [Mat.entry, List.getD_eq_getElem?_getD, List.getElem?_eq_none hi]

/-- entries of the block product `Mat.mul` inside the column range -/
theorem entry_mul (A : Mat α) (k : Nat) (B : Mat α) (c0 i j : Nat) (hj : j < c0) :
    (Mat.mul A k B c0).entry i j = ∑ x ∈ range k, A.entry i x * B.entry x j := by
  unfold Mat.mul
  rw [entry_ofFn, list_sum_range]
  by_cases hi : i < A.length
  · simp [hi, hj]
  · have : ∀ x, A.entry i x = 0 := fun x => entry_eq_zero_of_row A i x (by omega)
    simp [hi, this]

theorem entry_scaleCols (M : Mat α) (sv : List α) (i x : Nat) (hx : x < sv.length) :
    (Mat.scaleCols M sv).entry i x = M.entry i x * sv.getD x 0 := by
  unfold Mat.scaleCols Mat.entry
  simp only [List.getD_eq_getElem?_getD, List.getElem?_map]
  cases hM : M[i]? with
  | none => simp
  | some row =>
    simp only [Option.map_some, Option.getD_some, List.getElem?_zipWith, List.getElem?_eq_getElem hx]
    cases row[x]? <;> simp

/-- `x.conj().itranspose()` on the block list; the column count of a block is read from `legs[1]` -/
def ctransBM (conj : α → α) (x : BMat α) : List (Blk α) :=
  x.blocks.map (fun b => (⟨b.qj, b.qi, Mat.ctrans conj b.m (x.leg1.blockSizes.getD b.qj 0)⟩ : Blk α))

/-- the factors of the reduced `svdWorker` -/
theorem svdWorker_reduced (a : BMat α) (F : Nat → Blk α → SvdFac α) (keepP : α → Bool) (o : SvdOpts) (qL qR : Charge)
    (r : SvdOut α) (hfull : o.full = false) (h : svdWorker a F keepP o qL qR = .ok r) :
    r.u.blocks = (svdKept a F o.cutoff keepP).zipIdx.map (fun tk => (⟨tk.1.1.qi, tk.2, tk.1.2.2.u⟩ : Blk α))
    ∧ r.vh.blocks = (svdKept a F o.cutoff keepP).zipIdx.map (fun tk => (⟨tk.2, tk.1.1.qj, tk.1.2.2.vh⟩ : Blk α))
    ∧ r.u.leg1.blockSizes = (svdKept a F o.cutoff keepP).map (fun t => t.2.2.s.length)
    ∧ r.vh.leg0.blockSizes = (svdKept a F o.cutoff keepP).map (fun t => t.2.2.s.length)
    ∧ r.vh.leg1 = a.leg1 ∧ r.u.leg0 = a.leg0 := by
  simp only [svdWorker, hfull] at h
  split at h
  · cases h
  · simp only [Bool.false_eq_true, ↓reduceIte, Except.ok.injEq] at h
    subst h
    refine ⟨rfl, rfl, ?_, ?_, rfl, rfl⟩
    · simp only [Leg.blockSizes, Leg.conj, Leg.fromQind, Leg.mk', sizesOfSlices_slicesOfSizes]
    · simp only [Leg.blockSizes, Leg.fromQind, Leg.mk', sizesOfSlices_slicesOfSizes]

theorem zipIdx_getD_len {β : Type} (l : List β) (f : β → Nat) (e : β × Nat) (he : e ∈ l.zipIdx) :
    (l.map f).getD e.2 0 = f e.1 := by
  have := List.mem_zipIdx_iff_getElem?.mp he
  simp [List.getD_eq_getElem?_getD, List.getElem?_map, this]

/-- a block product of two factors built from the kept blocks (inner block `k` = position of the kept block),
weights `w (S k c)` -/
theorem bmul3_kept (kept : List (Blk α × Nat × SvdFac α)) (gX gY : Blk α × Nat × SvdFac α → Mat α)
    (qX qY : Blk α × Nat × SvdFac α → Nat) (w : α → α) (qi r qj s : Nat) :
    bmul3 (kept.zipIdx.map (fun tk => (⟨qX tk.1, tk.2, gX tk.1⟩ : Blk α))) (fun k c => w (svdS kept k c))
        (kept.zipIdx.map (fun tk => (⟨tk.2, qY tk.1, gY tk.1⟩ : Blk α))) (kept.map (fun t => t.2.2.s.length)) qi r qj s
      = (kept.map (fun t => if qX t = qi ∧ qY t = qj then
          ∑ c ∈ range t.2.2.s.length, (gX t).entry r c * w (t.2.2.s.getD c 0) * (gY t).entry c s else 0)).sum := by
  have hmem : ∀ e ∈ kept.zipIdx, kept[e.2]? = some e.1 := fun e he => List.mem_zipIdx_iff_getElem?.mp he
  rw [bmul3_assemble kept.zipIdx _ _ (fun tk => tk.2) _ _ (fun _ _ => rfl) (fun _ _ => rfl)
    (pairwise_snd_zipIdx kept 0) (fun e he => by
      have := List.snd_lt_of_mem_zipIdx he
      simpa using this)]
  have hterm : ∀ e ∈ kept.zipIdx,
      (if qX e.1 = qi ∧ qY e.1 = qj then
        ∑ c ∈ range ((kept.map (fun t => t.2.2.s.length)).getD e.2 0),
          (gX e.1).entry r c * w (svdS kept e.2 c) * (gY e.1).entry c s else 0)
      = (fun t : Blk α × Nat × SvdFac α => if qX t = qi ∧ qY t = qj then
          ∑ c ∈ range t.2.2.s.length, (gX t).entry r c * w (t.2.2.s.getD c 0) * (gY t).entry c s else 0) e.1 := by
    intro e he
    simp only [svdS, hmem e he, zipIdx_getD_len kept (fun t => t.2.2.s.length) e he]
  rw [List.map_congr_left hterm]
  exact map_fst_zipIdx_sum (α := α) kept 0 (fun t : Blk α × Nat × SvdFac α => if qX t = qi ∧ qY t = qj then
          ∑ c ∈ range t.2.2.s.length, (gX t).entry r c * w (t.2.2.s.getD c 0) * (gY t).entry c s else 0)

/-- entries of a factor that has one block per kept block, at positions `(qX t, qY t)` -/
theorem bsum_kept (kept : List (Blk α × Nat × SvdFac α)) (g : Blk α × Nat × SvdFac α → Mat α)
    (qX qY : Blk α × Nat × SvdFac α → Nat) (qi r qj s : Nat) :
    bsum (kept.map (fun t => (⟨qX t, qY t, g t⟩ : Blk α))) qi r qj s
      = (kept.map (fun t => if qX t = qi ∧ qY t = qj then (g t).entry r s else 0)).sum := by
  simp only [bsum, List.map_map, Function.comp_def]

theorem ctransBM_vh (a : BMat α) (F : Nat → Blk α → SvdFac α) (keepP : α → Bool) (o : SvdOpts) (qL qR : Charge)
    (r : SvdOut α) (hfull : o.full = false) (h : svdWorker a F keepP o qL qR = .ok r) (conj : α → α) :
    ctransBM conj r.vh = (svdKept a F o.cutoff keepP).zipIdx.map (fun tk =>
      (⟨tk.1.1.qj, tk.2, Mat.ctrans conj tk.1.2.2.vh (a.leg1.blockSizes.getD tk.1.1.qj 0)⟩ : Blk α)) := by
  obtain ⟨_, hvh, _, _, hl, _⟩ := svdWorker_reduced a F keepP o qL qR r hfull h
  simp only [ctransBM, hvh, hl, List.map_map, Function.comp_def]

theorem ctransBM_u (a : BMat α) (F : Nat → Blk α → SvdFac α) (keepP : α → Bool) (o : SvdOpts) (qL qR : Charge)
    (r : SvdOut α) (hfull : o.full = false) (h : svdWorker a F keepP o qL qR = .ok r) (conj : α → α) :
    ctransBM conj r.u = (svdKept a F o.cutoff keepP).zipIdx.map (fun tk =>
      (⟨tk.2, tk.1.1.qi, Mat.ctrans conj tk.1.2.2.u tk.1.2.2.s.length⟩ : Blk α)) := by
  obtain ⟨hu, _, hsz, _, _, _⟩ := svdWorker_reduced a F keepP o qL qR r hfull h
  simp only [ctransBM, hu, hsz, List.map_map, Function.comp_def]
  apply List.map_congr_left
  intro e he
  rw [zipIdx_getD_len _ (fun t : Blk α × Nat × SvdFac α => t.2.2.s.length) e he]

/-- `pinv`: the result is `VHᴴ · diag(1/S) · Uᴴ` of the factors of the reduced SVD with cutoff -/
theorem pinv_assemble (a : BMat α) (F : Nat → Blk α → SvdFac α) (keepP : α → Bool) (inv conj : α → α) (P : BMat α)
    (o : SvdOpts) (qL qR : Charge) (r : SvdOut α)
    (hP : pinvBlocked a F keepP inv conj = .ok P) (hfull : o.full = false) (hcut : o.cutoff = true)
    (hr : svdWorker a F keepP o qL qR = .ok r)
    (qi rr qj ss : Nat) (hrr : rr < a.leg0.blockSizes.getD qi 0) :
    P.bentry qj ss qi rr
      = bmul3 (ctransBM conj r.vh) (fun k c => inv (svdS (svdKept a F true keepP) k c)) (ctransBM conj r.u)
          r.vh.leg0.blockSizes qj ss qi rr := by
  have hvh := ctransBM_vh a F keepP o qL qR r hfull hr conj
  have hu := ctransBM_u a F keepP o qL qR r hfull hr conj
  obtain ⟨_, _, _, hsz, _, _⟩ := svdWorker_reduced a F keepP o qL qR r hfull hr
  rw [hcut] at hvh hu hsz
  rw [hvh, hu, hsz]
  rw [bmul3_kept (svdKept a F true keepP)
    (fun t => Mat.ctrans conj t.2.2.vh (a.leg1.blockSizes.getD t.1.qj 0))
    (fun t => Mat.ctrans conj t.2.2.u t.2.2.s.length) (fun t => t.1.qj) (fun t => t.1.qi) inv]
  simp only [pinvBlocked, svdQtotalLR] at hP
  split at hP
  · cases hP
  · simp only [Except.ok.injEq] at hP
    subst hP
    rw [bentry_eq_bsum]
    simp only []
    rw [bsum_kept (svdKept a F true keepP) (fun t =>
        Mat.mul (Mat.scaleCols (Mat.ctrans conj t.2.2.vh (a.leg1.blockSizes.getD t.1.qj 0)) (t.2.2.s.map inv))
          t.2.2.s.length (Mat.ctrans conj t.2.2.u t.2.2.s.length) (a.leg0.blockSizes.getD t.1.qi 0))
      (fun t => t.1.qj) (fun t => t.1.qi)]
    apply congrArg
    apply List.map_congr_left
    intro t _
    by_cases hm : t.1.qj = qj ∧ t.1.qi = qi
    · simp only [hm, and_self, ↓reduceIte]
      rw [entry_mul _ _ _ _ _ _ hrr]
      refine Finset.sum_congr rfl (fun x hx => ?_)
      have hx' : x < t.2.2.s.length := Finset.mem_range.mp hx
      rw [entry_scaleCols _ _ _ _ (by simpa using hx')]
      simp [List.getD_eq_getElem?_getD, List.getElem?_map, List.getElem?_eq_getElem hx']
    · simp only [hm, ↓reduceIte]

/-- `polar`: `u = W · VH`, `p = VHᴴ · diag(S) · VH` (`left = False`) resp. `p = W · diag(S) · Wᴴ` (`left = True`) of the
factors of the reduced SVD with cutoff -/
theorem polar_assemble (a : BMat α) (F : Nat → Blk α → SvdFac α) (keepP : α → Bool) (conj : α → α) (left : Bool)
    (U P : BMat α) (o : SvdOpts) (qL qR : Charge) (r : SvdOut α)
    (hP : polarBlocked a F keepP conj left = .ok (U, P)) (hfull : o.full = false) (hcut : o.cutoff = true)
    (hr : svdWorker a F keepP o qL qR = .ok r) :
    (∀ qi rr qj ss, ss < a.leg1.blockSizes.getD qj 0 →
      U.bentry qi rr qj ss = bmul3 r.u.blocks (fun _ _ => 1) r.vh.blocks r.vh.leg0.blockSizes qi rr qj ss)
    ∧ (left = false → ∀ qj ss qj' ss', ss' < a.leg1.blockSizes.getD qj' 0 →
      P.bentry qj ss qj' ss' = bmul3 (ctransBM conj r.vh) (fun k c => svdS (svdKept a F true keepP) k c) r.vh.blocks
        r.vh.leg0.blockSizes qj ss qj' ss')
    ∧ (left = true → ∀ qi rr qi' rr', rr' < a.leg0.blockSizes.getD qi' 0 →
      P.bentry qi rr qi' rr' = bmul3 r.u.blocks (fun k c => svdS (svdKept a F true keepP) k c) (ctransBM conj r.u)
        r.vh.leg0.blockSizes qi rr qi' rr') := by
  have hvh := ctransBM_vh a F keepP o qL qR r hfull hr conj
  have hu := ctransBM_u a F keepP o qL qR r hfull hr conj
  obtain ⟨hub, hvb, _, hsz, _, _⟩ := svdWorker_reduced a F keepP o qL qR r hfull hr
  rw [hcut] at hvh hu hsz hub hvb
  simp only [polarBlocked, svdQtotalLR] at hP
  split at hP
  · cases hP
  · simp only [Except.ok.injEq, Prod.mk.injEq] at hP
    obtain ⟨hU, hPp⟩ := hP
    refine ⟨?_, ?_, ?_⟩
    · intro qi rr qj ss hss
      subst hU
      rw [hub, hvb, hsz]
      rw [bmul3_kept (svdKept a F true keepP) (fun t => t.2.2.u) (fun t => t.2.2.vh) (fun t => t.1.qi)
        (fun t => t.1.qj) (fun _ => 1)]
      rw [bentry_eq_bsum]
      simp only []
      rw [bsum_kept (svdKept a F true keepP) (fun t =>
          Mat.mul t.2.2.u t.2.2.s.length t.2.2.vh (a.leg1.blockSizes.getD t.1.qj 0)) (fun t => t.1.qi) (fun t => t.1.qj)]
      apply congrArg
      apply List.map_congr_left
      intro t _
      by_cases hm : t.1.qi = qi ∧ t.1.qj = qj
      · simp only [hm, and_self, ↓reduceIte]
        rw [entry_mul _ _ _ _ _ _ hss]
        simp
      · simp only [hm, ↓reduceIte]
    · intro hl qj ss qj' ss' hss
      subst hl
      simp only [Bool.false_eq_true, ↓reduceIte] at hPp
      subst hPp
      rw [hvh, hvb, hsz]
      rw [bmul3_kept (svdKept a F true keepP) (fun t => Mat.ctrans conj t.2.2.vh (a.leg1.blockSizes.getD t.1.qj 0))
        (fun t => t.2.2.vh) (fun t => t.1.qj) (fun t => t.1.qj) (fun x => x)]
      rw [bentry_eq_bsum]
      simp only []
      rw [bsum_kept (svdKept a F true keepP) (fun t =>
          Mat.mul (Mat.scaleCols (Mat.ctrans conj t.2.2.vh (a.leg1.blockSizes.getD t.1.qj 0)) t.2.2.s) t.2.2.s.length
            t.2.2.vh (a.leg1.blockSizes.getD t.1.qj 0)) (fun t => t.1.qj) (fun t => t.1.qj)]
      apply congrArg
      apply List.map_congr_left
      intro t _
      by_cases hm : t.1.qj = qj ∧ t.1.qj = qj'
      · obtain ⟨h1, h2⟩ := hm
        subst h1; subst h2
        simp only [and_self, ↓reduceIte]
        rw [entry_mul _ _ _ _ _ _ hss]
        refine Finset.sum_congr rfl (fun x hx => ?_)
        rw [entry_scaleCols _ _ _ _ (Finset.mem_range.mp hx)]
      · simp only [hm, ↓reduceIte]
    · intro hl qi rr qi' rr' hrr
      subst hl
      simp only [↓reduceIte] at hPp
      subst hPp
      rw [hub, hu, hsz]
      rw [bmul3_kept (svdKept a F true keepP) (fun t => t.2.2.u)
        (fun t => Mat.ctrans conj t.2.2.u t.2.2.s.length) (fun t => t.1.qi) (fun t => t.1.qi) (fun x => x)]
      rw [bentry_eq_bsum]
      simp only []
      rw [bsum_kept (svdKept a F true keepP) (fun t =>
          Mat.mul (Mat.scaleCols t.2.2.u t.2.2.s) t.2.2.s.length (Mat.ctrans conj t.2.2.u t.2.2.s.length)
            (a.leg0.blockSizes.getD t.1.qi 0)) (fun t => t.1.qi) (fun t => t.1.qi)]
      apply congrArg
      apply List.map_congr_left
      intro t _
      by_cases hm : t.1.qi = qi ∧ t.1.qi = qi'
      · obtain ⟨h1, h2⟩ := hm
        subst h1; subst h2
        simp only [and_self, ↓reduceIte]
        rw [entry_mul _ _ _ _ _ _ hrr]
        refine Finset.sum_congr rfl (fun x hx => ?_)
        rw [entry_scaleCols _ _ _ _ (Finset.mem_range.mp hx)]
      · simp only [hm, ↓reduceIte]

end TenpyModel.C05.P2

namespace TenpyModel.C05.P2
open TenpyModel.Core TenpyModel.C05 Finset
variable {α : Type} [CommRing α]

/-- the block `W_b · VH_b` of `u` -/
def polarU (a : BMat α) (t : Blk α × Nat × SvdFac α) : Mat α :=
  Mat.mul t.2.2.u t.2.2.s.length t.2.2.vh (a.leg1.blockSizes.getD t.1.qj 0)

/-- the block `VH_bᴴ S_b VH_b` (`left = False`) of `p` -/
def polarPR (a : BMat α) (conj : α → α) (t : Blk α × Nat × SvdFac α) : Mat α :=
  Mat.mul (Mat.scaleCols (Mat.ctrans conj t.2.2.vh (a.leg1.blockSizes.getD t.1.qj 0)) t.2.2.s) t.2.2.s.length
    t.2.2.vh (a.leg1.blockSizes.getD t.1.qj 0)

/-- the block `W_b S_b W_bᴴ` (`left = True`) of `p` -/
def polarPL (a : BMat α) (conj : α → α) (t : Blk α × Nat × SvdFac α) : Mat α :=
  Mat.mul (Mat.scaleCols t.2.2.u t.2.2.s) t.2.2.s.length (Mat.ctrans conj t.2.2.u t.2.2.s.length)
    (a.leg0.blockSizes.getD t.1.qi 0)

theorem polar_blocks (a : BMat α) (F : Nat → Blk α → SvdFac α) (keepP : α → Bool) (conj : α → α) (left : Bool)
    (U P : BMat α) (hP : polarBlocked a F keepP conj left = .ok (U, P)) :
    U.blocks = (svdKept a F true keepP).map (fun t => (⟨t.1.qi, t.1.qj, polarU a t⟩ : Blk α))
    ∧ (left = false → P.blocks = (svdKept a F true keepP).map (fun t => (⟨t.1.qj, t.1.qj, polarPR a conj t⟩ : Blk α)))
    ∧ (left = true → P.blocks = (svdKept a F true keepP).map (fun t => (⟨t.1.qi, t.1.qi, polarPL a conj t⟩ : Blk α))) := by
  simp only [polarBlocked, svdQtotalLR] at hP
  split at hP
  · cases hP
  · simp only [Except.ok.injEq, Prod.mk.injEq] at hP
    obtain ⟨hU, hPp⟩ := hP
    subst hU
    refine ⟨rfl, ?_, ?_⟩
    · intro hl; subst hl
      simp only [Bool.false_eq_true, ↓reduceIte] at hPp
      subst hPp; rfl
    · intro hl; subst hl
      simp only [↓reduceIte] at hPp
      subst hPp; rfl

/-- the sum over the kept blocks is the sum over all blocks if the dropped blocks vanish -/
theorem kept_sum_eq_bentry (a : BMat α) (F : Nat → Blk α → SvdFac α) (keepP : α → Bool) (c : Bool)
    (hdrop : ∀ bi ∈ a.blocks.zipIdx, (svdCut c keepP (F bi.2 bi.1)).s.length = 0 → ∀ r s, bi.1.m.entry r s = 0)
    (qi r qj s : Nat) :
    ((svdKept a F c keepP).map (fun t => if t.1.qi = qi ∧ t.1.qj = qj then t.1.m.entry r s else 0)).sum
      = a.bentry qi r qj s := by
  unfold svdKept
  rw [sum_map_filter]
  · rw [List.map_map, bentry_eq_bsum, bsum]
    exact map_fst_zipIdx_sum (α := α) a.blocks 0 (fun b : Blk α => if b.qi = qi ∧ b.qj = qj then b.m.entry r s else 0)
  · intro t ht hz
    obtain ⟨bi, hbi, rfl⟩ := List.mem_map.mp ht
    have hz' : (svdCut c keepP (F bi.2 bi.1)).s.length = 0 := by simpa using hz
    simp [hdrop bi hbi hz' r s]

end TenpyModel.C05.P2
