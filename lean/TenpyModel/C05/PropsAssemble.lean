import TenpyModel.C05.AssembleProofs
/-!
C05, assembly theorems: IF every per-block factorization satisfies its post-condition THEN the assembled factors
satisfy the global statement. Products over the new inner leg are written in block-structured indices
(`bmul3`, see `AssembleProofs.lean`); `C05_locate_sum` is the bijection with flat indices.

All statements are about the completely blocked matrix handed to the worker (`as_completely_blocked` and
`split_legs` only re-index rows/columns: that is property C06, and it is compared exactly by the harness here).
-/
open TenpyModel.Core TenpyModel.C05 Finset

namespace TenpyModel.C05
variable {α : Type} [CommRing α]

/-- singular values of inner block `k`, index `c` -/
def svdS (kept : List (Blk α × Nat × SvdFac α)) (k c : Nat) : α :=
  match kept[k]? with
  | some t => t.2.2.s.getD c 0
  | none => 0

/-- post-condition of the per-block SVD (after the cutoff) as far as reconstruction is concerned -/
def SvdRecon (b : Blk α) (f : SvdFac α) : Prop :=
  ∀ r s, ∑ c ∈ range f.s.length, f.u.entry r c * f.s.getD c 0 * f.vh.entry c s = b.m.entry r s

end TenpyModel.C05

/-- **SVD, reconstruction (any cutoff).** `U · diag(S) · VH`, block `(qi, qj)`, entry `(r, s)`, is the sum over the kept
blocks of `a` with these qindices of `U_b diag(S_b) VH_b` — each block of `a` is replaced by its own (truncated)
factorization and nothing else is produced. Also: `S` is the concatenation of the kept `S_b` in the order of the inner
leg, whose slices are the cumulative numbers of kept singular values. -/
theorem C05_svd_assemble_cutoff {α : Type} [CommRing α] (a : BMat α) (F : Nat → Blk α → SvdFac α) (keepP : α → Bool)
    (o : SvdOpts) (qL qR : Charge) (r : SvdOut α) (hfull : o.full = false)
    (h : svdWorker a F keepP o qL qR = .ok r) (qi rr qj ss : Nat) :
    let kept := svdKept a F o.cutoff keepP
    bmul3 r.u.blocks (svdS kept) r.vh.blocks (kept.map (fun t => t.2.2.s.length)) qi rr qj ss
      = (kept.map (fun t => if t.1.qi = qi ∧ t.1.qj = qj then
          ∑ c ∈ range t.2.2.s.length, t.2.2.u.entry rr c * t.2.2.s.getD c 0 * t.2.2.vh.entry c ss else 0)).sum
    ∧ r.s = kept.flatMap (fun t => t.2.2.s)
    ∧ r.vh.leg0.slices = slicesOfSizes (kept.map (fun t => t.2.2.s.length))
    ∧ r.u.leg1.slices = r.vh.leg0.slices := by
  intro kept
  simp only [svdWorker, hfull] at h
  split at h
  · cases h
  · simp only [Bool.false_eq_true, ↓reduceIte, Except.ok.injEq] at h
    subst h
    refine ⟨?_, rfl, by simp [Leg.fromQind, Leg.mk', kept], by simp [Leg.fromQind, Leg.mk', Leg.conj]⟩
    have hmem : ∀ e ∈ kept.zipIdx, kept[e.2]? = some e.1 := fun e he => List.mem_zipIdx_iff_getElem?.mp he
    have := bmul3_assemble kept.zipIdx
      (fun tk => (⟨tk.1.1.qi, tk.2, tk.1.2.2.u⟩ : Blk α)) (fun tk => (⟨tk.2, tk.1.1.qj, tk.1.2.2.vh⟩ : Blk α))
      (fun tk => tk.2) (svdS kept) (kept.map (fun t => t.2.2.s.length))
      (fun _ _ => rfl) (fun _ _ => rfl) (pairwise_snd_zipIdx kept 0)
      (fun e he => by
        have := List.snd_lt_of_mem_zipIdx he
        simpa using this) qi rr qj ss
    rw [this]
    -- rewrite the per-element terms, then drop the indices
    have hterm : ∀ e ∈ kept.zipIdx,
        (if e.1.1.qi = qi ∧ e.1.1.qj = qj then
          ∑ c ∈ range ((kept.map (fun t => t.2.2.s.length)).getD e.2 0),
            e.1.2.2.u.entry rr c * svdS kept e.2 c * e.1.2.2.vh.entry c ss else 0)
        = (fun t : Blk α × Nat × SvdFac α => if t.1.qi = qi ∧ t.1.qj = qj then
          ∑ c ∈ range t.2.2.s.length, t.2.2.u.entry rr c * t.2.2.s.getD c 0 * t.2.2.vh.entry c ss else 0) e.1 := by
      intro e he
      have hg := hmem e he
      simp only [svdS, hg, List.getD_eq_getElem?_getD, List.getElem?_map, Option.map_some, Option.getD_some]
    rw [List.map_congr_left hterm]
    exact map_fst_zipIdx_sum (α := α) kept 0 (fun t : Blk α × Nat × SvdFac α => if t.1.qi = qi ∧ t.1.qj = qj then
          ∑ c ∈ range t.2.2.s.length, t.2.2.u.entry rr c * t.2.2.s.getD c 0 * t.2.2.vh.entry c ss else 0)

/-- **SVD, exact reconstruction** (`cutoff = None`): if every per-block SVD multiplies back to its block, then
`U · diag(S) · VH = a`, block by block and entry by entry. -/
theorem C05_svd_assemble {α : Type} [CommRing α] (a : BMat α) (F : Nat → Blk α → SvdFac α) (keepP : α → Bool)
    (o : SvdOpts) (qL qR : Charge) (r : SvdOut α) (hfull : o.full = false) (hcut : o.cutoff = false)
    (hpost : ∀ bi ∈ a.blocks.zipIdx, SvdRecon bi.1 (F bi.2 bi.1))
    (h : svdWorker a F keepP o qL qR = .ok r) (qi rr qj ss : Nat) :
    bmul3 r.u.blocks (svdS (svdKept a F o.cutoff keepP)) r.vh.blocks
        ((svdKept a F o.cutoff keepP).map (fun t => t.2.2.s.length)) qi rr qj ss
      = a.bentry qi rr qj ss := by
  rw [(C05_svd_assemble_cutoff a F keepP o qL qR r hfull h qi rr qj ss).1]
  simp only [svdKept, hcut, svdCut, Bool.false_eq_true, ↓reduceIte]
  rw [sum_map_filter]
  · rw [List.map_map, bentry_eq_bsum, bsum]
    have : ∀ bi ∈ a.blocks.zipIdx,
        ((fun t : Blk α × Nat × SvdFac α => if t.1.qi = qi ∧ t.1.qj = qj then
          ∑ c ∈ range t.2.2.s.length, t.2.2.u.entry rr c * t.2.2.s.getD c 0 * t.2.2.vh.entry c ss else 0)
          ∘ fun bi : Blk α × Nat => (bi.1, bi.2, F bi.2 bi.1)) bi
        = (fun b : Blk α => if b.qi = qi ∧ b.qj = qj then b.m.entry rr ss else 0) bi.1 := by
      intro bi hbi
      simp only [Function.comp]
      rw [hpost bi hbi rr ss]
    rw [List.map_congr_left this]
    exact map_fst_zipIdx_sum (α := α) a.blocks 0 (fun b : Blk α => if b.qi = qi ∧ b.qj = qj then b.m.entry rr ss else 0)
  · intro t ht hz
    obtain ⟨bi, hbi, rfl⟩ := List.mem_map.mp ht
    have hz' : (F bi.2 bi.1).s.length = 0 := by simpa using hz
    have := hpost bi hbi rr ss
    simp only [hz', Finset.range_zero, Finset.sum_empty] at this ⊢
    simp

namespace TenpyModel.C05
variable {α : Type} [CommRing α]

theorem mem_svdKept' {a : BMat α} {F : Nat → Blk α → SvdFac α} {c : Bool} {keepP : α → Bool}
    {t : Blk α × Nat × SvdFac α} (h : t ∈ svdKept a F c keepP) : t.1 ∈ a.blocks := by
  simp only [svdKept, List.mem_filter, List.mem_map] at h
  obtain ⟨⟨bi, hbi, rfl⟩, _⟩ := h
  exact List.fst_mem_of_mem_zipIdx hbi

theorem svdKept_pairwise (a : BMat α) (F : Nat → Blk α → SvdFac α) (c : Bool) (keepP : α → Bool) (key : Blk α → Nat)
    (h : a.blocks.Pairwise (fun b b' => key b ≠ key b')) :
    (svdKept a F c keepP).Pairwise (fun t t' => key t.1 ≠ key t'.1) := by
  unfold svdKept
  apply List.Pairwise.filter
  rw [List.pairwise_map]
  have := (List.zipIdx_map_fst 0 a.blocks).symm
  rw [this] at h
  exact (List.pairwise_map (f := Prod.fst) (R := fun x y => key x ≠ key y)).mp h

end TenpyModel.C05

/-- **SVD, isometries** (`full_matrices = False`, any cutoff): if the stored blocks of the (completely blocked) `a` lie
in pairwise different row sectors and pairwise different column sectors, and every per-block `U_b` has orthonormal
columns / every `VH_b` orthonormal rows, then `Uᴴ U = 1` and `VH VHᴴ = 1` on the new inner leg. -/
theorem C05_svd_isometry {α : Type} [CommRing α] [StarRing α] (a : BMat α) (F : Nat → Blk α → SvdFac α)
    (keepP : α → Bool) (o : SvdOpts) (qL qR : Charge) (r : SvdOut α) (hfull : o.full = false)
    (hrows : a.blocks.Pairwise (fun b b' => b.qi ≠ b'.qi)) (hcols : a.blocks.Pairwise (fun b b' => b.qj ≠ b'.qj))
    (hin0 : ∀ b ∈ a.blocks, b.qi < a.leg0.blockNumber) (hin1 : ∀ b ∈ a.blocks, b.qj < a.leg1.blockNumber)
    (hU : ∀ t ∈ svdKept a F o.cutoff keepP, ∀ c < t.2.2.s.length, ∀ c' < t.2.2.s.length,
      ∑ x ∈ range (a.leg0.blockSizes.getD t.1.qi 0), star (t.2.2.u.entry x c) * t.2.2.u.entry x c'
        = if c = c' then 1 else 0)
    (hV : ∀ t ∈ svdKept a F o.cutoff keepP, ∀ c < t.2.2.s.length, ∀ c' < t.2.2.s.length,
      ∑ x ∈ range (a.leg1.blockSizes.getD t.1.qj 0), t.2.2.vh.entry c x * star (t.2.2.vh.entry c' x)
        = if c = c' then 1 else 0)
    (h : svdWorker a F keepP o qL qR = .ok r)
    (k k' c c' : Nat) (t t' : Blk α × Nat × SvdFac α)
    (hk : (svdKept a F o.cutoff keepP)[k]? = some t) (hk' : (svdKept a F o.cutoff keepP)[k']? = some t')
    (hc : c < t.2.2.s.length) (hc' : c' < t'.2.2.s.length) :
    (∑ qi ∈ range a.leg0.blockNumber, ∑ x ∈ range (a.leg0.blockSizes.getD qi 0),
        star (r.u.bentry qi x k c) * r.u.bentry qi x k' c' = if k = k' ∧ c = c' then 1 else 0)
    ∧ (∑ qj ∈ range a.leg1.blockNumber, ∑ x ∈ range (a.leg1.blockSizes.getD qj 0),
        r.vh.bentry k c qj x * star (r.vh.bentry k' c' qj x) = if k = k' ∧ c = c' then 1 else 0) := by
  simp only [svdWorker, hfull] at h
  split at h
  · cases h
  · simp only [Bool.false_eq_true, ↓reduceIte, Except.ok.injEq] at h
    subst h
    set kept := svdKept a F o.cutoff keepP with hkept
    have he : (t, k) ∈ kept.zipIdx := List.mem_zipIdx_iff_getElem?.mpr hk
    have he' : (t', k') ∈ kept.zipIdx := List.mem_zipIdx_iff_getElem?.mpr hk'
    have hsz : ∀ e ∈ kept.zipIdx, (kept.map (fun t => t.2.2.s.length)).getD e.2 0 = e.1.2.2.s.length := by
      intro e hee
      have := List.mem_zipIdx_iff_getElem?.mp hee
      simp [List.getD_eq_getElem?_getD, List.getElem?_map, this]
    have hmemb : ∀ e ∈ kept.zipIdx, e.1.1 ∈ a.blocks := fun e hee => mem_svdKept' (List.fst_mem_of_mem_zipIdx hee)
    constructor
    · have := biso_assemble kept.zipIdx (fun tk => (⟨tk.1.1.qi, tk.2, tk.1.2.2.u⟩ : Blk α)) (fun tk => tk.2)
        a.leg0.blockSizes (kept.map (fun t => t.2.2.s.length)) a.leg0.blockNumber
        (fun _ _ => rfl) (pairwise_snd_zipIdx kept 0)
        (fun e hee => hin0 e.1.1 (hmemb e hee))
        (fun e hee e' hee' hq => zipIdx_snd_eq_of_pairwise (fun t : Blk α × Nat × SvdFac α => t.1.qi)
          (svdKept_pairwise a F o.cutoff keepP (fun b => b.qi) hrows) hee hee' hq)
        (fun e hee c hc c' hc' => by
          rw [hsz e hee] at hc hc'
          exact hU e.1 (List.fst_mem_of_mem_zipIdx hee) c hc c' hc')
        (t, k) (t', k') he he' c c' (by rw [hsz _ he]; exact hc) (by rw [hsz _ he']; exact hc')
      simpa [bentry_eq_bsum] using this
    · have := biso_assemble_row kept.zipIdx (fun tk => (⟨tk.2, tk.1.1.qj, tk.1.2.2.vh⟩ : Blk α)) (fun tk => tk.2)
        a.leg1.blockSizes (kept.map (fun t => t.2.2.s.length)) a.leg1.blockNumber
        (fun _ _ => rfl) (pairwise_snd_zipIdx kept 0)
        (fun e hee => hin1 e.1.1 (hmemb e hee))
        (fun e hee e' hee' hq => zipIdx_snd_eq_of_pairwise (fun t : Blk α × Nat × SvdFac α => t.1.qj)
          (svdKept_pairwise a F o.cutoff keepP (fun b => b.qj) hcols) hee hee' hq)
        (fun e hee c hc c' hc' => by
          rw [hsz e hee] at hc hc'
          exact hV e.1 (List.fst_mem_of_mem_zipIdx hee) c hc c' hc')
        (t, k) (t', k') he he' c c' (by rw [hsz _ he]; exact hc) (by rw [hsz _ he']; exact hc')
      simpa [bentry_eq_bsum] using this
