import TenpyModel.C05.AssembleProofs
/-!
C05, assembly theorems: IF every per-block factorization satisfies its post-condition THEN the assembled factors
satisfy the global statement. Products over the new inner leg are written in block-structured indices
(`bmul3`, see `AssembleProofs.lean`); `C05_locate_sum` is the bijection with flat indices.

All statements are about the completely blocked matrix handed to the worker (`as_completely_blocked` and
`split_legs` only re-index rows/columns: that is property C06, and it is compared exactly by the harness here).
-/
open TenpyModel.Core TenpyModel.C05 Finset

namespace TenpyModel.C05
variable {α : Type} [CommRing α]

/-- singular values of inner block `k`, index `c` -/
def svdS (kept : List (Blk α × Nat × SvdFac α)) (k c : Nat) : α :=
  match kept[k]? with
  | some t => t.2.2.s.getD c 0
  | none => 0

/-- post-condition of the per-block SVD (after the cutoff) as far as reconstruction is concerned -/
def SvdRecon (b : Blk α) (f : SvdFac α) : Prop :=
  ∀ r s, ∑ c ∈ range f.s.length, f.u.entry r c * f.s.getD c 0 * f.vh.entry c s = b.m.entry r s

end TenpyModel.C05

/-- **SVD, reconstruction (any cutoff).** `U · diag(S) · VH`, block `(qi, qj)`, entry `(r, s)`, is the sum over the kept
blocks of `a` with these qindices of `U_b diag(S_b) VH_b` — each block of `a` is replaced by its own (truncated)
factorization and nothing else is produced. Also: `S` is the concatenation of the kept `S_b` in the order of the inner
leg, whose slices are the cumulative numbers of kept singular values. -/
theorem C05_svd_assemble_cutoff {α : Type} [CommRing α] (a : BMat α) (F : Nat → Blk α → SvdFac α) (keepP : α → Bool)
    (o : SvdOpts) (qL qR : Charge) (r : SvdOut α) (hfull : o.full = false)
    (h : svdWorker a F keepP o qL qR = .ok r) (qi rr qj ss : Nat) :
    let kept := svdKept a F o.cutoff keepP
    bmul3 r.u.blocks (svdS kept) r.vh.blocks (kept.map (fun t => t.2.2.s.length)) qi rr qj ss
      = (kept.map (fun t => if t.1.qi = qi ∧ t.1.qj = qj then
          ∑ c ∈ range t.2.2.s.length, t.2.2.u.entry rr c * t.2.2.s.getD c 0 * t.2.2.vh.entry c ss else 0)).sum
    ∧ r.s = kept.flatMap (fun t => t.2.2.s)
    ∧ r.vh.leg0.slices = slicesOfSizes (kept.map (fun t => t.2.2.s.length))
    ∧ r.u.leg1.slices = r.vh.leg0.slices := by
  intro kept
  simp only [svdWorker, hfull] at h
  split at h
  · cases h
  · simp only [Bool.false_eq_true, ↓reduceIte, Except.ok.injEq] at h
    subst h
    refine ⟨?_, rfl, by simp [Leg.fromQind, Leg.mk', kept], by simp [Leg.fromQind, Leg.mk', Leg.conj]⟩
    have hmem : ∀ e ∈ kept.zipIdx, kept[e.2]? = some e.1 := fun e he => List.mem_zipIdx_iff_getElem?.mp he
    have := bmul3_assemble kept.zipIdx
      (fun tk => (⟨tk.1.1.qi, tk.2, tk.1.2.2.u⟩ : Blk α)) (fun tk => (⟨tk.2, tk.1.1.qj, tk.1.2.2.vh⟩ : Blk α))
      (fun tk => tk.2) (svdS kept) (kept.map (fun t => t.2.2.s.length))
      (fun _ _ => rfl) (fun _ _ => rfl) (pairwise_snd_zipIdx kept 0)
      (fun e he => by
        have := List.snd_lt_of_mem_zipIdx he
        simpa using this) qi rr qj ss
    rw [this]
    -- rewrite the per-element terms, then drop the indices
    have hterm : ∀ e ∈ kept.zipIdx,
        (if e.1.1.qi = qi ∧ e.1.1.qj = qj then
          ∑ c ∈ range ((kept.map (fun t => t.2.2.s.length)).getD e.2 0),
            e.1.2.2.u.entry rr c * svdS kept e.2 c * e.1.2.2.vh.entry c ss else 0)
        = (fun t : Blk α × Nat × SvdFac α => if t.1.qi = qi ∧ t.1.qj = qj then
          ∑ c ∈ range t.2.2.s.length, t.2.2.u.entry rr c * t.2.2.s.getD c 0 * t.2.2.vh.entry c ss else 0) e.1 := by
      intro e he
      have hg := hmem e he
      simp only [svdS, hg, List.getD_eq_getElem?_getD, List.getElem?_map, Option.map_some, Option.getD_some]
    rw [List.map_congr_left hterm]
    exact map_fst_zipIdx_sum (α := α) kept 0 (fun t : Blk α × Nat × SvdFac α => if t.1.qi = qi ∧ t.1.qj = qj then
          ∑ c ∈ range t.2.2.s.length, t.2.2.u.entry rr c * t.2.2.s.getD c 0 * t.2.2.vh.entry c ss else 0)

/-- **SVD, exact reconstruction** (`cutoff = None`): if every per-block SVD multiplies back to its block, then
`U · diag(S) · VH = a`, block by block and entry by entry. -/
theorem C05_svd_assemble {α : Type} [CommRing α] (a : BMat α) (F : Nat → Blk α → SvdFac α) (keepP : α → Bool)
    (o : SvdOpts) (qL qR : Charge) (r : SvdOut α) (hfull : o.full = false) (hcut : o.cutoff = false)
    (hpost : ∀ bi ∈ a.blocks.zipIdx, SvdRecon bi.1 (F bi.2 bi.1))
    (h : svdWorker a F keepP o qL qR = .ok r) (qi rr qj ss : Nat) :
    bmul3 r.u.blocks (svdS (svdKept a F o.cutoff keepP)) r.vh.blocks
        ((svdKept a F o.cutoff keepP).map (fun t => t.2.2.s.length)) qi rr qj ss
      = a.bentry qi rr qj ss := by
  rw [(C05_svd_assemble_cutoff a F keepP o qL qR r hfull h qi rr qj ss).1]
  simp only [svdKept, hcut, svdCut, Bool.false_eq_true, ↓reduceIte]
  rw [sum_map_filter]
  · rw [List.map_map, bentry_eq_bsum, bsum]
    have : ∀ bi ∈ a.blocks.zipIdx,
        ((fun t : Blk α × Nat × SvdFac α => if t.1.qi = qi ∧ t.1.qj = qj then
          ∑ c ∈ range t.2.2.s.length, t.2.2.u.entry rr c * t.2.2.s.getD c 0 * t.2.2.vh.entry c ss else 0)
          ∘ fun bi : Blk α × Nat => (bi.1, bi.2, F bi.2 bi.1)) bi
        = (fun b : Blk α => if b.qi = qi ∧ b.qj = qj then b.m.entry rr ss else 0) bi.1 := by
      intro bi hbi
      simp only [Function.comp]
      rw [hpost bi hbi rr ss]
    rw [List.map_congr_left this]
    exact map_fst_zipIdx_sum (α := α) a.blocks 0 (fun b : Blk α => if b.qi = qi ∧ b.qj = qj then b.m.entry rr ss else 0)
  · intro t ht hz
    obtain ⟨bi, hbi, rfl⟩ := List.mem_map.mp ht
    have hz' : (F bi.2 bi.1).s.length = 0 := by simpa using hz
    have := hpost bi hbi rr ss
    simp only [hz', Finset.range_zero, Finset.sum_empty] at this ⊢
    simp

namespace TenpyModel.C05
variable {α : Type} [CommRing α]

theorem mem_svdKept' {a : BMat α} {F : Nat → Blk α → SvdFac α} {c : Bool} {keepP : α → Bool}
    {t : Blk α × Nat × SvdFac α} (h : t ∈ svdKept a F c keepP) : t.1 ∈ a.blocks := by
  simp only [svdKept, List.mem_filter, List.mem_map] at h
  obtain ⟨⟨bi, hbi, rfl⟩, _⟩ := h
  exact List.fst_mem_of_mem_zipIdx hbi

theorem svdKept_pairwise (a : BMat α) (F : Nat → Blk α → SvdFac α) (c : Bool) (keepP : α → Bool) (key : Blk α → Nat)
    (h : a.blocks.Pairwise (fun b b' => key b ≠ key b')) :
    (svdKept a F c keepP).Pairwise (fun t t' => key t.1 ≠ key t'.1) := by
  unfold svdKept
  apply List.Pairwise.filter
  rw [List.pairwise_map]
  have := (List.zipIdx_map_fst 0 a.blocks).symm
  rw [this] at h
  exact (List.pairwise_map (f := Prod.fst) (R := fun x y => key x ≠ key y)).mp h

end TenpyModel.C05

/-- **SVD, isometries** (`full_matrices = False`, any cutoff): if the stored blocks of the (completely blocked) `a` lie
in pairwise different row sectors and pairwise different column sectors, and every per-block `U_b` has orthonormal
columns / every `VH_b` orthonormal rows, then `Uᴴ U = 1` and `VH VHᴴ = 1` on the new inner leg. -/
theorem C05_svd_isometry {α : Type} [CommRing α] [StarRing α] (a : BMat α) (F : Nat → Blk α → SvdFac α)
    (keepP : α → Bool) (o : SvdOpts) (qL qR : Charge) (r : SvdOut α) (hfull : o.full = false)
    (hrows : a.blocks.Pairwise (fun b b' => b.qi ≠ b'.qi)) (hcols : a.blocks.Pairwise (fun b b' => b.qj ≠ b'.qj))
    (hin0 : ∀ b ∈ a.blocks, b.qi < a.leg0.blockNumber) (hin1 : ∀ b ∈ a.blocks, b.qj < a.leg1.blockNumber)
    (hU : ∀ t ∈ svdKept a F o.cutoff keepP, ∀ c < t.2.2.s.length, ∀ c' < t.2.2.s.length,
      ∑ x ∈ range (a.leg0.blockSizes.getD t.1.qi 0), star (t.2.2.u.entry x c) * t.2.2.u.entry x c'
        = if c = c' then 1 else 0)
    (hV : ∀ t ∈ svdKept a F o.cutoff keepP, ∀ c < t.2.2.s.length, ∀ c' < t.2.2.s.length,
      ∑ x ∈ range (a.leg1.blockSizes.getD t.1.qj 0), t.2.2.vh.entry c x * star (t.2.2.vh.entry c' x)
        = if c = c' then 1 else 0)
    (h : svdWorker a F keepP o qL qR = .ok r)
    (k k' c c' : Nat) (t t' : Blk α × Nat × SvdFac α)
    (hk : (svdKept a F o.cutoff keepP)[k]? = some t) (hk' : (svdKept a F o.cutoff keepP)[k']? = some t')
    (hc : c < t.2.2.s.length) (hc' : c' < t'.2.2.s.length) :
    (∑ qi ∈ range a.leg0.blockNumber, ∑ x ∈ range (a.leg0.blockSizes.getD qi 0),
        star (r.u.bentry qi x k c) * r.u.bentry qi x k' c' = if k = k' ∧ c = c' then 1 else 0)
    ∧ (∑ qj ∈ range a.leg1.blockNumber, ∑ x ∈ range (a.leg1.blockSizes.getD qj 0),
        r.vh.bentry k c qj x * star (r.vh.bentry k' c' qj x) = if k = k' ∧ c = c' then 1 else 0) := by
  simp only [svdWorker, hfull] at h
  split at h
  · cases h
  · simp only [Bool.false_eq_true, ↓reduceIte, Except.ok.injEq] at h
    subst h
    set kept := svdKept a F o.cutoff keepP with hkept
    have he : (t, k) ∈ kept.zipIdx := List.mem_zipIdx_iff_getElem?.mpr hk
    have he' : (t', k') ∈ kept.zipIdx := List.mem_zipIdx_iff_getElem?.mpr hk'
    have hsz : ∀ e ∈ kept.zipIdx, (kept.map (fun t => t.2.2.s.length)).getD e.2 0 = e.1.2.2.s.length := by
      intro e hee
      have := List.mem_zipIdx_iff_getElem?.mp hee
      simp [List.getD_eq_getElem?_getD, List.getElem?_map, this]
    have hmemb : ∀ e ∈ kept.zipIdx, e.1.1 ∈ a.blocks := fun e hee => mem_svdKept' (List.fst_mem_of_mem_zipIdx hee)
    constructor
    · have := biso_assemble kept.zipIdx (fun tk => (⟨tk.1.1.qi, tk.2, tk.1.2.2.u⟩ : Blk α)) (fun tk => tk.2)
        a.leg0.blockSizes (kept.map (fun t => t.2.2.s.length)) a.leg0.blockNumber
        (fun _ _ => rfl) (pairwise_snd_zipIdx kept 0)
        (fun e hee => hin0 e.1.1 (hmemb e hee))
        (fun e hee e' hee' hq => zipIdx_snd_eq_of_pairwise (fun t : Blk α × Nat × SvdFac α => t.1.qi)
          (svdKept_pairwise a F o.cutoff keepP (fun b => b.qi) hrows) hee hee' hq)
        (fun e hee c hc c' hc' => by
          rw [hsz e hee] at hc hc'
          exact hU e.1 (List.fst_mem_of_mem_zipIdx hee) c hc c' hc')
        (t, k) (t', k') he he' c c' (by rw [hsz _ he]; exact hc) (by rw [hsz _ he']; exact hc')
      simpa [bentry_eq_bsum] using this
    · have := biso_assemble_row kept.zipIdx (fun tk => (⟨tk.2, tk.1.1.qj, tk.1.2.2.vh⟩ : Blk α)) (fun tk => tk.2)
        a.leg1.blockSizes (kept.map (fun t => t.2.2.s.length)) a.leg1.blockNumber
        (fun _ _ => rfl) (pairwise_snd_zipIdx kept 0)
        (fun e hee => hin1 e.1.1 (hmemb e hee))
        (fun e hee e' hee' hq => zipIdx_snd_eq_of_pairwise (fun t : Blk α × Nat × SvdFac α => t.1.qj)
          (svdKept_pairwise a F o.cutoff keepP (fun b => b.qj) hcols) hee hee' hq)
        (fun e hee c hc c' hc' => by
          rw [hsz e hee] at hc hc'
          exact hV e.1 (List.fst_mem_of_mem_zipIdx hee) c hc c' hc')
        (t, k) (t', k') he he' c c' (by rw [hsz _ he]; exact hc) (by rw [hsz _ he']; exact hc')
      simpa [bentry_eq_bsum] using this

namespace TenpyModel.C05
variable {α : Type} [CommRing α]

/-- eigenvalues of inner block `k` as stored by `eigAssemble` (0 for a sector without stored block) -/
def eigW (facs : List (Nat × List α × Mat α)) (k s : Nat) : α :=
  match lastWithQi facs k with
  | some f => f.1.getD s 0
  | none => 0

theorem exists_zipIdx_of_mem {β : Type} {l : List β} {x : β} (h : x ∈ l) : ∃ i, (x, i) ∈ l.zipIdx := by
  obtain ⟨i, hi, rfl⟩ := List.mem_iff_getElem.mp h
  exact ⟨i, List.mem_zipIdx_iff_getElem?.mpr (by simp [hi])⟩

theorem eigFacs_pairwise (m : BMat α) (F : Nat → Blk α → List α × Mat α) (perm : Nat → List α → List Nat)
    (hrows : m.blocks.Pairwise (fun b b' => b.qi ≠ b'.qi)) :
    (eigFacs m F perm).Pairwise (fun x y => x.1 ≠ y.1) := by
  unfold eigFacs
  rw [List.pairwise_map]
  have := (List.zipIdx_map_fst 0 m.blocks).symm
  rw [this] at hrows
  exact (List.pairwise_map (f := Prod.fst) (R := fun x y : Blk α => x.qi ≠ y.qi)).mp hrows

end TenpyModel.C05

/-- **Eigen-decomposition, assembly** (`eigh` / `eig`, any `sort`): if `A_b V_b = V_b diag(w_b)` holds for the (sorted)
factors of every stored block, then `a · V = V · diag(w)` globally; sectors without stored block contribute the
identity with eigenvalue 0. Hypotheses on the completely blocked `a`: stored blocks are diagonal (`qj = qi`; the legs
are contractible and sorted alike) and lie in pairwise different sectors. -/
theorem C05_eig_assemble {α : Type} [CommRing α] (m : BMat α) (F : Nat → Blk α → List α × Mat α)
    (perm : Nat → List α → List Nat)
    (hdiag : ∀ b ∈ m.blocks, b.qj = b.qi) (hrows : m.blocks.Pairwise (fun b b' => b.qi ≠ b'.qi))
    (hin : ∀ b ∈ m.blocks, b.qi < m.leg0.blockNumber) (hsz : m.leg0.blockSizes.length = m.leg0.blockNumber)
    (hpost : ∀ bi ∈ m.blocks.zipIdx, ∀ r s,
      ∑ c ∈ range (m.leg0.blockSizes.getD bi.1.qi 0), bi.1.m.entry r c * (eigFac F perm bi).2.entry c s
        = (eigFac F perm bi).2.entry r s * (eigFac F perm bi).1.getD s 0)
    (qi r k s : Nat) :
    bmul3 m.blocks (fun _ _ => 1) (eigAssemble m F perm).v.blocks m.leg0.blockSizes qi r k s
      = (eigAssemble m F perm).v.bentry qi r k s * eigW (eigFacs m F perm) k s := by
  have hpw := eigFacs_pairwise m F perm hrows
  rw [bmul3_left_linear _ _ _ _ (fun x hx => by rw [hsz, hdiag x hx]; exact hin x hx)]
  simp only [eigAssemble, bentry_eq_bsum, bsum_range_diag, mul_one]
  rw [sum_unique_key m.blocks (fun b => b.qi) hrows _ qi]
  cases hf : m.blocks.find? (fun b => b.qi == qi) with
  | none =>
    simp only
    by_cases hk : qi < m.leg0.blockNumber ∧ k = qi
    · have hnone : lastWithQi (eigFacs m F perm) k = none := by
        apply lastWithQi_none
        intro x hx
        obtain ⟨bi, hbi, rfl⟩ := List.mem_map.mp hx
        have := List.find?_eq_none.mp hf bi.1 (List.fst_mem_of_mem_zipIdx hbi)
        simp only [beq_iff_eq] at this
        rw [hk.2]; exact this
      simp [eigW, hnone]
    · simp [hk]
  | some b =>
    have hb := List.mem_of_find?_eq_some hf
    have hbq : b.qi = qi := by simpa using List.find?_some hf
    obtain ⟨i, hi⟩ := exists_zipIdx_of_mem hb
    have hlast : lastWithQi (eigFacs m F perm) qi = some (eigFac F perm (b, i)) := by
      have := lastWithQi_of_mem (eigFacs m F perm) hpw (b.qi, eigFac F perm (b, i))
        (List.mem_map.mpr ⟨(b, i), hi, rfl⟩)
      rw [← hbq]; exact this
    simp only [hdiag b hb, hbq]
    by_cases hk : k = qi
    · subst hk
      have hlt : k < m.leg0.blockNumber := hbq ▸ hin b hb
      have := hpost (b, i) hi r s
      simp only [hbq, List.getD_eq_getElem?_getD] at this
      simp [hlt, hlast, eigW, this]
    · simp [hk]

/-- **expm, assembly**: the result is block diagonal; its block `k` is the per-block exponential of the stored block in
sector `k`, and the identity (`= exp 0`) for a sector without stored block. (That the exponential of a block-diagonal
matrix is the block-diagonal matrix of the exponentials is `C05_expm_blockdiag` in `PropsAlgebra.lean`.) -/
theorem C05_expm_assemble {α : Type} [CommRing α] (m : BMat α) (F : Nat → Blk α → Mat α)
    (hrows : m.blocks.Pairwise (fun b b' => b.qi ≠ b'.qi)) (qi r qj s : Nat) :
    (expmAssemble m F).bentry qi r qj s
      = if qi < m.leg0.blockNumber ∧ qj = qi then
          (match m.blocks.zipIdx.find? (fun bi => bi.1.qi == qi) with
           | some bi => (F bi.2 bi.1).entry r s
           | none => (Mat.eye (m.leg0.blockSizes.getD qi 0) : Mat α).entry r s)
        else 0 := by
  simp only [expmAssemble, bentry_eq_bsum, bsum_range_diag]
  by_cases h : qi < m.leg0.blockNumber ∧ qj = qi
  · simp only [h, and_self, ↓reduceIte]
    have hpw : (m.blocks.zipIdx.map (fun bi => (bi.1.qi, F bi.2 bi.1))).Pairwise (fun x y => x.1 ≠ y.1) := by
      rw [List.pairwise_map]
      have := (List.zipIdx_map_fst 0 m.blocks).symm
      rw [this] at hrows
      exact (List.pairwise_map (f := Prod.fst) (R := fun x y : Blk α => x.qi ≠ y.qi)).mp hrows
    cases hf : m.blocks.zipIdx.find? (fun bi => bi.1.qi == qi) with
    | none =>
      rw [lastWithQi_none]
      intro x hx
      obtain ⟨bi, hbi, rfl⟩ := List.mem_map.mp hx
      simpa using List.find?_eq_none.mp hf bi hbi
    | some bi =>
      have hbi := List.mem_of_find?_eq_some hf
      have hq : bi.1.qi = qi := by simpa using List.find?_some hf
      have := lastWithQi_of_mem _ hpw (bi.1.qi, F bi.2 bi.1) (List.mem_map.mpr ⟨bi, hbi, rfl⟩)
      rw [hq] at this
      simp [this]
  · simp only [h, ↓reduceIte]

/-- **Full SVD, what holds (unitarity)**: on the sectors that ARE stored, `U` is unitary: for kept blocks `t, t'`
columns `(t.qi, c)`, `(t'.qi, c')` are orthonormal and rows likewise (same for `VH`, by symmetry). Hence `U` is unitary
if every sector of `a.legs[0]` carries a stored block — the hypothesis the real code needs and does not check. -/
theorem C05_svd_full_unitary_partial {α : Type} [CommRing α] [StarRing α] (a : BMat α) (F : Nat → Blk α → SvdFac α)
    (keepP : α → Bool) (o : SvdOpts) (qL qR : Charge) (r : SvdOut α) (hfull : o.full = true)
    (hrows : a.blocks.Pairwise (fun b b' => b.qi ≠ b'.qi))
    (hin0 : ∀ b ∈ a.blocks, b.qi < a.leg0.blockNumber)
    (hU : ∀ t ∈ svdKept a F o.cutoff keepP, ∀ c < a.leg0.blockSizes.getD t.1.qi 0,
      ∀ c' < a.leg0.blockSizes.getD t.1.qi 0,
      (∑ x ∈ range (a.leg0.blockSizes.getD t.1.qi 0), star (t.2.2.u.entry x c) * t.2.2.u.entry x c'
        = if c = c' then 1 else 0)
      ∧ (∑ x ∈ range (a.leg0.blockSizes.getD t.1.qi 0), t.2.2.u.entry c x * star (t.2.2.u.entry c' x)
        = if c = c' then 1 else 0))
    (h : svdWorker a F keepP o qL qR = .ok r)
    (t t' : Blk α × Nat × SvdFac α) (ht : t ∈ svdKept a F o.cutoff keepP) (ht' : t' ∈ svdKept a F o.cutoff keepP)
    (c c' : Nat) (hc : c < a.leg0.blockSizes.getD t.1.qi 0) (hc' : c' < a.leg0.blockSizes.getD t'.1.qi 0) :
    (∑ qi ∈ range a.leg0.blockNumber, ∑ x ∈ range (a.leg0.blockSizes.getD qi 0),
        star (r.u.bentry qi x t.1.qi c) * r.u.bentry qi x t'.1.qi c' = if t.1.qi = t'.1.qi ∧ c = c' then 1 else 0)
    ∧ (∑ qj ∈ range a.leg0.blockNumber, ∑ x ∈ range (a.leg0.blockSizes.getD qj 0),
        r.u.bentry t.1.qi c qj x * star (r.u.bentry t'.1.qi c' qj x) = if t.1.qi = t'.1.qi ∧ c = c' then 1 else 0) := by
  simp only [svdWorker, hfull] at h
  split at h
  · cases h
  · simp only [↓reduceIte, Except.ok.injEq] at h
    subst h
    have hpw := svdKept_pairwise a F o.cutoff keepP (fun b => b.qi) hrows
    constructor
    · have := biso_assemble (svdKept a F o.cutoff keepP) (fun t => (⟨t.1.qi, t.1.qi, t.2.2.u⟩ : Blk α))
        (fun t => t.1.qi) a.leg0.blockSizes a.leg0.blockSizes a.leg0.blockNumber
        (fun _ _ => rfl) hpw (fun e he => hin0 e.1 (mem_svdKept' he)) (fun _ _ _ _ hq => hq)
        (fun e he c hc c' hc' => (hU e he c hc c' hc').1) t t' ht ht' c c' hc hc'
      simpa [bentry_eq_bsum] using this
    · have := biso_assemble_row (svdKept a F o.cutoff keepP) (fun t => (⟨t.1.qi, t.1.qi, t.2.2.u⟩ : Blk α))
        (fun t => t.1.qi) a.leg0.blockSizes a.leg0.blockSizes a.leg0.blockNumber
        (fun _ _ => rfl) hpw (fun e he => hin0 e.1 (mem_svdKept' he)) (fun _ _ _ _ hq => hq)
        (fun e he c hc c' hc' => (hU e he c hc c' hc').2) t t' ht ht' c c' hc hc'
      simpa [bentry_eq_bsum] using this

/-- witness: `a` has two sectors of size 1 on each leg, only the block `(0, 0) = [[2]]` is stored (sector 1 is
zero); per-block SVD `[[2]] = [[1]] · diag(2) · [[1]]`. -/
def cexFullA : BMat Int :=
  { leg0 := { mods := [1], slices := [0, 1, 2], charges := [[0], [1]], qconj := 1, sorted := true, bunched := true },
    leg1 := { mods := [1], slices := [0, 1, 2], charges := [[0], [1]], qconj := -1, sorted := true, bunched := true },
    qtotal := [0], blocks := [⟨0, 0, [[2]]⟩] }

/-- **Full SVD, what fails (unitarity)**: the real code builds `U._qdata` from `a._qdata` only; a sector of
`a.legs[0]` without stored block gets NO block in `U`, so the corresponding column of `U` is zero: `(Uᴴ U)` at
`(sector 1, 0)` is `0`, not `1` — although the input passes `test_sanity`, the per-block factors are exact and unitary,
and the reduced SVD of the same input is an isometry (`U = [[1], [0]]`). Replayed on the implementation as `corpus` case 0 of
`harness/C05.py`. -/
theorem C05_svd_full_counterexample :
    cexFullA.sane = true ∧
    (match svdWorker cexFullA (fun _ _ => ⟨[[1]], [2], [[1]]⟩) (fun _ => true) { full := true } [0] [0] with
     | .ok r => decide (r.u.toDense = [[1, 0], [0, 0]]) && decide (r.vh.toDense = [[1, 0], [0, 0]]) && r.u.sane
                && decide (r.u.bentry 0 0 1 0 = 0 ∧ r.u.bentry 1 0 1 0 = 0)
     | .error _ => false) = true ∧
    (match svdWorker cexFullA (fun _ _ => ⟨[[1]], [2], [[1]]⟩) (fun _ => true) { full := false } [0] [0] with
     | .ok r => decide (r.u.toDense = [[1], [0]]) && decide (r.vh.toDense = [[1, 0]])
     | .error _ => false) = true := by
  decide

namespace TenpyModel.C05
variable {α : Type} [CommRing α]

theorem zipWith_map_zipIdx {β γ δ ε : Type} (l : List β) (n : Nat) (p : β → γ) (g : β × Nat → δ) (f : γ → δ → ε) :
    List.zipWith f (l.map p) ((l.zipIdx n).map g) = (l.zipIdx n).map (fun bi => f (p bi.1) (g bi)) := by
  induction l generalizing n with
  | nil => rfl
  | cons x l ih => simp [ih (n + 1)]

end TenpyModel.C05

/-- **QR, assembly (structural form, any mode)**: `Q` has one block `(qi_e, κ_e)` and `R` one block `(κ_e, qj_e)` per
factorized block `e`, with pairwise different inner indices `κ_e` (`map_qind[qi_e]`, or `qi_e` in complete mode); if
`Q_e R_e = A_e` block-wise then `Q · R` is `A` with every block in its place. (Also used for `lq` via transposition.) -/
theorem C05_qr_assemble {α : Type} [CommRing α] {E : Type} (L : List E) (fQ fR : E → Blk α) (κ : E → Nat)
    (sz : List Nat) (A : E → Mat α)
    (hQ : ∀ e ∈ L, (fQ e).qj = κ e) (hR : ∀ e ∈ L, (fR e).qi = κ e)
    (hinj : L.Pairwise (fun e e' => κ e ≠ κ e')) (hlt : ∀ e ∈ L, κ e < sz.length)
    (hpost : ∀ e ∈ L, ∀ r s,
      ∑ c ∈ range (sz.getD (κ e) 0), (fQ e).m.entry r c * (fR e).m.entry c s = (A e).entry r s)
    (qi r qj s : Nat) :
    bmul3 (L.map fQ) (fun _ _ => 1) (L.map fR) sz qi r qj s
      = (L.map (fun e => if (fQ e).qi = qi ∧ (fR e).qj = qj then (A e).entry r s else 0)).sum := by
  rw [bmul3_assemble L fQ fR κ _ sz hQ hR hinj hlt]
  apply congrArg
  apply List.map_congr_left
  intro e he
  simp only [mul_one]
  rw [hpost e he r s]

/-- **QR, assembly, `mode='complete'`** (no cutoff; any `pos_diag_R`, `qtotal_Q`, `inner_qconj`): if `Q_b R_b = A_b` for
every stored block then `Q · R = a`; the identity blocks that `qr` adds to `Q` for the sectors without stored block
(hypothesis `hextra`: these are sectors in which `a` has no block) do not contribute. -/
theorem C05_qr_assemble_complete {α : Type} [CommRing α] (a : BMat α) (F : Nat → Blk α → Mat α × Mat α)
    (phase conj : α → α) (o : QrOpts) (hc : o.complete = true) (hcut : o.cutoff = false)
    (hrows : a.blocks.Pairwise (fun b b' => b.qi ≠ b'.qi))
    (hin0 : ∀ b ∈ a.blocks, b.qi < a.leg0.blockNumber) (hsz : a.leg0.blockSizes.length = a.leg0.blockNumber)
    (hextra : ∀ x ∈ (qrWorker a F phase conj o).q.blocks.drop a.blocks.length,
      x.qj < a.leg0.blockNumber ∧ ∀ b ∈ a.blocks, b.qi ≠ x.qj)
    (hpost : ∀ bi ∈ a.blocks.zipIdx, ∀ r s,
      ∑ c ∈ range (a.leg0.blockSizes.getD bi.1.qi 0),
        (qrFac F phase conj o bi).1.entry r c * (qrFac F phase conj o bi).2.entry c s = bi.1.m.entry r s)
    (qi r qj s : Nat) :
    bmul3 (qrWorker a F phase conj o).q.blocks (fun _ _ => 1) (qrWorker a F phase conj o).r.blocks
        a.leg0.blockSizes qi r qj s = a.bentry qi r qj s := by
  -- shape of the two block lists
  have hfacs : a.blocks.zipIdx.filterMap (fun bi =>
      if o.cutoff && ((F bi.2 bi.1).1.nrows * (F bi.2 bi.1).1.ncols == 0) then none
      else some (bi.1, qrFac F phase conj o bi))
      = a.blocks.zipIdx.map (fun bi => (bi.1, qrFac F phase conj o bi)) := by
    simp [hcut]
  have hR : (qrWorker a F phase conj o).r.blocks
      = a.blocks.zipIdx.map (fun bi => (⟨bi.1.qi, bi.1.qj, (qrFac F phase conj o bi).2⟩ : Blk α)) := by
    simp only [qrWorker, hc, hfacs, Bool.not_true, Bool.false_eq_true, ↓reduceIte]
    exact zipWith_map_zipIdx a.blocks 0 _ _ _
  have hQ : ∃ extra, (qrWorker a F phase conj o).q.blocks
      = a.blocks.zipIdx.map (fun bi => (⟨bi.1.qi, bi.1.qi, (qrFac F phase conj o bi).1⟩ : Blk α)) ++ extra := by
    simp only [qrWorker, hc, hfacs, Bool.not_true, Bool.false_eq_true, ↓reduceIte]
    exact ⟨_, congrArg (· ++ _) (zipWith_map_zipIdx a.blocks 0 _ _ _)⟩
  obtain ⟨extra, hQ⟩ := hQ
  have hextra' : ∀ x ∈ extra, x.qj < a.leg0.blockNumber ∧ ∀ b ∈ a.blocks, b.qi ≠ x.qj := by
    intro x hx
    apply hextra
    rw [hQ, List.drop_append_of_le_length (by simp)]
    exact List.mem_append_right _ hx
  have hpwz : (a.blocks.zipIdx).Pairwise (fun x y => x.1.qi ≠ y.1.qi) := by
    have := (List.zipIdx_map_fst 0 a.blocks).symm
    rw [this] at hrows
    exact (List.pairwise_map (f := Prod.fst) (R := fun x y : Blk α => x.qi ≠ y.qi)).mp hrows
  rw [bmul3_left_linear _ _ _ _ (by
    intro x hx
    rw [hQ] at hx
    rcases List.mem_append.mp hx with h1 | h1
    · obtain ⟨bi, hbi, rfl⟩ := List.mem_map.mp h1
      rw [hsz]; exact hin0 _ (List.fst_mem_of_mem_zipIdx hbi)
    · rw [hsz]; exact (hextra' x h1).1)]
  rw [hQ, hR, List.map_append, List.sum_append]
  have hzero : (extra.map (fun x => if x.qi = qi then
      ∑ c ∈ range (a.leg0.blockSizes.getD x.qj 0), x.m.entry r c * 1 *
        bsum (a.blocks.zipIdx.map (fun bi => (⟨bi.1.qi, bi.1.qj, (qrFac F phase conj o bi).2⟩ : Blk α))) x.qj c qj s
      else 0)).sum = 0 := by
    apply List.sum_eq_zero
    intro y hy
    obtain ⟨x, hx, rfl⟩ := List.mem_map.mp hy
    have : ∀ c, bsum (a.blocks.zipIdx.map (fun bi => (⟨bi.1.qi, bi.1.qj, (qrFac F phase conj o bi).2⟩ : Blk α)))
        x.qj c qj s = 0 := by
      intro c
      apply bsum_eq_zero_of_qi
      intro b hb
      obtain ⟨bi, hbi, rfl⟩ := List.mem_map.mp hb
      exact (hextra' x hx).2 bi.1 (List.fst_mem_of_mem_zipIdx hbi)
    simp [this]
  rw [hzero, add_zero, List.map_map]
  rw [bentry_eq_bsum, bsum]
  have hterm : ∀ bi ∈ a.blocks.zipIdx,
      ((fun x : Blk α => if x.qi = qi then
        ∑ c ∈ range (a.leg0.blockSizes.getD x.qj 0), x.m.entry r c * 1 *
          bsum (a.blocks.zipIdx.map (fun bi => (⟨bi.1.qi, bi.1.qj, (qrFac F phase conj o bi).2⟩ : Blk α))) x.qj c qj s
        else 0) ∘ fun bi : Blk α × Nat => (⟨bi.1.qi, bi.1.qi, (qrFac F phase conj o bi).1⟩ : Blk α)) bi
      = (fun b : Blk α => if b.qi = qi ∧ b.qj = qj then b.m.entry r s else 0) bi.1 := by
    intro bi hbi
    simp only [Function.comp]
    have := bsum_unique_row a.blocks.zipIdx
      (fun bi => (⟨bi.1.qi, bi.1.qj, (qrFac F phase conj o bi).2⟩ : Blk α)) (fun bi => bi.1.qi) (fun _ _ => rfl)
      hpwz bi hbi
    simp only [this, mul_one]
    by_cases h1 : bi.1.qi = qi
    · by_cases h2 : bi.1.qj = qj
      · simp only [h1, h2, and_self, ↓reduceIte]
        rw [← h1]; exact hpost bi hbi r s
      · simp [h1, h2]
    · simp [h1]
  rw [List.map_congr_left hterm]
  exact map_fst_zipIdx_sum (α := α) a.blocks 0 (fun b : Blk α => if b.qi = qi ∧ b.qj = qj then b.m.entry r s else 0)

/-- **QR, `mode='complete'`: the identity blocks.** The blocks that `qr` appends to `Q` after the factorized ones are
exactly identity blocks `(q, q)` for the sectors `q` of `a.legs[0]` in which `a` has no stored block (the pointer walk
over the sorted `have_q_qinds` is correct). -/
theorem C05_qr_extra_blocks {α : Type} [CommRing α] (a : BMat α) (F : Nat → Blk α → Mat α × Mat α)
    (phase conj : α → α) (o : QrOpts) (hc : o.complete = true) (hcut : o.cutoff = false)
    (hrows : a.blocks.Pairwise (fun b b' => b.qi ≠ b'.qi)) :
    ∀ x ∈ (qrWorker a F phase conj o).q.blocks.drop a.blocks.length,
      x.qj < a.leg0.blockNumber ∧ (∀ b ∈ a.blocks, b.qi ≠ x.qj) ∧ x.qi = x.qj
        ∧ x.m = Mat.eye (a.leg0.blockSizes.getD x.qj 0) := by
  have hfacs : a.blocks.zipIdx.filterMap (fun bi =>
      if o.cutoff && ((F bi.2 bi.1).1.nrows * (F bi.2 bi.1).1.ncols == 0) then none
      else some (bi.1, qrFac F phase conj o bi))
      = a.blocks.zipIdx.map (fun bi => (bi.1, qrFac F phase conj o bi)) := by
    simp [hcut]
  intro x hx
  simp only [qrWorker, hc, hfacs, Bool.not_true, Bool.false_eq_true, ↓reduceIte] at hx
  rw [zipWith_map_zipIdx a.blocks 0, List.drop_append_of_le_length (by simp),
    List.drop_eq_nil_of_le (by simp), List.nil_append] at hx
  have hx' : x ∈ (if a.blocks.length < a.leg0.blockNumber then
      (missingQinds a.leg0.blockNumber (stableSort (fun x y => decide (x ≤ y)) (a.blocks.map (fun b => b.qi)))).map
        (fun qi => (⟨qi, qi, Mat.eye (a.leg0.blockSizes.getD qi 0)⟩ : Blk α)) else []) := by
    simpa [List.map_map, Function.comp_def] using hx
  split at hx'
  · obtain ⟨q, hq, rfl⟩ := List.mem_map.mp hx'
    have hnd : (a.blocks.map (fun b => b.qi)).Nodup := by
      rw [List.Nodup, List.pairwise_map]; exact hrows
    have := (missingQinds_spec _ _ (stableSort_strict _ hnd) q).mp hq
    refine ⟨this.1, ?_, rfl, rfl⟩
    intro b hb hbq
    apply this.2
    rw [(stableSort_perm _).mem_iff]
    exact List.mem_map.mpr ⟨b, hb, hbq⟩
  · cases hx'

/-- **QR, assembly, `mode='complete'`, unconditional form**: `C05_qr_assemble_complete` with its hypothesis on the
identity blocks discharged by `C05_qr_extra_blocks`. -/
theorem C05_qr_assemble_complete_full {α : Type} [CommRing α] (a : BMat α) (F : Nat → Blk α → Mat α × Mat α)
    (phase conj : α → α) (o : QrOpts) (hc : o.complete = true) (hcut : o.cutoff = false)
    (hrows : a.blocks.Pairwise (fun b b' => b.qi ≠ b'.qi))
    (hin0 : ∀ b ∈ a.blocks, b.qi < a.leg0.blockNumber) (hsz : a.leg0.blockSizes.length = a.leg0.blockNumber)
    (hpost : ∀ bi ∈ a.blocks.zipIdx, ∀ r s,
      ∑ c ∈ range (a.leg0.blockSizes.getD bi.1.qi 0),
        (qrFac F phase conj o bi).1.entry r c * (qrFac F phase conj o bi).2.entry c s = bi.1.m.entry r s)
    (qi r qj s : Nat) :
    bmul3 (qrWorker a F phase conj o).q.blocks (fun _ _ => 1) (qrWorker a F phase conj o).r.blocks
        a.leg0.blockSizes qi r qj s = a.bentry qi r qj s :=
  C05_qr_assemble_complete a F phase conj o hc hcut hrows hin0 hsz
    (fun x hx => let h := C05_qr_extra_blocks a F phase conj o hc hcut hrows x hx; ⟨h.1, h.2.1⟩) hpost qi r qj s

/-- **Flat indices ↔ block-structured indices.** A sum over the flat indices of a leg is the sum over its blocks of the
sums within the blocks; `locate` (the model of `LegCharge.get_qindex`, used by `BMat.toDense`) is the bijection. With
it every statement above about `∑ k, ∑ c` over an inner leg is the statement about the dense matrix product
`∑ j` of `toDense`. -/
theorem C05_locate_sum {M : Type} [AddCommMonoid M] (sizes : List Nat) (f : Nat → Nat → M) :
    ∑ i ∈ range sizes.sum, f (locate sizes i).1 (locate sizes i).2
      = ∑ k ∈ range sizes.length, ∑ c ∈ range (sizes.getD k 0), f k c := by
  induction sizes generalizing f with
  | nil => simp
  | cons s ss ih =>
    rw [List.sum_cons, Finset.sum_range_add, List.length_cons, Finset.sum_range_succ']
    have h1 : ∑ x ∈ range s, f (locate (s :: ss) x).1 (locate (s :: ss) x).2 = ∑ c ∈ range s, f 0 c := by
      refine Finset.sum_congr rfl (fun x hx => ?_)
      have := Finset.mem_range.mp hx
      simp [locate, this]
    have h2 : ∑ x ∈ range ss.sum, f (locate (s :: ss) (s + x)).1 (locate (s :: ss) (s + x)).2
        = ∑ x ∈ range ss.sum, (fun k c => f (k + 1) c) (locate ss x).1 (locate ss x).2 := by
      refine Finset.sum_congr rfl (fun x _ => ?_)
      simp [locate]
    rw [h1, h2, ih (fun k c => f (k + 1) c), add_comm]
    simp

/-- non-vacuity of `C05_svd_assemble` / `C05_svd_isometry`: a concrete matrix over ℤ with two stored blocks whose
per-block factors (signed permutation matrices) satisfy the post-conditions; the theorem then gives `U S VH = a`. -/
example (qi r qj s : Nat) :
    let a : BMat Int :=
      { leg0 := { mods := [1], slices := [0, 1, 2], charges := [[0], [1]], qconj := 1, sorted := true, bunched := true },
        leg1 := { mods := [1], slices := [0, 1, 2], charges := [[0], [1]], qconj := -1, sorted := true, bunched := true },
        qtotal := [0], blocks := [⟨0, 0, [[2]]⟩, ⟨1, 1, [[-3]]⟩] }
    let F : Nat → Blk Int → SvdFac Int := fun i _ => if i = 0 then ⟨[[1]], [2], [[1]]⟩ else ⟨[[-1]], [3], [[1]]⟩
    ∀ res, svdWorker a F (fun _ => true) {} [0] [0] = .ok res →
      bmul3 res.u.blocks (svdS (svdKept a F false (fun _ => true))) res.vh.blocks
        ((svdKept a F false (fun _ => true)).map (fun t => t.2.2.s.length)) qi r qj s = a.bentry qi r qj s := by
  intro a F res h
  refine C05_svd_assemble a F (fun _ => true) {} [0] [0] res rfl rfl ?_ h qi r qj s
  intro bi hbi
  have : bi = (⟨0, 0, [[2]]⟩, 0) ∨ bi = (⟨1, 1, [[-3]]⟩, 1) := by simpa [a] using hbi
  rcases this with rfl | rfl <;> intro r s <;> rcases r with _ | r <;> rcases s with _ | s <;>
    simp [F, Mat.entry]

/-- **QR/LQ, isometry (structural form, any mode)**: `Q` has one block `(qi_e, κ_e)` per element `e` (factorized block
or identity block of a zero sector), different elements in different row sectors and different inner blocks, every
block with orthonormal columns ⇒ `Qᴴ Q = 1` on the inner leg. (Instance of the general lemma `biso_assemble`;
`C05_qr_extra_blocks` shows that the identity blocks of complete mode sit in sectors of their own.) -/
theorem C05_qr_isometry {α : Type} [CommRing α] [StarRing α] {E : Type} (L : List E) (fQ : E → Blk α) (κ : E → Nat)
    (sz0 sz : List Nat) (n0 : Nat)
    (hκ : ∀ e ∈ L, (fQ e).qj = κ e) (hinj : L.Pairwise (fun e e' => κ e ≠ κ e'))
    (hqi : ∀ e ∈ L, (fQ e).qi < n0) (hrow : ∀ e ∈ L, ∀ e' ∈ L, (fQ e).qi = (fQ e').qi → κ e = κ e')
    (hiso : ∀ e ∈ L, ∀ c < sz.getD (κ e) 0, ∀ c' < sz.getD (κ e) 0,
      ∑ r ∈ range (sz0.getD (fQ e).qi 0), star ((fQ e).m.entry r c) * (fQ e).m.entry r c' = if c = c' then 1 else 0)
    (e e' : E) (he : e ∈ L) (he' : e' ∈ L) (c c' : Nat) (hc : c < sz.getD (κ e) 0) (hc' : c' < sz.getD (κ e') 0) :
    ∑ qi ∈ range n0, ∑ r ∈ range (sz0.getD qi 0),
        star (bsum (L.map fQ) qi r (κ e) c) * bsum (L.map fQ) qi r (κ e') c' = if κ e = κ e' ∧ c = c' then 1 else 0 :=
  biso_assemble L fQ κ sz0 sz n0 hκ hinj hqi hrow hiso e e' he he' c c' hc hc'

/-- **LQ** is QR of the transpose, transposed back (as coded): `L = Rᵀ`, `Q_lq = Q_qrᵀ`; with
`C05_transpose_bentry` every statement about `qr` transfers to `lq`. -/
theorem C05_lq {α : Type} [Zero α] [One α] [Mul α] (a : BMat α) (F : Nat → Blk α → Mat α × Mat α) (phase conj : α → α)
    (o : QrOpts) :
    (lq a F phase conj o).r = (qr a.transpose F phase conj o).r.transpose
    ∧ (lq a F phase conj o).q = (qr a.transpose F phase conj o).q.transpose := ⟨rfl, rfl⟩

/-- entries of the transposed matrix (`Array.transpose`), for blocks whose shapes fit the legs -/
theorem C05_transpose_bentry {α : Type} [CommRing α] (a : BMat α)
    (hshape : ∀ b ∈ a.blocks, b.m.length = a.leg0.blockSizes.getD b.qi 0)
    (qi r qj s : Nat) (hr : r < a.leg0.blockSizes.getD qi 0) (hs : s < a.leg1.blockSizes.getD qj 0) :
    a.transpose.bentry qj s qi r = a.bentry qi r qj s := by
  simp only [BMat.transpose, bentry_eq_bsum, bsum, List.map_map]
  apply congrArg
  apply List.map_congr_left
  intro b hb
  simp only [Function.comp, Mat.transpose]
  by_cases h : b.qi = qi ∧ b.qj = qj
  · obtain ⟨h1, h2⟩ := h
    simp only [h1, h2, and_self, ↓reduceIte]
    rw [entry_ofFn]
    have := hshape b hb
    rw [h1] at this
    rw [if_pos ⟨hs, by rw [this]; exact hr⟩]
  · have : ¬(b.qj = qj ∧ b.qi = qi) := fun h' => h ⟨h'.2, h'.1⟩
    simp [h, this]

/-- non-vacuity of `C05_eig_assemble`: three sectors, the middle one without stored block; blocks `[[2]]` and
`[[0, 1], [1, 0]]` with eigen-decompositions `(2; 1)` and `(1, -1; columns (1,1), (1,-1))` (unnormalised, the theorem
needs only `A_b V_b = V_b diag(w_b)`): the assembled `V`, `w` satisfy `a V = V diag(w)`. -/
example (qi r k s : Nat) :
    let m : BMat Int :=
      { leg0 := { mods := [1], slices := [0, 1, 2, 4], charges := [[0], [1], [2]], qconj := 1, sorted := true, bunched := true },
        leg1 := { mods := [1], slices := [0, 1, 2, 4], charges := [[0], [1], [2]], qconj := -1, sorted := true, bunched := true },
        qtotal := [0], blocks := [⟨2, 2, [[0, 1], [1, 0]]⟩, ⟨0, 0, [[2]]⟩] }
    let F : Nat → Blk Int → List Int × Mat Int :=
      fun i _ => if i = 0 then ([1, -1], [[1, 1], [1, -1]]) else ([2], [[1]])
    let perm : Nat → List Int → List Nat := fun _ w => List.range w.length
    bmul3 m.blocks (fun _ _ => 1) (eigAssemble m F perm).v.blocks m.leg0.blockSizes qi r k s
      = (eigAssemble m F perm).v.bentry qi r k s * eigW (eigFacs m F perm) k s := by
  intro m F perm
  refine C05_eig_assemble m F perm (by decide) (by decide) (by decide) (by decide) ?_ qi r k s
  intro bi hbi
  have : bi = (⟨2, 2, [[0, 1], [1, 0]]⟩, 0) ∨ bi = (⟨0, 0, [[2]]⟩, 1) := by simpa [m] using hbi
  rcases this with rfl | rfl
  · intro r s
    have hsz : m.leg0.blockSizes.getD 2 0 = 2 := by decide
    simp only [hsz]
    rcases r with _ | _ | r <;> rcases s with _ | _ | s <;>
      simp [eigFac, F, perm, Mat.entry, Mat.takeCols, Finset.sum_range_succ]
  · intro r s
    have hsz : m.leg0.blockSizes.getD 0 0 = 1 := by decide
    simp only [hsz]
    rcases r with _ | r <;> rcases s with _ | s <;>
      simp [eigFac, F, perm, Mat.entry, Mat.takeCols]
