import TenpyModel.C05.BMat
/-
C05 model, part 2: the assembly bookkeeping of the matrix factorizations of
`tenpy/linalg/np_conserved.py`. The per-block LAPACK/scipy call is a PARAMETER `F` (given the position of the
block in `a._qdata` and the block); nothing is assumed about it here — the theorems in `Props*.lean` assume
its post-condition only.

  svdWorker / svd          `_svd_worker`, `svd`
  qrWorker / qr / lq       `qr`, `lq`
  eigWorker / eigvalsWorker `_eig_worker`, `_eigvals_worker`
  expm                     `expm`
  orthoColumns             `orthogonal_columns`
  pinv / polar             `pinv`, `polar` (on top of `svd`; the tensordot is written block-wise)
  speigsSelect             block selection of `speigs`
-/
namespace TenpyModel.C05
open TenpyModel.Core

inductive Err where
  | valueError | runtimeError | notImplemented
deriving Repr, DecidableEq

def csub (a b : Charge) : Charge := cadd a (cneg b)

abbrev Labels := List (Option String)

/-! ### SVD -/

structure SvdFac (α : Type) where
  u  : Mat α
  s  : List α
  vh : Mat α
deriving Repr, DecidableEq

structure SvdOpts where
  full       : Bool := false
  computeUV  : Bool := true
  cutoff     : Bool := false           -- `cutoff is not None`
  qL         : Option Charge := none
  qR         : Option Charge := none
  innerQconj : Int := 1
deriving Repr, DecidableEq

structure SvdOut (α : Type) where
  u  : BMat α
  s  : List α
  vh : BMat α
deriving Repr, DecidableEq

/-- resolution of `qtotal_LR` in `svd` -/
def svdQtotalLR (mods : List Nat) (qtotal : Charge) (qL qR : Option Charge) : Except Err (Charge × Charge) :=
  match qL, qR with
  | none, none => .ok (makeValid mods (csub qtotal qtotal), qtotal)
  | none, some r => .ok (makeValid mods (csub qtotal r), r)
  | some l, none => .ok (l, makeValid mods (csub qtotal l))
  | some l, some r => if qtotal ≠ makeValid mods (cadd l r) then .error .valueError else .ok (l, r)

/-- `S_b > cutoff` filter of one block -/
def svdCut [Zero α] (cutoff : Bool) (keepP : α → Bool) (f : SvdFac α) : SvdFac α :=
  if cutoff then
    let keep := (List.range f.s.length).filter (fun i => match f.s[i]? with | some x => keepP x | none => false)
    ⟨f.u.takeCols keep, keep.filterMap (fun i => f.s[i]?), f.vh.takeRows keep⟩
  else f

/-- the blocks of `a` that contribute singular values, with their (cut) factors: `blocks_kept` -/
def svdKept [Zero α] (a : BMat α) (F : Nat → Blk α → SvdFac α) (cutoff : Bool) (keepP : α → Bool) :
    List (Blk α × Nat × SvdFac α) :=
  (a.blocks.zipIdx.map (fun bi => (bi.1, bi.2, svdCut cutoff keepP (F bi.2 bi.1)))).filter
    (fun t => decide (0 < t.2.2.s.length))

/-- charges of the new (right) inner leg: `make_valid((qtotal_R - a.legs[1].get_charge(qi_R)) * inner_qconj)` -/
def svdNewCharge (mods : List Nat) (leg1 : Leg) (qR : Charge) (iq : Int) (qj : Nat) : Charge :=
  makeValid mods (cscale iq (csub qR (leg1.getCharge qj)))

/-- `_svd_worker` (compute_uv = True; for compute_uv = False only `s` of the result is returned by `svd`) -/
def svdWorker [Zero α] (a : BMat α) (F : Nat → Blk α → SvdFac α) (keepP : α → Bool) (o : SvdOpts)
    (qL qR : Charge) : Except Err (SvdOut α) :=
  let mods := a.leg0.mods
  let kept := svdKept a F o.cutoff keepP
  if kept.isEmpty then .error .runtimeError else
  let s := kept.flatMap (fun t => t.2.2.s)
  if o.full then
    .ok { u := { leg0 := a.leg0, leg1 := a.leg0.conj, qtotal := makeValid mods qL,
                 blocks := kept.map (fun t => ⟨t.1.qi, t.1.qi, t.2.2.u⟩) },
          s := s,
          vh := { leg0 := a.leg1.conj, leg1 := a.leg1, qtotal := makeValid mods qR,
                  blocks := kept.map (fun t => ⟨t.1.qj, t.1.qj, t.2.2.vh⟩) } }
  else
    let slices := slicesOfSizes (kept.map (fun t => t.2.2.s.length))
    let chs := kept.map (fun t => svdNewCharge mods a.leg1 qR o.innerQconj t.1.qj)
    let newR := Leg.fromQind mods slices chs o.innerQconj
    .ok { u := { leg0 := a.leg0, leg1 := newR.conj, qtotal := makeValid mods qL,
                 blocks := kept.zipIdx.map (fun tk => ⟨tk.1.1.qi, tk.2, tk.1.2.2.u⟩) },
          s := s,
          vh := { leg0 := newR, leg1 := a.leg1, qtotal := makeValid mods qR,
                  blocks := kept.zipIdx.map (fun tk => ⟨tk.2, tk.1.1.qj, tk.1.2.2.vh⟩) } }

/-- `svd`: argument check, blocking, `qtotal_LR`, worker, un-blocking. Labels: `U: [a0, labL]`, `VH: [labR, a1]`. -/
def svd [Zero α] (a : BMat α) (F : Nat → Blk α → SvdFac α) (keepP : α → Bool) (o : SvdOpts) :
    Except Err (SvdOut α) :=
  if o.full && (!o.computeUV || o.cutoff) then .error .valueError else
  let p := asCompletelyBlocked a
  match svdQtotalLR a.leg0.mods a.qtotal o.qL o.qR with
  | .error e => .error e
  | .ok (qL, qR) =>
    match svdWorker p.mat F keepP o qL qR with
    | .error e => .error e
    | .ok r => .ok { u := splitLegs r.u p.pipe0 none, s := r.s, vh := splitLegs r.vh none p.pipe1 }

/-! ### QR / LQ -/

structure QrOpts where
  complete   : Bool := false
  cutoff     : Bool := false
  posDiag    : Bool := false
  qtotalQ    : Option Charge := none
  innerQconj : Int := 1
deriving Repr, DecidableEq

/-- `pos_diag_R`: `phase = r_diag / |r_diag|`; `q[:, :K] *= phase`, `r[:K, :] *= conj(phase)`.
`phase` and `conj` are parameters (as coded: `phase r = r / |r|`). -/
def posDiagFix [Zero α] [Mul α] (phase conj : α → α) (q r : Mat α) : Mat α × Mat α :=
  let k := min r.nrows r.ncols
  let ph := (List.range k).map (fun i => phase (r.entry i i))
  (List.map (fun row => row.zipIdx.map (fun xj => match ph[xj.2]? with | some p => xj.1 * p | none => xj.1)) q,
   r.zipIdx.map (fun ri => match ph[ri.2]? with | some p => ri.1.map (fun y => y * conj p) | none => ri.1))

/-- boolean mask with `[b, b+n)` set -/
def maskSet (mask : List Bool) (b n : Nat) : List Bool :=
  mask.zipIdx.map (fun mi => mi.1 || (decide (b ≤ mi.2) && decide (mi.2 < b + n)))

/-- `have_q_qinds` pointer walk of `qr(mode='complete')`: qindices of `a.legs[0]` without a stored block -/
def missingQinds (bn : Nat) (haveQ : List Nat) : List Nat :=
  let rec go (fuel qi x : Nat) : List Nat :=
    match fuel with
    | 0 => []
    | fuel + 1 => if haveQ.getD x bn = qi then go fuel (qi + 1) (x + 1) else qi :: go fuel (qi + 1) x
  go bn 0 0

structure QrOut (α : Type) where
  q : BMat α
  r : BMat α
deriving Repr, DecidableEq

/-- the new inner leg of `qr`: `a_leg0` (as `LegCharge`), projected onto `mask` unless `mode = 'complete'`, gauged by
`qtotal_Q` (`charges - qconj * qtotal_Q`) and turned to direction `inner_qconj` (`charges ↦ -charges`).
Returns `(map_qind, inner_leg)`; `R.legs[0] = inner_leg`, `Q.legs[1] = inner_leg.conj()`. -/
def qrInner (leg0 : Leg) (mask : List Bool) (o : QrOpts) : List Int × Leg :=
  let mods := leg0.mods
  let pr := leg0.project mask
  let inner0 := if o.complete then leg0 else pr.2.2
  let qQ := o.qtotalQ.map (makeValid mods)
  let inner1 := match qQ with
    | some q => { inner0 with charges := inner0.charges.map (fun c => makeValid mods (csub c (cscale inner0.qconj q))),
                              sorted := false }
    | none => inner0
  let inner := if inner1.qconj ≠ o.innerQconj then
      { inner1 with charges := inner1.charges.map (fun c => makeValid mods (cneg c)), sorted := false,
                    qconj := o.innerQconj }
    else inner1
  (pr.1, inner)

/-- `(q_block, r_block)` of one stored block, after the optional phase fix -/
def qrFac [Zero α] [Mul α] (F : Nat → Blk α → Mat α × Mat α) (phase conj : α → α) (o : QrOpts) (bi : Blk α × Nat) :
    Mat α × Mat α :=
  let f := F bi.2 bi.1
  if o.posDiag then posDiagFix phase conj f.1 f.2 else f

/-- the part of `qr` between `as_completely_blocked` and `split_legs` -/
def qrWorker [Zero α] [One α] [Mul α] (a : BMat α) (F : Nat → Blk α → Mat α × Mat α) (phase conj : α → α)
    (o : QrOpts) : QrOut α :=
  let mods := a.leg0.mods
  -- per stored block: factors (after the optional phase fix); with a cutoff empty `q` blocks are skipped
  let facs := a.blocks.zipIdx.filterMap (fun bi =>
    if o.cutoff && ((F bi.2 bi.1).1.nrows * (F bi.2 bi.1).1.ncols == 0) then none
    else some (bi.1, qrFac F phase conj o bi))
  let mask := facs.foldl (fun m t => maskSet m (a.leg0.slices.getD t.1.qi 0) t.2.1.ncols)
                (List.replicate a.leg0.indLen false)
  let mi := qrInner a.leg0 mask o
  let mapQ := mi.1
  let inner := mi.2
  let qQ := o.qtotalQ.map (makeValid mods)
  let qtotQ := makeValid mods (qQ.getD (czero mods.length))
  let qtotR := makeValid mods (csub a.qtotal qtotQ)
  let qd := a.blocks.map (fun b => (b.qi, b.qj))
  if !o.complete then
    -- `q._qdata[:, 1] = map_qind[q._qdata[:, 0]]`, rows with `-1` dropped; `_data[k]` pairs with the k-th row left
    let rows := qd.filterMap (fun ij => let k := mapQ.getD ij.1 (-1); if k < 0 then none else some (ij.1, k.toNat, ij.2))
    { q := { leg0 := a.leg0, leg1 := inner.conj, qtotal := qtotQ,
             blocks := List.zipWith (fun row t => ⟨row.1, row.2.1, t.2.1⟩) rows facs },
      r := { leg0 := inner, leg1 := a.leg1, qtotal := qtotR,
             blocks := List.zipWith (fun row t => ⟨row.2.1, row.2.2, t.2.2⟩) rows facs } }
  else
    let qblocks := List.zipWith (fun ij (t : Blk α × Mat α × Mat α) => (⟨ij.1, ij.1, t.2.1⟩ : Blk α)) qd facs
    let extra : List (Blk α) := if facs.length < a.leg0.blockNumber then
        (missingQinds a.leg0.blockNumber (stableSort (fun x y => decide (x ≤ y)) (qd.map (·.1)))).map
          (fun qi => ⟨qi, qi, Mat.eye (a.leg0.blockSizes.getD qi 0)⟩)
      else []
    { q := { leg0 := a.leg0, leg1 := inner.conj, qtotal := qtotQ, blocks := qblocks ++ extra },
      r := { leg0 := inner, leg1 := a.leg1, qtotal := qtotR,
             blocks := List.zipWith (fun ij (t : Blk α × Mat α × Mat α) => (⟨ij.1, ij.2, t.2.2⟩ : Blk α)) qd facs } }

/-- `qr`. Labels: `Q: [a0, label_Q]`, `R: [label_R, a1]`. -/
def qr [Zero α] [One α] [Mul α] (a : BMat α) (F : Nat → Blk α → Mat α × Mat α) (phase conj : α → α)
    (o : QrOpts) : QrOut α :=
  let p := asCompletelyBlocked a
  let w := qrWorker p.mat F phase conj o
  { q := splitLegs w.q p.pipe0 none, r := splitLegs w.r none p.pipe1 }

/-- `lq`: `qr(a.transpose())`, both results transposed. Returns `(L, Q)` as `QrOut.r`, `QrOut.q`. -/
def lq [Zero α] [One α] [Mul α] (a : BMat α) (F : Nat → Blk α → Mat α × Mat α) (phase conj : α → α)
    (o : QrOpts) : QrOut α :=
  let w := qr a.transpose F phase conj o
  { q := w.q.transpose, r := w.r.transpose }

/-! ### eig / eigh / eigvals / expm -/

/-- the common argument check of `_eig_worker`, `_eigvals_worker`, `expm`, `speigs` -/
def squareCheck (a : BMat α) (qtotalErr : Err) : Except Err Unit :=
  if a.leg0.indLen ≠ a.leg1.indLen then .error .valueError
  else if !a.leg0.testContractible a.leg1 then .error .valueError
  else if a.qtotal ≠ makeValid a.leg0.mods (czero a.leg0.mods.length) then .error qtotalErr
  else .ok ()

/-- the last stored block with row qindex `k` (later blocks overwrite earlier ones in `resv._data[qi] = rv`) -/
def lastWithQi {β : Type} (l : List (Nat × β)) (k : Nat) : Option β :=
  (l.reverse.find? (fun t => t.1 == k)).map (·.2)

/-- replace `w[b:e]` -/
def setSlice (w : List α) (b : Nat) (v : List α) : List α := w.take b ++ v ++ w.drop (b + v.length)

structure EigOut (α : Type) where
  w : List α
  v : BMat α
deriving Repr, DecidableEq

/-- `(rw, rv)` of one block after the optional sorting -/
def eigFac [Zero α] (F : Nat → Blk α → List α × Mat α) (perm : Nat → List α → List Nat) (bi : Blk α × Nat) :
    List α × Mat α :=
  let f := F bi.2 bi.1
  let pm := perm bi.2 f.1
  (pm.map (fun i => f.1.getD i 0), f.2.takeCols pm)

/-- per stored block of the blocked matrix: `(row qindex, (sorted eigenvalues, sorted eigenvectors))` -/
def eigFacs [Zero α] (m : BMat α) (F : Nat → Blk α → List α × Mat α) (perm : Nat → List α → List Nat) :
    List (Nat × List α × Mat α) :=
  m.blocks.zipIdx.map (fun bi => (bi.1.qi, eigFac F perm bi))

/-- the loop of `_eig_worker` on the completely blocked matrix `m`: `resv = diag(1.0, leg0)` with the blocks of the
stored sectors replaced, `resw = 0` with their slices replaced. -/
def eigAssemble [Zero α] [One α] (m : BMat α) (F : Nat → Blk α → List α × Mat α) (perm : Nat → List α → List Nat) :
    EigOut α :=
  let facs := eigFacs m F perm
  { w := facs.foldl (fun w t => setSlice w (m.leg0.slices.getD t.1 0) t.2.1) (List.replicate m.leg0.indLen 0),
    v := { leg0 := m.leg0, leg1 := m.leg0.conj, qtotal := makeValid m.leg0.mods (czero m.leg0.mods.length),
           blocks := (List.range m.leg0.blockNumber).map (fun k =>
             ⟨k, k, match lastWithQi facs k with
                     | some f => f.2
                     | none => Mat.eye (m.leg0.blockSizes.getD k 0)⟩) } }

/-- `_eig_worker`: `F` = `np.linalg.eigh/eig` of the block, `perm` = `argsort(rw, sort)` (identity for
`sort=None`); zero sectors keep eigenvalue 0 and the identity. -/
def eigWorker [Zero α] [One α] (a : BMat α) (F : Nat → Blk α → List α × Mat α) (perm : Nat → List α → List Nat) :
    Except Err (EigOut α) :=
  match squareCheck a .valueError with
  | .error e => .error e
  | .ok () =>
    let p := asCompletelyBlocked a
    let r := eigAssemble p.mat F perm
    .ok { w := r.w, v := splitLegs r.v p.pipe0 none }

/-- `_eigvals_worker` -/
def eigvalsWorker [Zero α] (a : BMat α) (F : Nat → Blk α → List α) (perm : Nat → List α → List Nat) :
    Except Err (List α) :=
  match squareCheck a .valueError with
  | .error e => .error e
  | .ok () =>
    let m := (asCompletelyBlocked a).mat
    let facs := m.blocks.zipIdx.map (fun bi =>
      let f := F bi.2 bi.1
      (bi.1.qi, (perm bi.2 f).map (fun i => f.getD i 0)))
    .ok (facs.foldl (fun w t => setSlice w (m.leg0.slices.getD t.1 0) t.2) (List.replicate m.leg0.indLen 0))

/-- the loop of `expm` on the completely blocked matrix `m` -/
def expmAssemble [Zero α] [One α] (m : BMat α) (F : Nat → Blk α → Mat α) : BMat α :=
  let facs := m.blocks.zipIdx.map (fun bi => (bi.1.qi, F bi.2 bi.1))
  { leg0 := m.leg0, leg1 := m.leg0.conj, qtotal := makeValid m.leg0.mods (czero m.leg0.mods.length),
    blocks := (List.range m.leg0.blockNumber).map (fun k =>
      ⟨k, k, match lastWithQi facs k with
              | some f => f
              | none => Mat.eye (m.leg0.blockSizes.getD k 0)⟩) }

/-- `expm`: block-diagonal; sectors without a stored block keep the identity. The result has legs
`(leg0, leg0.conj())` of the blocked matrix and is split on every piped axis with the pipe of leg 0. -/
def expm [Zero α] [One α] (a : BMat α) (F : Nat → Blk α → Mat α) : Except Err (BMat α) :=
  match squareCheck a .notImplemented with
  | .error e => .error e
  | .ok () =>
    let p := asCompletelyBlocked a
    .ok (splitLegs (expmAssemble p.mat F) p.pipe0 (if p.pipe1.isSome then p.pipe0.map Pipe.conj else none))

/-! ### orthogonal_columns -/

/-- `orthogonal_columns`: `F` = `np.linalg.qr(block, 'complete')[0]`. -/
def orthoColumns [Zero α] [One α] (a : BMat α) (F : Nat → Blk α → Mat α) : Except Err (BMat α) :=
  let mM := a.leg0.indLen
  let nN := a.leg1.indLen
  if mM < nN then .error .valueError
  else if mM = nN then
    .ok { leg0 := a.leg0, leg1 := Leg.mk' a.leg0.mods [0] [] a.leg1.qconj, qtotal := a.qtotal, blocks := [] }
  else
    let p := asCompletelyBlocked a
    let m := p.mat
    let left := m.leg0
    let sizes := left.blockSizes
    -- stored blocks by ascending row qindex (`np.argsort(a._qdata[:, 0])`)
    let ord := stableSort (fun (x y : Blk α × Nat) => decide (x.1.qi ≤ y.1.qi)) m.blocks.zipIdx
    -- walk: (next expected left qindex, produced (left qi, block))
    let step := fun (st : Nat × List (Nat × Mat α)) (bi : Blk α × Nat) =>
      let gaps := (List.range (bi.1.qi - st.1)).map (fun t => (st.1 + t, (Mat.eye (sizes.getD (st.1 + t) 0) : Mat α)))
      let bm := bi.1.m.nrows
      let bn := bi.1.m.ncols
      let own := if bn < bm then [(bi.1.qi, (F bi.2 bi.1).takeCols ((List.range (bm - bn)).map (· + bn)))] else []
      (bi.1.qi + 1, st.2 ++ gaps ++ own)
    let st := ord.foldl step (0, [])
    let tail := (List.range (left.blockNumber - st.1)).map (fun t => (st.1 + t, (Mat.eye (sizes.getD (st.1 + t) 0) : Mat α)))
    let prod := st.2 ++ tail
    let rq := m.leg1.qconj
    let rcharges := prod.map (fun t => makeValid left.mods (cscale rq (csub m.qtotal (left.getCharge t.1))))
    let right := Leg.mk' left.mods (slicesOfSizes (prod.map (fun t => t.2.ncols))) rcharges rq
    let o : BMat α := { leg0 := left, leg1 := right, qtotal := m.qtotal,
                        blocks := prod.zipIdx.map (fun tk => ⟨tk.1.1, tk.2, tk.1.2⟩) }
    .ok (splitLegs o p.pipe0 none)

/-! ### pinv, polar (block-wise form of the tensordots) -/

/-- conjugate transpose of an `r × c` block -/
def Mat.ctrans [Zero α] (conj : α → α) (m : Mat α) (c : Nat) : Mat α := (m.transpose c).map conj

/-- `pinv` of a completely blocked matrix: for every kept block `P[qj, qi] = VH_bᴴ diag(1/S_b) U_bᴴ`;
legs `(leg1.conj(), leg0.conj())`, total charge `-(qL + qR)`. -/
def pinvBlocked [Zero α] [Add α] [Mul α] (a : BMat α) (F : Nat → Blk α → SvdFac α) (keepP : α → Bool)
    (inv conj : α → α) : Except Err (BMat α) :=
  match svdQtotalLR a.leg0.mods a.qtotal none none with
  | .error e => .error e
  | .ok (qL, qR) =>
    let kept := svdKept a F true keepP
    if kept.isEmpty then .error .runtimeError else
    .ok { leg0 := a.leg1.conj, leg1 := a.leg0.conj,
          qtotal := makeValid a.leg0.mods (cneg (cadd (makeValid a.leg0.mods qR) (makeValid a.leg0.mods qL))),
          blocks := kept.map (fun t =>
            let f := t.2.2
            let k := f.s.length
            ⟨t.1.qj, t.1.qi,
             Mat.mul (Mat.scaleCols (Mat.ctrans conj f.vh (a.leg1.blockSizes.getD t.1.qj 0)) (f.s.map inv)) k
                     (Mat.ctrans conj f.u k) (a.leg0.blockSizes.getD t.1.qi 0)⟩) }

/-- `polar` of a completely blocked matrix: `u[qi, qj] = W_b VH_b`, `p[qj, qj] = VH_bᴴ S_b VH_b` (`left = False`)
or `p[qi, qi] = W_b S_b W_bᴴ` (`left = True`). -/
def polarBlocked [Zero α] [Add α] [Mul α] (a : BMat α) (F : Nat → Blk α → SvdFac α) (keepP : α → Bool)
    (conj : α → α) (left : Bool) : Except Err (BMat α × BMat α) :=
  match svdQtotalLR a.leg0.mods a.qtotal none none with
  | .error e => .error e
  | .ok (qL, qR) =>
    let mods := a.leg0.mods
    let kept := svdKept a F true keepP
    if kept.isEmpty then .error .runtimeError else
    let u : BMat α :=
     { leg0 := a.leg0, leg1 := a.leg1, qtotal := makeValid mods (cadd (makeValid mods qL) (makeValid mods qR)),
       blocks := kept.map (fun t => ⟨t.1.qi, t.1.qj,
        Mat.mul t.2.2.u t.2.2.s.length t.2.2.vh (a.leg1.blockSizes.getD t.1.qj 0)⟩) }
    let p : BMat α :=
      if left then
        { leg0 := a.leg0, leg1 := a.leg0.conj, qtotal := makeValid mods (csub (makeValid mods qL) (makeValid mods qL)),
          blocks := kept.map (fun t =>
            let k := t.2.2.s.length
            ⟨t.1.qi, t.1.qi, Mat.mul (Mat.scaleCols t.2.2.u t.2.2.s) k (Mat.ctrans conj t.2.2.u k)
                                (a.leg0.blockSizes.getD t.1.qi 0)⟩) }
      else
        { leg0 := a.leg1.conj, leg1 := a.leg1, qtotal := makeValid mods (csub (makeValid mods qR) (makeValid mods qR)),
          blocks := kept.map (fun t =>
            let k := t.2.2.s.length
            let n := a.leg1.blockSizes.getD t.1.qj 0
            ⟨t.1.qj, t.1.qj, Mat.mul (Mat.scaleCols (Mat.ctrans conj t.2.2.vh n) t.2.2.s) k t.2.2.vh n⟩) }
    .ok (u, p)

/-! ### speigs: selection of the block -/

/-- `speigs`: index (in `a._qdata`) of the first stored block whose row charge is `sector`, else the qindex of the
(zero) sector in `a.legs[0]`. `inl i`: stored block `i`; `inr qi`: zero sector `qi`. -/
def speigsSelect (a : BMat α) (sector : Charge) : Except Err (Nat ⊕ Nat) :=
  let mods := a.leg0.mods
  let sec := makeValid mods sector
  match a.blocks.zipIdx.find? (fun bi => makeValid mods (a.leg0.getCharge bi.1.qi) == sec) with
  | some bi => .ok (.inl bi.2)
  | none =>
    match (List.range a.leg0.blockNumber).find? (fun qi => makeValid mods (a.leg0.getCharge qi) == sec) with
    | some qi => .ok (.inr qi)
    | none => .error .valueError

end TenpyModel.C05
