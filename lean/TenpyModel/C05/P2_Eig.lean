import TenpyModel.C05.PropsAssemble
import TenpyModel.C05.PropsCharge
/-!
C05 / Props2 helpers, part 4: which stored blocks `_eig_worker` can meet (charge rule + contractible legs), and the
eigen-equation assembly with a general matching of column sectors to row sectors.
-/
namespace TenpyModel.C05.P2
open TenpyModel.Core TenpyModel.C05 Finset

theorem mv1_of_valid (m : Nat) (x : Int) (h : cv1 m x = true) : mv1 m x = x := by
  unfold cv1 at h; unfold mv1
  split
  · rfl
  · rename_i hm
    have hb : (m == 1) = false := by simpa using hm
    simp only [hb, Bool.false_or, Bool.and_eq_true, decide_eq_true_eq] at h
    exact Int.emod_eq_of_lt h.1 h.2

/-- one component: charge rule of the block `(x, y)` with total charge 0, and `z` is the partner of `y` -/
theorem mv1_partner (m : Nat) (q0 q1 x y z : Int) (hq0 : q0 = 1 ∨ q0 = -1)
    (hrule : mv1 m (q0 * x + q1 * y) = mv1 m 0) (hpart : mv1 m (q0 * z) = mv1 m (-q1 * y)) :
    mv1 m x = mv1 m z := by
  have A : ceq m (q0 * x + q1 * y) 0 := hrule
  have B : ceq m (q0 * z) (-q1 * y) := hpart
  have C : ceq m (q0 * x) (q0 * z) := by
    have h1 : ceq m (q0 * x) ((q0 * x + q1 * y) + (-q1 * y)) := ceq_of_eq (by ring)
    have h2 : ceq m ((q0 * x + q1 * y) + (-q1 * y)) (0 + (-q1 * y)) := A.add (ceq_refl m _)
    have h3 : ceq m (0 + (-q1 * y)) (-q1 * y) := ceq_of_eq (by ring)
    exact h1.trans (h2.trans (h3.trans B.symm))
  have D := C.mul_left q0
  have e1 : q0 * (q0 * x) = x := by rcases hq0 with rfl | rfl <;> ring
  have e2 : q0 * (q0 * z) = z := by rcases hq0 with rfl | rfl <;> ring
  rw [e1, e2] at D
  exact D

theorem cv1_of_checkValid (mods : List Nat) (x : Charge) (h : checkValid mods x = true) (i : Nat)
    (hi : i < mods.length) (hx : i < x.length) : cv1 mods[i] x[i] = true := by
  simp only [checkValid, Bool.and_eq_true, beq_iff_eq, List.all_eq_true] at h
  have hm : (List.zipWith cv1 mods x)[i]'(by simp; omega) ∈ List.zipWith cv1 mods x := List.getElem_mem _
  have := h.2 _ hm
  simpa [List.getElem_zipWith] using this

/-- vector form: a stored block `(x, y)` of a matrix with total charge 0 sits in the row sector whose charge is the
partner (`test_contractible`) of its column sector -/
theorem charge_partner (mods : List Nat) (q0 q1 : Int) (x y z : Charge) (hq0 : q0 = 1 ∨ q0 = -1)
    (hx : checkValid mods x = true) (hz : checkValid mods z = true) (hy : y.length = mods.length)
    (hrule : makeValid mods (cadd (cscale q0 x) (cscale q1 y)) = makeValid mods (czero mods.length))
    (hpart : makeValid mods (cscale q0 z) = makeValid mods (cscale (-q1) y)) : x = z := by
  have hxl : x.length = mods.length := by
    simp only [checkValid, Bool.and_eq_true, beq_iff_eq] at hx; exact hx.1
  have hzl : z.length = mods.length := by
    simp only [checkValid, Bool.and_eq_true, beq_iff_eq] at hz; exact hz.1
  apply List.ext_getElem (by omega)
  intro i h1 h2
  have hi : i < mods.length := by omega
  have r1 := List.getElem_of_eq hrule (i := i) (by simp [hxl, hy, hi])
  have r2 := List.getElem_of_eq hpart (i := i) (by simp [hzl, hi])
  simp only [makeValid, cadd, cscale, czero, List.getElem_zipWith, List.getElem_map, List.getElem_replicate] at r1 r2
  have := mv1_partner mods[i] q0 q1 x[i] (y[i]'(by omega)) z[i] hq0 r1 r2
  rw [mv1_of_valid _ _ (cv1_of_checkValid mods x hx i hi h1), mv1_of_valid _ _ (cv1_of_checkValid mods z hz i hi h2)] at this
  exact this

/-- what `legs[0].test_contractible(legs[1])` verifies -/
theorem contractible_facts (l0 l1 : Leg) (h : l0.testContractible l1 = true) :
    l0.mods = l1.mods ∧ l0.slices = l1.slices
    ∧ l0.charges.map (fun c => makeValid l0.mods (cscale l0.qconj c))
        = l1.charges.map (fun c => makeValid l1.mods (cscale (-l1.qconj) c)) := by
  simp only [Leg.testContractible, Leg.testEqual, Leg.eq?, Leg.conj, Leg.physCharges] at h
  by_cases hm : l0.mods = l1.mods
  · simp only [hm, ne_eq, not_true_eq_false, ↓reduceIte, beq_iff_eq, Option.some.injEq, Bool.and_eq_true] at h
    exact ⟨hm, h.1, by rw [hm]; exact h.2⟩
  · simp [hm] at h

theorem squareCheck_ok {α : Type} (m : BMat α) (e : Err) (h : squareCheck m e = .ok ()) :
    m.leg0.indLen = m.leg1.indLen ∧ m.leg0.testContractible m.leg1 = true
    ∧ m.qtotal = makeValid m.leg0.mods (czero m.leg0.mods.length) := by
  unfold squareCheck at h
  split at h
  · cases h
  · split at h
    · cases h
    · split at h
      · cases h
      · rename_i h1 h2 h3
        exact ⟨by simpa using h1, by simpa using h2, by simpa using h3⟩

/-- the general block index relation: if `σ` sends every column sector to the row sector with the partner charge, a
stored block `(qi, qj)` of a matrix with total charge 0 over a row leg with pairwise different (valid) charges has
`qi = σ qj` -/
theorem block_relation {α : Type} (m : BMat α) (σ : Nat → Nat)
    (hq0 : m.leg0.qconj = 1 ∨ m.leg0.qconj = -1)
    (hvalid : ∀ c ∈ m.leg0.charges, checkValid m.leg0.mods c = true)
    (hblocked : m.leg0.charges.Nodup)
    (b : Blk α)
    (hlen1 : (m.leg1.charges.getD b.qj []).length = m.leg0.mods.length)
    (hin : b.qi < m.leg0.blockNumber) (hσin : σ b.qj < m.leg0.blockNumber)
    (hrule : m.blockCharge b.qi b.qj = makeValid m.leg0.mods (czero m.leg0.mods.length))
    (hσ : makeValid m.leg0.mods (cscale m.leg0.qconj (m.leg0.charges.getD (σ b.qj) []))
        = makeValid m.leg0.mods (cscale (-m.leg1.qconj) (m.leg1.charges.getD b.qj []))) :
    σ b.qj = b.qi := by
  have hi : b.qi < m.leg0.charges.length := hin
  have hs : σ b.qj < m.leg0.charges.length := hσin
  have e1 : m.leg0.charges.getD b.qi [] = m.leg0.charges[b.qi] := by
    simp [List.getD_eq_getElem?_getD, List.getElem?_eq_getElem hi]
  have e2 : m.leg0.charges.getD (σ b.qj) [] = m.leg0.charges[σ b.qj] := by
    simp [List.getD_eq_getElem?_getD, List.getElem?_eq_getElem hs]
  have := charge_partner m.leg0.mods m.leg0.qconj m.leg1.qconj (m.leg0.charges.getD b.qi [])
    (m.leg1.charges.getD b.qj []) (m.leg0.charges.getD (σ b.qj) []) hq0
    (by rw [e1]; exact hvalid _ (List.getElem_mem hi)) (by rw [e2]; exact hvalid _ (List.getElem_mem hs)) hlen1
    (by simpa [BMat.blockCharge, Leg.getCharge] using hrule) hσ
  rw [e1, e2] at this
  exact ((List.Nodup.getElem_inj_iff hblocked).mp this).symm

/-- the part of `test_sanity` about `legs[0]` -/
theorem sane_leg0 {α : Type} (a : BMat α) (h : a.sane = true) :
    (∀ c ∈ a.leg0.charges, checkValid a.leg0.mods c = true) ∧ (a.leg0.qconj = 1 ∨ a.leg0.qconj = -1)
    ∧ a.leg0.slices.length = a.leg0.blockNumber + 1 := by
  simp only [BMat.sane, Leg.sane, Bool.and_eq_true, List.all_eq_true, decide_eq_true_eq, beq_iff_eq,
    Bool.or_eq_true, and_assoc] at h
  obtain ⟨h1, _, h3, h4, _⟩ := h
  exact ⟨h3, h4, h1⟩

theorem blockSizes_length_of_slices (l : Leg) (h : l.slices.length = l.blockNumber + 1) :
    l.blockSizes.length = l.blockNumber := by
  simp only [Leg.blockSizes, sizesOfSlices, List.length_zipWith, List.length_tail, h]
  omega

/-- **the checks of `_eig_worker` force diagonal blocks**: on a sane matrix with `legs[0]` blocked by charge that
passes `squareCheck`, every stored block has `qj = qi` -/
theorem checks_diag {α : Type} (m : BMat α) (e : Err) (hchk : squareCheck m e = .ok ()) (hs : m.sane = true)
    (hblocked : m.leg0.charges.Nodup) : ∀ b ∈ m.blocks, b.qj = b.qi := by
  obtain ⟨_, hcon, hqt⟩ := squareCheck_ok m e hchk
  obtain ⟨hmods, _, hmap⟩ := contractible_facts _ _ hcon
  obtain ⟨hvalid, hq0, _⟩ := sane_leg0 m hs
  have w := C05_sane_chargeWF m hs
  have hlen : m.leg0.charges.length = m.leg1.charges.length := by
    have := congrArg List.length hmap
    simpa using this
  intro b hb
  have hj : b.qj < m.leg1.charges.length := w.inr1 b hb
  have hj0 : b.qj < m.leg0.charges.length := by omega
  refine block_relation m id hq0 hvalid hblocked b ?_ (w.inr0 b hb) hj0 ?_ ?_
  · rcases w.len1 b.qj with h | h
    · exact h
    · omega
  · rw [w.rule b hb, hqt]
  · have := congrArg (fun l => l[b.qj]?) hmap
    simp only [List.getElem?_map, List.getElem?_eq_getElem hj, List.getElem?_eq_getElem hj0, Option.map_some,
      Option.some.injEq] at this
    simp only [id, List.getD_eq_getElem?_getD, List.getElem?_eq_getElem hj, List.getElem?_eq_getElem hj0,
      Option.getD_some]
    rw [this, hmods]

variable {α : Type} [CommRing α]

/-- eigen-equation assembly with the stored blocks re-indexed to the diagonal of the row leg -/
theorem eig_assemble_core (m : BMat α) (F : Nat → Blk α → List α × Mat α) (perm : Nat → List α → List Nat)
    (hrows : m.blocks.Pairwise (fun b b' => b.qi ≠ b'.qi))
    (hin : ∀ b ∈ m.blocks, b.qi < m.leg0.blockNumber) (hsz : m.leg0.blockSizes.length = m.leg0.blockNumber)
    (hpost : ∀ bi ∈ m.blocks.zipIdx, ∀ r s,
      ∑ c ∈ range (m.leg0.blockSizes.getD bi.1.qi 0), bi.1.m.entry r c * (eigFac F perm bi).2.entry c s
        = (eigFac F perm bi).2.entry r s * (eigFac F perm bi).1.getD s 0)
    (qi r k s : Nat) :
    bmul3 (m.blocks.map (fun b => (⟨b.qi, b.qi, b.m⟩ : Blk α))) (fun _ _ => 1) (eigAssemble m F perm).v.blocks
        m.leg0.blockSizes qi r k s
      = (eigAssemble m F perm).v.bentry qi r k s * eigW (eigFacs m F perm) k s := by
  have hpw := eigFacs_pairwise m F perm hrows
  rw [bmul3_left_linear _ _ _ _ (fun x hx => by
    obtain ⟨b, hb, rfl⟩ := List.mem_map.mp hx
    rw [hsz]; exact hin b hb)]
  simp only [eigAssemble, bentry_eq_bsum, bsum_range_diag, mul_one, List.map_map, Function.comp_def]
  rw [sum_unique_key m.blocks (fun b => b.qi) hrows _ qi]
  cases hf : m.blocks.find? (fun b => b.qi == qi) with
  | none =>
    simp only
    by_cases hk : qi < m.leg0.blockNumber ∧ k = qi
    · have hnone : lastWithQi (eigFacs m F perm) k = none := by
        apply lastWithQi_none
        intro x hx
        obtain ⟨bi, hbi, rfl⟩ := List.mem_map.mp hx
        have := List.find?_eq_none.mp hf bi.1 (List.fst_mem_of_mem_zipIdx hbi)
        simp only [beq_iff_eq] at this
        rw [hk.2]; exact this
      simp [eigW, hnone]
    · simp [hk]
  | some b =>
    have hb := List.mem_of_find?_eq_some hf
    have hbq : b.qi = qi := by simpa using List.find?_some hf
    obtain ⟨i, hi⟩ := exists_zipIdx_of_mem hb
    have hlast : lastWithQi (eigFacs m F perm) qi = some (eigFac F perm (b, i)) := by
      have := lastWithQi_of_mem (eigFacs m F perm) hpw (b.qi, eigFac F perm (b, i))
        (List.mem_map.mpr ⟨(b, i), hi, rfl⟩)
      rw [← hbq]; exact this
    simp only [hbq]
    by_cases hk : k = qi
    · subst hk
      have hlt : k < m.leg0.blockNumber := hbq ▸ hin b hb
      have := hpost (b, i) hi r s
      simp only [hbq, List.getD_eq_getElem?_getD] at this
      simp [hlt, hlast, eigW, this]
    · simp [hk]

end TenpyModel.C05.P2
