import TenpyModel.C05.P2_QrReduced
import TenpyModel.C05.P2_Eig
import TenpyModel.C05.P2_PinvPolar
import TenpyModel.C05.P2_Ortho
/-!
C05, second batch of property theorems (the items listed as partial in `notes/C05.md`):

* reduced-mode QR reconstruction for the CONCRETE worker `qrWorker`, through the projection mask and `map_qind`;
* eigen-decomposition assembly from the checks `_eig_worker` actually performs;
* list-level assembly of `pinv`, `polar`, `orthogonal_columns`.
-/
open TenpyModel.Core TenpyModel.C05 TenpyModel.C05.P2 Finset

/-- **QR, `mode='reduced'`, what `project` does with `inner_leg_mask`** (any cutoff, `pos_diag_R`, `qtotal_Q`,
`inner_qconj`). Hypotheses on the completely blocked `a`: stored blocks in pairwise different row sectors, qindices in
range, slices of `legs[0]` ascending from 0 (`hsl`), and — the only hypothesis on the per-block routine — every
factorized block has a `q` factor with at least one and at most `block rows` columns (`K = min(M, N)`, resp. the
rank found by `qr_li`; blocks with an empty `q` are skipped under a cutoff). Then for every factorized block
`map_qind[qi]` is a valid block `κ` of the inner leg whose size is exactly the number of columns of `q`, different
factorized blocks get different `κ`, and the skipped blocks are exactly dropped (`map_qind = -1`). -/
theorem C05_qr_reduced_mask {α : Type} [Zero α] [Mul α] (a : BMat α) (F : Nat → Blk α → Mat α × Mat α)
    (phase conj : α → α) (o : QrOpts)
    (hrows : a.blocks.Pairwise (fun b b' => b.qi ≠ b'.qi))
    (hin0 : ∀ b ∈ a.blocks, b.qi < a.leg0.blockNumber) (hsz : a.leg0.blockSizes.length = a.leg0.blockNumber)
    (hsl : a.leg0.slices = slicesOfSizes a.leg0.blockSizes)
    (hcols : ∀ bi ∈ qrKept a F o, 0 < (qrFac F phase conj o bi).1.ncols
      ∧ (qrFac F phase conj o bi).1.ncols ≤ a.leg0.blockSizes.getD bi.1.qi 0) :
    let pr := a.leg0.project (qrMask a F phase conj o)
    (∀ bi ∈ qrKept a F o,
        pr.1.getD bi.1.qi (-1) = (qrKappa a F phase conj o bi.1.qi : Int)
        ∧ qrKappa a F phase conj o bi.1.qi < pr.2.2.blockSizes.length
        ∧ pr.2.2.blockSizes.getD (qrKappa a F phase conj o bi.1.qi) 0 = (qrFac F phase conj o bi).1.ncols)
    ∧ (∀ bi ∈ a.blocks.zipIdx, qrSkip F o bi = true → pr.1.getD bi.1.qi (-1) = -1)
    ∧ (qrKept a F o).Pairwise (fun x y => qrKappa a F phase conj o x.1.qi ≠ qrKappa a F phase conj o y.1.qi) :=
  qr_mask_project a F phase conj o hrows hin0 hsz hsl hcols

/-- **QR, `mode='reduced'`, assembly for the concrete worker (any cutoff)**: `Q · R` (product over the projected inner
leg, block-structured indices), block `(qi, qj)`, entry `(r, s)`, is the sum over the factorized blocks of `a` with
these qindices of `Q_b R_b` — every factorized block is replaced by its own factor product, a skipped block by nothing.
Moreover `Q`, `R` have one block `(qi, κ)`, `(κ, qj)` per factorized block with `κ = map_qind[qi]`. -/
theorem C05_qr_assemble_reduced_cutoff {α : Type} [CommRing α] (a : BMat α) (F : Nat → Blk α → Mat α × Mat α)
    (phase conj : α → α) (o : QrOpts) (hc : o.complete = false)
    (hrows : a.blocks.Pairwise (fun b b' => b.qi ≠ b'.qi))
    (hin0 : ∀ b ∈ a.blocks, b.qi < a.leg0.blockNumber) (hsz : a.leg0.blockSizes.length = a.leg0.blockNumber)
    (hsl : a.leg0.slices = slicesOfSizes a.leg0.blockSizes)
    (hcols : ∀ bi ∈ qrKept a F o, 0 < (qrFac F phase conj o bi).1.ncols
      ∧ (qrFac F phase conj o bi).1.ncols ≤ a.leg0.blockSizes.getD bi.1.qi 0)
    (qi r qj s : Nat) :
    bmul3 (qrWorker a F phase conj o).q.blocks (fun _ _ => 1) (qrWorker a F phase conj o).r.blocks
        (qrWorker a F phase conj o).r.leg0.blockSizes qi r qj s
      = ((qrKept a F o).map (fun bi => if bi.1.qi = qi ∧ bi.1.qj = qj then
          ∑ c ∈ range (qrFac F phase conj o bi).1.ncols,
            (qrFac F phase conj o bi).1.entry r c * (qrFac F phase conj o bi).2.entry c s else 0)).sum
    ∧ (qrWorker a F phase conj o).q.blocks
        = (qrKept a F o).map (fun bi =>
            (⟨bi.1.qi, qrKappa a F phase conj o bi.1.qi, (qrFac F phase conj o bi).1⟩ : Blk α))
    ∧ (qrWorker a F phase conj o).r.blocks
        = (qrKept a F o).map (fun bi =>
            (⟨qrKappa a F phase conj o bi.1.qi, bi.1.qj, (qrFac F phase conj o bi).2⟩ : Blk α))
    ∧ (qrWorker a F phase conj o).q.leg1.blockSizes = (qrWorker a F phase conj o).r.leg0.blockSizes := by
  obtain ⟨hk, hs, hinj⟩ := qr_mask_project a F phase conj o hrows hin0 hsz hsl hcols
  obtain ⟨hQ, hR, hB, hB'⟩ := qrWorker_reduced_blocks a F phase conj o hc (fun bi hbi => (hk bi hbi).1) hs
  refine ⟨?_, hQ, hR, hB'⟩
  rw [hQ, hR, hB]
  rw [bmul3_assemble (qrKept a F o) _ _ (fun bi => qrKappa a F phase conj o bi.1.qi) _ _
    (fun _ _ => rfl) (fun _ _ => rfl) hinj (fun bi hbi => (hk bi hbi).2.1)]
  apply congrArg
  apply List.map_congr_left
  intro bi hbi
  simp only [mul_one, (hk bi hbi).2.2]

/-- **QR, `mode='reduced'`, exact reconstruction for the concrete worker.** If every factorized block satisfies
`Q_b R_b = A_b` and (under a cutoff) every skipped block is zero, then `Q · R = a`, block by block and entry by entry.
Without cutoff nothing is skipped and `hdrop` is void. -/
theorem C05_qr_assemble_reduced {α : Type} [CommRing α] (a : BMat α) (F : Nat → Blk α → Mat α × Mat α)
    (phase conj : α → α) (o : QrOpts) (hc : o.complete = false)
    (hrows : a.blocks.Pairwise (fun b b' => b.qi ≠ b'.qi))
    (hin0 : ∀ b ∈ a.blocks, b.qi < a.leg0.blockNumber) (hsz : a.leg0.blockSizes.length = a.leg0.blockNumber)
    (hsl : a.leg0.slices = slicesOfSizes a.leg0.blockSizes)
    (hcols : ∀ bi ∈ qrKept a F o, 0 < (qrFac F phase conj o bi).1.ncols
      ∧ (qrFac F phase conj o bi).1.ncols ≤ a.leg0.blockSizes.getD bi.1.qi 0)
    (hpost : ∀ bi ∈ qrKept a F o, ∀ r s,
      ∑ c ∈ range (qrFac F phase conj o bi).1.ncols,
        (qrFac F phase conj o bi).1.entry r c * (qrFac F phase conj o bi).2.entry c s = bi.1.m.entry r s)
    (hdrop : ∀ bi ∈ a.blocks.zipIdx, qrSkip F o bi = true → ∀ r s, bi.1.m.entry r s = 0)
    (qi r qj s : Nat) :
    bmul3 (qrWorker a F phase conj o).q.blocks (fun _ _ => 1) (qrWorker a F phase conj o).r.blocks
        (qrWorker a F phase conj o).r.leg0.blockSizes qi r qj s = a.bentry qi r qj s := by
  rw [(C05_qr_assemble_reduced_cutoff a F phase conj o hc hrows hin0 hsz hsl hcols qi r qj s).1]
  have hterm : ∀ bi ∈ qrKept a F o,
      (if bi.1.qi = qi ∧ bi.1.qj = qj then
          ∑ c ∈ range (qrFac F phase conj o bi).1.ncols,
            (qrFac F phase conj o bi).1.entry r c * (qrFac F phase conj o bi).2.entry c s else 0)
      = (fun bi : Blk α × Nat => if bi.1.qi = qi ∧ bi.1.qj = qj then bi.1.m.entry r s else 0) bi := by
    intro bi hbi
    simp only [hpost bi hbi r s]
  rw [List.map_congr_left hterm, qrKept, sum_map_filter]
  · rw [bentry_eq_bsum, bsum]
    exact map_fst_zipIdx_sum (α := α) a.blocks 0 (fun b : Blk α => if b.qi = qi ∧ b.qj = qj then b.m.entry r s else 0)
  · intro bi hbi hsk
    have : qrSkip F o bi = true := by simpa using hsk
    simp [hdrop bi hbi this r s]

namespace TenpyModel.C05.P2
/-- witness for the reduced QR theorems: three row sectors (sizes 1, 1, 2), the middle one without stored block, a
tall block `(2, 1)` and a `1 × 1` block `(0, 0)` stored in this (unsorted) order, third stored block `(1, 1)` zero. -/
def exQrA : BMat Int :=
  { leg0 := { mods := [1], slices := [0, 1, 2, 4], charges := [[0], [1], [2]], qconj := 1, sorted := true, bunched := true },
    leg1 := { mods := [1], slices := [0, 1, 2, 3], charges := [[0], [2], [1]], qconj := -1, sorted := false, bunched := true },
    qtotal := [0], blocks := [⟨2, 1, [[3], [4]]⟩, ⟨1, 2, [[0]]⟩, ⟨0, 0, [[2]]⟩] }

/-- per-block factors with `Q_b R_b = A_b` (over ℤ; the theorem does not need isometries); the zero block gets the
empty factorization `q : 1 × 0`, `r : 0 × 1` that `qr_li` returns for a rank-0 block -/
def exQrF : Nat → Blk Int → Mat Int × Mat Int :=
  fun i _ => if i = 0 then ([[3], [4]], [[1]]) else if i = 1 then ([[]], []) else ([[1]], [[2]])
end TenpyModel.C05.P2

/-- non-vacuity of `C05_qr_reduced_mask` / `C05_qr_assemble_reduced(_cutoff)`: with a cutoff the zero block is
skipped, its sector is projected away, `map_qind = [0, -1, 1]`; the hypotheses hold and `Q · R = a`. -/
example (qi r qj s : Nat) :
    bmul3 (qrWorker exQrA exQrF id id { cutoff := true }).q.blocks (fun _ _ => 1)
        (qrWorker exQrA exQrF id id { cutoff := true }).r.blocks
        (qrWorker exQrA exQrF id id { cutoff := true }).r.leg0.blockSizes qi r qj s = exQrA.bentry qi r qj s := by
  refine C05_qr_assemble_reduced exQrA exQrF id id { cutoff := true } rfl (by decide) (by decide) (by decide)
    (by decide) (by decide) ?_ ?_ qi r qj s
  · intro bi hbi
    have : bi = (⟨2, 1, [[3], [4]]⟩, 0) ∨ bi = (⟨0, 0, [[2]]⟩, 2) := by
      have h : qrKept exQrA exQrF { cutoff := true } = [(⟨2, 1, [[3], [4]]⟩, 0), (⟨0, 0, [[2]]⟩, 2)] := by decide
      rw [h] at hbi; simpa using hbi
    rcases this with rfl | rfl
    · intro r s
      have hn : (qrFac exQrF id id { cutoff := true } (⟨2, 1, [[3], [4]]⟩, 0)).1.ncols = 1 := by decide
      rw [hn]
      rcases r with _ | _ | r <;> rcases s with _ | s <;> simp [qrFac, exQrF, Mat.entry]
    · intro r s
      have hn : (qrFac exQrF id id { cutoff := true } (⟨0, 0, [[2]]⟩, 2)).1.ncols = 1 := by decide
      rw [hn]
      rcases r with _ | r <;> rcases s with _ | s <;> simp [qrFac, exQrF, Mat.entry]
  · intro bi hbi hsk
    have : bi = (⟨1, 2, [[0]]⟩, 1) := by
      have h : exQrA.blocks.zipIdx.filter (fun bi => qrSkip exQrF { cutoff := true } bi)
          = [(⟨1, 2, [[0]]⟩, 1)] := by decide
      have hm : bi ∈ exQrA.blocks.zipIdx.filter (fun bi => qrSkip exQrF { cutoff := true } bi) :=
        List.mem_filter.mpr ⟨hbi, hsk⟩
      rw [h] at hm; simpa using hm
    subst this
    intro r s
    rcases r with _ | r <;> rcases s with _ | s <;> simp [Mat.entry]

/-- the same run, concretely: the input is sane, `map_qind = [0, -1, 1]`, the inner leg has the blocks of sectors 0 and
2 (sizes 1, 1), `Q`/`R` dense, and the dense product is `a`. -/
example :
    exQrA.sane = true
    ∧ (exQrA.leg0.project (qrMask exQrA exQrF id id { cutoff := true })).1 = [0, -1, 1]
    ∧ (qrWorker exQrA exQrF id id { cutoff := true }).r.leg0.blockSizes = [1, 1]
    ∧ (qrWorker exQrA exQrF id id { cutoff := true }).q.toDense = [[1, 0], [0, 0], [0, 3], [0, 4]]
    ∧ (qrWorker exQrA exQrF id id { cutoff := true }).r.toDense = [[2, 0, 0], [0, 1, 0]]
    ∧ exQrA.toDense = [[2, 0, 0], [0, 0, 0], [0, 3, 0], [0, 4, 0]] := by
  decide

/-- non-vacuity of `C05_qr_reduced_mask`: on the witness the sector of the skipped block is dropped -/
example : ∀ bi ∈ exQrA.blocks.zipIdx, qrSkip exQrF { cutoff := true } bi = true →
    (exQrA.leg0.project (qrMask exQrA exQrF id id { cutoff := true })).1.getD bi.1.qi (-1) = -1 :=
  (C05_qr_reduced_mask exQrA exQrF id id { cutoff := true } (by decide) (by decide) (by decide) (by decide)
    (by decide)).2.1

/-- non-vacuity of `C05_qr_assemble_reduced_cutoff`: block lists of the witness run -/
example : (qrWorker exQrA exQrF id id { cutoff := true }).q.blocks
    = (qrKept exQrA exQrF { cutoff := true }).map (fun bi =>
        (⟨bi.1.qi, qrKappa exQrA exQrF id id { cutoff := true } bi.1.qi,
          (qrFac exQrF id id { cutoff := true } bi).1⟩ : Blk Int)) :=
  (C05_qr_assemble_reduced_cutoff exQrA exQrF id id { cutoff := true } rfl (by decide) (by decide) (by decide)
    (by decide) (by decide) 0 0 0 0).2.1

/-- **QR, `mode='reduced'`, isometry for the concrete worker** (any cutoff): under the hypotheses of
`C05_qr_reduced_mask`, if every factorized block has a `q` factor with orthonormal columns then `Qᴴ Q = 1` on the
projected inner leg. -/
theorem C05_qr_isometry_reduced {α : Type} [CommRing α] [StarRing α] (a : BMat α) (F : Nat → Blk α → Mat α × Mat α)
    (phase conj : α → α) (o : QrOpts) (hc : o.complete = false)
    (hrows : a.blocks.Pairwise (fun b b' => b.qi ≠ b'.qi))
    (hin0 : ∀ b ∈ a.blocks, b.qi < a.leg0.blockNumber) (hsz : a.leg0.blockSizes.length = a.leg0.blockNumber)
    (hsl : a.leg0.slices = slicesOfSizes a.leg0.blockSizes)
    (hcols : ∀ bi ∈ qrKept a F o, 0 < (qrFac F phase conj o bi).1.ncols
      ∧ (qrFac F phase conj o bi).1.ncols ≤ a.leg0.blockSizes.getD bi.1.qi 0)
    (hiso : ∀ bi ∈ qrKept a F o, ∀ c < (qrFac F phase conj o bi).1.ncols, ∀ c' < (qrFac F phase conj o bi).1.ncols,
      ∑ r ∈ range (a.leg0.blockSizes.getD bi.1.qi 0),
        star ((qrFac F phase conj o bi).1.entry r c) * (qrFac F phase conj o bi).1.entry r c' = if c = c' then 1 else 0)
    (bi bi' : Blk α × Nat) (hbi : bi ∈ qrKept a F o) (hbi' : bi' ∈ qrKept a F o) (c c' : Nat)
    (hcc : c < (qrFac F phase conj o bi).1.ncols) (hcc' : c' < (qrFac F phase conj o bi').1.ncols) :
    ∑ qi ∈ range a.leg0.blockNumber, ∑ r ∈ range (a.leg0.blockSizes.getD qi 0),
        star ((qrWorker a F phase conj o).q.bentry qi r (qrKappa a F phase conj o bi.1.qi) c)
          * (qrWorker a F phase conj o).q.bentry qi r (qrKappa a F phase conj o bi'.1.qi) c'
      = if qrKappa a F phase conj o bi.1.qi = qrKappa a F phase conj o bi'.1.qi ∧ c = c' then 1 else 0 := by
  obtain ⟨hk, hs, hinj⟩ := qr_mask_project a F phase conj o hrows hin0 hsz hsl hcols
  obtain ⟨hQ, _, _, _⟩ := qrWorker_reduced_blocks a F phase conj o hc (fun bi hbi => (hk bi hbi).1) hs
  rw [bentry_eq_bsum, hQ]
  exact biso_assemble (qrKept a F o)
    (fun bi => (⟨bi.1.qi, qrKappa a F phase conj o bi.1.qi, (qrFac F phase conj o bi).1⟩ : Blk α))
    (fun bi => qrKappa a F phase conj o bi.1.qi) a.leg0.blockSizes
    (a.leg0.project (qrMask a F phase conj o)).2.2.blockSizes a.leg0.blockNumber
    (fun _ _ => rfl) hinj
    (fun e he => hin0 e.1 (List.fst_mem_of_mem_zipIdx (mem_qrKept.mp he).1))
    (fun e _ e' _ hq => by simp only at hq; rw [hq])
    (fun e he c hc c' hc' => by
      rw [(hk e he).2.2] at hc hc'
      exact hiso e he c hc c' hc')
    bi bi' hbi hbi' c c' (by rw [(hk bi hbi).2.2]; exact hcc) (by rw [(hk bi' hbi').2.2]; exact hcc')

namespace TenpyModel.C05.P2
/-- isometric per-block factors for `exQrA` (unit columns over ℤ): `[[3],[4]]` is replaced by a block `[[0],[5]]` -/
def exQrB : BMat Int := { exQrA with blocks := [⟨2, 1, [[0], [5]]⟩, ⟨1, 2, [[0]]⟩, ⟨0, 0, [[2]]⟩] }
def exQrG : Nat → Blk Int → Mat Int × Mat Int :=
  fun i _ => if i = 0 then ([[0], [1]], [[5]]) else if i = 1 then ([[]], []) else ([[1]], [[2]])
end TenpyModel.C05.P2

/-- non-vacuity of `C05_qr_isometry_reduced` -/
example (bi bi' : Blk Int × Nat) (hbi : bi ∈ qrKept exQrB exQrG { cutoff := true })
    (hbi' : bi' ∈ qrKept exQrB exQrG { cutoff := true }) (c c' : Nat)
    (hcc : c < (qrFac exQrG id id { cutoff := true } bi).1.ncols)
    (hcc' : c' < (qrFac exQrG id id { cutoff := true } bi').1.ncols) :
    ∑ qi ∈ range exQrB.leg0.blockNumber, ∑ r ∈ range (exQrB.leg0.blockSizes.getD qi 0),
        star ((qrWorker exQrB exQrG id id { cutoff := true }).q.bentry qi r
            (qrKappa exQrB exQrG id id { cutoff := true } bi.1.qi) c)
          * (qrWorker exQrB exQrG id id { cutoff := true }).q.bentry qi r
            (qrKappa exQrB exQrG id id { cutoff := true } bi'.1.qi) c'
      = if qrKappa exQrB exQrG id id { cutoff := true } bi.1.qi
            = qrKappa exQrB exQrG id id { cutoff := true } bi'.1.qi ∧ c = c' then 1 else 0 := by
  refine C05_qr_isometry_reduced exQrB exQrG id id { cutoff := true } rfl (by decide) (by decide) (by decide)
    (by decide) (by decide) ?_ bi bi' hbi hbi' c c' hcc hcc'
  intro e he c hc c' hc'
  have : e = (⟨2, 1, [[0], [5]]⟩, 0) ∨ e = (⟨0, 0, [[2]]⟩, 2) := by
    have h : qrKept exQrB exQrG { cutoff := true } = [(⟨2, 1, [[0], [5]]⟩, 0), (⟨0, 0, [[2]]⟩, 2)] := by decide
    rw [h] at he; simpa using he
  rcases this with rfl | rfl
  · have hn : (qrFac exQrG id id { cutoff := true } (⟨2, 1, [[0], [5]]⟩, 0)).1.ncols = 1 := by decide
    have hsz : exQrB.leg0.blockSizes.getD 2 0 = 2 := by decide
    rw [hn] at hc hc'
    have h0 : c = 0 := by omega
    have h0' : c' = 0 := by omega
    subst h0; subst h0'
    simp only [hsz]
    simp [qrFac, exQrG, Mat.entry, Finset.sum_range_succ]
  · have hn : (qrFac exQrG id id { cutoff := true } (⟨0, 0, [[2]]⟩, 2)).1.ncols = 1 := by decide
    have hsz : exQrB.leg0.blockSizes.getD 0 0 = 1 := by decide
    rw [hn] at hc hc'
    have h0 : c = 0 := by omega
    have h0' : c' = 0 := by omega
    subst h0; subst h0'
    simp only [hsz]
    simp [qrFac, exQrG, Mat.entry]

/-! ### eigen-decompositions: which blocks `_eig_worker` can meet -/

/-- **`_eig_worker`, general block index relation.** Let `σ` send a column sector of the (completely blocked) matrix to
the row sector carrying the partner charge — `make_valid(qconj₀ · c₀[σ j]) = make_valid(-qconj₁ · c₁[j])`, the
comparison `test_contractible` makes, up to the re-ordering of sectors that blocking may introduce. Then the charge rule
with total charge 0 (the third check of `_eig_worker`) forces every stored block `(qi, qj)` to satisfy `qi = σ qj`,
provided the charges of `legs[0]` are valid and pairwise different (blocked leg). -/
theorem C05_eig_block_relation {α : Type} (m : BMat α) (σ : Nat → Nat)
    (hq0 : m.leg0.qconj = 1 ∨ m.leg0.qconj = -1)
    (hvalid : ∀ c ∈ m.leg0.charges, checkValid m.leg0.mods c = true)
    (hblocked : m.leg0.charges.Nodup)
    (hlen1 : ∀ b ∈ m.blocks, (m.leg1.charges.getD b.qj []).length = m.leg0.mods.length)
    (hin : ∀ b ∈ m.blocks, b.qi < m.leg0.blockNumber) (hσin : ∀ b ∈ m.blocks, σ b.qj < m.leg0.blockNumber)
    (hrule : ∀ b ∈ m.blocks, m.blockCharge b.qi b.qj = makeValid m.leg0.mods (czero m.leg0.mods.length))
    (hσ : ∀ b ∈ m.blocks, makeValid m.leg0.mods (cscale m.leg0.qconj (m.leg0.charges.getD (σ b.qj) []))
        = makeValid m.leg0.mods (cscale (-m.leg1.qconj) (m.leg1.charges.getD b.qj []))) :
    ∀ b ∈ m.blocks, σ b.qj = b.qi :=
  fun b hb => block_relation m σ hq0 hvalid hblocked b (hlen1 b hb) (hin b hb) (hσin b hb) (hrule b hb) (hσ b hb)

/-- **The checks of `_eig_worker` / `_eigvals_worker` / `expm` force diagonal blocks.** If the matrix handed to the loop
is sane, its `legs[0]` is blocked by charge and it passes `squareCheck` (square, `legs[0].test_contractible(legs[1])`,
`qtotal = 0`), then every stored block has `qj = qi` — the hypothesis `hdiag` of `C05_eig_assemble` is a consequence of
what the code verifies (`σ = id` in `C05_eig_block_relation`). -/
theorem C05_eig_checks_diag {α : Type} (m : BMat α) (e : Err) (hchk : squareCheck m e = .ok ()) (hs : m.sane = true)
    (hblocked : m.leg0.charges.Nodup) : ∀ b ∈ m.blocks, b.qj = b.qi :=
  checks_diag m e hchk hs hblocked

/-- **Eigen-decomposition, assembly, general block index relation** (`eigh` / `eig`, any `sort`). No hypothesis that the
stored blocks are diagonal: the column sector `qj` of a stored block is identified with the row sector `σ qj`
(`hσ`, supplied by `C05_eig_block_relation`; in the flipped representation — `legs[1]` with the same `qconj` as
`legs[0]` and negated charges — blocking sorts the two legs in opposite orders and `σ` is not the identity). With the
product `a · V` taken over this identification, per-block `A_b V_b = V_b diag(w_b)` gives `a · V = V · diag(w)`;
sectors without stored block contribute the identity with eigenvalue 0. -/
theorem C05_eig_assemble_general {α : Type} [CommRing α] (m : BMat α) (F : Nat → Blk α → List α × Mat α)
    (perm : Nat → List α → List Nat) (σ : Nat → Nat)
    (hσ : ∀ b ∈ m.blocks, σ b.qj = b.qi) (hrows : m.blocks.Pairwise (fun b b' => b.qi ≠ b'.qi))
    (hin : ∀ b ∈ m.blocks, b.qi < m.leg0.blockNumber) (hsz : m.leg0.blockSizes.length = m.leg0.blockNumber)
    (hpost : ∀ bi ∈ m.blocks.zipIdx, ∀ r s,
      ∑ c ∈ range (m.leg0.blockSizes.getD bi.1.qi 0), bi.1.m.entry r c * (eigFac F perm bi).2.entry c s
        = (eigFac F perm bi).2.entry r s * (eigFac F perm bi).1.getD s 0)
    (qi r k s : Nat) :
    bmul3 (m.blocks.map (fun b => (⟨b.qi, σ b.qj, b.m⟩ : Blk α))) (fun _ _ => 1) (eigAssemble m F perm).v.blocks
        m.leg0.blockSizes qi r k s
      = (eigAssemble m F perm).v.bentry qi r k s * eigW (eigFacs m F perm) k s := by
  have : m.blocks.map (fun b => (⟨b.qi, σ b.qj, b.m⟩ : Blk α)) = m.blocks.map (fun b => (⟨b.qi, b.qi, b.m⟩ : Blk α)) :=
    List.map_congr_left (fun b hb => by rw [hσ b hb])
  rw [this]
  exact eig_assemble_core m F perm hrows hin hsz hpost qi r k s

/-- **Eigen-decomposition, assembly, from the checks of the code**: `C05_eig_assemble` with its hypotheses `hdiag`,
`hin`, `hsz` replaced by what is verified — the matrix handed to the loop passes `squareCheck` and `test_sanity`, and
`legs[0]` is blocked by charge. -/
theorem C05_eig_assemble_checked {α : Type} [CommRing α] (m : BMat α) (F : Nat → Blk α → List α × Mat α)
    (perm : Nat → List α → List Nat) (e : Err)
    (hchk : squareCheck m e = .ok ()) (hs : m.sane = true) (hblocked : m.leg0.charges.Nodup)
    (hrows : m.blocks.Pairwise (fun b b' => b.qi ≠ b'.qi))
    (hpost : ∀ bi ∈ m.blocks.zipIdx, ∀ r s,
      ∑ c ∈ range (m.leg0.blockSizes.getD bi.1.qi 0), bi.1.m.entry r c * (eigFac F perm bi).2.entry c s
        = (eigFac F perm bi).2.entry r s * (eigFac F perm bi).1.getD s 0)
    (qi r k s : Nat) :
    bmul3 m.blocks (fun _ _ => 1) (eigAssemble m F perm).v.blocks m.leg0.blockSizes qi r k s
      = (eigAssemble m F perm).v.bentry qi r k s * eigW (eigFacs m F perm) k s :=
  C05_eig_assemble m F perm (C05_eig_checks_diag m e hchk hs hblocked) hrows
    (C05_sane_chargeWF m hs).inr0 (blockSizes_length_of_slices _ (sane_leg0 m hs).2.2) hpost qi r k s

namespace TenpyModel.C05.P2
/-- witness, flipped representation: `legs[1]` has the direction of `legs[0]` and negated charges; neither leg is
blocked (charge 0 occurs twice). The input passes the checks of `_eig_worker`. -/
def exEigA : BMat Int :=
  { leg0 := { mods := [1], slices := [0, 1, 2, 3], charges := [[0], [1], [0]], qconj := 1, sorted := false, bunched := false },
    leg1 := { mods := [1], slices := [0, 1, 2, 3], charges := [[0], [-1], [0]], qconj := 1, sorted := false, bunched := false },
    qtotal := [0], blocks := [⟨0, 0, [[1]]⟩, ⟨0, 2, [[2]]⟩, ⟨2, 0, [[2]]⟩, ⟨2, 2, [[1]]⟩, ⟨1, 1, [[5]]⟩] }

/-- per-block eigen-decompositions of the blocked matrix: `[[5]]` and `[[1, 2], [2, 1]] = V diag(3, -1) V⁻¹` with the
(unnormalised) `V = [[1, 1], [1, -1]]` -/
def exEigF : Nat → Blk Int → List Int × Mat Int :=
  fun i _ => if i = 0 then ([5], [[1]]) else ([3, -1], [[1, 1], [1, -1]])
end TenpyModel.C05.P2

/-- the flipped representation, concretely: the input passes `squareCheck`; blocking sorts `legs[0]` as charges
`(0, 1)` and `legs[1]` as `(-1, 0)`, the stored blocks of the blocked matrix are `(1, 0)` and `(0, 1)` — not diagonal,
and the blocked matrix itself does not pass `test_contractible` (slices `[0,2,3]` vs `[0,1,3]`). -/
example :
    exEigA.sane = true ∧ squareCheck exEigA .valueError = .ok ()
    ∧ (asCompletelyBlocked exEigA).mat.qdata = [(1, 0), (0, 1)]
    ∧ (asCompletelyBlocked exEigA).mat.sane = true
    ∧ squareCheck (asCompletelyBlocked exEigA).mat .valueError = .error .valueError := by
  decide

/-- non-vacuity of `C05_eig_block_relation` on that blocked matrix with `σ j = 1 - j` -/
example : ∀ b ∈ (asCompletelyBlocked exEigA).mat.blocks, (fun j => 1 - j) b.qj = b.qi :=
  C05_eig_block_relation (asCompletelyBlocked exEigA).mat (fun j => 1 - j) (by decide) (by decide) (by decide)
    (by decide) (by decide) (by decide) (by decide) (by decide)

/-- non-vacuity of `C05_eig_assemble_general`: the eigen-equation for the flipped representation -/
example (qi r k s : Nat) :
    let m := (asCompletelyBlocked exEigA).mat
    let perm : Nat → List Int → List Nat := fun _ w => List.range w.length
    bmul3 (m.blocks.map (fun b => (⟨b.qi, 1 - b.qj, b.m⟩ : Blk Int))) (fun _ _ => 1)
        (eigAssemble m exEigF perm).v.blocks m.leg0.blockSizes qi r k s
      = (eigAssemble m exEigF perm).v.bentry qi r k s * eigW (eigFacs m exEigF perm) k s := by
  intro m perm
  have hm : m.blocks = [⟨1, 0, [[5]]⟩, ⟨0, 1, [[1, 2], [2, 1]]⟩] := by decide
  refine C05_eig_assemble_general m exEigF perm (fun j => 1 - j) (by decide) (by decide) (by decide) (by decide) ?_
    qi r k s
  intro bi hbi
  have : bi = (⟨1, 0, [[5]]⟩, 0) ∨ bi = (⟨0, 1, [[1, 2], [2, 1]]⟩, 1) := by
    rw [hm] at hbi; simpa using hbi
  rcases this with rfl | rfl
  · intro r s
    have hsz : m.leg0.blockSizes.getD 1 0 = 1 := by decide
    simp only [hsz]
    rcases r with _ | r <;> rcases s with _ | s <;>
      simp [eigFac, exEigF, perm, Mat.entry, Mat.takeCols]
  · intro r s
    have hsz : m.leg0.blockSizes.getD 0 0 = 2 := by decide
    simp only [hsz]
    rcases r with _ | _ | r <;> rcases s with _ | _ | s <;>
      simp [eigFac, exEigF, perm, Mat.entry, Mat.takeCols, Finset.sum_range_succ]

namespace TenpyModel.C05.P2
/-- witness for the checked form: three sectors, the middle one without stored block -/
def exEigM : BMat Int :=
  { leg0 := { mods := [1], slices := [0, 1, 2, 4], charges := [[0], [1], [2]], qconj := 1, sorted := true, bunched := true },
    leg1 := { mods := [1], slices := [0, 1, 2, 4], charges := [[0], [1], [2]], qconj := -1, sorted := true, bunched := true },
    qtotal := [0], blocks := [⟨2, 2, [[0, 1], [1, 0]]⟩, ⟨0, 0, [[2]]⟩] }
end TenpyModel.C05.P2

/-- non-vacuity of `C05_eig_checks_diag` / `C05_eig_assemble_checked`: the hypotheses are decidable and hold -/
example : ∀ b ∈ exEigM.blocks, b.qj = b.qi :=
  C05_eig_checks_diag exEigM .valueError (by decide) (by decide) (by decide)

example (qi r k s : Nat) :
    let F : Nat → Blk Int → List Int × Mat Int :=
      fun i _ => if i = 0 then ([1, -1], [[1, 1], [1, -1]]) else ([2], [[1]])
    let perm : Nat → List Int → List Nat := fun _ w => List.range w.length
    bmul3 exEigM.blocks (fun _ _ => 1) (eigAssemble exEigM F perm).v.blocks exEigM.leg0.blockSizes qi r k s
      = (eigAssemble exEigM F perm).v.bentry qi r k s * eigW (eigFacs exEigM F perm) k s := by
  intro F perm
  refine C05_eig_assemble_checked exEigM F perm .valueError (by decide) (by decide) (by decide) (by decide) ?_ qi r k s
  intro bi hbi
  have : bi = (⟨2, 2, [[0, 1], [1, 0]]⟩, 0) ∨ bi = (⟨0, 0, [[2]]⟩, 1) := by simpa [exEigM] using hbi
  rcases this with rfl | rfl
  · intro r s
    have hsz : exEigM.leg0.blockSizes.getD 2 0 = 2 := by decide
    simp only [hsz]
    rcases r with _ | _ | r <;> rcases s with _ | _ | s <;>
      simp [eigFac, F, perm, Mat.entry, Mat.takeCols, Finset.sum_range_succ]
  · intro r s
    have hsz : exEigM.leg0.blockSizes.getD 0 0 = 1 := by decide
    simp only [hsz]
    rcases r with _ | r <;> rcases s with _ | s <;>
      simp [eigFac, F, perm, Mat.entry, Mat.takeCols]

/-! ### `pinv`, `polar`: the block-wise tensordots are the tensordots of the SVD factors -/

/-- **`pinv`, assembly.** `pinvBlocked` (the block-wise form of `tensordot(VH.itranspose().iconj().iscale_axis(1/S),
U.itranspose().iconj())`) is, entry by entry, the product `VHᴴ · diag(1/S) · Uᴴ` over the inner leg of the factors
`U, S, VH` returned by the reduced `svdWorker` with cutoff (`ctransBM` = conjugate transpose of the block list; the
inverse `inv` and the conjugation `conj` are arbitrary functions). Legs: `(a.legs[1].conj(), a.legs[0].conj())`.
Together with `C05_svd_assemble_cutoff` (`U S VH` = kept part of `a`), `C05_svd_isometry` and the matrix-level
`C05_pinv` this gives the Moore–Penrose identities for the assembled arrays. (`hrr`: the column index lies inside the
block — `Mat.mul` produces exactly the `block rows` columns.) -/
theorem C05_pinv_assemble {α : Type} [CommRing α] (a : BMat α) (F : Nat → Blk α → SvdFac α) (keepP : α → Bool)
    (inv conj : α → α) (P : BMat α) (o : SvdOpts) (qL qR : Charge) (r : SvdOut α)
    (hP : pinvBlocked a F keepP inv conj = .ok P) (hfull : o.full = false) (hcut : o.cutoff = true)
    (hr : svdWorker a F keepP o qL qR = .ok r)
    (qi rr qj ss : Nat) (hrr : rr < a.leg0.blockSizes.getD qi 0) :
    P.bentry qj ss qi rr
      = bmul3 (ctransBM conj r.vh) (fun k c => inv (svdS (svdKept a F true keepP) k c)) (ctransBM conj r.u)
          r.vh.leg0.blockSizes qj ss qi rr
    ∧ P.leg0 = a.leg1.conj ∧ P.leg1 = a.leg0.conj := by
  refine ⟨pinv_assemble a F keepP inv conj P o qL qR r hP hfull hcut hr qi rr qj ss hrr, ?_⟩
  simp only [pinvBlocked, svdQtotalLR] at hP
  split at hP
  · cases hP
  · simp only [Except.ok.injEq] at hP
    subst hP
    exact ⟨rfl, rfl⟩

/-- **`polar`, assembly.** With `W, S, VH` the factors of the reduced `svdWorker` with cutoff:
`u = W · VH`; `p = VHᴴ · diag(S) · VH` on `(legs[1].conj(), legs[1])` for `left = False`; `p = W · diag(S) · Wᴴ` on
`(legs[0], legs[0].conj())` for `left = True` — entry by entry (column index inside the block). The algebra
(`u p = a`, resp. `p u = a`, `u` isometric, `p ≥ 0`) is `C05_polar` on top of `C05_svd_assemble`/`C05_svd_isometry`. -/
theorem C05_polar_assemble {α : Type} [CommRing α] (a : BMat α) (F : Nat → Blk α → SvdFac α) (keepP : α → Bool)
    (conj : α → α) (left : Bool) (U P : BMat α) (o : SvdOpts) (qL qR : Charge) (r : SvdOut α)
    (hP : polarBlocked a F keepP conj left = .ok (U, P)) (hfull : o.full = false) (hcut : o.cutoff = true)
    (hr : svdWorker a F keepP o qL qR = .ok r) :
    (∀ qi rr qj ss, ss < a.leg1.blockSizes.getD qj 0 →
      U.bentry qi rr qj ss = bmul3 r.u.blocks (fun _ _ => 1) r.vh.blocks r.vh.leg0.blockSizes qi rr qj ss)
    ∧ (left = false → ∀ qj ss qj' ss', ss' < a.leg1.blockSizes.getD qj' 0 →
      P.bentry qj ss qj' ss' = bmul3 (ctransBM conj r.vh) (fun k c => svdS (svdKept a F true keepP) k c) r.vh.blocks
        r.vh.leg0.blockSizes qj ss qj' ss')
    ∧ (left = true → ∀ qi rr qi' rr', rr' < a.leg0.blockSizes.getD qi' 0 →
      P.bentry qi rr qi' rr' = bmul3 r.u.blocks (fun k c => svdS (svdKept a F true keepP) k c) (ctransBM conj r.u)
        r.vh.leg0.blockSizes qi rr qi' rr') :=
  polar_assemble a F keepP conj left U P o qL qR r hP hfull hcut hr

namespace TenpyModel.C05.P2
/-- witness for `pinv` / `polar`: two stored blocks, a `2 × 2` permutation block and a `1 × 1` block `-1`, with exact
per-block SVDs over ℤ (singular values 1) -/
def exSvdA : BMat Int :=
  { leg0 := { mods := [1], slices := [0, 2, 3], charges := [[0], [1]], qconj := 1, sorted := true, bunched := true },
    leg1 := { mods := [1], slices := [0, 2, 3], charges := [[0], [1]], qconj := -1, sorted := true, bunched := true },
    qtotal := [0], blocks := [⟨1, 1, [[-1]]⟩, ⟨0, 0, [[0, 1], [1, 0]]⟩] }

def exSvdF : Nat → Blk Int → SvdFac Int :=
  fun i _ => if i = 0 then ⟨[[-1]], [1], [[1]]⟩ else ⟨[[0, 1], [1, 0]], [1, 1], [[1, 0], [0, 1]]⟩
end TenpyModel.C05.P2

/-- non-vacuity of `C05_pinv_assemble` / `C05_polar_assemble`: the runs succeed; `pinv` of a signed permutation matrix
is its transpose, the polar factors are `u = a`, `p = 1`. -/
example :
    (match pinvBlocked exSvdA exSvdF (fun _ => true) id id with
     | .ok P => decide (P.toDense = [[0, 1, 0], [1, 0, 0], [0, 0, -1]])
     | .error _ => false) = true
    ∧ (match polarBlocked exSvdA exSvdF (fun _ => true) id false with
     | .ok (u, p) => decide (u.toDense = exSvdA.toDense) && decide (p.toDense = [[1, 0, 0], [0, 1, 0], [0, 0, 1]])
     | .error _ => false) = true
    ∧ (match polarBlocked exSvdA exSvdF (fun _ => true) id true with
     | .ok (u, p) => decide (u.toDense = exSvdA.toDense) && decide (p.toDense = [[1, 0, 0], [0, 1, 0], [0, 0, 1]])
     | .error _ => false) = true
    ∧ (match svdWorker exSvdA exSvdF (fun _ => true) { cutoff := true } [0] [0] with
     | .ok r => decide (r.s = [1, 1, 1])
     | .error _ => false) = true := by
  decide

example (qi rr qj ss : Nat) (hrr : rr < exSvdA.leg0.blockSizes.getD qi 0) :
    ∀ P r, pinvBlocked exSvdA exSvdF (fun _ => true) id id = .ok P →
      svdWorker exSvdA exSvdF (fun _ => true) { cutoff := true } [0] [0] = .ok r →
      P.bentry qj ss qi rr
        = bmul3 (ctransBM id r.vh) (fun k c => id (svdS (svdKept exSvdA exSvdF true (fun _ => true)) k c))
            (ctransBM id r.u) r.vh.leg0.blockSizes qj ss qi rr :=
  fun P r hP hr =>
    (C05_pinv_assemble exSvdA exSvdF (fun _ => true) id id P { cutoff := true } [0] [0] r hP rfl rfl hr
      qi rr qj ss hrr).1

example (qi rr qj ss : Nat) (hss : ss < exSvdA.leg1.blockSizes.getD qj 0) :
    ∀ U P r, polarBlocked exSvdA exSvdF (fun _ => true) id false = .ok (U, P) →
      svdWorker exSvdA exSvdF (fun _ => true) { cutoff := true } [0] [0] = .ok r →
      U.bentry qi rr qj ss = bmul3 r.u.blocks (fun _ _ => 1) r.vh.blocks r.vh.leg0.blockSizes qi rr qj ss :=
  fun U P r hP hr =>
    (C05_polar_assemble exSvdA exSvdF (fun _ => true) id false U P { cutoff := true } [0] [0] r hP rfl rfl hr).1
      qi rr qj ss hss

/-- **`polar`, reconstruction at list level.** Stored blocks of the completely blocked `a` in pairwise different column
sectors (`left = False`) resp. row sectors (`left = True`); if every kept block satisfies the per-block polar identity
`u_b p_b = A_b` (resp. `p_b u_b = A_b`; `polarU`, `polarPR`, `polarPL` are the blocks the model builds — the identity
follows from the per-block SVD post-conditions by `C05_polar`) and the blocks dropped by the cutoff vanish, then
`u · p = a` (resp. `p · u = a`) entry by entry, the product taken over `legs[1]` (resp. `legs[0]`). -/
theorem C05_polar_reconstruct {α : Type} [CommRing α] (a : BMat α) (F : Nat → Blk α → SvdFac α) (keepP : α → Bool)
    (conj : α → α) (left : Bool) (U P : BMat α)
    (hP : polarBlocked a F keepP conj left = .ok (U, P))
    (hdrop : ∀ bi ∈ a.blocks.zipIdx, (svdCut true keepP (F bi.2 bi.1)).s.length = 0 → ∀ r s, bi.1.m.entry r s = 0) :
    (left = false → a.blocks.Pairwise (fun b b' => b.qj ≠ b'.qj) →
      (∀ b ∈ a.blocks, b.qj < a.leg1.blockSizes.length) →
      (∀ t ∈ svdKept a F true keepP, ∀ r s, ∑ c ∈ range (a.leg1.blockSizes.getD t.1.qj 0),
        (polarU a t).entry r c * (polarPR a conj t).entry c s = t.1.m.entry r s) →
      ∀ qi r qj s, bmul3 U.blocks (fun _ _ => 1) P.blocks a.leg1.blockSizes qi r qj s = a.bentry qi r qj s)
    ∧ (left = true → a.blocks.Pairwise (fun b b' => b.qi ≠ b'.qi) →
      (∀ b ∈ a.blocks, b.qi < a.leg0.blockSizes.length) →
      (∀ t ∈ svdKept a F true keepP, ∀ r s, ∑ c ∈ range (a.leg0.blockSizes.getD t.1.qi 0),
        (polarPL a conj t).entry r c * (polarU a t).entry c s = t.1.m.entry r s) →
      ∀ qi r qj s, bmul3 P.blocks (fun _ _ => 1) U.blocks a.leg0.blockSizes qi r qj s = a.bentry qi r qj s) := by
  obtain ⟨hU, hPR, hPL⟩ := polar_blocks a F keepP conj left U P hP
  constructor
  · intro hl hcols hin1 hpost qi r qj s
    rw [hU, hPR hl]
    rw [bmul3_assemble (svdKept a F true keepP) (fun t => (⟨t.1.qi, t.1.qj, polarU a t⟩ : Blk α))
      (fun t => (⟨t.1.qj, t.1.qj, polarPR a conj t⟩ : Blk α)) (fun t => t.1.qj) _ _ (fun _ _ => rfl) (fun _ _ => rfl)
      (svdKept_pairwise a F true keepP (fun b => b.qj) hcols) (fun t ht => hin1 _ (mem_svdKept' ht))]
    rw [← kept_sum_eq_bentry a F keepP true hdrop qi r qj s]
    apply congrArg
    apply List.map_congr_left
    intro t ht
    simp only [mul_one, hpost t ht r s]
  · intro hl hrows hin0 hpost qi r qj s
    rw [hU, hPL hl]
    rw [bmul3_assemble (svdKept a F true keepP) (fun t => (⟨t.1.qi, t.1.qi, polarPL a conj t⟩ : Blk α))
      (fun t => (⟨t.1.qi, t.1.qj, polarU a t⟩ : Blk α)) (fun t => t.1.qi) _ _ (fun _ _ => rfl) (fun _ _ => rfl)
      (svdKept_pairwise a F true keepP (fun b => b.qi) hrows) (fun t ht => hin0 _ (mem_svdKept' ht))]
    rw [← kept_sum_eq_bentry a F keepP true hdrop qi r qj s]
    apply congrArg
    apply List.map_congr_left
    intro t ht
    simp only [mul_one, hpost t ht r s]

/-- non-vacuity of `C05_polar_reconstruct` (`left = False`) on the witness `exSvdA` -/
example (qi r qj s : Nat) :
    ∀ U P, polarBlocked exSvdA exSvdF (fun _ => true) id false = .ok (U, P) →
      bmul3 U.blocks (fun _ _ => 1) P.blocks exSvdA.leg1.blockSizes qi r qj s = exSvdA.bentry qi r qj s := by
  intro U P hP
  have hnd : ∀ bi ∈ exSvdA.blocks.zipIdx, (svdCut true (fun _ => true) (exSvdF bi.2 bi.1)).s.length ≠ 0 := by decide
  refine (C05_polar_reconstruct exSvdA exSvdF (fun _ => true) id false U P hP
    (fun bi hbi hz => absurd hz (hnd bi hbi))).1 rfl (by decide) (by decide) ?_ qi r qj s
  intro t ht
  have hk : svdKept exSvdA exSvdF true (fun _ => true)
      = [(⟨1, 1, [[-1]]⟩, 0, ⟨[[-1]], [1], [[1]]⟩),
         (⟨0, 0, [[0, 1], [1, 0]]⟩, 1, ⟨[[0, 1], [1, 0]], [1, 1], [[1, 0], [0, 1]]⟩)] := by decide
  rw [hk] at ht
  have : t = (⟨1, 1, [[-1]]⟩, 0, ⟨[[-1]], [1], [[1]]⟩)
      ∨ t = (⟨0, 0, [[0, 1], [1, 0]]⟩, 1, ⟨[[0, 1], [1, 0]], [1, 1], [[1, 0], [0, 1]]⟩) := by simpa using ht
  rcases this with rfl | rfl
  · intro r s
    have hsz : exSvdA.leg1.blockSizes.getD 1 0 = 1 := by decide
    have hu : polarU exSvdA (⟨1, 1, [[-1]]⟩, 0, ⟨[[-1]], [1], [[1]]⟩) = [[-1]] := by decide
    have hp : polarPR exSvdA id (⟨1, 1, [[-1]]⟩, 0, ⟨[[-1]], [1], [[1]]⟩) = [[1]] := by decide
    simp only [hsz, hu, hp]
    rcases r with _ | r <;> rcases s with _ | s <;> simp [Mat.entry]
  · intro r s
    have hsz : exSvdA.leg1.blockSizes.getD 0 0 = 2 := by decide
    have hu : polarU exSvdA (⟨0, 0, [[0, 1], [1, 0]]⟩, 1, ⟨[[0, 1], [1, 0]], [1, 1], [[1, 0], [0, 1]]⟩)
        = [[0, 1], [1, 0]] := by decide
    have hp : polarPR exSvdA id (⟨0, 0, [[0, 1], [1, 0]]⟩, 1, ⟨[[0, 1], [1, 0]], [1, 1], [[1, 0], [0, 1]]⟩)
        = [[1, 0], [0, 1]] := by decide
    simp only [hsz, hu, hp]
    rcases r with _ | _ | r <;> rcases s with _ | _ | s <;> simp [Mat.entry, Finset.sum_range_succ]

/-- **the hypothesis `hsl` of the reduced-QR theorems** is "slices start at 0 and ascend": such slices are the
cumulative sums of their own block sizes. -/
theorem C05_slices_of_ascending (l : Leg) (h0 : l.slices.head? = some 0) (hs : l.slices.Pairwise (· ≤ ·)) :
    l.slices = slicesOfSizes l.blockSizes :=
  slices_of_ascending l.slices h0 hs

example : exQrA.leg0.slices = slicesOfSizes exQrA.leg0.blockSizes :=
  C05_slices_of_ascending exQrA.leg0 (by decide) (by decide)

/-! ### `orthogonal_columns` -/

/-- **`orthogonal_columns`, the walk.** For `M > N` the result is `split_legs` of `orthoCore` of the completely blocked
matrix, and the blocks produced by the walk over `argsort(_qdata[:, 0])` (`orthoProd`, in the order of the new right
leg) sit in strictly increasing row sectors `< block_number`; each is either the identity block of a sector WITHOUT
stored block (gap), or the completed columns `q[:, N:]` of the tall stored block of its sector. Block `k` of the right
leg has as many indices as block `k` has columns. -/
theorem C05_ortho_walk {α : Type} [Zero α] [One α] (a : BMat α) (F : Nat → Blk α → Mat α)
    (hMN : a.leg1.indLen < a.leg0.indLen)
    (hrows : (asCompletelyBlocked a).mat.blocks.Pairwise (fun b b' => b.qi ≠ b'.qi))
    (hin0 : ∀ b ∈ (asCompletelyBlocked a).mat.blocks, b.qi < (asCompletelyBlocked a).mat.leg0.blockNumber) :
    let m := (asCompletelyBlocked a).mat
    orthoColumns a F = .ok (splitLegs (orthoCore m F) (asCompletelyBlocked a).pipe0 none)
    ∧ (orthoCore m F).blocks = (orthoProd m F).zipIdx.map (fun tk => (⟨tk.1.1, tk.2, tk.1.2⟩ : Blk α))
    ∧ (orthoCore m F).leg1.slices = slicesOfSizes ((orthoProd m F).map (fun t => t.2.ncols))
    ∧ (orthoProd m F).Pairwise (fun e e' => e.1 < e'.1)
    ∧ (∀ e ∈ orthoProd m F, e.1 < m.leg0.blockNumber)
    ∧ (∀ e ∈ orthoProd m F,
        ((∀ x ∈ m.blocks, x.qi ≠ e.1) ∧ e.2 = Mat.eye (m.leg0.blockSizes.getD e.1 0))
        ∨ (∃ bi ∈ m.blocks.zipIdx, bi.1.qi = e.1 ∧ bi.1.m.ncols < bi.1.m.nrows ∧ e.2 = orthoOwn F bi)) := by
  intro m
  obtain ⟨h1, h2, h3⟩ := orthoProd_spec m F hrows hin0
  refine ⟨orthoColumns_eq a F hMN, rfl, rfl, h1, h3, ?_⟩
  intro e he
  rcases h2 e he with ⟨hno, hM⟩ | h
  · left
    refine ⟨?_, hM⟩
    intro x hx
    obtain ⟨i, hi⟩ := exists_zipIdx_of_mem hx
    exact hno (x, i) hi
  · right; exact h

/-- **`orthogonal_columns`, assembly** (on the completely blocked `m`; stored blocks in pairwise different row sectors).
Post-conditions of the per-block `np.linalg.qr(block, 'complete')` for the tall blocks: the completed columns
`q[:, N:]` are orthonormal (`hiso`) and orthogonal to the columns of the block (`hpost`). Then for every block `k` of
the new right leg and column `c` in it: (1) the column is orthogonal to every column `(qj, s)` of `m`;
(2) `orthoᴴ · ortho = 1` on the new leg. Identity blocks fill the sectors without stored block (`C05_ortho_walk`). -/
theorem C05_ortho_assemble {α : Type} [CommRing α] [StarRing α] (m : BMat α) (F : Nat → Blk α → Mat α)
    (hrows : m.blocks.Pairwise (fun b b' => b.qi ≠ b'.qi)) (hin0 : ∀ b ∈ m.blocks, b.qi < m.leg0.blockNumber)
    (hpost : ∀ bi ∈ m.blocks.zipIdx, bi.1.m.ncols < bi.1.m.nrows → ∀ s, ∀ c < (orthoOwn F bi).ncols,
      ∑ r ∈ range (m.leg0.blockSizes.getD bi.1.qi 0), star (bi.1.m.entry r s) * (orthoOwn F bi).entry r c = 0)
    (hiso : ∀ bi ∈ m.blocks.zipIdx, bi.1.m.ncols < bi.1.m.nrows →
      ∀ c < (orthoOwn F bi).ncols, ∀ c' < (orthoOwn F bi).ncols,
        ∑ r ∈ range (m.leg0.blockSizes.getD bi.1.qi 0), star ((orthoOwn F bi).entry r c) * (orthoOwn F bi).entry r c'
          = if c = c' then 1 else 0)
    (k k' : Nat) (e e' : Nat × Mat α) (hk : (orthoProd m F)[k]? = some e) (hk' : (orthoProd m F)[k']? = some e')
    (c c' : Nat) (hc : c < e.2.ncols) (hc' : c' < e'.2.ncols) :
    (∀ qj s, ∑ qi ∈ range m.leg0.blockNumber, ∑ r ∈ range (m.leg0.blockSizes.getD qi 0),
        star (m.bentry qi r qj s) * (orthoCore m F).bentry qi r k c = 0)
    ∧ ∑ qi ∈ range m.leg0.blockNumber, ∑ r ∈ range (m.leg0.blockSizes.getD qi 0),
        star ((orthoCore m F).bentry qi r k c) * (orthoCore m F).bentry qi r k' c'
      = if k = k' ∧ c = c' then 1 else 0 :=
  ⟨fun qj s => ortho_orthogonal m F hrows hin0 hpost k e hk c hc qj s,
   ortho_isometry m F hrows hin0 hiso k k' e e' hk hk' c c' hc hc'⟩

namespace TenpyModel.C05.P2
/-- witness for `orthogonal_columns`: row sectors of sizes 2, 1, 1; one tall stored block `(0, 0) = [[1], [0]]`;
sectors 1 and 2 carry no block -/
def exOrthoM : BMat Int :=
  { leg0 := { mods := [1], slices := [0, 2, 3, 4], charges := [[0], [1], [2]], qconj := 1, sorted := true, bunched := true },
    leg1 := { mods := [1], slices := [0, 1], charges := [[0]], qconj := -1, sorted := true, bunched := true },
    qtotal := [0], blocks := [⟨0, 0, [[1], [0]]⟩] }

/-- `np.linalg.qr(block, 'complete')[0]` of that block -/
def exOrthoF : Nat → Blk Int → Mat Int := fun _ _ => [[1, 0], [0, 1]]
end TenpyModel.C05.P2

/-- the concrete run: completed column `e₂` of the tall block, identity blocks for the two empty sectors -/
example :
    (match orthoColumns exOrthoM exOrthoF with
     | .ok o => decide (o.toDense = [[0, 0, 0], [1, 0, 0], [0, 1, 0], [0, 0, 1]]) && o.sane
     | .error _ => false) = true
    ∧ (orthoProd exOrthoM exOrthoF).map (·.1) = [0, 1, 2]
    ∧ (asCompletelyBlocked exOrthoM).mat = exOrthoM := by
  decide

/-- non-vacuity of `C05_ortho_walk` -/
example : (orthoProd exOrthoM exOrthoF).Pairwise (fun e e' => e.1 < e'.1) :=
  (C05_ortho_walk exOrthoM exOrthoF (by decide) (by decide) (by decide)).2.2.2.1

/-- non-vacuity of `C05_ortho_assemble`: the hypotheses hold for the witness -/
example (k k' : Nat) (e e' : Nat × Mat Int) (hk : (orthoProd exOrthoM exOrthoF)[k]? = some e)
    (hk' : (orthoProd exOrthoM exOrthoF)[k']? = some e') (c c' : Nat) (hc : c < e.2.ncols) (hc' : c' < e'.2.ncols) :
    ∑ qi ∈ range exOrthoM.leg0.blockNumber, ∑ r ∈ range (exOrthoM.leg0.blockSizes.getD qi 0),
        star ((orthoCore exOrthoM exOrthoF).bentry qi r k c) * (orthoCore exOrthoM exOrthoF).bentry qi r k' c'
      = if k = k' ∧ c = c' then 1 else 0 := by
  refine (C05_ortho_assemble exOrthoM exOrthoF (by decide) (by decide) ?_ ?_ k k' e e' hk hk' c c' hc hc').2
  · intro bi hbi _ s c hc
    have : bi = (⟨0, 0, [[1], [0]]⟩, 0) := by simpa [exOrthoM] using hbi
    subst this
    have hn : (orthoOwn exOrthoF (⟨0, 0, [[1], [0]]⟩, 0)).ncols = 1 := by decide
    have hsz : exOrthoM.leg0.blockSizes.getD 0 0 = 2 := by decide
    rw [hn] at hc
    have : c = 0 := by omega
    subst this
    simp only [hsz]
    rcases s with _ | s <;> simp [orthoOwn, exOrthoF, Mat.entry, Mat.takeCols, Mat.nrows, Mat.ncols, Finset.sum_range_succ]
  · intro bi hbi _ c hc c' hc'
    have : bi = (⟨0, 0, [[1], [0]]⟩, 0) := by simpa [exOrthoM] using hbi
    subst this
    have hn : (orthoOwn exOrthoF (⟨0, 0, [[1], [0]]⟩, 0)).ncols = 1 := by decide
    have hsz : exOrthoM.leg0.blockSizes.getD 0 0 = 2 := by decide
    rw [hn] at hc hc'
    have h0 : c = 0 := by omega
    have h0' : c' = 0 := by omega
    subst h0; subst h0'
    simp only [hsz]
    simp [orthoOwn, exOrthoF, Mat.entry, Mat.takeCols, Mat.nrows, Mat.ncols, Finset.sum_range_succ]
