import TenpyModel.C05.Fact
import Mathlib.Tactic.Ring
import Mathlib.Tactic.LinearCombination
/-!
Helper lemmas for the charge bookkeeping theorems of C05: arithmetic of `ChargeInfo.make_valid`
(component `mv1 m x = x % m`, `m = 1` meaning "no modulus") on single components and on charge vectors.
-/
namespace TenpyModel.C05
open TenpyModel.Core

/-! ### one component -/

theorem mv1_mv1 (m : Nat) (x : Int) : mv1 m (mv1 m x) = mv1 m x := by
  unfold mv1; split
  · rfl
  · exact Int.emod_emod_of_dvd x (Int.dvd_refl _)

theorem mv1_add_left (m : Nat) (a b : Int) : mv1 m (mv1 m a + b) = mv1 m (a + b) := by
  unfold mv1; split
  · rfl
  · exact Int.emod_add_emod a m b

theorem mv1_add_right (m : Nat) (a b : Int) : mv1 m (a + mv1 m b) = mv1 m (a + b) := by
  rw [Int.add_comm, mv1_add_left, Int.add_comm]

theorem mv1_mul (m : Nat) (s a : Int) : mv1 m (s * mv1 m a) = mv1 m (s * a) := by
  unfold mv1; split
  · rfl
  · rw [Int.mul_emod, Int.emod_emod_of_dvd a (Int.dvd_refl _), ← Int.mul_emod]

theorem mv1_neg (m : Nat) (a : Int) : mv1 m (-(mv1 m a)) = mv1 m (-a) := by
  have := mv1_mul m (-1) a
  simpa using this

/-- congruence modulo the component's modulus -/
def ceq (m : Nat) (x y : Int) : Prop := mv1 m x = mv1 m y

theorem ceq_refl (m x) : ceq m x x := rfl
theorem ceq.symm {m x y} (h : ceq m x y) : ceq m y x := Eq.symm h
theorem ceq.trans {m x y z} (h : ceq m x y) (h' : ceq m y z) : ceq m x z := Eq.trans h h'
theorem ceq_mv (m x) : ceq m (mv1 m x) x := mv1_mv1 m x
theorem ceq.add {m a a' b b'} (h : ceq m a a') (h' : ceq m b b') : ceq m (a + b) (a' + b') := by
  unfold ceq at *
  rw [← mv1_add_left, h, mv1_add_left, ← mv1_add_right, h', mv1_add_right]
theorem ceq.mul_left {m a a'} (s : Int) (h : ceq m a a') : ceq m (s * a) (s * a') := by
  unfold ceq at *
  rw [← mv1_mul, h, mv1_mul]
theorem ceq.neg {m a a'} (h : ceq m a a') : ceq m (-a) (-a') := by
  have := h.mul_left (-1); simpa using this
theorem ceq_of_eq {m x y} (h : x = y) : ceq m x y := by rw [h]; exact ceq_refl _ _

/-- gauge of a new leg (VH in `svd`, right leg of `orthogonal_columns`): with `c = make_valid(s (T - y))` on a leg of
direction `s`, the block charge `y + s c` is `T`. -/
theorem mv1_gauge (m : Nat) (s y T : Int) (hs : s = 1 ∨ s = -1) :
    mv1 m (s * mv1 m (s * (T + -y)) + y) = mv1 m T := by
  have h : ceq m (s * mv1 m (s * (T + -y)) + y) (s * (s * (T + -y)) + y) :=
    ((ceq_mv m _).mul_left s).add (ceq_refl m y)
  refine h.trans (ceq_of_eq ?_)
  rcases hs with rfl | rfl <;> ring

/-- the other side of the same leg (U in `svd`): direction `-s`. -/
theorem mv1_gauge_conj (m : Nat) (s x y T : Int) (hs : s = 1 ∨ s = -1) :
    mv1 m (x + -s * mv1 m (s * (T + -y))) = mv1 m (x + y + -T) := by
  have h : ceq m (x + -s * mv1 m (s * (T + -y))) (x + -s * (s * (T + -y))) :=
    (ceq_refl m x).add ((ceq_mv m _).mul_left (-s))
  refine h.trans (ceq_of_eq ?_)
  rcases hs with rfl | rfl <;> ring

/-! ### charge vectors -/

theorem makeValid_length (mods : List Nat) (q : Charge) (h : q.length = mods.length) :
    (makeValid mods q).length = mods.length := by
  simp [makeValid, h]

theorem cadd_length (a b : Charge) (n : Nat) (ha : a.length = n) (hb : b.length = n) : (cadd a b).length = n := by
  simp [cadd, ha, hb]
theorem cscale_length (s : Int) (a : Charge) : (cscale s a).length = a.length := by simp [cscale]
theorem cneg_length (a : Charge) : (cneg a).length = a.length := by simp [cneg]
theorem csub_length (a b : Charge) (n : Nat) (ha : a.length = n) (hb : b.length = n) : (csub a b).length = n := by
  simp [csub, cadd, cneg, ha, hb]

@[simp] theorem length_cscale (s : Int) (a : Charge) : (cscale s a).length = a.length := by simp [cscale]
@[simp] theorem length_cneg (a : Charge) : (cneg a).length = a.length := by simp [cneg]
@[simp] theorem length_cadd (a b : Charge) : (cadd a b).length = min a.length b.length := by simp [cadd]
@[simp] theorem length_csub (a b : Charge) : (csub a b).length = min a.length b.length := by simp [csub]
@[simp] theorem length_makeValid (mods : List Nat) (q : Charge) :
    (makeValid mods q).length = min mods.length q.length := by simp [makeValid]

/-- two charge vectors are equal after `make_valid` iff they are component-wise congruent -/
theorem makeValid_ext (mods : List Nat) (a b : Charge) (ha : a.length = mods.length) (hb : b.length = mods.length)
    (h : ∀ i (hi : i < mods.length), mv1 mods[i] (a[i]'(by omega)) = mv1 mods[i] (b[i]'(by omega))) :
    makeValid mods a = makeValid mods b := by
  apply List.ext_getElem
  · simp [makeValid, ha, hb]
  · intro i h1 h2
    simp only [makeValid, List.getElem_zipWith]
    have hi : i < mods.length := by simp [makeValid] at h1; omega
    exact h i hi

theorem makeValid_idem (mods : List Nat) (q : Charge) (h : q.length = mods.length) :
    makeValid mods (makeValid mods q) = makeValid mods q := by
  apply makeValid_ext _ _ _ (makeValid_length mods q h) h
  intro i hi
  simp only [makeValid, List.getElem_zipWith]
  exact mv1_mv1 _ _

end TenpyModel.C05

namespace TenpyModel.C05
open TenpyModel.Core

theorem ceq_mv_of {m : Nat} {x y : Int} (h : ceq m x y) : ceq m (mv1 m x) y := (ceq_mv m x).trans h

/-- `A ≡ B` from normal forms of both sides (all inner `mv1` removed) that agree -/
theorem ceq_of_norm {m : Nat} {A A' B B' : Int} (h1 : ceq m A A') (h2 : ceq m B B') (h : A' = B') : ceq m A B :=
  h1.trans ((ceq_of_eq h).trans h2.symm)

/-- removes every inner `mv1 m` of an expression built from `+`, unary `-`, and products `s * ·` -/
macro "ceq_strip" : tactic =>
  `(tactic| (apply_rules (maxDepth := 40) [ceq_mv_of, ceq.add, ceq.neg, ceq.mul_left, ceq_refl]))

/-! ### the gauge of the inner leg of `qr` -/

/-- what `qr` does to a charge of `a.legs[0]` to obtain the charge of the inner leg -/
def qrGauge (mods : List Nat) (q0 iq : Int) (qQ : Option Charge) (c : Charge) : Charge :=
  let c1 := match qQ with
    | some q => makeValid mods (csub c (cscale q0 q))
    | none => c
  if q0 ≠ iq then makeValid mods (cneg c1) else c1

theorem qrGauge_length (mods : List Nat) (q0 iq : Int) (qQ : Option Charge) (c : Charge)
    (hc : c.length = mods.length) (hq : ∀ q, qQ = some q → q.length = mods.length) :
    (qrGauge mods q0 iq qQ c).length = mods.length := by
  unfold qrGauge
  cases qQ with
  | none => by_cases h : q0 = iq <;> simp [h, hc]
  | some q => have := hq q rfl; by_cases h : q0 = iq <;> simp [h, hc, this]

end TenpyModel.C05

namespace TenpyModel.C05
open TenpyModel.Core

/-- `Q` side of the inner leg of `qr`: block charge `= make_valid(qtotal_Q)` (`0` for `qtotal_Q = None`) -/
theorem qrGauge_Q (mods : List Nat) (q0 iq : Int) (qQ : Option Charge) (c : Charge)
    (h0 : q0 = 1 ∨ q0 = -1) (hi : iq = 1 ∨ iq = -1)
    (hc : c.length = mods.length) (hq : ∀ q, qQ = some q → q.length = mods.length) :
    makeValid mods (cadd (cscale q0 c) (cscale (-iq) (qrGauge mods q0 iq qQ c)))
      = makeValid mods (qQ.getD (czero mods.length)) := by
  have hg := qrGauge_length mods q0 iq qQ c hc hq
  cases qQ with
  | none =>
    refine makeValid_ext _ _ _ (by simp [hc, hg]) (by simp [czero]) (fun i hi' => ?_)
    simp only [Option.getD_none, czero, List.getElem_replicate]
    by_cases h : q0 = iq
    · simp only [qrGauge, h, ne_eq, not_true_eq_false, ↓reduceIte, cadd, cscale, List.getElem_zipWith, List.getElem_map]
      refine ceq_of_norm (by ceq_strip) (by ceq_strip) ?_
      ring
    · simp only [qrGauge, h, ne_eq, not_false_eq_true, ↓reduceIte, cadd, cscale, cneg, makeValid,
        List.getElem_zipWith, List.getElem_map]
      refine ceq_of_norm (by ceq_strip) (by ceq_strip) ?_
      rcases h0 with rfl | rfl <;> rcases hi with rfl | rfl <;> first | exact absurd rfl h | ring1
  | some q =>
    have hql := hq q rfl
    refine makeValid_ext _ _ _ (by simp [hc, hg]) (by simp [hql]) (fun i hi' => ?_)
    simp only [Option.getD_some]
    by_cases h : q0 = iq
    · simp only [qrGauge, h, ne_eq, not_true_eq_false, ↓reduceIte, cadd, cscale, csub, cneg, makeValid,
        List.getElem_zipWith, List.getElem_map]
      refine ceq_of_norm (by ceq_strip) (by ceq_strip) ?_
      rcases hi with rfl | rfl <;> ring
    · simp only [qrGauge, h, ne_eq, not_false_eq_true, ↓reduceIte, cadd, cscale, csub, cneg, makeValid,
        List.getElem_zipWith, List.getElem_map]
      refine ceq_of_norm (by ceq_strip) (by ceq_strip) ?_
      rcases h0 with rfl | rfl <;> rcases hi with rfl | rfl <;> first | exact absurd rfl h | ring1

/-- `R` side: block charge `= make_valid(charge of the block of a − qtotal_Q)` -/
theorem qrGauge_R (mods : List Nat) (q0 iq : Int) (qQ : Option Charge) (c x1 : Charge)
    (h0 : q0 = 1 ∨ q0 = -1) (hi : iq = 1 ∨ iq = -1)
    (hc : c.length = mods.length) (hx : x1.length = mods.length) (hq : ∀ q, qQ = some q → q.length = mods.length) :
    makeValid mods (cadd (cscale iq (qrGauge mods q0 iq qQ c)) x1)
      = makeValid mods (csub (cadd (cscale q0 c) x1) (qQ.getD (czero mods.length))) := by
  have hg := qrGauge_length mods q0 iq qQ c hc hq
  cases qQ with
  | none =>
    refine makeValid_ext _ _ _ (by simp [hx, hg]) (by simp [czero, hc, hx]) (fun i hi' => ?_)
    simp only [Option.getD_none, czero]
    by_cases h : q0 = iq
    · simp only [qrGauge, h, ne_eq, not_true_eq_false, ↓reduceIte, cadd, cscale, csub, cneg,
        List.getElem_zipWith, List.getElem_map, List.getElem_replicate]
      refine ceq_of_norm (by ceq_strip) (by ceq_strip) ?_
      ring
    · simp only [qrGauge, h, ne_eq, not_false_eq_true, ↓reduceIte, cadd, cscale, csub, cneg, makeValid,
        List.getElem_zipWith, List.getElem_map, List.getElem_replicate]
      refine ceq_of_norm (by ceq_strip) (by ceq_strip) ?_
      rcases h0 with rfl | rfl <;> rcases hi with rfl | rfl <;> first | exact absurd rfl h | ring1
  | some q =>
    have hql := hq q rfl
    refine makeValid_ext _ _ _ (by simp [hx, hg]) (by simp [hql, hc, hx]) (fun i hi' => ?_)
    simp only [Option.getD_some]
    by_cases h : q0 = iq
    · simp only [qrGauge, h, ne_eq, not_true_eq_false, ↓reduceIte, cadd, cscale, csub, cneg, makeValid,
        List.getElem_zipWith, List.getElem_map]
      refine ceq_of_norm (by ceq_strip) (by ceq_strip) ?_
      rcases hi with rfl | rfl <;> ring
    · simp only [qrGauge, h, ne_eq, not_false_eq_true, ↓reduceIte, cadd, cscale, csub, cneg, makeValid,
        List.getElem_zipWith, List.getElem_map]
      refine ceq_of_norm (by ceq_strip) (by ceq_strip) ?_
      rcases h0 with rfl | rfl <;> rcases hi with rfl | rfl <;> first | exact absurd rfl h | ring1

theorem take_idxOf (cs : List Charge) (keep : List Nat) (qi k : Nat)
    (hk : (if keep.contains qi then ((keep.idxOf qi : Nat) : Int) else -1) = (k : Int)) :
    (keep.map (fun i => cs.getD i [])).getD k [] = cs.getD qi [] ∧ k < keep.length := by
  split at hk
  · rename_i hc
    have hmem := List.contains_iff_mem.mp hc
    have hlt := List.idxOf_lt_length_of_mem hmem
    have hk' : keep.idxOf qi = k := by exact_mod_cast hk
    subst hk'
    refine ⟨?_, hlt⟩
    rw [List.getD_eq_getElem?_getD, List.getElem?_map, List.getElem?_eq_getElem hlt]
    simp [List.getElem_idxOf hlt]
  · omega

/-- `LegCharge.project`: the charge of a surviving block is the charge of the block it came from -/
theorem project_charge (l : Leg) (mask : List Bool) (qi k : Nat) (hqi : qi < l.charges.length)
    (hk : (l.project mask).1.getD qi (-1) = (k : Int)) :
    (l.project mask).2.2.charges.getD k [] = l.charges.getD qi []
    ∧ k < (l.project mask).2.2.charges.length := by
  simp only [Leg.project, Leg.blockNumber, take?] at hk ⊢
  rw [List.getD_eq_getElem?_getD, List.getElem?_map, List.getElem?_range hqi] at hk
  simp only [Option.map_some, Option.getD_some] at hk
  have := take_idxOf l.charges _ qi k hk
  exact ⟨this.1, by simpa using this.2⟩

theorem project_qconj_mods (l : Leg) (mask : List Bool) :
    (l.project mask).2.2.qconj = l.qconj ∧ (l.project mask).2.2.mods = l.mods := by
  simp [Leg.project]

theorem getD_map_lt {β : Type} (f : Charge → β) (d : β) (l : List Charge) (k : Nat) (hk : k < l.length) :
    (l.map f).getD k d = f (l.getD k []) := by
  simp [List.getD_eq_getElem?_getD, List.getElem?_map, List.getElem?_eq_getElem hk]

theorem qrInner_charge (leg0 : Leg) (mask : List Bool) (o : QrOpts) (qi k : Nat)
    (hqi : qi < leg0.charges.length)
    (hk : if o.complete then k = qi else (qrInner leg0 mask o).1.getD qi (-1) = (k : Int)) :
    (qrInner leg0 mask o).2.charges.getD k []
      = qrGauge leg0.mods leg0.qconj o.innerQconj (o.qtotalQ.map (makeValid leg0.mods)) (leg0.charges.getD qi [])
    ∧ ((leg0.qconj = 1 ∨ leg0.qconj = -1) → (o.innerQconj = 1 ∨ o.innerQconj = -1) →
        (qrInner leg0 mask o).2.qconj = o.innerQconj)
    ∧ (qrInner leg0 mask o).2.mods = leg0.mods := by
  -- the projected (or full) leg
  have hbase : ∃ inner0 : Leg, inner0 = (if o.complete then leg0 else (leg0.project mask).2.2)
      ∧ inner0.charges.getD k [] = leg0.charges.getD qi [] ∧ k < inner0.charges.length
      ∧ inner0.qconj = leg0.qconj ∧ inner0.mods = leg0.mods := by
    refine ⟨_, rfl, ?_⟩
    by_cases hc : o.complete
    · simp only [hc, ↓reduceIte] at hk ⊢
      subst hk
      exact ⟨rfl, hqi, trivial, trivial⟩
    · simp only [hc, Bool.false_eq_true, ↓reduceIte] at hk ⊢
      have hk' : (leg0.project mask).1.getD qi (-1) = (k : Int) := by simpa [qrInner] using hk
      have := project_charge leg0 mask qi k hqi hk'
      have h2 := project_qconj_mods leg0 mask
      exact ⟨this.1, this.2, h2.1, h2.2⟩
  obtain ⟨inner0, hdef, hch, hlt, hqc, hmods⟩ := hbase
  have hsome : inner0.charges[k]? = some (leg0.charges[qi]?.getD []) := by
    rw [List.getElem?_eq_getElem hlt]
    simp only [List.getD_eq_getElem?_getD, List.getElem?_eq_getElem hlt, Option.getD_some] at hch
    rw [hch]
  simp only [qrInner, ← hdef]
  cases hQ : o.qtotalQ with
  | none =>
    by_cases hflip : inner0.qconj = o.innerQconj
    · simp [hflip, qrGauge, hsome, ← hqc, hmods]
    · simp [hflip, qrGauge, ← hqc, hmods, hsome]
  | some q =>
    by_cases hflip : inner0.qconj = o.innerQconj
    · simp [hflip, qrGauge, ← hqc, hmods, hsome]
    · simp [hflip, qrGauge, ← hqc, hmods, hsome]

end TenpyModel.C05
