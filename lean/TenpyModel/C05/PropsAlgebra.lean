import Mathlib.Data.Matrix.Mul
import Mathlib.Data.Matrix.Diagonal
import Mathlib.Data.Matrix.Block
import Mathlib.LinearAlgebra.Matrix.ConjTranspose
import Mathlib.Algebra.Star.Basic
import Mathlib.Algebra.Order.Field.Basic
import Mathlib.Algebra.Order.Ring.Abs
import Mathlib.Algebra.Order.Ring.Rat
import Mathlib.Algebra.Star.Rat
import Mathlib.Tactic.Ring
import Mathlib.Tactic.NormNum
/-!
C05, pure matrix algebra behind the linear-algebra wrappers (pinv, polar, QR phase fix, blockwise expm / eig).

Everything here is stated for plain Mathlib matrices over a commutative star ring; no dependency on the block-sparse
model.  The statements say: IF the per-block LAPACK routine returns factors with the stated identities (isometry,
real diagonal), THEN the formulas the wrapper code uses give what the docstring promises.  Three statements document
real defects of the code as written (`C05_polar_left_inplace_defect`, `C05_posdiag_phase_zero_defect`, and the
`example` after `C05_blockdiag_unitary`).
-/

open Matrix

set_option linter.unusedSectionVars false

section Star
variable {α : Type*} [CommRing α] [StarRing α]
variable {m n k : Type*} [Fintype m] [Fintype n] [Fintype k] [DecidableEq m] [DecidableEq n] [DecidableEq k]

/-- the inverse of a real (self-adjoint) scalar is real -/
theorem C05_star_inv_of_real {s t : α} (hst : s * t = 1) (hs : star s = s) : star t = t := by
  have h1 : s * star t = 1 := by
    have := congrArg star hst
    rwa [star_mul', star_one, hs] at this
  calc star t = star t * (s * t) := by rw [hst, mul_one]
    _ = (s * star t) * t := by ring
    _ = t := by rw [h1, one_mul]

example : star (2⁻¹ : ℚ) = 2⁻¹ := C05_star_inv_of_real (s := (2 : ℚ)) (by norm_num) (by simp)

/-- SVD gives the projectors: `A * P = U * Uᴴ` and `P * A = VHᴴ * VH` -/
theorem C05_pinv_projectors (U : Matrix m k α) (VH : Matrix k n α) (S Sinv : k → α)
    (hinv : ∀ i, S i * Sinv i = 1) (hU : Uᴴ * U = 1) (hV : VH * VHᴴ = 1) :
    (U * diagonal S * VH) * (VHᴴ * diagonal Sinv * Uᴴ) = U * Uᴴ ∧
    (VHᴴ * diagonal Sinv * Uᴴ) * (U * diagonal S * VH) = VHᴴ * VH := by
  have hSS : diagonal S * diagonal Sinv = (1 : Matrix k k α) := by
    rw [diagonal_mul_diagonal, ← diagonal_one]; congr 1; funext i; exact hinv i
  have hSS' : diagonal Sinv * diagonal S = (1 : Matrix k k α) := by
    rw [diagonal_mul_diagonal, ← diagonal_one]; congr 1; funext i; rw [mul_comm]; exact hinv i
  constructor
  · calc (U * diagonal S * VH) * (VHᴴ * diagonal Sinv * Uᴴ)
        = U * (diagonal S * ((VH * VHᴴ) * (diagonal Sinv * Uᴴ))) := by simp only [Matrix.mul_assoc]
      _ = U * ((diagonal S * diagonal Sinv) * Uᴴ) := by rw [hV, Matrix.one_mul, Matrix.mul_assoc]
      _ = U * Uᴴ := by rw [hSS, Matrix.one_mul]
  · calc (VHᴴ * diagonal Sinv * Uᴴ) * (U * diagonal S * VH)
        = VHᴴ * (diagonal Sinv * ((Uᴴ * U) * (diagonal S * VH))) := by simp only [Matrix.mul_assoc]
      _ = VHᴴ * ((diagonal Sinv * diagonal S) * VH) := by rw [hU, Matrix.one_mul, Matrix.mul_assoc]
      _ = VHᴴ * VH := by rw [hSS', Matrix.one_mul]

/-- `pinv`: the four Moore–Penrose identities for `P = VHᴴ * diag(1/S) * Uᴴ` given an SVD `A = U * diag S * VH`
with isometric `U`, `VHᴴ` and real, invertible singular values -/
theorem C05_pinv (U : Matrix m k α) (VH : Matrix k n α) (S Sinv : k → α)
    (hinv : ∀ i, S i * Sinv i = 1) (_hreal : ∀ i, star (S i) = S i)
    (hU : Uᴴ * U = 1) (hV : VH * VHᴴ = 1)
    (A : Matrix m n α) (P : Matrix n m α)
    (hA : A = U * diagonal S * VH) (hP : P = VHᴴ * diagonal Sinv * Uᴴ) :
    A * P * A = A ∧ P * A * P = P ∧ (A * P)ᴴ = A * P ∧ (P * A)ᴴ = P * A := by
  obtain ⟨hAP, hPA⟩ := C05_pinv_projectors U VH S Sinv hinv hU hV
  rw [← hA, ← hP] at hAP hPA
  refine ⟨?_, ?_, ?_, ?_⟩
  · rw [hAP, hA]
    calc U * Uᴴ * (U * diagonal S * VH) = U * ((Uᴴ * U) * (diagonal S * VH)) := by
          simp only [Matrix.mul_assoc]
      _ = U * diagonal S * VH := by rw [hU, Matrix.one_mul, Matrix.mul_assoc]
  · rw [hPA, hP]
    calc VHᴴ * VH * (VHᴴ * diagonal Sinv * Uᴴ) = VHᴴ * ((VH * VHᴴ) * (diagonal Sinv * Uᴴ)) := by
          simp only [Matrix.mul_assoc]
      _ = VHᴴ * diagonal Sinv * Uᴴ := by rw [hV, Matrix.one_mul, Matrix.mul_assoc]
  · rw [hAP, conjTranspose_mul, conjTranspose_conjTranspose]
  · rw [hPA, conjTranspose_mul, conjTranspose_conjTranspose]

/- non-vacuity: 1×1, `A = 2`, `P = 1/2` over ℚ -/
example : let A : Matrix (Fin 1) (Fin 1) ℚ := 1 * diagonal (fun _ => 2) * 1
    let P : Matrix (Fin 1) (Fin 1) ℚ := 1ᴴ * diagonal (fun _ => 2⁻¹) * 1ᴴ
    A * P * A = A ∧ P * A * P = P ∧ (A * P)ᴴ = A * P ∧ (P * A)ᴴ = P * A :=
  C05_pinv (1 : Matrix (Fin 1) (Fin 1) ℚ) 1 (fun _ => 2) (fun _ => 2⁻¹) (by intro; norm_num) (by intro; simp)
    (by simp) (by simp) _ _ rfl rfl

/-- `polar`: with `u = U * VH`, `pR = VHᴴ * diag S * VH`, `pL = U * diag S * Uᴴ` one has `u * pR = A = pL * u`, both
`p` hermitian, and `u` a partial isometry -/
theorem C05_polar (U : Matrix m k α) (VH : Matrix k n α) (S : k → α)
    (hreal : ∀ i, star (S i) = S i) (hU : Uᴴ * U = 1) (hV : VH * VHᴴ = 1)
    (A u : Matrix m n α) (pR : Matrix n n α) (pL : Matrix m m α)
    (hA : A = U * diagonal S * VH) (hu : u = U * VH)
    (hpR : pR = VHᴴ * diagonal S * VH) (hpL : pL = U * diagonal S * Uᴴ) :
    u * pR = A ∧ pL * u = A ∧ pRᴴ = pR ∧ pLᴴ = pL ∧ u * uᴴ * u = u := by
  have hS : (diagonal S)ᴴ = diagonal S := by
    rw [diagonal_conjTranspose]; congr 1; funext i; exact hreal i
  refine ⟨?_, ?_, ?_, ?_, ?_⟩
  · rw [hu, hpR, hA]
    calc U * VH * (VHᴴ * diagonal S * VH) = U * ((VH * VHᴴ) * (diagonal S * VH)) := by
          simp only [Matrix.mul_assoc]
      _ = U * diagonal S * VH := by rw [hV, Matrix.one_mul, Matrix.mul_assoc]
  · rw [hu, hpL, hA]
    calc U * diagonal S * Uᴴ * (U * VH) = U * (diagonal S * ((Uᴴ * U) * VH)) := by
          simp only [Matrix.mul_assoc]
      _ = U * diagonal S * VH := by rw [hU, Matrix.one_mul, Matrix.mul_assoc]
  · rw [hpR, conjTranspose_mul, conjTranspose_mul, conjTranspose_conjTranspose, hS, Matrix.mul_assoc]
  · rw [hpL, conjTranspose_mul, conjTranspose_mul, conjTranspose_conjTranspose, hS, Matrix.mul_assoc]
  · rw [hu, conjTranspose_mul]
    calc U * VH * (VHᴴ * Uᴴ) * (U * VH) = U * ((VH * VHᴴ) * ((Uᴴ * U) * VH)) := by
          simp only [Matrix.mul_assoc]
      _ = U * VH := by rw [hV, hU, Matrix.one_mul, Matrix.one_mul]

/- non-vacuity: 1×1 over ℚ, `A = 2 = 1 * 2` -/
example : let A : Matrix (Fin 1) (Fin 1) ℚ := 1 * diagonal (fun _ => 2) * 1
    let u : Matrix (Fin 1) (Fin 1) ℚ := 1 * 1
    let pR : Matrix (Fin 1) (Fin 1) ℚ := 1ᴴ * diagonal (fun _ => 2) * 1
    let pL : Matrix (Fin 1) (Fin 1) ℚ := 1 * diagonal (fun _ => 2) * 1ᴴ
    u * pR = A ∧ pL * u = A ∧ pRᴴ = pR ∧ pLᴴ = pL ∧ u * uᴴ * u = u :=
  C05_polar (1 : Matrix (Fin 1) (Fin 1) ℚ) 1 (fun _ => 2) (by intro; simp) (by simp) (by simp)
    _ _ _ _ rfl rfl rfl rfl

/-- DEFECT model: if the singular values get applied twice in the left factor (`U` scaled in place, then scaled
again), `pL' * u` is `U * diag (S²) * VH`, which is not `A` unless `S² = S` -/
theorem C05_polar_left_inplace_defect (U : Matrix m k α) (VH : Matrix k n α) (S : k → α)
    (hU : Uᴴ * U = 1) (u : Matrix m n α) (pL' : Matrix m m α)
    (hu : u = U * VH) (hpL : pL' = U * diagonal (fun i => S i * S i) * Uᴴ) :
    pL' * u = U * diagonal (fun i => S i * S i) * VH := by
  rw [hu, hpL]
  calc U * diagonal (fun i => S i * S i) * Uᴴ * (U * VH)
      = U * (diagonal (fun i => S i * S i) * ((Uᴴ * U) * VH)) := by simp only [Matrix.mul_assoc]
    _ = U * diagonal (fun i => S i * S i) * VH := by rw [hU, Matrix.one_mul, Matrix.mul_assoc]

/- the concrete miss: `U = VH = 1`, `S = 2` gives `pL' * u = 4 ≠ 2 = A` -/
example : let S : Fin 1 → ℚ := fun _ => 2
    let U : Matrix (Fin 1) (Fin 1) ℚ := 1
    let VH : Matrix (Fin 1) (Fin 1) ℚ := 1
    (U * diagonal (fun i => S i * S i) * Uᴴ) * (U * VH) ≠ U * diagonal S * VH := by
  intro S U VH h
  have := congrFun (congrFun h 0) 0
  simp [S, U, VH] at this

/-- `qr(pos_diag_R=True)`: multiplying `Q` by unit phases and `R` by their conjugates keeps `Q * R`, and keeps `Q`
isometric -/
theorem C05_posdiag_phase (Q : Matrix m k α) (R : Matrix k n α) (p : k → α)
    (hp : ∀ i, p i * star (p i) = 1) :
    (Q * diagonal p) * (diagonal (fun i => star (p i)) * R) = Q * R ∧
    (Qᴴ * Q = 1 → (Q * diagonal p)ᴴ * (Q * diagonal p) = 1) := by
  have h1 : diagonal p * diagonal (fun i => star (p i)) = (1 : Matrix k k α) := by
    rw [diagonal_mul_diagonal, ← diagonal_one]; congr 1; funext i; exact hp i
  have h2 : (diagonal p)ᴴ * diagonal p = (1 : Matrix k k α) := by
    rw [diagonal_conjTranspose, diagonal_mul_diagonal, ← diagonal_one]; congr 1; funext i
    rw [Pi.star_apply, mul_comm]; exact hp i
  constructor
  · calc (Q * diagonal p) * (diagonal (fun i => star (p i)) * R)
        = Q * ((diagonal p * diagonal (fun i => star (p i))) * R) := by simp only [Matrix.mul_assoc]
      _ = Q * R := by rw [h1, Matrix.one_mul]
  · intro hQ
    calc (Q * diagonal p)ᴴ * (Q * diagonal p) = (diagonal p)ᴴ * ((Qᴴ * Q) * diagonal p) := by
          rw [conjTranspose_mul]; simp only [Matrix.mul_assoc]
      _ = 1 := by rw [hQ, Matrix.one_mul, h2]

/- non-vacuity: phase `-1` over ℤ -/
example : ((1 : Matrix (Fin 1) (Fin 1) ℤ) * diagonal (fun _ => -1)) * (diagonal (fun i => star ((fun _ => -1 : Fin 1 → ℤ) i)) * 1)
      = 1 * 1 :=
  (C05_posdiag_phase (1 : Matrix (Fin 1) (Fin 1) ℤ) 1 (fun _ => -1) (by intro; simp)).1

end Star

section Phase
variable {K : Type*} [Field K] [LinearOrder K] [IsStrictOrderedRing K]

/-- the REPAIRED phase function (`1` on a zero diagonal entry): it is a unit phase and makes the diagonal entry
`|r| ≥ 0` -/
theorem C05_posdiag_phase_real (r : K) :
    let phase : K → K := fun r => if r = 0 then 1 else r / |r|
    phase r * phase r = 1 ∧ phase r * r = |r| ∧ 0 ≤ phase r * r := by
  intro phase
  have key : phase r * phase r = 1 ∧ phase r * r = |r| := by
    by_cases h : r = 0
    · subst h; simp [phase]
    · have ha : |r| ≠ 0 := abs_ne_zero.mpr h
      simp only [phase, if_neg h]
      constructor
      · rw [div_mul_div_comm, abs_mul_abs_self, div_self (mul_self_ne_zero.mpr h)]
      · rw [div_mul_eq_mul_div, ← abs_mul_abs_self, mul_div_assoc, div_self ha, mul_one]
  exact ⟨key.1, key.2, key.2 ▸ abs_nonneg r⟩

example : (fun r : ℚ => if r = 0 then 1 else r / |r|) (-3) * (-3) = |(-3 : ℚ)| :=
  (C05_posdiag_phase_real (-3 : ℚ)).2.1

/-- DEFECT model: the phase as coded, `r / |r|`, is not a unit phase at `r = 0` (Lean: `0 / 0 = 0`; numpy: NaN) -/
theorem C05_posdiag_phase_zero_defect :
    let phase0 : K → K := fun r => r / |r|
    phase0 0 = 0 ∧ phase0 0 * phase0 0 ≠ 1 := by
  intro phase0
  have h : phase0 0 = 0 := by simp [phase0]
  exact ⟨h, by rw [h, mul_zero]; exact zero_ne_one⟩

example : ((0 : ℚ) / |(0 : ℚ)|) * ((0 : ℚ) / |(0 : ℚ)|) ≠ 1 := (C05_posdiag_phase_zero_defect (K := ℚ)).2

end Phase

section Block
variable {α : Type*} [CommRing α]
variable {o : Type*} [Fintype o] [DecidableEq o] {m' : o → Type*} [∀ i, Fintype (m' i)] [∀ i, DecidableEq (m' i)]

/-- powers act blockwise -/
theorem C05_blockdiag_pow (A : (i : o) → Matrix (m' i) (m' i) α) (j : ℕ) :
    blockDiagonal' (fun i => A i ^ j) = (blockDiagonal' A) ^ j := by
  induction j with
  | zero => simp only [pow_zero]; exact blockDiagonal'_one
  | succ j ih => simp only [pow_succ]; rw [blockDiagonal'_mul, ih]

/-- `expm` blockwise: every finite truncation of a power series (coefficients `c`) of a block-diagonal matrix is the
block-diagonal matrix of the truncations -/
theorem C05_expm_blockdiag (A : (i : o) → Matrix (m' i) (m' i) α) (c : ℕ → α) (N : ℕ) :
    blockDiagonal' (fun i => ∑ j ∈ Finset.range N, c j • A i ^ j)
      = ∑ j ∈ Finset.range N, c j • (blockDiagonal' A) ^ j := by
  induction N with
  | zero =>
    simp only [Finset.range_zero, Finset.sum_empty]
    exact blockDiagonal'_zero
  | succ N ih =>
    simp only [Finset.sum_range_succ]
    rw [← ih, ← C05_blockdiag_pow, ← blockDiagonal'_smul, ← blockDiagonal'_add]
    rfl

/- non-vacuity: two 1×1 blocks `2, 3`, series `1 + x + x^2` -/
example : blockDiagonal' (fun i : Fin 2 => ∑ j ∈ Finset.range 3, (1 : ℚ) • (diagonal (fun _ => (i : ℚ) + 2) : Matrix (Fin 1) (Fin 1) ℚ) ^ j)
    = ∑ j ∈ Finset.range 3, (1 : ℚ) • (blockDiagonal' (fun i : Fin 2 => (diagonal (fun _ => (i : ℚ) + 2) : Matrix (Fin 1) (Fin 1) ℚ))) ^ j :=
  C05_expm_blockdiag _ _ _

/-- `eig`/`eigh` blockwise: blockwise eigen-decompositions assemble into one of the block-diagonal matrix, with a
diagonal eigenvalue matrix -/
theorem C05_eig_blockdiag (A V : (i : o) → Matrix (m' i) (m' i) α) (w : (i : o) → m' i → α)
    (h : ∀ i, A i * V i = V i * diagonal (w i)) :
    blockDiagonal' A * blockDiagonal' V = blockDiagonal' V * blockDiagonal' (fun i => diagonal (w i)) ∧
    blockDiagonal' (fun i => diagonal (w i)) = diagonal (fun ik : (Σ i, m' i) => w ik.1 ik.2) := by
  refine ⟨?_, blockDiagonal'_diagonal w⟩
  rw [← blockDiagonal'_mul, ← blockDiagonal'_mul]
  congr 1; funext i; exact h i

example : blockDiagonal' (fun _ : Fin 2 => (1 : Matrix (Fin 1) (Fin 1) ℚ)) * blockDiagonal' (fun _ : Fin 2 => (1 : Matrix (Fin 1) (Fin 1) ℚ))
    = blockDiagonal' (fun _ : Fin 2 => (1 : Matrix (Fin 1) (Fin 1) ℚ)) * blockDiagonal' (fun _ : Fin 2 => diagonal (fun _ : Fin 1 => (1 : ℚ))) :=
  (C05_eig_blockdiag _ _ (fun _ _ => 1) (by intro i; simp)).1

variable [StarRing α]

/-- blockwise isometries assemble into an isometry -/
theorem C05_blockdiag_unitary {n' : o → Type*} [∀ i, Fintype (n' i)] [∀ i, DecidableEq (n' i)]
    (U : (i : o) → Matrix (m' i) (n' i) α) (h : ∀ i, (U i)ᴴ * U i = 1) :
    (blockDiagonal' U)ᴴ * blockDiagonal' U = 1 := by
  rw [blockDiagonal'_conjTranspose, ← blockDiagonal'_mul, ← blockDiagonal'_one]
  congr 1; funext i; exact h i

example : (blockDiagonal' (fun _ : Fin 2 => (1 : Matrix (Fin 1) (Fin 1) ℚ)))ᴴ
    * blockDiagonal' (fun _ : Fin 2 => (1 : Matrix (Fin 1) (Fin 1) ℚ)) = 1 :=
  C05_blockdiag_unitary _ (by intro i; simp)

/- DEFECT model (full SVD with an unstored sector): if ONE block is left zero instead of an identity, the assembled
matrix is not unitary -/
example : let U : (i : Fin 2) → Matrix (Fin 1) (Fin 1) ℚ := fun i => if i = 0 then 1 else 0
    (blockDiagonal' U)ᴴ * blockDiagonal' U ≠ 1 := by
  intro U h
  have := congrFun (congrFun h ⟨1, 0⟩) ⟨1, 0⟩
  rw [blockDiagonal'_conjTranspose, ← blockDiagonal'_mul, blockDiagonal'_apply_eq] at this
  simp [U] at this

end Block
