import TenpyModel.C05.PropsAssemble
import TenpyModel.C05.P2_Slices
/-!
C05 / Props2 helpers, part 6: the walk of `orthogonal_columns` over the stored blocks sorted by row sector.
-/
namespace TenpyModel.C05.P2
open TenpyModel.Core TenpyModel.C05 Finset

section defs
variable {α : Type} [Zero α] [One α]

/-- the completed columns `q_block[:, N:]` of a tall block -/
def orthoOwn (F : Nat → Blk α → Mat α) (bi : Blk α × Nat) : Mat α :=
  (F bi.2 bi.1).takeCols ((List.range (bi.1.m.nrows - bi.1.m.ncols)).map (· + bi.1.m.ncols))

/-- one step of the loop `for b in np.argsort(a._qdata[:, 0])` of `orthogonal_columns` -/
def orthoStep (sizes : List Nat) (F : Nat → Blk α → Mat α) (st : Nat × List (Nat × Mat α)) (bi : Blk α × Nat) :
    Nat × List (Nat × Mat α) :=
  (bi.1.qi + 1,
   st.2 ++ (List.range (bi.1.qi - st.1)).map (fun t => (st.1 + t, (Mat.eye (sizes.getD (st.1 + t) 0) : Mat α)))
     ++ (if bi.1.m.ncols < bi.1.m.nrows then [(bi.1.qi, orthoOwn F bi)] else []))

/-- `(left qindex, block)` of `ortho`, in the order of the new right leg -/
def orthoProd (m : BMat α) (F : Nat → Blk α → Mat α) : List (Nat × Mat α) :=
  let st := (stableSort (fun (x y : Blk α × Nat) => decide (x.1.qi ≤ y.1.qi)) m.blocks.zipIdx).foldl
    (orthoStep m.leg0.blockSizes F) (0, [])
  st.2 ++ (List.range (m.leg0.blockNumber - st.1)).map (fun t =>
    (st.1 + t, (Mat.eye (m.leg0.blockSizes.getD (st.1 + t) 0) : Mat α)))

/-- `ortho` before `split_legs`, for the completely blocked matrix `m` -/
def orthoCore (m : BMat α) (F : Nat → Blk α → Mat α) : BMat α :=
  let prod := orthoProd m F
  let rq := m.leg1.qconj
  { leg0 := m.leg0,
    leg1 := Leg.mk' m.leg0.mods (slicesOfSizes (prod.map (fun t => t.2.ncols)))
      (prod.map (fun t => makeValid m.leg0.mods (cscale rq (csub m.qtotal (m.leg0.getCharge t.1))))) rq,
    qtotal := m.qtotal,
    blocks := prod.zipIdx.map (fun tk => ⟨tk.1.1, tk.2, tk.1.2⟩) }

theorem orthoColumns_eq (a : BMat α) (F : Nat → Blk α → Mat α) (h : a.leg1.indLen < a.leg0.indLen) :
    orthoColumns a F
      = .ok (splitLegs (orthoCore (asCompletelyBlocked a).mat F) (asCompletelyBlocked a).pipe0 none) := by
  have h1 : ¬ a.leg0.indLen < a.leg1.indLen := by omega
  have h2 : ¬ a.leg0.indLen = a.leg1.indLen := by omega
  simp only [orthoColumns, h1, h2, ↓reduceIte]
  rfl

end defs

/-! ### the stable sort by a key -/

theorem insertLE_perm_gen {β : Type} (le : β → β → Bool) (x : β) (l : List β) : (insertLE le x l).Perm (x :: l) := by
  induction l with
  | nil => exact List.Perm.refl _
  | cons y ys ih =>
    simp only [insertLE]
    split
    · exact List.Perm.refl _
    · exact (List.Perm.cons y ih).trans (List.Perm.swap x y ys)

theorem stableSort_perm_gen {β : Type} (le : β → β → Bool) (l : List β) : (stableSort le l).Perm l := by
  induction l with
  | nil => exact List.Perm.refl _
  | cons x xs ih => exact (insertLE_perm_gen le x _).trans (List.Perm.cons x ih)

theorem insertLE_sorted_key {β : Type} (key : β → Nat) (x : β) (l : List β)
    (h : l.Pairwise (fun a b => key a ≤ key b)) :
    (insertLE (fun a b => decide (key a ≤ key b)) x l).Pairwise (fun a b => key a ≤ key b) := by
  induction l with
  | nil => simp [insertLE]
  | cons y ys ih =>
    have hp := List.pairwise_cons.mp h
    simp only [insertLE]
    split
    · rename_i hxy
      have hxy : key x ≤ key y := by simpa using hxy
      refine List.pairwise_cons.mpr ⟨?_, h⟩
      intro z hz
      rcases List.mem_cons.mp hz with rfl | hz
      · exact hxy
      · exact le_trans hxy (hp.1 z hz)
    · rename_i hxy
      have hyx : key y ≤ key x := by
        have : ¬ key x ≤ key y := by simpa using hxy
        omega
      refine List.pairwise_cons.mpr ⟨?_, ih hp.2⟩
      intro z hz
      have := (insertLE_perm_gen _ x ys).mem_iff.mp hz
      rcases List.mem_cons.mp this with rfl | hz'
      · exact hyx
      · exact hp.1 z hz'

theorem stableSort_sorted_key {β : Type} (key : β → Nat) (l : List β) :
    (stableSort (fun a b => decide (key a ≤ key b)) l).Pairwise (fun a b => key a ≤ key b) := by
  induction l with
  | nil => simp [stableSort]
  | cons x xs ih => exact insertLE_sorted_key key x _ ih

theorem stableSort_strict_key {β : Type} (key : β → Nat) (l : List β) (h : l.Pairwise (fun a b => key a ≠ key b)) :
    (stableSort (fun a b => decide (key a ≤ key b)) l).Pairwise (fun a b => key a < key b) := by
  have hs := stableSort_sorted_key key l
  have hn : (stableSort (fun a b => decide (key a ≤ key b)) l).Pairwise (fun a b => key a ≠ key b) :=
    ((stableSort_perm_gen _ l).pairwise_iff (fun {a b} (hab : key a ≠ key b) => Ne.symm hab)).mpr h
  exact (List.Pairwise.and hs hn).imp (fun ⟨h1, h2⟩ => lt_of_le_of_ne h1 h2)

/-! ### the walk -/

section walk
variable {α : Type} [Zero α] [One α]

/-- what an element `(q, M)` produced by the walk is: the identity for a sector without stored block, or the completed
columns of the (tall) stored block of that sector -/
def OrthoGood (all : List (Blk α × Nat)) (sizes : List Nat) (F : Nat → Blk α → Mat α) (e : Nat × Mat α) : Prop :=
  ((∀ x ∈ all, x.1.qi ≠ e.1) ∧ e.2 = Mat.eye (sizes.getD e.1 0))
  ∨ (∃ bi ∈ all, bi.1.qi = e.1 ∧ bi.1.m.ncols < bi.1.m.nrows ∧ e.2 = orthoOwn F bi)

structure WalkInv (all : List (Blk α × Nat)) (sizes : List Nat) (F : Nat → Blk α → Mat α) (n0 : Nat)
    (suf : List (Blk α × Nat)) (st : Nat × List (Nat × Mat α)) : Prop where
  passed : ∀ x ∈ all, x.1.qi < st.1 ∨ x ∈ suf
  ahead : ∀ x ∈ suf, st.1 ≤ x.1.qi
  incr : st.2.Pairwise (fun e e' => e.1 < e'.1)
  below : ∀ e ∈ st.2, e.1 < st.1
  good : ∀ e ∈ st.2, OrthoGood all sizes F e
  inrange : ∀ e ∈ st.2, e.1 < n0

theorem walk_step (all : List (Blk α × Nat)) (sizes : List Nat) (F : Nat → Blk α → Mat α) (n0 : Nat)
    (bi : Blk α × Nat) (rest : List (Blk α × Nat)) (st : Nat × List (Nat × Mat α))
    (hS : (bi :: rest).Pairwise (fun x y => x.1.qi < y.1.qi)) (hall : bi ∈ all) (hn0 : bi.1.qi < n0)
    (inv : WalkInv all sizes F n0 (bi :: rest) st) : WalkInv all sizes F n0 rest (orthoStep sizes F st bi) := by
  have hp := List.pairwise_cons.mp hS
  have hst : st.1 ≤ bi.1.qi := inv.ahead bi List.mem_cons_self
  -- membership in the new list
  have hmem : ∀ e ∈ (orthoStep sizes F st bi).2, e ∈ st.2
      ∨ (st.1 ≤ e.1 ∧ e.1 < bi.1.qi ∧ e.2 = Mat.eye (sizes.getD e.1 0))
      ∨ (e.1 = bi.1.qi ∧ bi.1.m.ncols < bi.1.m.nrows ∧ e.2 = orthoOwn F bi) := by
    intro e he
    simp only [orthoStep, List.mem_append, List.mem_map, List.mem_range] at he
    rcases he with (he | ⟨t, ht, rfl⟩) | he
    · exact Or.inl he
    · exact Or.inr (Or.inl ⟨by simp, by simp; omega, rfl⟩)
    · split at he
      · rename_i htall
        simp only [List.mem_singleton] at he
        subst he
        exact Or.inr (Or.inr ⟨rfl, htall, rfl⟩)
      · cases he
  refine ⟨?_, ?_, ?_, ?_, ?_, ?_⟩
  · intro x hx
    rcases inv.passed x hx with h | h
    · left; simp only [orthoStep]; omega
    · rcases List.mem_cons.mp h with rfl | h'
      · left; simp [orthoStep]
      · right; exact h'
  · intro x hx
    have := hp.1 x hx
    simp only [orthoStep]; omega
  · simp only [orthoStep]
    rw [List.pairwise_append, List.pairwise_append]
    refine ⟨⟨inv.incr, ?_, ?_⟩, ?_, ?_⟩
    · rw [List.pairwise_map]
      exact (List.pairwise_lt_range (n := bi.1.qi - st.1)).imp (fun h => by simpa using h)
    · intro e he e' he'
      obtain ⟨t, _, rfl⟩ := List.mem_map.mp he'
      have := inv.below e he
      simp only; omega
    · split <;> simp
    · intro e he e' he'
      split at he'
      · simp only [List.mem_singleton] at he'
        subst he'
        rcases List.mem_append.mp he with h | h
        · have := inv.below e h; simp only; omega
        · obtain ⟨t, ht, rfl⟩ := List.mem_map.mp h
          have := List.mem_range.mp ht
          simp only; omega
      · cases he'
  · intro e he
    rcases hmem e he with h | ⟨_, h2, _⟩ | ⟨h1, _, _⟩
    · have := inv.below e h; simp only [orthoStep]; omega
    · simp only [orthoStep]; omega
    · simp only [orthoStep]; omega
  · intro e he
    rcases hmem e he with h | ⟨h1, h2, h3⟩ | ⟨h1, h2, h3⟩
    · exact inv.good e h
    · left
      refine ⟨?_, h3⟩
      intro x hx
      rcases inv.passed x hx with h | h
      · omega
      · rcases List.mem_cons.mp h with rfl | h'
        · omega
        · have := hp.1 x h'; omega
    · right
      exact ⟨bi, hall, h1.symm, h2, h3⟩
  · intro e he
    rcases hmem e he with h | ⟨_, h2, _⟩ | ⟨h1, _, _⟩
    · exact inv.inrange e h
    · omega
    · omega

theorem walk_fold (all : List (Blk α × Nat)) (sizes : List Nat) (F : Nat → Blk α → Mat α) (n0 : Nat)
    (suf : List (Blk α × Nat)) (st : Nat × List (Nat × Mat α))
    (hS : suf.Pairwise (fun x y => x.1.qi < y.1.qi)) (hall : ∀ x ∈ suf, x ∈ all) (hn0 : ∀ x ∈ suf, x.1.qi < n0)
    (inv : WalkInv all sizes F n0 suf st) : WalkInv all sizes F n0 [] (suf.foldl (orthoStep sizes F) st) := by
  induction suf generalizing st with
  | nil => exact inv
  | cons bi rest ih =>
    simp only [List.foldl_cons]
    exact ih _ (List.pairwise_cons.mp hS).2 (fun x hx => hall x (List.mem_cons_of_mem _ hx))
      (fun x hx => hn0 x (List.mem_cons_of_mem _ hx))
      (walk_step all sizes F n0 bi rest st hS (hall bi List.mem_cons_self) (hn0 bi List.mem_cons_self) inv)

/-- **the walk of `orthogonal_columns` is correct**: the produced blocks sit in strictly increasing row sectors, each
is the identity of a sector without stored block or the completed columns of the tall stored block of its sector. -/
theorem orthoProd_spec (m : BMat α) (F : Nat → Blk α → Mat α)
    (hrows : m.blocks.Pairwise (fun b b' => b.qi ≠ b'.qi)) (hin0 : ∀ b ∈ m.blocks, b.qi < m.leg0.blockNumber) :
    (orthoProd m F).Pairwise (fun e e' => e.1 < e'.1)
    ∧ (∀ e ∈ orthoProd m F, OrthoGood m.blocks.zipIdx m.leg0.blockSizes F e)
    ∧ (∀ e ∈ orthoProd m F, e.1 < m.leg0.blockNumber) := by
  have hpwz : (m.blocks.zipIdx).Pairwise (fun x y => x.1.qi ≠ y.1.qi) := by
    have := (List.zipIdx_map_fst 0 m.blocks).symm
    rw [this] at hrows
    exact (List.pairwise_map (f := Prod.fst) (R := fun x y : Blk α => x.qi ≠ y.qi)).mp hrows
  have hperm := stableSort_perm_gen (fun (x y : Blk α × Nat) => decide (x.1.qi ≤ y.1.qi)) m.blocks.zipIdx
  have hsorted := stableSort_strict_key (fun x : Blk α × Nat => x.1.qi) m.blocks.zipIdx hpwz
  have inv0 : WalkInv m.blocks.zipIdx m.leg0.blockSizes F m.leg0.blockNumber
      (stableSort (fun (x y : Blk α × Nat) => decide (x.1.qi ≤ y.1.qi)) m.blocks.zipIdx) (0, []) :=
    { passed := fun x hx => Or.inr (hperm.mem_iff.mpr hx)
      ahead := fun _ _ => Nat.zero_le _
      incr := List.Pairwise.nil
      below := fun _ h => absurd h List.not_mem_nil
      good := fun _ h => absurd h List.not_mem_nil
      inrange := fun _ h => absurd h List.not_mem_nil }
  have inv := walk_fold m.blocks.zipIdx m.leg0.blockSizes F m.leg0.blockNumber _ (0, []) hsorted
    (fun x hx => hperm.mem_iff.mp hx)
    (fun x hx => hin0 _ (List.fst_mem_of_mem_zipIdx (hperm.mem_iff.mp hx))) inv0
  simp only [orthoProd]
  generalize (stableSort (fun (x y : Blk α × Nat) => decide (x.1.qi ≤ y.1.qi)) m.blocks.zipIdx).foldl
    (orthoStep m.leg0.blockSizes F) (0, []) = st at inv
  have hpassed : ∀ x ∈ m.blocks.zipIdx, x.1.qi < st.1 := by
    intro x hx
    rcases inv.passed x hx with h | h
    · exact h
    · cases h
  refine ⟨?_, ?_, ?_⟩
  · rw [List.pairwise_append]
    refine ⟨inv.incr, ?_, ?_⟩
    · rw [List.pairwise_map]
      exact (List.pairwise_lt_range (n := m.leg0.blockNumber - st.1)).imp (fun h => by simpa using h)
    · intro e he e' he'
      obtain ⟨t, _, rfl⟩ := List.mem_map.mp he'
      have := inv.below e he
      simp only; omega
  · intro e he
    rcases List.mem_append.mp he with h | h
    · exact inv.good e h
    · obtain ⟨t, _, rfl⟩ := List.mem_map.mp h
      left
      refine ⟨?_, rfl⟩
      intro x hx
      have := hpassed x hx
      simp only; omega
  · intro e he
    rcases List.mem_append.mp he with h | h
    · exact inv.inrange e h
    · obtain ⟨t, ht, rfl⟩ := List.mem_map.mp h
      have := List.mem_range.mp ht
      simp only; omega

end walk

/-! ### assembly -/

section assemble
variable {α : Type} [CommRing α] [StarRing α]

omit [StarRing α] in
theorem eye_ncols (n : Nat) : (Mat.eye n : Mat α).ncols = n := by
  cases n with
  | zero => rfl
  | succ n => simp [Mat.eye, Mat.ofFn, Mat.ncols, List.range_succ_eq_map]

theorem eye_iso (n c c' : Nat) (hc : c < n) (hc' : c' < n) :
    ∑ r ∈ range n, star ((Mat.eye n : Mat α).entry r c) * (Mat.eye n : Mat α).entry r c' = if c = c' then 1 else 0 := by
  rw [Finset.sum_eq_single c]
  · simp [entry_eye, hc, hc']
  · intro r _ hr
    simp [entry_eye, hr]
  · intro h; exact absurd (Finset.mem_range.mpr hc) h

omit [StarRing α] in
theorem orthoCore_blocks (m : BMat α) (F : Nat → Blk α → Mat α) :
    (orthoCore m F).blocks = (orthoProd m F).zipIdx.map (fun tk => (⟨tk.1.1, tk.2, tk.1.2⟩ : Blk α))
    ∧ (orthoCore m F).leg1.blockSizes = (orthoProd m F).map (fun t => t.2.ncols)
    ∧ (orthoCore m F).leg0 = m.leg0 := by
  refine ⟨rfl, ?_, rfl⟩
  simp only [orthoCore, Leg.blockSizes, Leg.mk', sizesOfSlices_slicesOfSizes]

omit [StarRing α] in
theorem zipIdx_pairwise_fst {β : Type} (l : List (Nat × β)) (h : l.Pairwise (fun e e' => e.1 < e'.1)) :
    l.Pairwise (fun x y => (fun t : Nat × β => t.1) x ≠ (fun t : Nat × β => t.1) y) :=
  h.imp (fun h => Nat.ne_of_lt h)

/-- `orthoᴴ · ortho = 1` on the new right leg -/
theorem ortho_isometry (m : BMat α) (F : Nat → Blk α → Mat α)
    (hrows : m.blocks.Pairwise (fun b b' => b.qi ≠ b'.qi)) (hin0 : ∀ b ∈ m.blocks, b.qi < m.leg0.blockNumber)
    (hiso : ∀ bi ∈ m.blocks.zipIdx, bi.1.m.ncols < bi.1.m.nrows →
      ∀ c < (orthoOwn F bi).ncols, ∀ c' < (orthoOwn F bi).ncols,
        ∑ r ∈ range (m.leg0.blockSizes.getD bi.1.qi 0), star ((orthoOwn F bi).entry r c) * (orthoOwn F bi).entry r c'
          = if c = c' then 1 else 0)
    (k k' : Nat) (e e' : Nat × Mat α) (hk : (orthoProd m F)[k]? = some e) (hk' : (orthoProd m F)[k']? = some e')
    (c c' : Nat) (hc : c < e.2.ncols) (hc' : c' < e'.2.ncols) :
    ∑ qi ∈ range m.leg0.blockNumber, ∑ r ∈ range (m.leg0.blockSizes.getD qi 0),
        star ((orthoCore m F).bentry qi r k c) * (orthoCore m F).bentry qi r k' c'
      = if k = k' ∧ c = c' then 1 else 0 := by
  obtain ⟨hincr, hgood, hrange⟩ := orthoProd_spec m F hrows hin0
  have he : (e, k) ∈ (orthoProd m F).zipIdx := List.mem_zipIdx_iff_getElem?.mpr hk
  have he' : (e', k') ∈ (orthoProd m F).zipIdx := List.mem_zipIdx_iff_getElem?.mpr hk'
  have hsz : ∀ x ∈ (orthoProd m F).zipIdx,
      ((orthoProd m F).map (fun t => t.2.ncols)).getD x.2 0 = x.1.2.ncols := by
    intro x hx
    have := List.mem_zipIdx_iff_getElem?.mp hx
    simp [List.getD_eq_getElem?_getD, List.getElem?_map, this]
  have := biso_assemble (orthoProd m F).zipIdx (fun tk => (⟨tk.1.1, tk.2, tk.1.2⟩ : Blk α)) (fun tk => tk.2)
    m.leg0.blockSizes ((orthoProd m F).map (fun t => t.2.ncols)) m.leg0.blockNumber
    (fun _ _ => rfl) (pairwise_snd_zipIdx _ 0)
    (fun x hx => hrange x.1 (List.fst_mem_of_mem_zipIdx hx))
    (fun x hx y hy hq => zipIdx_snd_eq_of_pairwise (fun t : Nat × Mat α => t.1)
      (zipIdx_pairwise_fst _ hincr) hx hy hq)
    (fun x hx c hc c' hc' => by
      rw [hsz x hx] at hc hc'
      rcases hgood x.1 (List.fst_mem_of_mem_zipIdx hx) with ⟨_, hM⟩ | ⟨bi, hbi, hq, htall, hM⟩
      · simp only [hM] at hc hc' ⊢
        rw [eye_ncols] at hc hc'
        exact eye_iso _ c c' hc hc'
      · simp only [hM] at hc hc' ⊢
        rw [← hq]
        exact hiso bi hbi htall c hc c' hc')
    (e, k) (e', k') he he' c c' (by rw [hsz _ he]; exact hc) (by rw [hsz _ he']; exact hc')
  simpa [bentry_eq_bsum, (orthoCore_blocks m F).1] using this

/-- the columns of `ortho` are orthogonal to the columns of `m` -/
theorem ortho_orthogonal (m : BMat α) (F : Nat → Blk α → Mat α)
    (hrows : m.blocks.Pairwise (fun b b' => b.qi ≠ b'.qi)) (hin0 : ∀ b ∈ m.blocks, b.qi < m.leg0.blockNumber)
    (hpost : ∀ bi ∈ m.blocks.zipIdx, bi.1.m.ncols < bi.1.m.nrows → ∀ s, ∀ c < (orthoOwn F bi).ncols,
      ∑ r ∈ range (m.leg0.blockSizes.getD bi.1.qi 0), star (bi.1.m.entry r s) * (orthoOwn F bi).entry r c = 0)
    (k : Nat) (e : Nat × Mat α) (hk : (orthoProd m F)[k]? = some e) (c : Nat) (hc : c < e.2.ncols) (qj s : Nat) :
    ∑ qi ∈ range m.leg0.blockNumber, ∑ r ∈ range (m.leg0.blockSizes.getD qi 0),
        star (m.bentry qi r qj s) * (orthoCore m F).bentry qi r k c = 0 := by
  obtain ⟨hincr, hgood, hrange⟩ := orthoProd_spec m F hrows hin0
  have he : (e, k) ∈ (orthoProd m F).zipIdx := List.mem_zipIdx_iff_getElem?.mpr hk
  have hemem : e ∈ orthoProd m F := List.fst_mem_of_mem_zipIdx he
  have hu := fun qi r => bsum_unique (orthoProd m F).zipIdx (fun tk => (⟨tk.1.1, tk.2, tk.1.2⟩ : Blk α))
    (fun tk => tk.2) (fun _ _ => rfl) (pairwise_snd_zipIdx _ 0) (e, k) he qi r c
  simp only [bentry_eq_bsum, (orthoCore_blocks m F).1, hu]
  rw [Finset.sum_eq_single e.1]
  · simp only [↓reduceIte]
    rcases hgood e hemem with ⟨hno, _⟩ | ⟨bi, hbi, hq, htall, hM⟩
    · refine Finset.sum_eq_zero (fun r _ => ?_)
      rw [bsum_eq_zero_of_qi m.blocks e.1 (fun b hb => by
        obtain ⟨i, hi⟩ := exists_zipIdx_of_mem hb
        exact hno (b, i) hi)]
      simp
    · have hpwz : (m.blocks.zipIdx).Pairwise (fun x y => x.1.qi ≠ y.1.qi) := by
        have := (List.zipIdx_map_fst 0 m.blocks).symm
        rw [this] at hrows
        exact (List.pairwise_map (f := Prod.fst) (R := fun x y : Blk α => x.qi ≠ y.qi)).mp hrows
      have hblocks : m.blocks = m.blocks.zipIdx.map (fun x => x.1) := (List.zipIdx_map_fst 0 m.blocks).symm
      have hrow := fun r => bsum_unique_row m.blocks.zipIdx (fun x => x.1) (fun x => x.1.qi) (fun _ _ => rfl) hpwz
        bi hbi r qj s
      rw [← hblocks] at hrow
      rw [← hq]
      simp only [hrow]
      by_cases hqj : bi.1.qj = qj
      · simp only [hqj, ↓reduceIte, hM]
        exact hpost bi hbi htall s c (by rw [← hM]; exact hc)
      · simp [hqj]
  · intro q _ hq
    refine Finset.sum_eq_zero (fun r _ => ?_)
    simp [Ne.symm hq]
  · intro h; exact absurd (Finset.mem_range.mpr (hrange e hemem)) h

end assemble
end TenpyModel.C05.P2
