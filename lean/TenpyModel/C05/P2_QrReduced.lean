import TenpyModel.C05.P2_Project
/-!
C05 / Props2 helpers, part 3: the block lists of `qrWorker` in reduced mode.
-/
namespace TenpyModel.C05.P2
open TenpyModel.Core TenpyModel.C05

variable {α : Type}

/-- `zip` of two filtered copies of the same list whose filters agree -/
theorem zipWith_filterMap_aligned {β γ δ ε : Type} (l : List β) (g : β → Option γ) (h : β → Option δ)
    (f : γ → δ → ε) (hal : ∀ x ∈ l, (g x).isSome = (h x).isSome) :
    List.zipWith f (l.filterMap g) (l.filterMap h)
      = l.filterMap (fun x => match g x, h x with
          | some u, some v => some (f u v)
          | _, _ => none) := by
  induction l with
  | nil => rfl
  | cons x l ih =>
    have ih' := ih (fun y hy => hal y (List.mem_cons_of_mem _ hy))
    have hx := hal x List.mem_cons_self
    cases hg : g x with
    | none =>
      cases hh : h x with
      | none => simp [hg, hh, ih']
      | some v => simp [hg, hh] at hx
    | some u =>
      cases hh : h x with
      | none => simp [hg, hh] at hx
      | some v => simp [hg, hh, ih']

section
variable [Zero α] [Mul α]

/-- the block is skipped by `qr` (`cutoff is not None` and `q_block.size == 0`) -/
def qrSkip (F : Nat → Blk α → Mat α × Mat α) (o : QrOpts) (bi : Blk α × Nat) : Bool :=
  o.cutoff && ((F bi.2 bi.1).1.nrows * (F bi.2 bi.1).1.ncols == 0)

/-- the stored blocks (with their position in `_qdata`) that are factorized and kept -/
def qrKept (a : BMat α) (F : Nat → Blk α → Mat α × Mat α) (o : QrOpts) : List (Blk α × Nat) :=
  a.blocks.zipIdx.filter (fun bi => !qrSkip F o bi)

/-- `inner_leg_mask` of `qr` -/
def qrMask (a : BMat α) (F : Nat → Blk α → Mat α × Mat α) (phase conj : α → α) (o : QrOpts) : List Bool :=
  (qrKept a F o).foldl (fun m bi => maskSet m (a.leg0.slices.getD bi.1.qi 0) (qrFac F phase conj o bi).1.ncols)
    (List.replicate a.leg0.indLen false)

/-- `map_qind[qi]` as a block index of the inner leg -/
def qrKappa (a : BMat α) (F : Nat → Blk α → Mat α × Mat α) (phase conj : α → α) (o : QrOpts) (qi : Nat) : Nat :=
  ((a.leg0.project (qrMask a F phase conj o)).1.getD qi (-1)).toNat

theorem qrFacs_eq (a : BMat α) (F : Nat → Blk α → Mat α × Mat α) (phase conj : α → α) (o : QrOpts) :
    a.blocks.zipIdx.filterMap (fun bi =>
      if o.cutoff && ((F bi.2 bi.1).1.nrows * (F bi.2 bi.1).1.ncols == 0) then none
      else some (bi.1, qrFac F phase conj o bi))
    = (qrKept a F o).map (fun bi => (bi.1, qrFac F phase conj o bi)) := by
  unfold qrKept
  generalize a.blocks.zipIdx = l
  induction l with
  | nil => rfl
  | cons x l ih =>
    by_cases hx : qrSkip F o x
    · have hx' := hx
      unfold qrSkip at hx'
      simp only [List.filterMap_cons, hx', ↓reduceIte, List.filter_cons, hx, Bool.not_true, Bool.false_eq_true, ih]
    · have hx' := hx
      unfold qrSkip at hx'
      simp only [List.filterMap_cons, hx', Bool.false_eq_true, ↓reduceIte, List.filter_cons, hx, Bool.not_false, List.map_cons, ih]

theorem qrMask_eq (a : BMat α) (F : Nat → Blk α → Mat α × Mat α) (phase conj : α → α) (o : QrOpts) :
    ((qrKept a F o).map (fun bi => (bi.1, qrFac F phase conj o bi))).foldl
        (fun m (t : Blk α × Mat α × Mat α) => maskSet m (a.leg0.slices.getD t.1.qi 0) t.2.1.ncols)
        (List.replicate a.leg0.indLen false)
      = qrMask a F phase conj o := by
  unfold qrMask
  rw [List.foldl_map]

theorem qrInner_fst (leg0 : Leg) (mask : List Bool) (o : QrOpts) : (qrInner leg0 mask o).1 = (leg0.project mask).1 := rfl

theorem qrInner_blockSizes (leg0 : Leg) (mask : List Bool) (o : QrOpts) (hc : o.complete = false) :
    (qrInner leg0 mask o).2.blockSizes = (leg0.project mask).2.2.blockSizes := by
  simp only [qrInner, hc, Bool.false_eq_true, ↓reduceIte, Leg.blockSizes]
  cases o.qtotalQ <;> simp only [Option.map] <;> split <;> rfl

omit [Zero α] [Mul α] in
/-- the rows of `q._qdata` that survive `map_qind != -1` pair up with the factorized blocks -/
theorem rows_align {δ ε : Type} (l : List (Blk α × Nat)) (skip : Blk α × Nat → Bool) (mapQ : List Int) (κ : Nat → Nat)
    (hk : ∀ bi ∈ l, skip bi = false → mapQ.getD bi.1.qi (-1) = (κ bi.1.qi : Int))
    (hs : ∀ bi ∈ l, skip bi = true → mapQ.getD bi.1.qi (-1) = -1)
    (g : Blk α × Nat → δ) (f : Nat × Nat × Nat → δ → ε) :
    List.zipWith f
      (((l.map (·.1)).map (fun b => (b.qi, b.qj))).filterMap (fun ij =>
        let k := mapQ.getD ij.1 (-1); if k < 0 then none else some (ij.1, k.toNat, ij.2)))
      ((l.filter (fun bi => !skip bi)).map g)
    = (l.filter (fun bi => !skip bi)).map (fun bi => f (bi.1.qi, κ bi.1.qi, bi.1.qj) (g bi)) := by
  induction l with
  | nil => rfl
  | cons x l ih =>
    have ih' := ih (fun y hy => hk y (List.mem_cons_of_mem _ hy)) (fun y hy => hs y (List.mem_cons_of_mem _ hy))
    cases hx : skip x with
    | true =>
      have := hs x List.mem_cons_self hx
      simp only [List.map_cons, List.filterMap_cons, this, List.filter_cons, hx, Bool.not_true, Bool.false_eq_true,
        ↓reduceIte]
      simpa using ih'
    | false =>
      have := hk x List.mem_cons_self hx
      have hnn : ¬ ((κ x.1.qi : Int) < 0) := by omega
      simp only [List.map_cons, List.filterMap_cons, this, hnn, List.filter_cons, hx, Bool.not_false,
        ↓reduceIte, Int.toNat_natCast, List.zipWith_cons_cons]
      congr 1

omit [Zero α] [Mul α] in
theorem zipIdx_pairwise_qi (a : BMat α) (hrows : a.blocks.Pairwise (fun b b' => b.qi ≠ b'.qi)) :
    (a.blocks.zipIdx).Pairwise (fun x y => x.1.qi ≠ y.1.qi) := by
  have := (List.zipIdx_map_fst 0 a.blocks).symm
  rw [this] at hrows
  exact (List.pairwise_map (f := Prod.fst) (R := fun x y : Blk α => x.qi ≠ y.qi)).mp hrows

omit [Zero α] [Mul α] in
theorem qrKept_pairwise (a : BMat α) (F : Nat → Blk α → Mat α × Mat α) (o : QrOpts)
    (hrows : a.blocks.Pairwise (fun b b' => b.qi ≠ b'.qi)) :
    (qrKept a F o).Pairwise (fun x y => x.1.qi ≠ y.1.qi) :=
  List.Pairwise.filter _ (zipIdx_pairwise_qi a hrows)

omit [Zero α] [Mul α] in
theorem mem_qrKept {a : BMat α} {F : Nat → Blk α → Mat α × Mat α} {o : QrOpts} {bi : Blk α × Nat} :
    bi ∈ qrKept a F o ↔ bi ∈ a.blocks.zipIdx ∧ qrSkip F o bi = false := by
  simp [qrKept]

/-- **what `project` does with the mask of `qr`** (reduced mode): a factorized block keeps exactly the columns its `q`
factor has, and its sector is mapped injectively; the sector of a skipped block is dropped. -/
theorem qr_mask_project (a : BMat α) (F : Nat → Blk α → Mat α × Mat α) (phase conj : α → α) (o : QrOpts)
    (hrows : a.blocks.Pairwise (fun b b' => b.qi ≠ b'.qi))
    (hin0 : ∀ b ∈ a.blocks, b.qi < a.leg0.blockNumber) (hsz : a.leg0.blockSizes.length = a.leg0.blockNumber)
    (hsl : a.leg0.slices = slicesOfSizes a.leg0.blockSizes)
    (hcols : ∀ bi ∈ qrKept a F o, 0 < (qrFac F phase conj o bi).1.ncols
      ∧ (qrFac F phase conj o bi).1.ncols ≤ a.leg0.blockSizes.getD bi.1.qi 0) :
    let pr := a.leg0.project (qrMask a F phase conj o)
    (∀ bi ∈ qrKept a F o,
        pr.1.getD bi.1.qi (-1) = (qrKappa a F phase conj o bi.1.qi : Int)
        ∧ qrKappa a F phase conj o bi.1.qi < pr.2.2.blockSizes.length
        ∧ pr.2.2.blockSizes.getD (qrKappa a F phase conj o bi.1.qi) 0 = (qrFac F phase conj o bi).1.ncols)
    ∧ (∀ bi ∈ a.blocks.zipIdx, qrSkip F o bi = true → pr.1.getD bi.1.qi (-1) = -1)
    ∧ (qrKept a F o).Pairwise (fun x y => qrKappa a F phase conj o x.1.qi ≠ qrKappa a F phase conj o y.1.qi) := by
  intro pr
  have hpw := qrKept_pairwise a F o hrows
  have hlens := fun k hk => projLens_of_fold a.leg0 (qrKept a F o) (fun bi => bi.1.qi)
    (fun bi => (qrFac F phase conj o bi).1.ncols) hsl
    (fun t ht => by rw [hsz]; exact hin0 _ (List.fst_mem_of_mem_zipIdx (mem_qrKept.mp ht).1))
    (fun t ht => (hcols t ht).2) hpw k hk
  have hkept : ∀ bi ∈ qrKept a F o,
      (projLens a.leg0 (qrMask a F phase conj o)).getD bi.1.qi 0 = (qrFac F phase conj o bi).1.ncols := by
    intro bi hbi
    have hq : bi.1.qi < a.leg0.blockSizes.length := by
      rw [hsz]; exact hin0 _ (List.fst_mem_of_mem_zipIdx (mem_qrKept.mp hbi).1)
    exact (hlens bi.1.qi hq).1 bi hbi rfl
  have hA : ∀ bi ∈ qrKept a F o,
      pr.1.getD bi.1.qi (-1) = (((projKeep a.leg0 (qrMask a F phase conj o)).idxOf bi.1.qi : Nat) : Int)
      ∧ (projKeep a.leg0 (qrMask a F phase conj o)).idxOf bi.1.qi < (projKeep a.leg0 (qrMask a F phase conj o)).length
      ∧ pr.2.2.blockSizes.length = (projKeep a.leg0 (qrMask a F phase conj o)).length
      ∧ pr.2.2.blockSizes.getD ((projKeep a.leg0 (qrMask a F phase conj o)).idxOf bi.1.qi) 0
          = (qrFac F phase conj o bi).1.ncols := by
    intro bi hbi
    have hq : bi.1.qi < a.leg0.blockNumber := hin0 _ (List.fst_mem_of_mem_zipIdx (mem_qrKept.mp hbi).1)
    have hne : (projLens a.leg0 (qrMask a F phase conj o)).getD bi.1.qi 0 ≠ 0 := by
      rw [hkept bi hbi]; have := (hcols bi hbi).1; omega
    have := project_kept a.leg0 (qrMask a F phase conj o) bi.1.qi hq hsz hne
    rw [hkept bi hbi] at this
    exact this
  have hκ : ∀ bi ∈ qrKept a F o,
      qrKappa a F phase conj o bi.1.qi = (projKeep a.leg0 (qrMask a F phase conj o)).idxOf bi.1.qi := by
    intro bi hbi
    unfold qrKappa
    rw [(hA bi hbi).1]; simp
  refine ⟨?_, ?_, ?_⟩
  · intro bi hbi
    obtain ⟨h1, h2, h3, h4⟩ := hA bi hbi
    rw [hκ bi hbi]
    exact ⟨h1, by rw [h3]; exact h2, h4⟩
  · intro bi hbi hskip
    have hq : bi.1.qi < a.leg0.blockNumber := hin0 _ (List.fst_mem_of_mem_zipIdx hbi)
    apply project_dropped a.leg0 _ _ hq
    refine (hlens bi.1.qi (by rw [hsz]; exact hq)).2 ?_
    intro t ht hqt
    have ht' := mem_qrKept.mp ht
    have : t = bi := pairwise_eq_of_mem (κ := fun x : Blk α × Nat => x.1.qi) (zipIdx_pairwise_qi a hrows) ht'.1 hbi hqt
    rw [this] at ht'
    rw [hskip] at ht'
    exact absurd ht'.2 (by simp)
  · refine hpw.imp_of_mem ?_
    intro x y hx hy hxy heq
    rw [hκ x hx, hκ y hy] at heq
    have hmx : x.1.qi ∈ projKeep a.leg0 (qrMask a F phase conj o) := by
      refine (mem_projKeep _ _ _).mpr ⟨by rw [hsz]; exact hin0 _ (List.fst_mem_of_mem_zipIdx (mem_qrKept.mp hx).1), ?_⟩
      rw [hkept x hx]; have := (hcols x hx).1; omega
    have hmy : y.1.qi ∈ projKeep a.leg0 (qrMask a F phase conj o) := by
      refine (mem_projKeep _ _ _).mpr ⟨by rw [hsz]; exact hin0 _ (List.fst_mem_of_mem_zipIdx (mem_qrKept.mp hy).1), ?_⟩
      rw [hkept y hy]; have := (hcols y hy).1; omega
    exact hxy (idxOf_inj_of_mem hmx hmy heq)

/-- **the block lists of `qrWorker` in reduced mode**: one `Q` block `(qi, map_qind[qi])` and one `R` block
`(map_qind[qi], qj)` per factorized block, in storage order; inner leg of `R` = projected leg (block sizes). -/
theorem qrWorker_reduced_blocks [One α] (a : BMat α) (F : Nat → Blk α → Mat α × Mat α) (phase conj : α → α) (o : QrOpts)
    (hc : o.complete = false)
    (hk : ∀ bi ∈ qrKept a F o,
      (a.leg0.project (qrMask a F phase conj o)).1.getD bi.1.qi (-1) = (qrKappa a F phase conj o bi.1.qi : Int))
    (hs : ∀ bi ∈ a.blocks.zipIdx, qrSkip F o bi = true →
      (a.leg0.project (qrMask a F phase conj o)).1.getD bi.1.qi (-1) = -1) :
    (qrWorker a F phase conj o).q.blocks
      = (qrKept a F o).map (fun bi => (⟨bi.1.qi, qrKappa a F phase conj o bi.1.qi, (qrFac F phase conj o bi).1⟩ : Blk α))
    ∧ (qrWorker a F phase conj o).r.blocks
      = (qrKept a F o).map (fun bi => (⟨qrKappa a F phase conj o bi.1.qi, bi.1.qj, (qrFac F phase conj o bi).2⟩ : Blk α))
    ∧ (qrWorker a F phase conj o).r.leg0.blockSizes
      = (a.leg0.project (qrMask a F phase conj o)).2.2.blockSizes
    ∧ (qrWorker a F phase conj o).q.leg1.blockSizes = (qrWorker a F phase conj o).r.leg0.blockSizes := by
  have hblocks : a.blocks = a.blocks.zipIdx.map (·.1) := (List.zipIdx_map_fst 0 a.blocks).symm
  have hal := fun (δ ε : Type) (g : Blk α × Nat → δ) (f : Nat × Nat × Nat → δ → ε) =>
    rows_align a.blocks.zipIdx (qrSkip F o) (a.leg0.project (qrMask a F phase conj o)).1 (qrKappa a F phase conj o)
      (fun bi hbi hsk => hk bi (mem_qrKept.mpr ⟨hbi, hsk⟩)) hs g f
  simp only [← hblocks] at hal
  refine ⟨?_, ?_, ?_, ?_⟩
  · simp only [qrWorker, hc, Bool.not_false, ↓reduceIte, qrFacs_eq, qrMask_eq, qrInner_fst]
    have := hal _ _ (fun bi => (bi.1, qrFac F phase conj o bi))
      (fun row (t : Blk α × Mat α × Mat α) => (⟨row.1, row.2.1, t.2.1⟩ : Blk α))
    rw [qrKept]
    exact this
  · simp only [qrWorker, hc, Bool.not_false, ↓reduceIte, qrFacs_eq, qrMask_eq, qrInner_fst]
    have := hal _ _ (fun bi => (bi.1, qrFac F phase conj o bi))
      (fun row (t : Blk α × Mat α × Mat α) => (⟨row.2.1, row.2.2, t.2.2⟩ : Blk α))
    rw [qrKept]
    exact this
  · simp only [qrWorker, hc, Bool.not_false, ↓reduceIte, qrFacs_eq, qrMask_eq]
    exact qrInner_blockSizes _ _ _ hc
  · simp only [qrWorker, hc, Bool.not_false, ↓reduceIte]
    rfl

end
end TenpyModel.C05.P2
